import HmsProofs.Lemmas.SimHMach
/-!
# Specification-side equations for calls, `return`, `loop`, and the simulation statements of
the general fragment
-/
namespace HmsProofs.Sim
open Hms.Core Hms.Core.Comp Hms.Core.VM

/-! ## Calls -/

theorem evalExpr_call (cfg fuel sp ty base args st) :
    evalExpr cfg (fuel + 1) (.call sp ty base args false) st = evalCall cfg fuel sp base args st := by
  rw [evalExpr]
  rfl

theorem evalCall_step (cfg fuel sp base args st) :
    evalCall cfg (fuel + 1) sp base args st =
      match evalExpr cfg fuel base st with
      | (.ok f, st1) =>
        (match evalList cfg fuel (args.map (·.2)) st1 with
         | (.ok vals, st2) => applyFn cfg fuel sp f vals st2
         | (.error c, st2) => (.error c, st2))
      | (.error c, st1) => (.error c, st1) := by
  rw [evalCall, M_bind]
  rcases evalExpr cfg fuel base st with ⟨r1, st1⟩
  cases r1 with
  | error c => rfl
  | ok f =>
    simp only []
    rw [M_bind]
    generalize evalList cfg fuel (List.map (fun x => x.snd) args) st1 = r
    obtain ⟨r2, st2⟩ := r
    cases r2 <;> rfl

/-- An identifier that is neither a variable nor a global denotes the module's function. -/
theorem evalExpr_fnIdent (cfg fuel sp ty name g f s st m fd)
    (h1 : lookupScopes name st.scopes = none) (h2 : st.globals.lookup (st.module, name) = none)
    (h3 : resolveFn cfg.prog st.module name = some (m, fd)) :
    evalExpr cfg (fuel + 1) (.ident sp ty name g f s) st = (.ok (.fn m name), st) := by
  rw [evalExpr.eq_def]
  simp only []
  rw [M_bind, M_get]
  simp only [h1, h2, h3]
  rfl

theorem evalExpr_builtinIdent (cfg fuel sp ty name g f s st)
    (h1 : lookupScopes name st.scopes = none) (h2 : st.globals.lookup (st.module, name) = none)
    (h3 : resolveFn cfg.prog st.module name = none) (h4 : builtinNames.contains name = true) :
    evalExpr cfg (fuel + 1) (.ident sp ty name g f s) st = (.ok (.builtin name), st) := by
  rw [evalExpr.eq_def]
  simp only []
  rw [M_bind, M_get]
  simp only [h1, h2, h3, h4, if_true]
  rfl

theorem evalList_nil (cfg fuel st) : evalList cfg (fuel + 1) [] st = (.ok [], st) := by
  rw [evalList]; rfl

theorem evalList_cons (cfg fuel e es st) :
    evalList cfg (fuel + 1) (e :: es) st =
      match evalExpr cfg fuel e st with
      | (.ok v, st1) =>
        (match evalList cfg fuel es st1 with
         | (.ok vs, st2) => (.ok (v :: vs), st2)
         | (.error c, st2) => (.error c, st2))
      | (.error c, st1) => (.error c, st1) := by
  rw [evalList, M_bind]
  rcases evalExpr cfg fuel e st with ⟨r1, st1⟩
  cases r1 with
  | error c => rfl
  | ok v =>
    simp only []
    rw [M_bind]
    rcases evalList cfg fuel es st1 with ⟨r2, st2⟩
    cases r2 <;> rfl

theorem applyFn_fn (cfg fuel sp m name vals st fd) (h : findFn cfg.prog m name = some fd) :
    applyFn cfg (fuel + 1) sp (.fn m name) vals st = callBody cfg fuel sp m fd.params fd.body vals st := by
  rw [applyFn]
  simp only [h]

theorem applyFn_builtin (cfg fuel sp name vals st) :
    applyFn cfg (fuel + 1) sp (.builtin name) vals st = callBuiltin name vals sp st := by
  rw [applyFn]

/-- The body of a call, for parameters that are all ordinary (no singleton parameters). -/
theorem callBody_step (cfg : Cfg) (fuel : Nat) (sp : Span) (m : String) (params : List Param)
    (bsp : Span) (bty : Ty) (stmts : List Stmt) (oe : Option Expr) (vals : List Val) (st : St)
    (hp : ∀ p ∈ params, p.isSingleton = false) (hd : ¬ st.depth > cfg.callLimit)
    (hlen : params.length = vals.length) :
    callBody cfg (fuel + 1) sp m params (.mk bsp bty stmts oe) vals st =
      match evalBlock cfg fuel (.mk ⟨0, 0, 0, 0⟩ .null stmts oe)
          { st with scopes := [((params.map (·.name)).zip vals).reverse], module := m, depth := st.depth + 1 } with
      | (.error (.ret v), s1) => (.ok v, { s1 with scopes := st.scopes, module := st.module, depth := st.depth })
      | (.error .brk, s1) =>
        (.error (.unsupported "loop exit outside a loop"),
          { s1 with scopes := st.scopes, module := st.module, depth := st.depth })
      | (.error .cont, s1) =>
        (.error (.unsupported "loop exit outside a loop"),
          { s1 with scopes := st.scopes, module := st.module, depth := st.depth })
      | (r, s1) => (r, { s1 with scopes := st.scopes, module := st.module, depth := st.depth }) := by
  have hf1 : params.filter (fun p => !p.isSingleton) = params := by
    rw [List.filter_eq_self]; intro p hp'; simp [hp p hp']
  have hf2 : params.filter (fun p => p.isSingleton) = [] := by
    rw [List.filter_eq_nil_iff]; intro p hp'; simp [hp p hp']
  rw [callBody]
  simp only [hd, if_false, hf1, hf2, hlen, bne_self_eq_false, Bool.false_eq_true, List.filterMap_nil,
    List.length_nil, List.append_nil]
  rcases evalBlock cfg fuel (.mk ⟨0, 0, 0, 0⟩ .null stmts oe)
    { st with scopes := [((params.map (·.name)).zip vals).reverse], module := m, depth := st.depth + 1 } with ⟨r, s1⟩
  cases r with
  | ok v => rfl
  | error c => cases c <;> rfl

theorem callBody_overflow (cfg : Cfg) (fuel : Nat) (sp : Span) (m : String) (params : List Param) (body : Block)
    (vals : List Val) (st : St) (hd : st.depth > cfg.callLimit) :
    ∃ msg, callBody cfg (fuel + 1) sp m params body vals st = (.error (.fatal "StackOverFlow" msg sp), st) := by
  rw [callBody]
  simp only [hd, if_true]
  exact ⟨_, rfl⟩

theorem evalBlock_tail (cfg fuel sp ty stmts e st) :
    evalBlock cfg (fuel + 1) (.mk sp ty stmts (some e)) st =
      match evalStmts cfg fuel stmts st with
      | (.ok _, st1) => evalExpr cfg fuel e st1
      | (.error c, st1) => (.error c, st1) := by
  rw [evalBlock, M_bind]
  rcases evalStmts cfg fuel stmts st with ⟨r1, st1⟩
  cases r1 <;> rfl

/-! ## `return`, `break`, `continue`, `loop` -/

theorem evalStmt_ret (cfg fuel sp e st) :
    evalStmt cfg (fuel + 1) (.ret sp (some e)) st =
      match evalExpr cfg fuel e st with
      | (.ok v, st1) => (.error (.ret v), st1)
      | (.error c, st1) => (.error c, st1) := by
  rw [evalStmt, M_bind]
  rcases evalExpr cfg fuel e st with ⟨r1, st1⟩
  cases r1 <;> rfl

theorem evalStmt_brk (cfg fuel sp st) : evalStmt cfg (fuel + 1) (.brk sp) st = (.error .brk, st) := by
  rw [evalStmt]; rfl

theorem evalStmt_cont (cfg fuel sp st) : evalStmt cfg (fuel + 1) (.cont sp) st = (.error .cont, st) := by
  rw [evalStmt]; rfl

theorem evalStmt_loop (cfg fuel sp body st) :
    evalStmt cfg (fuel + 1) (.loopS sp body) st = loopRun cfg fuel none body st := by
  rw [evalStmt]

theorem loopRun_none_step (cfg fuel body st) :
    loopRun cfg (fuel + 1) none body st =
      match inScope (evalBlock cfg fuel body) st with
      | (.error .brk, s') => (.ok (), s')
      | (.error .cont, s') => loopRun cfg fuel none body s'
      | (.ok _, s') => loopRun cfg fuel none body s'
      | (.error e, s') => (.error e, s') := by
  rw [loopRun, M_bind]
  rfl

/-! ## Contexts -/

/-- What is fixed for a whole program run. `K`: the callable functions; `F`: a bound on the
frame sizes; `B`: the memory pointer below the first activation. -/
structure GCtx where
  cfg : Cfg
  code : Code
  lim : Limits
  mod : String
  s : VMState
  K : String → Prop
  F : Nat
  B : Int
  /-- `for` loops are allowed (then runs may extend the VM's iterator table) -/
  fr : Bool

/-- One activation: the frame `⟨fn, ·⟩ :: rest` with memory pointer `mp` (after the prologue),
the function's VM code `c`, its slot assignment `σ` (injective on `N`), label resolution `lab`,
tracked identifiers `T`, frame size `nv`, function table `φ`, source name `src` and cleanup
label `cl`. -/
structure Act where
  fn : String
  src : String
  cl : String
  rest : List Frame
  mp : Int
  c : List (RInstr × Span)
  σ : String → Nat
  lab : String → Nat
  N : String → Prop
  T : List String
  nv : Nat
  φ : String → Option String
  /-- `return` is allowed (not inside a `try` body) -/
  rt : Bool
  /-- cells of untracked variables that must keep their value: the iterators of the enclosing
  `for` loops (mangled name, value) -/
  ghost : List (String × Val)

/-- The specification state matches the fixed context: the program's module, no
globals, and the call depth bounds the memory pointer. -/
structure SpecOK (G : GCtx) (mp : Int) (st : St) : Prop where
  /-- in the contexts of the extended fragment (`for` loops, `len`/`push`): the heap invariant -/
  heap : G.fr = true → HeapInv st.heap
  module : st.module = G.mod
  globals : st.globals = []
  depth : mp ≤ G.B + (st.depth : Int) * (G.F : Int)

theorem HeapInv.empty : HeapInv #[] := fun a fs h => by simp at h

theorem SpecOK.world {G mp st} (h : SpecOK G mp st) (st' : St) (e : st' = { st with out := st'.out, heap := st'.heap })
    (hi : HeapInv st.heap → HeapInv st'.heap) : SpecOK G mp st' := by
  have hh : G.fr = true → HeapInv st'.heap := fun hfr => hi (h.heap hfr)
  rw [e]; exact ⟨hh, h.module, h.globals, h.depth⟩

theorem SpecOK.scopes_out {G mp st} (h : SpecOK G mp st) (st' : St)
    (e : st' = { st with scopes := st'.scopes, out := st'.out, heap := st'.heap })
    (hi : HeapInv st.heap → HeapInv st'.heap) : SpecOK G mp st' := by
  have hh : G.fr = true → HeapInv st'.heap := fun hfr => hi (h.heap hfr)
  rw [e]; exact ⟨hh, h.module, h.globals, h.depth⟩

/-- The function table is sound: a name it resolves is a callable function of the module, found
by the specification under the same name, and compiled under its mangled name. -/
def PhiOK (G : GCtx) (φ : String → Option String) : Prop :=
  ∀ name f, φ name = some f →
    f = mangleFnName G.mod name ∧ G.K name ∧
      ∃ fd, findFn G.cfg.prog G.mod name = some fd ∧ resolveFn G.cfg.prog G.mod name = some (G.mod, fd)

structure Act.OK (G : GCtx) (A : Act) : Prop where
  code : findCode G.code A.fn = some A.c
  inj : ∀ a b, A.N a → A.N b → A.σ a = A.σ b → a = b
  slot : ∀ m, A.N m → A.σ m < A.nv
  lo : 0 ≤ A.mp - (A.nv : Int)
  hi : A.mp < (G.lim.memory : Int)
  phi : PhiOK G A.φ
  key : cleanupKey G.mod A.src ∉ A.T
  println : G.s.globals.lookup "println" = none
  fnName : A.fn = mangleFnName G.mod A.src
  ghostN : ∀ p ∈ A.ghost, A.N p.1 ∧ ∃ y c, p.1 = mangleName G.mod ("$iter_" ++ y) c ∧ ("$iter_" ++ y) ∉ A.T
  ghostT : G.fr = true → ∀ y ∈ A.T, ("$iter_" ++ y) ∉ A.T

theorem Act.OK.good {G A} (h : Act.OK G A) : Good A.T A.N A.σ G.lim A.mp :=
  ⟨h.inj, fun m hm => by have := h.slot m hm; have := h.lo; have := h.hi; omega⟩

/-- The ghost cells hold their values. -/
def GhostOK (A : Act) (mem : Mem) : Prop :=
  ∀ p ∈ A.ghost, mem.cells.lookup (A.mp - (A.σ p.1 : Int)) = some p.2

/-- The invariant of an activation: `StRel` plus the cleanup label being visible. -/
structure GRel (G : GCtx) (A : Act) (scopes : CScopes) (vm : List (String × Nat)) (ss : SScopes)
    (mem : Mem) : Prop where
  rel : StRel G.mod A.T A.N A.σ G.lim A.mp scopes vm ss mem.cells
  key : ρS scopes (cleanupKey G.mod A.src) = some A.cl
  ghost : GhostOK A mem
  /-- the ghost cells belong to iterator variables declared earlier -/
  ghostC : ∀ p ∈ A.ghost, ∃ y c, p.1 = mangleName G.mod ("$iter_" ++ y) c ∧ c < cnt vm ("$iter_" ++ y)

/-! ## Simulation statements -/

/-- Inside the activation `⟨fn, ·⟩ :: rest`: the VM gets — handling on the way the exceptions
that are caught deeper — to a `throw` instruction; its interrupt finds the VM `frames'`
activations deeper, with `xs` more operands, memory `mem'` and world `out'`. -/
structure RunsT (G : GCtx) (fn : String) (rest : List Frame) (mp : Int) (ip : Nat) (stk : List SVal)
    (mem : Mem) (out : World) (msg : String) (sp : Span) (mem' : Mem) (out' : World) :
    Prop where
  run : ∀ k, ∃ k' s1 frames' ip' mp' xs,
    execHN G.code G.lim k' (mkSI G.s (⟨fn, ip⟩ :: rest) mp k stk mem out) = .next s1 ∧
    exec1 G.code G.lim s1 = .intr (.throw msg sp)
      (mkSI G.s (frames' ++ ⟨fn, ip'⟩ :: rest) mp' (k + k' + 1) (xs ++ stk) mem' out')
  inv : HeapInv out.heap → HeapInv out'.heap

instance {G fn rest mp ip stk mem out msg sp mem' out'} :
    CoeFun (RunsT G fn rest mp ip stk mem out msg sp mem' out')
      (fun _ => ∀ k, ∃ k' s1 frames' ip' mp' xs,
        execHN G.code G.lim k' (mkSI G.s (⟨fn, ip⟩ :: rest) mp k stk mem out) = .next s1 ∧
        exec1 G.code G.lim s1 = .intr (.throw msg sp)
          (mkSI G.s (frames' ++ ⟨fn, ip'⟩ :: rest) mp' (k + k' + 1) (xs ++ stk) mem' out')) := ⟨RunsT.run⟩

/-- The origin of a pushed value: outside the extended fragment (`fr = false`) values never carry one;
inside it a cell read (`l[i]`, `o.f`) may be passed on with the slot it came from. -/
def OrgOK (fr : Bool) (o : Option Org) : Prop := fr = false → o = none

theorem OrgOK.none (fr : Bool) : OrgOK fr none := fun _ => rfl

/-- Expressions: a value ↦ only the output of the specification state changed, the VM runs to
the end of the code with the value pushed, having produced the same output, and memory cells up
to `mp` (the caller's and this activation's) are untouched; a fatal error other than the
specification's own `StackOverFlow` ↦ the same fatal interrupt after the same output. -/
def SimGE (G : GCtx) (A : Act) (ip n : Nat) (stk : List SVal) (mem : Mem) (st : St)
    (r : Except Ctl Val × St) : Prop :=
  match r with
  | (.ok v, st') =>
    st' = { st with out := st'.out, heap := st'.heap } ∧
      ∃ mem' o, OrgOK G.fr o ∧
        Runs G.fr G.code G.lim G.s A.fn A.rest A.mp ip stk mem st.world (ip + n) (⟨v, o⟩ :: stk) mem' st'.world ∧
        MemLe G.fr A.mp mem mem'
  | (.error (.fatal kd m sp), st') =>
    kd ≠ "StackOverFlow" → RunsF G.code G.lim G.s A.fn A.rest A.mp ip stk mem st.world kd m sp st'.world
  | (.error (.throw msg sp), st') =>
    st' = { st with out := st'.out, heap := st'.heap } ∧
      ∃ mem', RunsT G A.fn A.rest A.mp ip stk mem st.world msg sp mem' st'.world ∧ MemLe G.fr A.mp mem mem'
  | (.error (.unsupported _), _) => True
  | (.error .timeout, _) => True
  | _ => False

/-- Statements inside the loops `loops` (break/continue labels; `lscopes`: the compiler scopes at
the innermost loop, `d` block levels up). -/
def SimGS {α : Type} (G : GCtx) (A : Act) (loops : List (String × String)) (lscopes : CScopes) (d : Nat)
    (ip n : Nat) (stk : List SVal) (mem : Mem) (Q : SScopes → Mem → Prop) (st : St)
    (r : Except Ctl α × St) : Prop :=
  match r with
  | (.ok _, st') =>
    st' = { st with scopes := st'.scopes, out := st'.out, heap := st'.heap } ∧
      ∃ mem', Runs G.fr G.code G.lim G.s A.fn A.rest A.mp ip stk mem st.world (ip + n) stk mem' st'.world ∧
        MemLe G.fr (A.mp - (A.nv : Int)) mem mem' ∧ Q st'.scopes mem'
  | (.error .brk, st') =>
    match loops with
    | (b, _) :: _ =>
      st' = { st with scopes := st'.scopes, out := st'.out, heap := st'.heap } ∧
        ∃ mem', Runs G.fr G.code G.lim G.s A.fn A.rest A.mp ip stk mem st.world (A.lab b) stk mem' st'.world ∧
          MemLe G.fr (A.mp - (A.nv : Int)) mem mem' ∧
          (ScopesRel A.T A.σ G.lim A.mp mem'.cells lscopes (st'.scopes.drop d) ∧ GhostOK A mem')
    | [] => False
  | (.error .cont, st') =>
    match loops with
    | (_, c) :: _ =>
      st' = { st with scopes := st'.scopes, out := st'.out, heap := st'.heap } ∧
        ∃ mem', Runs G.fr G.code G.lim G.s A.fn A.rest A.mp ip stk mem st.world (A.lab c) stk mem' st'.world ∧
          MemLe G.fr (A.mp - (A.nv : Int)) mem mem' ∧
          (ScopesRel A.T A.σ G.lim A.mp mem'.cells lscopes (st'.scopes.drop d) ∧ GhostOK A mem')
    | [] => False
  | (.error (.ret v), st') =>
    A.rt = true ∧ st' = { st with scopes := st'.scopes, out := st'.out, heap := st'.heap } ∧
      ∃ mem' o, OrgOK G.fr o ∧
        Runs G.fr G.code G.lim G.s A.fn A.rest A.mp ip stk mem st.world (A.lab A.cl) (⟨v, o⟩ :: stk) mem' st'.world ∧
        MemLe G.fr (A.mp - (A.nv : Int)) mem mem'
  | (.error (.fatal kd m sp), st') =>
    kd ≠ "StackOverFlow" → RunsF G.code G.lim G.s A.fn A.rest A.mp ip stk mem st.world kd m sp st'.world
  | (.error (.throw msg sp), st') =>
    st' = { st with scopes := st'.scopes, out := st'.out, heap := st'.heap } ∧
      ∃ mem', RunsT G A.fn A.rest A.mp ip stk mem st.world msg sp mem' st'.world ∧
        MemLe G.fr (A.mp - (A.nv : Int)) mem mem' ∧
        (ScopesRel A.T A.σ G.lim A.mp mem'.cells lscopes (st'.scopes.drop d) ∧ GhostOK A mem')
  | (.error (.unsupported _), _) => True
  | (.error .timeout, _) => True

/-- A call: from the callee's first instruction, arguments on the stack (first argument on
top), to the caller's frames with the result pushed. -/
structure RunsCall (G : GCtx) (g : String) (frames : List Frame) (mp : Int) (stk : List SVal) (mem : Mem)
    (out : World) (stk' : List SVal) (mem' : Mem) (out' : World) : Prop where
  run : ∀ k, ∃ k', execHN G.code G.lim k' (mkSI G.s (⟨g, 0⟩ :: frames) mp k stk mem out) =
    .next (mkSI G.s frames mp (k + k') stk' mem' out')
  inv : HeapInv out.heap → HeapInv out'.heap

instance {G g frames mp stk mem out stk' mem' out'} :
    CoeFun (RunsCall G g frames mp stk mem out stk' mem' out')
      (fun _ => ∀ k, ∃ k', execHN G.code G.lim k' (mkSI G.s (⟨g, 0⟩ :: frames) mp k stk mem out) =
        .next (mkSI G.s frames mp (k + k') stk' mem' out')) := ⟨RunsCall.run⟩

def RunsCallF (G : GCtx) (g : String) (frames : List Frame) (mp : Int) (stk : List SVal) (mem : Mem)
    (out : World) (kd msg : String) (sp : Span) (out' : World) : Prop :=
  ∀ k, ∃ k' s', execHN G.code G.lim k' (mkSI G.s (⟨g, 0⟩ :: frames) mp k stk mem out) =
      .intr (.fatal kd msg sp) s' ∧
    s'.st = { G.s.st with heap := out'.heap, out := out'.out } ∧ s'.globals = G.s.globals

/-- A call that ends in an exception nobody inside the callee catches. -/
structure RunsCallT (G : GCtx) (g : String) (frames : List Frame) (mp : Int) (stk0 stk : List SVal)
    (mem : Mem) (out : World) (msg : String) (sp : Span) (mem' : Mem) (out' : World) :
    Prop where
  run : ∀ k, ∃ k' s1 frames' mp' xs,
    execHN G.code G.lim k' (mkSI G.s (⟨g, 0⟩ :: frames) mp k stk0 mem out) = .next s1 ∧
    exec1 G.code G.lim s1 = .intr (.throw msg sp)
      (mkSI G.s (frames' ++ frames) mp' (k + k' + 1) (xs ++ stk) mem' out')
  inv : HeapInv out.heap → HeapInv out'.heap

instance {G g frames mp stk0 stk mem out msg sp mem' out'} :
    CoeFun (RunsCallT G g frames mp stk0 stk mem out msg sp mem' out')
      (fun _ => ∀ k, ∃ k' s1 frames' mp' xs,
        execHN G.code G.lim k' (mkSI G.s (⟨g, 0⟩ :: frames) mp k stk0 mem out) = .next s1 ∧
        exec1 G.code G.lim s1 = .intr (.throw msg sp)
          (mkSI G.s (frames' ++ frames) mp' (k + k' + 1) (xs ++ stk) mem' out')) := ⟨RunsCallT.run⟩

def SimCall (G : GCtx) (g : String) (frames : List Frame) (mp : Int) (args : List SVal) (stk : List SVal)
    (mem : Mem) (st : St) (r : Except Ctl Val × St) : Prop :=
  match r with
  | (.ok v, st') =>
    st' = { st with out := st'.out, heap := st'.heap } ∧
      ∃ mem' o, OrgOK G.fr o ∧
        RunsCall G g frames mp (args ++ stk) mem st.world (⟨v, o⟩ :: stk) mem' st'.world ∧
        MemLe G.fr mp mem mem'
  | (.error (.fatal kd m sp), st') =>
    kd ≠ "StackOverFlow" → RunsCallF G g frames mp (args ++ stk) mem st.world kd m sp st'.world
  | (.error (.throw msg sp), st') =>
    st' = { st with out := st'.out, heap := st'.heap } ∧
      ∃ mem', RunsCallT G g frames mp (args ++ stk) stk mem st.world msg sp mem' st'.world ∧
        MemLe G.fr mp mem mem'
  | (.error (.unsupported _), _) => True
  | (.error .timeout, _) => True
  | _ => False

/-! ## Composition with runs that end in a `throw` -/

theorem Runs.throw {G : GCtx} {fn : String} {rest : List Frame} {mp : Int} {ip stk mem out ip1 mem1 out1 msg sp mem2 out2}
    (ys : List SVal)
    (h1 : Runs G.fr G.code G.lim G.s fn rest mp ip stk mem out ip1 (ys ++ stk) mem1 out1)
    (h2 : RunsT G fn rest mp ip1 (ys ++ stk) mem1 out1 msg sp mem2 out2) :
    RunsT G fn rest mp ip stk mem out msg sp mem2 out2 := by
  refine ⟨fun k => ?_, fun hi => h2.inv (h1.inv hi)⟩
  obtain ⟨k1, e1⟩ := h1 k
  obtain ⟨k2, s1, frames', ip', mp', xs, e2, e3⟩ := h2 (k + k1)
  refine ⟨k1 + k2, s1, frames', ip', mp', xs ++ ys, ?_, ?_⟩
  · rw [execHN_add, e1]; exact e2
  · rw [e3]; simp only [List.append_assoc, Nat.add_assoc]

/-! ## `try` / `catch` on the specification side -/

/-- The error object of a caught exception. -/
def errCellOf (msg : String) (sp : Span) (file : String) : Cell :=
  .obj [("message", .str msg), ("line", .int (I64.ofInt sp.sl)), ("column", .int (I64.ofInt sp.sc)),
    ("filename", .str file)]

theorem errCellOf_main (msg : String) (sp : Span) : errCellOf msg sp "main" = errCell msg sp := rfl

theorem evalExpr_tryE (cfg fuel sp ty t ci c st) :
    evalExpr cfg (fuel + 1) (.tryE sp ty t ci c) st =
      match inScope (evalBlock cfg fuel t) st with
      | (.error (.throw msg tsp), s') =>
        inScope (do let o ← alloc (errCellOf msg tsp s'.module); declare ci o; evalBlock cfg fuel c) s'
      | r => r := by
  rw [evalExpr]
  rfl

/-- The state in which the catch block starts: a fresh scope with the error object bound. -/
def catchSt (ci msg : String) (tsp : Span) (s' : St) : St :=
  declareSt ci (.ref s'.heap.size)
    { s' with scopes := [] :: s'.scopes, heap := s'.heap.push (errCellOf msg tsp s'.module) }

theorem catch_run (cfg : Cfg) (fuel : Nat) (ci msg : String) (tsp : Span) (c : Block) (s' : St) :
    inScope (do let o ← alloc (errCellOf msg tsp s'.module); declare ci o; evalBlock cfg fuel c) s' =
      ((evalBlock cfg fuel c (catchSt ci msg tsp s')).1,
        { (evalBlock cfg fuel c (catchSt ci msg tsp s')).2 with
          scopes := (evalBlock cfg fuel c (catchSt ci msg tsp s')).2.scopes.tail }) := by
  rfl

theorem catchSt_frame (ci msg : String) (tsp : Span) (s' : St) :
    catchSt ci msg tsp s' =
      { s' with scopes := declScopes ci (.ref s'.heap.size) ([] :: s'.scopes),
                heap := s'.heap.push (errCellOf msg tsp s'.module) } := rfl

end HmsProofs.Sim
