import HmsProofs.Lemmas.SimFresh
import HmsProofs.Lemmas.SimPureExec
/-!
# Pure expressions through all three passes
-/
namespace HmsProofs.Sim
open Hms.Core Hms.Core.Comp Hms.Core.VM

/-- The labels defined by the code of a pure expression are pairwise distinct. -/
theorem cpE_labels_nodup (mod : String) (ρ : String → Option String) (e : Expr) (lm : LM) :
    (definedLabels (cpE mod ρ e lm).1).Nodup :=
  ((cpE_labels mod ρ (Frag.depthE e)).1 e lm (Nat.le_refl _)).nodup

/-- Labels generated from later counters are different from those of the expression. -/
theorem cpE_labels_disjoint (mod : String) (ρ : String → Option String) (e : Expr) (lm lm'' : LM)
    (ls : List String) (h : LblInv mod (cpE mod ρ e lm).2 lm'' ls) :
    ∀ l ∈ definedLabels (cpE mod ρ e lm).1, l ∉ ls := by
  have h1 := (cpE_labels mod ρ (Frag.depthE e)).1 e lm (Nat.le_refl _)
  have := (List.nodup_append.mp (h1.append h).nodup).2.2
  intro l hl hl'
  exact this l hl l hl' rfl

/-- **Pure expressions, the three passes together.** The function's symbolic code is
`pre ++ code(e) ++ post`, `relocate` gives `r`, the VM runs `renameVars r`; no label of `e`'s
code is defined again in `post`. Then from instruction index `nI pre` (the real instructions of
`pre`) the VM simulates the specification's evaluation of `e` (`SimP`). -/
theorem compiled_pure_correct (cfg : Cfg) (code : Code) (lim : Limits) (mod : String)
    (ρ : String → Option String) (fuel : Nat) (e : Expr) (lm : LM) (st : St) (s : VMState)
    (f : Frame) (rest : List Frame) (pre post : SCode) (r : NCode) (stk : List SVal) (mem : List (Int × Val))
    (hs : Frag.pureE e = true)
    (hrel : relocate (pre ++ (cpE mod ρ e lm).1 ++ post) = some r)
    (hpost : ∀ l ∈ definedLabels (cpE mod ρ e lm).1, l ∉ definedLabels post)
    (hcalls : s.calls = f :: rest) (hfn : findCode code f.fn = some (renameVars r))
    (henv : EnvRel ρ (slotFn r) lim (Frag.varsE e) st.scopes s.mp mem) (hheap : s.st.heap = st.heap) :
    SimP code lim s (nI pre) (nI (cpE mod ρ e lm).1) stk mem st (evalExpr cfg fuel e st) :=
  exec_pure cfg code lim mod ρ (slotFn r) (labelIndex (pre ++ (cpE mod ρ e lm).1 ++ post)) s f rest
    (renameVars r) hcalls hfn fuel e st (nI pre) stk mem lm hs
    (placed_of_relocate pre _ post r hrel (cpE_labels_nodup mod ρ e lm) hpost) henv hheap

end HmsProofs.Sim
