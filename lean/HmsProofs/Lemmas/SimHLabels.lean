import HmsProofs.Lemmas.SimHExpr
import HmsProofs.Lemmas.SimHStatic
/-!
# Label hygiene for the general fragment: every label of `cgFn …` is defined once
-/
namespace HmsProofs.Sim
open Hms.Core Hms.Core.Comp

theorem depthGE_pos (e : Expr) : 1 ≤ Frag.depthGE e := depthGE_pos0 e

theorem definedLabels_litTests (sp : Span) (name : String) : ∀ (lits : List Expr), definedLabels (litTests sp name lits) = [] := by
  intro lits
  induction lits with
  | nil => rfl
  | cons l ls ih =>
    have hl : definedLabels (litCode l) = [] := by cases l <;> rfl
    simp only [litTests, definedLabels_append, hl, ih,
      definedLabels_instr _ _ _ (rfl : isLabel (Instr.eqPopOnce : SInstr) = false),
      definedLabels_instr _ _ _ (rfl : isLabel (Instr.not : SInstr) = false),
      definedLabels_instr _ _ _ (rfl : isLabel (Instr.jumpIfFalse _ : SInstr) = false), definedLabels_nil,
      List.append_nil]

/-- The cascade defines no label; the case labels it generates are fresh. -/
theorem armTests_lbl (mod : String) (sp : Span) : ∀ (arms : List (List Expr × Expr)) (lm : LM),
    definedLabels (armTests mod sp arms lm).1 = [] ∧
    LblInv mod lm (armTests mod sp arms lm).2.2 (armTests mod sp arms lm).2.1 := by
  intro arms
  induction arms with
  | nil => intro lm; exact ⟨rfl, LblInv.nil mod lm⟩
  | cons a rest ih =>
    intro lm
    obtain ⟨h1, h2⟩ := ih (freshLabel mod lm "case").2
    refine ⟨by simp only [armTests, definedLabels_append, definedLabels_litTests, h1, List.append_nil], ?_⟩
    simp only [armTests]
    exact (LblInv.single mod lm "case" (by decide)).append h2

theorem cgEls_labels (mod : String) (ρ : String → Option String) (sp : Span) : ∀ (xs : List Expr) (lm : LM),
    LblInv mod lm (cgEls mod ρ sp xs lm).2 (definedLabels (cgEls mod ρ sp xs lm).1) := by
  intro xs
  induction xs with
  | nil => intro lm; exact LblInv.nil mod lm
  | cons x xs ih =>
    intro lm
    have h1 := (cpE_labels mod ρ (Frag.depthE x)).1 x lm (Nat.le_refl _)
    have h2 := ih (cpE mod ρ x lm).2
    simp only [cgEls, definedLabels_append,
      definedLabels_instr _ _ _ (rfl : isLabel (Instr.copyPush _ : SInstr) = false),
      definedLabels_instr _ _ _ (rfl : isLabel (Instr.hostCall _ : SInstr) = false), definedLabels_nil,
      List.append_nil]
    exact h1.append h2

theorem cgFields_labels (mod : String) (ρ : String → Option String) (sp : Span) : ∀ (fs : List (String × Expr)) (lm : LM),
    LblInv mod lm (cgFields mod ρ sp fs lm).2 (definedLabels (cgFields mod ρ sp fs lm).1) := by
  intro fs
  induction fs with
  | nil => intro lm; exact LblInv.nil mod lm
  | cons f fs ih =>
    intro lm
    have h1 := (cpE_labels mod ρ (Frag.depthE f.2)).1 f.2 lm (Nat.le_refl _)
    have h2 := ih (cpE mod ρ f.2 lm).2
    have hd : definedLabels [((Instr.dup : SInstr), sp), (.member f.1, sp)] = [] := rfl
    simp only [cgFields, definedLabels_append, hd,
      definedLabels_instr _ _ _ (rfl : isLabel (Instr.assign : SInstr) = false), definedLabels_nil,
      List.append_nil, List.nil_append]
    exact h1.append h2

theorem cgE_labels (mod : String) (ρ φ : String → Option String) : ∀ (n : Nat),
    (∀ (e : Expr) (lm : LM), Frag.depthGE e ≤ n →
      LblInv mod lm (cgE mod ρ φ e lm).2 (definedLabels (cgE mod ρ φ e lm).1)) ∧
    (∀ (b : Block) (lm : LM), Frag.depthGB b ≤ n →
      LblInv mod lm (cgB mod ρ φ b lm).2 (definedLabels (cgB mod ρ φ b lm).1)) ∧
    (∀ (args : List (String × Expr)) (lm : LM), Frag.depthGArgs args ≤ n →
      LblInv mod lm (cgArgs mod ρ φ args lm).2 (definedLabels (cgArgs mod ρ φ args lm).1)) ∧
    (∀ (sp : Span) (after : String) (arms : List (List Expr × Expr)) (nms : List String) (lm : LM),
      Frag.depthGArms arms ≤ n → arms.length = nms.length →
      ∃ inner, LblInv mod lm (cgArms mod ρ φ sp after arms nms lm).2 inner ∧
        (definedLabels (cgArms mod ρ φ sp after arms nms lm).1).Perm (nms ++ inner)) := by
  intro n
  induction n with
  | zero =>
    refine ⟨?_, ?_, ?_, ?_⟩
    · intro e lm hd; have := depthGE_pos e; omega
    · intro b lm hd
      obtain ⟨sp, ty, stmts, oe⟩ := b
      cases oe <;> simp [Frag.depthGB] at hd
    · intro args lm hd
      cases args <;> simp [Frag.depthGArgs] at hd
    · intro sp after arms nms lm hd
      cases arms <;> simp [Frag.depthGArms] at hd
  | succ n ih =>
    obtain ⟨ihE, ihB, ihA, ihM⟩ := ih
    refine ⟨?_, ?_, ?_, ?_⟩
    · intro e lm hd
      cases e
      case int | bool | str | null | none | float | range | anyobj | lambda | assign
          | blockE | tryE =>
        exact LblInv.nil mod lm
      case cast sp ty e =>
        have := ihE e lm (by simp only [Frag.depthGE] at hd; omega)
        simp only [cgE, definedLabels_append,
          definedLabels_instr _ _ _ (rfl : isLabel (Instr.cast _ _ : SInstr) = false), definedLabels_nil,
          List.append_nil]
        exact this
      case obj sp ty fs =>
        simp only [cgE, definedLabels_append,
          definedLabels_instr _ _ _ (rfl : isLabel (Instr.cloningPush _ : SInstr) = false), definedLabels_nil,
          List.nil_append]
        exact cgFields_labels mod ρ sp fs lm
      case member sp ty b name mop =>
        cases mop <;> try exact LblInv.nil mod lm
        simp only [Frag.depthGE] at hd
        simp only [cgE, definedLabels_append,
          definedLabels_instr _ _ _ (rfl : isLabel (Instr.member _ : SInstr) = false), definedLabels_nil,
          List.append_nil]
        exact ihE b lm (by omega)
      case list sp ty xs =>
        simp only [cgE, definedLabels_append,
          definedLabels_instr _ _ _ (rfl : isLabel (Instr.cloningPush _ : SInstr) = false), definedLabels_nil,
          List.nil_append]
        exact cgEls_labels mod ρ sp xs lm
      case index sp ty b i =>
        simp only [Frag.depthGE] at hd
        simp only [cgE, definedLabels_append,
          definedLabels_instr _ _ _ (rfl : isLabel (Instr.index : SInstr) = false), definedLabels_nil,
          List.append_nil]
        exact (ihE b lm (by omega)).append (ihE i _ (by omega))
      case matchE sp ty c arms dflt =>
        cases dflt with
        | none => exact LblInv.nil mod lm
        | some d =>
          simp only [Frag.depthGE] at hd
          simp only [cgE]
          have h1 := ihE c lm (by omega)
          generalize cgE mod ρ φ c lm = cc at h1 ⊢
          have h2 := LblInv.single mod cc.2 "match_after" (by decide)
          generalize freshLabel mod cc.2 "match_after" = aft at h2 ⊢
          obtain ⟨ht0, h3⟩ := armTests_lbl mod sp arms aft.2
          have hlen : arms.length = (armTests mod sp arms aft.2).2.1.length :=
            (armTests_length mod sp arms aft.2).symm
          generalize armTests mod sp arms aft.2 = ts at ht0 h3 hlen ⊢
          have h4 := LblInv.single mod ts.2.2 "match_default" (by decide)
          generalize freshLabel mod ts.2.2 "match_default" = dfl at h4 ⊢
          obtain ⟨inner, h5, hperm⟩ := ihM sp aft.1 arms ts.2.1 dfl.2 (by omega) hlen
          generalize cgArms mod ρ φ sp aft.1 arms ts.2.1 dfl.2 = bs at h5 hperm ⊢
          have h6 := ihE d bs.2 (by omega)
          generalize cgE mod ρ φ d bs.2 = cd at h6 ⊢
          refine (((((h1.append h2).append h3).append h4).append h5).append h6).perm (perm_of_count ?_)
          intro a
          have hc := hperm.count_eq a
          simp only [definedLabels_append, ht0,
            definedLabels_instr _ _ _ (rfl : isLabel (Instr.jump _ : SInstr) = false),
            definedLabels_instr _ _ _ (rfl : isLabel (Instr.drop : SInstr) = false),
            definedLabels_label, definedLabels_nil, List.count_append, List.count_cons, List.count_nil] at hc ⊢
          omega
      case grouped sp e =>
        rw [cgE]; exact ihE e lm (by simp only [Frag.depthGE] at hd; omega)
      case ident sp ty name g f si =>
        simp only [cgE]
        cases ρ name <;> exact LblInv.nil mod lm
      case pre sp ty op e =>
        have := ihE e lm (by simp only [Frag.depthGE] at hd; omega)
        simp only [cgE, definedLabels_append, definedLabels_instr _ _ _ (preI_notLabel' op), definedLabels_nil,
          List.append_nil]
        exact this
      case «infix» sp ty op l r =>
        simp only [Frag.depthGE] at hd
        have hdl : Frag.depthGE l ≤ n := by omega
        have hdr : Frag.depthGE r ≤ n := by omega
        by_cases hor : op = .or
        · subst hor
          simp only [cgE]
          have h1 := LblInv.single mod lm "return_true" (by decide)
          have h2 := LblInv.single mod (freshLabel mod lm "return_true").2 "after_infix" (by decide)
          have h3 := ihE l (freshLabel mod (freshLabel mod lm "return_true").2 "after_infix").2 hdl
          have h4 := ihE r (cgE mod ρ φ l (freshLabel mod (freshLabel mod lm "return_true").2 "after_infix").2).2 hdr
          refine (((h1.append h2).append h3).append h4).perm (perm_of_count ?_)
          intro a
          simp only [definedLabels_append, definedLabels_instr _ _ _ (rfl : isLabel (Instr.not : SInstr) = false),
            definedLabels_instr _ _ _ (rfl : isLabel (Instr.jumpIfFalse _ : SInstr) = false),
            definedLabels_instr _ _ _ (rfl : isLabel (Instr.jump _ : SInstr) = false),
            definedLabels_instr _ _ _ (rfl : isLabel (Instr.copyPush _ : SInstr) = false),
            definedLabels_label, definedLabels_nil, List.count_append, List.count_cons, List.count_nil]
          omega
        · by_cases hand : op = .and
          · subst hand
            simp only [cgE]
            have h1 := LblInv.single mod lm "return_false" (by decide)
            have h2 := LblInv.single mod (freshLabel mod lm "return_false").2 "after_infix" (by decide)
            have h3 := ihE l (freshLabel mod (freshLabel mod lm "return_false").2 "after_infix").2 hdl
            have h4 := ihE r (cgE mod ρ φ l (freshLabel mod (freshLabel mod lm "return_false").2 "after_infix").2).2 hdr
            refine (((h1.append h2).append h3).append h4).perm (perm_of_count ?_)
            intro a
            simp only [definedLabels_append,
              definedLabels_instr _ _ _ (rfl : isLabel (Instr.jumpIfFalse _ : SInstr) = false),
              definedLabels_instr _ _ _ (rfl : isLabel (Instr.jump _ : SInstr) = false),
              definedLabels_instr _ _ _ (rfl : isLabel (Instr.copyPush _ : SInstr) = false),
              definedLabels_label, definedLabels_nil, List.count_append, List.count_cons, List.count_nil]
            omega
          · have hlog : Frag.isLogical op = false := by
              cases op <;> first | rfl | exact absurd rfl hor | exact absurd rfl hand
            rw [cgE_infix _ _ _ _ _ _ _ _ _ hlog]
            have h3 := ihE l lm hdl
            have h4 := ihE r (cgE mod ρ φ l lm).2 hdr
            have : definedLabels ((arithI op).map (·, sp)) = [] := by
              cases op <;> rfl
            simp only [definedLabels_append, this, List.append_nil]
            exact h3.append h4
      case ifE sp ty c t el =>
        cases el with
        | none => exact LblInv.nil mod lm
        | some eb =>
          simp only [Frag.depthGE] at hd
          simp only [cgE]
          have h1 := ihE c lm (by omega)
          have h2 := LblInv.single mod (cgE mod ρ φ c lm).2 "if_after" (by decide)
          have h3 := LblInv.single mod (freshLabel mod (cgE mod ρ φ c lm).2 "if_after").2 "else" (by decide)
          have h4 := ihB t (freshLabel mod (freshLabel mod (cgE mod ρ φ c lm).2 "if_after").2 "else").2 (by omega)
          have h5 := ihB eb (cgB mod ρ φ t (freshLabel mod (freshLabel mod (cgE mod ρ φ c lm).2 "if_after").2 "else").2).2
            (by omega)
          refine ((((h1.append h2).append h3).append h4).append h5).perm (perm_of_count ?_)
          intro a
          simp only [definedLabels_append,
            definedLabels_instr _ _ _ (rfl : isLabel (Instr.jumpIfFalse _ : SInstr) = false),
            definedLabels_instr _ _ _ (rfl : isLabel (Instr.jump _ : SInstr) = false),
            definedLabels_label, definedLabels_nil, List.count_append, List.count_cons, List.count_nil]
          omega
      case call sp ty base args sw =>
        cases base <;> try exact LblInv.nil mod lm
        case member msp mty b nm mop =>
          cases mop <;> cases args <;> cases sw <;> try exact LblInv.nil mod lm
          simp only [Frag.depthGE] at hd
          have hdl : definedLabels [((Instr.member nm : SInstr), msp), (.copyPush (.int 0), sp), (.callVal, sp)] = [] := rfl
          simp only [cgE, definedLabels_append, hdl, List.append_nil]
          exact ihE b lm (by omega)
        rename_i isp ity name g f si
        simp only [Frag.depthGE] at hd
        simp only [cgE, definedLabels_append,
          definedLabels_instr _ _ _ (rfl : isLabel (Instr.callImm _ : SInstr) = false), definedLabels_nil,
          List.append_nil]
        exact ihA args lm (by omega)
    · intro b lm hd
      obtain ⟨sp, ty, stmts, oe⟩ := b
      cases stmts with
      | cons _ _ => exact LblInv.nil mod lm
      | nil =>
        cases oe with
        | none => exact LblInv.nil mod lm
        | some e =>
          rw [cgB]
          exact ihE e lm (by simp only [Frag.depthGB] at hd; omega)
    · intro args lm hd
      cases args with
      | nil => exact LblInv.nil mod lm
      | cons a as =>
        simp only [Frag.depthGArgs] at hd
        simp only [cgArgs, definedLabels_append]
        exact (ihA as lm (by omega)).append (ihE a.2 _ (by omega))
    · intro sp after arms nms lm hd hlen
      cases arms with
      | nil =>
        cases nms with
        | nil => exact ⟨[], LblInv.nil mod lm, by simp [cgArms, definedLabels_nil]⟩
        | cons _ _ => simp at hlen
      | cons a rest =>
        cases nms with
        | nil => simp at hlen
        | cons nm nms =>
          simp only [Frag.depthGArms] at hd
          have h1 := ihE a.2 lm (by omega)
          obtain ⟨inner, h2, hperm⟩ := ihM sp after rest nms (cgE mod ρ φ a.2 lm).2 (by omega)
            (by simpa using hlen)
          refine ⟨definedLabels (cgE mod ρ φ a.2 lm).1 ++ inner, ?_, ?_⟩
          · simp only [cgArms]; exact h1.append h2
          · simp only [cgArms]
            refine perm_of_count ?_
            intro x
            have hc := hperm.count_eq x
            simp only [definedLabels_append,
              definedLabels_instr _ _ _ (rfl : isLabel (Instr.jump _ : SInstr) = false),
              definedLabels_instr _ _ _ (rfl : isLabel (Instr.drop : SInstr) = false),
              definedLabels_label, definedLabels_nil, List.count_append, List.count_cons, List.count_nil] at hc ⊢
            omega

theorem cgE_lbl (mod : String) (ρ φ : String → Option String) (e : Expr) (lm : LM) :
    LblInv mod lm (cgE mod ρ φ e lm).2 (definedLabels (cgE mod ρ φ e lm).1) :=
  (cgE_labels mod ρ φ (Frag.depthGE e)).1 e lm (Nat.le_refl _)

theorem cgArgs_lbl (mod : String) (ρ φ : String → Option String) (args : List (String × Expr)) (lm : LM) :
    LblInv mod lm (cgArgs mod ρ φ args lm).2 (definedLabels (cgArgs mod ρ φ args lm).1) :=
  (cgE_labels mod ρ φ (Frag.depthGArgs args)).2.2.1 args lm (Nat.le_refl _)

theorem cgS_labels (mod fn : String) (φ : String → Option String) : ∀ (n : Nat),
    (∀ (loops : List (String × String)) (st : Stmt) (env : CEnv), Frag.depthGS st ≤ n →
      LblInv mod env.lm (cgS mod fn φ loops st env).2.lm (definedLabels (cgS mod fn φ loops st env).1)) ∧
    (∀ (loops : List (String × String)) (ss : List Stmt) (env : CEnv), Frag.depthGSs ss ≤ n →
      LblInv mod env.lm (cgSs mod fn φ loops ss env).2.lm (definedLabels (cgSs mod fn φ loops ss env).1)) ∧
    (∀ (loops : List (String × String)) (b : Block) (env : CEnv), Frag.depthGBS b ≤ n →
      LblInv mod env.lm (cgBS mod fn φ loops b env).2.lm (definedLabels (cgBS mod fn φ loops b env).1)) := by
  intro n
  induction n with
  | zero =>
    refine ⟨?_, ?_, ?_⟩
    · intro loops st env hd; have := depthGS_pos st; omega
    · intro loops ss env hd; cases ss <;> simp [Frag.depthGSs] at hd
    · intro loops b env hd; obtain ⟨_, _, _, _⟩ := b; simp [Frag.depthGBS] at hd
  | succ n ih =>
    obtain ⟨ihS, ihSs, ihB⟩ := ih
    refine ⟨?_, ?_, ?_⟩
    · intro loops st env hd
      cases st
      case typedef | trigger => exact LblInv.nil mod env.lm
      case forS sp name vty iter body =>
        obtain ⟨bsp, bty, stmts, boe⟩ := body
        cases iter <;> try exact LblInv.nil mod env.lm
        cases boe <;> try exact LblInv.nil mod env.lm
        rename_i rsp a b incl
        simp only [Frag.depthGS] at hd
        simp only [cgS]
        have h1 := LblInv.single mod env.lm "loop_head" (by decide)
        generalize freshLabel mod env.lm "loop_head" = head at h1 ⊢
        have h2 := LblInv.single mod head.2 "loop_update" (by decide)
        generalize freshLabel mod head.2 "loop_update" = upd at h2 ⊢
        have h3 := LblInv.single mod upd.2 "loop_end" (by decide)
        generalize freshLabel mod upd.2 "loop_end" = aft at h3 ⊢
        have h4 := cgE_lbl mod (ρS env.scopes) φ a aft.2
        generalize cgE mod (ρS env.scopes) φ a aft.2 = CA at h4 ⊢
        have h5 := cgE_lbl mod (ρS env.scopes) φ b CA.2
        generalize cgE mod (ρS env.scopes) φ b CA.2 = CB at h5 ⊢
        have hlm1 : (freshVar mod { env with scopes := [] :: env.scopes, lm := CB.2 } ("$iter_" ++ name)).2.lm = CB.2 := rfl
        generalize hFit : freshVar mod { env with scopes := [] :: env.scopes, lm := CB.2 } ("$iter_" ++ name) = fit at hlm1 ⊢
        have hlm2 : (freshVar mod fit.2 name).2.lm = fit.2.lm := rfl
        generalize hFhv : freshVar mod fit.2 name = fhv at hlm2 ⊢
        have h6 := ihSs ((aft.1, upd.1) :: loops) stmts fhv.2 (by omega)
        rw [hlm2, hlm1] at h6
        generalize cgSs mod fn φ ((aft.1, upd.1) :: loops) stmts fhv.2 = CS at h6 ⊢
        refine (((((h1.append h2).append h3).append h4).append h5).append h6).perm (perm_of_count ?_)
        intro x
        simp only [definedLabels_append,
          definedLabels_instr _ _ _ (rfl : isLabel (Instr.intoRange _ : SInstr) = false),
          definedLabels_instr _ _ _ (rfl : isLabel (Instr.clone : SInstr) = false),
          definedLabels_instr _ _ _ (rfl : isLabel (Instr.intoIter : SInstr) = false),
          definedLabels_instr _ _ _ (rfl : isLabel (Instr.setVar _ : SInstr) = false),
          definedLabels_instr _ _ _ (rfl : isLabel (Instr.getVar _ : SInstr) = false),
          definedLabels_instr _ _ _ (rfl : isLabel (Instr.iterAdvance : SInstr) = false),
          definedLabels_instr _ _ _ (rfl : isLabel (Instr.jumpIfFalse _ : SInstr) = false),
          definedLabels_instr _ _ _ (rfl : isLabel (Instr.jump _ : SInstr) = false),
          definedLabels_label, definedLabels_nil, List.count_append, List.count_cons, List.count_nil]
        omega
      case letS sp name vty nc oty e =>
        cases nc
        · simp only [cgS, definedLabels_append,
            definedLabels_instr _ _ _ (rfl : isLabel (Instr.setVar _ : SInstr) = false),
            definedLabels_nil, List.append_nil]
          exact cgE_lbl mod _ φ e env.lm
        · exact LblInv.nil mod env.lm
      case exprS sp e =>
        cases e
        case assign asp op l r =>
          cases l <;> try (cases op <;> exact LblInv.nil mod env.lm)
          case index isp ity b i =>
            have hpre : definedLabels (opPre op asp) = [] := by cases op <;> rfl
            have hpost : definedLabels (opPost op asp) = [] := by
              cases op with
              | none => rfl
              | some o => cases o <;> rfl
            rw [cgS_idxAssign]
            simp only [definedLabels_append, hpre, hpost,
              definedLabels_instr _ _ _ (rfl : isLabel (Instr.assign : SInstr) = false),
              definedLabels_nil, List.append_nil]
            exact (cgE_lbl mod _ φ (.index isp ity b i) env.lm).append (cgE_lbl mod _ φ r _)
          case member msp mty b name mop =>
            cases mop <;> try (cases op <;> exact LblInv.nil mod env.lm)
            have hpre : definedLabels (opPre op asp) = [] := by cases op <;> rfl
            have hpost : definedLabels (opPost op asp) = [] := by
              cases op with
              | none => rfl
              | some o => cases o <;> rfl
            rw [cgS_memAssign]
            simp only [definedLabels_append, hpre, hpost,
              definedLabels_instr _ _ _ (rfl : isLabel (Instr.assign : SInstr) = false),
              definedLabels_nil, List.append_nil]
            exact (cgE_lbl mod _ φ (.member msp mty b name .dot) env.lm).append (cgE_lbl mod _ φ r _)
          cases op
          · rename_i g _ sg
            cases g <;> cases sg <;> try exact LblInv.nil mod env.lm
            simp only [cgS, definedLabels_append,
              definedLabels_instr _ _ _ (rfl : isLabel (Instr.setVar _ : SInstr) = false),
              definedLabels_nil, List.append_nil]
            exact cgE_lbl mod _ φ r env.lm
          · rename_i _ _ _ g _ sg o
            cases g <;> cases sg <;> try exact LblInv.nil mod env.lm
            have : definedLabels ((arithI o).map (·, asp)) = [] := by cases o <;> rfl
            simp only [cgS, definedLabels_append, this,
              definedLabels_instr _ _ _ (rfl : isLabel (Instr.setVar _ : SInstr) = false),
              definedLabels_instr _ _ _ (rfl : isLabel (Instr.getVar _ : SInstr) = false),
              definedLabels_nil, List.append_nil, List.nil_append]
            exact cgE_lbl mod _ φ r env.lm
        case ifE isp ty c t el =>
          cases el with
          | some eb =>
            simp only [Frag.depthGS] at hd
            simp only [cgS]
            have h1 := cgE_lbl mod (ρS env.scopes) φ c env.lm
            have h2 := LblInv.single mod (cgE mod (ρS env.scopes) φ c env.lm).2 "if_after" (by decide)
            have h3 := LblInv.single mod (freshLabel mod (cgE mod (ρS env.scopes) φ c env.lm).2 "if_after").2 "else"
              (by decide)
            have h4 := ihB loops t { env with lm := (freshLabel mod (freshLabel mod
              (cgE mod (ρS env.scopes) φ c env.lm).2 "if_after").2 "else").2 } (by omega)
            have h5 := ihB loops eb (cgBS mod fn φ loops t { env with lm := (freshLabel mod (freshLabel mod
              (cgE mod (ρS env.scopes) φ c env.lm).2 "if_after").2 "else").2 }).2 (by omega)
            refine ((((h1.append h2).append h3).append h4).append h5).perm (perm_of_count ?_)
            intro a
            simp only [definedLabels_append,
              definedLabels_instr _ _ _ (rfl : isLabel (Instr.jumpIfFalse _ : SInstr) = false),
              definedLabels_instr _ _ _ (rfl : isLabel (Instr.jump _ : SInstr) = false),
              definedLabels_label, definedLabels_nil, List.count_append, List.count_cons, List.count_nil]
            omega
          | none =>
            simp only [Frag.depthGS] at hd
            simp only [cgS]
            have h1 := cgE_lbl mod (ρS env.scopes) φ c env.lm
            generalize cgE mod (ρS env.scopes) φ c env.lm = C at h1 ⊢
            have h2 := LblInv.single mod C.2 "if_after" (by decide)
            generalize freshLabel mod C.2 "if_after" = aft at h2 ⊢
            have h3 := LblInv.single mod aft.2 "else" (by decide)
            generalize freshLabel mod aft.2 "else" = els at h3 ⊢
            have h4 := ihB loops t { env with lm := els.2 } (by omega)
            generalize cgBS mod fn φ loops t { env with lm := els.2 } = Tb at h4 ⊢
            have h1234 := ((h1.append h2).append h3).append h4
            have hperm : (definedLabels (C.1 ++ [((Instr.jumpIfFalse aft.1 : SInstr), isp)] ++ Tb.1 ++
                [(.jump aft.1, isp), (.label aft.1, isp)])).Perm
                (definedLabels C.1 ++ [aft.1] ++ definedLabels Tb.1) := by
              apply perm_of_count
              intro a
              simp only [definedLabels_append,
                definedLabels_instr _ _ _ (rfl : isLabel (Instr.jumpIfFalse _ : SInstr) = false),
                definedLabels_instr _ _ _ (rfl : isLabel (Instr.jump _ : SInstr) = false),
                definedLabels_label, definedLabels_nil, List.count_append, List.count_cons, List.count_nil]
              omega
            have hsl : (definedLabels C.1 ++ [aft.1] ++ definedLabels Tb.1).Sublist
                (definedLabels C.1 ++ [aft.1] ++ [els.1] ++ definedLabels Tb.1) :=
              List.Sublist.append (List.sublist_append_left _ _) (List.Sublist.refl _)
            exact ⟨h1234.mono, hperm.nodup_iff.mpr (hsl.nodup h1234.nodup),
              fun l hl => h1234.range l (hsl.mem (hperm.mem_iff.mp hl))⟩
        case call csp cty base args sw =>
          cases base <;> try exact LblInv.nil mod env.lm
          case member msp mty b nm mop =>
            cases mop <;> cases args <;> try exact LblInv.nil mod env.lm
            rename_i a rest
            cases rest <;> cases sw <;> try exact LblInv.nil mod env.lm
            have hd : definedLabels [((Instr.member nm : SInstr), msp), (.copyPush (.int 1), csp), (.callVal, csp)] = [] := rfl
            simp only [cgS, definedLabels_append, hd, List.append_nil]
            exact (cgE_lbl mod _ φ a.2 env.lm).append (cgE_lbl mod _ φ b _)
          rename_i isp ity name g f si
          simp only [cgS]
          split
          · have hD : definedLabels (if cty.isNull = true then ([] : SCode) else [(Instr.drop, sp)]) = [] := by
              split <;> rfl
            simp only [definedLabels_append, hD,
              definedLabels_instr _ _ _ (rfl : isLabel (Instr.throw : SInstr) = false),
              definedLabels_nil, List.append_nil]
            exact cgArgs_lbl mod _ φ args env.lm
          · split
            · simp only [definedLabels_append,
                definedLabels_instr _ _ _ (rfl : isLabel (Instr.getGlob _ : SInstr) = false),
                definedLabels_instr _ _ _ (rfl : isLabel (Instr.copyPush _ : SInstr) = false),
                definedLabels_instr _ _ _ (rfl : isLabel (Instr.callVal : SInstr) = false),
                definedLabels_nil, List.append_nil]
              exact cgArgs_lbl mod _ φ args env.lm
            · simp only [definedLabels_append,
                definedLabels_instr _ _ _ (rfl : isLabel (Instr.drop : SInstr) = false),
                definedLabels_nil, List.append_nil]
              exact cgE_lbl mod _ φ _ env.lm
        case tryE tsp ty t ci c =>
          obtain ⟨csp', cty', cstmts, coe⟩ := c
          cases coe with
          | some _ => exact LblInv.nil mod env.lm
          | none =>
            simp only [Frag.depthGS, Frag.depthGBS] at hd
            simp only [cgS]
            have h1 := LblInv.single mod env.lm "exception_label" (by decide)
            generalize freshLabel mod env.lm "exception_label" = exc at h1 ⊢
            have h2 := LblInv.single mod exc.2 "after_catch_label" (by decide)
            generalize freshLabel mod exc.2 "after_catch_label" = aft at h2 ⊢
            have h3 := ihB [] t { env with lm := aft.2 } (by omega)
            generalize cgBS mod fn φ [] t { env with lm := aft.2 } = ct at h3 ⊢
            have hlm : (freshVar mod { ct.2 with scopes := [] :: ct.2.scopes } ci).2.lm = ct.2.lm := rfl
            have h4 := ihSs loops cstmts (freshVar mod { ct.2 with scopes := [] :: ct.2.scopes } ci).2 (by omega)
            rw [hlm] at h4
            generalize cgSs mod fn φ loops cstmts (freshVar mod { ct.2 with scopes := [] :: ct.2.scopes } ci).2 = cc
              at h4 ⊢
            refine (((h1.append h2).append h3).append h4).perm (perm_of_count ?_)
            intro a
            simp only [definedLabels_append,
              definedLabels_instr _ _ _ (rfl : isLabel (Instr.setTry _ _ : SInstr) = false),
              definedLabels_instr _ _ _ (rfl : isLabel (Instr.popTry : SInstr) = false),
              definedLabels_instr _ _ _ (rfl : isLabel (Instr.jump _ : SInstr) = false),
              definedLabels_instr _ _ _ (rfl : isLabel (Instr.setVar _ : SInstr) = false),
              definedLabels_label, definedLabels_nil, List.count_append, List.count_cons, List.count_nil]
            omega
        case matchE msp ty c arms dflt =>
          cases dflt with
          | none => exact LblInv.nil mod env.lm
          | some d =>
            cases d <;> try exact LblInv.nil mod env.lm
            rename_i db
            simp only [Frag.depthGS] at hd
            simp only [cgS]
            have harms : ∀ (arms : List (List Expr × Expr)) (after : String) (nms : List String) (env' : CEnv),
                Frag.depthGArmsS arms ≤ n → arms.length = nms.length →
                ∃ inner, LblInv mod env'.lm (cgArmsS mod fn φ loops msp after arms nms env').2.lm inner ∧
                  (definedLabels (cgArmsS mod fn φ loops msp after arms nms env').1).Perm (nms ++ inner) := by
              intro arms
              induction arms with
              | nil =>
                intro after nms env' _ hlen
                cases nms with
                | nil => exact ⟨[], LblInv.nil mod _, by simp [cgArmsS, definedLabels_nil]⟩
                | cons _ _ => simp at hlen
              | cons a rest iha =>
                intro after nms env' hda hlen
                obtain ⟨lits, act⟩ := a
                cases nms with
                | nil => simp at hlen
                | cons nm nms =>
                  cases act
                  case blockE b =>
                    simp only [Frag.depthGArmsS] at hda
                    have h1 := ihB loops b env' (by omega)
                    obtain ⟨inner, h2, hperm⟩ := iha after nms (cgBS mod fn φ loops b env').2 (by omega)
                      (by simpa using hlen)
                    refine ⟨definedLabels (cgBS mod fn φ loops b env').1 ++ inner, ?_, ?_⟩
                    · simp only [cgArmsS]; exact h1.append h2
                    · simp only [cgArmsS]
                      refine perm_of_count ?_
                      intro x
                      have hc := hperm.count_eq x
                      simp only [definedLabels_append,
                        definedLabels_instr _ _ _ (rfl : isLabel (Instr.jump _ : SInstr) = false),
                        definedLabels_instr _ _ _ (rfl : isLabel (Instr.drop : SInstr) = false),
                        definedLabels_label, definedLabels_nil, List.count_append, List.count_cons,
                        List.count_nil] at hc ⊢
                      omega
                  all_goals
                    simp only [Frag.depthGArmsS] at hda
                    obtain ⟨inner, h2, hperm⟩ := iha after nms env' hda (by simpa using hlen)
                    refine ⟨inner, ?_, ?_⟩
                    · simp only [cgArmsS]; exact h2
                    · simp only [cgArmsS]
                      refine perm_of_count ?_
                      intro x
                      have hc := hperm.count_eq x
                      simp only [definedLabels_append,
                        definedLabels_instr _ _ _ (rfl : isLabel (Instr.jump _ : SInstr) = false),
                        definedLabels_instr _ _ _ (rfl : isLabel (Instr.drop : SInstr) = false),
                        definedLabels_label, definedLabels_nil, List.count_append, List.count_cons,
                        List.count_nil] at hc ⊢
                      omega
            have h1 := cgE_lbl mod (ρS env.scopes) φ c env.lm
            generalize cgE mod (ρS env.scopes) φ c env.lm = cc at h1 ⊢
            have h2 := LblInv.single mod cc.2 "match_after" (by decide)
            generalize freshLabel mod cc.2 "match_after" = aft at h2 ⊢
            obtain ⟨ht0, h3⟩ := armTests_lbl mod msp arms aft.2
            have hlen : arms.length = (armTests mod msp arms aft.2).2.1.length :=
              (armTests_length mod msp arms aft.2).symm
            generalize armTests mod msp arms aft.2 = ts at ht0 h3 hlen ⊢
            have h4 := LblInv.single mod ts.2.2 "match_default" (by decide)
            generalize freshLabel mod ts.2.2 "match_default" = dfl at h4 ⊢
            obtain ⟨inner, h5, hperm⟩ := harms arms aft.1 ts.2.1 { env with lm := dfl.2 } (by omega) hlen
            generalize cgArmsS mod fn φ loops msp aft.1 arms ts.2.1 { env with lm := dfl.2 } = bs at h5 hperm ⊢
            have h6 := ihB loops db bs.2 (by omega)
            generalize cgBS mod fn φ loops db bs.2 = cd at h6 ⊢
            refine (((((h1.append h2).append h3).append h4).append h5).append h6).perm (perm_of_count ?_)
            intro a
            have hc := hperm.count_eq a
            simp only [definedLabels_append, ht0,
              definedLabels_instr _ _ _ (rfl : isLabel (Instr.jump _ : SInstr) = false),
              definedLabels_instr _ _ _ (rfl : isLabel (Instr.drop : SInstr) = false),
              definedLabels_label, definedLabels_nil, List.count_append, List.count_cons, List.count_nil] at hc ⊢
            omega
        all_goals exact LblInv.nil mod env.lm
      case whileS sp c body =>
        simp only [Frag.depthGS] at hd
        simp only [cgS]
        have h1 := LblInv.single mod env.lm "loop_head" (by decide)
        have h2 := LblInv.single mod (freshLabel mod env.lm "loop_head").2 "loop_end" (by decide)
        have h3 := cgE_lbl mod (ρS env.scopes) φ c (freshLabel mod (freshLabel mod env.lm "loop_head").2 "loop_end").2
        have h4 := ihB (((freshLabel mod (freshLabel mod env.lm "loop_head").2 "loop_end").1,
            (freshLabel mod env.lm "loop_head").1) :: loops) body { env with lm := (cgE mod (ρS env.scopes) φ c
          (freshLabel mod (freshLabel mod env.lm "loop_head").2 "loop_end").2).2 } (by omega)
        refine (((h1.append h2).append h3).append h4).perm (perm_of_count ?_)
        intro a
        simp only [definedLabels_append,
          definedLabels_instr _ _ _ (rfl : isLabel (Instr.jumpIfFalse _ : SInstr) = false),
          definedLabels_instr _ _ _ (rfl : isLabel (Instr.jump _ : SInstr) = false),
          definedLabels_label, definedLabels_nil, List.count_append, List.count_cons, List.count_nil]
        omega
      case loopS sp body =>
        simp only [Frag.depthGS] at hd
        simp only [cgS]
        have h1 := LblInv.single mod env.lm "loop_head" (by decide)
        have h2 := LblInv.single mod (freshLabel mod env.lm "loop_head").2 "loop_end" (by decide)
        have h4 := ihB (((freshLabel mod (freshLabel mod env.lm "loop_head").2 "loop_end").1,
            (freshLabel mod env.lm "loop_head").1) :: loops) body
          { env with lm := (freshLabel mod (freshLabel mod env.lm "loop_head").2 "loop_end").2 } (by omega)
        refine ((h1.append h2).append h4).perm (perm_of_count ?_)
        intro a
        simp only [definedLabels_append,
          definedLabels_instr _ _ _ (rfl : isLabel (Instr.jump _ : SInstr) = false),
          definedLabels_label, definedLabels_nil, List.count_append, List.count_cons, List.count_nil]
        omega
      case brk sp =>
        simp only [cgS]
        cases loops with
        | nil => exact LblInv.nil mod env.lm
        | cons p _ => obtain ⟨b, c⟩ := p; exact LblInv.nil mod env.lm
      case cont sp =>
        simp only [cgS]
        cases loops with
        | nil => exact LblInv.nil mod env.lm
        | cons p _ => obtain ⟨b, c⟩ := p; exact LblInv.nil mod env.lm
      case ret sp oe =>
        cases oe with
        | none => exact LblInv.nil mod env.lm
        | some e =>
          simp only [cgS, definedLabels_append,
            definedLabels_instr _ _ _ (rfl : isLabel (Instr.jump _ : SInstr) = false), definedLabels_nil,
            List.append_nil]
          exact cgE_lbl mod _ φ e env.lm
    · intro loops ss env hd
      cases ss with
      | nil => exact LblInv.nil mod env.lm
      | cons st ss =>
        simp only [Frag.depthGSs] at hd
        rw [cgSs]
        simp only [definedLabels_append]
        exact (ihS loops st env (by omega)).append (ihSs loops ss _ (by omega))
    · intro loops b env hd
      obtain ⟨bsp, bty, stmts, oe⟩ := b
      simp only [Frag.depthGBS] at hd
      cases oe with
      | some _ => exact LblInv.nil mod env.lm
      | none =>
        simp only [cgBS]
        exact ihSs loops stmts { env with scopes := [] :: env.scopes } (by omega)

theorem cgSs_lbl (mod fn : String) (φ : String → Option String) (loops : List (String × String)) (ss : List Stmt)
    (env : CEnv) :
    LblInv mod env.lm (cgSs mod fn φ loops ss env).2.lm (definedLabels (cgSs mod fn φ loops ss env).1) :=
  (cgS_labels mod fn φ (Frag.depthGSs ss)).2.1 loops ss env (Nat.le_refl _)

theorem cgParams_lm (mod : String) (sp : Span) : ∀ (ps : List Param) (env : CEnv),
    (cgParams mod sp ps env).2.lm = env.lm ∧ definedLabels (cgParams mod sp ps env).1 = [] := by
  intro ps
  induction ps with
  | nil => intro env; exact ⟨rfl, rfl⟩
  | cons p ps ih =>
    intro env
    simp only [cgParams]
    split
    · exact ih env
    · obtain ⟨h1, h2⟩ := ih (freshVar mod env p.name).2
      refine ⟨h1.trans rfl, ?_⟩
      rw [definedLabels_instr _ _ _ (rfl : isLabel (Instr.setVar _ : SInstr) = false)]
      exact h2

/-- **Every label of a function's code is defined exactly once.** -/
theorem cgFn_labels_nodup (mod : String) (φ : String → Option String) (fd : FnDef) (stmts : List Stmt)
    (oe : Option Expr) (scopes0 : List (List (String × String))) (vm0 : List (String × Nat)) (lm0 : LM) :
    (definedLabels (cgFn mod φ fd stmts oe scopes0 vm0 lm0)).Nodup := by
  obtain ⟨P, hP⟩ : ∃ P, P = fnParts mod φ fd stmts oe scopes0 vm0 lm0 := ⟨_, rfl⟩
  obtain ⟨env0, henv0⟩ : ∃ env0 : CEnv, env0 = ⟨[] :: scopes0, vm0, lm0, 0⟩ := ⟨_, rfl⟩
  have hpc : P.pcode = (cgParams mod fd.sp fd.params env0).1 := by rw [hP, henv0]; rfl
  have henvB : P.envB = bodyEnv mod fd.name (cgParams mod fd.sp fd.params env0).2 := by rw [hP, henv0]; rfl
  have hsc : P.scode = (cgSs mod fd.name φ [] stmts P.envB).1 := by rw [hP]; rfl
  have henvS : P.envS = (cgSs mod fd.name φ [] stmts P.envB).2 := by rw [hP]; rfl
  have hcl : P.cleanup = (freshLabel mod (cgParams mod fd.sp fd.params env0).2.lm "cleanup").1 := by
    rw [hP, henv0]; rfl
  have hcode : cgFn mod φ fd stmts oe scopes0 vm0 lm0 =
      [(.addMp (P.envE.nv : Int), fd.sp)] ++ P.pcode ++ P.scode ++ P.ecode ++
        [(.label P.cleanup, fd.sp), (.addMp (-(P.envE.nv : Int)), fd.sp), (.ret, fd.sp)] := by rw [hP]; rfl
  have hBlm : P.envB.lm = (freshLabel mod (cgParams mod fd.sp fd.params env0).2.lm "cleanup").2 := by
    rw [henvB]; rfl
  have h1 := LblInv.single mod (cgParams mod fd.sp fd.params env0).2.lm "cleanup" (by decide)
  have h2 := cgSs_lbl mod fd.name φ [] stmts P.envB
  rw [hBlm, ← hsc, ← henvS] at h2
  have h3 : ∃ lm3, LblInv mod P.envS.lm lm3 (definedLabels P.ecode) := by
    cases oe with
    | none =>
      have : P.ecode = [] := by rw [hP]; rfl
      rw [this]; exact ⟨_, LblInv.nil mod _⟩
    | some e =>
      have : P.ecode = (cgE mod (ρS P.envS.scopes) φ e P.envS.lm).1 := by rw [hP]; rfl
      rw [this]; exact ⟨_, cgE_lbl mod _ φ e _⟩
  obtain ⟨lm3, h3⟩ := h3
  have hall := ((h1.append h2).append h3).nodup
  rw [hcode, ← hcl] at *
  refine (List.Perm.nodup_iff (perm_of_count ?_)).mp hall
  intro a
  simp only [definedLabels_append, hpc, (cgParams_lm mod fd.sp fd.params env0).2,
    definedLabels_instr _ _ _ (rfl : isLabel (Instr.addMp _ : SInstr) = false),
    definedLabels_instr _ _ _ (rfl : isLabel (Instr.ret : SInstr) = false),
    definedLabels_label, definedLabels_nil, List.count_append, List.count_cons, List.count_nil]
  omega

end HmsProofs.Sim
