import Hms.Mod.Link
/-!
# Linking: under NoCrossModuleClash the compiled program runs as the lexical specification says
(and finding V22: without that hypothesis the Go map order reaches the output)
-/
namespace Hms.Mod

/-! ## Basic facts -/

theorem findMod_some {ms : Modules} {x : String} {t : Module} (h : findMod ms x = some t) :
    t ∈ ms ∧ t.name = x := by
  unfold findMod at h
  refine ⟨List.mem_of_find?_eq_some h, ?_⟩
  have := List.find?_some h
  simpa using this

theorem nodup_flatMap_unique {α β} (f : α → List β) :
    ∀ (l : List α), (l.flatMap f).Nodup → ∀ a ∈ l, ∀ b ∈ l, ∀ x, x ∈ f a → x ∈ f b → a = b
  | [], _, a, ha, _, _, _, _, _ => by cases ha
  | c :: rest, hn, a, ha, b, hb, x, hxa, hxb => by
    rw [List.flatMap_cons, List.nodup_append] at hn
    obtain ⟨_, hrest, hdis⟩ := hn
    have key : ∀ y ∈ rest, x ∈ f y → x ∈ f c → False := by
      intro y hy hxy hxc
      exact hdis x hxc x (List.mem_flatMap.2 ⟨y, hy, hxy⟩) rfl
    rcases List.mem_cons.1 ha with rfl | ha' <;> rcases List.mem_cons.1 hb with rfl | hb'
    · rfl
    · exact (key b hb' hxb hxa).elim
    · exact (key a ha' hxa hxb).elim
    · exact nodup_flatMap_unique f rest hrest a ha' b hb' x hxa hxb

theorem defines_glob_mem {m : Module} {n : String} (h : m.defines .glob n = true) :
    n ∈ (m.items.filter (·.kind == .glob)).map (·.name) := by
  unfold Module.defines at h
  rw [List.any_eq_true] at h
  obtain ⟨i, hi, hp⟩ := h
  simp only [Bool.and_eq_true, beq_iff_eq] at hp
  exact List.mem_map.2 ⟨i, List.mem_filter.2 ⟨hi, by simp [hp.1]⟩, hp.2⟩

theorem glob_definer_unique {ms : Modules} (hn : (globalNames ms).Nodup) {a b : Module}
    (ha : a ∈ ms) (hb : b ∈ ms) {n : String} (hda : a.defines .glob n = true)
    (hdb : b.defines .glob n = true) : a = b :=
  nodup_flatMap_unique _ ms hn a ha b hb n (defines_glob_mem hda) (defines_glob_mem hdb)

theorem find?_eq_of_filter_le_one {α} (p : α → Bool) (l : List α) (t : α) (ht : t ∈ l) (hp : p t = true)
    (hl : (l.filter p).length ≤ 1) : l.find? p = some t := by
  rw [← List.head?_filter]
  have hmem : t ∈ l.filter p := List.mem_filter.2 ⟨ht, hp⟩
  match hf : l.filter p, hmem, hl with
  | [x], hmem, _ => simpa using (List.mem_singleton.1 (hf ▸ hmem)).symm
  | _ :: _ :: _, _, hl => simp at hl

/-- what `resolveFn`/`resolveGlob` return: the own module, or an imported one -/
theorem resolve_cases (ms : Modules) (m : Module) (k : ItemKind) (n d : String)
    (h : (if m.defines k n then some m.name
      else m.imports.findSome? fun imp =>
        if imp.items.any (fun it => it.name == n && it.kind == .normal) then
          match findMod ms imp.target with
          | some t => if t.defines k n then some t.name else none
          | none => none
        else none) = some d) :
    (m.defines k n = true ∧ d = m.name) ∨
    (m.defines k n = false ∧ n ∈ importedNames m ∧ ∃ t ∈ ms, t.defines k n = true ∧ d = t.name) := by
  by_cases hdef : m.defines k n = true
  · left; simp [hdef] at h; exact ⟨hdef, h.symm⟩
  · right
    have hdef' : m.defines k n = false := by simpa using hdef
    simp only [hdef, if_false, Bool.false_eq_true] at h
    obtain ⟨imp, himp, hres⟩ := List.exists_of_findSome?_eq_some h
    split at hres
    · rename_i hany
      split at hres
      · rename_i t hfm
        split at hres
        · rename_i htd
          refine ⟨hdef', ?_, t, (findMod_some hfm).1, htd, by simpa using hres.symm⟩
          rw [List.any_eq_true] at hany
          obtain ⟨it, hit, hp⟩ := hany
          simp only [Bool.and_eq_true, beq_iff_eq] at hp
          unfold importedNames
          exact List.mem_flatMap.2 ⟨imp, himp,
            List.mem_map.2 ⟨it, List.mem_filter.2 ⟨hit, by simp [hp.2]⟩, hp.1⟩⟩
        · cases hres
      · cases hres
    · cases hres

set_option linter.unusedVariables false in -- `hd` is part of the fixed statement; it is not needed
/-- Under NoCrossModuleClash every name that resolves lexically is linked to the same definition,
whatever orders the compiler visits the modules in. -/
theorem link_correct_partial (ms ord any : Modules) (hd : namesDistinct ms = true)
    (hc : noCrossModuleClash ms = true) (ho : ord.Perm ms) (ha : any.Perm ms)
    (m : Module) (hm : m ∈ ms) (n d : String) :
    (resolveFn ms m n = some d → linkFn any m n = some d) ∧
    (resolveGlob ms m n = some d → linkGlob ord n = some d) := by
  unfold noCrossModuleClash at hc
  simp only [Bool.and_eq_true, decide_eq_true_eq] at hc
  obtain ⟨⟨hglob, himp⟩, _⟩ := hc
  constructor
  · intro h
    unfold resolveFn at h
    unfold linkFn
    rcases resolve_cases ms m .fn n d h with ⟨hdef, rfl⟩ | ⟨hdef, hin, t, ht, htd, rfl⟩
    · simp [hdef]
    · simp only [hdef, if_false, Bool.false_eq_true]
      have h1 := List.all_eq_true.1 (List.all_eq_true.1 himp m hm) n hin
      simp only [hdef, Bool.false_or, decide_eq_true_eq] at h1
      unfold definers at h1
      rw [List.length_map] at h1
      have hperm : (any.filter fun m => m.defines .fn n).length ≤ 1 := by
        rw [(ha.filter _).length_eq]; exact h1
      rw [find?_eq_of_filter_le_one _ any t (ha.mem_iff.2 ht) htd hperm]
      rfl
  · intro h
    unfold resolveGlob at h
    unfold linkGlob
    have huniq : ∀ t ∈ ms, t.defines .glob n = true → d = t.name →
        (ord.reverse.find? fun t => t.defines .glob n).map (·.name) = some d := by
      intro t ht htd hdt
      have hex : (ord.reverse.find? fun t => t.defines .glob n).isSome = true := by
        rw [List.find?_isSome]
        exact ⟨t, List.mem_reverse.2 (ho.mem_iff.2 ht), htd⟩
      obtain ⟨u, hu⟩ := Option.isSome_iff_exists.1 hex
      have hum : u ∈ ms := ho.mem_iff.1 (List.mem_reverse.1 (List.mem_of_find?_eq_some hu))
      have hud : u.defines .glob n = true := by simpa using List.find?_some hu
      have : u = t := glob_definer_unique hglob hum ht hud htd
      rw [hu, this, hdt]; rfl
    rcases resolve_cases ms m .glob n d h with ⟨hdef, hdm⟩ | ⟨_, _, t, ht, htd, hdt⟩
    · exact huniq m hm hdef hdm
    · exact huniq t ht htd hdt

/-! ## Execution -/

theorem readAll_linked_eq_lex (ms ord any : Modules) (hd : namesDistinct ms = true)
    (hc : noCrossModuleClash ms = true) (ho : ord.Perm ms) (ha : any.Perm ms)
    (m : Module) (hm : m ∈ ms) (s : RState) :
    ∀ gs : List String, gs.all (fun g => (resolveGlob ms m g).isSome) = true →
      readAll (linked ord any) s m gs = readAll (lexical ms) s m gs
  | [], _ => rfl
  | g :: rest, h => by
    simp only [List.all_cons, Bool.and_eq_true] at h
    obtain ⟨d, hd'⟩ := Option.isSome_iff_exists.1 h.1
    have hl := (link_correct_partial ms ord any hd hc ho ha m hm g d).2 hd'
    have hl' : (linked ord any).glob m g = some d := hl
    have hd'' : (lexical ms).glob m g = some d := hd'
    have ih := readAll_linked_eq_lex ms ord any hd hc ho ha m hm s rest h.2
    simp only [readAll, hl', hd'', ih]

theorem closed_body {ms : Modules} (hcl : closed ms = true) {m : Module} (hm : m ∈ ms)
    {f : String} {body : List Act} (hb : m.bodies.lookup f = some body) :
    closedBody ms m body = true := by
  unfold closed at hcl
  have h1 := List.all_eq_true.1 hcl m hm
  have hmem : (f, body) ∈ m.bodies := by
    have : ∀ (l : List (String × List Act)), l.lookup f = some body → (f, body) ∈ l := by
      intro l
      induction l with
      | nil => intro h; cases h
      | cons p rest ih =>
        obtain ⟨k, v⟩ := p
        intro h
        rw [List.lookup_cons] at h
        by_cases hk : f == k
        · simp only [hk] at h
          have hk' : f = k := by simpa using hk
          cases h; subst hk'; exact List.mem_cons_self
        · simp only [hk] at h
          exact List.mem_cons_of_mem _ (ih h)
    exact this _ hb
  exact List.all_eq_true.1 h1 (f, body) hmem

theorem run_linked_eq_lex_aux (ms ord any : Modules) (hd : namesDistinct ms = true)
    (hc : noCrossModuleClash ms = true) (hcl : closed ms = true) (ho : ord.Perm ms) (ha : any.Perm ms) :
    ∀ (fuel : Nat) (m : Module), m ∈ ms → ∀ (acts : List Act), closedBody ms m acts = true →
      ∀ s : RState, run ms (linked ord any) fuel m acts s = run ms (lexical ms) fuel m acts s := by
  intro fuel
  induction fuel with
  | zero =>
    intro m _ acts _ s
    cases acts <;> rfl
  | succ fuel ih =>
    intro m hm acts hcb s
    cases acts with
    | nil => rfl
    | cons a rest =>
      cases a with
      | say label gs =>
        simp only [closedBody, Bool.and_eq_true] at hcb
        simp only [run]
        rw [readAll_linked_eq_lex ms ord any hd hc ho ha m hm s gs hcb.1]
        cases readAll (lexical ms) s m gs with
        | none => rfl
        | some vs => exact ih m hm rest hcb.2 _
      | bump g =>
        simp only [closedBody, Bool.and_eq_true] at hcb
        obtain ⟨d, hd'⟩ := Option.isSome_iff_exists.1 hcb.1
        have hl : (linked ord any).glob m g = some d :=
          (link_correct_partial ms ord any hd hc ho ha m hm g d).2 hd'
        have hd'' : (lexical ms).glob m g = some d := hd'
        simp only [run, hl, hd'']
        cases (s.read d g) with
        | none => rfl
        | some v => exact ih m hm rest hcb.2 _
      | call f =>
        simp only [closedBody, Bool.and_eq_true] at hcb
        obtain ⟨d, hd'⟩ := Option.isSome_iff_exists.1 hcb.1
        have hl : (linked ord any).fn m f = some d :=
          (link_correct_partial ms ord any hd hc ho ha m hm f d).1 hd'
        have hd'' : (lexical ms).fn m f = some d := hd'
        simp only [run, hl, hd'']
        cases hfm : findMod ms d with
        | none => rfl
        | some dm =>
          have hdm : dm ∈ ms := (findMod_some hfm).1
          dsimp only
          cases hbl : dm.bodies.lookup f with
          | none => rfl
          | some body =>
            dsimp only
            rw [ih dm hdm body (closed_body hcl hdm hbl) s]
            cases run ms (lexical ms) fuel dm body s with
            | none => rfl
            | some s' => exact ih m hm rest hcb.2 _

/-- … hence a program all of whose names resolve lexically runs exactly as the specification says. -/
theorem run_linked_eq_lex_partial (ms ord any : Modules) (hd : namesDistinct ms = true)
    (hc : noCrossModuleClash ms = true) (hcl : closed ms = true) (ho : ord.Perm ms) (ha : any.Perm ms)
    (fuel : Nat) : runLinked ms ord any fuel = runLex ms fuel := by
  unfold runLinked runLex runMain
  cases hfm : findMod ms "main" with
  | none => rfl
  | some m =>
    have hm : m ∈ ms := (findMod_some hfm).1
    dsimp only
    cases hbl : m.bodies.lookup "main" with
    | none => rfl
    | some body =>
      dsimp only
      rw [run_linked_eq_lex_aux ms ord any hd hc hcl ho ha fuel m hm body (closed_body hcl hm hbl)]

/-- C14: the module visiting orders of `compileProgram` / `getMangledFn` cannot reach the output. -/
theorem perm_invariant_compileProgram_partial (ms ord₁ ord₂ any₁ any₂ : Modules) (hd : namesDistinct ms = true)
    (hc : noCrossModuleClash ms = true) (hcl : closed ms = true)
    (h₁ : ord₁.Perm ms) (h₂ : ord₂.Perm ms) (h₃ : any₁.Perm ms) (h₄ : any₂.Perm ms) (fuel : Nat) :
    runLinked ms ord₁ any₁ fuel = runLinked ms ord₂ any₂ fuel := by
  rw [run_linked_eq_lex_partial ms ord₁ any₁ hd hc hcl h₁ h₃,
    run_linked_eq_lex_partial ms ord₂ any₂ hd hc hcl h₂ h₄]

/-! ## Finding V22 -/

def cexMain : Module :=
  { name := "main", imports := [⟨"a", [⟨"f", .normal⟩]⟩, ⟨"b", [⟨"g", .normal⟩]⟩],
    items := [⟨.fn, "main", false⟩], inits := [],
    bodies := [("main", [.call "f", .call "g"])] }

def cexA : Module :=
  { name := "a", imports := [],
    items := [⟨.glob, "x", false⟩, ⟨.fn, "f", true⟩, ⟨.fn, "main", false⟩],
    inits := [("x", "a.x")], bodies := [("f", [.say "a.f" ["x"]]), ("main", [])] }

def cexB : Module :=
  { name := "b", imports := [],
    items := [⟨.glob, "x", false⟩, ⟨.fn, "g", true⟩, ⟨.fn, "main", false⟩],
    inits := [("x", "b.x")], bodies := [("g", [.say "b.g" ["x"]]), ("main", [])] }

/-- Finding V22 (globals): two modules with a private global of the same name — which one both
functions print depends on the visiting order. -/
theorem link_counterexample_V22_global :
    ∃ ms ord₁ ord₂ : Modules, namesDistinct ms = true ∧ closed ms = true ∧ ord₁.Perm ms ∧ ord₂.Perm ms ∧
      runLinked ms ord₁ ms 100 ≠ runLinked ms ord₂ ms 100 ∧ runLinked ms ord₁ ms 100 ≠ runLex ms 100 := by
  refine ⟨[cexMain, cexA, cexB], [cexMain, cexA, cexB], [cexMain, cexB, cexA], ?_, ?_, List.Perm.refl _,
    (List.Perm.swap _ _ _).cons _, ?_, ?_⟩
  · decide
  · decide
  · decide
  · decide

def cexA2 : Module :=
  { name := "a", imports := [],
    items := [⟨.fn, "g", true⟩, ⟨.fn, "main", false⟩],
    inits := [], bodies := [("g", [.say "a.g" []]), ("main", [])] }

def cexB2 : Module :=
  { name := "b", imports := [],
    items := [⟨.fn, "g", false⟩, ⟨.fn, "main", false⟩],
    inits := [], bodies := [("g", [.say "b.g" []]), ("main", [])] }

def cexMain2 : Module :=
  { name := "main", imports := [⟨"a", [⟨"g", .normal⟩]⟩, ⟨"b", []⟩],
    items := [⟨.fn, "main", false⟩], inits := [],
    bodies := [("main", [.call "g"])] }

/-- Finding V22 (functions): `main` imports `g` from `a`, `b` has a private `g`: the call is linked to
whichever module the map iteration yields first. -/
theorem link_counterexample_V22_fn :
    ∃ ms any₁ any₂ : Modules, namesDistinct ms = true ∧ closed ms = true ∧ any₁.Perm ms ∧ any₂.Perm ms ∧
      runLinked ms ms any₁ 100 ≠ runLinked ms ms any₂ 100 := by
  refine ⟨[cexMain2, cexA2, cexB2], [cexMain2, cexA2, cexB2], [cexMain2, cexB2, cexA2], ?_, ?_, List.Perm.refl _,
    (List.Perm.swap _ _ _).cons _, ?_⟩
  · decide
  · decide
  · decide

end Hms.Mod
