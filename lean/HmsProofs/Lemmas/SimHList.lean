import HmsProofs.Lemmas.SimHMatch
/-!
# Lists: the VM's instructions (`Cloning_Push []`, `__internal_list_push`, `Index`, `Member`,
`Call_Val` on a bound method, `Assign`) and the specification's equations
-/
namespace HmsProofs.Sim
open Hms.Core Hms.Core.Comp Hms.Core.VM

/-! ## The heap invariant under allocation and update -/

theorem HeapInv.push {h : Array Cell} (hi : HeapInv h) (c : Cell)
    (hc : ∀ fs, c = .obj fs → ∀ k ∈ methNames, fs.lookup k = none) : HeapInv (h.push c) := by
  intro a fs ha
  rw [Array.getElem?_push] at ha
  split at ha
  · exact hc fs (Option.some.inj ha)
  · exact hi a fs ha

theorem HeapInv.set {h : Array Cell} (hi : HeapInv h) (a : Nat) (c : Cell)
    (hc : ∀ fs, c = .obj fs → ∀ k ∈ methNames, fs.lookup k = none) : HeapInv (h.setIfInBounds a c) := by
  intro b fs hb
  rw [Array.getElem?_setIfInBounds] at hb
  split at hb
  · split at hb
    · exact hc fs (Option.some.inj hb)
    · cases hb
  · exact hi b fs hb

theorem lookup_setField_ne (fs : List (String × Val)) (k name : String) (v : Val) :
    ((setField fs name v).lookup k = none) ↔ (fs.lookup k = none) := by
  unfold setField
  induction fs with
  | nil => simp
  | cons p fs ih =>
    obtain ⟨p1, p2⟩ := p
    simp only [List.map_cons]
    by_cases hp : p1 = name
    · subst hp
      simp only [beq_self_eq_true, if_true, List.lookup_cons]
      by_cases hk : k = p1
      · subst hk; simp
      · have : (k == p1) = false := by simpa using hk
        simp only [this]; exact ih
    · have hne : (p1 == name) = false := by simpa using hp
      simp only [hne, Bool.false_eq_true, if_false, List.lookup_cons]
      by_cases hk : k = p1
      · subst hk; simp
      · have : (k == p1) = false := by simpa using hk
        simp only [this]; exact ih

/-! ## The VM -/

/-- `Cloning_Push []`: a new empty list cell. -/
theorem mkS_cloningPush_emptyList (code : Code) (lim : Limits) (s : VMState) (fn : String) (ip : Nat)
    (rest : List Frame) (mp : Int) (k : Nat) (stk : List SVal) (mem : List (Int × Val)) (out : World)
    (c : List (RInstr × Span)) (hf : findCode code fn = some c) (sp : Span)
    (hx : c[ip]? = some (.cloningPush .emptyList, sp)) :
    exec1 code lim (mkS s (⟨fn, ip⟩ :: rest) mp k stk mem out) =
      .next (mkS s (⟨fn, ip + 1⟩ :: rest) mp (k + 1) (⟨.ref out.heap.size, none⟩ :: stk) mem
        ⟨out.heap.push (.list []), out.out⟩) := by
  have hfe := fetch_mkS code s fn ip rest mp k stk mem out c _ hf hx
  unfold exec1
  rw [hfe]
  simp only [step, mkS, pvalToVal, advance, push1, Nat.add_assoc]

/-- `HostCall __internal_list_push` with `2` above the element above the list. -/
theorem mkS_listPush (code : Code) (lim : Limits) (s : VMState) (fn : String) (ip : Nat)
    (rest : List Frame) (mp : Int) (k : Nat) (stk : List SVal) (mem : List (Int × Val)) (out : World)
    (c : List (RInstr × Span)) (hf : findCode code fn = some c) (sp : Span) (o1 o2 o3 : Option Org)
    (elem : Val) (a : Nat) (xs : List Val)
    (hx : c[ip]? = some (.hostCall "__internal_list_push", sp)) (hcell : out.heap[a]? = some (.list xs)) :
    exec1 code lim (mkS s (⟨fn, ip⟩ :: rest) mp k (⟨.int (I64.ofInt 2), o1⟩ :: ⟨elem, o2⟩ :: ⟨.ref a, o3⟩ :: stk) mem out) =
      .next (mkS s (⟨fn, ip + 1⟩ :: rest) mp (k + 1) (⟨.ref a, none⟩ :: stk) mem
        ⟨out.heap.setIfInBounds a (.list (xs ++ [elem])), out.out⟩) := by
  have hfe := fetch_mkS code s fn ip rest mp k (⟨.int (I64.ofInt 2), o1⟩ :: ⟨elem, o2⟩ :: ⟨.ref a, o3⟩ :: stk) mem out c _
    hf hx
  unfold exec1
  rw [hfe]
  have h2' : (I64.ofInt 2).toNat = 2 := by decide
  have h2 : (I64.ofInt 2).toNat = ([⟨elem, o2⟩, ⟨.ref a, o3⟩] : List SVal).length := h2'
  simp only [step, mkS, h2]
  rw [popN_append _ [⟨elem, o2⟩, ⟨.ref a, o3⟩] stk rfl]
  simp only [List.map_cons, List.map_nil, beq_self_eq_true, if_true, hcell, advance, push1, Nat.add_assoc]

theorem readCell_run (a : Nat) (st : St) :
    readCell a st = match st.heap[a]? with
      | some c => (.ok c, st)
      | none => (.error (.unsupported "dangling reference"), st) := by
  unfold readCell
  rw [M_bind, M_get]
  simp only []
  cases st.heap[a]? <;> rfl

/-- `indexVal` on a list cell. -/
theorem indexVal_list (a : Nat) (k : I64) (sp : Span) (st : St) (xs : List Val) (h : st.heap[a]? = some (.list xs)) :
    indexVal (.ref a) (.int k) sp st =
      match wrapIndex k xs.length with
      | some n => (.ok (xs.getD n .null), st)
      | none => (.error (.fatal "IndexOutOfBounds"
          s!"Index out of bounds: cannot index a list of length {xs.length} with {if k.toInt < 0 then k.toInt + xs.length else k.toInt}" sp), st) := by
  unfold indexVal
  simp only []
  rw [M_bind, readCell_run, h]
  simp only []
  cases wrapIndex k xs.length <;> rfl

theorem indexVal_shape (b i : Val) (sp : Span) (st : St) :
    (indexVal b i sp st).2 = st ∧
    (∀ st' : St, st'.heap = st.heap → (indexVal b i sp st').1 = (indexVal b i sp st).1) ∧
    (∀ c, (indexVal b i sp st).1 = .error c → (∃ kd m, c = .fatal kd m sp) ∨ (∃ w, c = .unsupported w)) := by
  unfold indexVal
  cases b <;> cases i <;> try (refine ⟨rfl, fun _ _ => rfl, fun c h => ?_⟩; cases h; exact Or.inr ⟨_, rfl⟩)
  case ref.int a k =>
    simp only [M_bind, readCell_run]
    refine ⟨?_, ?_, ?_⟩
    · cases st.heap[a]? with
      | none => rfl
      | some c => cases c <;> try rfl
                  rename_i xs; simp only []; cases wrapIndex k xs.length <;> rfl
    · intro st' h'
      rw [h']
      cases st.heap[a]? with
      | none => rfl
      | some c => cases c <;> try rfl
                  rename_i xs; simp only []; cases wrapIndex k xs.length <;> rfl
    · intro c
      cases st.heap[a]? with
      | none => intro h; cases h; exact Or.inr ⟨_, rfl⟩
      | some cl =>
        cases cl <;> try (intro h; cases h; exact Or.inr ⟨_, rfl⟩)
        rename_i xs; simp only []
        cases wrapIndex k xs.length with
        | none => intro h; cases h; exact Or.inl ⟨_, _, rfl⟩
        | some n => intro h; cases h
  case ref.str a k =>
    simp only [M_bind, readCell_run]
    refine ⟨?_, ?_, ?_⟩
    · cases st.heap[a]? with
      | none => rfl
      | some c => cases c <;> try rfl
                  all_goals (rename_i fs; simp only []; cases fs.lookup k <;> rfl)
    · intro st' h'
      rw [h']
      cases st.heap[a]? with
      | none => rfl
      | some c => cases c <;> try rfl
                  all_goals (rename_i fs; simp only []; cases fs.lookup k <;> rfl)
    · intro c
      cases st.heap[a]? with
      | none => intro h; cases h; exact Or.inr ⟨_, rfl⟩
      | some cl =>
        cases cl <;> try (intro h; cases h; exact Or.inr ⟨_, rfl⟩)
        all_goals
          rename_i fs; simp only []
          cases fs.lookup k with
          | none => intro h; cases h; exact Or.inl ⟨_, _, rfl⟩
          | some n => intro h; cases h
  case str.int s k =>
    refine ⟨?_, ?_, ?_⟩
    · simp only []; cases wrapIndex k s.length <;> rfl
    · intro st' _; simp only []; cases wrapIndex k s.length <;> rfl
    · intro c; simp only []
      cases wrapIndex k s.length with
      | none => intro h; cases h; exact Or.inl ⟨_, _, rfl⟩
      | some n => intro h; cases h

theorem callMember_len (recv : Val) (sp : Span) (st : St) :
    callMember recv "len" [] sp st =
      match recv with
      | .str s => (.ok (.int (I64.ofInt s.length)), st)
      | .ref a =>
        (match st.heap[a]? with
          | some (.list xs) => (.ok (.int (I64.ofInt xs.length)), st)
          | some _ => (.error (.unsupported "member len"), st)
          | none => (.error (.unsupported "dangling reference"), st))
      | _ => (.error (.unsupported "member len"), st) := by
  cases recv <;> try rfl
  case ref a =>
    show (readCell a >>= fun c => _) st = _
    rw [M_bind, readCell_run]
    simp only []
    generalize st.heap[a]? = oc
    cases oc with
    | none => rfl
    | some c => cases c <;> rfl

theorem callMember_push (recv v : Val) (sp : Span) (st : St) :
    callMember recv "push" [v] sp st =
      match recv with
      | .ref a =>
        (match st.heap[a]? with
          | some (.list xs) => (.ok .null, { st with heap := st.heap.setIfInBounds a (.list (xs ++ [v])) })
          | some _ => (.error (.unsupported "member push"), st)
          | none => (.error (.unsupported "dangling reference"), st))
      | _ => (.error (.unsupported "member push"), st) := by
  cases recv <;> try rfl
  case ref a =>
    show (readCell a >>= fun c => _) st = _
    rw [M_bind, readCell_run]
    simp only []
    generalize st.heap[a]? = oc
    cases oc with
    | none => rfl
    | some c => cases c <;> rfl

/-- `memberVal … .dot`: a data field of an object, the start/end of a range, otherwise a bound method. -/
theorem memberVal_dot (b : Val) (name : String) (sp : Span) (st : St) :
    memberVal b name .dot sp st =
      match b with
      | .ref a =>
        (match st.heap[a]? with
          | some (.obj fs) => (match fs.lookup name with
              | some v => (.ok v, st)
              | none => (.ok (.bound b name), st))
          | some _ => (.ok (.bound b name), st)
          | none => (.error (.unsupported "dangling reference"), st))
      | .range x y _ =>
        (if name == "start" then (.ok (.int x), st) else if name == "end" then (.ok (.int y), st)
          else (.ok (.bound b name), st))
      | _ => (.ok (.bound b name), st) := by
  cases b <;> try rfl
  case ref a =>
    show (readCell a >>= fun c => _) st = _
    rw [M_bind, readCell_run]
    simp only []
    generalize st.heap[a]? = oc
    cases oc with
    | none => rfl
    | some c =>
      cases c <;> try rfl
      rename_i fs
      simp only []
      cases fs.lookup name <;> rfl
  case range x y i =>
    show (if name == "start" then (pure (.int x) : M Val) else if name == "end" then pure (.int y)
      else pure (.bound (.range x y i) name)) st = _
    split
    · rfl
    · split <;> rfl

/-- The origin the VM attaches to an indexed value. -/
def idxOrg (heap : Array Cell) (b i : Val) : Option Org :=
  match b, i with
  | .ref a, .int k =>
    match heap[a]? with
    | some (.list xs) => (wrapIndex k xs.length).map (Org.listElem a)
    | _ => none
  | .ref a, .str k => some (.field a k)
  | _, _ => none

/-- `Index`: the specification's `indexVal` on the VM's heap. -/
theorem mkS_index (code : Code) (lim : Limits) (s : VMState) (fn : String) (ip : Nat)
    (rest : List Frame) (mp : Int) (k : Nat) (stk : List SVal) (mem : List (Int × Val)) (out : World)
    (c : List (RInstr × Span)) (hf : findCode code fn = some c) (sp : Span) (bv iv : Val) (ob oi : Option Org)
    (hx : c[ip]? = some (.index, sp)) :
    exec1 code lim (mkS s (⟨fn, ip⟩ :: rest) mp k (⟨iv, oi⟩ :: ⟨bv, ob⟩ :: stk) mem out) =
      match (indexVal bv iv sp { s.st with heap := out.heap, out := out.out }).1 with
      | .ok v => .next (mkS s (⟨fn, ip + 1⟩ :: rest) mp (k + 1) (⟨v, idxOrg out.heap bv iv⟩ :: stk) mem out)
      | .error e => ctlToRes e (mkS s (⟨fn, ip⟩ :: rest) mp (k + 1) stk mem out) := by
  have hfe := fetch_mkS code s fn ip rest mp k (⟨iv, oi⟩ :: ⟨bv, ob⟩ :: stk) mem out c _ hf hx
  unfold exec1
  rw [hfe]
  have hst := (indexVal_shape bv iv sp { s.st with heap := out.heap, out := out.out }).1
  simp only [step, mkS, runM]
  rcases hr : indexVal bv iv sp { s.st with heap := out.heap, out := out.out } with ⟨r, st'⟩
  rw [hr] at hst
  simp only at hst
  subst hst
  cases r with
  | error e => simp only [Nat.add_assoc]
  | ok v =>
    simp only [advance, push1, Nat.add_assoc, idxOrg]
    rfl

/-- The origin the VM attaches to a member read. -/
def memOrg (heap : Array Cell) (b : Val) (name : String) : Option Org :=
  match b with
  | .ref a =>
    match heap[a]? with
    | some (.obj fs) => if (fs.lookup name).isSome then some (.field a name) else none
    | _ => none
  | _ => none

theorem memberVal_dot_state (b : Val) (name : String) (sp : Span) (st : St) : (memberVal b name .dot sp st).2 = st := by
  rw [memberVal_dot]
  cases b <;> try rfl
  case ref a =>
    simp only []
    cases st.heap[a]? with
    | none => rfl
    | some c =>
      cases c <;> try rfl
      rename_i fs; simp only []; cases fs.lookup name <;> rfl
  case range x y i =>
    simp only []
    split
    · rfl
    · split <;> rfl

/-- `Member name`: the specification's `memberVal` on the VM's heap. -/
theorem mkS_member (code : Code) (lim : Limits) (s : VMState) (fn : String) (ip : Nat)
    (rest : List Frame) (mp : Int) (k : Nat) (stk : List SVal) (mem : List (Int × Val)) (out : World)
    (c : List (RInstr × Span)) (hf : findCode code fn = some c) (sp : Span) (name : String) (bv : Val) (ob : Option Org)
    (hx : c[ip]? = some (.member name, sp)) :
    exec1 code lim (mkS s (⟨fn, ip⟩ :: rest) mp k (⟨bv, ob⟩ :: stk) mem out) =
      match (memberVal bv name .dot sp { s.st with heap := out.heap, out := out.out }).1 with
      | .ok v => .next (mkS s (⟨fn, ip + 1⟩ :: rest) mp (k + 1) (⟨v, memOrg out.heap bv name⟩ :: stk) mem out)
      | .error e => ctlToRes e (mkS s (⟨fn, ip⟩ :: rest) mp (k + 1) stk mem out) := by
  have hfe := fetch_mkS code s fn ip rest mp k (⟨bv, ob⟩ :: stk) mem out c _ hf hx
  unfold exec1
  rw [hfe]
  have hst := memberVal_dot_state bv name sp { s.st with heap := out.heap, out := out.out }
  simp only [step, mkS, pop1, runM]
  rcases hr : memberVal bv name .dot sp { s.st with heap := out.heap, out := out.out } with ⟨r, st'⟩
  rw [hr] at hst
  simp only at hst
  subst hst
  cases r with
  | error e => simp only [Nat.add_assoc]
  | ok v =>
    simp only [advance, push1, Nat.add_assoc, memOrg]
    rfl

/-- `Call_Val` on a bound method without arguments whose result is not `null`: the value is pushed. -/
theorem mkS_callVal_meth0 (code : Code) (lim : Limits) (s : VMState) (fn : String) (ip : Nat)
    (rest : List Frame) (mp : Int) (k : Nat) (stk : List SVal) (mem : List (Int × Val)) (out : World)
    (c : List (RInstr × Span)) (hf : findCode code fn = some c) (sp : Span) (nm : String) (recv : Val)
    (o1 o2 : Option Org) (n : Val)
    (hx : c[ip]? = some (.callVal, sp))
    (hr : callMember recv nm [] sp { s.st with heap := out.heap, out := out.out } =
      (.ok n, { s.st with heap := out.heap, out := out.out })) (hn : n ≠ .null) :
    exec1 code lim (mkS s (⟨fn, ip⟩ :: rest) mp k (⟨.int (I64.ofInt 0), o1⟩ :: ⟨.bound recv nm, o2⟩ :: stk) mem out) =
      .next (mkS s (⟨fn, ip + 1⟩ :: rest) mp (k + 1) (⟨n, none⟩ :: stk) mem out) := by
  have hfe := fetch_mkS code s fn ip rest mp k (⟨.int (I64.ofInt 0), o1⟩ :: ⟨.bound recv nm, o2⟩ :: stk) mem out c _ hf hx
  unfold exec1
  rw [hfe]
  have h0 : (I64.ofInt 0).toNat = 0 := by decide
  simp only [step, mkS, h0, popN, runM, hr]
  cases n <;> first | exact absurd rfl hn | simp only [advance, push1, Nat.add_assoc]

/-- `Call_Val` on a bound method without arguments that yields `null`: nothing is pushed. -/
theorem mkS_callVal_meth0_null (code : Code) (lim : Limits) (s : VMState) (fn : String) (ip : Nat)
    (rest : List Frame) (mp : Int) (k : Nat) (stk : List SVal) (mem : List (Int × Val)) (out : World)
    (c : List (RInstr × Span)) (hf : findCode code fn = some c) (sp : Span) (nm : String) (recv : Val)
    (o1 o2 : Option Org)
    (hx : c[ip]? = some (.callVal, sp))
    (hr : callMember recv nm [] sp { s.st with heap := out.heap, out := out.out } =
      (.ok .null, { s.st with heap := out.heap, out := out.out })) :
    exec1 code lim (mkS s (⟨fn, ip⟩ :: rest) mp k (⟨.int (I64.ofInt 0), o1⟩ :: ⟨.bound recv nm, o2⟩ :: stk) mem out) =
      .next (mkS s (⟨fn, ip + 1⟩ :: rest) mp (k + 1) stk mem out) := by
  have hfe := fetch_mkS code s fn ip rest mp k (⟨.int (I64.ofInt 0), o1⟩ :: ⟨.bound recv nm, o2⟩ :: stk) mem out c _ hf hx
  unfold exec1
  rw [hfe]
  have h0 : (I64.ofInt 0).toNat = 0 := by decide
  simp only [step, mkS, h0, popN, runM, hr, advance, Nat.add_assoc]

/-- `Call_Val` on a bound method without arguments that throws: the (catchable) exception interrupt. -/
theorem mkS_callVal_meth0_throw (code : Code) (lim : Limits) (s : VMState) (fn : String) (ip : Nat)
    (rest : List Frame) (mp : Int) (k : Nat) (stk : List SVal) (mem : List (Int × Val)) (out : World)
    (c : List (RInstr × Span)) (hf : findCode code fn = some c) (sp : Span) (nm : String) (recv : Val)
    (o1 o2 : Option Org) (msg : String) (tsp : Span)
    (hx : c[ip]? = some (.callVal, sp))
    (hr : callMember recv nm [] sp { s.st with heap := out.heap, out := out.out } =
      (.error (.throw msg tsp), { s.st with heap := out.heap, out := out.out })) :
    exec1 code lim (mkS s (⟨fn, ip⟩ :: rest) mp k (⟨.int (I64.ofInt 0), o1⟩ :: ⟨.bound recv nm, o2⟩ :: stk) mem out) =
      .intr (.throw msg tsp) (mkS s (⟨fn, ip⟩ :: rest) mp (k + 1) stk mem out) := by
  have hfe := fetch_mkS code s fn ip rest mp k (⟨.int (I64.ofInt 0), o1⟩ :: ⟨.bound recv nm, o2⟩ :: stk) mem out c _ hf hx
  unfold exec1
  rw [hfe]
  have h0 : (I64.ofInt 0).toNat = 0 := by decide
  simp only [step, mkS, h0, popN, runM, hr, ctlToRes, Nat.add_assoc]

/-- `Call_Val` on a bound method with one argument whose result is not `null`. -/
theorem mkS_callVal_meth1 (code : Code) (lim : Limits) (s : VMState) (fn : String) (ip : Nat)
    (rest : List Frame) (mp : Int) (k : Nat) (stk : List SVal) (mem : List (Int × Val)) (out : World)
    (c : List (RInstr × Span)) (hf : findCode code fn = some c) (sp : Span) (nm : String) (recv a : Val)
    (o1 o2 o3 : Option Org) (n : Val)
    (hx : c[ip]? = some (.callVal, sp))
    (hr : callMember recv nm [a] sp { s.st with heap := out.heap, out := out.out } =
      (.ok n, { s.st with heap := out.heap, out := out.out })) (hn : n ≠ .null) :
    exec1 code lim (mkS s (⟨fn, ip⟩ :: rest) mp k
        (⟨.int (I64.ofInt 1), o1⟩ :: ⟨.bound recv nm, o2⟩ :: ⟨a, o3⟩ :: stk) mem out) =
      .next (mkS s (⟨fn, ip + 1⟩ :: rest) mp (k + 1) (⟨n, none⟩ :: stk) mem out) := by
  have hfe := fetch_mkS code s fn ip rest mp k
    (⟨.int (I64.ofInt 1), o1⟩ :: ⟨.bound recv nm, o2⟩ :: ⟨a, o3⟩ :: stk) mem out c _ hf hx
  unfold exec1
  rw [hfe]
  have h1' : (I64.ofInt 1).toNat = 1 := by decide
  have h1 : (I64.ofInt 1).toNat = ([⟨a, o3⟩] : List SVal).length := h1'
  simp only [step, mkS, h1]
  rw [popN_append _ [⟨a, o3⟩] stk rfl]
  simp only [List.map_cons, List.map_nil, runM, hr]
  cases n <;> first | exact absurd rfl hn | simp only [advance, push1, Nat.add_assoc]

theorem mkS_callVal_len (code : Code) (lim : Limits) (s : VMState) (fn : String) (ip : Nat)
    (rest : List Frame) (mp : Int) (k : Nat) (stk : List SVal) (mem : List (Int × Val)) (out : World)
    (c : List (RInstr × Span)) (hf : findCode code fn = some c) (sp : Span) (recv : Val) (o1 o2 : Option Org) (n : Val)
    (hx : c[ip]? = some (.callVal, sp))
    (hr : callMember recv "len" [] sp { s.st with heap := out.heap, out := out.out } =
      (.ok n, { s.st with heap := out.heap, out := out.out })) (hn : n ≠ .null) :
    exec1 code lim (mkS s (⟨fn, ip⟩ :: rest) mp k (⟨.int (I64.ofInt 0), o1⟩ :: ⟨.bound recv "len", o2⟩ :: stk) mem out) =
      .next (mkS s (⟨fn, ip + 1⟩ :: rest) mp (k + 1) (⟨n, none⟩ :: stk) mem out) :=
  mkS_callVal_meth0 code lim s fn ip rest mp k stk mem out c hf sp "len" recv o1 o2 n hx hr hn

/-- `Call_Val` on the bound method `push` of a list: the element is appended, nothing is pushed. -/
theorem mkS_callVal_push (code : Code) (lim : Limits) (s : VMState) (fn : String) (ip : Nat)
    (rest : List Frame) (mp : Int) (k : Nat) (stk : List SVal) (mem : List (Int × Val)) (out : World)
    (c : List (RInstr × Span)) (hf : findCode code fn = some c) (sp : Span) (a : Nat) (xs : List Val) (v : Val)
    (o1 o2 o3 : Option Org)
    (hx : c[ip]? = some (.callVal, sp)) (hcell : out.heap[a]? = some (.list xs)) :
    exec1 code lim (mkS s (⟨fn, ip⟩ :: rest) mp k
        (⟨.int (I64.ofInt 1), o1⟩ :: ⟨.bound (.ref a) "push", o2⟩ :: ⟨v, o3⟩ :: stk) mem out) =
      .next (mkS s (⟨fn, ip + 1⟩ :: rest) mp (k + 1) stk mem
        ⟨out.heap.setIfInBounds a (.list (xs ++ [v])), out.out⟩) := by
  have hfe := fetch_mkS code s fn ip rest mp k
    (⟨.int (I64.ofInt 1), o1⟩ :: ⟨.bound (.ref a) "push", o2⟩ :: ⟨v, o3⟩ :: stk) mem out c _ hf hx
  unfold exec1
  rw [hfe]
  have h1' : (I64.ofInt 1).toNat = 1 := by decide
  have h1 : (I64.ofInt 1).toNat = ([⟨v, o3⟩] : List SVal).length := h1'
  simp only [step, mkS, h1]
  rw [popN_append _ [⟨v, o3⟩] stk rfl]
  simp only [List.map_cons, List.map_nil, runM, callMember_push, hcell, advance, Nat.add_assoc]

/-- `Assign` through the origin of a list element. -/
theorem mkS_assign_listElem (code : Code) (lim : Limits) (s : VMState) (fn : String) (ip : Nat)
    (rest : List Frame) (mp : Int) (k : Nat) (stk : List SVal) (mem : List (Int × Val)) (out : World)
    (c : List (RInstr × Span)) (hf : findCode code fn = some c) (sp : Span) (a idx : Nat) (xs : List Val)
    (dv v : Val) (o : Option Org)
    (hx : c[ip]? = some (.assign, sp)) (hcell : out.heap[a]? = some (.list xs)) :
    exec1 code lim (mkS s (⟨fn, ip⟩ :: rest) mp k (⟨v, o⟩ :: ⟨dv, some (.listElem a idx)⟩ :: stk) mem out) =
      .next (mkS s (⟨fn, ip + 1⟩ :: rest) mp (k + 1) stk mem
        ⟨out.heap.setIfInBounds a (.list (xs.set idx v)), out.out⟩) := by
  have hfe := fetch_mkS code s fn ip rest mp k (⟨v, o⟩ :: ⟨dv, some (.listElem a idx)⟩ :: stk) mem out c _ hf hx
  unfold exec1
  rw [hfe]
  simp only [step, mkS, hcell, advance, Nat.add_assoc]

/-! ## List literals -/

theorem alloc_run (c : Cell) (st : St) :
    alloc c st = (.ok (.ref st.heap.size), { st with heap := st.heap.push c }) := rfl

theorem evalExpr_list (cfg fuel sp ty xs st) :
    evalExpr cfg (fuel + 1) (.list sp ty xs) st =
      match evalList cfg fuel xs st with
      | (.ok vs, st1) => (.ok (.ref st1.heap.size), { st1 with heap := st1.heap.push (.list vs) })
      | (.error c, st1) => (.error c, st1) := by
  rw [evalExpr, M_bind]
  rcases evalList cfg fuel xs st with ⟨r, st1⟩
  cases r <;> rfl

theorem push_set_last (h : Array Cell) (c c' : Cell) : (h.push c).setIfInBounds h.size c' = h.push c' := by
  apply Array.ext
  · simp
  · intro i h1 h2
    simp only [Array.size_push] at h2
    rw [Array.getElem_setIfInBounds (by simp; omega)]
    by_cases hi : i = h.size
    · subst hi; simp
    · have : i < h.size := by omega
      have hne : ¬ h.size = i := fun e => hi e.symm
      simp [hne, Array.getElem_push, this]

/-- An atom generates no label. -/
theorem cpE_atom_lm (mod : String) (ρ : String → Option String) : ∀ (n : Nat) (e : Expr) (lm : LM),
    Frag.depthE e ≤ n → Frag.atomE e = true → (cpE mod ρ e lm).2 = lm := by
  intro n
  induction n with
  | zero => intro e lm hd; have := depthE_pos e; omega
  | succ n ih =>
    intro e lm hd ha
    cases e <;> simp [Frag.atomE] at ha <;> try rfl
    case grouped sp' e =>
      rw [cpE]
      exact ih e lm (by simp only [Frag.depthE] at hd; omega) ha

theorem push_get_last (h : Array Cell) (c : Cell) : (h.push c)[h.size]? = some c := by simp

/-- **The elements of a list literal** (atoms): the specification yields their values without touching
the state; the VM appends them, one by one, to the list cell under construction. -/
theorem listElems_run (G : GCtx) (A : Act) (hA : A.OK G) (st : St) (mem : Mem) (scopes : CScopes)
    (vm : List (String × Nat)) (sp : Span)
    (hrel : StRel G.mod A.T A.N A.σ G.lim A.mp scopes vm st.scopes mem) :
    ∀ (xs : List Expr) (ip : Nat) (stk : List SVal) (lm : LM),
      xs.all Frag.atomE = true → Frag.resolved scopes (xs.flatMap Frag.varsE) = true →
      (∀ x ∈ xs.flatMap Frag.varsE, x ∈ A.T) →
      Placed A.lab A.σ A.c ip (cgEls G.mod (ρS scopes) sp xs lm).1 →
      (cgEls G.mod (ρS scopes) sp xs lm).2 = lm ∧
      ∃ vals : List Val,
        (∀ st2 : St, st2.scopes = st.scopes → ∀ fuel,
          evalList G.cfg fuel xs st2 = (.error .timeout, st2) ∨ evalList G.cfg fuel xs st2 = (.ok vals, st2)) ∧
        ∀ (h0 : Array Cell) (outs : String) (acc : List Val),
          Runs G.fr G.code G.lim G.s A.fn A.rest A.mp ip (⟨.ref h0.size, none⟩ :: stk) mem ⟨h0.push (.list acc), outs⟩
            (ip + nI (cgEls G.mod (ρS scopes) sp xs lm).1) (⟨.ref h0.size, none⟩ :: stk) mem
            ⟨h0.push (.list (acc ++ vals)), outs⟩ := by
  intro xs
  induction xs with
  | nil =>
    intro ip stk lm _ _ _ _
    refine ⟨rfl, [], ?_, fun h0 outs acc => ?_⟩
    · intro st2 _ fuel
      cases fuel with
      | zero => left; rw [evalList]; rfl
      | succ f => right; rw [evalList_nil]
    · rw [List.append_nil]
      exact (Runs.refl ip _ mem _).cast (by simp [cgEls])
  | cons x xs ih =>
    intro ip stk lm hat hres hT hpl
    simp only [List.all_cons, Bool.and_eq_true] at hat
    obtain ⟨ha, has⟩ := hat
    simp only [List.flatMap_cons] at hres hT
    have hres1 : Frag.resolved scopes (Frag.varsE x) = true := by
      simp only [Frag.resolved, List.all_append, Bool.and_eq_true] at hres; exact hres.1
    have hres2 : Frag.resolved scopes (xs.flatMap Frag.varsE) = true := by
      simp only [Frag.resolved, List.all_append, Bool.and_eq_true] at hres; exact hres.2
    have hlmx : (cpE G.mod (ρS scopes) x lm).2 = lm := cpE_atom_lm _ _ _ x lm (Nat.le_refl _) ha
    simp only [cgEls, hlmx] at hpl ⊢
    obtain ⟨h12, hpl3⟩ := hpl.append
    obtain ⟨hpl1, hpl2⟩ := h12.append
    obtain ⟨ipush, hP2⟩ := hpl2.instr (i := .copyPush (.int 2)) rfl
    obtain ⟨ihost, _⟩ := hP2.instr (i := .hostCall "__internal_list_push") rfl
    have hn2 : nI [((Instr.copyPush (.int 2) : SInstr), sp), (.hostCall "__internal_list_push", sp)] = 2 := rfl
    simp only [nI_append, hn2] at hpl3 ihost ⊢
    obtain ⟨hlm, vs, hvs1, hvs2⟩ := ih (ip + (nI (cpE G.mod (ρS scopes) x lm).1 + 2)) stk lm has hres2
      (fun y hy => hT y (List.mem_append.mpr (Or.inr hy))) hpl3
    obtain ⟨v, hv, hrun⟩ := atom_runs G A hA x st ip (⟨.ref 0, none⟩ :: stk) mem lm scopes vm ha hres1
      (fun y hy => hT y (List.mem_append.mpr (Or.inl hy))) hpl1 hrel
    refine ⟨hlm, v :: vs, ?_, fun h0 outs acc => ?_⟩
    · intro st2 hsc fuel
      cases fuel with
      | zero => left; rw [evalList]; rfl
      | succ f =>
        rw [evalList_cons]
        have hb2 := bound_of_resolved hrel.scopes (Frag.varsE x)
          (fun y hy => hT y (List.mem_append.mpr (Or.inl hy))) hres1
        obtain ⟨v', hv', h1, _⟩ := atom_eval G.cfg _ x st2 (Nat.le_refl _) ha (by rw [hsc]; exact hb2)
        rw [hsc, hv] at hv'
        cases hv'
        rcases h1 f with h | h
        · left; rw [h]
        · rw [h]
          simp only []
          rcases hvs1 st2 hsc f with h' | h'
          · left; rw [h']
          · right; rw [h']
    · obtain ⟨v2, hv2, hrun2⟩ := atom_runs G A hA x st ip (⟨.ref h0.size, none⟩ :: stk) mem lm scopes vm ha hres1
        (fun y hy => hT y (List.mem_append.mpr (Or.inl hy))) hpl1 hrel
      rw [hv] at hv2; cases hv2
      have hp2 := Runs.of_runsTo (fr := G.fr) (mem := mem) (fun it_ => RunsTo.of_exec1 (fun k =>
        reach_push G.code G.lim (baseOf (withIt G.s it_) A.fn A.rest A.mp ⟨h0.push (.list acc), outs⟩)
          (ip + nI (cpE G.mod (ρS scopes) x lm).1) k (⟨v, none⟩ :: ⟨.ref h0.size, none⟩ :: stk) mem ⟨A.fn, 0⟩ A.rest A.c rfl
          hA.code (.int 2) sp (.int (I64.ofInt 2)) ipush (fun _ => rfl)))
      have hhost := Runs.of_exec1W (fr := G.fr) (mem := mem) (fun it_ k => mkS_listPush G.code G.lim (withIt G.s it_) A.fn
        (ip + nI (cpE G.mod (ρS scopes) x lm).1 + 1) A.rest A.mp k stk mem.cells ⟨h0.push (.list acc), outs⟩ A.c hA.code sp
        none none none v h0.size acc ihost (push_get_last h0 _)) (fun hi => hi.set _ _ (fun fs h => by cases h))
      rw [push_set_last] at hhost
      have hrest := hvs2 h0 outs (acc ++ [v])
      rw [List.append_assoc, List.singleton_append] at hrest
      have e1 : ip + nI (cpE G.mod (ρS scopes) x lm).1 + 1 + 1 = ip + (nI (cpE G.mod (ρS scopes) x lm).1 + 2) := by omega
      exact (((((hrun2 _).trans hp2).trans hhost).cast e1).trans hrest).cast (by omega)

/-! ## Assignment to a heap slot: `l[i] = e`, `l[i] += e` -/

/-- The heap slot named by a base value and an index value (the body of `evalPlace` on `b[i]`). -/
def placeOf (b i : Val) (sp : Span) : M Place := do
  match b, i with
  | .ref a, .int k => do
    match ← readCell a with
    | .list xs =>
      match wrapIndex k xs.length with
      | some n => pure { addr := a, idx := n }
      | none => throwCtl (.fatal "IndexOutOfBounds"
          s!"Index out of bounds: cannot index a list of length {xs.length} with {if k.toInt < 0 then k.toInt + xs.length else k.toInt}" sp)
    | _ => throwCtl (.unsupported "index assignment target")
  | .ref a, .str k => do
    match ← readCell a with
    | .obj fs | .anyobj fs =>
      if (fs.lookup k).isSome then pure { addr := a, field := some k }
      else throwCtl (.unsupported "index assignment to a missing field")
    | _ => throwCtl (.unsupported "index assignment target")
  | _, _ => throwCtl (.unsupported "index assignment target")

theorem evalPlace_index (cfg fuel sp ty b i st) :
    evalPlace cfg (fuel + 1) (.index sp ty b i) st =
      match evalExpr cfg fuel b st with
      | (.ok bv, st1) =>
        (match evalExpr cfg fuel i st1 with
          | (.ok iv, st2) => placeOf bv iv sp st2
          | (.error c, st2) => (.error c, st2))
      | (.error c, st1) => (.error c, st1) := by
  rw [evalPlace, M_bind]
  rcases evalExpr cfg fuel b st with ⟨r1, st1⟩
  cases r1 with
  | error c => rfl
  | ok bv =>
    simp only []
    rw [M_bind]
    rcases evalExpr cfg fuel i st1 with ⟨r2, st2⟩
    cases r2 <;> rfl

/-- The origin the VM attaches to the value read from a heap slot. -/
def orgOf (pl : Place) : Org :=
  match pl.field with
  | none => .listElem pl.addr pl.idx
  | some k => .field pl.addr k

/-- `evalPlace` on `b[i]` against `Index`: same value as `indexVal`, the origin names the slot, same fatal error. -/
theorem placeOf_shape (b i : Val) (sp : Span) (st : St) :
    match placeOf b i sp st with
    | (.ok pl, st') => st' = st ∧ pl.var = none ∧ idxOrg st.heap b i = some (orgOf pl) ∧
        ∃ v, indexVal b i sp st = (.ok v, st) ∧ readPlace pl st = (.ok v, st)
    | (.error (.fatal kd m fsp), st') => st' = st ∧ indexVal b i sp st = (.error (.fatal kd m fsp), st)
    | (.error (.unsupported _), _) => True
    | _ => False := by
  unfold placeOf
  cases b <;> cases i <;> try trivial
  case ref.int a k =>
    simp only [M_bind, readCell_run]
    cases hc : st.heap[a]? with
    | none => trivial
    | some c =>
      cases c <;> try trivial
      rename_i xs
      simp only []
      rw [indexVal_list a k sp st xs hc]
      cases hw : wrapIndex k xs.length with
      | none => exact ⟨rfl, rfl⟩
      | some n =>
        refine ⟨rfl, rfl, ?_, _, rfl, ?_⟩
        · simp only [idxOrg, hc, hw, Option.map_some]; rfl
        · unfold readPlace
          simp only [M_bind, readCell_run, hc]
          rfl
  case ref.str a k =>
    simp only [M_bind, readCell_run]
    cases hc : st.heap[a]? with
    | none => trivial
    | some c =>
      cases c <;> try trivial
      all_goals
        rename_i fs
        simp only []
        cases hl : fs.lookup k with
        | none => simp only [Option.isSome_none, Bool.false_eq_true, if_false]; trivial
        | some v =>
          simp only [Option.isSome_some, if_true]
          refine ⟨rfl, rfl, rfl, v, ?_, ?_⟩
          · unfold indexVal
            simp only [M_bind, readCell_run, hc, hl]
            rfl
          · unfold readPlace
            simp only [M_bind, readCell_run, hc, hl]
            rfl

/-- `Assign` on the heap. -/
def assignHeap (heap : Array Cell) (org : Org) (v : Val) : Option (Array Cell) :=
  match org with
  | .listElem a idx =>
    match heap[a]? with
    | some (.list xs) => some (heap.setIfInBounds a (.list (xs.set idx v)))
    | _ => none
  | .field a name =>
    match heap[a]? with
    | some (.obj fs) => some (heap.setIfInBounds a (.obj (setField fs name v)))
    | some (.anyobj fs) => some (heap.setIfInBounds a (.anyobj (setField fs name v)))
    | _ => none

theorem mkS_assign_org (code : Code) (lim : Limits) (s : VMState) (fn : String) (ip : Nat)
    (rest : List Frame) (mp : Int) (k : Nat) (stk : List SVal) (mem : List (Int × Val)) (out : World)
    (c : List (RInstr × Span)) (hf : findCode code fn = some c) (sp : Span) (org : Org) (heap' : Array Cell)
    (dv v : Val) (o : Option Org)
    (hx : c[ip]? = some (.assign, sp)) (hh : assignHeap out.heap org v = some heap') :
    exec1 code lim (mkS s (⟨fn, ip⟩ :: rest) mp k (⟨v, o⟩ :: ⟨dv, some org⟩ :: stk) mem out) =
      .next (mkS s (⟨fn, ip + 1⟩ :: rest) mp (k + 1) stk mem ⟨heap', out.out⟩) := by
  have hfe := fetch_mkS code s fn ip rest mp k (⟨v, o⟩ :: ⟨dv, some org⟩ :: stk) mem out c _ hf hx
  unfold exec1
  rw [hfe]
  cases org with
  | listElem a idx =>
    simp only [assignHeap] at hh
    cases hc : out.heap[a]? with
    | none => simp [hc] at hh
    | some cell =>
      cases cell <;> simp only [hc, reduceCtorEq] at hh
      cases hh
      simp only [step, mkS, hc, advance, Nat.add_assoc]
  | field a name =>
    simp only [assignHeap] at hh
    cases hc : out.heap[a]? with
    | none => simp [hc] at hh
    | some cell =>
      cases cell <;> simp only [hc, reduceCtorEq] at hh
      all_goals
        cases hh
        simp only [step, mkS, hc, advance, Nat.add_assoc]

theorem HeapInv.assign {h h' : Array Cell} {org : Org} {v : Val} (e : assignHeap h org v = some h') (hi : HeapInv h) :
    HeapInv h' := by
  cases org with
  | listElem a idx =>
    simp only [assignHeap] at e
    cases hc : h[a]? with
    | none => simp [hc] at e
    | some c =>
      cases c <;> simp only [hc, reduceCtorEq] at e
      cases e
      exact hi.set a _ (fun fs hfs => by cases hfs)
  | field a name =>
    simp only [assignHeap] at e
    cases hc : h[a]? with
    | none => simp [hc] at e
    | some c =>
      cases c <;> simp only [hc, reduceCtorEq] at e
      · rename_i fs
        cases e
        refine hi.set a _ (fun fs' hfs => ?_)
        cases hfs
        have := hi a fs hc
        exact fun k hk => (lookup_setField_ne fs k name v).mpr (this k hk)
      · cases e
        exact hi.set a _ (fun fs hfs => by cases hfs)

theorem setField_eq (fs : List (String × Val)) (k : String) (v : Val) :
    (fs.map fun (k', old) => if k' == k then (k', v) else (k', old)) = setField fs k v := by
  unfold setField
  apply List.map_congr_left
  intro ⟨a, b⟩ _
  rfl

/-- The specification's write to a heap slot is the VM's `Assign`. -/
theorem writePlace_heap (pl : Place) (v : Val) (st : St) (hv : pl.var = none) :
    match writePlace pl v st with
    | (.ok _, st') => ∃ heap', assignHeap st.heap (orgOf pl) v = some heap' ∧ st' = { st with heap := heap' }
    | (.error (.unsupported _), _) => True
    | _ => False := by
  obtain ⟨var, addr, idx, field⟩ := pl
  simp only at hv
  subst hv
  unfold writePlace
  simp only [M_bind, readCell_run]
  cases hc : st.heap[addr]? with
  | none => trivial
  | some c =>
    cases c <;> cases field <;> try trivial
    · rename_i xs
      exact ⟨_, by simp only [assignHeap, orgOf, hc], rfl⟩
    · rename_i fs k
      refine ⟨st.heap.setIfInBounds addr (.obj (setField fs k v)), by simp only [assignHeap, orgOf, hc], ?_⟩
      show _ = _
      simp only [setField_eq]
    · rename_i fs k
      refine ⟨st.heap.setIfInBounds addr (.anyobj (setField fs k v)), by simp only [assignHeap, orgOf, hc], ?_⟩
      show _ = _
      simp only [setField_eq]

theorem mkS_dup (code : Code) (lim : Limits) (s : VMState) (fn : String) (ip : Nat)
    (rest : List Frame) (mp : Int) (k : Nat) (stk : List SVal) (mem : List (Int × Val)) (out : World)
    (c : List (RInstr × Span)) (hf : findCode code fn = some c) (sp : Span) (x : SVal)
    (hx : c[ip]? = some (.dup, sp)) :
    exec1 code lim (mkS s (⟨fn, ip⟩ :: rest) mp k (x :: stk) mem out) =
      .next (mkS s (⟨fn, ip + 1⟩ :: rest) mp (k + 1) (x :: x :: stk) mem out) := by
  have hfe := fetch_mkS code s fn ip rest mp k (x :: stk) mem out c _ hf hx
  unfold exec1
  rw [hfe]
  simp only [step, mkS, advance, Nat.add_assoc]

/-- `l = r`, `l op= r` for any left-hand side. -/
theorem evalExpr_assign_gen (cfg fuel asp op l r st) :
    evalExpr cfg (fuel + 1) (.assign asp op l r) st =
      match evalPlace cfg fuel l st with
      | (.ok pl, st0) =>
        (match (match op with
            | none => evalExpr cfg fuel r st0
            | some o =>
              (match readPlace pl st0 with
               | (.ok cur, st0') =>
                 (match evalExpr cfg fuel r st0' with
                  | (.ok b, st1) => binOp o cur b asp st1
                  | (.error c, st1) => (.error c, st1))
               | (.error c, st0') => (.error c, st0'))) with
         | (.ok v, st2) =>
           (match writePlace pl v st2 with
            | (.ok _, st3) => (.ok .null, st3)
            | (.error c, st3) => (.error c, st3))
         | (.error c, st2) => (.error c, st2))
      | (.error c, st0) => (.error c, st0) := by
  rw [evalExpr, M_bind]
  rcases evalPlace cfg fuel l st with ⟨r0, st0⟩
  cases r0 with
  | error c => rfl
  | ok pl =>
    simp only []
    cases op with
    | none =>
      simp only []
      rw [M_bind]
      rcases evalExpr cfg fuel r st0 with ⟨r1, st1⟩
      cases r1 with
      | error c => rfl
      | ok v =>
        simp only []
        rw [M_bind]
        rcases writePlace pl v st1 with ⟨r2, st2⟩
        cases r2 <;> rfl
    | some o =>
      simp only []
      rw [M_bind]
      rcases readPlace pl st0 with ⟨rc, st0'⟩
      cases rc with
      | error c => rfl
      | ok cur =>
        simp only []
        rw [M_bind]
        rcases evalExpr cfg fuel r st0' with ⟨r1, st1⟩
        cases r1 with
        | error c => rfl
        | ok b =>
          simp only []
          rw [M_bind]
          rcases binOp o cur b asp st1 with ⟨r2, st2⟩
          cases r2 with
          | error c => rfl
          | ok v =>
            simp only []
            rw [M_bind]
            rcases writePlace pl v st2 with ⟨r3, st3⟩
            cases r3 <;> rfl

end HmsProofs.Sim
