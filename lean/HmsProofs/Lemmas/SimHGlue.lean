import HmsProofs.Lemmas.SimHAll
import HmsProofs.Lemmas.SimHSlots
import HmsProofs.Lemmas.SimHEntry
/-!
# From `relocateLabels` / `renameVariables` to the hypotheses of the general simulation
-/
namespace HmsProofs.Sim
open Hms.Core Hms.Core.Comp Hms.Core.VM

/-- **A compiled function is `FnOK`**: the symbolic code `cgFn …` relocates to `r`, the VM runs
`renameVariables r`; labels resolve by `labelIndex`, variables by `slotFn r`. The static side
conditions (labels defined once, slots below the frame size, scoping) are decidable for a
given function. -/
theorem FnOK.of_relocate (G : GCtx) (fd : FnDef) (stmts : List Stmt) (e : Expr) (φ : String → Option String)
    (scopes0 : CScopes) (vm0 : List (String × Nat)) (lm0 : LM) (T : List String) (r : NCode)
    (hbody : ∃ bsp bty, fd.body = .mk bsp bty stmts (some e))
    (hparams : ∀ p ∈ fd.params, p.isSingleton = false)
    (hrel : relocate (cgFn G.mod φ fd stmts (some e) scopes0 vm0 lm0) = some r)
    (hnodup : (definedLabels (cgFn G.mod φ fd stmts (some e) scopes0 vm0 lm0)).Nodup)
    (hcode : findCode G.code (mangleFnName G.mod fd.name) = some (renameVars r))
    (hslot : ∀ m ∈ varNames r, slotFn r m < (fnParts G.mod φ fd stmts (some e) scopes0 vm0 lm0).envE.nv)
    (hframe : (fnParts G.mod φ fd stmts (some e) scopes0 vm0 lm0).envE.nv ≤ G.F)
    (okS : Frag.okFSs G.fr false true stmts = true) (okE : Frag.okE G.fr e = true)
    (wsS : Frag.wsGSs G.mod fd.name φ [] stmts (fnParts G.mod φ fd stmts (some e) scopes0 vm0 lm0).envB = true)
    (wsE : Frag.wsGE (fnParts G.mod φ fd stmts (some e) scopes0 vm0 lm0).envS.scopes φ e = true)
    (tParams : ∀ p ∈ fd.params, p.name ∈ T) (tIdents : ∀ x ∈ Frag.identsGSs stmts, x ∈ T)
    (tVars : ∀ x ∈ Frag.namesGE e, x ∈ T) (key : cleanupKey G.mod fd.name ∉ T)
    (outer : ∀ sc ∈ scopes0, ∀ x ∈ T, sc.lookup x = none) (phi : PhiOK G φ) :
    FnOK G fd.name fd
      ⟨renameVars r, slotFn r, labelIndex (cgFn G.mod φ fd stmts (some e) scopes0 vm0 lm0), (· ∈ varNames r), T, φ,
        scopes0, vm0, lm0⟩ stmts e := by
  have hpl := placed_of_relocate [] (cgFn G.mod φ fd stmts (some e) scopes0 vm0 lm0) [] r
    (by simpa using hrel) hnodup (by simp [definedLabels])
  simp only [List.nil_append, List.append_nil, nI_nil] at hpl
  exact
    { name := rfl, body := hbody, params := hparams, code := hcode, placed := hpl
      inj := fun a b ha hb h => (slotFn_inj r a b ha hb).mp h
      vars := fun m hm => by
        show m ∈ varNames r
        rw [varNames_relocate _ r hrel]; exact hm
      slot := hslot, frame := hframe, okS := okS, okE := okE, wsS := wsS, wsE := wsE, tParams := tParams
      tIdents := tIdents, tVars := tVars, key := key, outer := outer, phi := phi }

/-- `FnOK.of_relocate` with label hygiene and the slot bound discharged (`cgFn_labels_nodup`,
`cgFn_slots`). -/
theorem FnOK.of_compiled (G : GCtx) (fd : FnDef) (stmts : List Stmt) (e : Expr) (φ : String → Option String)
    (scopes0 : CScopes) (vm0 : List (String × Nat)) (lm0 : LM) (T : List String) (r : NCode)
    (hbody : ∃ bsp bty, fd.body = .mk bsp bty stmts (some e))
    (hparams : ∀ p ∈ fd.params, p.isSingleton = false)
    (hrel : relocate (cgFn G.mod φ fd stmts (some e) scopes0 vm0 lm0) = some r)
    (hcode : findCode G.code (mangleFnName G.mod fd.name) = some (renameVars r))
    (hframe : (fnParts G.mod φ fd stmts (some e) scopes0 vm0 lm0).envE.nv ≤ G.F)
    (okS : Frag.okFSs G.fr false true stmts = true) (okE : Frag.okE G.fr e = true)
    (wsS : Frag.wsGSs G.mod fd.name φ [] stmts (fnParts G.mod φ fd stmts (some e) scopes0 vm0 lm0).envB = true)
    (wsE : Frag.wsGE (fnParts G.mod φ fd stmts (some e) scopes0 vm0 lm0).envS.scopes φ e = true)
    (tParams : ∀ p ∈ fd.params, p.name ∈ T) (tIdents : ∀ x ∈ Frag.identsGSs stmts, x ∈ T)
    (tVars : ∀ x ∈ Frag.namesGE e, x ∈ T) (key : cleanupKey G.mod fd.name ∉ T)
    (outer : ∀ sc ∈ scopes0, ∀ x ∈ T, sc.lookup x = none) (phi : PhiOK G φ) :
    FnOK G fd.name fd
      ⟨renameVars r, slotFn r, labelIndex (cgFn G.mod φ fd stmts (some e) scopes0 vm0 lm0), (· ∈ varNames r), T, φ,
        scopes0, vm0, lm0⟩ stmts e :=
  FnOK.of_relocate G fd stmts e φ scopes0 vm0 lm0 T r hbody hparams hrel
    (cgFn_labels_nodup G.mod φ fd stmts (some e) scopes0 vm0 lm0) hcode
    (cgFn_slots G.mod φ fd stmts (some e) scopes0 vm0 lm0 T r tParams tIdents
      (fun e' he' => by cases he'; exact tVars) wsS key outer hrel)
    hframe okS okE wsS wsE tParams tIdents tVars key outer phi

theorem FnVoidOK.of_compiled (G : GCtx) (fd : FnDef) (stmts : List Stmt) (φ : String → Option String)
    (scopes0 : CScopes) (vm0 : List (String × Nat)) (lm0 : LM) (T : List String) (r : NCode)
    (hbody : ∃ bsp bty, fd.body = .mk bsp bty stmts none)
    (hparams : ∀ p ∈ fd.params, p.isSingleton = false)
    (hrel : relocate (cgFn G.mod φ fd stmts none scopes0 vm0 lm0) = some r)
    (hcode : findCode G.code (mangleFnName G.mod fd.name) = some (renameVars r))
    (hframe : (fnParts G.mod φ fd stmts none scopes0 vm0 lm0).envE.nv ≤ G.F)
    (okS : Frag.okFSs G.fr false true stmts = true)
    (wsS : Frag.wsGSs G.mod fd.name φ [] stmts (fnParts G.mod φ fd stmts none scopes0 vm0 lm0).envB = true)
    (tParams : ∀ p ∈ fd.params, p.name ∈ T) (tIdents : ∀ x ∈ Frag.identsGSs stmts, x ∈ T)
    (key : cleanupKey G.mod fd.name ∉ T)
    (outer : ∀ sc ∈ scopes0, ∀ x ∈ T, sc.lookup x = none) (phi : PhiOK G φ) :
    FnVoidOK G fd.name fd
      ⟨renameVars r, slotFn r, labelIndex (cgFn G.mod φ fd stmts none scopes0 vm0 lm0), (· ∈ varNames r), T, φ,
        scopes0, vm0, lm0⟩ stmts :=
  FnVoidOK.of_relocate G fd stmts φ scopes0 vm0 lm0 T r hbody hparams hrel
    (cgFn_labels_nodup G.mod φ fd stmts none scopes0 vm0 lm0) hcode
    (cgFn_slots G.mod φ fd stmts none scopes0 vm0 lm0 T r tParams tIdents
      (fun e' he' => by cases he') wsS key outer hrel)
    hframe okS wsS tParams tIdents key outer phi

end HmsProofs.Sim
