import Hms.Lex.Spec
import HmsProofs.Lemmas.LexLoc
import HmsProofs.Lemmas.LexStep
import HmsProofs.Lemmas.LexPiece
/-! Helper lemmas for C06/C05/C08 (lexer). -/
namespace HmsProofs.Lemmas.Lexer
open Hms Hms.Lex HmsProofs.Lemmas.LexStep HmsProofs.Lemmas.LexLoc HmsProofs.Lemmas.LexPiece

theorem pieces_total_aux (fuel : Nat) (loc : Loc) (src : List Char) (h : src.length < fuel) :
    ∃ r, pieces fuel loc src = .inl r := by
  induction fuel generalizing loc src with
  | zero => omega
  | succ fuel ih =>
    cases src with
    | nil => exact ⟨_, rfl⟩
    | cons c cs =>
      simp only [pieces]
      split
      · exact ⟨_, rfl⟩
      · rename_i p rest hn
        obtain ⟨h1, h2, -⟩ := nextPiece_ok _ _ _ _ _ hn
        have hlen : rest.length < fuel := by
          have := congrArg List.length h1
          have hp : p.chars.length ≥ 1 := by
            cases hpc : p.chars with
            | nil => exact absurd hpc h2
            | cons _ _ => simp
          simp at this h
          omega
        obtain ⟨r, hr⟩ := ih (loc.advanceBy p.chars) rest hlen
        rw [hr]
        split
        · exact ⟨_, rfl⟩
        · exact ⟨_, rfl⟩
        · rename_i heq; simp at heq

/-- Fuel never runs out. -/
theorem pieces_total (src : List Char) (loc : Loc) :
    ∃ r, pieces (src.length + 1) loc src = .inl r :=
  pieces_total_aux _ _ _ (by omega)

theorem pieces_go (fuel : Nat) (consumed remaining : List Char) (ps : List Piece)
    (h : pieces fuel (locOf consumed) remaining = .inl (.ok ps)) :
    ps.flatMap Piece.chars = remaining
      ∧ Spec.tokenizes.go (consumed ++ remaining) consumed.length ps = true := by
  induction fuel generalizing consumed remaining ps with
  | zero => simp [pieces] at h
  | succ fuel ih =>
    cases remaining with
    | nil =>
      simp only [pieces, Sum.inl.injEq, Except.ok.injEq] at h
      subst h
      simp [Spec.tokenizes.go]
    | cons c cs =>
      simp only [pieces] at h
      split at h
      · simp at h
      · rename_i p rest hn
        obtain ⟨h1, h2, h3⟩ := nextPiece_ok _ _ _ _ _ hn
        rw [locOf_advanceBy] at h
        split at h
        · rename_i ps' hps
          simp only [Sum.inl.injEq, Except.ok.injEq] at h
          subst h
          obtain ⟨i1, i2⟩ := ih _ _ _ hps
          refine ⟨by simp [i1, h1], ?_⟩
          have hsrc : consumed ++ p.chars ++ rest = consumed ++ c :: cs := by
            rw [List.append_assoc, h1]
          rw [hsrc] at i2
          simp only [List.length_append] at i2
          simp only [Spec.tokenizes.go, i2, Bool.and_true, i1]
          have hemp : ps'.isEmpty = rest.isEmpty := by
            cases rest with
            | nil =>
              cases fuel with
              | zero => simp [pieces] at hps
              | succ f => simp [pieces] at hps; simp [hps]
            | cons x xs =>
              cases ps' with
              | nil => simp at i1
              | cons _ _ => rfl
          cases p with
          | token t lx =>
            obtain ⟨q1, q2, q3, q4, q5⟩ := h3
            simp only [Piece.chars] at h1
            have hlen1 : lx.length ≥ 1 := by
              cases lx with
              | nil => exact absurd rfl q1
              | cons _ _ => simp
            have hstart : Spec.locAt (consumed ++ c :: cs) consumed.length = locOf consumed :=
              locAt_append_length _ _
            have hstop : Spec.locAt (consumed ++ c :: cs) (consumed.length + lx.length - 1)
                = locOf (consumed ++ lx.dropLast) := by
              have hsplit : consumed ++ c :: cs
                  = (consumed ++ lx.dropLast) ++ (lx.getLast q1 :: rest) := by
                rw [← h1]
                conv => lhs; rw [← List.dropLast_concat_getLast q1]
                simp
              have hlen : consumed.length + lx.length - 1 = (consumed ++ lx.dropLast).length := by
                simp [List.length_dropLast]; omega
              rw [hsplit, hlen]
              exact locAt_append_length _ _
            have hne : lx.isEmpty = false := by
              cases lx with
              | nil => exact absurd rfl q1
              | cons _ _ => rfl
            simp only [hne, q2, q3, q4, hstart, hstop, locOf_advanceBy, Bool.not_false, Bool.true_and,
              beq_self_eq_true]
            exact q5
          | space x => rw [hemp]; exact h3
          | lineComment x => rw [hemp]; exact h3
          | blockComment x => rw [hemp]; exact h3
        · simp at h
        · simp at h

/-- Master theorem: the piece list the model produces satisfies the lexical specification. -/
theorem pieces_tokenize (src : List Char) (ps : List Piece)
    (h : pieces (src.length + 1) Loc.start src = .inl (.ok ps)) : Spec.tokenizes src ps = true := by
  rw [← locOf_nil] at h
  obtain ⟨h1, h2⟩ := pieces_go _ [] src ps h
  simp only [List.nil_append, List.length_nil] at h2
  simp only [Spec.tokenizes, h1, h2, beq_self_eq_true, Bool.and_self]

theorem lexPrefix_of_pieces_ok (fuel : Nat) (loc : Loc) (src : List Char) (ps : List Piece)
    (acc : List Tok) (h : pieces fuel loc src = .inl (.ok ps)) :
    lexPrefix fuel loc src acc =
      ⟨acc.reverse ++ tokensOf ps,
       some ⟨.eof, "EOF".toList, loc.advanceBy (ps.flatMap Piece.chars), loc.advanceBy (ps.flatMap Piece.chars)⟩,
       none⟩ := by
  induction fuel generalizing loc src ps acc with
  | zero => simp [pieces] at h
  | succ fuel ih =>
    cases src with
    | nil =>
      simp only [pieces, Sum.inl.injEq, Except.ok.injEq] at h
      subst h
      simp [lexPrefix, tokensOf, Loc.advanceBy]
    | cons c cs =>
      simp only [pieces] at h
      simp only [lexPrefix]
      split at h
      · simp at h
      · rename_i p rest hn
        split at h
        · rename_i ps' hps
          simp only [Sum.inl.injEq, Except.ok.injEq] at h
          subst h
          rw [ih _ _ _ _ hps]
          rw [List.flatMap_cons, advanceBy_append]
          cases p <;> simp [tokensOf]
        · simp at h
        · simp at h

theorem lexPrefix_of_pieces_err (fuel : Nat) (loc : Loc) (src : List Char) (e : LexErr)
    (acc : List Tok) (h : pieces fuel loc src = .inl (.error e)) :
    (lexPrefix fuel loc src acc).err = some e ∧ (lexPrefix fuel loc src acc).eof = none := by
  induction fuel generalizing loc src acc with
  | zero => simp [pieces] at h
  | succ fuel ih =>
    cases src with
    | nil => simp [pieces] at h
    | cons c cs =>
      simp only [pieces] at h
      simp only [lexPrefix]
      split at h
      · rename_i e' hn
        simp only [Sum.inl.injEq, Except.error.injEq] at h
        subst h
        exact ⟨rfl, rfl⟩
      · rename_i p rest hn
        split at h
        · simp at h
        · rename_i e' hps
          simp only [Sum.inl.injEq, Except.error.injEq] at h
          subst h
          exact ih _ _ _ hps
        · simp at h

theorem lexAll_of_pieces_ok (src : List Char) (ps : List Piece)
    (h : pieces (src.length + 1) Loc.start src = .inl (.ok ps)) :
    (lexAll src).tokens = tokensOf ps ∧ (lexAll src).err = none
      ∧ (lexAll src).eof = some ⟨.eof, "EOF".toList, Spec.locAt src src.length, Spec.locAt src src.length⟩ := by
  have hflat : ps.flatMap Piece.chars = src := by
    have h' := h
    rw [← locOf_nil] at h'
    exact (pieces_go _ [] src ps h').1
  have hloc : Loc.start.advanceBy src = Spec.locAt src src.length := by
    rw [start_advanceBy, locAt_eq_locOf _ _ (Nat.le_refl _), List.take_length]
  unfold lexAll
  rw [lexPrefix_of_pieces_ok _ _ _ _ [] h, hflat, hloc]
  simp

theorem lexAll_of_pieces_err (src : List Char) (e : LexErr)
    (h : pieces (src.length + 1) Loc.start src = .inl (.error e)) :
    (lexAll src).err = some e ∧ (lexAll src).eof = none :=
  lexPrefix_of_pieces_err _ _ _ _ [] h

theorem pieces_err_go (fuel : Nat) (consumed remaining : List Char) (e : LexErr)
    (h : pieces fuel (locOf consumed) remaining = .inl (.error e)) :
    ∃ a b r, a ++ b ++ r = consumed ++ remaining ∧ e.start = locOf a ∧ e.stop = locOf (a ++ b) := by
  induction fuel generalizing consumed remaining with
  | zero => simp [pieces] at h
  | succ fuel ih =>
    cases remaining with
    | nil => simp [pieces] at h
    | cons c cs =>
      simp only [pieces] at h
      split at h
      · rename_i e' hn
        simp only [Sum.inl.injEq, Except.error.injEq] at h
        subst h
        obtain ⟨a, b, r, h1, h2, h3⟩ := nextPiece_err _ _ _ _ hn
        refine ⟨consumed ++ a, b, r, by simp [← h1], ?_, ?_⟩
        · rw [h2, locOf_advanceBy]
        · rw [h3, locOf_advanceBy, List.append_assoc]
      · rename_i p rest hn
        obtain ⟨h1, -, -⟩ := nextPiece_ok _ _ _ _ _ hn
        rw [locOf_advanceBy] at h
        split at h
        · simp at h
        · rename_i e' hps
          simp only [Sum.inl.injEq, Except.error.injEq] at h
          subst h
          obtain ⟨a, b, r, g1, g2, g3⟩ := ih _ _ hps
          exact ⟨a, b, r, by rw [g1, List.append_assoc, h1], g2, g3⟩
        · simp at h

/-- Error spans are real positions of the text (the end may be the end-of-input position). -/
theorem pieces_error_span (src : List Char) (e : LexErr)
    (h : pieces (src.length + 1) Loc.start src = .inl (.error e)) :
    e.start.idx ≤ e.stop.idx ∧ e.stop.idx ≤ src.length
      ∧ e.start = Spec.locAt src e.start.idx ∧ e.stop = Spec.locAt src e.stop.idx := by
  rw [← locOf_nil] at h
  obtain ⟨a, b, r, h1, h2, h3⟩ := pieces_err_go _ [] src e h
  simp only [List.nil_append] at h1
  subst h1
  rw [h2, h3]
  refine ⟨by simp [locOf_idx], by simp [locOf_idx], ?_, ?_⟩
  · rw [locOf_idx, List.append_assoc, locAt_append_length]
  · rw [locOf_idx, locAt_append_length]

/-- The keyword decision of `makeName` is the specification's keyword table. -/
theorem keywordKind_eq_lookup (w : String) : keywordKind w = Spec.keywords.lookup w :=
  LexStep.keywordKind_eq_lookup w

end HmsProofs.Lemmas.Lexer
