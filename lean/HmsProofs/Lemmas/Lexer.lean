import Hms.Lex.Spec
/-! Helper lemmas for C06/C05/C08 (lexer). -/
namespace HmsProofs.Lemmas.Lexer
open Hms Hms.Lex

/-- Fuel never runs out. -/
theorem pieces_total (src : List Char) (loc : Loc) :
    ∃ r, pieces (src.length + 1) loc src = .inl r := by
  sorry

/-- Master theorem: the piece list the model produces satisfies the lexical specification. -/
theorem pieces_tokenize (src : List Char) (ps : List Piece)
    (h : pieces (src.length + 1) Loc.start src = .inl (.ok ps)) : Spec.tokenizes src ps = true := by
  sorry

theorem lexAll_of_pieces_ok (src : List Char) (ps : List Piece)
    (h : pieces (src.length + 1) Loc.start src = .inl (.ok ps)) :
    (lexAll src).tokens = tokensOf ps ∧ (lexAll src).err = none
      ∧ (lexAll src).eof = some ⟨.eof, "EOF".toList, Spec.locAt src src.length, Spec.locAt src src.length⟩ := by
  sorry

theorem lexAll_of_pieces_err (src : List Char) (e : LexErr)
    (h : pieces (src.length + 1) Loc.start src = .inl (.error e)) :
    (lexAll src).err = some e ∧ (lexAll src).eof = none := by
  sorry

/-- Error spans are real positions of the text (the end may be the end-of-input position). -/
theorem pieces_error_span (src : List Char) (e : LexErr)
    (h : pieces (src.length + 1) Loc.start src = .inl (.error e)) :
    e.start.idx ≤ e.stop.idx ∧ e.stop.idx ≤ src.length
      ∧ e.start = Spec.locAt src e.start.idx ∧ e.stop = Spec.locAt src e.stop.idx := by
  sorry

/-- The keyword decision of `makeName` is the specification's keyword table. -/
theorem keywordKind_eq_lookup (w : String) : keywordKind w = Spec.keywords.lookup w := by
  sorry

end HmsProofs.Lemmas.Lexer
