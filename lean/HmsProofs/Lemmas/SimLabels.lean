import HmsProofs.Lemmas.SimPipeline
import HmsProofs.Lemmas.SimReach
/-!
# From `relocate` to `Placed`: label resolution of a fragment inside a function

If the labels a fragment defines are pairwise distinct and not redefined later in the function,
`relocate` resolves each of them to its own position, so the fragment is `Placed` in the final
VM code (`placed_of_relocate`).
-/
namespace HmsProofs.Sim
open Hms.Core Hms.Core.Comp Hms.Core.VM

/-- The label of a `label` pseudo-instruction. -/
def labelOf? {L V : Type} : Instr L V → Option L
  | .label l => some l
  | _ => none

/-- The labels a fragment defines, in order. -/
def definedLabels (frag : SCode) : List String := frag.filterMap fun p => labelOf? p.1

@[simp] theorem definedLabels_append (a b : SCode) :
    definedLabels (a ++ b) = definedLabels a ++ definedLabels b := by
  simp [definedLabels]

@[simp] theorem definedLabels_nil : definedLabels [] = [] := rfl

@[simp] theorem definedLabels_label (l : String) (sp : Span) (r : SCode) :
    definedLabels ((Instr.label l, sp) :: r) = l :: definedLabels r := rfl

theorem definedLabels_instr (i : SInstr) (sp : Span) (r : SCode) (h : isLabel i = false) :
    definedLabels ((i, sp) :: r) = definedLabels r := by
  cases i <;> first | rfl | cases h

theorem mem_definedLabels (frag : SCode) (l : String) :
    l ∈ definedLabels frag ↔ ∃ sp, (Instr.label l, sp) ∈ frag := by
  simp only [definedLabels, List.mem_filterMap]
  constructor
  · rintro ⟨⟨i, sp⟩, hp, hl⟩
    cases i <;> simp [labelOf?] at hl
    subst hl
    exact ⟨sp, hp⟩
  · rintro ⟨sp, hp⟩
    exact ⟨_, hp, rfl⟩

/-- **Code at pc, with labels.** -/
theorem placed_of_relocate (pre frag post : SCode) (r : NCode)
    (hrel : relocate (pre ++ frag ++ post) = some r)
    (hnodup : (definedLabels frag).Nodup)
    (hdisj : ∀ l ∈ definedLabels frag, l ∉ definedLabels post) :
    Placed (labelIndex (pre ++ frag ++ post)) (slotFn r) (renameVars r) (nI pre) frag := by
  refine ⟨codeAt_of_compiled pre frag post r hrel, ?_⟩
  intro a l sp b hab
  subst hab
  have hnb : l ∉ definedLabels b := by
    simp only [definedLabels_append, definedLabels_label] at hnodup
    have := (List.nodup_append.mp hnodup).2.1
    exact (List.nodup_cons.mp this).1
  have hnp : l ∉ definedLabels post := hdisj l (by simp)
  have := labelIndex_of_last (pre ++ a) (b ++ post) l sp (by
    intro sp' hm
    rcases List.mem_append.mp hm with hm | hm
    · exact hnb ((mem_definedLabels _ _).mpr ⟨sp', hm⟩)
    · exact hnp ((mem_definedLabels _ _).mpr ⟨sp', hm⟩))
  have e : pre ++ (a ++ (Instr.label l, sp) :: b) ++ post = pre ++ a ++ (Instr.label l, sp) :: (b ++ post) := by
    simp
  rw [e, this, stripLabels_append, List.length_append]
  rfl

end HmsProofs.Sim
