import HmsProofs.Lemmas.SimInstr
/-!
# `Comp.renameVars` (Go: `renameVariables`)

`renameVars code = code.map (mapLV id (slotFn code))` where `slotFn code` is injective on the
names occurring in `code`, with values below the number of distinct names; nothing else is
touched (labels, payloads, spans, length).
-/
namespace HmsProofs.Sim
open Hms.Core Hms.Core.Comp

abbrev NCode := List (Instr Nat String × Span)

/-- Look a name up in the slot table, appending it with the next free slot when it is new. -/
def slotOf (slots : List (String × Nat)) (v : String) : List (String × Nat) × Nat :=
  match slots.lookup v with
  | some n => (slots, n)
  | none => (slots ++ [(v, slots.length)], slots.length)

def renStep (acc : List (String × Nat) × List (RInstr × Span)) (x : Instr Nat String × Span) :
    List (String × Nat) × List (RInstr × Span) :=
  match var? x.1 with
  | some v => ((slotOf acc.1 v).1, acc.2 ++ [(mapLV id (fun _ => (slotOf acc.1 v).2) x.1, x.2)])
  | none => (acc.1, acc.2 ++ [(mapLV id (fun _ => 0) x.1, x.2)])

theorem renameVars_eq_foldl (code : NCode) : renameVars code = (code.foldl renStep ([], [])).2 := by
  unfold renameVars
  simp only []
  congr 2
  funext ⟨slots, out⟩ ⟨i, sp⟩
  cases i <;> simp only [renStep, var?, mapLV, id, slotOf] <;> (try rfl) <;> (split <;> rfl)

/-- The names read or written by `getVar`/`setVar`, in order of occurrence. -/
def varNames (code : NCode) : List String := code.filterMap fun p => var? p.1

/-- The final slot table of `renameVars`. -/
def slotTable (code : NCode) : List (String × Nat) := (code.foldl renStep ([], [])).1

/-- The slot of a mangled name. -/
def slotFn (code : NCode) (v : String) : Nat := ((slotTable code).lookup v).getD 0

/-! ## The table only grows, and lookups are stable -/

theorem slotOf_lookup (slots : List (String × Nat)) (v : String) :
    (slotOf slots v).1.lookup v = some (slotOf slots v).2 := by
  unfold slotOf
  cases h : slots.lookup v with
  | some n => simp [h]
  | none => simp [List.lookup_append, h]

theorem slotOf_prefix (slots : List (String × Nat)) (v : String) :
    ∃ ext, (slotOf slots v).1 = slots ++ ext := by
  unfold slotOf
  cases h : slots.lookup v with
  | some n => exact ⟨[], by simp⟩
  | none => exact ⟨_, rfl⟩

theorem renStep_prefix (acc) (x : Instr Nat String × Span) : ∃ ext, (renStep acc x).1 = acc.1 ++ ext := by
  unfold renStep
  cases h : var? x.1 with
  | some v => exact slotOf_prefix _ _
  | none => exact ⟨[], by simp⟩

theorem foldl_prefix (code : NCode) : ∀ acc, ∃ ext, (code.foldl renStep acc).1 = acc.1 ++ ext := by
  induction code with
  | nil => intro acc; exact ⟨[], by simp⟩
  | cons x code ih =>
    intro acc
    obtain ⟨e1, h1⟩ := renStep_prefix acc x
    obtain ⟨e2, h2⟩ := ih (renStep acc x)
    exact ⟨e1 ++ e2, by rw [List.foldl_cons, h2, h1, List.append_assoc]⟩

theorem lookup_stable (slots ext : List (String × Nat)) (v : String) (n : Nat)
    (h : slots.lookup v = some n) : (slots ++ ext).lookup v = some n := by
  simp [List.lookup_append, h]

/-- The fold as a `map` with the *final* table. -/
theorem foldl_renStep (code : NCode) : ∀ acc,
    (code.foldl renStep acc).2 =
      acc.2 ++ code.map fun p =>
        (mapLV id (fun v => (((code.foldl renStep acc).1).lookup v).getD 0) p.1, p.2) := by
  induction code with
  | nil => intro acc; simp
  | cons x code ih =>
    intro acc
    rw [List.foldl_cons, ih (renStep acc x), List.map_cons]
    obtain ⟨ext, hext⟩ := foldl_prefix code (renStep acc x)
    have hx : (renStep acc x).2 =
        acc.2 ++ [(mapLV id (fun v => (((code.foldl renStep (renStep acc x)).1).lookup v).getD 0) x.1, x.2)] := by
      unfold renStep at hext ⊢
      cases hv : var? x.1 with
      | some v =>
        simp only [hv] at hext ⊢
        have := lookup_stable _ ext v _ (slotOf_lookup acc.1 v)
        rw [← hext] at this
        congr 3
        apply mapLV_congr
        · intros; rfl
        · intros; rfl
        · intro w hw
          rw [hv] at hw
          cases hw
          simp [this]
      | none =>
        simp only
        congr 3
        apply mapLV_congr
        · intros; rfl
        · intros; rfl
        · intro w hw; rw [hv] at hw; cases hw
    rw [hx]
    simp

/-- **`renameVars` is an instruction-wise map**: only the variable operand of `getVar` /
`setVar` changes (to `slotFn code`); labels, payloads, spans, order and length are kept. -/
theorem renameVars_eq_map (code : NCode) :
    renameVars code = code.map fun p => (mapLV id (slotFn code) p.1, p.2) := by
  rw [renameVars_eq_foldl, foldl_renStep]
  rfl

theorem renameVars_length (code : NCode) : (renameVars code).length = code.length := by
  simp [renameVars_eq_map]

theorem renameVars_spans (code : NCode) : (renameVars code).map (·.2) = code.map (·.2) := by
  simp [renameVars_eq_map, Function.comp_def]

theorem renameVars_getElem? (code : NCode) (k : Nat) :
    (renameVars code)[k]? = (code[k]?).map fun p => (mapLV id (slotFn code) p.1, p.2) := by
  simp [renameVars_eq_map]

/-! ## The slot table: injective, dense, and exactly the names that occur -/

structure TblInv (slots : List (String × Nat)) (names : List String) : Prop where
  lt : ∀ v n, slots.lookup v = some n → n < slots.length
  inj : ∀ v w n, slots.lookup v = some n → slots.lookup w = some n → v = w
  nodup : (slots.map Prod.fst).Nodup
  dom : ∀ v, v ∈ slots.map Prod.fst ↔ v ∈ names
  isSome : ∀ v, v ∈ slots.map Prod.fst → (slots.lookup v).isSome

theorem lookup_none_not_mem (slots : List (String × Nat)) (v : String) (h : slots.lookup v = none) :
    v ∉ slots.map Prod.fst := by
  intro hm
  obtain ⟨p, hp, rfl⟩ := List.mem_map.mp hm
  have := List.lookup_eq_none_iff.mp h p hp
  simp at this

theorem TblInv.slotOf {slots names} (h : TblInv slots names) (v : String) :
    TblInv (slotOf slots v).1 (names ++ [v]) := by
  unfold Sim.slotOf
  cases hl : slots.lookup v with
  | some n =>
    simp only
    have hv : v ∈ slots.map Prod.fst := by
      obtain ⟨l₁, l₂, e, _⟩ := List.lookup_eq_some_iff.mp hl
      rw [e]; simp
    refine ⟨h.lt, h.inj, h.nodup, ?_, h.isSome⟩
    intro w
    simp only [List.mem_append, List.mem_singleton, h.dom w]
    constructor
    · exact Or.inl
    · rintro (hw | rfl)
      · exact hw
      · exact (h.dom _).mp hv
  | none =>
    simp only
    have hnm := lookup_none_not_mem _ _ hl
    have key : ∀ w n, (slots ++ [(v, slots.length)]).lookup w = some n →
        slots.lookup w = some n ∨ (w = v ∧ n = slots.length) := by
      intro w n hw
      rw [List.lookup_append] at hw
      cases hs : slots.lookup w with
      | some m => left; simpa [hs] using hw
      | none =>
        right
        simp only [hs, Option.none_or, List.lookup_cons, List.lookup_nil] at hw
        split at hw
        · rename_i heq
          simp at heq hw
          exact ⟨heq, hw.symm⟩
        · cases hw
    refine ⟨?_, ?_, ?_, ?_, ?_⟩
    · intro w n hw
      rcases key w n hw with h1 | ⟨_, rfl⟩
      · have := h.lt w n h1; simp; omega
      · simp
    · intro w w' n hw hw'
      rcases key w n hw with h1 | ⟨e1, e1'⟩ <;> rcases key w' n hw' with h2 | ⟨e2, e2'⟩
      · exact h.inj w w' n h1 h2
      · have := h.lt w _ h1; omega
      · have := h.lt w' _ h2; omega
      · rw [e1, e2]
    · simp only [List.map_append, List.map_cons, List.map_nil]
      rw [List.nodup_append]
      refine ⟨h.nodup, by simp, ?_⟩
      intro a ha b hb
      simp only [List.mem_singleton] at hb
      subst hb
      intro e; subst e
      exact hnm ha
    · intro w
      simp only [List.map_append, List.map_cons, List.map_nil, List.mem_append, List.mem_singleton, h.dom w]
    · intro w hw
      simp only [List.map_append, List.map_cons, List.map_nil, List.mem_append, List.mem_singleton] at hw
      rw [List.lookup_append]
      rcases hw with hw | rfl
      · have := h.isSome w hw
        cases hs : slots.lookup w with
        | some m => simp
        | none => simp [hs] at this
      · simp [hl]

theorem TblInv.renStep {acc names} (h : TblInv acc.1 names) (x : Instr Nat String × Span) :
    TblInv (renStep acc x).1 (names ++ varNames [x]) := by
  unfold Sim.renStep varNames
  cases hv : var? x.1 with
  | some v => simpa [hv] using h.slotOf v
  | none => simpa [hv] using h

theorem TblInv.foldl (code : NCode) : ∀ {acc names}, TblInv acc.1 names →
    TblInv (code.foldl Sim.renStep acc).1 (names ++ varNames code) := by
  induction code with
  | nil => intro acc names h; simpa [varNames] using h
  | cons x code ih =>
    intro acc names h
    have := ih (h.renStep x)
    rw [List.append_assoc] at this
    have e : varNames [x] ++ varNames code = varNames (x :: code) := by
      simp [varNames, ← List.filterMap_append]
    rw [e] at this
    exact this

theorem slotTable_inv (code : NCode) : TblInv (slotTable code) (varNames code) := by
  have : TblInv ([] : List (String × Nat)) [] :=
    ⟨by simp, by simp, by simp, by simp, by simp⟩
  simpa [slotTable] using TblInv.foldl code (acc := ([], [])) this

/-- The distinct names of `code`, in order of first occurrence: slot `k` belongs to the `k`-th. -/
def distinctNames (code : NCode) : List String := (slotTable code).map Prod.fst

theorem distinctNames_nodup (code : NCode) : (distinctNames code).Nodup := (slotTable_inv code).nodup

theorem mem_distinctNames (code : NCode) (v : String) : v ∈ distinctNames code ↔ v ∈ varNames code :=
  (slotTable_inv code).dom v

theorem slotTable_lookup (code : NCode) (v : String) (hv : v ∈ varNames code) :
    (slotTable code).lookup v = some (slotFn code v) := by
  have := (slotTable_inv code).isSome v ((mem_distinctNames code v).mpr hv)
  unfold slotFn
  cases h : (slotTable code).lookup v with
  | some n => rfl
  | none => simp [h] at this

/-- **Slots are below the number of distinct names.** -/
theorem slotFn_lt (code : NCode) (v : String) (hv : v ∈ varNames code) :
    slotFn code v < (distinctNames code).length := by
  have := (slotTable_inv code).lt v _ (slotTable_lookup code v hv)
  simpa [distinctNames] using this

/-- **Same slot iff same mangled name.** -/
theorem slotFn_inj (code : NCode) (v w : String) (hv : v ∈ varNames code) (hw : w ∈ varNames code) :
    slotFn code v = slotFn code w ↔ v = w := by
  constructor
  · intro h
    refine (slotTable_inv code).inj v w _ (slotTable_lookup code v hv) ?_
    rw [h]; exact slotTable_lookup code w hw
  · rintro rfl; rfl

end HmsProofs.Sim
