import HmsProofs.Lemmas.SimCompile
/-!
# The compiler model on pure expressions with control flow

The fragment `Frag.pureE`: the straight-line fragment plus `&&`, `||` and `if … else …` whose
branches are blocks consisting of one pure expression. The emitted code contains labels; it is
a pure function `cpE` of the expression, the module name, the scope map and the label counters.
-/
namespace HmsProofs.Sim
open Hms.Core Hms.Core.Comp

/-- Label counters (`CState.labelMangle`). -/
abbrev LM := List (String × Nat)

/-- `mangleLabel` as a pure function. -/
def freshLabel (mod : String) (lm : LM) (ident : String) : String × LM :=
  (s!"{mod}.{ident}.{(lm.lookup ident).getD 0}",
   if (lm.lookup ident).isSome then lm.map fun (k, n) => if k == ident then (k, n + 1) else (k, n)
   else lm ++ [(ident, 1)])

namespace Frag
mutual
/-- Pure expressions: straight-line ones, `&&`/`||`, and `if`/`else` over pure blocks. -/
def pureE : Expr → Bool
  | .int .. | .bool .. | .str .. | .null .. | .none .. => true
  | .grouped _ e => pureE e
  | .ident _ _ _ isGlobal isFn isSingleton => !isGlobal && !isFn && !isSingleton
  | .pre _ _ _ e => pureE e
  | .infix _ _ _ l r => pureE l && pureE r
  | .ifE _ _ c t (some e) => pureE c && pureB t && pureB e
  | _ => false
/-- A block that is just one pure expression. -/
def pureB : Block → Bool
  | .mk _ _ [] (some e) => pureE e
  | _ => false
end

mutual
def depthE : Expr → Nat
  | .grouped _ e => depthE e + 1
  | .pre _ _ _ e => depthE e + 1
  | .infix _ _ _ l r => max (depthE l) (depthE r) + 1
  | .ifE _ _ c t (some e) => max (depthE c) (max (depthB t) (depthB e)) + 1
  | _ => 1
def depthB : Block → Nat
  | .mk _ _ _ (some e) => depthE e + 1
  | _ => 1
end

mutual
def varsE : Expr → List String
  | .grouped _ e => varsE e
  | .ident _ _ name _ _ _ => [name]
  | .pre _ _ _ e => varsE e
  | .infix _ _ _ l r => varsE l ++ varsE r
  | .ifE _ _ c t (some e) => varsE c ++ (varsB t ++ varsB e)
  | _ => []
def varsB : Block → List String
  | .mk _ _ _ (some e) => varsE e
  | _ => []
end
end Frag

mutual
/-- **The code of a pure expression** and the label counters afterwards. -/
def cpE (mod : String) (ρ : String → Option String) : Expr → LM → SCode × LM
  | .int sp v, lm => ([(.copyPush (.int v), sp)], lm)
  | .bool sp b, lm => ([(.copyPush (.bool b), sp)], lm)
  | .str sp s, lm => ([(.copyPush (.str s), sp)], lm)
  | .null sp, lm => ([(.copyPush .null, sp)], lm)
  | .none sp, lm => ([(.copyPush .noneOpt, sp)], lm)
  | .grouped _ e, lm => cpE mod ρ e lm
  | .ident sp _ name _ _ _, lm =>
    (match ρ name with
      | some m => [(.getVar m, sp)]
      | none => [], lm)
  | .pre sp _ op e, lm => ((cpE mod ρ e lm).1 ++ [(preI op, sp)], (cpE mod ρ e lm).2)
  | .infix sp _ .or l r, lm =>
    let rt := freshLabel mod lm "return_true"
    let af := freshLabel mod rt.2 "after_infix"
    let cl := cpE mod ρ l af.2
    let cr := cpE mod ρ r cl.2
    (cl.1 ++ [(.not, sp), (.jumpIfFalse rt.1, sp)] ++ cr.1 ++
      [(.jump af.1, sp), (.label rt.1, sp), (.copyPush (.bool true), sp), (.label af.1, sp)], cr.2)
  | .infix sp _ .and l r, lm =>
    let rf := freshLabel mod lm "return_false"
    let af := freshLabel mod rf.2 "after_infix"
    let cl := cpE mod ρ l af.2
    let cr := cpE mod ρ r cl.2
    (cl.1 ++ [(.jumpIfFalse rf.1, sp)] ++ cr.1 ++
      [(.jump af.1, sp), (.label rf.1, sp), (.copyPush (.bool false), sp), (.label af.1, sp)], cr.2)
  | .infix sp _ op l r, lm =>
    let cl := cpE mod ρ l lm
    let cr := cpE mod ρ r cl.2
    (cl.1 ++ cr.1 ++ (arithI op).map (·, sp), cr.2)
  | .ifE sp _ c t (some eb), lm =>
    let cc := cpE mod ρ c lm
    let after := freshLabel mod cc.2 "if_after"
    let els := freshLabel mod after.2 "else"
    let ct := cpB mod ρ t els.2
    let ce := cpB mod ρ eb ct.2
    (cc.1 ++ [(.jumpIfFalse els.1, sp)] ++ ct.1 ++ [(.jump after.1, sp), (.label els.1, sp)] ++ ce.1 ++
      [(.label after.1, sp)], ce.2)
  | _, lm => ([], lm)
def cpB (mod : String) (ρ : String → Option String) : Block → LM → SCode × LM
  | .mk _ _ [] (some e), lm => cpE mod ρ e lm
  | _, lm => ([], lm)
end

/-! ## Frame lemmas -/

/-- `cs` with `xs` appended to the current function's code and the label counters set. -/
def upd (cs : CState) (xs : SCode) (lm : LM) : CState := { appendCode cs xs with labelMangle := lm }

theorem emit_run_upd (i : SInstr) (sp : Span) (cs : CState) :
    (Comp.emit i sp).run cs = ((), upd cs [(i, sp)] cs.labelMangle) := rfl

theorem mangleLabel_run (ident : String) (cs : CState) :
    (mangleLabel ident).run cs =
      ((freshLabel cs.currModule cs.labelMangle ident).1,
       upd cs [] (freshLabel cs.currModule cs.labelMangle ident).2) := by
  have : upd cs [] (freshLabel cs.currModule cs.labelMangle ident).2 =
      { cs with labelMangle := (freshLabel cs.currModule cs.labelMangle ident).2 } := by
    unfold upd; rw [appendCode_nil]
  rw [this]
  rfl

theorem upd_upd (cs : CState) (xs ys : SCode) (l1 l2 : LM) :
    upd (upd cs xs l1) ys l2 = upd cs (xs ++ ys) l2 := by
  unfold upd
  have : appendCode { appendCode cs xs with labelMangle := l1 } ys
      = { appendCode (appendCode cs xs) ys with labelMangle := l1 } := rfl
  rw [this, appendCode_append]

@[simp] theorem upd_labelMangle (cs xs lm) : (upd cs xs lm).labelMangle = lm := rfl
@[simp] theorem upd_currModule (cs xs lm) : (upd cs xs lm).currModule = cs.currModule := rfl
@[simp] theorem ρOf_upd (cs xs lm) : ρOf (upd cs xs lm) = ρOf cs := rfl

theorem appendCode_eq_upd (cs : CState) (xs : SCode) : appendCode cs xs = upd cs xs cs.labelMangle := rfl

theorem upd_self (cs : CState) : upd cs [] cs.labelMangle = cs := by
  unfold upd; rw [appendCode_nil]

/-- Everything but the current function's code and the label counters is untouched by `upd`. -/
theorem upd_frame (cs : CState) (xs : SCode) (lm : LM) :
    (upd cs xs lm).currFn = cs.currFn ∧ (upd cs xs lm).currModule = cs.currModule ∧
    (upd cs xs lm).loops = cs.loops ∧ (upd cs xs lm).varMangle = cs.varMangle ∧
    (upd cs xs lm).scopes = cs.scopes ∧ (upd cs xs lm).lambdaCount = cs.lambdaCount ∧
    (upd cs xs lm).unsupported = cs.unsupported ∧ (upd cs xs lm).tryDepth = cs.tryDepth ∧
    (∀ f, cs.fns.lookup (cs.currModule, cs.currFn) = some f →
      (upd cs xs lm).fns.lookup (cs.currModule, cs.currFn) = some { f with code := f.code ++ xs }) ∧
    (∀ key, key ≠ (cs.currModule, cs.currFn) → (upd cs xs lm).fns.lookup key = cs.fns.lookup key) :=
  ⟨rfl, rfl, rfl, rfl, rfl, rfl, rfl, rfl, fun f hf => appendCode_lookup cs xs f hf,
   fun key hk => appendCode_lookup_other cs xs key hk⟩

theorem bind_run {α β} (a : C α) (b : α → C β) (cs cs1 : CState) (x : α) (r : β × CState)
    (ha : a.run cs = (x, cs1)) (hb : (b x).run cs1 = r) : (a >>= b).run cs = r := by
  simp only [StateT.run_bind, ha]
  exact hb

/-- A pushed empty scope does not change what identifiers resolve to. -/
theorem ρOf_pushed (cs : CState) : ρOf { cs with scopes := [] :: cs.scopes } = ρOf cs := by
  funext x
  simp [ρOf, List.findSome?_cons]

/-! ## The theorem -/

theorem emit_run_acc (i : SInstr) (sp : Span) (cs : CState) (c0 : SCode) (l0 : LM) :
    (Comp.emit i sp).run (upd cs c0 l0) = ((), upd cs (c0 ++ [(i, sp)]) l0) := by
  rw [emit_run_upd, upd_upd]; rfl

theorem mangleLabel_run_acc (ident : String) (cs : CState) (c0 : SCode) (l0 : LM) :
    (mangleLabel ident).run (upd cs c0 l0) =
      ((freshLabel cs.currModule l0 ident).1, upd cs c0 (freshLabel cs.currModule l0 ident).2) := by
  rw [mangleLabel_run, upd_upd, List.append_nil]; rfl

theorem arith_run_acc (op : InfixOp) (sp : Span) (cs : CState) (c0 : SCode) (l0 : LM)
    (h : Frag.isLogical op = false) :
    (arith op sp).run (upd cs c0 l0) = ((), upd cs (c0 ++ (arithI op).map (·, sp)) l0) := by
  rw [arith_run _ _ _ h, appendCode_eq_upd, upd_upd]; rfl

/-- The statement for one expression / one block, in accumulator form: started with `c0`
already appended and label counters `l0`. -/
def CompE (fuel : Nat) (e : Expr) (cs : CState) : Prop :=
  ∀ (c0 : SCode) (l0 : LM), (compileExpr fuel e).run (upd cs c0 l0) =
    ((), upd cs (c0 ++ (cpE cs.currModule (ρOf cs) e l0).1) (cpE cs.currModule (ρOf cs) e l0).2)

def CompB (fuel : Nat) (b : Block) (cs : CState) : Prop :=
  ∀ (c0 : SCode) (l0 : LM), (compileBlock fuel b true).run (upd cs c0 l0) =
    ((), upd cs (c0 ++ (cpB cs.currModule (ρOf cs) b l0).1) (cpB cs.currModule (ρOf cs) b l0).2)

theorem depthE_pos (e : Expr) : 1 ≤ Frag.depthE e := by
  cases e <;> try (simp [Frag.depthE]; done)
  case ifE sp ty c t el => cases el <;> simp [Frag.depthE]

theorem compile_pure : ∀ (fuel : Nat),
    (∀ (e : Expr) (cs : CState), Frag.pureE e = true → Frag.depthE e ≤ fuel →
      (∀ x ∈ Frag.varsE e, (ρOf cs x).isSome = true) → CompE fuel e cs) ∧
    (∀ (b : Block) (cs : CState), Frag.pureB b = true → Frag.depthB b ≤ fuel →
      (∀ x ∈ Frag.varsB b, (ρOf cs x).isSome = true) → CompB fuel b cs) := by
  intro fuel
  induction fuel with
  | zero =>
    constructor
    · intro e cs hp hd
      have := depthE_pos e
      omega
    · intro b cs _ hd
      obtain ⟨sp, ty, stmts, oe⟩ := b
      cases oe <;> simp [Frag.depthB] at hd
  | succ fuel ih =>
    obtain ⟨ihE, ihB⟩ := ih
    constructor
    · intro e cs hs hd hv c0 l0
      cases e <;> try (simp only [Frag.pureE, Bool.false_eq_true] at hs)
      case int | bool | str | null | none =>
        rw [compileExpr, cpE]; exact emit_run_acc ..
      case grouped sp e =>
        rw [compileExpr, cpE]
        exact ihE e cs hs (by simp only [Frag.depthE] at hd; omega) hv c0 l0
      case ident sp ty name isGlobal isFn isSingleton =>
        simp only [Bool.and_eq_true, Bool.not_eq_eq_eq_not, Bool.not_true] at hs
        obtain ⟨⟨hg, _⟩, hsing⟩ := hs
        subst hg hsing
        have := hv name (by simp [Frag.varsE])
        rw [compileExpr.eq_def]
        simp only [StateT.run_bind, getMangled_run, cpE, ρOf_upd]
        cases hρ : ρOf cs name with
        | none => simp [hρ] at this
        | some m => exact emit_run_acc ..
      case pre sp ty op e =>
        have h1 := ihE e cs hs (by simp only [Frag.depthE] at hd; omega) hv c0 l0
        cases op <;>
          (rw [compileExpr, cpE]
           refine bind_run _ _ _ _ _ _ h1 ?_
           rw [emit_run_acc, List.append_assoc]; rfl)
      case «infix» sp ty op l r =>
        simp only [Bool.and_eq_true] at hs
        obtain ⟨hl, hr⟩ := hs
        simp only [Frag.depthE] at hd
        simp only [Frag.varsE, List.mem_append] at hv
        have hdl : Frag.depthE l ≤ fuel := by omega
        have hdr : Frag.depthE r ≤ fuel := by omega
        have hL := ihE l cs hl hdl (fun x hx => hv x (Or.inl hx))
        have hR := ihE r cs hr hdr (fun x hx => hv x (Or.inr hx))
        by_cases hor : op = .or
        · subst hor
          rw [compileExpr, cpE]
          refine bind_run _ _ _ _ _ _ (mangleLabel_run_acc _ _ _ _) ?_
          refine bind_run _ _ _ _ _ _ (mangleLabel_run_acc _ _ _ _) ?_
          refine bind_run _ _ _ _ _ _ (hL _ _) ?_
          refine bind_run _ _ _ _ _ _ (emit_run_acc _ _ _ _ _) ?_
          refine bind_run _ _ _ _ _ _ (emit_run_acc _ _ _ _ _) ?_
          refine bind_run _ _ _ _ _ _ (hR _ _) ?_
          refine bind_run _ _ _ _ _ _ (emit_run_acc _ _ _ _ _) ?_
          refine bind_run _ _ _ _ _ _ (emit_run_acc _ _ _ _ _) ?_
          refine bind_run _ _ _ _ _ _ (emit_run_acc _ _ _ _ _) ?_
          rw [emit_run_acc]
          simp only [List.append_assoc, List.cons_append, List.nil_append]
        · by_cases hand : op = .and
          · subst hand
            rw [compileExpr, cpE]
            refine bind_run _ _ _ _ _ _ (mangleLabel_run_acc _ _ _ _) ?_
            refine bind_run _ _ _ _ _ _ (mangleLabel_run_acc _ _ _ _) ?_
            refine bind_run _ _ _ _ _ _ (hL _ _) ?_
            refine bind_run _ _ _ _ _ _ (emit_run_acc _ _ _ _ _) ?_
            refine bind_run _ _ _ _ _ _ (hR _ _) ?_
            refine bind_run _ _ _ _ _ _ (emit_run_acc _ _ _ _ _) ?_
            refine bind_run _ _ _ _ _ _ (emit_run_acc _ _ _ _ _) ?_
            refine bind_run _ _ _ _ _ _ (emit_run_acc _ _ _ _ _) ?_
            rw [emit_run_acc]
            simp only [List.append_assoc, List.cons_append, List.nil_append]
          · have hlog : Frag.isLogical op = false := by
              cases op <;> first | rfl | exact absurd rfl hor | exact absurd rfl hand
            rw [compileExpr, cpE]
            · refine bind_run _ _ _ _ _ _ (hL _ _) ?_
              refine bind_run _ _ _ _ _ _ (hR _ _) ?_
              rw [arith_run_acc _ _ _ _ _ hlog]
              simp only [List.append_assoc]
            all_goals (intro h; first | exact hor h | exact hand h)
      case ifE sp ty c t el =>
        cases el with
        | none => simp [Frag.pureE] at hs
        | some eb =>
          simp only [Frag.pureE, Bool.and_eq_true] at hs
          obtain ⟨⟨hc, ht⟩, he⟩ := hs
          simp only [Frag.depthE] at hd
          simp only [Frag.varsE, List.mem_append] at hv
          have hC := ihE c cs hc (by omega) (fun x hx => hv x (Or.inl hx))
          have hT := ihB t cs ht (by omega) (fun x hx => hv x (Or.inr (Or.inl hx)))
          have hE := ihB eb cs he (by omega) (fun x hx => hv x (Or.inr (Or.inr hx)))
          rw [compileExpr, cpE]
          refine bind_run _ _ _ _ _ _ (hC _ _) ?_
          refine bind_run _ _ _ _ _ _ (mangleLabel_run_acc _ _ _ _) ?_
          refine bind_run _ _ _ _ _ _ (mangleLabel_run_acc _ _ _ _) ?_
          refine bind_run _ _ _ _ _ _ (emit_run_acc _ _ _ _ _) ?_
          refine bind_run _ _ _ _ _ _ (hT _ _) ?_
          refine bind_run _ _ _ _ _ _ (emit_run_acc _ _ _ _ _) ?_
          simp only []
          refine bind_run _ _ _ _ _ _ (emit_run_acc _ _ _ _ _) ?_
          refine bind_run _ _ _ _ _ _ (hE _ _) ?_
          rw [emit_run_acc]
          simp only [List.append_assoc, List.cons_append, List.nil_append, Option.isSome_some, if_true]
    · intro b cs hs hd hv c0 l0
      obtain ⟨sp, ty, stmts, oe⟩ := b
      cases stmts with
      | cons _ _ => simp [Frag.pureB] at hs
      | nil =>
        cases oe with
        | none => simp [Frag.pureB] at hs
        | some e =>
          simp only [Frag.pureB] at hs
          simp only [Frag.depthB] at hd
          simp only [Frag.varsB] at hv
          have hfuel : ∃ f', fuel = f' + 1 := ⟨fuel - 1, by have := depthE_pos e; omega⟩
          obtain ⟨f', rfl⟩ := hfuel
          have h1 := ihE e { cs with scopes := [] :: cs.scopes } hs (by omega)
            (by rw [ρOf_pushed]; exact hv) c0 l0
          rw [ρOf_pushed] at h1
          rw [compileBlock, cpB]
          simp only [if_true]
          refine bind_run _ _ _ (upd { cs with scopes := [] :: cs.scopes } c0 l0) _ _ rfl ?_
          refine bind_run _ _ _ (upd { cs with scopes := [] :: cs.scopes } c0 l0) _ _ (by rw [compileStmts]; rfl) ?_
          refine bind_run _ _ _ _ _ _ h1 ?_
          rfl

/-- **`compileExpr` on pure expressions** (from a state in normal position). -/
theorem compileExpr_pure (fuel : Nat) (e : Expr) (cs : CState)
    (hs : Frag.pureE e = true) (hd : Frag.depthE e ≤ fuel)
    (hv : ∀ x ∈ Frag.varsE e, (ρOf cs x).isSome = true) :
    (compileExpr fuel e).run cs =
      ((), upd cs (cpE cs.currModule (ρOf cs) e cs.labelMangle).1 (cpE cs.currModule (ρOf cs) e cs.labelMangle).2) := by
  have := (compile_pure fuel).1 e cs hs hd hv [] cs.labelMangle
  rwa [upd_self, List.nil_append] at this

end HmsProofs.Sim
