import Hms.Lex.Spec
/-! Position lemmas for the lexer model: `Loc.advanceBy` computes `Spec.locAt`. -/
namespace HmsProofs.Lemmas.LexLoc
open Hms Hms.Lex

/-- The position reached after reading the prefix `pre` (independent description). -/
def locOf (pre : List Char) : Loc :=
  ⟨1 + pre.count '\n', 1 + (pre.reverse.takeWhile (· != '\n')).length, pre.length⟩

theorem locOf_nil : locOf [] = Loc.start := rfl

theorem locOf_snoc (pre : List Char) (c : Char) : locOf (pre ++ [c]) = (locOf pre).advance c := by
  unfold locOf Loc.advance
  by_cases h : c = '\n'
  · subst h; simp; omega
  · simp [h, List.count_append]
    omega

theorem advanceBy_append (l : Loc) (a b : List Char) :
    l.advanceBy (a ++ b) = (l.advanceBy a).advanceBy b := by
  induction a generalizing l with
  | nil => rfl
  | cons c a ih => simp [Loc.advanceBy, ih]

theorem locOf_advanceBy (pre s : List Char) : (locOf pre).advanceBy s = locOf (pre ++ s) := by
  induction s generalizing pre with
  | nil => simp [Loc.advanceBy]
  | cons c s ih =>
    simp only [Loc.advanceBy]
    rw [← locOf_snoc, ih]
    simp

theorem start_advanceBy (s : List Char) : Loc.start.advanceBy s = locOf s := by
  rw [← locOf_nil, locOf_advanceBy]; simp

theorem locAt_eq_locOf (src : List Char) (i : Nat) (h : i ≤ src.length) :
    Spec.locAt src i = locOf (src.take i) := by
  unfold Spec.locAt locOf
  simp [Nat.min_eq_left h]

theorem locAt_append_length (pre rest : List Char) :
    Spec.locAt (pre ++ rest) pre.length = locOf pre := by
  rw [locAt_eq_locOf _ _ (by simp)]; simp

theorem locOf_idx (pre : List Char) : (locOf pre).idx = pre.length := rfl

theorem advanceBy_idx (l : Loc) (s : List Char) : (l.advanceBy s).idx = l.idx + s.length := by
  induction s generalizing l with
  | nil => rfl
  | cons c s ih =>
    simp only [Loc.advanceBy, ih, List.length_cons]
    unfold Loc.advance; split <;> simp <;> omega

end HmsProofs.Lemmas.LexLoc
