import Hms.Conc.Invoke
import HmsProofs.Lemmas.ConcProtocol
/-! # Lemmas about host invocations (`Hms/Conc/Invoke.lean`) -/
namespace Hms.Conc

theorem prePush_eq_reverse {V : Type} (xs : List V) : prePush xs = xs.reverse := by
  have h : ∀ (ys acc : List V), ys.foldl push acc = ys.reverse ++ acc := by
    intro ys
    induction ys with
    | nil => intro acc; rfl
    | cons y ys ih => intro acc; simp [List.foldl, ih, push]
  simpa [prePush] using h xs []

theorem popN_append {V : Type} (xs rest : List V) : popN xs.length (xs ++ rest) = (xs, rest) := by
  induction xs with
  | nil => rfl
  | cons x xs ih => simp [popN, ih]

theorem popN_prePush_invert {V : Type} (args : List V) :
    popN args.length (prePush (invert args)) = (args, []) := by
  have := popN_append args ([] : List V)
  simpa [prePush_eq_reverse, invert] using this

/-- The state in which `Wait` returns during a host call on a quiescent VM. -/
def syncEnd (p : PState) (sg : Sig) : PState :=
  let core' := upd (upd (upd p.core p.n (.running .idle)) p.n (.signalled sg)) p.n (.received sg)
  match sg with
  | none => { p with n := p.n + 1, core := core', listed := [], wait := .returned none }
  | some i =>
    { p with n := p.n + 1, core := core', listed := [], wait := .returned (some (p.n, i)),
             cancelled := true, dropped := true, leaked := 0 }

theorem wait_single (p : PState) (sg : Sig) (hl : p.listed = []) (hk : p.leaked = 0) :
    waitRun Cfg.fixed (waitFuel (syncStart Cfg.fixed p sg)) (syncStart Cfg.fixed p sg) = syncEnd p sg := by
  cases sg with
  | none =>
    simp [syncStart, syncEnd, waitFuel, PState.spawn, hl, hk, waitRun, waitStep, sent, Cfg.fixed]
  | some i =>
    simp [syncStart, syncEnd, waitFuel, PState.spawn, hl, hk, waitRun, waitStep, sent, Cfg.fixed]

theorem quiescent_lockFree {V G : Type} {s : VMState V G} (hq : s.quiescent) : s.proto.lockFree = true := by
  obtain ⟨_, hk, ha⟩ := hq
  unfold PState.lockFree
  cases hw : s.proto.wait <;> simp_all [WaitPc.holdsR, WaitPc.active]

/-- What a valid call on a quiescent VM computes (fixed protocol). -/
def invokeSpec {V G : Type} (prog : Prog V G) (s : VMState V G) (c : Call V) (sg : FnSig) :
    VMState V G × Result V × String :=
  let r := runCore prog s.proto.cancelled c.fn sg.params (prePush (invert c.args)) s.globals
  ({ proto := syncEnd s.proto r.sig, globals := r.globals, last := some r.core },
   (match r.sig with
    | none => handleTermination prog c.fn sg r.core
    | some i => .exc s.proto.n i r.kind r.msg),
   r.out)

theorem invoke_quiescent {V G : Type} (prog : Prog V G) (s : VMState V G) (c : Call V) (sg : FnSig)
    (hsig : prog.sig c.fn = some sg) (hlen : c.args.length = sg.params) (hq : s.quiescent) :
    invoke Cfg.fixed prog s c = invokeSpec prog s c sg := by
  have hf := quiescent_lockFree hq
  obtain ⟨hl, hk, _⟩ := hq
  unfold invoke invokeSpec
  simp only [hsig, hlen, hf]
  simp only [ne_eq, not_true_eq_false, ↓reduceIte, Bool.not_true, Bool.false_eq_true]
  generalize runCore prog s.proto.cancelled c.fn sg.params (prePush (invert c.args)) s.globals = r
  rw [wait_single s.proto r.sig hl hk]
  cases hs : r.sig <;> simp [syncEnd, PState.waitResult]

theorem syncEnd_quiescent (p : PState) (sg : Sig) (hk : p.leaked = 0) :
    (syncEnd p sg).listed = [] ∧ (syncEnd p sg).leaked = 0 ∧ (syncEnd p sg).wait.active = false := by
  cases sg <;> simp [syncEnd, hk, WaitPc.active]

theorem invoke_preserves_quiescent {V G : Type} (prog : Prog V G) (s : VMState V G) (c : Call V)
    (hq : s.quiescent) : (invoke Cfg.fixed prog s c).1.quiescent := by
  cases hsig : prog.sig c.fn with
  | none => simpa [invoke, hsig] using hq
  | some sg =>
    by_cases hlen : c.args.length = sg.params
    · rw [invoke_quiescent prog s c sg hsig hlen hq]
      exact syncEnd_quiescent _ _ hq.2.1
    · simpa [invoke, hsig, hlen] using hq

theorem invoke_not_blocked {V G : Type} (prog : Prog V G) (s : VMState V G) (c : Call V)
    (hq : s.quiescent) : (invoke Cfg.fixed prog s c).2.1 ≠ .blocked := by
  cases hsig : prog.sig c.fn with
  | none => simp [invoke, hsig]
  | some sg =>
    by_cases hlen : c.args.length = sg.params
    · rw [invoke_quiescent prog s c sg hsig hlen hq]
      simp only [invokeSpec]
      split
      · simp only [handleTermination]
        split
        · split
          · simp
          · split <;> simp
        · simp
      · simp
    · simp [invoke, hsig, hlen]

theorem syncEnd_cancelled (p : PState) (sg : Sig) :
    (syncEnd p sg).cancelled = (p.cancelled || sg.isSome) := by
  cases sg <;> simp [syncEnd]

/-- Once the VM is cancelled it stays cancelled, whatever is invoked. -/
theorem invoke_cancelled_mono {V G : Type} (prog : Prog V G) (s : VMState V G) (c : Call V)
    (hq : s.quiescent) (hc : s.proto.cancelled = true) : (invoke Cfg.fixed prog s c).1.proto.cancelled = true := by
  cases hsig : prog.sig c.fn with
  | none => simpa [invoke, hsig] using hc
  | some sg =>
    by_cases hlen : c.args.length = sg.params
    · rw [invoke_quiescent prog s c sg hsig hlen hq]
      simp [invokeSpec, syncEnd_cancelled, hc]
    · simpa [invoke, hsig, hlen] using hc

/-- A failed call leaves the VM cancelled. -/
theorem invoke_failure_cancels {V G : Type} (prog : Prog V G) (s : VMState V G) (c : Call V)
    (hq : s.quiescent) (hf : (invoke Cfg.fixed prog s c).2.1.isFailure = true) :
    (invoke Cfg.fixed prog s c).1.proto.cancelled = true := by
  cases hsig : prog.sig c.fn with
  | none => simp [invoke, hsig, Result.isFailure] at hf
  | some sg =>
    by_cases hlen : c.args.length = sg.params
    · rw [invoke_quiescent prog s c sg hsig hlen hq] at hf ⊢
      simp only [invokeSpec] at hf ⊢
      rw [syncEnd_cancelled]
      split at hf
      · rename_i h
        simp only [handleTermination] at hf
        split at hf
        · split at hf
          · simp [Result.isFailure] at hf
          · split at hf <;> simp [Result.isFailure] at hf
        · simp [Result.isFailure] at hf
      · rename_i i h; simp [h]
    · simp [invoke, hsig, hlen, Result.isFailure] at hf

/-- On a cancelled VM a call never runs its body: it answers with a termination interrupt
(or with the host-side validation panic), and the globals stay as they are. -/
theorem invoke_on_cancelled {V G : Type} (prog : Prog V G) (s : VMState V G) (c : Call V) (sg : FnSig)
    (hsig : prog.sig c.fn = some sg) (hlen : c.args.length = sg.params)
    (hq : s.quiescent) (hc : s.proto.cancelled = true) :
    (invoke Cfg.fixed prog s c).2.1 = .exc s.proto.n .terminate "-" "context canceled"
      ∧ (invoke Cfg.fixed prog s c).1.globals = s.globals := by
  rw [invoke_quiescent prog s c sg hsig hlen hq]
  simp [invokeSpec, runCore, hc]

end Hms.Conc

namespace Hms.Conc

/-- The protocol part of a host invocation is a run of the transition system: `spawnCore`
(`hostSpawn`), the core's signal (`coreFinish`), the host entering `Wait` (`waitStart`) and
`Wait`'s own steps. (A callee cannot fabricate a termination interrupt: `hterm`.) -/
theorem invoke_reach {V G : Type} (cfg : Cfg) (prog : Prog V G) (s : VMState V G) (c : Call V)
    (hterm : ∀ f a g k m, (prog.body f a g).res ≠ .fail .terminate k m)
    (hr : Reach cfg s.proto) (ha : s.proto.wait.active = false) :
    Reach cfg (invoke cfg prog s c).1.proto := by
  unfold invoke
  split
  · exact hr
  · rename_i sg hsig
    split
    · exact hr
    · split
      · exact hr
      · rename_i hlf
        have hlf' : s.proto.lockFree = true := by simpa using hlf
        have hsigterm : (runCore prog s.proto.cancelled c.fn sg.params (prePush (invert c.args)) s.globals).sig = some .terminate →
            s.proto.cancelled = true := by
          intro h
          unfold runCore at h
          split at h
          · assumption
          · simp only at h
            cases hres : (prog.body c.fn (popN sg.params (prePush (invert c.args))).1 s.globals).res with
            | ret v => rw [hres] at h; cases h
            | fail i k m =>
              rw [hres] at h
              simp only [Option.some.injEq] at h
              subst h
              exact absurd hres (hterm _ _ _ _ _)
        have r1 : Reach cfg s.proto.spawn := .step _ _ hr (.hostSpawn _ hlf')
        have hcore : s.proto.spawn.core s.proto.n = .running .idle := by simp [PState.spawn]
        have r2 := Reach.step _ _ r1 (Step.coreFinish (cfg := cfg) s.proto.spawn s.proto.n
          (runCore prog s.proto.cancelled c.fn sg.params (prePush (invert c.args)) s.globals).sig hcore
          (fun h => hsigterm h))
        have r3 := Reach.step _ _ r2 (Step.waitStart _ (by simpa [PState.spawn] using ha))
        have r4 := waitRun_reach (cfg := cfg)
          (waitFuel (syncStart cfg s.proto (runCore prog s.proto.cancelled c.fn sg.params (prePush (invert c.args)) s.globals).sig))
          _ r3
        simp only []
        split <;> exact r4

end Hms.Conc
