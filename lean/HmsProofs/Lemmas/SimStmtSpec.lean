import HmsProofs.Lemmas.SimEnv
/-!
# Specification-side equations for statements, and static facts about `cS`
-/
namespace HmsProofs.Sim
open Hms.Core Hms.Core.Comp Hms.Core.VM

/-! ## `evalStmt` and friends, pointwise -/

/-- `declare` as a state function. -/
def declareSt (name : String) (v : Val) (st : St) : St :=
  match st.scopes with
  | sc :: rest => { st with scopes := ((name, v) :: sc) :: rest }
  | [] => { st with scopes := [[(name, v)]] }

theorem declare_run (name v st) : declare name v st = (.ok (), declareSt name v st) := rfl

theorem declareSt_scopes (name v st) : (declareSt name v st).scopes = declScopes name v st.scopes := by
  unfold declareSt declScopes
  cases st.scopes <;> rfl

theorem declareSt_frame (name v st) : declareSt name v st = { st with scopes := (declareSt name v st).scopes } := by
  unfold declareSt
  cases st.scopes <;> rfl

theorem evalStmt_let (cfg fuel sp name vty oty e st) :
    evalStmt cfg (fuel + 1) (.letS sp name vty false oty e) st =
      match evalExpr cfg fuel e st with
      | (.ok v, st1) => (.ok (), declareSt name v st1)
      | (.error c, st1) => (.error c, st1) := by
  rw [evalStmt, M_bind]
  rcases evalExpr cfg fuel e st with ⟨r1, st1⟩
  cases r1 <;> rfl

theorem evalStmt_exprS (cfg fuel sp e st) :
    evalStmt cfg (fuel + 1) (.exprS sp e) st =
      match evalExpr cfg fuel e st with
      | (.ok _, st1) => (.ok (), st1)
      | (.error c, st1) => (.error c, st1) := by
  rw [evalStmt, M_bind]
  rcases evalExpr cfg fuel e st with ⟨r1, st1⟩
  cases r1 <;> rfl

theorem writePlace_var (name : String) (g : Bool) (v : Val) (st : St) (sc : SScopes)
    (h : assignScopes name v st.scopes = some sc) :
    writePlace { var := some (name, g) } v st = (.ok (), { st with scopes := sc }) := by
  unfold writePlace
  simp only []
  rw [M_bind, M_get]
  simp only [h]
  rfl

theorem readPlace_var (name : String) (g : Bool) (v : Val) (st : St)
    (h : lookupScopes name st.scopes = some v) :
    readPlace { var := some (name, g) } st = (.ok v, st) := by
  unfold readPlace
  simp only []
  rw [M_bind, M_get]
  simp only [h]
  rfl

theorem evalExpr_assign_short (cfg asp op isp ity name g isFn isSing r st) :
    evalExpr cfg 1 (.assign asp op (.ident isp ity name g isFn isSing) r) st = (.error .timeout, st) := by
  rw [evalExpr, M_bind, evalPlace]
  rfl

/-- `x = r` -/
theorem evalExpr_assign_none (cfg fuel asp isp ity name isFn isSing r st) :
    evalExpr cfg (fuel + 2) (.assign asp none (.ident isp ity name false isFn isSing) r) st =
      match evalExpr cfg (fuel + 1) r st with
      | (.ok v, st1) =>
        (match writePlace { var := some (name, false) } v st1 with
         | (.ok _, st2) => (.ok .null, st2)
         | (.error c, st2) => (.error c, st2))
      | (.error c, st1) => (.error c, st1) := by
  rw [evalExpr, M_bind, evalPlace]
  simp only [M_pure]
  rw [M_bind]
  rcases evalExpr cfg (fuel + 1) r st with ⟨r1, st1⟩
  cases r1 with
  | error c => rfl
  | ok v =>
    simp only []
    rw [M_bind]
    rcases writePlace { var := some (name, false) } v st1 with ⟨r2, st2⟩
    cases r2 <;> rfl

/-- `x op= r` -/
theorem evalExpr_assign_some (cfg fuel asp o isp ity name isFn isSing r st) :
    evalExpr cfg (fuel + 2) (.assign asp (some o) (.ident isp ity name false isFn isSing) r) st =
      match readPlace { var := some (name, false) } st with
      | (.ok cur, st0) =>
        (match evalExpr cfg (fuel + 1) r st0 with
         | (.ok b, st1) =>
           (match binOp o cur b asp st1 with
            | (.ok v, st2) =>
              (match writePlace { var := some (name, false) } v st2 with
               | (.ok _, st3) => (.ok .null, st3)
               | (.error c, st3) => (.error c, st3))
            | (.error c, st2) => (.error c, st2))
         | (.error c, st1) => (.error c, st1))
      | (.error c, st0) => (.error c, st0) := by
  rw [evalExpr, M_bind, evalPlace]
  simp only [M_pure]
  rw [M_bind]
  rcases readPlace { var := some (name, false) } st with ⟨r0, st0⟩
  cases r0 with
  | error c => rfl
  | ok cur =>
    simp only []
    rw [M_bind]
    rcases evalExpr cfg (fuel + 1) r st0 with ⟨r1, st1⟩
    cases r1 with
    | error c => rfl
    | ok b =>
      simp only []
      rw [M_bind]
      rcases binOp o cur b asp st1 with ⟨r2, st2⟩
      cases r2 with
      | error c => rfl
      | ok v =>
        simp only []
        rw [M_bind]
        rcases writePlace { var := some (name, false) } v st2 with ⟨r3, st3⟩
        cases r3 <;> rfl

theorem evalStmts_cons (cfg fuel s ss st) :
    evalStmts cfg (fuel + 1) (s :: ss) st =
      match evalStmt cfg fuel s st with
      | (.ok _, st1) => evalStmts cfg fuel ss st1
      | (.error c, st1) => (.error c, st1) := by
  rw [evalStmts, M_bind]
  rcases evalStmt cfg fuel s st with ⟨r1, st1⟩
  cases r1 <;> rfl

theorem evalStmts_nil (cfg fuel st) : evalStmts cfg (fuel + 1) [] st = (.ok (), st) := by
  rw [evalStmts]; rfl

theorem evalBlock_stmts (cfg fuel sp ty stmts st) :
    evalBlock cfg (fuel + 1) (.mk sp ty stmts none) st =
      match evalStmts cfg fuel stmts st with
      | (.ok _, st1) => (.ok .null, st1)
      | (.error c, st1) => (.error c, st1) := by
  rw [evalBlock, M_bind]
  rcases evalStmts cfg fuel stmts st with ⟨r1, st1⟩
  cases r1 <;> rfl

theorem evalStmt_while (cfg fuel sp c body st) :
    evalStmt cfg (fuel + 1) (.whileS sp c body) st = loopRun cfg fuel (some c) body st := by
  rw [evalStmt]

theorem loopRun_step (cfg fuel c body st) :
    loopRun cfg (fuel + 1) (some c) body st =
      match evalExpr cfg fuel c st with
      | (.ok (.bool true), st1) =>
        (match inScope (evalBlock cfg fuel body) st1 with
         | (.error .brk, s') => (.ok (), s')
         | (.error .cont, s') => loopRun cfg fuel (some c) body s'
         | (.ok _, s') => loopRun cfg fuel (some c) body s'
         | (.error e, s') => (.error e, s'))
      | (.ok (.bool false), st1) => (.ok (), st1)
      | (.ok _, st1) => (.error (.unsupported "while condition"), st1)
      | (.error e, st1) => (.error e, st1) := by
  rw [loopRun, M_bind]
  rcases evalExpr cfg fuel c st with ⟨r1, st1⟩
  cases r1 with
  | error e => rfl
  | ok v =>
    cases v <;> try rfl
    rename_i b
    cases b <;> rfl

theorem evalExpr_ifE_none (cfg fuel sp ty c t st) :
    evalExpr cfg (fuel + 1) (.ifE sp ty c t none) st =
      match evalExpr cfg fuel c st with
      | (.ok (.bool true), st1) => inScope (evalBlock cfg fuel t) st1
      | (.ok (.bool false), st1) => (.ok .null, st1)
      | (.ok _, st1) => (.error (.unsupported "if condition"), st1)
      | (.error c, st1) => (.error c, st1) := by
  rw [evalExpr, M_bind]
  rcases evalExpr cfg fuel c st with ⟨r1, st1⟩
  cases r1 with
  | error c => rfl
  | ok v =>
    cases v <;> try rfl
    rename_i b; cases b <;> rfl

/-! ## Identifiers and variable names of a fragment -/

namespace Frag
mutual
/-- The identifiers a statement declares, reads or assigns. -/
def identsS : Stmt → List String
  | .letS _ name _ _ _ e => name :: varsE e
  | .exprS _ (.assign _ _ (.ident _ _ name _ _ _) r) => name :: varsE r
  | .exprS _ (.ifE _ _ c t (some eb)) => varsE c ++ (identsB t ++ identsB eb)
  | .exprS _ (.ifE _ _ c t none) => varsE c ++ identsB t
  | .whileS _ c body => varsE c ++ identsB body
  | _ => []
def identsSs : List Stmt → List String
  | [] => []
  | s :: ss => identsS s ++ identsSs ss
def identsB : Block → List String
  | .mk _ _ stmts _ => identsSs stmts
end
end Frag

/-- The mangled names occurring in `getVar`/`setVar` instructions of symbolic code. -/
def codeVars (frag : SCode) : List String := frag.filterMap fun p => var? p.1

@[simp] theorem codeVars_append (a b : SCode) : codeVars (a ++ b) = codeVars a ++ codeVars b := by
  simp [codeVars]

/-! ## Scopes are block structured: a statement only changes the innermost level -/

theorem cS_scopes_tail (mod : String) : ∀ (n : Nat),
    (∀ (st : Stmt) (env : CEnv), Frag.depthS st ≤ n → (cS mod st env).2.scopes.tail = env.scopes.tail) ∧
    (∀ (ss : List Stmt) (env : CEnv), Frag.depthSs ss ≤ n → (cSs mod ss env).2.scopes.tail = env.scopes.tail) ∧
    (∀ (b : Block) (env : CEnv), Frag.depthBS b ≤ n → (cB mod b env).2.scopes = env.scopes) := by
  intro n
  induction n with
  | zero =>
    refine ⟨?_, ?_, ?_⟩
    · intro st env hd; have := depthS_pos st; omega
    · intro ss env hd; cases ss <;> simp [Frag.depthSs] at hd
    · intro b env hd; obtain ⟨_, _, _, _⟩ := b; simp [Frag.depthBS] at hd
  | succ n ih =>
    obtain ⟨ihS, ihSs, ihB⟩ := ih
    refine ⟨?_, ?_, ?_⟩
    · intro st env hd
      cases st
      case typedef | trigger | ret | brk | cont | loopS | forS => rfl
      case letS sp name vty nc oty e =>
        cases nc
        · simp only [cS, freshVar]
          cases env.scopes <;> rfl
        · rfl
      case exprS sp e =>
        cases e
        case assign asp op l r =>
          cases op <;> cases l <;> try rfl
          all_goals (rename_i g _ sg; cases g <;> cases sg <;> rfl)
        case ifE isp ty c t el =>
          cases el with
          | some eb =>
            simp only [Frag.depthS] at hd
            simp only [cS]
            rw [ihB eb _ (by omega), ihB t _ (by omega)]
          | none =>
            simp only [Frag.depthS] at hd
            simp only [cS]
            rw [ihB t _ (by omega)]
        all_goals rfl
      case whileS sp c body =>
        simp only [Frag.depthS] at hd
        simp only [cS]
        rw [ihB body _ (by omega)]
    · intro ss env hd
      cases ss with
      | nil => rfl
      | cons st ss =>
        simp only [Frag.depthSs] at hd
        rw [cSs]
        simp only []
        rw [ihSs ss _ (by omega), ihS st env (by omega)]
    · intro b env hd
      obtain ⟨bsp, bty, stmts, oe⟩ := b
      simp only [Frag.depthBS] at hd
      cases oe with
      | some _ => rfl
      | none =>
        simp only [cB]
        rw [ihSs stmts _ (by omega)]
        rfl

theorem cB_scopes (mod : String) (b : Block) (env : CEnv) : (cB mod b env).2.scopes = env.scopes :=
  (cS_scopes_tail mod (Frag.depthBS b)).2.2 b env (Nat.le_refl _)

/-- Variable counters only grow. -/
theorem cS_vm_mono (mod : String) : ∀ (n : Nat),
    (∀ (st : Stmt) (env : CEnv), Frag.depthS st ≤ n → ∀ k, cnt env.vm k ≤ cnt (cS mod st env).2.vm k) ∧
    (∀ (ss : List Stmt) (env : CEnv), Frag.depthSs ss ≤ n → ∀ k, cnt env.vm k ≤ cnt (cSs mod ss env).2.vm k) ∧
    (∀ (b : Block) (env : CEnv), Frag.depthBS b ≤ n → ∀ k, cnt env.vm k ≤ cnt (cB mod b env).2.vm k) := by
  intro n
  induction n with
  | zero =>
    refine ⟨?_, ?_, ?_⟩
    · intro st env hd; have := depthS_pos st; omega
    · intro ss env hd; cases ss <;> simp [Frag.depthSs] at hd
    · intro b env hd; obtain ⟨_, _, _, _⟩ := b; simp [Frag.depthBS] at hd
  | succ n ih =>
    obtain ⟨ihS, ihSs, ihB⟩ := ih
    refine ⟨?_, ?_, ?_⟩
    · intro st env hd k
      cases st
      case typedef | trigger | ret | brk | cont | loopS | forS => exact Nat.le_refl _
      case letS sp name vty nc oty e =>
        cases nc
        · simp only [cS]
          have := cnt_freshVar mod { env with lm := (cpE mod (ρS env.scopes) e env.lm).2 } name k
          simp only at this
          rw [this]
          split <;> (try subst_vars) <;> omega
        · exact Nat.le_refl _
      case exprS sp e =>
        cases e
        case assign asp op l r =>
          cases op <;> cases l <;> try exact Nat.le_refl _
          all_goals (rename_i g _ sg; cases g <;> cases sg <;> exact Nat.le_refl _)
        case ifE isp ty c t el =>
          cases el with
          | some eb =>
            simp only [Frag.depthS] at hd
            simp only [cS]
            have h1 := ihB t { env with lm := (freshLabel mod (freshLabel mod
              (cpE mod (ρS env.scopes) c env.lm).2 "if_after").2 "else").2 } (by omega) k
            have h2 := ihB eb (cB mod t { env with lm := (freshLabel mod (freshLabel mod
              (cpE mod (ρS env.scopes) c env.lm).2 "if_after").2 "else").2 }).2 (by omega) k
            exact Nat.le_trans h1 h2
          | none =>
            simp only [Frag.depthS] at hd
            simp only [cS]
            have h1 := ihB t { env with lm := (freshLabel mod (freshLabel mod
              (cpE mod (ρS env.scopes) c env.lm).2 "if_after").2 "else").2 } (by omega) k
            exact h1
        all_goals exact Nat.le_refl _
      case whileS sp c body =>
        simp only [Frag.depthS] at hd
        simp only [cS]
        have h := ihB body { env with lm := (cpE mod (ρS env.scopes) c
          (freshLabel mod (freshLabel mod env.lm "loop_head").2 "loop_end").2).2 } (by omega) k
        exact h
    · intro ss env hd k
      cases ss with
      | nil => exact Nat.le_refl _
      | cons st ss =>
        simp only [Frag.depthSs] at hd
        rw [cSs]
        exact Nat.le_trans (ihS st env (by omega) k) (ihSs ss _ (by omega) k)
    · intro b env hd k
      obtain ⟨bsp, bty, stmts, oe⟩ := b
      simp only [Frag.depthBS] at hd
      cases oe with
      | some _ => exact Nat.le_refl _
      | none =>
        simp only [cB]
        have h := ihSs stmts { env with scopes := [] :: env.scopes } (by omega) k
        exact h

end HmsProofs.Sim
