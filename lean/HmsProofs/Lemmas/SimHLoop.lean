import HmsProofs.Lemmas.SimHStmt2
/-!
# `while` and `loop` with `break` / `continue`
-/
namespace HmsProofs.Sim
open Hms.Core Hms.Core.Comp Hms.Core.VM

theorem pgl_zero (G : GCtx) : PGL G 0 := by
  intro A hA loops lscopes d sp cnd body env spec ip stk mem _ _ _ _ _ _ _ _ _
  rw [loopRun]; trivial

/-- Rebuild the invariant at the loop level from the scope relation (everything else is static). -/
theorem GRel.of_scopes {G : GCtx} {A : Act} {scopes vm ss mem ss'} {mem' : Mem} (h : GRel G A scopes vm ss mem)
    (hs : ScopesRel A.T A.σ G.lim A.mp mem'.cells scopes ss' ∧ GhostOK A mem') : GRel G A scopes vm ss' mem' :=
  ⟨⟨hs.1, h.rel.nodup, h.rel.inN, h.rel.named⟩, h.key, hs.2, h.ghostC⟩

theorem pgl_step (G : GCtx) (n : Nat) (hPE : PE G n) (hPB : PGBS G n) (hPL : PGL G n) : PGL G (n + 1) := by
  intro A hA loops lscopes d sp cnd body env spec ip stk mem
  cases cnd with
  | some c =>
    intro stmt hs hT hws hN hpl hls hrel hsp
    have hs' := hs
    simp only [stmt, Frag.okFS, Bool.and_eq_true] at hs'
    obtain ⟨hcnd, hbody⟩ := hs'
    have hws' := hws
    simp only [stmt, Frag.wsGS, Bool.and_eq_true] at hws'
    obtain ⟨hwc, hwb⟩ := hws'
    have hT' := hT
    simp only [stmt, Frag.identsGS, List.mem_append] at hT'
    have hN' := hN
    have hpl' := hpl
    simp only [stmt, cgS, codeVars_append, List.mem_append] at hN' hpl' ⊢
    generalize hH : freshLabel G.mod env.lm "loop_head" = head at hN' hpl' hwb ⊢
    generalize hA' : freshLabel G.mod head.2 "loop_end" = after at hN' hpl' hwb ⊢
    generalize hC : cgE G.mod (ρS env.scopes) A.φ c after.2 = cc at hN' hpl' hwb ⊢
    generalize hB : cgBS G.mod A.src A.φ ((after.1, head.1) :: loops) body { env with lm := cc.2 } = cb at hN' hpl' ⊢
    obtain ⟨h4, hY⟩ := hpl'.append
    obtain ⟨h3, hplB⟩ := h4.append
    obtain ⟨h2, hX⟩ := h3.append
    obtain ⟨hL, hplC⟩ := h2.append
    obtain ⟨ehead, _⟩ := hL.label
    obtain ⟨ijif, _⟩ := hX.instr (i := .jumpIfFalse after.1) rfl
    obtain ⟨ijmp, hY'⟩ := hY.instr (i := .jump head.1) rfl
    obtain ⟨eafter, _⟩ := hY'.label
    have hnL : nI [((Instr.label head.1 : SInstr), sp)] = 0 := rfl
    have hnX : nI [((Instr.jumpIfFalse after.1 : SInstr), sp)] = 1 := rfl
    have hnY : nI [((Instr.jump head.1 : SInstr), sp), (.label after.1, sp)] = 1 := rfl
    simp only [nI_append, hnL, hnX, Nat.add_zero, Nat.zero_add] at hplC ijif hplB ijmp eafter
    simp only [nI_append, hnL, hnX, hnY, Nat.zero_add]
    have h1 := hPE A hA c spec ip stk mem after.2 env.scopes env.vm hcnd hwc (fun x hx => hT' x (Or.inl hx))
      (hC ▸ hplC) hrel.rel hsp
    rw [hC] at h1
    rw [loopRun_step]
    rcases hev : evalExpr G.cfg n c spec with ⟨r1, st1⟩
    rw [hev] at h1
    cases r1 with
    | error ce' => exact SimGS.of_exprError _ hrel hls h1
    | ok v =>
      obtain ⟨hfr, mem1, ov, hov, hrun, hml⟩ := h1
      have hsp1 := hsp.world st1 hfr hrun.inv
      have hfr' : st1 = { spec with scopes := st1.scopes, out := st1.out, heap := st1.heap } := by rw [hfr]
      have hrel1 : GRel G A env.scopes env.vm st1.scopes mem1 := by rw [hfr]; exact hrel.memLe hml
      cases v <;> try trivial
      rename_i bv
      have hjif := Runs.of_runsTo (fr := G.fr) (fun it_ => RunsTo.of_exec1 (fun k =>
        reach_jumpIfFalse G.code G.lim (baseOf (withIt G.s it_) A.fn A.rest A.mp st1.world) _ k stk mem1 ⟨A.fn, 0⟩ A.rest A.c rfl
          hA.code (A.lab after.1) sp bv ov ijif))
      cases bv with
      | false =>
        refine ⟨hfr', mem1, (hrun.trans hjif).cast ?_, hml.mono (by omega), hrel1⟩
        simp only [Bool.false_eq_true, if_false]
        omega
      | true =>
        simp only []
        have hpre : Runs G.fr G.code G.lim G.s A.fn A.rest A.mp ip stk mem spec.world (ip + (nI cc.1 + 1)) stk mem1 st1.world :=
          (hrun.trans hjif).cast (by simp only [if_true]; omega)
        have hml0 : MemLe G.fr (A.mp - (A.nv : Int)) mem mem1 := hml.mono (by omega)
        have hb := hPB A hA ((after.1, head.1) :: loops) env.scopes 0 body { env with lm := cc.2 } st1
          (ip + (nI cc.1 + 1)) stk mem1 hbody (fun x hx => hT' x (Or.inr hx)) hwb
          (fun m hm => hN' m (Or.inl (Or.inr (hB ▸ hm)))) (hB ▸ hplB) rfl hrel1 hsp1
        rw [hB] at hb
        rcases hbe : inScope (evalBlock G.cfg n body) st1 with ⟨r2, s'⟩
        rw [hbe] at hb
        have hjump : ∀ memx outx, Runs G.fr G.code G.lim G.s A.fn A.rest A.mp (ip + (nI cc.1 + 1) + nI cb.1) stk memx outx
            ip stk memx outx := fun memx outx =>
          (Runs.of_runsTo (fr := G.fr) (fun it_ => RunsTo.of_exec1 (fun k => reach_jump G.code G.lim (baseOf (withIt G.s it_) A.fn A.rest A.mp outx) _ k stk
            memx ⟨A.fn, 0⟩ A.rest A.c rfl hA.code (A.lab head.1) sp (by rw [Nat.add_assoc]; exact ijmp)))).cast ehead
        -- the next round, from the loop head
        have again : ∀ (s' : St) (mem2 : Mem),
            s' = { st1 with scopes := s'.scopes, out := s'.out, heap := s'.heap } →
            Runs G.fr G.code G.lim G.s A.fn A.rest A.mp (ip + (nI cc.1 + 1)) stk mem1 st1.world ip stk mem2 s'.world →
            MemLe G.fr (A.mp - (A.nv : Int)) mem1 mem2 →
            (ScopesRel A.T A.σ G.lim A.mp mem2.cells env.scopes s'.scopes ∧ GhostOK A mem2) →
            SimGS G A loops lscopes d ip (nI cc.1 + 1 + nI cb.1 + 1) stk mem (GRel G A env.scopes env.vm) spec
              (loopRun G.cfg n (some c) body s') := by
          intro s' mem2 hfr2 hround hml2 hsr
          have hsp2 := hsp1.scopes_out s' hfr2 hround.inv
          have hrel2 := hrel.of_scopes hsr
          have hloop := hPL A hA loops lscopes d sp (some c) body env s' ip stk mem2 hs hT hws hN hpl hls hrel2 hsp2
          simp only [cgS, hH, hA', hC, hB, nI_append, hnL, hnX, hnY, Nat.zero_add] at hloop
          rcases hl : loopRun G.cfg n (some c) body s' with ⟨r3, s''⟩
          rw [hl] at hloop
          have hfr02 : s' = { spec with scopes := s'.scopes, out := s'.out, heap := s'.heap } := by rw [hfr2, hfr]
          cases r3 with
          | error ce' => exact SimGS.error_after _ hfr02 (hpre.trans hround) (hml0.trans hml2) hloop
          | ok u3 =>
            obtain ⟨hfr3, mem3, hrun3, hml3, hrel3⟩ := hloop
            exact ⟨by rw [hfr3, hfr02], mem3, (hpre.trans hround).trans hrun3, (hml0.trans hml2).trans hml3, hrel3⟩
        cases r2 with
        | ok u =>
          obtain ⟨hfr2, mem2, hrunB, hml2, hrelB⟩ := hb
          simp only []
          have hscB : cb.2.scopes = env.scopes := by rw [← hB, cgBS_scopes]
          rw [hscB] at hrelB
          exact again s' mem2 hfr2 (hrunB.trans (hjump mem2 s'.world)) hml2 ⟨hrelB.rel.scopes, hrelB.ghost⟩
        | error ce' =>
          cases ce'
          case brk =>
            obtain ⟨hfr2, mem2, hrunB, hml2, hsr⟩ := hb
            simp only []
            refine ⟨by rw [hfr2, hfr], mem2, (hpre.trans hrunB).cast ?_, hml0.trans hml2, hrel.of_scopes (by simpa using hsr)⟩
            omega
          case cont =>
            obtain ⟨hfr2, mem2, hrunB, hml2, hsr⟩ := hb
            simp only []
            exact again s' mem2 hfr2 (hrunB.cast ehead) hml2 (by simpa using hsr)
          case ret v =>
            obtain ⟨hrt, hfr2, mem2, o2, ho2, hrunB, hml2⟩ := hb
            exact ⟨hrt, by rw [hfr2, hfr], mem2, o2, ho2, hpre.trans hrunB, hml0.trans hml2⟩
          case fatal kd m fsp => exact fun hk => hpre.fatal (hb hk)
          case unsupported => trivial
          case timeout => trivial
          case throw msg tsp =>
            obtain ⟨hfr2, mem2, hT2, hml2, hsr⟩ := hb
            simp only []
            refine ⟨by rw [hfr2, hfr], mem2, Runs.throw [] hpre hT2, hml0.trans hml2, ?_⟩
            rw [hls]
            exact ⟨ScopesRel.drop d (by simpa using hsr.1), hsr.2⟩
  | none =>
    intro stmt hs hT hws hN hpl hls hrel hsp
    have hbody := hs
    simp only [stmt, Frag.okFS] at hbody
    have hwb := hws
    simp only [stmt, Frag.wsGS] at hwb
    have hT' := hT
    simp only [stmt, Frag.identsGS] at hT'
    have hN' := hN
    have hpl' := hpl
    simp only [stmt, cgS, codeVars_append, List.mem_append] at hN' hpl' ⊢
    generalize hH : freshLabel G.mod env.lm "loop_head" = head at hN' hpl' hwb ⊢
    generalize hA' : freshLabel G.mod head.2 "loop_end" = after at hN' hpl' hwb ⊢
    generalize hB : cgBS G.mod A.src A.φ ((after.1, head.1) :: loops) body { env with lm := after.2 } = cb at hN' hpl' ⊢
    -- ([label head] ++ cb) ++ [jump head, label after]
    obtain ⟨h2, hY⟩ := hpl'.append
    obtain ⟨hL, hplB⟩ := h2.append
    obtain ⟨ehead, _⟩ := hL.label
    obtain ⟨ijmp, hY'⟩ := hY.instr (i := .jump head.1) rfl
    obtain ⟨eafter, _⟩ := hY'.label
    have hnL : nI [((Instr.label head.1 : SInstr), sp)] = 0 := rfl
    have hnY : nI [((Instr.jump head.1 : SInstr), sp), (.label after.1, sp)] = 1 := rfl
    simp only [nI_append, hnL, Nat.add_zero, Nat.zero_add] at hplB ijmp eafter
    simp only [nI_append, hnL, hnY, Nat.zero_add]
    rw [loopRun_none_step]
    have hb := hPB A hA ((after.1, head.1) :: loops) env.scopes 0 body { env with lm := after.2 } spec
      ip stk mem hbody hT' hwb (fun m hm => hN' m (Or.inl (Or.inr (hB ▸ hm)))) (hB ▸ hplB) rfl hrel hsp
    rw [hB] at hb
    rcases hbe : inScope (evalBlock G.cfg n body) spec with ⟨r2, s'⟩
    rw [hbe] at hb
    have hjump : ∀ memx outx, Runs G.fr G.code G.lim G.s A.fn A.rest A.mp (ip + nI cb.1) stk memx outx
        ip stk memx outx := fun memx outx =>
      (Runs.of_runsTo (fr := G.fr) (fun it_ => RunsTo.of_exec1 (fun k => reach_jump G.code G.lim (baseOf (withIt G.s it_) A.fn A.rest A.mp outx) _ k stk
        memx ⟨A.fn, 0⟩ A.rest A.c rfl hA.code (A.lab head.1) sp ijmp))).cast ehead
    have again : ∀ (s' : St) (mem2 : Mem),
        s' = { spec with scopes := s'.scopes, out := s'.out, heap := s'.heap } →
        Runs G.fr G.code G.lim G.s A.fn A.rest A.mp ip stk mem spec.world ip stk mem2 s'.world →
        MemLe G.fr (A.mp - (A.nv : Int)) mem mem2 →
        (ScopesRel A.T A.σ G.lim A.mp mem2.cells env.scopes s'.scopes ∧ GhostOK A mem2) →
        SimGS G A loops lscopes d ip (nI cb.1 + 1) stk mem (GRel G A env.scopes env.vm) spec
          (loopRun G.cfg n none body s') := by
      intro s' mem2 hfr2 hround hml2 hsr
      have hsp2 := hsp.scopes_out s' hfr2 hround.inv
      have hrel2 := hrel.of_scopes hsr
      have hloop := hPL A hA loops lscopes d sp none body env s' ip stk mem2 hs hT hws hN hpl hls hrel2 hsp2
      simp only [cgS, hH, hA', hB, nI_append, hnL, hnY, Nat.zero_add] at hloop
      rcases hl : loopRun G.cfg n none body s' with ⟨r3, s''⟩
      rw [hl] at hloop
      cases r3 with
      | error ce' => exact SimGS.error_after _ hfr2 hround hml2 hloop
      | ok u3 =>
        obtain ⟨hfr3, mem3, hrun3, hml3, hrel3⟩ := hloop
        exact ⟨by rw [hfr3, hfr2], mem3, hround.trans hrun3, hml2.trans hml3, hrel3⟩
    cases r2 with
    | ok u =>
      obtain ⟨hfr2, mem2, hrunB, hml2, hrelB⟩ := hb
      simp only []
      have hscB : cb.2.scopes = env.scopes := by rw [← hB, cgBS_scopes]
      rw [hscB] at hrelB
      exact again s' mem2 hfr2 (hrunB.trans (hjump mem2 s'.world)) hml2 ⟨hrelB.rel.scopes, hrelB.ghost⟩
    | error ce' =>
      cases ce'
      case brk =>
        obtain ⟨hfr2, mem2, hrunB, hml2, hsr⟩ := hb
        simp only []
        refine ⟨hfr2, mem2, hrunB.cast ?_, hml2, hrel.of_scopes (by simpa using hsr)⟩
        omega
      case cont =>
        obtain ⟨hfr2, mem2, hrunB, hml2, hsr⟩ := hb
        simp only []
        exact again s' mem2 hfr2 (hrunB.cast ehead) hml2 (by simpa using hsr)
      case ret v =>
        obtain ⟨hrt, hfr2, mem2, o2, ho2, hrunB, hml2⟩ := hb
        exact ⟨hrt, hfr2, mem2, o2, ho2, hrunB, hml2⟩
      case fatal kd m fsp => exact hb
      case unsupported => trivial
      case timeout => trivial
      case throw msg tsp =>
        obtain ⟨hfr2, mem2, hT2, hml2, hsr⟩ := hb
        simp only []
        refine ⟨hfr2, mem2, hT2, hml2, ?_⟩
        rw [hls]
        exact ⟨ScopesRel.drop d (by simpa using hsr.1), hsr.2⟩

end HmsProofs.Sim
