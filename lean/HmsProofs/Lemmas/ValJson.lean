import Hms.Value.Json
import Hms.Value.Display
import HmsProofs.Lemmas.ValEq
import HmsProofs.Lemmas.ValCast
/-! Lemmas for C13: the two renderers agree; the typed JSON round trip. -/
namespace HmsProofs.Lemmas.ValJson
open Hms.Value HmsProofs.Lemmas.ValEq

/-! ### `Display` of the two libraries -/

mutual
theorem display_agree : ∀ (v : Val), displayVM v = displayTree v
  | .null | .int _ | .flt _ | .bool _ | .str _ | .none | .range .. | .fn => by simp [displayVM, displayTree]
  | .some v => by simp [displayVM, displayTree, display_agree v]
  | .list xs => by simp [displayVM, displayTree, display_agree_list xs]
  | .obj fs => by simp [displayVM, displayTree, display_agree_fields fs]
  | .anyobj fs => by simp [displayVM, displayTree, display_agree_fields fs]
theorem display_agree_list : ∀ (xs : Vals), displayVMList xs = displayTreeList xs
  | .nil => by simp [displayVMList, displayTreeList]
  | .cons v vs => by simp [displayVMList, displayTreeList, display_agree v, display_agree_list vs]
theorem display_agree_fields : ∀ (fs : Fields), displayVMFields fs = displayTreeFields fs
  | .nil => by simp [displayVMFields, displayTreeFields]
  | .cons k v fs => by simp [displayVMFields, displayTreeFields, display_agree v, display_agree_fields fs]
end

/-! ### Numbers -/

theorem roundTo53_small (n : Nat) (h : n < 2 ^ 53) : roundTo53 n = n := by
  unfold roundTo53
  have : Nat.log2 n + 1 ≤ 53 := by
    by_cases h0 : n = 0
    · subst h0; decide
    · have := (Nat.log2_lt h0).mpr h; omega
  simp [this]

theorem intToFlt_small (i : BitVec 64) (h : intFitsFloat i = true) : intToFlt i = Dy.ofInt i.toInt := by
  simp only [intFitsFloat, decide_eq_true_eq] at h
  unfold intToFlt
  simp only [roundTo53_small _ h]
  congr 1
  split <;> omega

theorem fltToInt_ofInt (i : BitVec 64) : fltToInt (Dy.ofInt i.toInt) = i := by
  simp [fltToInt, Dy.ofInt, Dy.trunc]

theorem all_get {p : Val → Bool} : ∀ (xs : Vals), xs.all p = true → ∀ i x, xs.get? i = .some x → p x = true
  | .nil, _, i, x, h => by simp [Vals.get?] at h
  | .cons y ys, ha, i, x, h => by
    simp only [Vals.all, Bool.and_eq_true] at ha
    cases i with
    | zero => simp [Vals.get?] at h; subst h; exact ha.1
    | succ i => exact all_get ys ha.2 i x (by simpa [Vals.get?] using h)

theorem vals_wf_get : ∀ (xs : Vals), xs.wf = true → ∀ i x, xs.get? i = .some x → x.wf = true
  | .nil, _, i, x, h => by simp [Vals.get?] at h
  | .cons y ys, hw, i, x, h => by
    simp only [Vals.wf, Bool.and_eq_true] at hw
    cases i with
    | zero => simp [Vals.get?] at h; subst h; exact hw.1
    | succ i => exact vals_wf_get ys hw.2 i x (by simpa [Vals.get?] using h)

/-! ### The typed round trip -/

theorem isNull_eq {j : J} (h : j.isNull = true) : j = .null := by
  cases j <;> simp [J.isNull] at h; rfl

theorem marshal_not_null (fi : Dy → Bool) (t : Ty) (x : Val) (j : J) (hr : jsonRepr t x = true)
    (hn : t.nullish = false) (hm : marshalWith fi x = .some j) : j.isNull = false := by
  cases t <;> simp [Ty.nullish] at hn <;> cases x <;> simp [jsonRepr] at hr <;>
    simp [marshalWith] at hm <;> (try subst hm) <;> (try simp [J.isNull])
  · obtain ⟨a, _, rfl⟩ := hm; simp [J.isNull]
  · obtain ⟨a, _, rfl⟩ := hm; simp [J.isNull]

/-- what a declared field finds in the marshalled object -/
theorem marshalFields_lookup (fi : Dy → Bool) : ∀ (fs : Fields) (jfs : JFields),
    marshalFields fi fs = .some jfs → ∀ k x, fs.lookup k = .some x →
    ∃ j, marshalWith fi x = .some j ∧ jfs.lookup k = .some j
  | .nil, _, _, k, x, hl => by simp [Fields.lookup] at hl
  | .cons k' v fs, jfs, h, k, x, hl => by
    simp only [marshalFields] at h
    split at h
    · rename_i j js hj hjs
      cases h
      simp only [Fields.lookup] at hl
      by_cases e : k' = k
      · subst e
        simp at hl; subst hl
        exact ⟨j, hj, by simp [JFields.lookup]⟩
      · simp [e] at hl
        obtain ⟨j', h1, h2⟩ := marshalFields_lookup fi fs js hjs k x hl
        exact ⟨j', h1, by simp [JFields.lookup, e, h2]⟩
    · cases h

theorem marshalFields_some (fi : Dy → Bool) : ∀ (fs : Fields),
    (∀ k x, (k, x) ∈ fs.toList → ∃ j, marshalWith fi x = .some j) → ∃ jfs, marshalFields fi fs = .some jfs
  | .nil, _ => ⟨.nil, by simp [marshalFields]⟩
  | .cons k v fs, h => by
    obtain ⟨j, hj⟩ := h k v (by simp [Fields.toList])
    obtain ⟨js, hjs⟩ := marshalFields_some fi fs (fun k' x hm => h k' x (by simp [Fields.toList, hm]))
    simp [marshalFields, hj, hjs]

/-- per-element statement of the round trip -/
def RT (fi : Dy → Bool) (t : Ty) (x : Val) : Prop :=
  ∃ j v', marshalWith fi x = .some j ∧ unmarshalTyped t j = .some v' ∧ v'.isEqual x = true

theorem rt_list (fi : Dy → Bool) (t : Ty) : ∀ (xs : Vals), (∀ i x, xs.get? i = .some x → RT fi t x) →
    ∃ js vs', marshalList fi xs = .some js ∧ unmarshalTypedList (fun j => unmarshalTyped t j) js = .some vs'
      ∧ Vals.isEqual vs' xs = true ∧ vs'.length = xs.length
  | .nil, _ => ⟨.nil, .nil, by simp [marshalList, unmarshalTypedList, Vals.isEqual, Vals.length]⟩
  | .cons x xs, h => by
    obtain ⟨j, v', h1, h2, h3⟩ := h 0 x (by simp [Vals.get?])
    obtain ⟨js, vs', g1, g2, g3, g4⟩ := rt_list fi t xs (fun i y hy => h (i + 1) y (by simpa [Vals.get?] using hy))
    exact ⟨.cons j js, .cons v' vs', by simp [marshalList, h1, g1], by simp [unmarshalTypedList, h2, g2],
      by simp [Vals.isEqual, h3, g3], by simp [Vals.length, g4]⟩

theorem rt_assemble (fs : Fields) (jfs : JFields) : ∀ (tfs : TyFields),
    (∀ k t, (k, t) ∈ tfs.toList → ∃ x v', fs.lookup k = .some x ∧
        unmarshalTyped t ((jfs.lookup k).getD .null) = .some v' ∧ v'.isEqual x = true) →
    ∃ out, unmarshalTypedFields tfs jfs = .some out ∧ out.keys = tfs.keys ∧
      ∀ k x', (k, x') ∈ out.toList → ∃ x, fs.lookup k = .some x ∧ x'.isEqual x = true
  | .nil, _ => ⟨.nil, by simp [unmarshalTypedFields, Fields.keys, TyFields.keys, Fields.toList]⟩
  | .cons k t rest, h => by
    obtain ⟨x, v', h1, h2, h3⟩ := h k t (by simp [TyFields.toList])
    obtain ⟨out, g1, g2, g3⟩ := rt_assemble fs jfs rest (fun k' t' hm => h k' t' (by simp [TyFields.toList, hm]))
    refine ⟨.cons k v' out, by simp [unmarshalTypedFields, h2, g1], by simp [Fields.keys, TyFields.keys, g2], ?_⟩
    intro k2 y hy
    simp only [Fields.toList, List.mem_cons, Prod.mk.injEq] at hy
    rcases hy with ⟨rfl, rfl⟩ | hy
    · exact ⟨x, h1, h3⟩
    · exact g3 k2 y hy

theorem jsonReprFields_keys : ∀ (tfs : TyFields) (fs : Fields), jsonReprFields tfs fs = true →
    ∀ k ∈ tfs.keys, k ∈ fs.keys
  | .nil, _, _, k, hk => by simp [TyFields.keys] at hk
  | .cons k' t rest, fs, h, k, hk => by
    simp only [jsonReprFields, Bool.and_eq_true] at h
    simp only [TyFields.keys, List.mem_cons] at hk
    rcases hk with rfl | hk
    · cases hl : fs.lookup k with
      | none => simp [hl] at h
      | some x => exact mem_keys_of_mem fs k x (lookup_mem fs k x hl)
    · exact jsonReprFields_keys rest fs h.2 k hk

theorem ty_mem_of_mem_keys : ∀ (tfs : TyFields) (k : String), k ∈ tfs.keys → ∃ t, (k, t) ∈ tfs.toList
  | .nil, k, h => by simp [TyFields.keys] at h
  | .cons k' t tfs, k, h => by
    simp only [TyFields.keys, List.mem_cons] at h
    rcases h with rfl | h
    · exact ⟨t, by simp [TyFields.toList]⟩
    · obtain ⟨t', ht⟩ := ty_mem_of_mem_keys tfs k h
      exact ⟨t', by simp [TyFields.toList, ht]⟩

mutual
theorem rt_typed (fi : Dy → Bool) : ∀ (T : Ty), T.wf = true → ∀ (v : Val), v.wf = true →
    jsonRepr T v = true → RT fi T v
  | .int, _, v, _, hr => by
    cases v with
    | int i =>
      simp [jsonRepr] at hr
      exact ⟨.int i, .int i, by simp [marshalWith],
        by simp [unmarshalTyped, intToFlt_small i hr, fltToInt_ofInt], by simp [Val.isEqual]⟩
    | _ => simp [jsonRepr] at hr
  | .float, _, v, _, hr => by
    cases v with
    | flt d => exact ⟨.num d (fi d), .flt d, by simp [marshalWith], by simp [unmarshalTyped], by simp [Val.isEqual]⟩
    | _ => simp [jsonRepr] at hr
  | .bool, _, v, _, hr => by
    cases v with
    | bool b => exact ⟨.bool b, .bool b, by simp [marshalWith], by simp [unmarshalTyped], by simp [Val.isEqual]⟩
    | _ => simp [jsonRepr] at hr
  | .str, _, v, _, hr => by
    cases v with
    | str z => exact ⟨.str z, .str z, by simp [marshalWith], by simp [unmarshalTyped], by simp [Val.isEqual]⟩
    | _ => simp [jsonRepr] at hr
  | .any, _, v, _, hr | .null, _, v, _, hr | .range, _, v, _, hr | .anyobj, _, v, _, hr | .fn, _, v, _, hr => by
    simp [jsonRepr] at hr
  | .opt t, hT, v, hw, hr => by
    simp only [Ty.wf] at hT
    simp only [jsonRepr, Bool.and_eq_true, Bool.not_eq_true'] at hr
    cases v <;> simp at hr
    · exact ⟨.null, .none, by simp [marshalWith], by simp [unmarshalTyped, J.isNull], by simp [Val.isEqual]⟩
    · rename_i x
      simp only [Val.wf] at hw
      obtain ⟨j, v', h1, h2, h3⟩ := rt_typed fi t hT x hw hr.2
      have hnn := marshal_not_null fi t x j hr.2 hr.1 h1
      exact ⟨j, .some v', by simp [marshalWith, h1], by simp [unmarshalTyped, hnn, h2], by simp [Val.isEqual, h3]⟩
  | .list t, hT, v, hw, hr => by
    simp only [Ty.wf] at hT
    cases v <;> simp [jsonRepr] at hr
    rename_i xs
    simp only [Val.wf] at hw
    obtain ⟨js, vs', g1, g2, g3, g4⟩ := rt_list fi t xs (fun i x hx =>
      rt_typed fi t hT x (HmsProofs.Lemmas.ValJson.vals_wf_get xs hw i x hx) (HmsProofs.Lemmas.ValJson.all_get xs hr i x hx))
    exact ⟨.arr js, .list vs', by simp [marshalWith, g1], by simp [unmarshalTyped, g2], by simp [Val.isEqual, g3, g4]⟩
  | .obj tfs, hT, v, hw, hr => by
    simp only [Ty.wf, Bool.and_eq_true] at hT
    cases v <;> simp [jsonRepr] at hr
    rename_i fs
    simp only [Val.wf, Bool.and_eq_true] at hw
    have hdecl := rt_declared fi tfs hT.2 fs hw.2 hr.1
    have hsub1 : ∀ k ∈ fs.keys, k ∈ tfs.keys := by
      intro k hk; simpa [TyFields.hasKey] using hr.2 k hk
    have hsub2 := jsonReprFields_keys tfs fs hr.1
    -- every field of the value marshals
    obtain ⟨jfs, hjfs⟩ := marshalFields_some fi fs (by
      intro k x hm
      obtain ⟨t, ht⟩ := ty_mem_of_mem_keys tfs k (hsub1 k (mem_keys_of_mem fs k x hm))
      obtain ⟨x0, j, v', h1, h2, _, _⟩ := hdecl k t ht
      have := lookup_of_mem_nodup fs k x hw.1 hm
      rw [this] at h1; cases h1
      exact ⟨j, h2⟩)
    obtain ⟨out, g1, g2, g3⟩ := rt_assemble fs jfs tfs (by
      intro k t ht
      obtain ⟨x, j, v', h1, h2, h3, h4⟩ := hdecl k t ht
      obtain ⟨j', e1, e2⟩ := marshalFields_lookup fi fs jfs hjfs k x h1
      rw [h2] at e1; cases e1
      exact ⟨x, v', h1, by simp [e2, h3], h4⟩)
    have hlen : out.length = fs.length := by
      rw [← keys_length, ← keys_length, g2]
      exact Nat.le_antisymm (length_le_of_nodup_subset _ _ hT.1 hsub2) (length_le_of_nodup_subset _ _ hw.1 hsub1)
    exact ⟨.obj jfs, .obj out, by simp [marshalWith, hjfs], by simp [unmarshalTyped, g1],
      by simp only [Val.isEqual, Bool.and_eq_true]; exact ⟨by simp [hlen], (isEqualIn_iff _ _).mpr g3⟩⟩
theorem rt_declared (fi : Dy → Bool) : ∀ (tfs : TyFields), tfs.wf = true → ∀ (fs : Fields), fs.wf = true →
    jsonReprFields tfs fs = true → ∀ k t, (k, t) ∈ tfs.toList →
    ∃ x j v', fs.lookup k = .some x ∧ marshalWith fi x = .some j ∧ unmarshalTyped t j = .some v' ∧ v'.isEqual x = true
  | .nil, _, fs, _, _, k, t, hm => by simp [TyFields.toList] at hm
  | .cons k' t' rest, hT, fs, hw, hr, k, t, hm => by
    simp only [TyFields.wf, Bool.and_eq_true] at hT
    simp only [jsonReprFields, Bool.and_eq_true] at hr
    simp only [TyFields.toList, List.mem_cons, Prod.mk.injEq] at hm
    rcases hm with ⟨rfl, rfl⟩ | hm
    · cases hl : fs.lookup k with
      | none => simp [hl] at hr
      | some x =>
        simp only [hl] at hr
        obtain ⟨j, v', h1, h2, h3⟩ := rt_typed fi t hT.1 x (mem_wf fs hw k x (lookup_mem fs k x hl)) hr.1
        exact ⟨x, j, v', rfl, h1, h2, h3⟩
    · exact rt_declared fi rest hT.2 fs hw hr.2 k t hm
end

/-! ### The route a program takes: `to_json`, `parse_json`, annotated `let` -/

open HmsProofs.Lemmas.ValCast in
/-- per-element statement: marshal, parse untyped, cast without scalar conversions -/
def RTP (fi : Dy → Bool) (t : Ty) (x : Val) : Prop :=
  ∀ p : Path, ∃ j v', marshalWith fi x = .some j ∧ castAll false t (unmarshalUntyped j) p = .ok v' ∧ v'.isEqual x = true

theorem isIntegral_ofInt (z : Int) : (Dy.ofInt z).isIntegral = true := by
  by_cases hz : z = 0 <;> simp [Dy.isIntegral, Dy.ofInt, Dy.norm, hz, Dy.normAux]

theorem untyped_plain (j : J) (h : j.isNull = false) : HmsProofs.Lemmas.ValCast.isPlain (unmarshalUntyped j) = true := by
  cases j <;> simp [J.isNull] at h <;> simp [unmarshalUntyped, HmsProofs.Lemmas.ValCast.isPlain]

theorem castAll_opt_plain {t : Ty} {u : Val} {p : Path} (h : HmsProofs.Lemmas.ValCast.isPlain u = true) :
    castAll false (.opt t) u p = (castAll false t u p).map .some := by
  cases u <;> simp [HmsProofs.Lemmas.ValCast.isPlain] at h <;> simp [castAll]

theorem untypedFields_lookup : ∀ (jfs : JFields) (k : String),
    (unmarshalUntypedFields jfs).lookup k = (jfs.lookup k).map unmarshalUntyped
  | .nil, k => by simp [unmarshalUntypedFields, Fields.lookup, JFields.lookup]
  | .cons k' j jfs, k => by
    simp only [unmarshalUntypedFields, Fields.lookup, JFields.lookup]
    split
    · simp
    · exact untypedFields_lookup jfs k

theorem untypedFields_keys : ∀ (fi : Dy → Bool) (fs : Fields) (jfs : JFields), marshalFields fi fs = .some jfs →
    (unmarshalUntypedFields jfs).keys = fs.keys
  | fi, .nil, jfs, h => by simp [marshalFields] at h; subst h; simp [unmarshalUntypedFields, Fields.keys]
  | fi, .cons k v fs, jfs, h => by
    simp only [marshalFields] at h
    split at h
    · rename_i j js hj hjs
      cases h
      simp [unmarshalUntypedFields, Fields.keys, untypedFields_keys fi fs js hjs]
    · cases h

theorem noIntFloat_get : ∀ (xs : Vals), noIntegralFloatList xs = true → ∀ i x, xs.get? i = .some x → noIntegralFloat x = true
  | .nil, _, i, x, h => by simp [Vals.get?] at h
  | .cons y ys, hw, i, x, h => by
    simp only [noIntegralFloatList, Bool.and_eq_true] at hw
    cases i with
    | zero => simp [Vals.get?] at h; subst h; exact hw.1
    | succ i => exact noIntFloat_get ys hw.2 i x (by simpa [Vals.get?] using h)

theorem noIntFloat_mem : ∀ (fs : Fields), noIntegralFloatFields fs = true → ∀ k a, (k, a) ∈ fs.toList → noIntegralFloat a = true
  | .nil, _, k, a, hm => by simp [Fields.toList] at hm
  | .cons k' a' as, hw, k, a, hm => by
    simp only [noIntegralFloatFields, Bool.and_eq_true] at hw
    simp only [Fields.toList, List.mem_cons, Prod.mk.injEq] at hm
    rcases hm with ⟨rfl, rfl⟩ | hm
    · exact hw.1
    · exact noIntFloat_mem as hw.2 k a hm

theorem rtp_list (fi : Dy → Bool) (t : Ty) (p : Path) : ∀ (xs : Vals), (∀ i x, xs.get? i = .some x → RTP fi t x) → ∀ n : Nat,
    ∃ js vs', marshalList fi xs = .some js ∧
      castVals (fun i x => castAll false t x (p ++ [.index i])) n (unmarshalUntypedList js) = .ok vs'
      ∧ Vals.isEqual vs' xs = true ∧ vs'.length = xs.length
  | .nil, _, n => ⟨.nil, .nil, by simp [marshalList, unmarshalUntypedList, castVals, Vals.isEqual, Vals.length]⟩
  | .cons x xs, h, n => by
    obtain ⟨j, v', h1, h2, h3⟩ := h 0 x (by simp [Vals.get?]) (p ++ [.index n])
    obtain ⟨js, vs', g1, g2, g3, g4⟩ := rtp_list fi t p xs (fun i y hy => h (i + 1) y (by simpa [Vals.get?] using hy)) (n + 1)
    exact ⟨.cons j js, .cons v' vs', by simp [marshalList, h1, g1], by simp [unmarshalUntypedList, castVals, h2, g2],
      by simp [Vals.isEqual, h3, g3], by simp [Vals.length, g4]⟩

open HmsProofs.Lemmas.ValCast in
theorem rtp_assemble (fs ufs : Fields) (p : Path) : ∀ (tfs : TyFields),
    (∀ k t, (k, t) ∈ tfs.toList → ∃ x u v', fs.lookup k = .some x ∧ ufs.lookup k = .some u ∧
        castAll false t u (p ++ [.field k]) = .ok v' ∧ v'.isEqual x = true) →
    (castFields false tfs ufs p).errs = [] ∧ (castFields false tfs ufs p).missing = .none ∧
      (castFields false tfs ufs p).out.keys = tfs.keys ∧
      ∀ k x', (k, x') ∈ (castFields false tfs ufs p).out.toList → ∃ x, fs.lookup k = .some x ∧ x'.isEqual x = true
  | .nil, _ => by simp [castFields, Fields.keys, TyFields.keys, Fields.toList]
  | .cons k t rest, h => by
    obtain ⟨x, u, v', h1, h2, h3, h4⟩ := h k t (by simp [TyFields.toList])
    obtain ⟨g1, g2, g3, g4⟩ := rtp_assemble fs ufs p rest (fun k' t' hm => h k' t' (by simp [TyFields.toList, hm]))
    rw [castFields_cons_ok h2 h3]
    refine ⟨g1, g2, by simp [Fields.keys, TyFields.keys, g3], ?_⟩
    intro k2 y hy
    simp only [Fields.toList, List.mem_cons, Prod.mk.injEq] at hy
    rcases hy with ⟨rfl, rfl⟩ | hy
    · exact ⟨x, h1, h4⟩
    · exact g4 k2 y hy

theorem marshal_not_null_prog (fi : Dy → Bool) (t : Ty) (x : Val) (j : J) (hr : jsonReprProg t x = true)
    (hn : t.nullish = false) (hm : marshalWith fi x = .some j) : j.isNull = false := by
  cases t <;> simp [Ty.nullish] at hn <;> cases x <;> simp [jsonReprProg] at hr <;>
    simp [marshalWith] at hm <;> (try subst hm) <;> (try simp [J.isNull])
  · obtain ⟨a, _, rfl⟩ := hm; simp [J.isNull]
  · obtain ⟨a, _, rfl⟩ := hm; simp [J.isNull]

theorem jsonReprProgFields_keys : ∀ (tfs : TyFields) (fs : Fields), jsonReprProgFields tfs fs = true →
    ∀ k ∈ tfs.keys, k ∈ fs.keys
  | .nil, _, _, k, hk => by simp [TyFields.keys] at hk
  | .cons k' t rest, fs, h, k, hk => by
    simp only [jsonReprProgFields, Bool.and_eq_true] at h
    simp only [TyFields.keys, List.mem_cons] at hk
    rcases hk with rfl | hk
    · cases hl : fs.lookup k with
      | none => simp [hl] at h
      | some x => exact mem_keys_of_mem fs k x (lookup_mem fs k x hl)
    · exact jsonReprProgFields_keys rest fs h.2 k hk

mutual
theorem rt_prog (fi : Dy → Bool) : ∀ (T : Ty), T.wf = true → ∀ (v : Val), v.wf = true →
    jsonReprProg T v = true → RTP fi T v
  | .int, _, v, _, hr => by
    cases v with
    | int i =>
      simp [jsonReprProg] at hr
      intro p
      exact ⟨.int i, .int i, by simp [marshalWith], by simp [unmarshalUntyped, castAll], by simp [Val.isEqual]⟩
    | _ => simp [jsonReprProg] at hr
  | .float, _, v, _, hr => by
    cases v with
    | flt d =>
      intro p
      exact ⟨.num d (fi d), .flt d, by simp [marshalWith], by simp [unmarshalUntyped, castAll], by simp [Val.isEqual]⟩
    | _ => simp [jsonReprProg] at hr
  | .bool, _, v, _, hr => by
    cases v with
    | bool b => intro p; exact ⟨.bool b, .bool b, by simp [marshalWith], by simp [unmarshalUntyped, castAll], by simp [Val.isEqual]⟩
    | _ => simp [jsonReprProg] at hr
  | .str, _, v, _, hr => by
    cases v with
    | str z => intro p; exact ⟨.str z, .str z, by simp [marshalWith], by simp [unmarshalUntyped, castAll], by simp [Val.isEqual]⟩
    | _ => simp [jsonReprProg] at hr
  | .any, _, v, _, hr | .null, _, v, _, hr | .range, _, v, _, hr | .anyobj, _, v, _, hr | .fn, _, v, _, hr => by
    simp [jsonReprProg] at hr
  | .opt t, hT, v, hw, hr => by
    simp only [Ty.wf] at hT
    simp only [jsonReprProg, Bool.and_eq_true, Bool.not_eq_true'] at hr
    cases v <;> simp at hr
    · intro p
      exact ⟨.null, .none, by simp [marshalWith], by simp [unmarshalUntyped, castAll], by simp [Val.isEqual]⟩
    · rename_i x
      simp only [Val.wf] at hw
      intro p
      obtain ⟨j, v', h1, h2, h3⟩ := rt_prog fi t hT x hw hr.2 p
      have hnn := marshal_not_null_prog fi t x j hr.2 hr.1 h1
      exact ⟨j, .some v', by simp [marshalWith, h1],
        by rw [castAll_opt_plain (untyped_plain j hnn), h2]; rfl, by simp [Val.isEqual, h3]⟩
  | .list t, hT, v, hw, hr => by
    simp only [Ty.wf] at hT
    cases v <;> simp [jsonReprProg] at hr
    rename_i xs
    simp only [Val.wf] at hw
    intro p
    obtain ⟨js, vs', g1, g2, g3, g4⟩ := rtp_list fi t p xs (fun i x hx =>
      rt_prog fi t hT x (vals_wf_get xs hw i x hx) (all_get xs hr i x hx)) 0
    exact ⟨.arr js, .list vs', by simp [marshalWith, g1], by simp [unmarshalUntyped, castAll, g2, Except.map],
      by simp [Val.isEqual, g3, g4]⟩
  | .obj tfs, hT, v, hw, hr => by
    simp only [Ty.wf, Bool.and_eq_true] at hT
    cases v <;> simp [jsonReprProg] at hr
    rename_i fs
    simp only [Val.wf, Bool.and_eq_true] at hw
    intro p
    have hdecl := rtp_declared fi tfs hT.2 fs hw.2 hr.1
    have hsub1 : ∀ k ∈ fs.keys, k ∈ tfs.keys := by
      intro k hk; simpa [TyFields.hasKey] using hr.2 k hk
    have hsub2 := jsonReprProgFields_keys tfs fs hr.1
    obtain ⟨jfs, hjfs⟩ := marshalFields_some fi fs (by
      intro k x hm
      obtain ⟨t, ht⟩ := ty_mem_of_mem_keys tfs k (hsub1 k (mem_keys_of_mem fs k x hm))
      obtain ⟨x0, h1, h2⟩ := hdecl k t ht
      have := lookup_of_mem_nodup fs k x hw.1 hm
      rw [this] at h1; cases h1
      obtain ⟨j, _, hj, _⟩ := h2 []
      exact ⟨j, hj⟩)
    have hkeys := untypedFields_keys fi fs jfs hjfs
    obtain ⟨g1, g2, g3, g4⟩ := rtp_assemble fs (unmarshalUntypedFields jfs) p tfs (by
      intro k t ht
      obtain ⟨x, h1, h2⟩ := hdecl k t ht
      obtain ⟨j, v', e1, e2, e3⟩ := h2 (p ++ [.field k])
      obtain ⟨j', f1, f2⟩ := marshalFields_lookup fi fs jfs hjfs k x h1
      rw [e1] at f1; cases f1
      exact ⟨x, unmarshalUntyped j, v', h1, by simp [untypedFields_lookup, f2], e2, e3⟩)
    have hun : List.filter (fun k => !tfs.hasKey k) (unmarshalUntypedFields jfs).keys = [] := by
      rw [hkeys]; simp only [List.filter_eq_nil_iff]; intro k hk'; simp [hr.2 k hk']
    have hlen : (castFields false tfs (unmarshalUntypedFields jfs) p).out.length = fs.length := by
      rw [← keys_length, ← keys_length, g3]
      exact Nat.le_antisymm (length_le_of_nodup_subset _ _ hT.1 hsub2) (length_le_of_nodup_subset _ _ hw.1 hsub1)
    refine ⟨.obj jfs, .obj (castFields false tfs (unmarshalUntypedFields jfs) p).out, by simp [marshalWith, hjfs], ?_, ?_⟩
    · simp [unmarshalUntyped, castAll, g1, g2, hun]
    · simp only [Val.isEqual, Bool.and_eq_true]
      exact ⟨by simp [hlen], (isEqualIn_iff _ _).mpr g4⟩
theorem rtp_declared (fi : Dy → Bool) : ∀ (tfs : TyFields), tfs.wf = true → ∀ (fs : Fields), fs.wf = true →
    jsonReprProgFields tfs fs = true → ∀ k t, (k, t) ∈ tfs.toList →
    ∃ x, fs.lookup k = .some x ∧ RTP fi t x
  | .nil, _, fs, _, _, k, t, hm => by simp [TyFields.toList] at hm
  | .cons k' t' rest, hT, fs, hw, hr, k, t, hm => by
    simp only [TyFields.wf, Bool.and_eq_true] at hT
    simp only [jsonReprProgFields, Bool.and_eq_true] at hr
    simp only [TyFields.toList, List.mem_cons, Prod.mk.injEq] at hm
    rcases hm with ⟨rfl, rfl⟩ | hm
    · cases hl : fs.lookup k with
      | none => simp [hl] at hr
      | some x =>
        simp only [hl] at hr
        have hmem := lookup_mem fs k x hl
        exact ⟨x, rfl, rt_prog fi t hT.1 x (mem_wf fs hw k x hmem) hr.1⟩
    · exact rtp_declared fi rest hT.2 fs hw hr.2 k t hm
end

end HmsProofs.Lemmas.ValJson
