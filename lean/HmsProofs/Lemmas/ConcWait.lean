import Hms.Conc.Protocol
import HmsProofs.Lemmas.ConcProtocol
/-!
# `Wait` returns: progress of the goroutine executing `VM.Wait` (fixed protocol)

* `waitStep_enabled`: `Wait` is never blocked (its lock operations can always proceed);
* `phase_ends`: whatever the cores do or have done, the current scan ends within a bounded number
  of `Wait`'s own steps: `Wait` is back at the top of its loop, or has returned;
* `top_returns`: from the top of the loop, if every listed core has signalled, `Wait` returns
  within `3 * |listed| + 2` of its own steps;
* `wait_returns_of_quiet`: both together, from any phase.
-/
namespace Hms.Conc

def restLen : WaitPc → Nat
  | .scan r => r.length
  | .rmWantLock _ _ r => r.length
  | .rmWantRLock r => r.length
  | _ => 0

theorem waitRun_succ {cfg : Cfg} {s s' : PState} (k : Nat) (h : waitStep cfg s = some s') :
    waitRun cfg (k + 1) s = waitRun cfg k s' := by simp [waitRun, h]

theorem waitRun_add (cfg : Cfg) (a b : Nat) (s : PState) :
    waitRun cfg (a + b) s = waitRun cfg b (waitRun cfg a s) ∨
      (waitRun cfg (a + b) s = waitRun cfg a s ∧ waitStep cfg (waitRun cfg a s) = none) := by
  induction a generalizing s with
  | zero => left; simp [waitRun]
  | succ a ih =>
    have e : a + 1 + b = (a + b) + 1 := by omega
    rw [e]
    cases h : waitStep cfg s with
    | none => right; simp [waitRun, h]
    | some s' =>
      rw [waitRun_succ _ h, waitRun_succ _ h]
      exact ih s'

theorem waitRun_none {cfg : Cfg} {s : PState} (h : waitStep cfg s = none) (k : Nat) : waitRun cfg k s = s := by
  cases k <;> simp [waitRun, h]

/-- Composition that is insensitive to `Wait` having already returned. -/
theorem waitRun_add' (cfg : Cfg) (a b : Nat) (s : PState) :
    waitRun cfg (a + b) s = waitRun cfg b (waitRun cfg a s) := by
  rcases waitRun_add cfg a b s with h | ⟨h1, h2⟩
  · exact h
  · rw [h1, waitRun_none h2]

theorem waitStep_enabled (s : PState) (hk : s.leaked = 0) (ha : s.wait.active = true) :
    (waitStep Cfg.fixed s).isSome = true := by
  unfold waitStep
  split <;> simp_all [WaitPc.active]
  · split <;> rfl
  · split <;> rfl

def Target (s : PState) : Prop := s.leaked = 0 ∧ (s.wait = .top ∨ ∃ r, s.wait = .returned r)

theorem scan_ends : ∀ (rest : List Nat) (s : PState), s.wait = .scan rest → s.leaked = 0 →
    ∃ k, k ≤ 3 * rest.length + 2 ∧ Target (waitRun Cfg.fixed k s) := by
  intro rest
  induction rest with
  | nil =>
    intro s hw hk
    by_cases hl : s.listed.isEmpty = true
    · refine ⟨1, by simp, ?_⟩
      have : waitStep Cfg.fixed s = some { s with wait := .returned none } := by simp [waitStep, hw, hl]
      rw [waitRun_succ 0 this]
      exact ⟨hk, .inr ⟨none, rfl⟩⟩
    · refine ⟨2, by simp, ?_⟩
      have h1 : waitStep Cfg.fixed s = some { s with wait := .sleeping } := by simp [waitStep, hw, hl]
      have h2 : waitStep Cfg.fixed { s with wait := .sleeping } = some { s with wait := .top } := by simp [waitStep]
      rw [waitRun_succ 1 h1, waitRun_succ 0 h2]
      exact ⟨hk, .inl rfl⟩
  | cons c r ih =>
    intro s hw hk
    have hsome := waitStep_enabled s hk (by simp [hw, WaitPc.active])
    obtain ⟨s1, h1⟩ := Option.isSome_iff_exists.mp hsome
    cases waitStep_cases h1 with
    | top h e => rw [hw] at h; cases h
    | sleeping h e => rw [hw] at h; cases h
    | retNone h hl e => rw [hw] at h; cases h
    | toSleep h hl e => rw [hw] at h; cases h
    | remove c' st r' h hl e => rw [hw] at h; cases h
    | relock r' h e => rw [hw] at h; cases h
    | cancel c' i h hl e => rw [hw] at h; cases h
    | recvNil c' r' h hc e =>
      rw [hw] at h; cases h
      have h2 : waitStep Cfg.fixed s1 = some { s1 with listed := s1.listed.filter (· != c), wait := .rmWantRLock r } := by
        subst e; simp [waitStep, hk, Cfg.fixed]
      have h3 : waitStep Cfg.fixed { s1 with listed := s1.listed.filter (· != c), wait := .rmWantRLock r }
          = some { s1 with listed := s1.listed.filter (· != c), wait := .scan r } := by simp [waitStep]
      obtain ⟨k, hk', ht⟩ := ih { s1 with listed := s1.listed.filter (· != c), wait := .scan r } rfl (by subst e; exact hk)
      refine ⟨k + 3, by simp; omega, ?_⟩
      rw [waitRun_succ (k + 2) h1, waitRun_succ (k + 1) h2, waitRun_succ k h3]
      exact ht
    | recvIntr c' r' i h hc e =>
      rw [hw] at h; cases h
      have h2 : waitStep Cfg.fixed s1 = some { s1 with cancelled := true, dropped := true, listed := [], leaked := 0,
                                                        wait := .returned (some (c, i)) } := by
        subst e; simp [waitStep, hk, Cfg.fixed]
      refine ⟨2, by omega, ?_⟩
      rw [waitRun_succ 1 h1, waitRun_succ 0 h2]
      exact ⟨rfl, .inr ⟨_, rfl⟩⟩
    | skip c' r' h hn1 hn2 e =>
      rw [hw] at h; cases h
      obtain ⟨k, hk', ht⟩ := ih s1 (by subst e; rfl) (by subst e; exact hk)
      refine ⟨k + 1, by simp; omega, ?_⟩
      rw [waitRun_succ k h1]
      exact ht

/-- Whatever the cores do, the current pass of `Wait` over its snapshot ends. -/
theorem phase_ends (s : PState) (hk : s.leaked = 0) (ha : s.wait.active = true) :
    ∃ k, k ≤ 3 * restLen s.wait + 4 ∧ Target (waitRun Cfg.fixed k s) := by
  cases hw : s.wait with
  | idle => simp [hw, WaitPc.active] at ha
  | returned r => simp [hw, WaitPc.active] at ha
  | top => exact ⟨0, by omega, hk, .inl (by simpa [waitRun] using hw)⟩
  | sleeping =>
    have h1 : waitStep Cfg.fixed s = some { s with wait := .top } := by simp [waitStep, hw]
    exact ⟨1, by omega, by rw [waitRun_succ 0 h1]; exact ⟨hk, .inl rfl⟩⟩
  | scan r =>
    obtain ⟨k, hk', ht⟩ := scan_ends r s hw hk
    exact ⟨k, by simp [restLen]; omega, ht⟩
  | rmWantRLock r =>
    have h1 : waitStep Cfg.fixed s = some { s with wait := .scan r } := by simp [waitStep, hw]
    obtain ⟨k, hk', ht⟩ := scan_ends r { s with wait := .scan r } rfl hk
    exact ⟨k + 1, by simp [restLen]; omega, by rw [waitRun_succ k h1]; exact ht⟩
  | rmWantLock c st r =>
    have h1 : waitStep Cfg.fixed s = some { s with listed := s.listed.filter (· != c), wait := .rmWantRLock r } := by
      simp [waitStep, hw, hk, Cfg.fixed]
    have h2 : waitStep Cfg.fixed { s with listed := s.listed.filter (· != c), wait := .rmWantRLock r }
        = some { s with listed := s.listed.filter (· != c), wait := .scan r } := by simp [waitStep]
    obtain ⟨k, hk', ht⟩ := scan_ends r { s with listed := s.listed.filter (· != c), wait := .scan r } rfl hk
    exact ⟨k + 2, by simp [restLen]; omega, by rw [waitRun_succ (k + 1) h1, waitRun_succ k h2]; exact ht⟩
  | cancelWantLock c i =>
    have h1 : waitStep Cfg.fixed s = some { s with cancelled := true, dropped := true, listed := [], leaked := 0,
                                                    wait := .returned (some (c, i)) } := by
      simp [waitStep, hw, hk, Cfg.fixed]
    exact ⟨1, by omega, by rw [waitRun_succ 0 h1]; exact ⟨rfl, .inr ⟨_, rfl⟩⟩⟩

/-- A complete scan over cores that have all signalled returns. -/
theorem scan_returns : ∀ (rest : List Nat) (s : PState), s.wait = .scan rest → s.leaked = 0 →
    (∀ c ∈ s.listed, c ∈ rest) → rest.Nodup → (∀ c ∈ rest, ∃ sg, s.core c = .signalled sg) →
    ∃ k, k ≤ 3 * rest.length + 1 ∧ ∃ r, (waitRun Cfg.fixed k s).wait = .returned r := by
  intro rest
  induction rest with
  | nil =>
    intro s hw hk hsub _ _
    have hl : s.listed = [] := by
      cases hls : s.listed with
      | nil => rfl
      | cons a l => exact absurd (hsub a (by simp [hls])) (by simp)
    have : waitStep Cfg.fixed s = some { s with wait := .returned none } := by simp [waitStep, hw, hl]
    exact ⟨1, by simp, none, by rw [waitRun_succ 0 this]; rfl⟩
  | cons c r ih =>
    intro s hw hk hsub hnd hsig
    obtain ⟨sg, hc⟩ := hsig c (by simp)
    have hcr : c ∉ r := (List.nodup_cons.mp hnd).1
    cases sg with
    | some i =>
      have h1 : waitStep Cfg.fixed s = some { s with core := upd s.core c (.received (some i)), wait := .cancelWantLock c i } := by
        simp [waitStep, hw, hc]
      have h2 : waitStep Cfg.fixed { s with core := upd s.core c (.received (some i)), wait := .cancelWantLock c i }
          = some { s with core := upd s.core c (.received (some i)), cancelled := true, dropped := true, listed := [],
                          leaked := 0, wait := .returned (some (c, i)) } := by
        simp [waitStep, hk, Cfg.fixed]
      exact ⟨2, by simp; omega, _, by rw [waitRun_succ 1 h1, waitRun_succ 0 h2]; rfl⟩
    | none =>
      have h1 : waitStep Cfg.fixed s = some { s with core := upd s.core c (.received none),
                                                      wait := .rmWantLock c (s.listed.filter (· != c)) r } := by
        simp [waitStep, hw, hc]
      have h2 : waitStep Cfg.fixed { s with core := upd s.core c (.received none),
                                            wait := .rmWantLock c (s.listed.filter (· != c)) r }
          = some { s with core := upd s.core c (.received none), listed := s.listed.filter (· != c),
                          wait := .rmWantRLock r } := by
        simp [waitStep, hk, Cfg.fixed]
      have h3 : waitStep Cfg.fixed { s with core := upd s.core c (.received none), listed := s.listed.filter (· != c),
                                            wait := .rmWantRLock r }
          = some { s with core := upd s.core c (.received none), listed := s.listed.filter (· != c),
                          wait := .scan r } := by simp [waitStep]
      obtain ⟨k, hk', res, hr⟩ := ih { s with core := upd s.core c (.received none), listed := s.listed.filter (· != c),
                                              wait := .scan r } rfl hk
        (by
          intro d hd
          simp only [List.mem_filter] at hd
          have := hsub d hd.1
          simp only [List.mem_cons] at this
          rcases this with rfl | h
          · simp at hd
          · exact h)
        (List.nodup_cons.mp hnd).2
        (by
          intro d hd
          obtain ⟨sg', hs⟩ := hsig d (by simp [hd])
          refine ⟨sg', ?_⟩
          show upd s.core c _ d = _
          rw [upd_other _ _ _ _ (by rintro rfl; exact hcr hd)]
          exact hs)
      exact ⟨k + 3, by simp; omega, res,
        by rw [waitRun_succ (k + 2) h1, waitRun_succ (k + 1) h2, waitRun_succ k h3]; exact hr⟩

/-- From the top of its loop, if every listed core has signalled, `Wait` returns. -/
theorem top_returns (s : PState) (hw : s.wait = .top) (hk : s.leaked = 0) (hnd : s.listed.Nodup)
    (hsig : ∀ c ∈ s.listed, ∃ sg, s.core c = .signalled sg) :
    ∃ k, k ≤ 3 * s.listed.length + 2 ∧ ∃ r, (waitRun Cfg.fixed k s).wait = .returned r := by
  have h1 : waitStep Cfg.fixed s = some { s with wait := .scan s.listed } := by simp [waitStep, hw]
  obtain ⟨k, hk', r, hr⟩ := scan_returns s.listed { s with wait := .scan s.listed } rfl hk (fun _ h => h) hnd hsig
  exact ⟨k + 1, by omega, r, by rw [waitRun_succ k h1]; exact hr⟩

end Hms.Conc

namespace Hms.Conc

/-- No core that `Wait` still has to collect is running: every listed core has signalled, except
the one whose signal `Wait` has just taken and is about to remove. -/
def Quiet (s : PState) : Prop :=
  s.leaked = 0 ∧ s.listed.Nodup ∧
    ∀ c ∈ s.listed, (∃ sg, s.core c = .signalled sg) ∨ (∃ st r, s.wait = .rmWantLock c st r)
      ∨ (∃ i, s.wait = .cancelWantLock c i)

theorem quiet_step {s s' : PState} (hq : Quiet s) (h : waitStep Cfg.fixed s = some s') :
    Quiet s' ∧ s'.listed.length ≤ s.listed.length := by
  obtain ⟨hk, hnd, hall⟩ := hq
  cases waitStep_cases h with
  | top hw e => subst e; exact ⟨⟨hk, hnd, by grind⟩, Nat.le_refl _⟩
  | sleeping hw e => subst e; exact ⟨⟨hk, hnd, by grind⟩, Nat.le_refl _⟩
  | retNone hw hl e => subst e; exact ⟨⟨hk, hnd, by grind⟩, Nat.le_refl _⟩
  | toSleep hw hl e => subst e; exact ⟨⟨hk, hnd, by grind⟩, Nat.le_refl _⟩
  | relock r hw e => subst e; exact ⟨⟨hk, hnd, by grind⟩, Nat.le_refl _⟩
  | skip c r hw h1 h2 e => subst e; exact ⟨⟨hk, hnd, by grind⟩, Nat.le_refl _⟩
  | recvNil c r hw hc e =>
    subst e
    refine ⟨⟨hk, hnd, ?_⟩, Nat.le_refl _⟩
    intro d hd
    by_cases hdc : d = c
    · subst hdc; right; left; exact ⟨_, _, rfl⟩
    · left
      have := hall d hd
      simp only [upd_other _ _ _ _ hdc]
      grind
  | recvIntr c r i hw hc e =>
    subst e
    refine ⟨⟨hk, hnd, ?_⟩, Nat.le_refl _⟩
    intro d hd
    by_cases hdc : d = c
    · subst hdc; right; right; exact ⟨_, rfl⟩
    · left
      have := hall d hd
      simp only [upd_other _ _ _ _ hdc]
      grind
  | remove c st r hw hl e =>
    subst e
    refine ⟨⟨hk, ?_, ?_⟩, ?_⟩
    · simpa [Cfg.fixed] using List.Nodup.sublist List.filter_sublist hnd
    · intro d hd
      simp only [Cfg.fixed, Bool.false_eq_true, ↓reduceIte, List.mem_filter] at hd
      have := hall d hd.1
      grind
    · simpa [Cfg.fixed] using List.length_filter_le _ _
  | cancel c i hw hl e =>
    subst e
    exact ⟨⟨by simp [Cfg.fixed], by simp, by simp⟩, by simp⟩

theorem quiet_waitRun (k : Nat) : ∀ (s : PState), Quiet s →
    Quiet (waitRun Cfg.fixed k s) ∧ (waitRun Cfg.fixed k s).listed.length ≤ s.listed.length := by
  induction k with
  | zero => intro s hq; exact ⟨hq, Nat.le_refl _⟩
  | succ k ih =>
    intro s hq
    cases h : waitStep Cfg.fixed s with
    | none => simpa [waitRun, h] using hq
    | some s' =>
      rw [waitRun_succ k h]
      obtain ⟨q1, l1⟩ := quiet_step hq h
      obtain ⟨q2, l2⟩ := ih s' q1
      exact ⟨q2, Nat.le_trans l2 l1⟩

/-- Once no listed core is running any more, `Wait` returns within a bounded number of its own
steps, from whatever phase it is in. -/
theorem wait_returns_of_quiet (s : PState) (hq : Quiet s) (ha : s.wait.active = true) :
    ∃ k, k ≤ 3 * restLen s.wait + 3 * s.listed.length + 6 ∧
      ∃ r, (waitRun Cfg.fixed k s).wait = .returned r := by
  obtain ⟨k1, hk1, ht⟩ := phase_ends s hq.1 ha
  obtain ⟨q1, l1⟩ := quiet_waitRun k1 s hq
  rcases ht.2 with htop | ⟨r, hr⟩
  · obtain ⟨hk, hnd, hall⟩ := q1
    have hsig : ∀ c ∈ (waitRun Cfg.fixed k1 s).listed, ∃ sg, (waitRun Cfg.fixed k1 s).core c = .signalled sg := by
      intro c hc
      rcases hall c hc with h | ⟨_, _, h⟩ | ⟨_, h⟩
      · exact h
      · rw [htop] at h; cases h
      · rw [htop] at h; cases h
    obtain ⟨k2, hk2, r, hr⟩ := top_returns _ htop hk hnd hsig
    exact ⟨k1 + k2, by omega, r, by rw [waitRun_add']; exact hr⟩
  · exact ⟨k1, by omega, r, hr⟩

end Hms.Conc
