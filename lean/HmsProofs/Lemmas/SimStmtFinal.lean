import HmsProofs.Lemmas.SimStmtExec
import HmsProofs.Lemmas.SimPureFinal
/-!
# Statements through all three passes
-/
namespace HmsProofs.Sim
open Hms.Core Hms.Core.Comp Hms.Core.VM

/-! ## Label hygiene for statements -/

theorem cS_labels (mod : String) : ∀ (n : Nat),
    (∀ (st : Stmt) (env : CEnv), Frag.depthS st ≤ n →
      LblInv mod env.lm (cS mod st env).2.lm (definedLabels (cS mod st env).1)) ∧
    (∀ (ss : List Stmt) (env : CEnv), Frag.depthSs ss ≤ n →
      LblInv mod env.lm (cSs mod ss env).2.lm (definedLabels (cSs mod ss env).1)) ∧
    (∀ (b : Block) (env : CEnv), Frag.depthBS b ≤ n →
      LblInv mod env.lm (cB mod b env).2.lm (definedLabels (cB mod b env).1)) := by
  intro n
  induction n with
  | zero =>
    refine ⟨?_, ?_, ?_⟩
    · intro st env hd; have := depthS_pos st; omega
    · intro ss env hd; cases ss <;> simp [Frag.depthSs] at hd
    · intro b env hd; obtain ⟨_, _, _, _⟩ := b; simp [Frag.depthBS] at hd
  | succ n ih =>
    obtain ⟨ihS, ihSs, ihB⟩ := ih
    have hE := fun (ρ : String → Option String) (e : Expr) (lm : LM) =>
      (cpE_labels mod ρ (Frag.depthE e)).1 e lm (Nat.le_refl _)
    refine ⟨?_, ?_, ?_⟩
    · intro st env hd
      cases st
      case typedef | trigger | ret | brk | cont | loopS | forS => exact LblInv.nil mod env.lm
      case letS sp name vty nc oty e =>
        cases nc
        · simp only [cS, definedLabels_append, definedLabels_instr _ _ _ (rfl : isLabel (Instr.setVar _ : SInstr) = false),
            definedLabels_nil, List.append_nil]
          exact hE _ e env.lm
        · exact LblInv.nil mod env.lm
      case exprS sp e =>
        cases e
        case assign asp op l r =>
          cases op <;> cases l <;> try exact LblInv.nil mod env.lm
          · rename_i g _ sg
            cases g <;> cases sg <;> try exact LblInv.nil mod env.lm
            simp only [cS, definedLabels_append,
              definedLabels_instr _ _ _ (rfl : isLabel (Instr.setVar _ : SInstr) = false),
              definedLabels_nil, List.append_nil]
            exact hE _ r env.lm
          · rename_i o _ _ _ g _ sg
            cases g <;> cases sg <;> try exact LblInv.nil mod env.lm
            have : definedLabels ((arithI o).map (·, asp)) = [] := by cases o <;> rfl
            simp only [cS, definedLabels_append, this,
              definedLabels_instr _ _ _ (rfl : isLabel (Instr.setVar _ : SInstr) = false),
              definedLabels_instr _ _ _ (rfl : isLabel (Instr.getVar _ : SInstr) = false),
              definedLabels_nil, List.append_nil, List.nil_append]
            exact hE _ r env.lm
        case ifE isp ty c t el =>
          cases el with
          | some eb =>
            simp only [Frag.depthS] at hd
            simp only [cS]
            have h1 := hE (ρS env.scopes) c env.lm
            have h2 := LblInv.single mod (cpE mod (ρS env.scopes) c env.lm).2 "if_after" (by decide)
            have h3 := LblInv.single mod (freshLabel mod (cpE mod (ρS env.scopes) c env.lm).2 "if_after").2 "else"
              (by decide)
            have h4 := ihB t { env with lm := (freshLabel mod (freshLabel mod
              (cpE mod (ρS env.scopes) c env.lm).2 "if_after").2 "else").2 } (by omega)
            have h5 := ihB eb (cB mod t { env with lm := (freshLabel mod (freshLabel mod
              (cpE mod (ρS env.scopes) c env.lm).2 "if_after").2 "else").2 }).2 (by omega)
            refine ((((h1.append h2).append h3).append h4).append h5).perm (perm_of_count ?_)
            intro a
            simp only [definedLabels_append,
              definedLabels_instr _ _ _ (rfl : isLabel (Instr.jumpIfFalse _ : SInstr) = false),
              definedLabels_instr _ _ _ (rfl : isLabel (Instr.jump _ : SInstr) = false),
              definedLabels_label, definedLabels_nil, List.count_append, List.count_cons, List.count_nil]
            omega
          | none =>
            simp only [Frag.depthS] at hd
            simp only [cS]
            have h1 := hE (ρS env.scopes) c env.lm
            generalize cpE mod (ρS env.scopes) c env.lm = C at h1 ⊢
            have h2 := LblInv.single mod C.2 "if_after" (by decide)
            generalize freshLabel mod C.2 "if_after" = aft at h2 ⊢
            have h3 := LblInv.single mod aft.2 "else" (by decide)
            generalize freshLabel mod aft.2 "else" = els at h3 ⊢
            have h4 := ihB t { env with lm := els.2 } (by omega)
            generalize cB mod t { env with lm := els.2 } = Tb at h4 ⊢
            -- the `else` label is generated but not placed
            have h1234 := ((h1.append h2).append h3).append h4
            have hperm : (definedLabels (C.1 ++ [((Instr.jumpIfFalse aft.1 : SInstr), isp)] ++ Tb.1 ++
                [(.jump aft.1, isp), (.label aft.1, isp)])).Perm
                (definedLabels C.1 ++ [aft.1] ++ definedLabels Tb.1) := by
              apply perm_of_count
              intro a
              simp only [definedLabels_append,
                definedLabels_instr _ _ _ (rfl : isLabel (Instr.jumpIfFalse _ : SInstr) = false),
                definedLabels_instr _ _ _ (rfl : isLabel (Instr.jump _ : SInstr) = false),
                definedLabels_label, definedLabels_nil, List.count_append, List.count_cons, List.count_nil]
              omega
            have hsl : (definedLabels C.1 ++ [aft.1] ++ definedLabels Tb.1).Sublist
                (definedLabels C.1 ++ [aft.1] ++ [els.1] ++ definedLabels Tb.1) :=
              List.Sublist.append (List.sublist_append_left _ _) (List.Sublist.refl _)
            exact ⟨h1234.mono, hperm.nodup_iff.mpr (hsl.nodup h1234.nodup),
              fun l hl => h1234.range l (hsl.mem (hperm.mem_iff.mp hl))⟩
        all_goals exact LblInv.nil mod env.lm
      case whileS sp c body =>
        simp only [Frag.depthS] at hd
        simp only [cS]
        have h1 := LblInv.single mod env.lm "loop_head" (by decide)
        have h2 := LblInv.single mod (freshLabel mod env.lm "loop_head").2 "loop_end" (by decide)
        have h3 := hE (ρS env.scopes) c (freshLabel mod (freshLabel mod env.lm "loop_head").2 "loop_end").2
        have h4 := ihB body { env with lm := (cpE mod (ρS env.scopes) c
          (freshLabel mod (freshLabel mod env.lm "loop_head").2 "loop_end").2).2 } (by omega)
        refine (((h1.append h2).append h3).append h4).perm (perm_of_count ?_)
        intro a
        simp only [definedLabels_append,
          definedLabels_instr _ _ _ (rfl : isLabel (Instr.jumpIfFalse _ : SInstr) = false),
          definedLabels_instr _ _ _ (rfl : isLabel (Instr.jump _ : SInstr) = false),
          definedLabels_label, definedLabels_nil, List.count_append, List.count_cons, List.count_nil]
        omega
    · intro ss env hd
      cases ss with
      | nil => exact LblInv.nil mod env.lm
      | cons st ss =>
        simp only [Frag.depthSs] at hd
        rw [cSs]
        simp only [definedLabels_append]
        exact (ihS st env (by omega)).append (ihSs ss _ (by omega))
    · intro b env hd
      obtain ⟨bsp, bty, stmts, oe⟩ := b
      simp only [Frag.depthBS] at hd
      cases oe with
      | some _ => exact LblInv.nil mod env.lm
      | none =>
        simp only [cB]
        exact ihSs stmts { env with scopes := [] :: env.scopes } (by omega)

theorem cSs_labels_nodup (mod : String) (ss : List Stmt) (env : CEnv) :
    (definedLabels (cSs mod ss env).1).Nodup :=
  ((cS_labels mod (Frag.depthSs ss)).2.1 ss env (Nat.le_refl _)).nodup

/-! ## Variable names survive `relocate` -/

theorem codeVars_stripLabels (code : SCode) : codeVars (stripLabels code) = codeVars code := by
  induction code with
  | nil => rfl
  | cons p code ih =>
    obtain ⟨i, sp⟩ := p
    cases hl : isLabel i with
    | true =>
      obtain ⟨l, rfl⟩ := (isLabel_iff i).mp hl
      rw [stripLabels_cons_label]
      simpa [codeVars, var?] using ih
    | false =>
      rw [stripLabels_cons_other _ _ _ hl]
      simp only [codeVars, List.filterMap_cons] at ih ⊢
      rw [ih]

theorem varNames_relocate (code : SCode) (r : NCode) (h : relocate code = some r) :
    varNames r = codeVars code := by
  rw [relocate_some code r h, ← codeVars_stripLabels]
  unfold varNames codeVars
  rw [List.filterMap_map]
  congr 1
  funext p
  simp [resolve, var?_mapLV]

/-- **Statement sequences, the three passes together.** The function's symbolic code is
`pre ++ code(ss) ++ post`; no label of `code(ss)` is defined again in `post`; `relocate` gives
`r`; the VM runs `renameVars r`; every slot of the function lies inside the frame. Tracked
identifiers `T`: all identifiers of `ss`. Then from instruction index
`nI pre` the VM simulates the specification's execution of `ss` (`SimS`), re-establishing the
relation `StRel` between specification scopes, compiler scopes and VM memory. -/
theorem compiled_stmts_correct (cfg : Cfg) (code : Code) (lim : Limits) (mod : String) (T : List String)
    (fuel : Nat) (ss : List Stmt) (env : CEnv) (spec : St) (s : VMState) (f : Frame) (rest : List Frame)
    (pre post : SCode) (r : NCode) (stk : List SVal) (mem : List (Int × Val))
    (hs : Frag.okSs ss = true) (hT : ∀ x ∈ Frag.identsSs ss, x ∈ T)
    (hws : Frag.wsSs mod ss env = true)
    (hrel : relocate (pre ++ (cSs mod ss env).1 ++ post) = some r)
    (hpost : ∀ l ∈ definedLabels (cSs mod ss env).1, l ∉ definedLabels post)
    (hcalls : s.calls = f :: rest) (hfn : findCode code f.fn = some (renameVars r))
    (hframe : ∀ m ∈ varNames r, 0 ≤ s.mp - (slotFn r m : Int) ∧ s.mp - (slotFn r m : Int) < (lim.memory : Int))
    (hst : StRel mod T (· ∈ varNames r) (slotFn r) lim s.mp env.scopes env.vm spec.scopes mem)
    (hheap : s.st.heap = spec.heap) :
    SimS code lim s (nI pre) (nI (cSs mod ss env).1) stk mem
      (StRel mod T (· ∈ varNames r) (slotFn r) lim s.mp (cSs mod ss env).2.scopes (cSs mod ss env).2.vm)
      spec (evalStmts cfg fuel ss spec) := by
  have hg : Good T (· ∈ varNames r) (slotFn r) lim s.mp :=
    ⟨fun a b ha hb e => (slotFn_inj r a b ha hb).mp e, hframe⟩
  have hall := exec_stmt_all (cfg := cfg) (code := code) (lim := lim) (mod := mod) (T := T)
    (N := (· ∈ varNames r)) (σ := slotFn r) (lab := labelIndex (pre ++ (cSs mod ss env).1 ++ post))
    (s := s) (f := f) (rest := rest) (c := renameVars r) hcalls hfn hg fuel
  refine hall.2.1 ss env spec (nI pre) stk mem hs hT hws ?_
    (placed_of_relocate pre _ post r hrel (cSs_labels_nodup mod ss env) hpost) hst hheap
  intro m hm
  show m ∈ varNames r
  rw [varNames_relocate _ r hrel]
  simp only [codeVars_append, List.mem_append]
  exact Or.inl (Or.inr hm)

end HmsProofs.Sim
