import Hms.Conc.Poll
/-! # Lemmas about the run loops (`Hms/Conc/Poll.lean`) -/
namespace Hms.Conc

/-- A cycle executes at most `c` steps. -/
theorem inner_again_le {σ : Type} (m : Machine σ) (T : Nat) :
    ∀ (c t : Nat) (s s' : σ) (t' : Nat), inner m T c t s = .again s' t' → t ≤ t' ∧ t' ≤ t + c := by
  intro c
  induction c with
  | zero => intro t s s' t' h; simp [inner] at h; omega
  | succ c ih =>
    intro t s s' t' h
    unfold inner at h
    split at h
    · cases h
    · split at h
      · cases h; omega
      · split at h
        · have := ih _ _ _ _ h; omega
        · split at h
          · cases h
          · have := ih _ _ _ _ h; omega
        · cases h

theorem inner_done_le {σ : Type} (m : Machine σ) (T : Nat) :
    ∀ (c t : Nat) (s : σ) (sg : Sig) (t' : Nat), inner m T c t s = .done sg t' → t ≤ t' ∧ t' ≤ t + c := by
  intro c
  induction c with
  | zero => intro t s sg t' h; simp [inner] at h
  | succ c ih =>
    intro t s sg t' h
    unfold inner at h
    split at h
    · cases h; omega
    · split at h
      · cases h
      · split at h
        · have := ih _ _ _ _ h; omega
        · split at h
          · cases h; omega
          · have := ih _ _ _ _ h; omega
        · cases h; omega

/-- A cycle that comes back to the outer loop with a non-empty budget has advanced the clock. -/
theorem inner_again_progress {σ : Type} (m : Machine σ) (T : Nat) (c t : Nat) (s s' : σ) (t' : Nat)
    (h : inner m T (c + 1) t s = .again s' t') : t < t' := by
  unfold inner at h
  split at h
  · cases h
  · split at h
    · cases h; omega
    · split at h
      · have := (inner_again_le m T _ _ _ _ _ h).1; omega
      · split at h
        · cases h
        · have := (inner_again_le m T _ _ _ _ _ h).1; omega
      · cases h

/-- Whatever the machine does, the core stops before time `T + quantum` (or at its entry time if
that is later): at most `quantum - 1` steps are executed at or after the cancellation. -/
theorem run_time_bound {σ : Type} (m : Machine σ) (quantum T : Nat) :
    ∀ (fuel t p : Nat) (tr : List Nat) (s : σ) (r : RunOut),
      run m quantum T fuel t p tr s = some r → r.t ≤ max t (T + quantum - 1) := by
  intro fuel
  induction fuel with
  | zero => intro t p tr s r h; simp [run] at h
  | succ fuel ih =>
    intro t p tr s r h
    unfold run at h
    split at h
    · cases h; simp; omega
    · split at h
      · cases h; simp; omega
      · split at h
        · cases h; simp; omega
        · rename_i hT _
          split at h
          · rename_i s' t' hin
            have h1 := inner_again_le m T _ _ _ _ _ hin
            have h2 := ih _ _ _ _ _ h
            omega
          · rename_i sg t' hin
            have h1 := inner_done_le m T _ _ _ _ _ hin
            cases h
            simp
            omega

/-- With a non-zero quantum the loop always ends: `T + 1` outer iterations suffice from time 0. -/
theorem run_fuel_suffices {σ : Type} (m : Machine σ) (quantum T : Nat) (hq : 0 < quantum) :
    ∀ (fuel t p : Nat) (tr : List Nat) (s : σ), T + 1 ≤ fuel + t → 0 < fuel →
      (run m quantum T fuel t p tr s).isSome = true := by
  intro fuel
  induction fuel with
  | zero => intro t p tr s _ h; omega
  | succ fuel ih =>
    intro t p tr s hf _
    unfold run
    split
    · rfl
    · split
      · rfl
      · split
        · rfl
        · rename_i hT _
          split
          · rename_i s' t' hin
            obtain ⟨q, rfl⟩ : ∃ q, quantum = q + 1 := ⟨quantum - 1, by omega⟩
            have hp := inner_again_progress m T _ _ _ _ _ hin
            by_cases hz : fuel = 0
            · -- then T < t + 1 contradicts ¬ T ≤ t … unless t' ≥ T: but fuel = 0 means T + 1 ≤ 1 + t
              omega
            · exact ih _ _ _ _ (by omega) (by omega)
          · rfl

/-- At a poll that sees the cancellation the core signals `terminate` without executing anything. -/
theorem run_cancelled_at_poll {σ : Type} (m : Machine σ) (quantum T fuel t p : Nat) (tr : List Nat) (s : σ)
    (he : m.empty s = false) (hT : T ≤ t) :
    run m quantum T (fuel + 1) t p tr s = some ⟨some .terminate, t, p + 1, tr ++ [m.obs s]⟩ := by
  simp [run, he, hT]

theorem treeRun_time_bound {σ : Type} (m : TreeMachine σ) (T : Nat) :
    ∀ (fuel t : Nat) (tr : List Nat) (s : σ) (r : RunOut),
      treeRun m T fuel t tr s = some r → r.t ≤ max t T := by
  intro fuel
  induction fuel with
  | zero => intro t tr s r h; simp [treeRun] at h
  | succ fuel ih =>
    intro t tr s r h
    unfold treeRun at h
    split at h
    · cases h; simp; omega
    · split at h
      · cases h; simp; omega
      · split at h
        · have := ih _ _ _ _ h; omega
        · split at h
          · cases h; simp; omega
          · have := ih _ _ _ _ h; omega
        · cases h; simp; omega

theorem treeRun_fuel_suffices {σ : Type} (m : TreeMachine σ) (T : Nat) :
    ∀ (fuel t : Nat) (tr : List Nat) (s : σ), T + 1 ≤ fuel + t → 0 < fuel →
      (treeRun m T fuel t tr s).isSome = true := by
  intro fuel
  induction fuel with
  | zero => intro t tr s _ h; omega
  | succ fuel ih =>
    intro t tr s hf _
    unfold treeRun
    split
    · rfl
    · split
      · rfl
      · rename_i hT
        by_cases hz : fuel = 0
        · omega
        · split
          · exact ih _ _ _ (by omega) (by omega)
          · split
            · rfl
            · exact ih _ _ _ (by omega) (by omega)
          · rfl

end Hms.Conc
