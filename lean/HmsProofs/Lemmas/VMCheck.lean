import HmsProofs.Lemmas.VMRun
/-!
# Soundness of the bytecode checker `Hms.Core.BcCheck.verify`

The invariant `Inv` ties a VM state to a verified annotation; `step` preserves it and never
answers one of the four excluded panics from a state that satisfies it.
-/
namespace HmsProofs.Lemmas.VMCheck
open Hms.Core Hms.Core.Comp Hms.Core.VM Hms.Core.BcCheck
open HmsProofs.Lemmas.VMStep HmsProofs.Lemmas.VMRun

/-! ## Reading facts off `verify` -/

theorem lookupFn_cons (cf : CompiledFn) (code : Code) (fa : FnAnn) (A : List FnAnn) (fn : String) :
    lookupFn (cf :: code) (fa :: A) fn =
      if (cf.name == fn) = true then some (cf.code, fa) else lookupFn code A fn := by
  simp only [lookupFn, List.zip_cons_cons, List.find?_cons]
  split <;> simp_all

theorem findCode_cons (cf : CompiledFn) (code : Code) (fn : String) :
    findCode (cf :: code) fn = if (cf.name == fn) = true then some cf.code else findCode code fn := by
  simp only [findCode, List.find?_cons]
  split <;> simp_all

theorem lookup_findCode : ∀ (code : Code) (A : List FnAnn) (fn : String) (c : FnCode) (fa : FnAnn),
    lookupFn code A fn = some (c, fa) → findCode code fn = some c
  | [], _, fn, c, fa, h => by simp [lookupFn] at h
  | _ :: _, [], fn, c, fa, h => by simp [lookupFn] at h
  | cf :: code, fa' :: A, fn, c, fa, h => by
    rw [lookupFn_cons] at h
    rw [findCode_cons]
    split at h
    · rename_i hn; simp only [Option.some.injEq, Prod.mk.injEq] at h; simp [hn, h.1]
    · rename_i hn; simp only [hn]; exact lookup_findCode code A fn c fa h

theorem findCode_lookup : ∀ (code : Code) (A : List FnAnn) (fn : String) (c : FnCode),
    code.length = A.length → findCode code fn = some c → ∃ fa, lookupFn code A fn = some (c, fa)
  | [], _, fn, c, _, h => by simp [findCode] at h
  | _ :: _, [], fn, c, hl, h => by simp at hl
  | cf :: code, fa' :: A, fn, c, hl, h => by
    rw [findCode_cons] at h
    rw [lookupFn_cons]
    split at h
    · rename_i hn; simp only [Option.some.injEq] at h; exact ⟨fa', by simp [hn, h]⟩
    · rename_i hn
      simp only [hn]
      exact findCode_lookup code A fn c (by simpa using hl) h

theorem lookup_mem : ∀ (code : Code) (A : List FnAnn) (fn : String) (c : FnCode) (fa : FnAnn),
    lookupFn code A fn = some (c, fa) → ∃ cf, (cf, fa) ∈ code.zip A ∧ cf.code = c ∧ cf.name = fn
  | [], _, fn, c, fa, h => by simp [lookupFn] at h
  | _ :: _, [], fn, c, fa, h => by simp [lookupFn] at h
  | cf :: code, fa' :: A, fn, c, fa, h => by
    rw [lookupFn_cons] at h
    split at h
    · rename_i hn
      simp only [Option.some.injEq, Prod.mk.injEq] at h
      exact ⟨cf, by simp [← h.2], h.1, by simpa using hn⟩
    · obtain ⟨cf', hm, h1, h2⟩ := lookup_mem code A fn c fa h
      exact ⟨cf', by simp [hm], h1, h2⟩

/-- What `verify` guarantees for one instruction index that carries an annotation. -/
structure PointOK (code : Code) (A : List FnAnn) (fn : String) (c : FnCode) (fa : FnAnn)
    (ip : Nat) (a : Ann) (i : RInstr) (sp : Span) (pops : Nat) (l : List (Nat × Ann)) : Prop where
  instr : c[ip]? = some (i, sp)
  succ : succs (sigOf code A) fn c fa.results ((fa.dyn.lookup ip).getD 0) ip a i = some (pops, l)
  flow : ∀ x ∈ l, fa.pts[x.1]? = some (some x.2)
  handler : handlerOK fa.pts a pops = true
  entry : handlerEntryOK c a = true

theorem verify_length {code : Code} {A : List FnAnn} (hv : verify code A = true) : code.length = A.length := by
  simp only [verify, Bool.and_eq_true, decide_eq_true_eq] at hv
  exact hv.1

theorem verify_fn {code : Code} {A : List FnAnn} (hv : verify code A = true) {fn : String} {c : FnCode}
    {fa : FnAnn} (hl : lookupFn code A fn = some (c, fa)) :
    fa.pts.length = c.length ∧ fa.pts[0]? = some (some { h := fa.params, off := 0, hs := [] })
      ∧ ∀ ip, ip < c.length → checkAt (sigOf code A) fn c fa ip = true := by
  obtain ⟨cf, hm, rfl, rfl⟩ := lookup_mem code A fn c fa hl
  simp only [verify, Bool.and_eq_true, decide_eq_true_eq, List.all_eq_true] at hv
  have := hv.2 (cf, fa) hm
  simp only [checkFn, Bool.and_eq_true, decide_eq_true_eq, List.all_eq_true, List.mem_range] at this
  exact ⟨this.1.1, this.1.2, this.2⟩

theorem verify_point {code : Code} {A : List FnAnn} (hv : verify code A = true) {fn : String} {c : FnCode}
    {fa : FnAnn} (hl : lookupFn code A fn = some (c, fa)) {ip : Nat} {a : Ann}
    (hp : fa.pts[ip]? = some (some a)) :
    ∃ i sp pops l, PointOK code A fn c fa ip a i sp pops l := by
  obtain ⟨hlen, _, hall⟩ := verify_fn hv hl
  have hip : ip < c.length := by
    rw [← hlen]
    obtain ⟨h, _⟩ := List.getElem?_eq_some_iff.mp hp
    exact h
  have := hall ip hip
  simp only [checkAt, hp] at this
  split at this
  · rename_i i sp hi
    split at this
    · rename_i pops l hs
      simp only [Bool.and_eq_true, List.all_eq_true, decide_eq_true_eq] at this
      exact ⟨i, sp, pops, l, hi, hs, this.1.1, this.1.2, this.2⟩
    · cases this
  · cases this

/-! ## The invariant -/

/-- Ghost data of one activation: operand-stack base and memory pointer at function entry. -/
structure Base where
  b : Nat
  mb : Int

def isCall : RInstr → Bool
  | .callVal | .callImm _ => true
  | _ => false

/-- The handlers an activation of `fn` at call depth `depth` with ghost data `B` has installed:
`setTry` records the call depth, the operand-stack height and the memory pointer. -/
def hmap (fn : String) (depth : Nat) (B : Base) (hs : List (Nat × Nat × Nat)) : List Handler :=
  hs.map fun x => ⟨⟨fn, x.1⟩, depth, B.b + x.2.1, B.mb + (x.2.2 : Int)⟩

/-- Frame-by-frame invariant. `m`, `mp`, `hd`: operand-stack length, memory pointer and handler
stack at the moment the head frame is (again) the running one. For the running frame these are
the current values; for a caller they are what the callee guarantees at its `ret`. `lo` (callers
only): the operand-stack base of the frame above — the stack does not get shorter than that
while the caller waits, in particular not shorter than the heights its handlers recorded. -/
def InvL (code : Code) (A : List FnAnn) :
    Bool → List Frame → List Base → Nat → Int → List Handler → Nat → Prop
  | _, [], [], _, _, hd, _ => hd = []
  | top, f :: rest, B :: bs, m, mp, hd, lo =>
    ∃ c fa a hd', lookupFn code A f.fn = some (c, fa) ∧ fa.pts[f.ip]? = some (some a) ∧
      B.b + a.h = m ∧ 0 ≤ B.mb ∧ mp = B.mb + a.off ∧ hd = hmap f.fn (rest.length + 1) B a.hs ++ hd' ∧
      (top = false → (∃ k i sp, f.ip = k + 1 ∧ c[k]? = some (i, sp) ∧ isCall i = true) ∧ B.b ≤ lo ∧
        (∀ x tl, a.hs = x :: tl → B.b + x.2.1 ≤ lo)) ∧
      InvL code A false rest bs (B.b + fa.results) B.mb hd' B.b
  | _, [], _ :: _, _, _, _, _ => False
  | _, _ :: _, [], _, _, _, _ => False

/-- Where the running instruction takes its argument count from the stack, the top of the stack
is the constant pushed by the instruction before it. -/
def SiteOK (code : Code) (s : VMState) : Prop :=
  ∀ f rest c i sp n, s.calls = f :: rest → findCode code f.fn = some c → c[f.ip]? = some (i, sp) →
    usesArgc i = true → argcAt c f.ip = some n → ∃ o tl, s.stack = ⟨.int (I64.ofInt n), o⟩ :: tl

/-- The ghost-annotated invariant: `bs` are the bases of the activations, top first. -/
def InvB (code : Code) (A : List FnAnn) (s : VMState) (bs : List Base) : Prop :=
  InvL code A true s.calls bs s.stack.length s.mp s.handlers 0 ∧ SiteOK code s

/-- The height invariant of a VM state with respect to a verified annotation: for every frame the
operand-stack height, the memory pointer and the installed handlers are the ones recorded for
its instruction index (relative to the activation's base). -/
def Inv (code : Code) (A : List FnAnn) (s : VMState) : Prop := ∃ bs, InvB code A s bs

theorem InvL_top {code : Code} {A : List FnAnn} {fs : List Frame} {bs : List Base}
    {m : Nat} {mp : Int} {hd : List Handler} {lo lo' : Nat} (h : InvL code A false fs bs m mp hd lo) :
    InvL code A true fs bs m mp hd lo' := by
  cases fs with
  | nil => cases bs <;> simp_all [InvL]
  | cons f rest =>
    cases bs with
    | nil => simp [InvL] at h
    | cons B bs =>
      simp only [InvL] at h ⊢
      obtain ⟨c, fa, a, hd', h1, h2, h3, h4, h5, h6, _, h8⟩ := h
      exact ⟨c, fa, a, hd', h1, h2, h3, h4, h5, h6, by simp, h8⟩

theorem InvL_length {code : Code} {A : List FnAnn} :
    ∀ {top : Bool} {fs : List Frame} {bs : List Base} {m : Nat} {mp : Int} {hd : List Handler} {lo : Nat},
      InvL code A top fs bs m mp hd lo → bs.length = fs.length
  | _, [], [], _, _, _, _, _ => rfl
  | _, [], _ :: _, _, _, _, _, h => by simp [InvL] at h
  | _, _ :: _, [], _, _, _, _, h => by simp [InvL] at h
  | top, f :: rest, B :: bs, m, mp, hd, lo, h => by
    simp only [InvL] at h
    obtain ⟨c, fa, a, hd', _, _, _, _, _, _, _, h8⟩ := h
    simp [InvL_length h8]

/-- The unpacked invariant of the running frame. -/
structure Ctx (code : Code) (A : List FnAnn) (s : VMState) (f : Frame)
    (rest : List Frame) (c : FnCode) (fa : FnAnn) (a : Ann) (B : Base) (bs : List Base) (hd' : List Handler) : Prop where
  hv : verify code A = true
  calls : s.calls = f :: rest
  look : lookupFn code A f.fn = some (c, fa)
  pt : fa.pts[f.ip]? = some (some a)
  hh : B.b + a.h = s.stack.length
  mb : 0 ≤ B.mb
  mp : s.mp = B.mb + a.off
  hd : s.handlers = hmap f.fn (rest.length + 1) B a.hs ++ hd'
  below : InvL code A false rest bs (B.b + fa.results) B.mb hd' B.b

theorem InvB.unpack {code : Code} {A : List FnAnn} {s : VMState} {bs0 : List Base} (hv : verify code A = true)
    (h : InvB code A s bs0) {f : Frame} {rest : List Frame} (hc : s.calls = f :: rest) :
    ∃ c fa a B bs hd', bs0 = B :: bs ∧ Ctx code A s f rest c fa a B bs hd' := by
  obtain ⟨hl, _⟩ := h
  rw [hc] at hl
  cases bs0 with
  | nil => simp [InvL] at hl
  | cons B bs =>
    simp only [InvL] at hl
    obtain ⟨c, fa, a, hd', h1, h2, h3, h4, h5, h6, _, h8⟩ := hl
    exact ⟨c, fa, a, B, bs, hd', rfl, hv, hc, h1, h2, h3, h4, h5, h6, h8⟩

theorem siteOK_of {code : Code} {s' : VMState} {f : Frame} {rest : List Frame} {c : FnCode} {ip' : Nat}
    (hc : s'.calls = { f with ip := ip' } :: rest) (hf : findCode code f.fn = some c)
    (h : ∀ i sp n, c[ip']? = some (i, sp) → usesArgc i = true → argcAt c ip' = some n →
      ∃ o tl, s'.stack = ⟨.int (I64.ofInt n), o⟩ :: tl) : SiteOK code s' := by
  intro f' rest' c' i sp n hc' hf' hi hu ha
  rw [hc] at hc'
  simp only [List.cons.injEq] at hc'
  obtain ⟨rfl, rfl⟩ := hc'
  simp only at hf' hi ha
  rw [hf] at hf'; cases hf'
  exact h i sp n hi hu ha

/-- Lemma A: a step that stays in the running frame keeps the bases. -/
theorem Ctx.intra {code : Code} {A : List FnAnn} {s : VMState} {f : Frame}
    {rest : List Frame} {c : FnCode} {fa : FnAnn} {a : Ann} {B : Base} {bs : List Base} {hd' : List Handler}
    (cx : Ctx code A s f rest c fa a B bs hd') {s' : VMState} {ip' : Nat} {a' : Ann}
    (hc : s'.calls = { f with ip := ip' } :: rest) (hp : fa.pts[ip']? = some (some a'))
    (hh : B.b + a'.h = s'.stack.length) (hm : s'.mp = B.mb + a'.off)
    (hd : s'.handlers = hmap f.fn (rest.length + 1) B a'.hs ++ hd')
    (hs : ∀ i sp n, c[ip']? = some (i, sp) → usesArgc i = true → argcAt c ip' = some n →
      ∃ o tl, s'.stack = ⟨.int (I64.ofInt n), o⟩ :: tl) :
    InvB code A s' (B :: bs) := by
  refine ⟨?_, siteOK_of hc (lookup_findCode _ _ _ _ _ cx.look) hs⟩
  rw [hc]
  simp only [InvL]
  exact ⟨c, fa, a', hd', cx.look, hp, hh, cx.mb, hm, hd, by simp, cx.below⟩

/-! ## Static argument counts -/

theorem argcAt_succ {c : FnCode} {k n : Nat} (h : argcAt c (k + 1) = some n) :
    ∃ v sp, c[k]? = some (.copyPush (.int v), sp) ∧ 0 ≤ v ∧ v < 2147483648 ∧ n = v.toNat := by
  simp only [argcAt] at h
  split at h
  · rename_i v sp hk
    split at h
    · rename_i hv
      simp only [Option.some.injEq] at h
      exact ⟨v, sp, hk, hv.1, hv.2, h.symm⟩
    · cases h
  · cases h

theorem argcAt_zero (c : FnCode) : argcAt c 0 = none := rfl

theorem argcAt_lt {c : FnCode} {ip n : Nat} (h : argcAt c ip = some n) : n < 2147483648 := by
  cases ip with
  | zero => simp [argcAt_zero] at h
  | succ k =>
    obtain ⟨v, _, _, h0, h1, rfl⟩ := argcAt_succ h
    omega

theorem ofInt_toNat (n : Nat) (h : n < 2147483648) : (I64.ofInt (n : Int)).toNat = n := by
  simp only [I64.ofInt, BitVec.toNat_ofInt]
  omega

theorem site_fallthrough {c : FnCode} {k n : Nat} {i : RInstr} {sp : Span} (hk : c[k]? = some (i, sp))
    (hne : ∀ v, i ≠ .copyPush (.int v)) (h : argcAt c (k + 1) = some n) : False := by
  obtain ⟨v, sp', hk', _⟩ := argcAt_succ h
  rw [hk] at hk'
  simp only [Option.some.injEq, Prod.mk.injEq] at hk'
  exact hne v hk'.1

theorem isTarget_of {c : FnCode} {k l : Nat} {i : RInstr} {sp : Span} (hk : c[k]? = some (i, sp))
    (hi : i = .jump l ∨ i = .jumpIfFalse l ∨ ∃ fn, i = .setTry fn l) : isTarget c l = true := by
  simp only [isTarget, List.any_eq_true]
  refine ⟨(i, sp), List.mem_of_getElem? hk, ?_⟩
  rcases hi with rfl | rfl | ⟨fn, rfl⟩ <;> simp

theorem succs_site {sig : String → Option (Nat × Nat)} {fn : String} {c : FnCode} {results r ip : Nat} {a : Ann}
    {i : RInstr} {pops : Nat} {l : List (Nat × Ann)} (hu : usesArgc i = true)
    (h : succs sig fn c results r ip a i = some (pops, l)) : isTarget c ip = false := by
  cases i <;> simp only [usesArgc, Bool.false_eq_true] at hu
  all_goals
    simp only [succs] at h
    split at h
    · split at h
      · rename_i hh; exact hh.2
      · cases h
    · cases h

/-- A jump target that carries an annotation is not a dynamic-count instruction. -/
theorem site_target {code : Code} {A : List FnAnn} (hv : verify code A = true) {fn : String} {c : FnCode}
    {fa : FnAnn} (hl : lookupFn code A fn = some (c, fa)) {l : Nat} {a' : Ann}
    (hp : fa.pts[l]? = some (some a')) {i : RInstr} {sp : Span} (hi : c[l]? = some (i, sp))
    (hu : usesArgc i = true) (ht : isTarget c l = true) : False := by
  obtain ⟨i', sp', pops, l', po⟩ := verify_point hv hl hp
  have := po.instr
  rw [hi] at this
  simp only [Option.some.injEq, Prod.mk.injEq] at this
  obtain ⟨rfl, rfl⟩ := this
  have := succs_site hu po.succ
  rw [ht] at this
  cases this

theorem step_copyPush_int (code : Code) (lim : Limits) (s : VMState) (v : Int) (sp : Span) :
    step code lim s (.copyPush (.int v)) sp = .next (advance (push1 s (.int (I64.ofInt v)))) := by
  simp [step, pvalToVal]

theorem succs_simple {sig : String → Option (Nat × Nat)} {fn : String} {c : FnCode} {results r ip : Nat} {a : Ann}
    {i : RInstr} {p q : Nat} (hse : simpleEff i = some (p, q)) :
    succs sig fn c results r ip a i =
      if p ≤ a.h then some (p, [(ip + 1, { a with h := a.h - p + q })]) else none := by
  cases i <;> simp only [simpleEff, reduceCtorEq, Option.some.injEq, Prod.mk.injEq] at hse
  all_goals obtain ⟨rfl, rfl⟩ := hse
  all_goals simp [succs, simpleEff]

/-! ## Exception dispatch into a handler of the running activation -/

theorem Ctx.dispatch_same {code : Code} {A : List FnAnn} {s : VMState} {f : Frame}
    {rest : List Frame} {c : FnCode} {fa : FnAnn} {a : Ann} {B : Base} {bs : List Base} {hd' : List Handler}
    (cx : Ctx code A s f rest c fa a B bs hd') {pops : Nat}
    (hh : handlerOK fa.pts a pops = true) (he : handlerEntryOK c a = true) (hne : a.hs ≠ [])
    {s' : VMState} (hk1 : s'.handlers = s.handlers)
    (hcalls : s'.calls = s.calls ∨ s'.calls = advCalls s.calls)
    (hlen : s.stack.length ≤ s'.stack.length + pops)
    {msg : String} {tsp : Span} {s'' : VMState} (ht : throwTo s' msg tsp = .cont s'') :
    InvB code A s'' (B :: bs) := by
  cases hhs : a.hs with
  | nil => exact absurd hhs hne
  | cons lh hs' =>
    obtain ⟨l, H, o⟩ := lh
    simp only [handlerOK, hhs, Bool.and_eq_true, decide_eq_true_eq] at hh
    simp only [handlerEntryOK, hhs] at he
    obtain ⟨hd0, hrest, c0, below, ob, st', hhd, hcs, rfl⟩ := throwTo_cont ht
    have hhd0 : hd0 = ⟨⟨f.fn, l⟩, rest.length + 1, B.b + H, B.mb + (o : Int)⟩ := by
      rw [hk1, cx.hd, hhs] at hhd
      simp only [hmap, List.map_cons, List.cons_append, List.cons.injEq] at hhd
      exact hhd.1.symm
    subst hhd0
    have htop : ∃ ip0, s'.calls = { f with ip := ip0 } :: rest := by
      rcases hcalls with h | h
      · exact ⟨f.ip, by rw [h, cx.calls]⟩
      · exact ⟨f.ip + 1, by rw [h, cx.calls]; rfl⟩
    obtain ⟨ip0, htop⟩ := htop
    have hbelow : below = rest := by
      rw [htop] at hcs
      simp only [List.length_cons, Nat.sub_self, List.drop_zero, List.cons.injEq] at hcs
      exact hcs.2.symm
    subst hbelow
    have hle := cx.hh
    refine cx.intra (s' := push1 { s' with calls := ⟨f.fn, l⟩ :: below, stack := s'.stack.drop (s'.stack.length - (B.b + H)), mp := B.mb + (o : Int), st := st' } ob) (ip' := l)
      rfl hh.1 ?_ ?_ ?_ ?_
    · simp only [push1_stack, List.length_cons, List.length_drop]
      omega
    · simp only [push1_mp]
    · simp only [push1_handlers]; rw [hk1, cx.hd, hhs]
    · intro i sp n hi hu _
      rw [hi] at he
      simp only [Bool.not_eq_true'] at he
      rw [he] at hu; cases hu

/-! ## Exception dispatch into a handler of any activation -/

/-- If the handler stack that the callers guarantee is non-empty, its top entry belongs to one of
them; unwinding to that caller and entering its catch label re-establishes the invariant. -/
theorem InvL.handler_target {code : Code} {A : List FnAnn} (hv : verify code A = true) :
    ∀ {fs : List Frame} {bs : List Base} {m : Nat} {mp : Int} {hd : List Handler} {lo : Nat}
      {hd0 : Handler} {hrest : List Handler},
      InvL code A false fs bs m mp hd lo → hd = hd0 :: hrest →
      ∃ pre fk restk prebs Bk bsk, fs = pre ++ fk :: restk ∧ bs = prebs ++ Bk :: bsk ∧ prebs.length = pre.length
        ∧ hd0.callDepth = restk.length + 1 ∧ hd0.stackHeight ≤ lo ∧
        ∀ s'' : VMState, s''.calls = hd0.target :: restk → s''.stack.length = hd0.stackHeight + 1 →
          s''.mp = hd0.mp → s''.handlers = hd → InvB code A s'' (Bk :: bsk)
  | [], [], _, _, hd, _, hd0, hrest, h, he => by
    simp only [InvL] at h
    rw [h] at he; cases he
  | [], _ :: _, _, _, _, _, _, _, h, _ => by simp [InvL] at h
  | _ :: _, [], _, _, _, _, _, _, h, _ => by simp [InvL] at h
  | f :: rest, B :: bs, m, mp, hd, lo, hd0, hrest, h, he => by
    simp only [InvL] at h
    obtain ⟨c, fa, a, hd', hlk, hpt, hm, hmb, hmp, hhd, hlow, hbelow⟩ := h
    obtain ⟨_, hlo1, hlo2⟩ := hlow trivial
    cases hhs : a.hs with
    | nil =>
      rw [hhs] at hhd
      simp only [hmap, List.map_nil, List.nil_append] at hhd
      subst hhd
      obtain ⟨pre, fk, restk, prebs, Bk, bsk, e1, e2, e3, e4, e5, e6⟩ := InvL.handler_target hv hbelow he
      exact ⟨f :: pre, fk, restk, B :: prebs, Bk, bsk, by rw [e1]; rfl, by rw [e2]; rfl, by simp [e3], e4,
        by omega, e6⟩
    | cons lh tl =>
      obtain ⟨l, H, o⟩ := lh
      rw [hhs] at hhd
      have hhd0 : hd0 = ⟨⟨f.fn, l⟩, rest.length + 1, B.b + H, B.mb + (o : Int)⟩ := by
        rw [hhd] at he
        simp only [hmap, List.map_cons, List.cons_append, List.cons.injEq] at he
        exact he.1.symm
      subst hhd0
      refine ⟨[], f, rest, [], B, bs, rfl, rfl, rfl, rfl, by have := hlo2 _ _ hhs; simpa using this, ?_⟩
      intro s'' hc hlen hmp' hhd'
      obtain ⟨i, sp, pops, l', po⟩ := verify_point hv hlk hpt
      have hh := po.handler
      have hen := po.entry
      simp only [handlerOK, hhs, Bool.and_eq_true, decide_eq_true_eq] at hh
      simp only [handlerEntryOK, hhs] at hen
      refine ⟨?_, siteOK_of (f := f) (ip' := l) hc (lookup_findCode _ _ _ _ _ hlk) ?_⟩
      · rw [hc]
        simp only [InvL]
        refine ⟨c, fa, _, hd', hlk, hh.1, by simp only at hlen ⊢; omega, hmb, by simpa using hmp', ?_, by simp, hbelow⟩
        rw [hhd', hhd, ← hhs]
      · intro i' sp' n hi' hu _
        rw [hi'] at hen
        simp only [Bool.not_eq_true'] at hen
        rw [hen] at hu; cases hu

/-- How the list of activation bases changes in one step: one pushed, or some popped (none:
unchanged; one: `ret`; several: unwinding to a handler). -/
def Rel (bs0 bs' : List Base) : Prop := (∃ Bn, bs' = Bn :: bs0) ∨ (∃ pre, bs0 = pre ++ bs')

theorem throwTo_cont_of {s' : VMState} {msg : String} {tsp : Span} {hd0 : Handler} {hrest : List Handler}
    {c0 : Frame} {below : List Frame} (hh : s'.handlers = hd0 :: hrest)
    (hd : s'.calls.drop (s'.calls.length - hd0.callDepth) = c0 :: below) :
    ∃ s'', throwTo s' msg tsp = .cont s'' := by
  unfold throwTo
  simp only [hh, hd]
  exact ⟨_, rfl⟩

/-- What the exception dispatch does from a state that satisfies the invariant: either no handler
is installed at all (the run ends with `UncaughtThrow`), or a handler starts — and then the
invariant holds in the state in which it starts. -/
def DispatchOK (code : Code) (A : List FnAnn) (bs0 : List Base) (s' : VMState) (msg : String) (tsp : Span) : Prop :=
  (s'.handlers = [] ∨ ∃ s'', throwTo s' msg tsp = .cont s'')
    ∧ ∀ s'', throwTo s' msg tsp = .cont s'' → ∃ bs', InvB code A s'' bs' ∧ Rel bs0 bs'

/-- Exception dispatch from the running instruction: the handler is the innermost one of the
innermost activation that has one. -/
theorem Ctx.dispatch {code : Code} {A : List FnAnn} {s : VMState} {f : Frame}
    {rest : List Frame} {c : FnCode} {fa : FnAnn} {a : Ann} {B : Base} {bs : List Base} {hd' : List Handler}
    (cx : Ctx code A s f rest c fa a B bs hd') {pops : Nat}
    (hh : handlerOK fa.pts a pops = true) (he : handlerEntryOK c a = true) (hpops : pops ≤ a.h)
    {s' : VMState} (hk1 : s'.handlers = s.handlers)
    (hcalls : s'.calls = s.calls ∨ s'.calls = advCalls s.calls)
    (hlen : s.stack.length ≤ s'.stack.length + pops)
    (msg : String) (tsp : Span) : DispatchOK code A (B :: bs) s' msg tsp := by
  have htop : ∃ ip0, s'.calls = { f with ip := ip0 } :: rest := by
    rcases hcalls with h | h
    · exact ⟨f.ip, by rw [h, cx.calls]⟩
    · exact ⟨f.ip + 1, by rw [h, cx.calls]; rfl⟩
  obtain ⟨ip0, htop⟩ := htop
  by_cases hne : a.hs = []
  · have hhd1 : s'.handlers = hd' := by rw [hk1, cx.hd, hne]; simp [hmap]
    cases hhd2 : hd' with
    | nil => exact ⟨Or.inl (by rw [hhd1, hhd2]), fun s'' ht => by
        obtain ⟨hd0, hrest, _, _, _, _, hhd, _⟩ := throwTo_cont ht
        rw [hhd1, hhd2] at hhd; cases hhd⟩
    | cons hd0 hrest =>
      obtain ⟨pre, fk, restk, prebs, Bk, bsk, e1, e2, e3, e4, e5, e6⟩ := InvL.handler_target cx.hv cx.below hhd2
      have hdrop : s'.calls.drop (s'.calls.length - hd0.callDepth) = fk :: restk := by
        rw [htop, e1, e4]
        have : (({ f with ip := ip0 } : Frame) :: (pre ++ fk :: restk)).length - (restk.length + 1) = pre.length + 1 := by
          simp; omega
        rw [this]
        simp only [List.drop_succ_cons, List.drop_left]
      refine ⟨Or.inr (throwTo_cont_of (by rw [hhd1, hhd2]) hdrop), ?_⟩
      intro s'' ht
      obtain ⟨hd0', hrest', c0, below, ob, st', hhd, hcs, rfl⟩ := throwTo_cont ht
      rw [hhd1, hhd2] at hhd
      simp only [List.cons.injEq] at hhd
      obtain ⟨rfl, rfl⟩ := hhd
      rw [hdrop] at hcs
      simp only [List.cons.injEq] at hcs
      obtain ⟨rfl, rfl⟩ := hcs
      have hle := cx.hh
      refine ⟨Bk :: bsk, e6 _ rfl ?_ rfl (by simp only [push1_handlers]; rw [hhd1, hhd2]),
        Or.inr ⟨B :: prebs, by rw [e2]; rfl⟩⟩
      simp only [push1_stack, List.length_cons, List.length_drop]
      omega
  · refine ⟨Or.inr ?_, fun s'' ht => ⟨B :: bs, cx.dispatch_same hh he hne hk1 hcalls hlen ht, Or.inr ⟨[], rfl⟩⟩⟩
    cases hhs : a.hs with
    | nil => exact absurd hhs hne
    | cons lh tl =>
      refine throwTo_cont_of (hd0 := ⟨⟨f.fn, lh.1⟩, rest.length + 1, B.b + lh.2.1, B.mb + (lh.2.2 : Int)⟩)
        (hrest := hmap f.fn (rest.length + 1) B tl ++ hd')
        (c0 := { f with ip := ip0 }) (below := rest) (by rw [hk1, cx.hd, hhs]; simp [hmap]) ?_
      rw [htop]; simp

/-! ## Soundness, instruction by instruction -/

/-- What soundness says about one answer of `step`: a normal step re-establishes the invariant;
a throw that is dispatched to a handler re-establishes it in the state in which the handler
starts; a panic is none of the four excluded ones. -/
def Sound (code : Code) (A : List FnAnn) (bs0 : List Base) : StepRes → Prop :=
  Sat3 (fun s' => ∃ bs', InvB code A s' bs' ∧ Rel bs0 bs')
    (fun x s' => ∀ msg tsp, x = .throw msg tsp → DispatchOK code A bs0 s' msg tsp)
    (fun why => why ≠ "stack underflow" ∧ NoBad why)

theorem _root_.HmsProofs.Lemmas.VMStep.Sat3.mono' {N N' : VMState → Prop} {I I' : Interrupt → VMState → Prop}
    {P P' : String → Prop} {r : StepRes}
    (h : Sat3 N I P r) (hN : ∀ s, r = .next s → N s → N' s) (hI : ∀ i s, r = .intr i s → I i s → I' i s)
    (hP : ∀ w s, r = .panic w s → P w → P' w) : Sat3 N' I' P' r := by
  cases r with
  | next s => exact hN s rfl h
  | intr i s => exact hI i s rfl h
  | panic w s => exact hP w s rfl h

section
variable {code : Code} {A : List FnAnn} {s : VMState} {f : Frame}
  {rest : List Frame} {c : FnCode} {fa : FnAnn} {a : Ann} {B : Base} {bs : List Base} {hd' : List Handler}
  {i : RInstr} {sp : Span} {pops : Nat} {l : List (Nat × Ann)} {t : Nat}

theorem Ctx.adv (cx : Ctx code A s f rest c fa a B bs hd') :
    advCalls s.calls = { f with ip := f.ip + 1 } :: rest := by
  rw [cx.calls]; rfl

theorem same {s' : VMState} (h : InvB code A s' (B :: bs)) : ∃ bs', InvB code A s' bs' ∧ Rel (B :: bs) bs' :=
  ⟨_, h, Or.inr ⟨[], rfl⟩⟩

theorem simple_sound (cx : Ctx code A s f rest c fa a B bs hd')
    (po : PointOK code A f.fn c fa f.ip a i sp pops l) (lim : Limits) {p q : Nat}
    (hse : simpleEff i = some (p, q)) : Sound code A (B :: bs) (step code lim s i sp) := by
  have hsucc := po.succ
  rw [succs_simple hse] at hsucc
  split at hsucc
  · rename_i hp
    simp only [Option.some.injEq, Prod.mk.injEq] at hsucc
    obtain ⟨rfl, rfl⟩ := hsucc
    have hflow := po.flow (f.ip + 1, { a with h := a.h - p + q }) (by simp)
    have hle := cx.hh
    refine (simple_spec code lim s i sp p q hse).mono' ?_ ?_ ?_
    · rintro s' hst ⟨h2, h3, h4, h5, h6⟩
      refine same (cx.intra (by rw [h3, cx.adv]) hflow (by simp only; omega) (by rw [h5, cx.mp]) (by rw [h4, cx.hd]) ?_)
      intro i' sp' n hi' hu hn
      -- the only way to fall through onto a dynamic-count instruction is from its `copyPush`
      obtain ⟨v, spv, hk, hv0, hv1, rfl⟩ := argcAt_succ hn
      have := po.instr
      rw [hk] at this
      simp only [Option.some.injEq, Prod.mk.injEq] at this
      obtain ⟨rfl, rfl⟩ := this
      rw [step_copyPush_int] at hst
      simp only [StepRes.next.injEq] at hst
      subst hst
      exact ⟨none, s.stack, by simp [Int.toNat_of_nonneg hv0]⟩
    · rintro x s' _ ⟨h1, h2, h3, h4, h5, h6, h7⟩ msg tsp _
      exact cx.dispatch po.handler po.entry hp h5 (Or.inl h4) h2 msg tsp
    · rintro why _ _ ⟨h1, h2⟩
      exact ⟨fun e => by have := h1 e; omega, h2⟩
  · cases hsucc

/-- Falling through from an instruction that is not `copyPush (int _)` never lands on a
dynamic-count instruction. -/
theorem site_ft (hi : c[f.ip]? = some (i, sp)) (hne : ∀ v, i ≠ .copyPush (.int v)) {stk : List SVal} :
    ∀ i' sp' n, c[f.ip + 1]? = some (i', sp') → usesArgc i' = true → argcAt c (f.ip + 1) = some n →
      ∃ o tl, stk = ⟨.int (I64.ofInt n), o⟩ :: tl := by
  intro i' sp' n _ _ hn
  exact (site_fallthrough hi hne hn).elim

/-- A jump never lands on a dynamic-count instruction. -/
theorem site_tg (cx : Ctx code A s f rest c fa a B bs hd') (hi : c[f.ip]? = some (i, sp))
    (hj : i = .jump t ∨ i = .jumpIfFalse t ∨ ∃ fn, i = .setTry fn t) {a' : Ann}
    (hp : fa.pts[t]? = some (some a')) {stk : List SVal} :
    ∀ i' sp' n, c[t]? = some (i', sp') → usesArgc i' = true → argcAt c t = some n →
      ∃ o tl, stk = ⟨.int (I64.ofInt n), o⟩ :: tl := by
  intro i' sp' n hi' hu _
  exact (site_target cx.hv cx.look hp hi' hu (isTarget_of hi hj)).elim

theorem jump_sound (cx : Ctx code A s f rest c fa a B bs hd')
    (po : PointOK code A f.fn c fa f.ip a (.jump t) sp pops l) (lim : Limits) :
    Sound code A (B :: bs) (step code lim s (.jump t) sp) := by
  have hsucc := po.succ
  simp only [succs, Option.some.injEq, Prod.mk.injEq] at hsucc
  obtain ⟨rfl, rfl⟩ := hsucc
  have hflow := po.flow (t, a) (by simp)
  rw [step_jump _ _ _ _ _ _ _ cx.calls]
  exact same (cx.intra rfl hflow cx.hh cx.mp cx.hd (site_tg cx po.instr (Or.inl rfl) hflow))

theorem nonempty_of_h (cx : Ctx code A s f rest c fa a B bs hd') (h : 1 ≤ a.h) :
    ∃ x tl, s.stack = x :: tl := by
  have := cx.hh
  cases hs : s.stack with
  | nil => rw [hs] at this; simp at this; omega
  | cons x tl => exact ⟨x, tl, rfl⟩

theorem jumpIfFalse_sound (cx : Ctx code A s f rest c fa a B bs hd')
    (po : PointOK code A f.fn c fa f.ip a (.jumpIfFalse t) sp pops l) (lim : Limits) :
    Sound code A (B :: bs) (step code lim s (.jumpIfFalse t) sp) := by
  have hsucc := po.succ
  simp only [succs] at hsucc
  split at hsucc
  · rename_i hp
    simp only [Option.some.injEq, Prod.mk.injEq] at hsucc
    obtain ⟨rfl, rfl⟩ := hsucc
    have hf1 := po.flow (f.ip + 1, { a with h := a.h - 1 }) (by simp)
    have hf2 := po.flow (t, { a with h := a.h - 1 }) (by simp)
    obtain ⟨x, tl, hs⟩ := nonempty_of_h cx hp
    have hle := cx.hh
    refine (step_jumpIfFalse code lim s t sp x tl hs).mono' ?_ ?_ ?_
    · rintro s' _ ⟨h1, ⟨h2, h3, h4⟩, h5⟩
      have hc : B.b + (a.h - 1) = s'.stack.length := by
        rw [h1]; rw [hs] at hle; simp at hle; omega
      rcases h5 with h5 | ⟨f', fr, h5, h6⟩
      · exact same (cx.intra (by rw [h5, cx.adv]) hf1 hc (by rw [h3, cx.mp]) (by rw [h2, cx.hd])
          (site_ft po.instr (by intro v; simp)))
      · rw [cx.calls] at h5
        simp only [List.cons.injEq] at h5
        obtain ⟨rfl, rfl⟩ := h5
        exact same (cx.intra h6 hf2 hc (by rw [h3, cx.mp]) (by rw [h2, cx.hd])
          (site_tg cx po.instr (Or.inr (Or.inl rfl)) hf2))
    · intro _ _ _ h; exact h.elim
    · intro _ _ _ h; exact h
  · cases hsucc

theorem getVar_sound (cx : Ctx code A s f rest c fa a B bs hd') {k : Nat}
    (po : PointOK code A f.fn c fa f.ip a (.getVar k) sp pops l) (lim : Limits)
    (hlim : s.mp < (lim.memory : Int)) :
    Sound code A (B :: bs) (step code lim s (.getVar k) sp) := by
  have hsucc := po.succ
  simp only [succs] at hsucc
  split at hsucc
  · rename_i hk
    simp only [Option.some.injEq, Prod.mk.injEq] at hsucc
    obtain ⟨rfl, rfl⟩ := hsucc
    have hf1 := po.flow (f.ip + 1, { a with h := a.h + 1 }) (by simp)
    have hmp := cx.mp
    have hmb := cx.mb
    have hle := cx.hh
    rcases step_getVar code lim s k sp with ⟨h1, _⟩ | ⟨_, ⟨v, _, h2⟩ | ⟨_, h2⟩⟩
    · exact absurd ⟨by omega, by omega⟩ h1
    · rw [h2]
      exact same (cx.intra (by simp [cx.adv]) hf1 (by simp; omega) (by simp [cx.mp]) (by simp [cx.hd])
        (site_ft po.instr (by intro v; simp)))
    · rw [h2]; simp [Sound, Sat3, NoBad]
  · cases hsucc

theorem setVar_sound (cx : Ctx code A s f rest c fa a B bs hd') {k : Nat}
    (po : PointOK code A f.fn c fa f.ip a (.setVar k) sp pops l) (lim : Limits)
    (hlim : s.mp < (lim.memory : Int)) :
    Sound code A (B :: bs) (step code lim s (.setVar k) sp) := by
  have hsucc := po.succ
  simp only [succs] at hsucc
  split at hsucc
  · rename_i hk
    simp only [Option.some.injEq, Prod.mk.injEq] at hsucc
    obtain ⟨rfl, rfl⟩ := hsucc
    have hf1 := po.flow (f.ip + 1, { a with h := a.h - 1 }) (by simp)
    have hmp := cx.mp
    have hmb := cx.mb
    have hle := cx.hh
    obtain ⟨x, tl, hs⟩ := nonempty_of_h cx hk.2
    rcases step_setVar code lim s k sp with ⟨h0, _⟩ | ⟨x', tl', hs', ⟨h1, _⟩ | ⟨_, h2⟩⟩
    · rw [hs] at h0; cases h0
    · exact absurd ⟨by omega, by omega⟩ h1
    · rw [hs] at hs'; cases hs'
      rw [h2]
      refine same (cx.intra (by simp [memSet, cx.adv]) hf1 ?_ (by simp [memSet, cx.mp]) (by simp [memSet, cx.hd])
        (site_ft po.instr (by intro v; simp)))
      rw [hs] at hle; simp at hle
      simp [memSet]; omega
  · cases hsucc

theorem setTry_sound (cx : Ctx code A s f rest c fa a B bs hd') {fn : String}
    (po : PointOK code A f.fn c fa f.ip a (.setTry fn t) sp pops l) (lim : Limits) :
    Sound code A (B :: bs) (step code lim s (.setTry fn t) sp) := by
  have hsucc := po.succ
  simp only [succs] at hsucc
  split at hsucc
  · rename_i hfn
    simp only [Option.some.injEq, Prod.mk.injEq] at hsucc
    obtain ⟨rfl, rfl⟩ := hsucc
    have hf1 := po.flow (f.ip + 1, { a with hs := (t, a.h, a.off) :: a.hs }) (by simp)
    rw [step_setTry]
    refine same (cx.intra (by simp [cx.adv]) hf1 (by simpa using cx.hh) (by simp [cx.mp]) ?_
      (site_ft po.instr (by intro v; simp)))
    simp [hmap, cx.hd, hfn, cx.calls, cx.hh, cx.mp]
  · cases hsucc

theorem popTry_sound (cx : Ctx code A s f rest c fa a B bs hd')
    (po : PointOK code A f.fn c fa f.ip a .popTry sp pops l) (lim : Limits) :
    Sound code A (B :: bs) (step code lim s .popTry sp) := by
  have hsucc := po.succ
  simp only [succs] at hsucc
  split at hsucc
  · rename_i lh hs' hhs
    simp only [Option.some.injEq, Prod.mk.injEq] at hsucc
    obtain ⟨rfl, rfl⟩ := hsucc
    have hf1 := po.flow (f.ip + 1, { a with hs := hs' }) (by simp)
    have hh : s.handlers = ⟨⟨f.fn, lh.1⟩, rest.length + 1, B.b + lh.2.1, B.mb + (lh.2.2 : Int)⟩
        :: (hmap f.fn (rest.length + 1) B hs' ++ hd') := by
      rw [cx.hd, hhs]; simp [hmap]
    rw [step_popTry _ _ _ _ _ _ hh]
    exact same (cx.intra (by simp [cx.adv]) hf1 (by simpa using cx.hh) (by simp [cx.mp]) (by simp)
      (site_ft po.instr (by intro v; simp)))
  · cases hsucc

theorem addMp_sound (cx : Ctx code A s f rest c fa a B bs hd') {n : Int}
    (po : PointOK code A f.fn c fa f.ip a (.addMp n) sp pops l) (lim : Limits) :
    Sound code A (B :: bs) (step code lim s (.addMp n) sp) := by
  have hsucc := po.succ
  simp only [succs] at hsucc
  split at hsucc
  · rename_i hn
    simp only [Option.some.injEq, Prod.mk.injEq] at hsucc
    obtain ⟨rfl, rfl⟩ := hsucc
    have hf1 := po.flow (f.ip + 1, { a with off := ((a.off : Int) + n).toNat }) (by simp)
    rcases step_addMp code lim s n sp with ⟨_, h2⟩ | ⟨_, msg, h2⟩
    · rw [h2]
      refine same (cx.intra (by simp [cx.adv]) hf1 (by simpa using cx.hh) ?_ (by simp [cx.hd])
        (site_ft po.instr (by intro v; simp)))
      simp only [advance_mp]
      rw [cx.mp, Int.toNat_of_nonneg hn]; omega
    · rw [h2]
      intro msg' tsp h; cases h
  · cases hsucc

theorem throw_sound (cx : Ctx code A s f rest c fa a B bs hd')
    (po : PointOK code A f.fn c fa f.ip a .throw sp pops l) (lim : Limits) :
    Sound code A (B :: bs) (step code lim s .throw sp) := by
  have hsucc := po.succ
  simp only [succs] at hsucc
  split at hsucc
  · rename_i hp
    simp only [Option.some.injEq, Prod.mk.injEq] at hsucc
    obtain ⟨rfl, rfl⟩ := hsucc
    obtain ⟨x, tl, hs⟩ := nonempty_of_h cx hp
    refine (step_throw code lim s sp x tl hs).mono' ?_ ?_ ?_
    · intro _ _ h; exact h.elim
    · rintro x' s' _ ⟨h1, ⟨h2, h3, _⟩, h5⟩ msg tsp _
      exact cx.dispatch po.handler po.entry hp h2 h5.symm (by rw [h1, hs]; simp) msg tsp
    · intro _ _ _ h; exact h
  · cases hsucc

theorem ret_sound (cx : Ctx code A s f rest c fa a B bs hd')
    (po : PointOK code A f.fn c fa f.ip a .ret sp pops l) (lim : Limits) :
    Sound code A (B :: bs) (step code lim s .ret sp) := by
  have hsucc := po.succ
  simp only [succs] at hsucc
  split at hsucc
  · rename_i hr
    obtain ⟨h1, h2, h3⟩ := hr
    rw [step_ret]
    have hcalls : ({ s with calls := s.calls.tail } : VMState).calls = rest := by simp [cx.calls]
    have hhd : s.handlers = hd' := by rw [cx.hd, h3]; simp [hmap]
    have hmp : s.mp = B.mb := by rw [cx.mp, h2]; simp
    have hb : InvL code A false rest bs s.stack.length s.mp s.handlers B.b := by
      rw [hhd, hmp, ← cx.hh, h1]
      exact cx.below
    refine ⟨bs, ⟨by rw [hcalls]; exact InvL_top hb, ?_⟩, Or.inr ⟨[B], rfl⟩⟩
    -- the caller resumes right after a call instruction, which is not a `copyPush`
    intro g rest' cg i' sp' n hc' hf' hi' hu hn
    rw [hcalls] at hc'
    subst hc'
    cases bs with
    | nil => simp [InvL] at hb
    | cons Bg bs' =>
      simp only [InvL] at hb
      obtain ⟨cg', fg, ag, _, hlk, _, _, _, _, _, hret, _⟩ := hb
      obtain ⟨⟨k, ik, spk, hk1, hk2, hk3⟩, _⟩ := hret trivial
      have := lookup_findCode _ _ _ _ _ hlk
      rw [hf'] at this; cases this
      rw [hk1] at hn
      refine (site_fallthrough hk2 ?_ hn).elim
      intro v e; rw [e] at hk3; cases hk3
  · cases hsucc

/-- The recorded height of the innermost handler stays below the stack after `pops` pops. -/
theorem handler_region (hh : handlerOK fa.pts a pops = true) :
    ∀ x tl, a.hs = x :: tl → x.2.1 + pops ≤ a.h := by
  intro x tl hx
  obtain ⟨l', H, o⟩ := x
  simp only [handlerOK, hx, Bool.and_eq_true, decide_eq_true_eq] at hh
  exact hh.2

/-- Lemma B: entering a function. `d`: operands removed before the callee starts (0 for
`callImm`, 2 for `callVal`). -/
theorem Ctx.call (cx : Ctx code A s f rest c fa a B bs hd') (hi : c[f.ip]? = some (i, sp))
    (hcall : isCall i = true) {g : String} {cg : FnCode} {fg : FnAnn}
    (hg : lookupFn code A g = some (cg, fg)) {d : Nat} {s' : VMState} {a' : Ann}
    (hc : s'.calls = ⟨g, 0⟩ :: { f with ip := f.ip + 1 } :: rest)
    (hlen : s'.stack.length + d = s.stack.length) (hmp : s'.mp = s.mp) (hh : s'.handlers = s.handlers)
    (hd : d + fg.params ≤ a.h) (hp : fa.pts[f.ip + 1]? = some (some a'))
    (ha1 : a'.h = a.h - (d + fg.params) + fg.results) (ha2 : a'.off = a.off) (ha3 : a'.hs = a.hs)
    (hreg : ∀ x tl, a.hs = x :: tl → x.2.1 + (d + fg.params) ≤ a.h) :
    ∃ bs', InvB code A s' bs' ∧ Rel (B :: bs) bs' := by
  obtain ⟨_, hentry, _⟩ := verify_fn cx.hv hg
  have hle := cx.hh
  have hmb := cx.mb
  have hmpe := cx.mp
  refine ⟨⟨B.b + a.h - d - fg.params, s.mp⟩ :: B :: bs, ⟨?_, ?_⟩, Or.inl ⟨_, rfl⟩⟩
  · rw [hc]
    simp only [InvL]
    refine ⟨cg, fg, _, s.handlers, hg, hentry, by (try dsimp only); omega, by (try dsimp only); omega,
      by simp [hmp], by simp [hmap, hh], by simp, ?_⟩
    refine ⟨c, fa, a', hd', cx.look, hp, by (try dsimp only); rw [ha1]; omega, cx.mb, by rw [ha2]; exact cx.mp,
      by rw [ha3]; exact cx.hd, ?_, cx.below⟩
    intro _
    refine ⟨⟨f.ip, i, sp, rfl, hi, hcall⟩, by (try dsimp only); omega, ?_⟩
    intro x tl hx
    rw [ha3] at hx
    have := hreg x tl hx
    (try dsimp only); omega
  · intro f' rest' c' i' sp' n hc' _ _ _ hn
    rw [hc] at hc'
    simp only [List.cons.injEq] at hc'
    obtain ⟨rfl, _⟩ := hc'
    simp [argcAt_zero] at hn

theorem sigOf_some {g : String} {p q : Nat} (h : sigOf code A g = some (p, q)) :
    ∃ cg fg, lookupFn code A g = some (cg, fg) ∧ fg.params = p ∧ fg.results = q := by
  simp only [sigOf, Option.map_eq_some_iff] at h
  obtain ⟨⟨cg, fg⟩, h1, h2⟩ := h
  simp only [Prod.mk.injEq] at h2
  exact ⟨cg, fg, h1, h2.1, h2.2⟩

theorem callImm_sound (cx : Ctx code A s f rest c fa a B bs hd') {g : String}
    (po : PointOK code A f.fn c fa f.ip a (.callImm g) sp pops l) (lim : Limits) :
    Sound code A (B :: bs) (step code lim s (.callImm g) sp) := by
  have hsucc := po.succ
  simp only [succs] at hsucc
  split at hsucc
  · rename_i p q hsig
    obtain ⟨cg, fg, hg, rfl, rfl⟩ := sigOf_some hsig
    split at hsucc
    · rename_i hp
      simp only [Option.some.injEq, Prod.mk.injEq] at hsucc
      obtain ⟨rfl, rfl⟩ := hsucc
      have hf1 := po.flow (f.ip + 1, { a with h := a.h - fg.params + fg.results }) (by simp)
      rw [step_callImm]
      exact cx.call po.instr rfl hg (d := 0) (by simp [cx.adv]) (by simp) (by simp) (by simp) (by omega) hf1
        (by simp) rfl rfl (by simpa using handler_region po.handler)
    · cases hsucc
  · cases hsucc

end

section
variable {code : Code} {A : List FnAnn} {s : VMState} {f : Frame}
  {rest : List Frame} {c : FnCode} {fa : FnAnn} {a : Ann} {B : Base} {bs : List Base} {hd' : List Handler}
  {i : RInstr} {sp : Span} {pops : Nat} {l : List (Nat × Ann)} {t : Nat}

theorem site_stack (cx : Ctx code A s f rest c fa a B bs hd') (hsite : SiteOK code s)
    (hi : c[f.ip]? = some (i, sp)) (hu : usesArgc i = true) {n : Nat} (hn : argcAt c f.ip = some n) :
    ∃ o tl, s.stack = ⟨.int (I64.ofInt n), o⟩ :: tl ∧ (I64.ofInt (n : Int)).toNat = n :=
  let ⟨o, tl, h⟩ := hsite f rest c i sp n cx.calls (lookup_findCode _ _ _ _ _ cx.look) hi hu hn
  ⟨o, tl, h, ofInt_toNat n (argcAt_lt hn)⟩

theorem hostCall_sound (cx : Ctx code A s f rest c fa a B bs hd') (hsite : SiteOK code s) {name : String}
    (po : PointOK code A f.fn c fa f.ip a (.hostCall name) sp pops l) (lim : Limits) :
    Sound code A (B :: bs) (step code lim s (.hostCall name) sp) := by
  have hsucc := po.succ
  simp only [succs] at hsucc
  split at hsucc
  · rename_i n hn
    split at hsucc
    · rename_i hp
      simp only [Option.some.injEq, Prod.mk.injEq] at hsucc
      obtain ⟨rfl, rfl⟩ := hsucc
      have hf1 := po.flow (f.ip + 1, { a with h := a.h - (1 + n) + hostResults name }) (by simp)
      obtain ⟨o, tl, hs, hargc⟩ := site_stack cx hsite po.instr rfl hn
      have hle := cx.hh
      rw [hs] at hle; simp only [List.length_cons] at hle
      refine (step_hostCall code lim s name sp _ o tl hs).mono' ?_ ?_ ?_
      · rintro s' _ ⟨h1, h2, h3, h4, h5, h6⟩
        rw [hargc] at h2
        exact same (cx.intra (by rw [h3, cx.adv]) hf1 (by simp only; omega) (by rw [h5, cx.mp]) (by rw [h4, cx.hd])
          (site_ft po.instr (by intro v; simp)))
      · rintro x s' _ ⟨h1, h2, h3, h4, h5⟩ msg tsp _
        rw [hargc] at h2
        exact cx.dispatch po.handler po.entry hp.1 h4 (Or.inl h3) (by rw [hs]; simp only [List.length_cons]; omega) msg tsp
      · rintro why _ _ ⟨h1, h2⟩
        rw [hargc] at h1
        exact ⟨fun e => by have := h1 e; omega, h2⟩
    · cases hsucc
  · cases hsucc

theorem spawn_sound {g : String} (lim : Limits) :
    Sound code A (B :: bs) (step code lim s (.spawn g) sp) := by
  rw [step_spawn]
  simp [Sound, Sat3, NoBad]

/-- The dynamic hypothesis for `callVal`: a function value that is called is a checked function
with the arity and the result count the call site was checked for; a builtin or bound member
leaves a result exactly if the call site expects one. (These are facts of the type discipline
of the source language, which a height checker cannot see.) -/
def DynOK (code : Code) (A : List FnAnn) (lim : Limits) (s : VMState) : Prop :=
  ∀ f rest c fa sp argc o g o' tl, s.calls = f :: rest → lookupFn code A f.fn = some (c, fa) →
    c[f.ip]? = some (.callVal, sp) → s.stack = ⟨.int argc, o⟩ :: ⟨g, o'⟩ :: tl →
    (∀ m name, g = .fn m name → ∃ cg fg, lookupFn code A name = some (cg, fg) ∧ fg.params = argc.toNat
        ∧ fg.results = (fa.dyn.lookup f.ip).getD 0)
    ∧ (((∃ nm, g = .builtin nm) ∨ (∃ rv nm, g = .bound rv nm)) → ∀ s', step code lim s .callVal sp = .next s' →
        s'.stack.length + argc.toNat = tl.length + (fa.dyn.lookup f.ip).getD 0)

theorem callVal_sound (cx : Ctx code A s f rest c fa a B bs hd') (hsite : SiteOK code s)
    (po : PointOK code A f.fn c fa f.ip a .callVal sp pops l) (lim : Limits) (hdyn : DynOK code A lim s) :
    Sound code A (B :: bs) (step code lim s .callVal sp) := by
  have hsucc := po.succ
  simp only [succs] at hsucc
  split at hsucc
  · rename_i n hn
    split at hsucc
    · rename_i hp
      simp only [Option.some.injEq, Prod.mk.injEq] at hsucc
      obtain ⟨rfl, rfl⟩ := hsucc
      have hf1 := po.flow (f.ip + 1, { a with h := a.h - (2 + n) + (fa.dyn.lookup f.ip).getD 0 }) (by simp)
      obtain ⟨o, tl0, hs, hargc⟩ := site_stack cx hsite po.instr rfl hn
      have hle := cx.hh
      rw [hs] at hle; simp only [List.length_cons] at hle
      cases tl0 with
      | nil => simp at hle; omega
      | cons gv tl =>
        obtain ⟨g, o'⟩ := gv
        simp only [List.length_cons] at hle
        obtain ⟨hdfn, hdbi⟩ := hdyn f rest c fa sp _ o g o' tl cx.calls cx.look po.instr hs
        rw [hargc] at hdfn hdbi
        have hcases : (∃ m name, g = .fn m name) ∨ ((∃ nm, g = .builtin nm) ∨ (∃ rv nm, g = .bound rv nm))
            ∨ ((∀ m nm, g ≠ .fn m nm) ∧ (∀ nm, g ≠ .builtin nm) ∧ (∀ r nm, g ≠ .bound r nm)) := by
          cases g
          case fn m nm => left; exact ⟨m, nm, rfl⟩
          case builtin nm => right; left; left; exact ⟨nm, rfl⟩
          case bound r nm => right; left; right; exact ⟨r, nm, rfl⟩
          all_goals (right; right; simp)
        rcases hcases with ⟨m, name, rfl⟩ | hbi | hother
        · obtain ⟨cg, fg, hg, hpar, hres⟩ := hdfn m name rfl
          rw [step_callVal_fn code lim s sp _ o o' m name tl hs]
          exact cx.call po.instr rfl hg (d := 2) (by simp [cx.adv]) (by simp [hs]) (by simp) (by simp)
            (by omega) hf1 (by simp only; rw [hpar, hres]) rfl rfl
            (by have := handler_region po.handler; intro x tl' hx; have := this x tl' hx; omega)
        · refine (step_callVal_builtin code lim s sp _ o o' g tl hs hbi).mono' ?_ ?_ ?_
          · rintro s' hst ⟨h1, h2, h3, h4, h5, h6⟩
            have := hdbi hbi s' hst
            exact same (cx.intra (by rw [h4, cx.adv]) hf1 (by simp only; omega) (by rw [h6.1, cx.mp])
              (by rw [h5, cx.hd]) (site_ft po.instr (by intro v; simp)))
          · rintro x s' _ ⟨h1, h2, h3, h4, h5⟩ msg tsp _
            rw [hargc] at h2
            exact cx.dispatch po.handler po.entry hp.1 h4 (Or.inl h3)
              (by rw [hs]; simp only [List.length_cons]; omega) msg tsp
          · rintro why _ _ ⟨h1, h2⟩
            rw [hargc] at h1
            exact ⟨fun e => by have := h1 e; omega, h2⟩
        · have : ∀ argc o f o' rest, s.stack = ⟨.int argc, o⟩ :: ⟨f, o'⟩ :: rest →
              (∀ m n, f ≠ .fn m n) ∧ (∀ n, f ≠ .builtin n) ∧ (∀ r n, f ≠ .bound r n) := by
            intro argc' o1 f1 o2 rest1 h
            rw [hs] at h
            simp only [List.cons.injEq, SVal.mk.injEq] at h
            obtain ⟨_, ⟨rfl, _⟩, _⟩ := h
            exact hother
          rcases step_callVal_other code lim s sp this with h | h <;> rw [h] <;> simp [Sound, Sat3, NoBad]
    · cases hsucc
  · cases hsucc

/-- **Soundness of `verify` for one instruction.** From a state that satisfies the invariant
(with bases `bs0`), whose memory pointer is within the limit and whose dynamic calls conform,
`step` on the running instruction re-establishes the invariant (`next`), or is dispatched to a
handler of the running activation in a state that satisfies the invariant, and never answers
"stack underflow", "handler stack underflow", "memory index" or "label at run time". -/
theorem step_sound (hv : verify code A = true) {bs0 : List Base} (hinv : InvB code A s bs0)
    (hc : s.calls = f :: rest) (hf : findCode code f.fn = some c) (hi : c[f.ip]? = some (i, sp))
    (lim : Limits) (hlim : s.mp < (lim.memory : Int)) (hdyn : DynOK code A lim s) :
    ∃ fa a, lookupFn code A f.fn = some (c, fa) ∧ fa.pts[f.ip]? = some (some a) ∧
      Sound code A bs0 (step code lim s i sp) := by
  obtain ⟨c', fa, a, B, bs, hd', rfl, cx⟩ := hinv.unpack hv hc
  have hc' := lookup_findCode _ _ _ _ _ cx.look
  rw [hf] at hc'; cases hc'
  obtain ⟨i', sp', pops, l, po⟩ := verify_point hv cx.look cx.pt
  have := po.instr
  rw [hi] at this
  simp only [Option.some.injEq, Prod.mk.injEq] at this
  obtain ⟨rfl, rfl⟩ := this
  refine ⟨fa, a, cx.look, cx.pt, ?_⟩
  cases hse : simpleEff i with
  | some pq => exact simple_sound cx po lim hse
  | none =>
    cases i <;> simp only [simpleEff, reduceCtorEq] at hse
    case spawn g => exact spawn_sound lim
    case callVal => exact callVal_sound cx hinv.2 po lim hdyn
    case callImm g => exact callImm_sound cx po lim
    case ret => exact ret_sound cx po lim
    case hostCall name => exact hostCall_sound cx hinv.2 po lim
    case jump t => exact jump_sound cx po lim
    case jumpIfFalse t => exact jumpIfFalse_sound cx po lim
    case getVar k => exact getVar_sound cx po lim hlim
    case setVar k => exact setVar_sound cx po lim hlim
    case setTry fn t => exact setTry_sound cx po lim
    case popTry => exact popTry_sound cx po lim
    case throw => exact throw_sound cx po lim
    case label t => have := po.succ; simp [succs] at this
    case addMp n => exact addMp_sound cx po lim

end

end HmsProofs.Lemmas.VMCheck
