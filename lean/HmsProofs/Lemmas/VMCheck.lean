import HmsProofs.Lemmas.VMRun
/-!
# Soundness of the bytecode checker `Hms.Core.BcCheck.verify`

The invariant `Inv` ties a VM state to a verified annotation; `step` preserves it and never
answers one of the four excluded panics from a state that satisfies it.
-/
namespace HmsProofs.Lemmas.VMCheck
open Hms.Core Hms.Core.Comp Hms.Core.VM Hms.Core.BcCheck
open HmsProofs.Lemmas.VMStep HmsProofs.Lemmas.VMRun

/-! ## Reading facts off `verify` -/

theorem lookupFn_cons (cf : CompiledFn) (code : Code) (fa : FnAnn) (A : List FnAnn) (fn : String) :
    lookupFn (cf :: code) (fa :: A) fn =
      if (cf.name == fn) = true then some (cf.code, fa) else lookupFn code A fn := by
  simp only [lookupFn, List.zip_cons_cons, List.find?_cons]
  split <;> simp_all

theorem findCode_cons (cf : CompiledFn) (code : Code) (fn : String) :
    findCode (cf :: code) fn = if (cf.name == fn) = true then some cf.code else findCode code fn := by
  simp only [findCode, List.find?_cons]
  split <;> simp_all

theorem lookup_findCode : ∀ (code : Code) (A : List FnAnn) (fn : String) (c : FnCode) (fa : FnAnn),
    lookupFn code A fn = some (c, fa) → findCode code fn = some c
  | [], _, fn, c, fa, h => by simp [lookupFn] at h
  | _ :: _, [], fn, c, fa, h => by simp [lookupFn] at h
  | cf :: code, fa' :: A, fn, c, fa, h => by
    rw [lookupFn_cons] at h
    rw [findCode_cons]
    split at h
    · rename_i hn; simp only [Option.some.injEq, Prod.mk.injEq] at h; simp [hn, h.1]
    · rename_i hn; simp only [hn]; exact lookup_findCode code A fn c fa h

theorem findCode_lookup : ∀ (code : Code) (A : List FnAnn) (fn : String) (c : FnCode),
    code.length = A.length → findCode code fn = some c → ∃ fa, lookupFn code A fn = some (c, fa)
  | [], _, fn, c, _, h => by simp [findCode] at h
  | _ :: _, [], fn, c, hl, h => by simp at hl
  | cf :: code, fa' :: A, fn, c, hl, h => by
    rw [findCode_cons] at h
    rw [lookupFn_cons]
    split at h
    · rename_i hn; simp only [Option.some.injEq] at h; exact ⟨fa', by simp [hn, h]⟩
    · rename_i hn
      simp only [hn]
      exact findCode_lookup code A fn c (by simpa using hl) h

theorem lookup_mem : ∀ (code : Code) (A : List FnAnn) (fn : String) (c : FnCode) (fa : FnAnn),
    lookupFn code A fn = some (c, fa) → ∃ cf, (cf, fa) ∈ code.zip A ∧ cf.code = c ∧ cf.name = fn
  | [], _, fn, c, fa, h => by simp [lookupFn] at h
  | _ :: _, [], fn, c, fa, h => by simp [lookupFn] at h
  | cf :: code, fa' :: A, fn, c, fa, h => by
    rw [lookupFn_cons] at h
    split at h
    · rename_i hn
      simp only [Option.some.injEq, Prod.mk.injEq] at h
      exact ⟨cf, by simp [← h.2], h.1, by simpa using hn⟩
    · obtain ⟨cf', hm, h1, h2⟩ := lookup_mem code A fn c fa h
      exact ⟨cf', by simp [hm], h1, h2⟩

/-- What `verify` guarantees for one instruction index that carries an annotation. -/
structure PointOK (code : Code) (A : List FnAnn) (fn : String) (c : FnCode) (fa : FnAnn)
    (ip : Nat) (a : Ann) (i : RInstr) (sp : Span) (pops : Nat) (l : List (Nat × Ann)) : Prop where
  instr : c[ip]? = some (i, sp)
  succ : succs (sigOf code A) fn c fa.results ((fa.dyn.lookup ip).getD 0) ip a i = some (pops, l)
  flow : ∀ x ∈ l, fa.pts[x.1]? = some (some x.2)
  handler : handlerOK fa.pts a pops = true
  entry : handlerEntryOK c a = true

theorem verify_length {code : Code} {A : List FnAnn} (hv : verify code A = true) : code.length = A.length := by
  simp only [verify, Bool.and_eq_true, decide_eq_true_eq] at hv
  exact hv.1

theorem verify_fn {code : Code} {A : List FnAnn} (hv : verify code A = true) {fn : String} {c : FnCode}
    {fa : FnAnn} (hl : lookupFn code A fn = some (c, fa)) :
    fa.pts.length = c.length ∧ fa.pts[0]? = some (some { h := fa.params, off := 0, hs := [] })
      ∧ ∀ ip, ip < c.length → checkAt (sigOf code A) fn c fa ip = true := by
  obtain ⟨cf, hm, rfl, rfl⟩ := lookup_mem code A fn c fa hl
  simp only [verify, Bool.and_eq_true, decide_eq_true_eq, List.all_eq_true] at hv
  have := hv.2 (cf, fa) hm
  simp only [checkFn, Bool.and_eq_true, decide_eq_true_eq, List.all_eq_true, List.mem_range] at this
  exact ⟨this.1.1, this.1.2, this.2⟩

theorem verify_point {code : Code} {A : List FnAnn} (hv : verify code A = true) {fn : String} {c : FnCode}
    {fa : FnAnn} (hl : lookupFn code A fn = some (c, fa)) {ip : Nat} {a : Ann}
    (hp : fa.pts[ip]? = some (some a)) :
    ∃ i sp pops l, PointOK code A fn c fa ip a i sp pops l := by
  obtain ⟨hlen, _, hall⟩ := verify_fn hv hl
  have hip : ip < c.length := by
    rw [← hlen]
    obtain ⟨h, _⟩ := List.getElem?_eq_some_iff.mp hp
    exact h
  have := hall ip hip
  simp only [checkAt, hp] at this
  split at this
  · rename_i i sp hi
    split at this
    · rename_i pops l hs
      simp only [Bool.and_eq_true, List.all_eq_true, decide_eq_true_eq] at this
      exact ⟨i, sp, pops, l, hi, hs, this.1.1, this.1.2, this.2⟩
    · cases this
  · cases this

/-! ## The invariant -/

/-- Ghost data of one activation: operand-stack base and memory pointer at function entry. -/
structure Base where
  b : Nat
  mb : Int

def isCall : RInstr → Bool
  | .callVal | .callImm _ => true
  | _ => false

/-- The handlers an activation of `fn` at call depth `depth` with ghost data `B` has installed:
`setTry` records the call depth, the operand-stack height and the memory pointer. -/
def hmap (fn : String) (depth : Nat) (B : Base) (hs : List (Nat × Nat × Nat)) : List Handler :=
  hs.map fun x => ⟨⟨fn, x.1⟩, depth, B.b + x.2.1, B.mb + (x.2.2 : Int)⟩

/-- Frame-by-frame invariant. `m`, `mp`, `hd`: operand-stack length, memory pointer and handler
stack at the moment the head frame is (again) the running one. For the running frame these are
the current values; for a caller they are what the callee guarantees at its `ret`. `lo` (callers
only): the operand-stack base of the frame above — the stack does not get shorter than that
while the caller waits, in particular not shorter than the heights its handlers recorded. -/
def InvL (code : Code) (A : List FnAnn) :
    Bool → List Frame → List Base → Nat → Int → List Handler → Nat → Prop
  | _, [], [], _, _, _, _ => True
  | top, f :: rest, B :: bs, m, mp, hd, lo =>
    ∃ c fa a hd', lookupFn code A f.fn = some (c, fa) ∧ fa.pts[f.ip]? = some (some a) ∧
      B.b + a.h = m ∧ 0 ≤ B.mb ∧ mp = B.mb + a.off ∧ hd = hmap f.fn (rest.length + 1) B a.hs ++ hd' ∧
      (top = false → (∃ k i sp, f.ip = k + 1 ∧ c[k]? = some (i, sp) ∧ isCall i = true) ∧ B.b ≤ lo ∧
        (∀ x tl, a.hs = x :: tl → B.b + x.2.1 ≤ lo)) ∧
      InvL code A false rest bs (B.b + fa.results) B.mb hd' B.b
  | _, [], _ :: _, _, _, _, _ => False
  | _, _ :: _, [], _, _, _, _ => False

/-- Where the running instruction takes its argument count from the stack, the top of the stack
is the constant pushed by the instruction before it. -/
def SiteOK (code : Code) (s : VMState) : Prop :=
  ∀ f rest c i sp n, s.calls = f :: rest → findCode code f.fn = some c → c[f.ip]? = some (i, sp) →
    usesArgc i = true → argcAt c f.ip = some n → ∃ o tl, s.stack = ⟨.int (I64.ofInt n), o⟩ :: tl

/-- The ghost-annotated invariant: `bs` are the bases of the activations, top first. -/
def InvB (code : Code) (A : List FnAnn) (s : VMState) (bs : List Base) : Prop :=
  InvL code A true s.calls bs s.stack.length s.mp s.handlers 0 ∧ SiteOK code s

/-- The height invariant of a VM state with respect to a verified annotation: for every frame the
operand-stack height, the memory pointer and the installed handlers are the ones recorded for
its instruction index (relative to the activation's base). -/
def Inv (code : Code) (A : List FnAnn) (s : VMState) : Prop := ∃ bs, InvB code A s bs

theorem InvL_top {code : Code} {A : List FnAnn} {fs : List Frame} {bs : List Base}
    {m : Nat} {mp : Int} {hd : List Handler} {lo lo' : Nat} (h : InvL code A false fs bs m mp hd lo) :
    InvL code A true fs bs m mp hd lo' := by
  cases fs with
  | nil => cases bs <;> simp_all [InvL]
  | cons f rest =>
    cases bs with
    | nil => simp [InvL] at h
    | cons B bs =>
      simp only [InvL] at h ⊢
      obtain ⟨c, fa, a, hd', h1, h2, h3, h4, h5, h6, _, h8⟩ := h
      exact ⟨c, fa, a, hd', h1, h2, h3, h4, h5, h6, by simp, h8⟩

theorem InvL_length {code : Code} {A : List FnAnn} :
    ∀ {top : Bool} {fs : List Frame} {bs : List Base} {m : Nat} {mp : Int} {hd : List Handler} {lo : Nat},
      InvL code A top fs bs m mp hd lo → bs.length = fs.length
  | _, [], [], _, _, _, _, _ => rfl
  | _, [], _ :: _, _, _, _, _, h => by simp [InvL] at h
  | _, _ :: _, [], _, _, _, _, h => by simp [InvL] at h
  | top, f :: rest, B :: bs, m, mp, hd, lo, h => by
    simp only [InvL] at h
    obtain ⟨c, fa, a, hd', _, _, _, _, _, _, _, h8⟩ := h
    simp [InvL_length h8]

/-- The unpacked invariant of the running frame. -/
structure Ctx (code : Code) (A : List FnAnn) (s : VMState) (f : Frame)
    (rest : List Frame) (c : FnCode) (fa : FnAnn) (a : Ann) (B : Base) (bs : List Base) (hd' : List Handler) : Prop where
  hv : verify code A = true
  calls : s.calls = f :: rest
  look : lookupFn code A f.fn = some (c, fa)
  pt : fa.pts[f.ip]? = some (some a)
  hh : B.b + a.h = s.stack.length
  mb : 0 ≤ B.mb
  mp : s.mp = B.mb + a.off
  hd : s.handlers = hmap f.fn (rest.length + 1) B a.hs ++ hd'
  below : InvL code A false rest bs (B.b + fa.results) B.mb hd' B.b

theorem InvB.unpack {code : Code} {A : List FnAnn} {s : VMState} {bs0 : List Base} (hv : verify code A = true)
    (h : InvB code A s bs0) {f : Frame} {rest : List Frame} (hc : s.calls = f :: rest) :
    ∃ c fa a B bs hd', bs0 = B :: bs ∧ Ctx code A s f rest c fa a B bs hd' := by
  obtain ⟨hl, _⟩ := h
  rw [hc] at hl
  cases bs0 with
  | nil => simp [InvL] at hl
  | cons B bs =>
    simp only [InvL] at hl
    obtain ⟨c, fa, a, hd', h1, h2, h3, h4, h5, h6, _, h8⟩ := hl
    exact ⟨c, fa, a, B, bs, hd', rfl, hv, hc, h1, h2, h3, h4, h5, h6, h8⟩

theorem siteOK_of {code : Code} {s' : VMState} {f : Frame} {rest : List Frame} {c : FnCode} {ip' : Nat}
    (hc : s'.calls = { f with ip := ip' } :: rest) (hf : findCode code f.fn = some c)
    (h : ∀ i sp n, c[ip']? = some (i, sp) → usesArgc i = true → argcAt c ip' = some n →
      ∃ o tl, s'.stack = ⟨.int (I64.ofInt n), o⟩ :: tl) : SiteOK code s' := by
  intro f' rest' c' i sp n hc' hf' hi hu ha
  rw [hc] at hc'
  simp only [List.cons.injEq] at hc'
  obtain ⟨rfl, rfl⟩ := hc'
  simp only at hf' hi ha
  rw [hf] at hf'; cases hf'
  exact h i sp n hi hu ha

/-- Lemma A: a step that stays in the running frame keeps the bases. -/
theorem Ctx.intra {code : Code} {A : List FnAnn} {s : VMState} {f : Frame}
    {rest : List Frame} {c : FnCode} {fa : FnAnn} {a : Ann} {B : Base} {bs : List Base} {hd' : List Handler}
    (cx : Ctx code A s f rest c fa a B bs hd') {s' : VMState} {ip' : Nat} {a' : Ann}
    (hc : s'.calls = { f with ip := ip' } :: rest) (hp : fa.pts[ip']? = some (some a'))
    (hh : B.b + a'.h = s'.stack.length) (hm : s'.mp = B.mb + a'.off)
    (hd : s'.handlers = hmap f.fn (rest.length + 1) B a'.hs ++ hd')
    (hs : ∀ i sp n, c[ip']? = some (i, sp) → usesArgc i = true → argcAt c ip' = some n →
      ∃ o tl, s'.stack = ⟨.int (I64.ofInt n), o⟩ :: tl) :
    InvB code A s' (B :: bs) := by
  refine ⟨?_, siteOK_of hc (lookup_findCode _ _ _ _ _ cx.look) hs⟩
  rw [hc]
  simp only [InvL]
  exact ⟨c, fa, a', hd', cx.look, hp, hh, cx.mb, hm, hd, by simp, cx.below⟩

/-! ## Static argument counts -/

theorem argcAt_succ {c : FnCode} {k n : Nat} (h : argcAt c (k + 1) = some n) :
    ∃ v sp, c[k]? = some (.copyPush (.int v), sp) ∧ 0 ≤ v ∧ v < 2147483648 ∧ n = v.toNat := by
  simp only [argcAt] at h
  split at h
  · rename_i v sp hk
    split at h
    · rename_i hv
      simp only [Option.some.injEq] at h
      exact ⟨v, sp, hk, hv.1, hv.2, h.symm⟩
    · cases h
  · cases h

theorem argcAt_zero (c : FnCode) : argcAt c 0 = none := rfl

theorem argcAt_lt {c : FnCode} {ip n : Nat} (h : argcAt c ip = some n) : n < 2147483648 := by
  cases ip with
  | zero => simp [argcAt_zero] at h
  | succ k =>
    obtain ⟨v, _, _, h0, h1, rfl⟩ := argcAt_succ h
    omega

theorem ofInt_toNat (n : Nat) (h : n < 2147483648) : (I64.ofInt (n : Int)).toNat = n := by
  simp only [I64.ofInt, BitVec.toNat_ofInt]
  omega

theorem site_fallthrough {c : FnCode} {k n : Nat} {i : RInstr} {sp : Span} (hk : c[k]? = some (i, sp))
    (hne : ∀ v, i ≠ .copyPush (.int v)) (h : argcAt c (k + 1) = some n) : False := by
  obtain ⟨v, sp', hk', _⟩ := argcAt_succ h
  rw [hk] at hk'
  simp only [Option.some.injEq, Prod.mk.injEq] at hk'
  exact hne v hk'.1

theorem isTarget_of {c : FnCode} {k l : Nat} {i : RInstr} {sp : Span} (hk : c[k]? = some (i, sp))
    (hi : i = .jump l ∨ i = .jumpIfFalse l ∨ ∃ fn, i = .setTry fn l) : isTarget c l = true := by
  simp only [isTarget, List.any_eq_true]
  refine ⟨(i, sp), List.mem_of_getElem? hk, ?_⟩
  rcases hi with rfl | rfl | ⟨fn, rfl⟩ <;> simp

theorem succs_site {sig : String → Option (Nat × Nat)} {fn : String} {c : FnCode} {results r ip : Nat} {a : Ann}
    {i : RInstr} {pops : Nat} {l : List (Nat × Ann)} (hu : usesArgc i = true)
    (h : succs sig fn c results r ip a i = some (pops, l)) : isTarget c ip = false := by
  cases i <;> simp only [usesArgc, Bool.false_eq_true] at hu
  all_goals
    simp only [succs] at h
    split at h
    · split at h
      · rename_i hh; exact hh.2
      · cases h
    · cases h

/-- A jump target that carries an annotation is not a dynamic-count instruction. -/
theorem site_target {code : Code} {A : List FnAnn} (hv : verify code A = true) {fn : String} {c : FnCode}
    {fa : FnAnn} (hl : lookupFn code A fn = some (c, fa)) {l : Nat} {a' : Ann}
    (hp : fa.pts[l]? = some (some a')) {i : RInstr} {sp : Span} (hi : c[l]? = some (i, sp))
    (hu : usesArgc i = true) (ht : isTarget c l = true) : False := by
  obtain ⟨i', sp', pops, l', po⟩ := verify_point hv hl hp
  have := po.instr
  rw [hi] at this
  simp only [Option.some.injEq, Prod.mk.injEq] at this
  obtain ⟨rfl, rfl⟩ := this
  have := succs_site hu po.succ
  rw [ht] at this
  cases this

theorem step_copyPush_int (code : Code) (lim : Limits) (s : VMState) (v : Int) (sp : Span) :
    step code lim s (.copyPush (.int v)) sp = .next (advance (push1 s (.int (I64.ofInt v)))) := by
  simp [step, pvalToVal]

theorem succs_simple {sig : String → Option (Nat × Nat)} {fn : String} {c : FnCode} {results r ip : Nat} {a : Ann}
    {i : RInstr} {p q : Nat} (hse : simpleEff i = some (p, q)) :
    succs sig fn c results r ip a i =
      if p ≤ a.h then some (p, [(ip + 1, { a with h := a.h - p + q })]) else none := by
  cases i <;> simp only [simpleEff, reduceCtorEq, Option.some.injEq, Prod.mk.injEq] at hse
  all_goals obtain ⟨rfl, rfl⟩ := hse
  all_goals simp [succs, simpleEff]

/-! ## Exception dispatch into a handler of the running activation -/

theorem Ctx.dispatch {code : Code} {A : List FnAnn} {s : VMState} {f : Frame}
    {rest : List Frame} {c : FnCode} {fa : FnAnn} {a : Ann} {B : Base} {bs : List Base} {hd' : List Handler}
    (cx : Ctx code A s f rest c fa a B bs hd') {pops : Nat}
    (hh : handlerOK fa.pts a pops = true) (he : handlerEntryOK c a = true) (hne : a.hs ≠ [])
    {s' : VMState} (hk1 : s'.handlers = s.handlers)
    (hcalls : s'.calls = s.calls ∨ s'.calls = advCalls s.calls)
    (hlen : s.stack.length ≤ s'.stack.length + pops)
    {msg : String} {tsp : Span} {s'' : VMState} (ht : throwTo s' msg tsp = .cont s'') :
    InvB code A s'' (B :: bs) := by
  cases hhs : a.hs with
  | nil => exact absurd hhs hne
  | cons lh hs' =>
    obtain ⟨l, H, o⟩ := lh
    simp only [handlerOK, hhs, Bool.and_eq_true, decide_eq_true_eq] at hh
    simp only [handlerEntryOK, hhs] at he
    obtain ⟨hd0, hrest, c0, below, ob, st', hhd, hcs, rfl⟩ := throwTo_cont ht
    have hhd0 : hd0 = ⟨⟨f.fn, l⟩, rest.length + 1, B.b + H, B.mb + (o : Int)⟩ := by
      rw [hk1, cx.hd, hhs] at hhd
      simp only [hmap, List.map_cons, List.cons_append, List.cons.injEq] at hhd
      exact hhd.1.symm
    subst hhd0
    have htop : ∃ ip0, s'.calls = { f with ip := ip0 } :: rest := by
      rcases hcalls with h | h
      · exact ⟨f.ip, by rw [h, cx.calls]⟩
      · exact ⟨f.ip + 1, by rw [h, cx.calls]; rfl⟩
    obtain ⟨ip0, htop⟩ := htop
    have hbelow : below = rest := by
      rw [htop] at hcs
      simp only [List.length_cons, Nat.sub_self, List.drop_zero, List.cons.injEq] at hcs
      exact hcs.2.symm
    subst hbelow
    have hle := cx.hh
    refine cx.intra (s' := push1 { s' with calls := ⟨f.fn, l⟩ :: below, stack := s'.stack.drop (s'.stack.length - (B.b + H)), mp := B.mb + (o : Int), st := st' } ob) (ip' := l)
      rfl hh.1 ?_ ?_ ?_ ?_
    · simp only [push1_stack, List.length_cons, List.length_drop]
      omega
    · simp only [push1_mp]
    · simp only [push1_handlers]; rw [hk1, cx.hd, hhs]
    · intro i sp n hi hu _
      rw [hi] at he
      simp only [Bool.not_eq_true'] at he
      rw [he] at hu; cases hu

end HmsProofs.Lemmas.VMCheck
