import HmsProofs.Lemmas.SimHStatic
/-!
# The code of a statement depends on the loop stack only through its head, and only if a `break`
or `continue` may refer to it
-/
namespace HmsProofs.Sim
open Hms.Core Hms.Core.Comp

theorem cg_loops_irrel (mod fn : String) (φ : String → Option String) : ∀ (n : Nat),
    (∀ (il rt : Bool) (loops loops' : List (String × String)) (st : Stmt) (env : CEnv), Frag.depthGS st ≤ n →
      Frag.okFS fr il rt st = true → (il = true → loops.head? = loops'.head?) →
      cgS mod fn φ loops st env = cgS mod fn φ loops' st env ∧
      Frag.wsGS mod fn φ loops st env = Frag.wsGS mod fn φ loops' st env) ∧
    (∀ (il rt : Bool) (loops loops' : List (String × String)) (ss : List Stmt) (env : CEnv), Frag.depthGSs ss ≤ n →
      Frag.okFSs fr il rt ss = true → (il = true → loops.head? = loops'.head?) →
      cgSs mod fn φ loops ss env = cgSs mod fn φ loops' ss env ∧
      Frag.wsGSs mod fn φ loops ss env = Frag.wsGSs mod fn φ loops' ss env) ∧
    (∀ (il rt : Bool) (loops loops' : List (String × String)) (b : Block) (env : CEnv), Frag.depthGBS b ≤ n →
      Frag.okFBS fr il rt b = true → (il = true → loops.head? = loops'.head?) →
      cgBS mod fn φ loops b env = cgBS mod fn φ loops' b env ∧
      Frag.wsGBS mod fn φ loops b env = Frag.wsGBS mod fn φ loops' b env) := by
  intro n
  induction n with
  | zero =>
    refine ⟨?_, ?_, ?_⟩
    · intro il rt loops loops' st env hd; have := depthGS_pos st; omega
    · intro il rt loops loops' ss env hd; cases ss <;> simp [Frag.depthGSs] at hd
    · intro il rt loops loops' b env hd; obtain ⟨_, _, _, _⟩ := b; simp [Frag.depthGBS] at hd
  | succ n ih =>
    obtain ⟨ihS, ihSs, ihB⟩ := ih
    refine ⟨?_, ?_, ?_⟩
    · intro il rt loops loops' st env hd hok hh
      cases st
      case typedef | trigger => simp [Frag.okFS] at hok
      case forS sp name vty iter body =>
        obtain ⟨bsp, bty, stmts, boe⟩ := body
        cases iter <;> try (simp [Frag.okFS] at hok; done)
        cases boe <;> try (simp [Frag.okFS] at hok; done)
        simp only [Frag.okFS, Bool.and_eq_true] at hok
        simp only [Frag.depthGS] at hd
        have h := fun (bc : String × String) env' => ihSs true rt (bc :: loops) (bc :: loops') stmts env' (by omega) hok.2
          (fun _ => rfl)
        simp only [cgS, Frag.wsGS, (h _ _).1, (h _ _).2, and_self]
      case letS sp name vty nc oty e => cases nc <;> exact ⟨rfl, rfl⟩
      case ret sp oe => cases oe <;> exact ⟨rfl, rfl⟩
      case brk sp =>
        simp only [Frag.okFS] at hok
        have := hh hok
        cases loops <;> cases loops' <;> simp at this
        · exact ⟨rfl, rfl⟩
        · rename_i p _ q _
          obtain ⟨b, c⟩ := p; obtain ⟨b', c'⟩ := q
          simp only [Prod.mk.injEq] at this
          obtain ⟨rfl, rfl⟩ := this
          exact ⟨rfl, rfl⟩
      case cont sp =>
        simp only [Frag.okFS] at hok
        have := hh hok
        cases loops <;> cases loops' <;> simp at this
        · exact ⟨rfl, rfl⟩
        · rename_i p _ q _
          obtain ⟨b, c⟩ := p; obtain ⟨b', c'⟩ := q
          simp only [Prod.mk.injEq] at this
          obtain ⟨rfl, rfl⟩ := this
          exact ⟨rfl, rfl⟩
      case whileS sp c body =>
        simp only [Frag.okFS, Bool.and_eq_true] at hok
        simp only [Frag.depthGS] at hd
        have h := fun env' => ihB true rt
          (((freshLabel mod (freshLabel mod env.lm "loop_head").2 "loop_end").1,
            (freshLabel mod env.lm "loop_head").1) :: loops)
          (((freshLabel mod (freshLabel mod env.lm "loop_head").2 "loop_end").1,
            (freshLabel mod env.lm "loop_head").1) :: loops') body env' (by omega) hok.2 (fun _ => rfl)
        simp only [cgS, Frag.wsGS, (h _).1, (h _).2, and_self]
      case loopS sp body =>
        simp only [Frag.okFS] at hok
        simp only [Frag.depthGS] at hd
        have h := fun env' => ihB true rt
          (((freshLabel mod (freshLabel mod env.lm "loop_head").2 "loop_end").1,
            (freshLabel mod env.lm "loop_head").1) :: loops)
          (((freshLabel mod (freshLabel mod env.lm "loop_head").2 "loop_end").1,
            (freshLabel mod env.lm "loop_head").1) :: loops') body env' (by omega) hok (fun _ => rfl)
        simp only [cgS, Frag.wsGS, (h _).1, (h _).2, and_self]
      case exprS sp e =>
        cases e <;> try (simp [Frag.okFS] at hok; done)
        case assign asp op l r =>
          cases op <;> cases l <;> try (simp [Frag.okFS] at hok; done)
          all_goals (rename_i g _ sg; cases g <;> cases sg <;> first | exact ⟨rfl, rfl⟩ | simp [Frag.okFS] at hok)
        case call csp cty base args sw =>
          cases base <;> try (simp [Frag.okFS] at hok; done)
          case member msp mty b nm mop =>
            cases mop <;> cases args <;> try (simp [Frag.okFS] at hok; done)
            rename_i a rest
            cases rest <;> cases sw <;> first | exact ⟨rfl, rfl⟩ | simp [Frag.okFS] at hok
          exact ⟨rfl, rfl⟩
        case ifE isp ty c t el =>
          cases el with
          | some eb =>
            simp only [Frag.okFS, Bool.and_eq_true] at hok
            simp only [Frag.depthGS] at hd
            have h1 := fun env' => ihB il rt loops loops' t env' (by omega) hok.1.2 hh
            have h2 := fun env' => ihB il rt loops loops' eb env' (by omega) hok.2 hh
            simp only [cgS, Frag.wsGS, (h1 _).1, (h1 _).2, (h2 _).1, (h2 _).2, and_self]
          | none =>
            simp only [Frag.okFS, Bool.and_eq_true] at hok
            simp only [Frag.depthGS] at hd
            have h1 := fun env' => ihB il rt loops loops' t env' (by omega) hok.2 hh
            simp only [cgS, Frag.wsGS, (h1 _).1, (h1 _).2, and_self]
        case matchE msp ty c arms dflt =>
          cases dflt with
          | none => simp [Frag.okFS] at hok
          | some d =>
            cases d <;> try (simp [Frag.okFS] at hok; done)
            rename_i db
            simp only [Frag.okFS, Bool.and_eq_true] at hok
            simp only [Frag.depthGS] at hd
            have harms : ∀ (arms : List (List Expr × Expr)) (after : String) (nms : List String) (env' : CEnv),
                Frag.depthGArmsS arms ≤ n → Frag.okFArmsS fr il rt arms = true →
                cgArmsS mod fn φ loops msp after arms nms env' = cgArmsS mod fn φ loops' msp after arms nms env' ∧
                Frag.wsGArmsS mod fn φ loops arms env' = Frag.wsGArmsS mod fn φ loops' arms env' := by
              intro arms
              induction arms with
              | nil => intro _ _ _ _ _; exact ⟨rfl, rfl⟩
              | cons a rest iha =>
                intro after nms env' hda hoka
                obtain ⟨lits, act⟩ := a
                cases act <;> try (simp [Frag.okFArmsS] at hoka; done)
                rename_i b
                simp only [Frag.okFArmsS, Bool.and_eq_true] at hoka
                simp only [Frag.depthGArmsS] at hda
                have h1 := fun env'' => ihB il rt loops loops' b env'' (by omega) hoka.1.2 hh
                have h2 := fun nms' env'' => iha after nms' env'' (by omega) hoka.2
                constructor
                · cases nms with
                  | nil => rfl
                  | cons nm nms => simp only [cgArmsS, (h1 _).1, (h2 _ _).1]
                · simp only [Frag.wsGArmsS, (h1 _).1, (h1 _).2, (h2 [] _).2]
            have h1 := fun after nms env' => harms arms after nms env' (by omega) hok.1.2
            have h2 := fun env' => ihB il rt loops loops' db env' (by omega) hok.2 hh
            have h1w := fun env' => (harms arms "" [] env' (by omega) hok.1.2).2
            simp only [cgS, Frag.wsGS, (h1 _ _ _).1, h1w, (h2 _).1, (h2 _).2, and_self]
        case tryE tsp ty t ci c =>
          obtain ⟨csp', cty', cstmts, coe⟩ := c
          cases coe with
          | some _ => simp [Frag.okFS, Frag.okFBS] at hok
          | none =>
            simp only [Frag.okFS, Frag.okFBS, Bool.and_eq_true] at hok
            simp only [Frag.depthGS, Frag.depthGBS] at hd
            have h2 := fun env' => ihSs il rt loops loops' cstmts env' (by omega) hok.2 hh
            simp only [cgS, Frag.wsGS, (h2 _).1, (h2 _).2, and_self]
    · intro il rt loops loops' ss env hd hok hh
      cases ss with
      | nil => exact ⟨rfl, rfl⟩
      | cons st ss =>
        simp only [Frag.okFSs, Bool.and_eq_true] at hok
        simp only [Frag.depthGSs] at hd
        have h1 := ihS il rt loops loops' st env (by omega) hok.1 hh
        have h2 := fun env' => ihSs il rt loops loops' ss env' (by omega) hok.2 hh
        simp only [cgSs, Frag.wsGSs, h1.1, h1.2, (h2 _).1, (h2 _).2, and_self]
    · intro il rt loops loops' b env hd hok hh
      obtain ⟨bsp, bty, stmts, oe⟩ := b
      cases oe with
      | some _ => simp [Frag.okFBS] at hok
      | none =>
        simp only [Frag.okFBS] at hok
        simp only [Frag.depthGBS] at hd
        have h := fun env' => ihSs il rt loops loops' stmts env' (by omega) hok hh
        simp only [cgBS, Frag.wsGBS, (h _).1, (h _).2, and_self]

/-- Inside a `try` body (no `break`/`continue` to the outside) the loop stack is irrelevant. -/
theorem cgBS_loops_irrel (mod fn : String) (φ : String → Option String) (rt : Bool) (loops : List (String × String))
    (b : Block) (env : CEnv) (h : Frag.okFBS fr false rt b = true) :
    cgBS mod fn φ loops b env = cgBS mod fn φ [] b env ∧
    Frag.wsGBS mod fn φ loops b env = Frag.wsGBS mod fn φ [] b env :=
  (cg_loops_irrel mod fn φ (Frag.depthGBS b)).2.2 false rt loops [] b env (Nat.le_refl _) h (by simp)

/-- Allowing `for` loops enlarges the fragment. -/
theorem okFS_mono (fr : Bool) : ∀ (n : Nat),
    (∀ (il rt : Bool) (st : Stmt), Frag.depthGS st ≤ n → Frag.okFS false il rt st = true →
      Frag.okFS fr il rt st = true) ∧
    (∀ (il rt : Bool) (ss : List Stmt), Frag.depthGSs ss ≤ n → Frag.okFSs false il rt ss = true →
      Frag.okFSs fr il rt ss = true) ∧
    (∀ (il rt : Bool) (b : Block), Frag.depthGBS b ≤ n → Frag.okFBS false il rt b = true →
      Frag.okFBS fr il rt b = true) := by
  intro n
  induction n with
  | zero =>
    refine ⟨?_, ?_, ?_⟩
    · intro il rt st hd; have := depthGS_pos st; omega
    · intro il rt ss hd; cases ss <;> simp [Frag.depthGSs] at hd
    · intro il rt b hd; obtain ⟨_, _, _, _⟩ := b; simp [Frag.depthGBS] at hd
  | succ n ih =>
    obtain ⟨ihS, ihSs, ihB⟩ := ih
    refine ⟨?_, ?_, ?_⟩
    · intro il rt st hd hok
      cases st
      case typedef | trigger => simp [Frag.okFS] at hok
      case forS sp name vty iter body =>
        obtain ⟨bsp, bty, stmts, boe⟩ := body
        cases iter <;> try (simp [Frag.okFS] at hok; done)
        cases boe <;> simp [Frag.okFS] at hok
      case letS sp name vty nc oty e =>
        simp only [Frag.okFS, Bool.and_eq_true] at hok ⊢
        exact ⟨hok.1, okV_false_mono fr e hok.2⟩
      case ret sp oe =>
        cases oe with
        | none => exact hok
        | some e =>
          simp only [Frag.okFS, Bool.and_eq_true] at hok ⊢
          exact ⟨hok.1, okE_false_mono fr e hok.2⟩
      case brk sp => exact hok
      case cont sp => exact hok
      case whileS sp c body =>
        simp only [Frag.okFS, Bool.and_eq_true] at hok ⊢
        simp only [Frag.depthGS] at hd
        exact ⟨okE_false_mono fr c hok.1, ihB true rt body (by omega) hok.2⟩
      case loopS sp body =>
        simp only [Frag.okFS] at hok ⊢
        simp only [Frag.depthGS] at hd
        exact ihB true rt body (by omega) hok
      case exprS sp e =>
        cases e <;> try (simp [Frag.okFS] at hok; done)
        case assign asp op l r =>
          cases l <;> try (cases op <;> simp [Frag.okFS] at hok; done)
          case ident isp ity name g isFn sg =>
            cases op <;> cases g <;> cases sg <;> try (simp [Frag.okFS] at hok; done)
            · simp only [Frag.okFS] at hok ⊢
              exact okV_false_mono fr r hok
            · simp only [Frag.okFS, Bool.and_eq_true] at hok ⊢
              exact ⟨hok.1, okV_false_mono fr r hok.2⟩
          case index isp ity b i =>
            rw [okFS_idxAssign] at hok ⊢
            simp only [Bool.and_eq_true] at hok ⊢
            exact ⟨⟨⟨hok.1.1.1, okV_false_mono fr _ hok.1.1.2⟩, okV_false_mono fr r hok.1.2⟩, hok.2⟩
          case member msp mty b nm mop =>
            cases mop <;> try (cases op <;> simp [Frag.okFS] at hok; done)
            rw [okFS_memAssign] at hok ⊢
            simp only [Bool.and_eq_true] at hok ⊢
            exact ⟨⟨⟨hok.1.1.1, okV_false_mono fr _ hok.1.1.2⟩, okV_false_mono fr r hok.1.2⟩, hok.2⟩
        case call csp cty base args sw =>
          cases base <;> try (simp [Frag.okFS] at hok; done)
          case member msp mty b nm mop =>
            cases mop <;> cases args <;> try (simp [Frag.okFS] at hok; done)
            rename_i a rest
            cases rest <;> cases sw <;> simp [Frag.okFS] at hok
          rename_i isp ity name g f si
          simp only [Frag.okFS] at hok ⊢
          by_cases ht : (name == "throw") = true
          · simp only [ht, if_true] at hok ⊢; exact hok
          · have ht' : (name == "throw") = false := by simpa using ht
            by_cases hp : (name == "println") = true
            · simp only [ht', hp, Bool.false_eq_true, if_false, if_true, Bool.and_eq_true] at hok ⊢
              exact ⟨⟨⟨hok.1.1.1, okEArgs_false_mono fr args hok.1.1.2⟩, hok.1.2⟩, hok.2⟩
            · have hp' : (name == "println") = false := by simpa using hp
              simp only [ht', hp', Bool.false_eq_true, if_false, Bool.and_eq_true] at hok ⊢
              exact ⟨hok.1, okE_false_mono fr _ hok.2⟩
        case ifE isp ty c t el =>
          cases el with
          | some eb =>
            simp only [Frag.okFS, Bool.and_eq_true] at hok ⊢
            simp only [Frag.depthGS] at hd
            exact ⟨⟨⟨hok.1.1.1, okE_false_mono fr c hok.1.1.2⟩, ihB il rt t (by omega) hok.1.2⟩, ihB il rt eb (by omega) hok.2⟩
          | none =>
            simp only [Frag.okFS, Bool.and_eq_true] at hok ⊢
            simp only [Frag.depthGS] at hd
            exact ⟨⟨hok.1.1, okE_false_mono fr c hok.1.2⟩, ihB il rt t (by omega) hok.2⟩
        case tryE tsp ty t ci c =>
          simp only [Frag.okFS, Bool.and_eq_true] at hok ⊢
          simp only [Frag.depthGS] at hd
          exact ⟨⟨hok.1.1, ihB false false t (by omega) hok.1.2⟩, ihB il rt c (by omega) hok.2⟩
        case matchE msp ty c arms dflt =>
          cases dflt with
          | none => simp [Frag.okFS] at hok
          | some d =>
            cases d <;> try (simp [Frag.okFS] at hok; done)
            rename_i db
            simp only [Frag.okFS, Bool.and_eq_true] at hok ⊢
            simp only [Frag.depthGS] at hd
            have harms : ∀ (arms : List (List Expr × Expr)), Frag.depthGArmsS arms ≤ n →
                Frag.okFArmsS false il rt arms = true → Frag.okFArmsS fr il rt arms = true := by
              intro arms
              induction arms with
              | nil => intro _ _; rfl
              | cons a rest iha =>
                intro hda hoka
                obtain ⟨lits, act⟩ := a
                cases act <;> try (simp [Frag.okFArmsS] at hoka; done)
                rename_i b
                simp only [Frag.okFArmsS, Bool.and_eq_true] at hoka ⊢
                simp only [Frag.depthGArmsS] at hda
                exact ⟨⟨hoka.1.1, ihB il rt b (by omega) hoka.1.2⟩, iha (by omega) hoka.2⟩
            exact ⟨⟨⟨hok.1.1.1, okE_false_mono fr c hok.1.1.2⟩, harms arms (by omega) hok.1.2⟩, ihB il rt db (by omega) hok.2⟩
    · intro il rt ss hd hok
      cases ss with
      | nil => rfl
      | cons st ss =>
        simp only [Frag.okFSs, Bool.and_eq_true] at hok ⊢
        simp only [Frag.depthGSs] at hd
        exact ⟨ihS il rt st (by omega) hok.1, ihSs il rt ss (by omega) hok.2⟩
    · intro il rt b hd hok
      obtain ⟨bsp, bty, stmts, oe⟩ := b
      cases oe with
      | some _ => simp [Frag.okFBS] at hok
      | none =>
        simp only [Frag.okFBS] at hok ⊢
        simp only [Frag.depthGBS] at hd
        exact ihSs il rt stmts (by omega) hok

theorem okFSs_of_okGSs (fr il rt : Bool) (ss : List Stmt) (h : Frag.okGSs il rt ss = true) :
    Frag.okFSs fr il rt ss = true :=
  (okFS_mono fr (Frag.depthGSs ss)).2.1 il rt ss (Nat.le_refl _) h

end HmsProofs.Sim
