import HmsProofs.Lemmas.CheckProg
/-! Rule lemmas of C03: for every fault class of the property statement, the checker emits an
error-level diagnostic of that class at the construct that breaks the rule — and, by
completeness, the construct has no typing derivation. -/
namespace HmsProofs.Lemmas.Check
open Hms.Check

theorem wrap_mem {s : Bool} {r : Res} {e : Err} (h : e ∈ r.errs) : e ∈ (wrap s r).errs := by
  unfold wrap; split
  · exact h
  · simp [h]

theorem wrap_errs_ne {s : Bool} {r : Res} (h : r.errs ≠ []) : (wrap s r).errs ≠ [] := by
  intro hn; exact h (wrap_errs_nil hn).1

/-- an expression the checker reports on has no typing derivation -/
theorem expr_not_derivable {Γ : Ctx} {s : Bool} {e : PExpr} (h : (checkExpr Γ s e).errs ≠ []) :
    ¬ ∃ t x c l, HasType Γ s e t x c l := by
  intro ⟨t, x, c, l, hd⟩
  rw [complete_expr e Γ s t x c l hd] at h
  exact h rfl

theorem stmt_not_derivable {Γ : Ctx} {st : PStmt} (h : (checkStmt Γ st).errs ≠ []) :
    ¬ ∃ t x l v, StmtOK Γ st t x l v := by
  intro ⟨t, x, l, v, hd⟩
  rw [complete_stmt st Γ t x l v hd] at h
  exact h rfl

theorem prog_not_welltyped {p : PProg} (h : (checkProg true p).errs ≠ []) : ¬ WellTyped p := by
  intro ⟨tys, hd⟩
  rw [complete_prog p tys hd] at h
  exact h rfl

/-! ### operands and operators -/

theorem operand_mismatch (Γ : Ctx) (s : Bool) (op : InfixOp) (l r : PExpr) (m : Msg)
    (h : typeCheck true (checkExpr Γ true r).ty (checkExpr Γ true l).ty = some m) :
    ⟨m, .operandMismatch⟩ ∈ (checkExpr Γ s (.infix op l r)).errs := by
  simp only [checkExpr]
  cases infixResult op (checkExpr Γ true l).ty <;> exact wrap_mem (by simp [tcErr, h])

theorem operator_not_admitted (Γ : Ctx) (s : Bool) (op : InfixOp) (l r : PExpr)
    (h : infixResult op (checkExpr Γ true l).ty = none) :
    ⟨.infixOperand, .operatorNotAdmitted⟩ ∈ (checkExpr Γ s (.infix op l r)).errs := by
  simp only [checkExpr, h]; exact wrap_mem (by simp)

theorem prefix_operand_mismatch (Γ : Ctx) (s : Bool) (op : PrefixOp) (e : PExpr)
    (h : prefixResult op (checkExpr Γ true e).ty = none) :
    ⟨.prefixOperand, .operandMismatch⟩ ∈ (checkExpr Γ s (.pre op e)).errs := by
  simp only [checkExpr, h]; exact wrap_mem (by simp)

/-! ### calls -/

theorem arity_mismatch (Γ : Ctx) (s : Bool) (base : PExpr) (args : PExprs) (ps : List (String × Ty)) (ret : Ty)
    (hc : callee (checkExpr Γ true base).ty = .fn ps ret) (hlen : args.length ≠ ps.length) :
    ⟨.arity, .arity⟩ ∈ (checkExpr Γ s (.call base args)).errs := by
  have : (args.length != ps.length) = true := by simpa using hlen
  simp only [checkExpr, hc, this, ↓reduceIte]; exact wrap_mem (by simp)

theorem arg_mismatch (Γ : Ctx) (ps : List Ty) (rest : Option Ty) (a : PExpr) (as : PExprs) (m : Msg)
    (hk : (checkExpr Γ true a).ty.kind ≠ .null)
    (h : typeCheck true (checkExpr Γ true a).ty (argParam ps rest) = some m) :
    ⟨m, .argMismatch⟩ ∈ (checkArgs Γ ps rest (.cons a as)).errs := by
  have hk' : ((checkExpr Γ true a).ty.kind == Kind.null) = false := by simpa using hk
  simp [checkArgs, hk', tcErr, h]

/-- errors of the arguments reach the call (when the number of arguments is right) -/
theorem call_args_errors (Γ : Ctx) (s : Bool) (base : PExpr) (args : PExprs) (ps : List (String × Ty)) (ret : Ty) (e : Err)
    (hc : callee (checkExpr Γ true base).ty = .fn ps ret) (hlen : args.length = ps.length)
    (h : e ∈ (checkArgs Γ (ps.map (·.2)) none args).errs) :
    e ∈ (checkExpr Γ s (.call base args)).errs := by
  simp only [checkExpr, hc, hlen, bne_self_eq_false, Bool.false_eq_true, ↓reduceIte]
  exact wrap_mem (by simp [h])

theorem not_callable (Γ : Ctx) (s : Bool) (base : PExpr) (args : PExprs)
    (hc : callee (checkExpr Γ true base).ty = .bad) :
    ⟨.notCallable, .notCallable⟩ ∈ (checkExpr Γ s (.call base args)).errs := by
  simp only [checkExpr, hc]; exact wrap_mem (by simp)

/-! ### spawn -/

theorem anyOK_null (s : Bool) : anyOK s .null = true := by cases s <;> rfl

theorem wrap_ty_null {s : Bool} {r : Res} (h : r.ty = .null) : (wrap s r).ty = .null := by
  rw [wrap_of_ok (by rw [h]; exact anyOK_null s)]; exact h

/-- the base of a `spawn` that names a variable of a function type is that variable -/
theorem spawn_base_ty (Γ : Ctx) (name : String) (t : Ty) (hl : lookupTy name Γ.vars = some t) (hk : t.kind = .fn) :
    (wrap true (identRes Γ name)).ty = t := by
  have hlk : Γ.lookup name = some t := by simp [Ctx.lookup, hl]
  have hany : anyOK true t = true := by simp [anyOK, hk]
  simp only [identRes, hlk]; rw [wrap_of_ok hany]

theorem callee_fn_kind {t : Ty} {ps ret} (h : callee t = .fn ps ret) : t.kind = .fn := by
  cases t <;> simp [callee] at h ⊢ <;> rfl

theorem callee_var_kind {t : Ty} {ps rest ret} (h : callee t = .var ps rest ret) : t.kind = .fn := by
  cases t <;> simp [callee] at h ⊢ <;> rfl

/-- a `spawn` of a variable that holds a function (local, parameter, global, builtin) -/
theorem spawn_non_function_fn (Γ : Ctx) (s : Bool) (name : String) (args : PExprs) (t : Ty) (ps : List (String × Ty)) (ret : Ty)
    (hl : lookupTy name Γ.vars = some t) (hc : callee t = .fn ps ret) :
    ⟨.spawnNonFunction, .spawnNonFunction⟩ ∈ (checkExpr Γ s (.spawn name args)).errs := by
  simp only [checkExpr, spawn_base_ty Γ name t hl (callee_fn_kind hc), hc]
  split <;> exact wrap_mem (by simp [spawnTargetErr, hl])

theorem spawn_non_function_var (Γ : Ctx) (s : Bool) (name : String) (args : PExprs) (t : Ty) (ps : List Ty) (rest ret : Ty)
    (hl : lookupTy name Γ.vars = some t) (hc : callee t = .var ps rest ret) :
    ⟨.spawnNonFunction, .spawnNonFunction⟩ ∈ (checkExpr Γ s (.spawn name args)).errs := by
  simp only [checkExpr, spawn_base_ty Γ name t hl (callee_var_kind hc), hc]
  split <;> exact wrap_mem (by simp [spawnTargetErr, hl])

/-- a `spawn` of something that cannot be called -/
theorem spawn_not_callable (Γ : Ctx) (s : Bool) (name : String) (args : PExprs)
    (hc : callee (wrap true (identRes Γ name)).ty = .bad) :
    ⟨.notCallable, .notCallable⟩ ∈ (checkExpr Γ s (.spawn name args)).errs := by
  simp only [checkExpr, hc]; exact wrap_mem (by simp)

/-- a function value as an argument of a `spawn` -/
theorem spawn_closure_arg (Γ : Ctx) (ps : List Ty) (rest : Option Ty) (a : PExpr) (as : PExprs)
    (hk : (checkExpr Γ true a).ty.kind = .fn) :
    ⟨.closureAcrossThreads, .closureAcrossThreads⟩ ∈ (checkSpawnArgs Γ ps rest (.cons a as)).errs := by
  simp [checkSpawnArgs, hk]

/-- errors of the arguments reach the `spawn` (when the number of arguments is right) -/
theorem spawn_args_errors (Γ : Ctx) (s : Bool) (name : String) (args : PExprs) (ps : List (String × Ty)) (ret : Ty) (e : Err)
    (hc : callee (wrap true (identRes Γ name)).ty = .fn ps ret) (hlen : args.length = ps.length)
    (h : e ∈ (checkSpawnArgs Γ (ps.map (·.2)) none args).errs) :
    e ∈ (checkExpr Γ s (.spawn name args)).errs := by
  simp only [checkExpr, hc, hlen, bne_self_eq_false, Bool.false_eq_true, ↓reduceIte]
  exact wrap_mem (by simp [h])

/-- a `spawn` has no value, whatever is spawned and whatever goes wrong -/
theorem spawn_ty_null (Γ : Ctx) (s : Bool) (name : String) (args : PExprs) :
    (checkExpr Γ s (.spawn name args)).ty = .null := by
  simp only [checkExpr]
  split
  · split <;> exact wrap_ty_null rfl
  · split <;> exact wrap_ty_null rfl
  · exact wrap_ty_null rfl
  · exact wrap_ty_null rfl

/-- … so it has no member either: thread handles (`.join`) do not exist -/
theorem spawn_no_member (Γ : Ctx) (s : Bool) (name : String) (args : PExprs) (m : String) :
    ⟨.unknownMember, .unknownMember⟩ ∈ (checkExpr Γ s (.member (.spawn name args) m .dot)).errs := by
  have hty := spawn_ty_null Γ false name args
  have hr : memberRule (checkExpr Γ false (.spawn name args)).ty m .dot = none := by rw [hty]; rfl
  have hk : ((checkExpr Γ false (.spawn name args)).ty.kind == Kind.any) = false := by rw [hty]; rfl
  simp only [checkExpr] at hr hk ⊢
  simp only [hr, hk, Bool.false_eq_true, ↓reduceIte]; exact wrap_mem (by simp)

/-! ### return, assignment, condition, branches, iterator -/

theorem return_mismatch (Γ : Ctx) (e : PExpr) (rt : Ty) (m : Msg) (hr : Γ.ret = some rt)
    (h : typeCheck true (checkExpr Γ true e).ty rt = some m) :
    ⟨m, .returnMismatch⟩ ∈ (checkStmt Γ (.ret e)).errs := by
  simp [checkStmt, hr, tcErr, h]

theorem return_none_mismatch (Γ : Ctx) (rt : Ty) (m : Msg) (hr : Γ.ret = some rt) (h : typeCheck true .null rt = some m) :
    ⟨m, .returnMismatch⟩ ∈ (checkStmt Γ .retNone).errs := by
  simp [checkStmt, hr, tcErr, h]

/-- the value of a function body must fit the declared return type -/
theorem body_mismatch (fns globals : List (String × Ty)) (f : PFn) (m : Msg) (hm : f.name ≠ "main")
    (h : typeCheck true
      (checkBlock { vars := paramScope [] (convertParamList f.params).2 ++ globals, fns := fns,
                    ret := some (curRet fns f.name), inLoop := false } f.body).ty (convertType true f.ret).2 = some m) :
    ⟨m, .returnMismatch⟩ ∈ (checkFn fns globals f).1 := by
  have hm' : (f.name == "main") = false := by simpa using hm
  simp [checkFn, hm', tcErr, h]

theorem assign_mismatch (Γ : Ctx) (s : Bool) (op : Option InfixOp) (l r : PExpr) (m : Msg)
    (h : typeCheck false (checkExpr Γ true r).ty (checkExpr Γ true l).ty = some m) :
    ⟨m, .assignMismatch⟩ ∈ (checkExpr Γ s (.assign op l r)).errs := by
  simp only [checkExpr]; exact wrap_mem (by simp [tcErr, h])

theorem assign_operator_not_admitted (Γ : Ctx) (s : Bool) (op : Option InfixOp) (l r : PExpr)
    (hc : typeCheck false (checkExpr Γ true r).ty (checkExpr Γ true l).ty = none)
    (h : assignOk op (checkExpr Γ true l).ty = false) :
    ⟨.assignOperand, .operatorNotAdmitted⟩ ∈ (checkExpr Γ s (.assign op l r)).errs := by
  simp only [checkExpr]; exact wrap_mem (by simp [tcErr, hc, h])

theorem condition_not_bool_if (Γ : Ctx) (s : Bool) (c : PExpr) (t e : PBlock) (m : Msg)
    (h : typeCheck true (checkExpr Γ true c).ty .bool = some m) :
    ⟨m, .conditionNotBool⟩ ∈ (checkExpr Γ s (.ifElse c t e)).errs := by
  simp only [checkExpr]; exact wrap_mem (by simp [tcErr, h])

theorem condition_not_bool_if_then (Γ : Ctx) (s : Bool) (c : PExpr) (t : PBlock) (m : Msg)
    (h : typeCheck true (checkExpr Γ true c).ty .bool = some m) :
    ⟨m, .conditionNotBool⟩ ∈ (checkExpr Γ s (.ifThen c t)).errs := by
  simp only [checkExpr]
  split <;> exact wrap_mem (by simp [tcErr, h])

theorem condition_not_bool_while (Γ : Ctx) (c : PExpr) (b : PBlock) (m : Msg)
    (h : typeCheck true (checkExpr Γ true c).ty .bool = some m) :
    ⟨m, .conditionNotBool⟩ ∈ (checkStmt Γ (.whileS c b)).errs := by
  simp [checkStmt, tcErr, h]

theorem branch_mismatch (Γ : Ctx) (s : Bool) (c : PExpr) (t e : PBlock) (m : Msg)
    (h : typeCheck true (checkBlock Γ e).ty (checkBlock Γ t).ty = some m) :
    ⟨m, .branchMismatch⟩ ∈ (checkExpr Γ s (.ifElse c t e)).errs := by
  simp only [checkExpr]; exact wrap_mem (by simp [tcErr, h])

theorem missing_else (Γ : Ctx) (s : Bool) (c : PExpr) (t : PBlock)
    (h : (typeCheck true (checkBlock Γ t).ty .null).isSome = true) :
    ⟨.missingElse, .branchMismatch⟩ ∈ (checkExpr Γ s (.ifThen c t)).errs := by
  simp only [checkExpr, h, ↓reduceIte]; exact wrap_mem (by simp)

theorem try_branch_mismatch (Γ : Ctx) (s : Bool) (t : PBlock) (name : String) (c : PBlock) (m : Msg)
    (h : typeCheck true (checkBlock (Γ.bind name errorTy) c).ty (checkBlock Γ t).ty = some m) :
    ⟨m, .branchMismatch⟩ ∈ (checkExpr Γ s (.tryE t name c)).errs := by
  simp only [checkExpr]; exact wrap_mem (by simp [tcErr, h])

theorem not_iterable (Γ : Ctx) (name : String) (it : PExpr) (b : PBlock) (h : iterTy (checkExpr Γ true it).ty = none) :
    ⟨.notIterable, .notIterable⟩ ∈ (checkStmt Γ (.forS name it b)).errs := by
  simp [checkStmt, h]

/-! ### unknown identifier / type / member -/

theorem unknown_ident (Γ : Ctx) (s : Bool) (name : String) (h : Γ.lookup name = none) :
    ⟨.unknownIdent, .unknownIdent⟩ ∈ (checkExpr Γ s (.ident name)).errs := by
  simp only [checkExpr, h]; exact wrap_mem (by simp)

theorem unknown_type (name : String) (h : primTy name = none) :
    ⟨.unknownType, .unknownType⟩ ∈ (convertType true (.name name)).1 := by
  simp [convertType, h]

theorem unknown_type_in_let (Γ : Ctx) (x name : String) (e : PExpr) (h : primTy name = none) :
    ⟨.unknownType, .unknownType⟩ ∈ (checkStmt Γ (.letS x (some (.name name)) e)).errs := by
  have := unknown_type name h
  simp only [checkStmt, letRule, letVarTy, Bool.false_and, Bool.false_eq_true, ↓reduceIte]
  cases typeCheck (!(checkExpr Γ false e).ty.hasAny) (checkExpr Γ false e).ty (convertType true (PTy.name name)).2 <;>
    simp [this]

theorem unknown_type_in_cast (Γ : Ctx) (s : Bool) (e : PExpr) (name : String) (h : primTy name = none) :
    ⟨.unknownType, .unknownType⟩ ∈ (checkExpr Γ s (.cast e (.name name))).errs := by
  have := unknown_type name h
  simp only [checkExpr]; exact wrap_mem (by simp [this])

theorem unknown_member (Γ : Ctx) (s : Bool) (b : PExpr) (name : String)
    (hr : memberRule (checkExpr Γ false b).ty name .dot = none) (hk : (checkExpr Γ false b).ty.kind ≠ .any) :
    ⟨.unknownMember, .unknownMember⟩ ∈ (checkExpr Γ s (.member b name .dot)).errs := by
  have hk' : ((checkExpr Γ false b).ty.kind == Kind.any) = false := by simpa using hk
  simp only [checkExpr, hr, hk', Bool.false_eq_true, ↓reduceIte]; exact wrap_mem (by simp)

/-! ### break / continue -/

theorem break_outside_loop (Γ : Ctx) (h : Γ.inLoop = false) :
    ⟨.breakOutsideLoop, .breakOutsideLoop⟩ ∈ (checkStmt Γ .brk).errs := by
  simp [checkStmt, h]

theorem continue_outside_loop (Γ : Ctx) (h : Γ.inLoop = false) :
    ⟨.continueOutsideLoop, .continueOutsideLoop⟩ ∈ (checkStmt Γ .cont).errs := by
  simp [checkStmt, h]

/-- a function literal starts a fresh loop context and its own return type: errors of its
body (e.g. `break` directly in it) reach the literal whatever loop encloses it -/
theorem closure_body_errors (Γ : Ctx) (s : Bool) (params : List (String × PTy)) (ret : PTy) (body : PBlock) (e : Err)
    (h : e ∈ (checkBlock { vars := paramScope [] (convertParamList params).2 ++ Γ.vars, fns := Γ.fns,
                           ret := some (convertType true ret).2, inLoop := false } body).errs) :
    e ∈ (checkExpr Γ s (.lambda params ret body)).errs := by
  simp only [checkExpr]; exact wrap_mem (by simp [h])

/-! ### duplicates -/

theorem duplicate_function (seen : List String) (f : PFn) (rest : List PFn) (h : seen.contains f.name = true) :
    ⟨.duplicateFunction, .duplicateDefinition⟩ ∈ dupFnErrs seen (f :: rest) := by
  have h' : f.name ∈ seen := by simpa using h
  simp [dupFnErrs, h']

theorem dupFnErrs_mono (f : PFn) (rest : List PFn) (seen : List String) (e : Err) (h : e ∈ dupFnErrs (f.name :: seen) rest) :
    e ∈ dupFnErrs seen (f :: rest) := by
  simp [dupFnErrs, h]

/-- a function named like a value of the root scope -/
theorem fn_name_clash (root : List (String × Ty)) (fs : List PFn) (f : PFn) (hf : f ∈ fs)
    (h : (lookupTy f.name root).isSome = true) :
    ⟨.nameClash, .duplicateDefinition⟩ ∈ fnClashErrs root fs := by
  induction fs with
  | nil => cases hf
  | cons g rest ih =>
    simp only [fnClashErrs, List.mem_append]
    cases hf with
    | head => left; simp [h]
    | tail _ hr => exact Or.inr (ih hr)

theorem fn_name_clash_prog (p : PProg) (needMain : Bool) (f : PFn) (hf : f ∈ p.fns)
    (h : (lookupTy f.name hostScope).isSome = true) :
    ⟨.nameClash, .duplicateDefinition⟩ ∈ (checkProg needMain p).errs := by
  have := fn_name_clash hostScope p.fns f hf h
  simp [checkProg, this]

/-- a global named like a function of the module -/
theorem global_name_clash (fns vars : List (String × Ty)) (g : PGlobal) (rest : List PGlobal)
    (h : (lookupTy g.name fns).isSome = true) :
    ⟨.nameClash, .duplicateDefinition⟩ ∈ (checkGlobals fns vars (g :: rest)).errs := by
  simp [checkGlobals, globalClashErrs, h]

theorem checkGlobals_mono (fns vars : List (String × Ty)) (g : PGlobal) (rest : List PGlobal) (e : Err)
    (h : e ∈ (checkGlobals fns (letRule { vars := vars, fns := fns, ret := none, inLoop := false } g.name g.ann
      (checkExpr { vars := vars, fns := fns, ret := none, inLoop := false } false g.e) true).vars rest).errs) :
    e ∈ (checkGlobals fns vars (g :: rest)).errs := by
  simp [checkGlobals, h]

theorem global_name_clash_mem (fns : List (String × Ty)) (gs : List PGlobal) (g : PGlobal) (hg : g ∈ gs)
    (h : (lookupTy g.name fns).isSome = true) :
    ∀ vars, ⟨.nameClash, .duplicateDefinition⟩ ∈ (checkGlobals fns vars gs).errs := by
  induction gs with
  | nil => cases hg
  | cons g' rest ih =>
    intro vars
    cases hg with
    | head => exact global_name_clash fns vars g rest h
    | tail _ hr => exact checkGlobals_mono fns vars g' rest _ (ih hr _)

theorem lookupTy_map_isSome (fs : List PFn) (f : PFn) (hf : f ∈ fs) :
    (lookupTy f.name (fs.map fun f => (f.name, fnSig f))).isSome = true := by
  induction fs with
  | nil => cases hf
  | cons g rest ih =>
    simp only [List.map_cons, lookupTy]
    by_cases hn : (g.name == f.name) = true
    · simp [hn]
    · cases hf with
      | head => simp at hn
      | tail _ hr => simp only [hn, Bool.false_eq_true, ↓reduceIte]; exact ih hr

theorem global_errors_reach_program (p : PProg) (needMain : Bool) (e : Err)
    (h : e ∈ (checkGlobals (p.fns.map fun f => (f.name, fnSig f)) hostScope p.globals).errs) :
    e ∈ (checkProg needMain p).errs := by
  simp [checkProg, h]

theorem duplicate_global (Γ : Ctx) (name : String) (ann : Option PTy) (r : Res) (h : (lookupTy name Γ.vars).isSome = true) :
    ⟨.duplicateGlobal, .duplicateDefinition⟩ ∈ (letRule Γ name ann r true).errs := by
  simp [letRule, h]

theorem duplicate_field (Γ : Ctx) (seen : List String) (k : String) (e : PExpr) (rest : PFields)
    (hb : builtinFieldNames.contains k = false) (h : seen.contains k = true) :
    ⟨.duplicateField, .duplicateDefinition⟩ ∈ (checkFields Γ seen (.cons k e rest)).errs := by
  simp only [checkFields, hb, h, Bool.false_eq_true, ↓reduceIte]; simp

theorem duplicate_param (fns globals : List (String × Ty)) (f : PFn) (hm : f.name ≠ "main")
    (h : dupNames [] (convertParamList f.params).2 ≠ 0) :
    ⟨.duplicateParam, .duplicateDefinition⟩ ∈ (checkFn fns globals f).1 := by
  have hm' : (f.name == "main") = false := by simpa using hm
  simp only [checkFn, hm', Bool.false_eq_true, ↓reduceIte]
  cases hn : dupNames [] (convertParamList f.params).2 with
  | zero => exact absurd hn h
  | succ n => simp [List.replicate]

/-! ### globals, implicit any, main -/

theorem non_constant_global (Γ : Ctx) (name : String) (ann : Option PTy) (r : Res) (h : r.cst = false) :
    ⟨.nonConstantGlobal, .nonConstantGlobal⟩ ∈ (letRule Γ name ann r true).errs := by
  simp [letRule, h]

/-- the constant-ness of a range literal is that of its bounds (repair A6) -/
theorem range_constant (Γ : Ctx) (a b : PExpr) (incl : Bool) (h : anyOK true .range = true) :
    (checkExpr Γ true (.range a b incl)).cst = ((checkExpr Γ true a).cst && (checkExpr Γ true b).cst) := by
  simp only [checkExpr]; rw [wrap_of_ok h]

theorem implicit_any (s : Bool) (r : Res) (h : anyOK s r.ty = false) :
    ⟨.implicitAny, .implicitAny⟩ ∈ (wrap s r).errs := by
  simp [wrap, h]

theorem implicit_any_let (Γ : Ctx) (name : String) (r : Res) (g : Bool) (h : r.ty.hasAny = true) :
    ⟨.implicitAny, .implicitAny⟩ ∈ (letRule Γ name none r g).errs := by
  simp [letRule, letVarTy, h]

theorem main_missing (p : PProg) (h : (p.fns.any fun f => f.name == "main") = false) :
    ⟨.mainMissing, .mainShape⟩ ∈ (checkProg true p).errs := by
  simp [checkProg, h]

theorem main_params (fns globals : List (String × Ty)) (f : PFn) (hm : f.name = "main") (h : f.params ≠ []) :
    ⟨.mainParams, .mainShape⟩ ∈ (checkFn fns globals f).1 := by
  have hmb : (f.name == "main") = true := by simp [hm]
  have hl : f.params.length > 0 := by
    cases hh : f.params with
    | nil => exact absurd hh h
    | cons a as => simp
  simp [checkFn, hmb, hl]

theorem main_return (fns globals : List (String × Ty)) (f : PFn) (hm : f.name = "main")
    (h1 : (convertType true f.ret).2.kind ≠ .unknown) (h2 : (convertType true f.ret).2.kind ≠ .null) :
    ⟨.mainReturn, .mainShape⟩ ∈ (checkFn fns globals f).1 := by
  have hmb : (f.name == "main") = true := by simp [hm]
  simp [checkFn, hmb, h1, h2]

/-! ### errors reach the program -/

theorem fn_errors_reach_program (p : PProg) (needMain : Bool) (e : Err)
    (h : e ∈ (checkFns (p.fns.map fun f => (f.name, fnSig f))
      (checkGlobals (p.fns.map fun f => (f.name, fnSig f)) hostScope p.globals).vars p.fns).1) :
    e ∈ (checkProg needMain p).errs := by
  simp [checkProg, h]

theorem checkFns_mem (fns globals : List (String × Ty)) (fs : List PFn) (f : PFn) (e : Err) (hf : f ∈ fs)
    (h : e ∈ (checkFn fns globals f).1) : e ∈ (checkFns fns globals fs).1 := by
  induction fs with
  | nil => cases hf
  | cons g rest ih =>
    simp only [checkFns, List.mem_append]
    cases hf with
    | head => exact Or.inl h
    | tail _ hr => exact Or.inr (ih hr)

theorem stmts_mem_head (Γ : Ctx) (st : PStmt) (rest : PStmts) (e : Err) (h : e ∈ (checkStmt Γ st).errs) :
    e ∈ (checkStmts Γ (.cons st rest)).errs := by
  simp [checkStmts, h]

theorem stmts_mem_tail (Γ : Ctx) (st : PStmt) (rest : PStmts) (e : Err)
    (h : e ∈ (checkStmts { Γ with vars := (checkStmt Γ st).vars } rest).errs) :
    e ∈ (checkStmts Γ (.cons st rest)).errs := by
  simp [checkStmts, h]

theorem block_mem_stmts (Γ : Ctx) (ss : PStmts) (e : Err) (h : e ∈ (checkStmts Γ ss).errs) :
    e ∈ (checkBlock Γ (.mkNoTail ss)).errs := by
  simp [checkBlock, h]

theorem block_mem_stmts' (Γ : Ctx) (ss : PStmts) (t : PExpr) (e : Err) (h : e ∈ (checkStmts Γ ss).errs) :
    e ∈ (checkBlock Γ (.mk ss t)).errs := by
  simp [checkBlock, h]

theorem fn_mem_body (fns globals : List (String × Ty)) (f : PFn) (e : Err) (hm : f.name ≠ "main")
    (h : e ∈ (checkBlock { vars := paramScope [] (convertParamList f.params).2 ++ globals, fns := fns,
                           ret := some (curRet fns f.name), inLoop := false } f.body).errs) :
    e ∈ (checkFn fns globals f).1 := by
  have hm' : (f.name == "main") = false := by simpa using hm
  simp [checkFn, hm', h]

theorem main_mem_body (fns globals : List (String × Ty)) (f : PFn) (e : Err) (hm : f.name = "main")
    (h : e ∈ (checkBlock { vars := globals, fns := fns, ret := some (curRet fns f.name), inLoop := false } f.body).errs) :
    e ∈ (checkFn fns globals f).1 := by
  have hmb : (f.name == "main") = true := by simp [hm]
  simp only [checkFn, hmb, ↓reduceIte, paramScope, List.nil_append]
  simp [h]

end HmsProofs.Lemmas.Check
