import HmsProofs.Lemmas.SimStraight
import HmsProofs.Lemmas.SimRename
/-!
# From emitted code to VM code: `relocate` then `renameVars`

A fragment `frag` emitted into a function's symbolic code `pre ++ frag ++ post` ends up, in the
code the VM runs, at instruction index `(stripLabels pre).length`, lowered through the label
resolution of the whole function and its slot assignment (`codeAt_of_compiled`).
-/
namespace HmsProofs.Sim
open Hms.Core Hms.Core.Comp Hms.Core.VM

/-- `relocate` followed by `renameVars` is one instruction-wise lowering. -/
theorem renameVars_relocate (code : SCode) (r : NCode) (h : relocate code = some r) :
    renameVars r = (stripLabels code).map (lower (labelIndex code) (slotFn r)) := by
  rw [renameVars_eq_map]
  conv => lhs; arg 2; rw [relocate_some code r h]
  rw [List.map_map]
  apply List.map_congr_left
  intro p _
  simp only [Function.comp, resolve, lower, mapLV_mapLV]
  rfl

theorem CodeAt.mid (a b c : List (RInstr × Span)) : CodeAt (a ++ b ++ c) a.length b := by
  intro k hk
  rw [List.append_assoc, List.getElem?_append_right (by omega), List.getElem?_append_left (by omega)]
  congr 1; omega

theorem stripLabels_eq_self (xs : SCode) (h : ∀ p ∈ xs, isLabel p.1 = false) : stripLabels xs = xs := by
  unfold stripLabels
  rw [List.filter_eq_self]
  intro p hp
  simp [h p hp]

/-- **Code at pc.** -/
theorem codeAt_of_compiled (pre frag post : SCode) (r : NCode)
    (h : relocate (pre ++ frag ++ post) = some r) :
    CodeAt (renameVars r) (stripLabels pre).length
      ((stripLabels frag).map (lower (labelIndex (pre ++ frag ++ post)) (slotFn r))) := by
  rw [renameVars_relocate _ r h, stripLabels_append, stripLabels_append, List.map_append, List.map_append]
  have := CodeAt.mid ((stripLabels pre).map (lower (labelIndex (pre ++ frag ++ post)) (slotFn r)))
    ((stripLabels frag).map (lower (labelIndex (pre ++ frag ++ post)) (slotFn r)))
    ((stripLabels post).map (lower (labelIndex (pre ++ frag ++ post)) (slotFn r)))
  simpa using this

/-- Straight-line code contains no labels, so it is found verbatim (lowered). -/
theorem codeAt_straight (ρ : String → Option String) (e : Expr) (pre post : SCode) (r : NCode)
    (h : relocate (pre ++ cstraightSp ρ e ++ post) = some r) :
    CodeAt (renameVars r) (stripLabels pre).length
      ((cstraightSp ρ e).map (lower (labelIndex (pre ++ cstraightSp ρ e ++ post)) (slotFn r))) := by
  have := codeAt_of_compiled pre (cstraightSp ρ e) post r h
  rwa [stripLabels_eq_self _ (fun p hp => (cstraightSp_plain ρ _ e (Nat.le_refl _) p hp).1)] at this

end HmsProofs.Sim
