import HmsProofs.Lemmas.CheckBasic
/-! Soundness of the checker (C03): a result without error-level diagnostics is a derivation
of the declarative typing relation with the recorded attributes. Mutual structural recursion
over the syntax. -/
set_option linter.unusedSimpArgs false

namespace HmsProofs.Lemmas.Check
open Hms.Check

theorem callee_bad_ne {t : Ty} {ps ret} (h : callee t = .fn ps ret) : t = .fn ps ret := by
  cases t <;> simp [callee] at h ⊢
  exact h

theorem replicate_nil {α} {n : Nat} {a : α} (h : List.replicate n a = []) : n = 0 := by
  cases n <;> simp_all [List.replicate]

theorem prod_eq_of_fst {α β} {p : α × β} {a : α} (h : p.1 = a) : p = (a, p.2) := by
  cases p; simp_all

theorem sound_ident (Γ : Ctx) (s : Bool) (name : String) (h : (wrap s (identRes Γ name)).errs = []) :
    HasType Γ s (.ident name) (wrap s (identRes Γ name)).ty (wrap s (identRes Γ name)).ex (wrap s (identRes Γ name)).cst
      (wrap s (identRes Γ name)).tys := by
  simp only [identRes] at h ⊢
  cases hl : Γ.lookup name with
  | none => simp only [hl] at h; have := (wrap_errs_nil h).1; simp at this
  | some t =>
    simp only [hl] at h ⊢
    obtain ⟨_, hany⟩ := wrap_errs_nil h
    rw [wrap_of_ok hany]; exact HasType.mk (Raw.ident hl) hany

theorem sound_let (Γ : Ctx) (name : String) (ann : Option PTy) (r : Res) {e : PExpr}
    (ihe : r.errs = [] → HasType Γ false e r.ty r.ex r.cst r.tys)
    (h : (letRule Γ name ann r false).errs = []) :
    StmtOK Γ (.letS name ann e) (letRule Γ name ann r false).ty (letRule Γ name ann r false).ex
      (letRule Γ name ann r false).tys (letRule Γ name ann r false).vars := by
  simp only [letRule, Bool.false_and, Bool.false_eq_true, ↓reduceIte, List.append_nil, List.append_eq_nil_iff] at h ⊢
  exact StmtOK.letS (ihe h.1) (letVarTy_sound h.2)

set_option maxHeartbeats 2000000 in
mutual
theorem sound_expr : (e : PExpr) → ∀ (Γ : Ctx) (s : Bool), (checkExpr Γ s e).errs = [] →
    HasType Γ s e (checkExpr Γ s e).ty (checkExpr Γ s e).ex (checkExpr Γ s e).cst (checkExpr Γ s e).tys
  | .int v, Γ, s => by
    intro h; simp only [checkExpr] at h ⊢
    obtain ⟨_, hany⟩ := wrap_errs_nil h
    rw [wrap_of_ok hany]; exact HasType.mk Raw.int hany
  | .float v, Γ, s => by
    intro h; simp only [checkExpr] at h ⊢
    obtain ⟨_, hany⟩ := wrap_errs_nil h
    rw [wrap_of_ok hany]; exact HasType.mk Raw.float hany
  | .bool v, Γ, s => by
    intro h; simp only [checkExpr] at h ⊢
    obtain ⟨_, hany⟩ := wrap_errs_nil h
    rw [wrap_of_ok hany]; exact HasType.mk Raw.bool hany
  | .str v, Γ, s => by
    intro h; simp only [checkExpr] at h ⊢
    obtain ⟨_, hany⟩ := wrap_errs_nil h
    rw [wrap_of_ok hany]; exact HasType.mk Raw.str hany
  | .null, Γ, s => by
    intro h; simp only [checkExpr] at h ⊢
    obtain ⟨_, hany⟩ := wrap_errs_nil h
    rw [wrap_of_ok hany]; exact HasType.mk Raw.null hany
  | .none, Γ, s => by
    intro h; simp only [checkExpr] at h ⊢
    obtain ⟨_, hany⟩ := wrap_errs_nil h
    rw [wrap_of_ok hany]; exact HasType.mk Raw.none hany
  | .anyobj, Γ, s => by
    intro h; simp only [checkExpr] at h ⊢
    obtain ⟨_, hany⟩ := wrap_errs_nil h
    rw [wrap_of_ok hany]; exact HasType.mk Raw.anyobj hany
  | .ident name, Γ, s => by
    intro h; simp only [checkExpr] at h ⊢
    cases hl : Γ.lookup name with
    | none => simp only [hl] at h; have := (wrap_errs_nil h).1; simp at this
    | some t =>
      simp only [hl] at h ⊢
      obtain ⟨_, hany⟩ := wrap_errs_nil h
      rw [wrap_of_ok hany]; exact HasType.mk (Raw.ident hl) hany
  | .range a b incl, Γ, s => by
    have iha := sound_expr a Γ true
    have ihb := sound_expr b Γ true
    intro h; simp only [checkExpr] at h ⊢
    obtain ⟨h1, hany⟩ := wrap_errs_nil h
    simp only [List.append_eq_nil_iff] at h1
    obtain ⟨⟨⟨ha, hb⟩, hta⟩, htb⟩ := h1
    rw [wrap_of_ok hany]
    exact HasType.mk (Raw.range (iha ha) (ihb hb) (compat_iff.mpr (by simpa using hta)) (compat_iff.mpr (by simpa using htb))) hany
  | .list xs, Γ, s => by
    have ih := sound_elems xs Γ .any
    intro h; simp only [checkExpr] at h ⊢
    obtain ⟨h1, hany⟩ := wrap_errs_nil h
    rw [wrap_of_ok hany]; exact HasType.mk (Raw.list (ih h1)) hany
  | .obj fs, Γ, s => by
    have ih := sound_fields fs Γ []
    intro h; simp only [checkExpr] at h ⊢
    obtain ⟨h1, hany⟩ := wrap_errs_nil h
    rw [wrap_of_ok hany]; exact HasType.mk (Raw.obj (ih h1)) hany
  | .lambda params ret body, Γ, s => by
    have ih := sound_block body
    intro h; simp only [checkExpr] at h ⊢
    obtain ⟨h1, hany⟩ := wrap_errs_nil h
    simp only [List.append_eq_nil_iff] at h1
    obtain ⟨⟨⟨⟨hdup, hps⟩, hrt⟩, hb⟩, htc⟩ := h1
    rw [wrap_of_ok hany]
    exact HasType.mk (Raw.lambda (prod_eq_of_fst hps) (replicate_nil hdup) (prod_eq_of_fst hrt) (ih _ hb) (tcErr_nil htc)) hany
  | .grp e, Γ, s => by
    have ih := sound_expr e Γ true
    intro h; simp only [checkExpr] at h ⊢
    obtain ⟨h1, hany⟩ := wrap_errs_nil h
    rw [wrap_of_ok hany]; exact HasType.mk (Raw.grp (ih h1)) hany
  | .pre op e, Γ, s => by
    have ih := sound_expr e Γ true
    intro h; simp only [checkExpr] at h ⊢
    cases hres : prefixResult op (checkExpr Γ true e).ty with
    | none => simp only [hres] at h; have := (wrap_errs_nil h).1; simp at this
    | some t =>
      simp only [hres] at h ⊢
      obtain ⟨h1, hany⟩ := wrap_errs_nil h
      rw [wrap_of_ok hany]; exact HasType.mk (Raw.pre (ih h1) hres) hany
  | .infix op l r, Γ, s => by
    have ihl := sound_expr l Γ true
    have ihr := sound_expr r Γ true
    intro h; simp only [checkExpr] at h ⊢
    cases hres : infixResult op (checkExpr Γ true l).ty with
    | none => simp only [hres] at h; have := (wrap_errs_nil h).1; simp at this
    | some t =>
      simp only [hres] at h ⊢
      obtain ⟨h1, hany⟩ := wrap_errs_nil h
      simp only [List.append_eq_nil_iff] at h1
      obtain ⟨⟨ha, hb⟩, htc⟩ := h1
      rw [wrap_of_ok hany]
      exact HasType.mk (Raw.infix (ihl ha) (ihr hb) (tcErr_nil htc) hres) hany
  | .assign op l r, Γ, s => by
    have ihl := sound_expr l Γ true
    have ihr := sound_expr r Γ true
    intro h; simp only [checkExpr] at h ⊢
    obtain ⟨h1, hany⟩ := wrap_errs_nil h
    simp only [List.append_eq_nil_iff] at h1
    obtain ⟨⟨⟨ha, hb⟩, htc⟩, hop⟩ := h1
    rw [wrap_of_ok hany]
    refine HasType.mk (Raw.assign (ihl ha) (ihr hb) (tcErr_nil htc) ?_) hany
    rw [htc] at hop
    cases hok : assignOk op (checkExpr Γ true l).ty <;> simp_all
  | .call base args, Γ, s => by
    have ihb := sound_expr base Γ true
    have iha := sound_args args Γ
    intro h; simp only [checkExpr] at h ⊢
    cases hc : callee (checkExpr Γ true base).ty with
    | fn ps ret =>
      simp only [hc] at h ⊢
      by_cases hlen : args.length = ps.length
      · simp only [hlen, bne_self_eq_false, Bool.false_eq_true, ↓reduceIte] at h ⊢
        obtain ⟨h1, hany⟩ := wrap_errs_nil h
        simp only [List.append_eq_nil_iff] at h1
        rw [wrap_of_ok hany]
        exact HasType.mk (Raw.callFn (ihb h1.1) hc hlen (iha _ _ h1.2)) hany
      · have : (args.length != ps.length) = true := by simpa using hlen
        simp only [this, ↓reduceIte] at h
        have := (wrap_errs_nil h).1; simp at this
    | var ps rest ret =>
      simp only [hc] at h ⊢
      cases hlen : (ps.length != 0 && decide (args.length < ps.length)) with
      | true => simp only [hlen, ↓reduceIte] at h; have := (wrap_errs_nil h).1; simp at this
      | false =>
        simp only [hlen, Bool.false_eq_true, ↓reduceIte] at h ⊢
        obtain ⟨h1, hany⟩ := wrap_errs_nil h
        simp only [List.append_eq_nil_iff] at h1
        rw [wrap_of_ok hany]
        refine HasType.mk (Raw.callVar (ihb h1.1) hc ?_ (iha _ _ h1.2)) hany
        simp only [Bool.and_eq_false_imp, bne_iff_ne, ne_eq, decide_eq_false_iff_not, Nat.not_lt] at hlen
        by_cases h0 : ps.length = 0
        · exact Or.inl h0
        · exact Or.inr (hlen h0)
    | div =>
      simp only [hc] at h ⊢
      obtain ⟨h1, hany⟩ := wrap_errs_nil h
      rw [wrap_of_ok hany]; exact HasType.mk (Raw.callDiv (ihb h1) hc) hany
    | bad => simp only [hc] at h; have := (wrap_errs_nil h).1; simp at this
  | .spawn name args, Γ, s => by
    have iha := sound_sargs args Γ
    intro h; simp only [checkExpr] at h ⊢
    cases hc : callee (wrap true (identRes Γ name)).ty with
    | fn ps ret =>
      simp only [hc] at h ⊢
      by_cases hlen : args.length = ps.length
      · simp only [hlen, bne_self_eq_false, Bool.false_eq_true, ↓reduceIte] at h ⊢
        obtain ⟨h1, hany⟩ := wrap_errs_nil h
        simp only [List.append_eq_nil_iff] at h1
        rw [wrap_of_ok hany]
        exact HasType.mk (Raw.spawnFn (sound_ident Γ true name h1.1.1) hc (spawnTargetErr_nil h1.2) hlen (iha _ _ h1.1.2)) hany
      · have : (args.length != ps.length) = true := by simpa using hlen
        simp only [this, ↓reduceIte] at h
        have := (wrap_errs_nil h).1; simp at this
    | var ps rest ret =>
      simp only [hc] at h ⊢
      cases hlen : (ps.length != 0 && decide (args.length < ps.length)) with
      | true => simp only [hlen, ↓reduceIte] at h; have := (wrap_errs_nil h).1; simp at this
      | false =>
        simp only [hlen, Bool.false_eq_true, ↓reduceIte] at h ⊢
        obtain ⟨h1, hany⟩ := wrap_errs_nil h
        simp only [List.append_eq_nil_iff] at h1
        rw [wrap_of_ok hany]
        refine HasType.mk (Raw.spawnVar (sound_ident Γ true name h1.1.1) hc (spawnTargetErr_nil h1.2) ?_ (iha _ _ h1.1.2)) hany
        simp only [Bool.and_eq_false_imp, bne_iff_ne, ne_eq, decide_eq_false_iff_not, Nat.not_lt] at hlen
        by_cases h0 : ps.length = 0
        · exact Or.inl h0
        · exact Or.inr (hlen h0)
    | div =>
      simp only [hc] at h ⊢
      obtain ⟨h1, hany⟩ := wrap_errs_nil h
      rw [wrap_of_ok hany]; exact HasType.mk (Raw.spawnDiv (sound_ident Γ true name h1) hc) hany
    | bad => simp only [hc] at h; have := (wrap_errs_nil h).1; simp at this
  | .index b i, Γ, s => by
    have ihb := sound_expr b Γ true
    have ihi := sound_expr i Γ true
    intro h; simp only [checkExpr] at h ⊢
    cases hr : indexRule (checkExpr Γ true b).ty (checkExpr Γ true i).ty (isStrLit i) with
    | none => simp only [hr] at h; have := (wrap_errs_nil h).1; simp at this
    | some t =>
      simp only [hr] at h ⊢
      obtain ⟨h1, hany⟩ := wrap_errs_nil h
      simp only [List.append_eq_nil_iff] at h1
      rw [wrap_of_ok hany]; exact HasType.mk (Raw.index (ihb h1.1) (ihi h1.2) hr) hany
  | .member b name op, Γ, s => by
    have ihb := sound_expr b Γ false
    intro h; simp only [checkExpr] at h ⊢
    cases hr : memberRule (checkExpr Γ false b).ty name op with
    | none =>
      simp only [hr] at h
      split at h
      · have := (wrap_errs_nil h).1; simp at this
      · cases op <;> simp only at h <;> (have := (wrap_errs_nil h).1; simp at this)
    | some t =>
      simp only [hr] at h ⊢
      obtain ⟨h1, hany⟩ := wrap_errs_nil h
      rw [wrap_of_ok hany]; exact HasType.mk (Raw.member (ihb h1) hr) hany
  | .cast e t, Γ, s => by
    have ihb := sound_expr e Γ false
    intro h; simp only [checkExpr] at h ⊢
    obtain ⟨h1, hany⟩ := wrap_errs_nil h
    simp only [List.append_eq_nil_iff] at h1
    obtain ⟨⟨hb, hc⟩, hown⟩ := h1
    rw [wrap_of_ok hany]
    refine HasType.mk (Raw.cast (ihb hb) (prod_eq_of_fst hc) ?_) hany
    cases hok : castOK (checkExpr Γ false e).ty (convertType true t).2 with
    | true => rfl
    | false =>
      simp only [hok, Bool.false_eq_true, ↓reduceIte] at hown
      split at hown <;> simp at hown
  | .blk b, Γ, s => by
    have ih := sound_block b Γ
    intro h; simp only [checkExpr] at h ⊢
    obtain ⟨h1, hany⟩ := wrap_errs_nil h
    rw [wrap_of_ok hany]; exact HasType.mk (Raw.blk (ih h1)) hany
  | .ifElse c t e, Γ, s => by
    have ihc := sound_expr c Γ true
    have iht := sound_block t Γ
    have ihe := sound_block e Γ
    intro h; simp only [checkExpr] at h ⊢
    obtain ⟨h1, hany⟩ := wrap_errs_nil h
    simp only [List.append_eq_nil_iff] at h1
    obtain ⟨⟨⟨⟨hc, hcb⟩, ht⟩, he⟩, hbr⟩ := h1
    simp only [hbr, List.isEmpty_nil, Bool.not_true, Bool.false_eq_true, ↓reduceIte] at hany ⊢
    rw [wrap_of_ok hany]
    exact HasType.mk (Raw.ifElse (ihc hc) (tcErr_nil hcb) (iht ht) (ihe he) (tcErr_nil hbr)) hany
  | .ifThen c t, Γ, s => by
    have ihc := sound_expr c Γ true
    have iht := sound_block t Γ
    intro h; simp only [checkExpr] at h ⊢
    cases htc : typeCheck true (checkBlock Γ t).ty Ty.null with
    | some m =>
      simp only [htc, Option.isSome_some, ↓reduceIte] at h
      have := (wrap_errs_nil h).1; simp at this
    | none =>
      simp only [htc, Option.isSome_none, Bool.false_eq_true, ↓reduceIte] at h ⊢
      obtain ⟨h1, hany⟩ := wrap_errs_nil h
      simp only [List.append_eq_nil_iff, and_true] at h1
      obtain ⟨⟨hc, hcb⟩, ht⟩ := h1
      rw [wrap_of_ok hany]
      exact HasType.mk (Raw.ifThen (ihc hc) (tcErr_nil hcb) (iht ht) (compat_iff.mpr htc)) hany
  | .matchE c arms, Γ, s => by
    have ihc := sound_expr c Γ true
    have iha := sound_arms arms Γ
    intro h; simp only [checkExpr] at h ⊢
    obtain ⟨h1, hany⟩ := wrap_errs_nil h
    simp only [List.append_eq_nil_iff] at h1
    obtain ⟨⟨hc, ha⟩, hm⟩ := h1
    obtain ⟨hhad, hok⟩ := iha (checkExpr Γ true c).ty {} rfl ha
    simp only [hhad, Bool.false_eq_true, ↓reduceIte] at hm hany ⊢
    rw [wrap_of_ok hany]
    refine HasType.mk (Raw.matchE (ihc hc) hok ?_) hany
    cases hd : (checkArms Γ (checkExpr Γ true c).ty {} arms).st.dflt with
    | some d => exact Or.inl rfl
    | none =>
      right
      simp only [hd, Option.isNone_none, Bool.true_and, Option.isSome_none] at hm ⊢
      cases htc : typeCheck true Ty.null
          (matchTy false arms.isEmpty (checkArms Γ (checkExpr Γ true c).ty {} arms).st.rt) with
      | none => exact compat_iff.mpr htc
      | some m => simp [htc] at hm
  | .tryE t name c, Γ, s => by
    have iht := sound_block t Γ
    have ihc := sound_block c (Γ.bind name errorTy)
    intro h; simp only [checkExpr] at h ⊢
    obtain ⟨h1, hany⟩ := wrap_errs_nil h
    simp only [List.append_eq_nil_iff] at h1
    obtain ⟨⟨ht, hc⟩, hbr⟩ := h1
    simp only [hbr, List.isEmpty_nil, Bool.not_true, Bool.false_eq_true, ↓reduceIte] at hany ⊢
    rw [wrap_of_ok hany]
    exact HasType.mk (Raw.tryE (iht ht) (ihc hc) (tcErr_nil hbr)) hany
theorem sound_elems : (xs : PExprs) → ∀ (Γ : Ctx) (lt : Ty), (checkElems Γ lt xs).errs = [] →
    ElemsOK Γ lt xs (checkElems Γ lt xs).lt (checkElems Γ lt xs).ex (checkElems Γ lt xs).cst (checkElems Γ lt xs).tys
  | .nil, Γ, lt => by intro _; simp only [checkElems]; exact ElemsOK.nil
  | .cons x xs, Γ, lt => by
    have ihx := sound_expr x Γ true
    have ihr := sound_elems xs Γ
    intro h; simp only [checkElems] at h ⊢
    simp only [List.append_eq_nil_iff] at h
    obtain ⟨⟨hx, hown⟩, hr⟩ := h
    cases hok : elemOK (checkExpr Γ true x).ty lt with
    | false =>
      simp only [hok, Bool.false_eq_true, ↓reduceIte] at hown
      have htc := tcErr_nil' hown
      simp [elemOK, htc] at hok
    | true =>
      simp only [hok, ↓reduceIte] at hr ⊢
      exact ElemsOK.cons (ihx hx) hok (ihr _ hr)
theorem sound_fields : (fs : PFields) → ∀ (Γ : Ctx) (seen : List String), (checkFields Γ seen fs).errs = [] →
    FieldsOK Γ seen fs (checkFields Γ seen fs).fields (checkFields Γ seen fs).ex (checkFields Γ seen fs).cst
      (checkFields Γ seen fs).tys
  | .nil, Γ, seen => by intro _; simp only [checkFields]; exact FieldsOK.nil
  | .cons k e rest, Γ, seen => by
    have ihe := sound_expr e Γ true
    have ihr := sound_fields rest Γ
    intro h; simp only [checkFields] at h ⊢
    by_cases hb : k ∈ builtinFieldNames
    · simp [hb] at h
    · simp only [List.contains_eq_mem, hb, decide_false, Bool.false_eq_true, ↓reduceIte] at h ⊢
      by_cases hs : k ∈ seen
      · simp [hs] at h
      · simp only [hs, decide_false, Bool.false_eq_true, ↓reduceIte] at h ⊢
        simp only [List.append_eq_nil_iff] at h
        exact FieldsOK.cons (by simpa using hb) (by simpa using hs) (ihe h.1) (ihr _ h.2)
theorem sound_args : (as : PExprs) → ∀ (Γ : Ctx) (ps : List Ty) (rest : Option Ty), (checkArgs Γ ps rest as).errs = [] →
    ArgsOK Γ ps rest as (checkArgs Γ ps rest as).ex (checkArgs Γ ps rest as).tys
  | .nil, Γ, ps, rest => by intro _; simp only [checkArgs]; exact ArgsOK.nil
  | .cons a as, Γ, ps, rest => by
    have iha := sound_expr a Γ true
    have ihr := sound_args as Γ
    intro h; simp only [checkArgs] at h ⊢
    simp only [List.append_eq_nil_iff] at h
    obtain ⟨⟨ha, hown⟩, hr⟩ := h
    cases hk : ((checkExpr Γ true a).ty.kind == Kind.null) with
    | true => simp [hk] at hown
    | false =>
      simp only [hk, Bool.false_eq_true, ↓reduceIte] at hown ⊢
      simp only [hown, List.isEmpty_nil, ↓reduceIte]
      exact ArgsOK.cons (iha ha) (by simpa using hk) (tcErr_nil hown) (ihr _ _ hr)
theorem sound_sargs : (as : PExprs) → ∀ (Γ : Ctx) (ps : List Ty) (rest : Option Ty), (checkSpawnArgs Γ ps rest as).errs = [] →
    SpawnArgsOK Γ ps rest as (checkSpawnArgs Γ ps rest as).ex (checkSpawnArgs Γ ps rest as).tys
  | .nil, Γ, ps, rest => by intro _; simp only [checkSpawnArgs]; exact SpawnArgsOK.nil
  | .cons a as, Γ, ps, rest => by
    have iha := sound_expr a Γ true
    have ihr := sound_sargs as Γ
    intro h; simp only [checkSpawnArgs] at h ⊢
    simp only [List.append_eq_nil_iff] at h
    obtain ⟨⟨ha, hown⟩, hr⟩ := h
    cases hk : ((checkExpr Γ true a).ty.kind == Kind.null) with
    | true => simp [hk] at hown
    | false =>
      cases hf : ((checkExpr Γ true a).ty.kind == Kind.fn) with
      | true => simp [hk, hf] at hown
      | false =>
        simp only [hk, hf, Bool.false_eq_true, ↓reduceIte] at hown ⊢
        simp only [hown, List.isEmpty_nil, ↓reduceIte]
        exact SpawnArgsOK.cons (iha ha) (by simpa using hk) (by simpa using hf) (tcErr_nil hown) (ihr _ _ hr)
theorem sound_arms : (arms : PArms) → ∀ (Γ : Ctx) (ctl : Ty) (st : MSt), st.hadErr = false →
    (checkArms Γ ctl st arms).errs = [] →
    (checkArms Γ ctl st arms).st.hadErr = false ∧
    ArmsOK Γ ctl st.rt st.dflt arms (checkArms Γ ctl st arms).st.rt (checkArms Γ ctl st arms).st.dflt
      (checkArms Γ ctl st arms).ex (checkArms Γ ctl st arms).tys
  | .nil, Γ, ctl, st => by intro hst _; simp only [checkArms]; exact ⟨hst, ArmsOK.nil⟩
  | .cons lits act rest, Γ, ctl, st => by
    have iha := sound_expr act Γ true
    have ihl := sound_lits lits Γ ctl
    have ihr := sound_arms rest Γ ctl
    intro hst h
    simp only [checkArms, hst, Bool.false_eq_true, ↓reduceIte] at h ⊢
    cases hj : armJoin st.rt (checkExpr Γ true act).ty with
    | none =>
      simp only [hj] at h
      have hne : tcErr true (checkExpr Γ true act).ty st.rt Rule.branchMismatch ≠ [] := by
        intro hnil
        have htc := tcErr_nil' hnil
        simp only [armJoin, htc, Option.isNone_none, ↓reduceIte] at hj
        split at hj <;> simp at hj
      split at h <;> simp only [List.append_eq_nil_iff] at h <;> simp_all
    | some t =>
      simp only [hj] at h ⊢
      cases hd : lits.hasDefault with
      | true =>
        simp only [hd, ↓reduceIte] at h ⊢
        simp only [List.append_eq_nil_iff, List.nil_append, and_true] at h
        obtain ⟨ha, hr⟩ := h
        have := ihr { rt := t, dflt := some (checkExpr Γ true act).tys } rfl hr
        exact ⟨this.1, ArmsOK.dflt (iha ha) hj hd this.2⟩
      | false =>
        simp only [hd, Bool.false_eq_true, ↓reduceIte] at h ⊢
        simp only [List.append_eq_nil_iff, List.nil_append, and_true] at h
        obtain ⟨⟨ha, hl⟩, hr⟩ := h
        have := ihr { rt := t, dflt := st.dflt } rfl hr
        exact ⟨this.1, ArmsOK.lits (iha ha) hj hd (ihl hl) this.2⟩
theorem sound_lits : (lits : PLits) → ∀ (Γ : Ctx) (ctl : Ty), (checkLits Γ ctl lits).errs = [] →
    LitsOK Γ ctl lits (checkLits Γ ctl lits).ex (checkLits Γ ctl lits).tys
  | .nil, Γ, ctl => by intro _; simp only [checkLits]; exact LitsOK.nil
  | .dflt rest, Γ, ctl => by
    have ih := sound_lits rest Γ ctl
    intro h; simp only [checkLits] at h ⊢; exact LitsOK.dflt (ih h)
  | .lit e rest, Γ, ctl => by
    have ihe := sound_expr e Γ true
    have ihr := sound_lits rest Γ ctl
    intro h; simp only [checkLits] at h ⊢
    simp only [List.append_eq_nil_iff] at h
    exact LitsOK.lit (ihe h.1.1) (tcErr_nil h.1.2) (ihr h.2)
theorem sound_stmt : (st : PStmt) → ∀ (Γ : Ctx), (checkStmt Γ st).errs = [] →
    StmtOK Γ st (checkStmt Γ st).ty (checkStmt Γ st).ex (checkStmt Γ st).tys (checkStmt Γ st).vars
  | .letS name ann e, Γ => by
    have ihe := sound_expr e Γ false
    intro h; simp only [checkStmt] at h ⊢
    exact sound_let Γ name ann _ (fun he => ihe he) h
  | .ret e, Γ => by
    have ihe := sound_expr e Γ true
    intro h; simp only [checkStmt] at h ⊢
    simp only [List.append_eq_nil_iff] at h
    cases hr : Γ.ret with
    | none => simp [hr] at h
    | some rt =>
      simp only [hr] at h
      exact StmtOK.ret (ihe h.1) hr (tcErr_nil h.2)
  | .retNone, Γ => by
    intro h; simp only [checkStmt] at h ⊢
    cases hr : Γ.ret with
    | none => simp [hr] at h
    | some rt =>
      simp only [hr] at h
      exact StmtOK.retNone hr (tcErr_nil h)
  | .brk, Γ => by
    intro h; simp only [checkStmt] at h ⊢
    cases hl : Γ.inLoop with
    | false => simp [hl] at h
    | true => exact StmtOK.brk hl
  | .cont, Γ => by
    intro h; simp only [checkStmt] at h ⊢
    cases hl : Γ.inLoop with
    | false => simp [hl] at h
    | true => exact StmtOK.cont hl
  | .loopS b, Γ => by
    have ih := sound_block b { Γ with inLoop := true }
    intro h; simp only [checkStmt] at h ⊢
    simp only [List.append_eq_nil_iff] at h
    exact StmtOK.loopS (ih h.1) (loopBodyErr_nil h.2)
  | .whileS c b, Γ => by
    have ihc := sound_expr c Γ true
    have ih := sound_block b { Γ with inLoop := true }
    intro h; simp only [checkStmt] at h ⊢
    simp only [List.append_eq_nil_iff] at h
    obtain ⟨⟨⟨hc, hcb⟩, hb⟩, hl⟩ := h
    exact StmtOK.whileS (ihc hc) (tcErr_nil hcb) (ih hb) (loopBodyErr_nil hl)
  | .forS name it b, Γ => by
    have ihi := sound_expr it Γ true
    have ih := sound_block b
    intro h; simp only [checkStmt] at h ⊢
    cases hi : iterTy (checkExpr Γ true it).ty with
    | none => simp [hi] at h
    | some vt =>
      simp only [hi] at h ⊢
      simp only [List.append_eq_nil_iff, List.nil_append, and_true] at h
      obtain ⟨⟨hit, hb⟩, hl⟩ := h
      exact StmtOK.forS (ihi hit) hi (ih _ hb) (loopBodyErr_nil hl)
  | .exprS e, Γ => by
    have ihe := sound_expr e Γ true
    intro h; simp only [checkStmt] at h ⊢
    exact StmtOK.exprS (ihe h)
theorem sound_stmts : (ss : PStmts) → ∀ (Γ : Ctx), (checkStmts Γ ss).errs = [] →
    StmtsOK Γ ss (checkStmts Γ ss).never (checkStmts Γ ss).ex (checkStmts Γ ss).tys (checkStmts Γ ss).vars
  | .nil, Γ => by intro _; simp only [checkStmts]; exact StmtsOK.nil
  | .cons st rest, Γ => by
    have ihs := sound_stmt st Γ
    have ihr := sound_stmts rest
    intro h; simp only [checkStmts] at h ⊢
    simp only [List.append_eq_nil_iff] at h
    exact StmtsOK.cons (ihs h.1) (ihr _ h.2)
theorem sound_block : (b : PBlock) → ∀ (Γ : Ctx), (checkBlock Γ b).errs = [] →
    BlockOK Γ b (checkBlock Γ b).ty (checkBlock Γ b).ex (checkBlock Γ b).cst (checkBlock Γ b).tys
  | .mk ss e, Γ => by
    have ihs := sound_stmts ss Γ
    have ihe := sound_expr e
    intro h; simp only [checkBlock] at h ⊢
    simp only [List.append_eq_nil_iff] at h
    exact BlockOK.mk (ihs h.1) (ihe _ _ h.2)
  | .mkNoTail ss, Γ => by
    have ihs := sound_stmts ss Γ
    intro h; simp only [checkBlock] at h ⊢
    exact BlockOK.mkNoTail (ihs h)
end

end HmsProofs.Lemmas.Check
