import Hms.Parse.Normal
/-!
# Unfolding and inversion lemmas for the expression-parser model

One iteration of `parseE` is "parse a primary (`Prim`), then enter the loop"; one iteration of
`loop` is "stop, or perform one suffix operation (`Step`) and continue". Both views are proved
in the two directions needed: *inversion* (from a successful run) and *replay* (from the view
back to the function).
-/
namespace HmsProofs.Lemmas.Pratt
open Hms Hms.Pratt

/-- The derived `BEq` on token kinds compares constructor indices; it is lawful. -/
theorem tok_beq_iff (a b : TokKind) : (a == b) = true ↔ a = b := by
  constructor
  · intro h
    have h' : a.ctorIdx = b.ctorIdx := by
      simpa [BEq.beq, instBEqTokKind.beq] using h
    rw [← TokKind.ofNat_ctorIdx a, ← TokKind.ofNat_ctorIdx b, h']
  · rintro rfl
    simp [BEq.beq, instBEqTokKind.beq]

instance : LawfulBEq TokKind where
  eq_of_beq h := (tok_beq_iff _ _).1 h
  rfl := (tok_beq_iff _ _).2 rfl

/-- The inclusive-range lookahead of the loop (`..` followed by `=`). -/
def rangeSplit : List TokKind → Bool × List TokKind
  | .assign :: r => (true, r)
  | r => (false, r)

theorem loop_cons (prec : Prec) (f p : Nat) (lhs : Tree) (k : TokKind) (rest : List TokKind) :
    loop prec (f+1) p lhs (k :: rest) =
      if (prec k).1 > p then
        if k == .doubleDot then
          match parseE prec f 0 (rangeSplit rest).2 with
          | .ok (e, rest') => loop prec f p (.range lhs (rangeSplit rest).1 e) rest'
          | .error e => .error e
        else if isInfix k then
          match parseE prec f (prec k).2 rest with
          | .ok (r, rest') => loop prec f p (.bin lhs k r) rest'
          | .error e => .error e
        else if isAssign k then
          match parseE prec f (prec k).2 rest with
          | .ok (r, rest') =>
            if validAssignTarget lhs then loop prec f p (.asg lhs k r) rest'
            else .error .syntax
          | .error e => .error e
        else if k == .lParen then
          match parseArgs prec f .rParen rest with
          | .ok (xs, rest') => loop prec f p (.call lhs xs) rest'
          | .error e => .error e
        else if k == .lBracket then
          match parseE prec f 0 rest with
          | .ok (i, .rBracket :: rest') => loop prec f p (.index lhs i) rest'
          | .ok _ => .error .syntax
          | .error e => .error e
        else if isMemberOp k then
          match rest with
          | .identifier :: rest' => loop prec f p (.member lhs k .identifier) rest'
          | .underscore :: rest' => loop prec f p (.member lhs k .underscore) rest'
          | _ => .error .syntax
        else if k == .as then
          match rest with
          | .identifier :: rest' => loop prec f p (.cast lhs .identifier) rest'
          | _ => .error .unsupported
        else .error .syntax
      else .ok (lhs, k :: rest) := by
  cases rest with
  | nil => rfl
  | cons a r => cases a <;> rfl

theorem loop_nil (prec : Prec) (f p : Nat) (lhs : Tree) :
    loop prec (f+1) p lhs [] = .ok (lhs, []) := rfl

theorem loop_stop (prec : Prec) (f p : Nat) (lhs : Tree) (ts : List TokKind)
    (h : headLbp prec ts ≤ p) : loop prec (f+1) p lhs ts = .ok (lhs, ts) := by
  cases ts with
  | nil => rfl
  | cons k rest =>
    rw [loop_cons]
    have : ¬ (prec k).1 > p := by simpa [headLbp] using h
    simp [this]

/-! ## Token classes are disjoint -/

theorem infix_facts {k : TokKind} (h : isInfix k = true) :
    (k == .doubleDot) = false := by
  revert h; cases k <;> decide

theorem assign_facts {k : TokKind} (h : isAssign k = true) :
    (k == .doubleDot) = false ∧ isInfix k = false := by
  revert h; cases k <;> decide

theorem member_facts {k : TokKind} (h : isMemberOp k = true) :
    (k == .doubleDot) = false ∧ isInfix k = false ∧ isAssign k = false ∧ (k == .lParen) = false
      ∧ (k == .lBracket) = false := by
  revert h; cases k <;> decide

theorem prefix_facts {k : TokKind} (h : isPrefix k = true) :
    isAtom k = false ∧ (k == .lParen) = false := by
  revert h; cases k <;> decide

/-! ## Primaries -/

/-- `Prim prec n k rest lhs rest'`: with sub-call fuel `n`, the input `k :: rest` starts with the
primary `lhs`, leaving `rest'`. -/
inductive Prim (prec : Prec) (n : Nat) : TokKind → List TokKind → Tree → List TokKind → Prop
  | atom {k rest} : isAtom k = true → Prim prec n k rest (.atom k) rest
  | grp {rest e rest'} : parseE prec n 0 rest = .ok (e, .rParen :: rest') →
      Prim prec n .lParen rest (.grp e) rest'
  | pre {k rest e rest'} : isPrefix k = true → parseE prec n prefixBp rest = .ok (e, rest') →
      Prim prec n k rest (.pre k e) rest'
  | list {rest xs rest'} : parseArgs prec n .rBracket rest = .ok (xs, rest') →
      Prim prec n .lBracket rest (.list xs) rest'

theorem parseE_inv {prec : Prec} {n p : Nat} {ts : List TokKind} {r : Tree × List TokKind}
    (h : parseE prec (n+1) p ts = .ok r) :
    ∃ k rest lhs rest', ts = k :: rest ∧ Prim prec n k rest lhs rest'
      ∧ loop prec n p lhs rest' = .ok r := by
  cases ts with
  | nil => simp [parseE] at h
  | cons k rest =>
    rw [parseE.eq_3] at h
    split at h
    · exact ⟨_, _, _, _, rfl, .atom ‹_›, h⟩
    split at h
    · rename_i hk
      have hk : k = .lParen := by simpa using hk
      subst hk
      split at h
      · exact ⟨_, _, _, _, rfl, .grp ‹_›, h⟩
      · simp at h
      · simp at h
    split at h
    · split at h
      · exact ⟨_, _, _, _, rfl, .pre ‹_› ‹_›, h⟩
      · simp at h
    split at h
    · rename_i hk
      have hk : k = .lBracket := by simpa using hk
      subst hk
      split at h
      · exact ⟨_, _, _, _, rfl, .list ‹_›, h⟩
      · simp at h
    split at h <;> simp at h

theorem parseE_replay {prec : Prec} {n p : Nat} {k : TokKind} {rest rest' : List TokKind} {lhs : Tree}
    (h : Prim prec n k rest lhs rest') :
    parseE prec (n+1) p (k :: rest) = loop prec n p lhs rest' := by
  rw [parseE.eq_3]
  cases h with
  | atom hk => simp [hk]
  | grp he => simp [isAtom, he]
  | pre hk he => simp [hk, he, prefix_facts hk]
  | list ha => simp [isAtom, isPrefix, ha]

/-! ## Suffix operations -/

/-- `Step prec n lhs k rest lhs' rest'`: with sub-call fuel `n`, the loop at operator token `k`
(followed by `rest`) extends `lhs` to `lhs'`, leaving `rest'`. -/
inductive Step (prec : Prec) (n : Nat) (lhs : Tree) :
    TokKind → List TokKind → Tree → List TokKind → Prop
  | range {rest e rest'} : parseE prec n 0 (rangeSplit rest).2 = .ok (e, rest') →
      Step prec n lhs .doubleDot rest (.range lhs (rangeSplit rest).1 e) rest'
  | bin {k rest r rest'} : isInfix k = true → parseE prec n (prec k).2 rest = .ok (r, rest') →
      Step prec n lhs k rest (.bin lhs k r) rest'
  | asg {k rest r rest'} : isAssign k = true → validAssignTarget lhs = true →
      parseE prec n (prec k).2 rest = .ok (r, rest') →
      Step prec n lhs k rest (.asg lhs k r) rest'
  | call {rest xs rest'} : parseArgs prec n .rParen rest = .ok (xs, rest') →
      Step prec n lhs .lParen rest (.call lhs xs) rest'
  | index {rest i rest'} : parseE prec n 0 rest = .ok (i, .rBracket :: rest') →
      Step prec n lhs .lBracket rest (.index lhs i) rest'
  | member {k nm rest'} : isMemberOp k = true → (nm = .identifier ∨ nm = .underscore) →
      Step prec n lhs k (nm :: rest') (.member lhs k nm) rest'
  | cast {rest'} : Step prec n lhs .as (.identifier :: rest') (.cast lhs .identifier) rest'

theorem loop_inv {prec : Prec} {n p : Nat} {lhs : Tree} {ts : List TokKind}
    {r : Tree × List TokKind} (h : loop prec (n+1) p lhs ts = .ok r) :
    (headLbp prec ts ≤ p ∧ r = (lhs, ts)) ∨
    (∃ k rest lhs' rest', ts = k :: rest ∧ (prec k).1 > p ∧ Step prec n lhs k rest lhs' rest'
      ∧ loop prec n p lhs' rest' = .ok r) := by
  cases ts with
  | nil =>
    left
    simp only [loop_nil, Except.ok.injEq] at h
    exact ⟨by simp [headLbp], h.symm⟩
  | cons k rest =>
    rw [loop_cons] at h
    split at h
    · rename_i hp
      right
      refine ⟨k, rest, ?_⟩
      split at h
      · rename_i hk
        have hk : k = .doubleDot := by simpa using hk
        subst hk
        split at h
        · exact ⟨_, _, rfl, hp, .range ‹_›, h⟩
        · simp at h
      split at h
      · split at h
        · exact ⟨_, _, rfl, hp, .bin ‹_› ‹_›, h⟩
        · simp at h
      split at h
      · split at h
        · split at h
          · exact ⟨_, _, rfl, hp, .asg ‹_› ‹_› ‹_›, h⟩
          · simp at h
        · simp at h
      split at h
      · rename_i hk
        have hk : k = .lParen := by simpa using hk
        subst hk
        split at h
        · exact ⟨_, _, rfl, hp, .call ‹_›, h⟩
        · simp at h
      split at h
      · rename_i hk
        have hk : k = .lBracket := by simpa using hk
        subst hk
        split at h
        · exact ⟨_, _, rfl, hp, .index ‹_›, h⟩
        · simp at h
        · simp at h
      split at h
      · split at h
        · exact ⟨_, _, rfl, hp, .member ‹_› (.inl rfl), h⟩
        · exact ⟨_, _, rfl, hp, .member ‹_› (.inr rfl), h⟩
        · simp at h
      split at h
      · rename_i hk
        have hk : k = .as := by simpa using hk
        subst hk
        split at h
        · exact ⟨_, _, rfl, hp, .cast, h⟩
        · simp at h
      · simp at h
    · rename_i hp
      left
      simp only [Except.ok.injEq] at h
      exact ⟨by simpa [headLbp] using hp, h.symm⟩

theorem loop_replay {prec : Prec} {n p : Nat} {lhs lhs' : Tree} {k : TokKind}
    {rest rest' : List TokKind} (hp : (prec k).1 > p) (h : Step prec n lhs k rest lhs' rest') :
    loop prec (n+1) p lhs (k :: rest) = loop prec n p lhs' rest' := by
  rw [loop_cons]
  cases h with
  | range he => simp [hp, he]
  | bin hk he => simp [hp, hk, he, infix_facts hk]
  | asg hk hv he => simp [hp, hk, hv, he, assign_facts hk]
  | call ha => simp [hp, isInfix, isAssign, ha]
  | index he => simp [hp, isInfix, isAssign, he]
  | member hk hnm =>
    rcases hnm with rfl | rfl <;> simp [hp, hk, member_facts hk]
  | cast => simp [hp, isInfix, isAssign, isMemberOp]

/-! ## Argument lists -/

theorem parseArgs_inv {prec : Prec} {n : Nat} {close : TokKind} {ts out : List TokKind} {xs : Args}
    (h : parseArgs prec (n+1) close ts = .ok (xs, out)) :
    (∃ rest, ts = close :: rest ∧ xs = .nil ∧ out = rest) ∨
    (∃ e rest' xs', parseE prec n 0 ts = .ok (e, .comma :: rest')
        ∧ parseArgs prec n close rest' = .ok (xs', out) ∧ xs = .cons e xs') ∨
    (∃ e, parseE prec n 0 ts = .ok (e, close :: out) ∧ xs = .cons e .nil) := by
  cases ts with
  | nil => simp [parseArgs] at h
  | cons k rest =>
    rw [parseArgs.eq_3] at h
    split at h
    · rename_i hk
      have hk : k = close := by simpa using hk
      subst hk
      simp only [Except.ok.injEq, Prod.mk.injEq] at h
      exact .inl ⟨_, rfl, h.1.symm, h.2.symm⟩
    · split at h
      · split at h
        · simp only [Except.ok.injEq, Prod.mk.injEq] at h
          obtain ⟨rfl, rfl⟩ := h
          exact .inr (.inl ⟨_, _, _, ‹_›, ‹_›, rfl⟩)
        · simp at h
      · split at h
        · rename_i hk
          simp only [Except.ok.injEq, Prod.mk.injEq] at h
          obtain ⟨rfl, rfl⟩ := h
          have hk := eq_of_beq hk
          subst hk
          exact .inr (.inr ⟨_, ‹_›, rfl⟩)
        · simp at h
      · simp at h
      · simp at h

end HmsProofs.Lemmas.Pratt
