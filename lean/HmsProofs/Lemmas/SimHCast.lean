import HmsProofs.Lemmas.SimHRead
/-!
# Casts `e as T` to a scalar type: the specification's `castVal`, the VM's `Cast` instruction

Both sides run the same function `castVal castFuel v T true "" sp` (`value.DeepCast`); for a scalar target
type (`Frag.castTyOK`) it reads the heap only — to name the kind of a container in the error message — and
leaves the state as it is, so the instruction either replaces the top of the stack or raises the catchable
cast exception.
-/
namespace HmsProofs.Sim
open Hms.Core Hms.Core.Comp Hms.Core.VM

theorem evalExpr_cast (cfg fuel sp ty e st) :
    evalExpr cfg (fuel + 1) (.cast sp ty e) st =
      match evalExpr cfg fuel e st with
      | (.ok v, st1) => castVal castFuel v ty true "" sp st1
      | (.error c, st1) => (.error c, st1) := by
  rw [evalExpr, M_bind]
  rcases evalExpr cfg fuel e st with ⟨r, st1⟩
  cases r <;> rfl

/-! ## `castVal` to a scalar type reads the heap and nothing else, and never writes -/

theorem HeapOnly.bind {α β} {x : M α} {f : α → M β} (hx : HeapOnly x) (hf : ∀ a, HeapOnly (f a)) :
    HeapOnly (x >>= f) := by
  intro st st' h
  rw [M_bind, M_bind, hx st st' h]
  have hs := hx.state st
  rcases hxs : x st with ⟨r, st1⟩
  rw [hxs] at hs
  simp only at hs
  subst hs
  cases r with
  | error c => rfl
  | ok a => exact hf a st1 st' h

theorem HeapOnly.const {α} (r : Except Ctl α) : HeapOnly (fun st => (r, st) : M α) := fun _ _ _ => rfl

theorem readCell_heapOnly (a : Nat) : HeapOnly (readCell a) := by
  intro st st' h
  rw [readCell_run, readCell_run, h]
  cases st.heap[a]? <;> rfl

theorem kindNameM_heapOnly (v : Val) : HeapOnly (kindNameM v) := by
  cases v
  case ref a =>
    show HeapOnly (readCell a >>= fun c => _)
    refine (readCell_heapOnly a).bind (fun c => ?_)
    cases c <;> exact HeapOnly.const _
  all_goals exact HeapOnly.const _

theorem castIncompat_heapOnly {α} (v : Val) (t : Ty) (path : String) (sp : Span) :
    HeapOnly (castIncompat v t path sp : M α) := by
  show HeapOnly (kindNameM v >>= fun k => _)
  refine (kindNameM_heapOnly v).bind (fun k => ?_)
  cases tyText t <;> exact HeapOnly.const _

theorem floatToIntM_heapOnly (f : Float) : HeapOnly (floatToIntM f) := by
  unfold floatToIntM
  cases floatToI64? f <;> exact HeapOnly.const _

/-- The errors of a cast to a scalar type: the cast exception, or outside the model. -/
def CastErr (c : Ctl) : Prop := (∃ msg sp, c = .throw msg sp) ∨ ∃ w, c = .unsupported w

theorem kindNameM_err (v : Val) (st : St) (c : Ctl) (st' : St) (h : kindNameM v st = (.error c, st')) :
    ∃ w, c = .unsupported w := by
  cases v
  case ref a =>
    have : kindNameM (.ref a) st = (readCell a >>= fun c => _) st := rfl
    rw [this, M_bind, readCell_run] at h
    cases hc : st.heap[a]? with
    | none => rw [hc] at h; cases h; exact ⟨_, rfl⟩
    | some cl => rw [hc] at h; cases cl <;> cases h
  all_goals first | (cases h; done) | (cases h; exact ⟨_, rfl⟩)

theorem castIncompat_err {α} (v : Val) (t : Ty) (path : String) (sp : Span) (st : St) (r : Except Ctl α) (st' : St)
    (h : (castIncompat v t path sp : M α) st = (r, st')) : ∃ c, r = .error c ∧ CastErr c := by
  have : (castIncompat v t path sp : M α) st = (kindNameM v >>= fun k => _) st := rfl
  rw [this, M_bind] at h
  rcases hk : kindNameM v st with ⟨rk, st1⟩
  rw [hk] at h
  cases rk with
  | error c =>
    obtain ⟨w, hw⟩ := kindNameM_err v st c st1 hk
    cases h
    exact ⟨_, rfl, Or.inr ⟨w, hw⟩⟩
  | ok k =>
    simp only [] at h
    cases ht : tyText t with
    | none => rw [ht] at h; cases h; exact ⟨_, rfl, Or.inr ⟨_, rfl⟩⟩
    | some ts => rw [ht] at h; cases h; exact ⟨_, rfl, Or.inl ⟨_, _, rfl⟩⟩

theorem castVal_scalar_heapOnly (n : Nat) (v : Val) (t : Ty) (ht : Frag.castTyOK t = true) (allow : Bool)
    (path : String) (sp : Span) : HeapOnly (castVal (n + 1) v t allow path sp) := by
  cases t <;> simp only [Frag.castTyOK, Bool.false_eq_true] at ht
  all_goals
    cases v
    all_goals unfold castVal
    all_goals simp only []
    all_goals first
      | exact HeapOnly.const _
      | exact castIncompat_heapOnly _ _ _ _
      | (cases allow <;> simp only [Bool.false_eq_true, if_false, if_true] <;> first | exact HeapOnly.const _ | exact castIncompat_heapOnly _ _ _ _ | exact floatToIntM_heapOnly _)
      | (refine (readCell_heapOnly _).bind (fun c => ?_); cases c <;> first | exact castIncompat_heapOnly _ _ _ _ | exact HeapOnly.const _)

/-- Every error of `m` is a cast exception or outside the model. -/
def CastErrs {α} (m : M α) : Prop := ∀ st c st', m st = (.error c, st') → CastErr c

theorem CastErrs.ok {α} (a : α) : CastErrs (fun st => (.ok a, st) : M α) := fun _ _ _ h => by cases h
theorem CastErrs.unsup {α} (w : String) : CastErrs (fun st => (.error (.unsupported w), st) : M α) :=
  fun _ _ _ h => by cases h; exact Or.inr ⟨_, rfl⟩
theorem CastErrs.incompat {α} (v : Val) (t : Ty) (path : String) (sp : Span) :
    CastErrs (castIncompat v t path sp : M α) := by
  intro st c st' h
  obtain ⟨c', hc, hce⟩ := castIncompat_err v t path sp st _ st' h
  cases hc
  exact hce
theorem CastErrs.floatToInt (f : Float) : CastErrs (floatToIntM f) := by
  unfold floatToIntM
  cases floatToI64? f
  · exact CastErrs.unsup _
  · exact CastErrs.ok _
theorem CastErrs.bind {α β} {x : M α} {f : α → M β} (hx : CastErrs x) (hf : ∀ a, CastErrs (f a)) :
    CastErrs (x >>= f) := by
  intro st c st' h
  rw [M_bind] at h
  rcases hxs : x st with ⟨r, st1⟩
  rw [hxs] at h
  cases r with
  | error c1 => cases h; exact hx st _ _ hxs
  | ok a => exact hf a st1 c st' h
theorem CastErrs.readCell (a : Nat) : CastErrs (readCell a) := by
  intro st c st' h
  rw [readCell_run] at h
  cases hc : st.heap[a]? with
  | none => rw [hc] at h; cases h; exact Or.inr ⟨_, rfl⟩
  | some cl => rw [hc] at h; cases h

theorem castVal_scalar_errs (n : Nat) (v : Val) (t : Ty) (ht : Frag.castTyOK t = true) (allow : Bool)
    (path : String) (sp : Span) : CastErrs (castVal (n + 1) v t allow path sp) := by
  cases t <;> simp only [Frag.castTyOK, Bool.false_eq_true] at ht
  all_goals
    cases v
    all_goals unfold castVal
    all_goals simp only []
    all_goals first
      | exact CastErrs.ok _
      | exact CastErrs.unsup _
      | exact CastErrs.incompat _ _ _ _
      | (cases allow <;> simp only [Bool.false_eq_true, if_false, if_true] <;> first | exact CastErrs.ok _ | exact CastErrs.incompat _ _ _ _ | exact CastErrs.floatToInt _)
      | (refine (CastErrs.readCell _).bind (fun c => ?_); cases c <;> first | exact CastErrs.incompat _ _ _ _ | exact CastErrs.ok _)

theorem castFuel_succ : castFuel = 999999 + 1 := rfl

/-- **A cast to a scalar type** leaves the state as it is and depends on the heap only; it yields a value,
the cast exception, or is outside the model. -/
theorem castVal_scalar (v : Val) (t : Ty) (ht : Frag.castTyOK t = true) (sp : Span) :
    HeapOnly (castVal castFuel v t true "" sp) ∧ CastErrs (castVal castFuel v t true "" sp) := by
  rw [castFuel_succ]
  exact ⟨castVal_scalar_heapOnly _ v t ht true "" sp, castVal_scalar_errs _ v t ht true "" sp⟩

/-! ## The `Cast` instruction -/

/-- `Cast` whose conversion succeeds without touching the state: the top of the stack is replaced. -/
theorem mkS_cast_ok (code : Code) (lim : Limits) (s : VMState) (fn : String) (ip : Nat)
    (rest : List Frame) (mp : Int) (k : Nat) (stk : List SVal) (mem : List (Int × Val)) (out : World)
    (c : List (RInstr × Span)) (hf : findCode code fn = some c) (sp : Span) (ty : Ty) (allow : Bool) (v v' : Val)
    (o : Option Org) (hx : c[ip]? = some (.cast ty allow, sp))
    (hr : castVal castFuel v ty allow "" sp { s.st with heap := out.heap, out := out.out } =
      (.ok v', { s.st with heap := out.heap, out := out.out })) :
    exec1 code lim (mkS s (⟨fn, ip⟩ :: rest) mp k (⟨v, o⟩ :: stk) mem out) =
      .next (mkS s (⟨fn, ip + 1⟩ :: rest) mp (k + 1) (⟨v', none⟩ :: stk) mem out) := by
  have hfe := fetch_mkS code s fn ip rest mp k (⟨v, o⟩ :: stk) mem out c _ hf hx
  unfold exec1
  rw [hfe]
  simp only [step, mkS, pop1, runM, hr, advance, push1, Nat.add_assoc]

/-- `Cast` whose conversion fails: the catchable exception at the span of the cast, the operand popped. -/
theorem mkS_cast_throw (code : Code) (lim : Limits) (s : VMState) (fn : String) (ip : Nat)
    (rest : List Frame) (mp : Int) (k : Nat) (stk : List SVal) (mem : List (Int × Val)) (out : World)
    (c : List (RInstr × Span)) (hf : findCode code fn = some c) (sp : Span) (ty : Ty) (allow : Bool) (v : Val)
    (o : Option Org) (msg : String) (tsp : Span) (hx : c[ip]? = some (.cast ty allow, sp))
    (hr : castVal castFuel v ty allow "" sp { s.st with heap := out.heap, out := out.out } =
      (.error (.throw msg tsp), { s.st with heap := out.heap, out := out.out })) :
    exec1 code lim (mkS s (⟨fn, ip⟩ :: rest) mp k (⟨v, o⟩ :: stk) mem out) =
      .intr (.throw msg tsp) (mkS s (⟨fn, ip⟩ :: rest) mp (k + 1) stk mem out) := by
  have hfe := fetch_mkS code s fn ip rest mp k (⟨v, o⟩ :: stk) mem out c _ hf hx
  unfold exec1
  rw [hfe]
  simp only [step, mkS, pop1, runM, hr, ctlToRes, Nat.add_assoc]

/-! ## The simulation step -/

/-- **`e as T` for a scalar `T`**, given the simulation of `e`: the converted value replaces the operand, or
the VM stops at the `Cast` instruction with the specification's cast exception. -/
theorem cast_step (G : GCtx) (A : Act) (hA : A.OK G) (n : Nat) (sp : Span) (ty : Ty) (e : Expr)
    (hty : Frag.castTyOK ty = true)
    (st : St) (ip : Nat) (stk : List SVal) (mem : Mem) (lm : LM) (scopes : CScopes)
    (hpl : Placed A.lab A.σ A.c ip (cgE G.mod (ρS scopes) A.φ (.cast sp ty e) lm).1)
    (he : SimGE G A ip (nI (cgE G.mod (ρS scopes) A.φ e lm).1) stk mem st (evalExpr G.cfg n e st)) :
    SimGE G A ip (nI (cgE G.mod (ρS scopes) A.φ (.cast sp ty e) lm).1) stk mem st
      (evalExpr G.cfg (n + 1) (.cast sp ty e) st) := by
  simp only [cgE] at hpl ⊢
  generalize hCE : cgE G.mod (ρS scopes) A.φ e lm = CE at hpl he ⊢
  obtain ⟨_, hplB⟩ := hpl.append
  obtain ⟨icast, _⟩ := hplB.instr (i := .cast ty true) rfl
  have hn : nI (CE.1 ++ [((Instr.cast ty true : SInstr), sp)]) = nI CE.1 + 1 := by rw [nI_append]; rfl
  rw [evalExpr_cast, hn]
  rcases hev : evalExpr G.cfg n e st with ⟨r1, st1⟩
  rw [hev] at he
  cases r1 with
  | error c1 => exact he.error_n _
  | ok a =>
    obtain ⟨hfr, mem1, ov, hov, hrun, hml⟩ := he
    simp only []
    obtain ⟨hHO, hErr⟩ := castVal_scalar a ty hty sp
    have hst := hHO.state st1
    rcases hr : castVal castFuel a ty true "" sp st1 with ⟨r, st2⟩
    rw [hr] at hst
    simp only at hst
    subst hst
    cases r with
    | ok v =>
      have hcast : Runs G.fr G.code G.lim G.s A.fn A.rest A.mp (ip + nI CE.1) (⟨a, ov⟩ :: stk) mem1 st2.world
          (ip + nI CE.1 + 1) (⟨v, none⟩ :: stk) mem1 st2.world := by
        refine Runs.of_exec1 (fr := G.fr) (mem := mem1) (fun it_ k => ?_)
        refine mkS_cast_ok G.code G.lim (withIt G.s it_) A.fn _ A.rest A.mp k stk mem1.cells st2.world A.c hA.code sp ty true
          a v ov icast ?_
        have h2 := hHO st2 { (withIt G.s it_).st with heap := st2.world.heap, out := st2.world.out } rfl
        rw [h2, hr]
      exact ⟨hfr, mem1, none, OrgOK.none _, (hrun.trans hcast).cast (by omega), hml⟩
    | error c =>
      rcases hErr st2 c st2 hr with ⟨msg, tsp, rfl⟩ | ⟨w, rfl⟩
      · refine ⟨hfr, mem1, ⟨fun k => ?_, hrun.inv⟩, hml⟩
        obtain ⟨k1, e1⟩ := hrun k
        refine ⟨k1, _, [], ip + nI CE.1, A.mp, [], e1, ?_⟩
        refine mkS_cast_throw G.code G.lim (withIt G.s mem1.it) A.fn _ A.rest A.mp (k + k1) stk mem1.cells st2.world A.c
          hA.code sp ty true a ov msg tsp icast ?_
        have h2 := hHO st2 { (withIt G.s mem1.it).st with heap := st2.world.heap, out := st2.world.out } rfl
        rw [h2, hr]
      · trivial

end HmsProofs.Sim
