import Hms.Check.Compat
/-! `typeCheck a got exp = none ↔ Compatible a got exp`: the model of `Analyzer.TypeCheck`
decides exactly the declarative compatibility relation (C03). -/
namespace HmsProofs.Lemmas.Check
open Hms.Check

/-- closes the cells where `typeCheck` reports a mismatch and no rule applies -/
local macro "tc_none" : tactic => `(tactic|
  (constructor
   · intro h
     first
       | (simp [typeCheck, Ty.kind] at h; done)
       | (simp [typeCheck, Ty.kind] at h; split at h <;> simp at h; done)
       | (simp only [typeCheck] at h; split at h <;> (try simp at h) <;> split at h <;> simp at h; done)
   · intro h; cases h <;> simp_all [Ty.isAtom]))

/-- the cells every expected type shares: `unknown`, `never`, `any` on the left; the diagonal of the atoms -/
local macro "tc_cells" : tactic => `(tactic|
  first
    | exact ⟨fun _ => Compatible.fromUnknown, fun _ => by simp [typeCheck]⟩
    | exact ⟨fun _ => Compatible.fromNever, fun _ => by simp [typeCheck]⟩
    | exact ⟨fun _ => Compatible.fromAny, fun _ => by simp [typeCheck]⟩
    | exact ⟨fun _ => Compatible.atom rfl, fun _ => by simp [typeCheck, Ty.kind]⟩
    | tc_none)

set_option maxHeartbeats 4000000 in
mutual
theorem typeCheck_iff : (e : Ty) → ∀ (a : Bool) (g : Ty), typeCheck a g e = none ↔ Compatible a g e
  | .any, a, g => ⟨fun _ => .toAny, fun _ => by cases g <;> simp [typeCheck]⟩
  | .unknown, a, g => ⟨fun _ => .toUnknown, fun _ => by cases g <;> simp [typeCheck]⟩
  | .never, a, g => ⟨fun _ => .toNever, fun _ => by cases g <;> simp [typeCheck]⟩
  | .null, a, g => by cases g <;> tc_cells
  | .int, a, g => by cases g <;> tc_cells
  | .float, a, g => by cases g <;> tc_cells
  | .bool, a, g => by cases g <;> tc_cells
  | .str, a, g => by cases g <;> tc_cells
  | .range, a, g => by cases g <;> tc_cells
  | .anyobj, a, g => by cases g <;> tc_cells
  | .list e, a, g => by
    have ih := typeCheck_iff e
    cases g
    case list g' =>
      simp only [typeCheck]
      exact ⟨fun h => .list ((ih a g').mp h), fun h => by
        cases h with
        | list h' => exact (ih a g').mpr h'
        | atom hh => simp [Ty.isAtom] at hh⟩
    all_goals tc_cells
  | .opt e, a, g => by
    have ih := typeCheck_iff e
    cases g
    case opt g' =>
      simp only [typeCheck]
      exact ⟨fun h => .opt ((ih true g').mp h), fun h => by
        cases h with
        | opt h' => exact (ih true g').mpr h'
        | atom hh => simp [Ty.isAtom] at hh⟩
    all_goals tc_cells
  | .obj ef, a, g => by
    have ih := tcFields_iff ef
    cases g
    case obj gf =>
      simp only [typeCheck]
      constructor
      · intro h
        cases hf : tcFields a gf ef with
        | some m => simp [hf] at h
        | none =>
          simp only [hf] at h
          have hx : hasExcessField gf ef = false := by
            cases hh : hasExcessField gf ef <;> simp_all
          exact .obj ((ih a gf).mp hf) hx
      · intro h
        cases h with
        | obj hf hx => simp [(ih a gf).mpr hf, hx]
        | atom hh => simp [Ty.isAtom] at hh
    all_goals tc_cells
  | .fn ep er, a, g => by
    have ihr := typeCheck_iff er
    have ihp := tcParams_iff ep
    cases g
    case fn gp gr =>
      simp only [typeCheck]
      constructor
      · intro h
        cases a with
        | false => simp at h
        | true =>
          simp only [Bool.not_true, Bool.false_eq_true, ↓reduceIte] at h
          cases hr : typeCheck true gr er with
          | some m => simp [hr] at h
          | none =>
            simp only [hr] at h
            by_cases hl : ep.length = gp.length
            · have : (ep.length != gp.length) = false := by simpa using hl
              simp only [this, Bool.false_eq_true, ↓reduceIte] at h
              exact .fn ((ihr true gr).mp hr) hl ((ihp gp hl).mp h)
            · have : (ep.length != gp.length) = true := by simpa using hl
              simp [this] at h
      · intro h
        cases h with
        | fn hr hl hp =>
          have : (ep.length != gp.length) = false := by simpa using hl
          simp [(ihr true gr).mpr hr, this, (ihp gp hl).mpr hp]
        | atom hh => simp [Ty.isAtom] at hh
    all_goals tc_cells
  | .fnvar ep erest er, a, g => by
    have ihr := typeCheck_iff er
    have ihs := typeCheck_iff erest
    have ihp := tcTys_iff ep
    cases g
    case fnvar gp grest gr =>
      simp only [typeCheck]
      constructor
      · intro h
        cases a with
        | false => simp at h
        | true =>
          simp only [Bool.not_true, Bool.false_eq_true, ↓reduceIte] at h
          cases hr : typeCheck true gr er with
          | some m => simp [hr] at h
          | none =>
            simp only [hr] at h
            by_cases hl : ep.length = gp.length
            · have : (ep.length != gp.length) = false := by simpa using hl
              simp only [this, Bool.false_eq_true, ↓reduceIte] at h
              cases hp : tcTys true gp ep with
              | some m => simp [hp] at h
              | none =>
                simp only [hp] at h
                exact .fnvar ((ihr true gr).mp hr) hl ((ihp gp).mp hp) ((ihs true grest).mp h)
            · have : (ep.length != gp.length) = true := by simpa using hl
              simp [this] at h
      · intro h
        cases h with
        | fnvar hr hl hp hs =>
          have : (ep.length != gp.length) = false := by simpa using hl
          simp [(ihr true gr).mpr hr, this, (ihp gp).mpr hp, (ihs true grest).mpr hs]
        | atom hh => simp [Ty.isAtom] at hh
    all_goals tc_cells
theorem tcFields_iff : (ef : List (String × Ty)) → ∀ (a : Bool) (gf : List (String × Ty)),
    tcFields a gf ef = none ↔ FieldsCompatible a gf ef
  | [], a, gf => by simp [tcFields]; exact .nil
  | (n, e) :: rest, a, gf => by
    have ih := typeCheck_iff e
    have ihr := tcFields_iff rest
    simp only [tcFields]
    constructor
    · intro h
      cases hl : lookupTy n gf with
      | none => simp [hl] at h
      | some g =>
        simp only [hl] at h
        cases htc : typeCheck a g e with
        | some m => simp [htc] at h
        | none =>
          simp only [htc] at h
          exact .cons hl ((ih a g).mp htc) ((ihr a gf).mp h)
    · intro h
      cases h with
      | cons hl hc hr => simp [hl, (ih a _).mpr hc, (ihr a gf).mpr hr]
theorem tcParams_iff : (ep : List (String × Ty)) → ∀ (gp : List (String × Ty)), ep.length = gp.length →
    (tcParams true gp ep = none ↔ ParamsCompatible gp ep)
  | [], gp, hl => by
    cases gp with
    | nil => simp [tcParams]; exact .nil
    | cons _ _ => simp at hl
  | (n, e) :: rest, gp, hl => by
    have ih := typeCheck_iff e
    have ihr := tcParams_iff rest
    cases gp with
    | nil => simp at hl
    | cons p gs =>
      obtain ⟨gn, g⟩ := p
      have hl' : rest.length = gs.length := by simpa using hl
      simp only [tcParams]
      constructor
      · intro h
        by_cases hn : gn = n
        · subst hn
          simp only [bne_self_eq_false, Bool.false_eq_true, ↓reduceIte] at h
          cases htc : typeCheck true g e with
          | some m => simp [htc] at h
          | none =>
            simp only [htc] at h
            exact .cons ((ih true g).mp htc) ((ihr gs hl').mp h)
        · have : (gn != n) = true := by simpa using hn
          simp [this] at h
      · intro h
        cases h with
        | cons hc hr => simp [(ih true _).mpr hc, (ihr gs hl').mpr hr]
theorem tcTys_iff : (es : List Ty) → ∀ (gs : List Ty), tcTys true gs es = none ↔ TysCompatible gs es
  | [], gs => by cases gs <;> simp [tcTys] <;> exact .nilR
  | e :: es, gs => by
    have ih := typeCheck_iff e
    have ihr := tcTys_iff es
    cases gs with
    | nil => simp [tcTys]; exact .nilL
    | cons g gs =>
      simp only [tcTys]
      constructor
      · intro h
        cases htc : typeCheck true g e with
        | some m => simp [htc] at h
        | none =>
          simp only [htc] at h
          exact .cons ((ih true g).mp htc) ((ihr gs).mp h)
      · intro h
        cases h with
        | cons hc hr => simp [(ih true g).mpr hc, (ihr gs).mpr hr]
end

end HmsProofs.Lemmas.Check
