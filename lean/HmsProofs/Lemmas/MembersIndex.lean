import Hms.Members.Sig
/-!
# Lemmas for C18: 64-bit index arithmetic of the transcribed code vs. the wrap rule over ℤ
-/
namespace HmsProofs.Lemmas.Members
open Hms.Members

/-! ## `BitVec 64` ↔ `Int` -/

theorem toInt_ofNat_small (n : Nat) (h : n < 2 ^ 63) : (BitVec.ofNat 64 n).toInt = n := by
  rw [BitVec.toInt_eq_toNat_bmod, BitVec.toNat_ofNat]
  have : n % 2 ^ 64 = n := Nat.mod_eq_of_lt (by omega)
  rw [this, Int.bmod_def]
  omega

theorem toInt_goLen {α} (xs : List α) (h : xs.length < 2 ^ 63) : (goLen xs).toInt = xs.length :=
  toInt_ofNat_small _ h

theorem toInt_bounds (x : I64) : -(2 ^ 63 : Int) ≤ x.toInt ∧ x.toInt < 2 ^ 63 := by
  have h1 := BitVec.toInt_lt (x := x)
  have h2 := BitVec.le_toInt (x := x)
  constructor <;> omega

theorem slt_zero (x : I64) : x.slt 0 = decide (x.toInt < 0) := by
  rw [BitVec.slt_eq_decide]; simp

theorem toNat_of_nonneg (x : I64) (h : 0 ≤ x.toInt) : x.toNat = x.toInt.toNat := by
  rw [BitVec.toInt_eq_toNat_cond] at h ⊢
  split at h <;> rename_i h2
  · simp [h2]
  · have := x.isLt
    omega

/-- The wrap step never overflows: a negative index plus a slice length stays in range. -/
theorem toInt_wrapIdx {α} (xs : List α) (i : I64) (h : xs.length < 2 ^ 63) :
    (wrapIdx i (goLen xs)).toInt = wrappedInt i.toInt xs.length := by
  unfold wrapIdx wrappedInt
  rw [slt_zero]
  by_cases hi : i.toInt < 0
  · simp only [hi, decide_true, if_true]
    rw [BitVec.toInt_add, toInt_goLen xs h, Int.bmod_def]
    have := toInt_bounds i
    omega
  · simp [hi]

theorem toInt_add_one (x : I64) (h : x.toInt < 2 ^ 63 - 1) : (x + 1).toInt = x.toInt + 1 := by
  rw [BitVec.toInt_add]
  have : (1 : I64).toInt = 1 := by decide
  rw [this, Int.bmod_def]
  have := toInt_bounds x
  omega

theorem toInt_sub_one (x : I64) (h : -(2 ^ 63 : Int) < x.toInt) : (x - 1).toInt = x.toInt - 1 := by
  rw [BitVec.toInt_sub]
  have : (1 : I64).toInt = 1 := by decide
  rw [this, Int.bmod_def]
  have := toInt_bounds x
  omega

/-! ## The Go primitives inside their bounds -/

theorem goIdx_eq {α} (xs : List α) (x : I64) (h0 : 0 ≤ x.toInt) :
    goIdx xs x = xs[x.toInt.toNat]? := by
  unfold goIdx
  rw [slt_zero]
  have : ¬ x.toInt < 0 := by omega
  simp [this, toNat_of_nonneg x h0]

theorem goSliceTo_eq {α} (xs : List α) (x : I64) (hl : xs.length < 2 ^ 63) (h0 : 0 ≤ x.toInt)
    (h1 : x.toInt ≤ xs.length) : goSliceTo xs x = Option.some (xs.take x.toInt.toNat) := by
  unfold goSliceTo
  rw [slt_zero, BitVec.slt_eq_decide, toInt_goLen xs hl]
  have a : ¬ x.toInt < 0 := by omega
  have b : ¬ (xs.length : Int) < x.toInt := by omega
  simp [a, b, toNat_of_nonneg x h0]

theorem goSliceFrom_eq {α} (xs : List α) (x : I64) (hl : xs.length < 2 ^ 63) (h0 : 0 ≤ x.toInt)
    (h1 : x.toInt ≤ xs.length) : goSliceFrom xs x = Option.some (xs.drop x.toInt.toNat) := by
  unfold goSliceFrom
  rw [slt_zero, BitVec.slt_eq_decide, toInt_goLen xs hl]
  have a : ¬ x.toInt < 0 := by omega
  have b : ¬ (xs.length : Int) < x.toInt := by omega
  simp [a, b, toNat_of_nonneg x h0]

theorem goSet_eq {α} (xs : List α) (x : I64) (v : α) (h0 : 0 ≤ x.toInt)
    (h1 : x.toInt.toNat < xs.length) : goSet xs x v = Option.some (xs.set x.toInt.toNat v) := by
  unfold goSet
  rw [slt_zero]
  have a : ¬ x.toInt < 0 := by omega
  simp [a, toNat_of_nonneg x h0, h1]

/-! ## The wrap rule -/

theorem wrapSpec_some {i : Int} {n k : Nat} (h : wrapSpec i n = Option.some k) :
    k < n ∧ (k : Int) = wrappedInt i n := by
  by_cases hi : i < 0 <;> simp [wrapSpec, wrappedInt, hi] at h ⊢ <;> omega

theorem wrapSpec_none {i : Int} {n : Nat} (h : wrapSpec i n = Option.none) :
    wrappedInt i n < 0 ∨ (n : Int) ≤ wrappedInt i n := by
  by_cases hi : i < 0 <;> simp [wrapSpec, wrappedInt, hi] at h ⊢ <;> omega

theorem wrapSpecIns_some {i : Int} {n k : Nat} (h : wrapSpecIns i n = Option.some k) :
    k ≤ n ∧ (k : Int) = wrappedInt i n := by
  by_cases hi : i < 0 <;> simp [wrapSpecIns, wrappedInt, hi] at h ⊢ <;> omega

theorem wrapSpecIns_none {i : Int} {n : Nat} (h : wrapSpecIns i n = Option.none) :
    wrappedInt i n < 0 ∨ (n : Int) < wrappedInt i n := by
  by_cases hi : i < 0 <;> simp [wrapSpecIns, wrappedInt, hi] at h ⊢ <;> omega

/-! ## Indexing -/

/-- Generic core of `IndexValue` on a sequence: in range ⇒ the element at the wrapped position,
out of range ⇒ the branch of the bounds check. -/
theorem index_core {α} (xs : List α) (i : I64) (hl : xs.length < 2 ^ 63) :
    let index := wrapIdx i (goLen xs)
    match wrapSpec i.toInt xs.length with
    | Option.some k => (index.slt 0 || !(index.slt (goLen xs))) = false ∧ goIdx xs index = xs[k]? ∧ k < xs.length
    | Option.none => (index.slt 0 || !(index.slt (goLen xs))) = true := by
  intro index
  have hw : index.toInt = wrappedInt i.toInt xs.length := toInt_wrapIdx xs i hl
  cases hs : wrapSpec i.toInt xs.length with
  | some k =>
    obtain ⟨hk, hk2⟩ := wrapSpec_some hs
    simp only
    have h0 : 0 ≤ index.toInt := by omega
    refine ⟨?_, ?_, hk⟩
    · rw [slt_zero, BitVec.slt_eq_decide, toInt_goLen xs hl, hw]
      have a : ¬ wrappedInt i.toInt xs.length < 0 := by omega
      have b : wrappedInt i.toInt xs.length < xs.length := by omega
      simp [a, b]
    · rw [goIdx_eq xs index h0, hw, ← hk2]; simp
  | none =>
    simp only
    rw [slt_zero, BitVec.slt_eq_decide, toInt_goLen xs hl, hw]
    rcases wrapSpec_none hs with h | h
    · simp [h]
    · have : ¬ wrappedInt i.toInt xs.length < xs.length := by omega
      simp [this]

theorem listIndex_spec (xs : List MVal) (i : I64) (hl : xs.length < 2 ^ 63) :
    match wrapSpec i.toInt xs.length with
    | Option.some k => ∃ v, xs[k]? = Option.some v ∧ listIndex xs i = .ok v (.list xs)
    | Option.none => listIndex xs i
        = .fatal "IndexOutOfBounds" (oobMsgIndex "list" xs.length (wrapIdx i (goLen xs))) := by
  have hc := index_core xs i hl
  simp only at hc
  unfold listIndex
  cases hs : wrapSpec i.toInt xs.length with
  | some k =>
    rw [hs] at hc
    obtain ⟨h1, h2, h3⟩ := hc
    simp only [h1, h2]
    refine ⟨xs[k], by simp [h3], ?_⟩
    simp [h3]
  | none =>
    rw [hs] at hc
    simp only at hc ⊢
    rw [if_pos hc]

theorem strIndex_spec (cs : List Char) (i : I64) (hl : cs.length < 2 ^ 63) :
    match wrapSpec i.toInt cs.length with
    | Option.some k => ∃ c, cs[k]? = Option.some c ∧ strIndex cs i = .ok (.str [c]) (.str cs)
    | Option.none => strIndex cs i
        = .fatal "IndexOutOfBounds" (oobMsgIndex "string" cs.length (wrapIdx i (goLen cs))) := by
  have hc := index_core cs i hl
  simp only at hc
  unfold strIndex
  cases hs : wrapSpec i.toInt cs.length with
  | some k =>
    rw [hs] at hc
    obtain ⟨h1, h2, h3⟩ := hc
    simp only [h1, h2]
    refine ⟨cs[k], by simp [h3], ?_⟩
    simp [h3]
  | none =>
    rw [hs] at hc
    simp only at hc ⊢
    rw [if_pos hc]

end HmsProofs.Lemmas.Members
