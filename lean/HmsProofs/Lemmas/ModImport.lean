import Hms.Mod.Graph
/-!
# The import decision (`importItem`): decision-logic lemmas over `Hms.Mod.importOne/importItems/importStmt`
-/
namespace Hms.Mod

/-- The classes that refuse an import item: missing (or of the wrong kind) or not `pub`. -/
def DiagClass.isRefusal : DiagClass → Bool
  | .notype | .noitem | .privtype | .privfn | .privvar => true
  | _ => false

/-- What one imported item declares in the importing module (independent of the target). -/
def declareItem (c : Tables) (it : ImpItem) : Tables :=
  match it.kind with
  | .type => c.addType it.name false
  | .normal => c.addValue it.name false

/-- The requested names are new in the importing module and pairwise different. -/
def freshItems (c : Tables) : List ImpItem → Bool
  | [] => true
  | it :: rest =>
    (match it.kind with
      | .type => (c.types.lookup it.name).isNone
      | .normal => (c.values.lookup it.name).isNone) && freshItems (declareItem c it) rest

theorem importOne_tables (t c : Tables) (it : ImpItem) : (importOne t c it).2 = declareItem c it := by
  unfold importOne declareItem
  cases it.kind <;> simp only <;> repeat' split
  all_goals rfl

/-- An item that is missing, of the wrong kind or private is refused with a diagnostic. -/
theorem importOne_illegal (t c : Tables) (it : ImpItem) (h : itemLegal t it = false) :
    ∃ d ∈ (importOne t c it).1, d.isRefusal = true := by
  unfold itemLegal at h
  unfold importOne
  cases hk : it.kind <;> simp only [hk] at h ⊢
  · -- normal
    cases hf : t.fns.lookup it.name with
    | some pub =>
      simp only [hf] at h ⊢
      subst h
      exact ⟨.privfn, by simp, rfl⟩
    | none =>
      simp only [hf] at h ⊢
      cases hv : t.values.lookup it.name with
      | none => exact ⟨.noitem, by simp, rfl⟩
      | some pub =>
        simp only [hv] at h ⊢
        cases pub with
        | true => simp at h
        | false => exact ⟨.privvar, by simp, rfl⟩
  · -- type
    cases ht : t.types.lookup it.name with
    | none => exact ⟨.notype, by simp, rfl⟩
    | some pub =>
      simp only [ht] at h ⊢
      cases pub with
      | true => simp at h
      | false => exact ⟨.privtype, by simp, rfl⟩

/-- A legal item raises nothing but (possibly) "already exists in current scope". -/
theorem importOne_legal (t c : Tables) (it : ImpItem) (h : itemLegal t it = true) :
    (importOne t c it).1 = (match it.kind with | .type => dupType c it.name | .normal => dupValue c it.name) := by
  unfold itemLegal at h
  unfold importOne
  cases hk : it.kind <;> simp only [hk] at h ⊢
  · cases hf : t.fns.lookup it.name with
    | some pub =>
      simp only [hf] at h ⊢
      subst h
      simp
    | none =>
      simp only [hf] at h ⊢
      cases hv : t.values.lookup it.name with
      | none => simp [hv] at h
      | some pub =>
        simp only [hv] at h ⊢
        cases pub with
        | true => simp
        | false => simp at h
  · cases ht : t.types.lookup it.name with
    | none => simp [ht] at h
    | some pub =>
      simp only [ht] at h ⊢
      cases pub with
      | true => simp
      | false => simp at h

theorem importItems_cons (t : Tables) (c : Tables) (it : ImpItem) (rest : List ImpItem) :
    (importItems (some t) c (it :: rest)).1 =
      (importOne t c it).1 ++ (importItems (some t) (declareItem c it) rest).1 := by
  simp only [importItems, Option.getD_some, importOne_tables]

/-- A statement that requests some illegal item is refused. -/
theorem importItems_illegal (t c : Tables) (items : List ImpItem)
    (h : ∃ it ∈ items, itemLegal t it = false) :
    ∃ d ∈ (importItems (some t) c items).1, d.isRefusal = true := by
  induction items generalizing c with
  | nil => obtain ⟨it, hm, _⟩ := h; cases hm
  | cons it rest ih =>
    rw [importItems_cons]
    obtain ⟨bad, hm, hb⟩ := h
    rcases List.mem_cons.mp hm with rfl | hm
    · obtain ⟨d, hd, hr⟩ := importOne_illegal t c bad hb
      exact ⟨d, List.mem_append_left _ hd, hr⟩
    · obtain ⟨d, hd, hr⟩ := ih (declareItem c it) ⟨bad, hm, hb⟩
      exact ⟨d, List.mem_append_right _ hd, hr⟩

/-- A statement whose items are all importable and new in the importing module raises nothing. -/
theorem importItems_legal (t c : Tables) (items : List ImpItem)
    (h : ∀ it ∈ items, itemLegal t it = true) (hf : freshItems c items = true) :
    (importItems (some t) c items).1 = [] := by
  induction items generalizing c with
  | nil => rfl
  | cons it rest ih =>
    rw [importItems_cons]
    simp only [freshItems, Bool.and_eq_true] at hf
    have h1 := importOne_legal t c it (h it (List.mem_cons_self ..))
    have h2 := ih (declareItem c it) (fun x hx => h x (List.mem_cons_of_mem _ hx)) hf.2
    rw [h1, h2]
    cases hk : it.kind <;> simp only [hk] at hf ⊢
    · simp [dupValue, Option.isNone_iff_eq_none.mp hf.1]
    · simp [dupType, Option.isNone_iff_eq_none.mp hf.1]

/-- A statement whose items are all importable never raises a refusal (whatever else exists). -/
theorem importItems_legal_no_refusal (t c : Tables) (items : List ImpItem)
    (h : ∀ it ∈ items, itemLegal t it = true) :
    ∀ d ∈ (importItems (some t) c items).1, d.isRefusal = false := by
  induction items generalizing c with
  | nil => intro d hd; cases hd
  | cons it rest ih =>
    rw [importItems_cons]
    intro d hd
    rcases List.mem_append.mp hd with hd | hd
    · rw [importOne_legal t c it (h it (List.mem_cons_self ..))] at hd
      cases hk : it.kind <;> simp only [hk] at hd
      · unfold dupValue at hd; split at hd <;> simp_all [DiagClass.isRefusal]
      · unfold dupType at hd; split at hd <;> simp_all [DiagClass.isRefusal]
    · exact ih (declareItem c it) (fun x hx => h x (List.mem_cons_of_mem _ hx)) d hd

/-! ## The statement step `importStmt` -/

theorem mem_addDiags (st : AState) (m : String) (idx : Option Nat) (cs : List DiagClass) (c : DiagClass)
    (h : c ∈ cs) : ⟨c, m, idx⟩ ∈ (st.addDiags m idx cs).diags := by
  unfold AState.addDiags
  exact List.mem_append_right _ (List.mem_map.mpr ⟨c, h, rfl⟩)

theorem set_diags (st : AState) (n : String) (t : Tables) : (st.set n t).diags = st.diags := by
  unfold AState.set; split <;> rfl

/-- Importing from a module the host does not know is reported at the statement. -/
theorem importStmt_missing_module (ms : Modules) (rec : AState → String → AState) (name : String)
    (st : AState) (idx : Nat) (imp : Import) (h : findMod ms imp.target = none) :
    ⟨.nomodule, name, some idx⟩ ∈ (importStmt ms rec name st idx imp).diags := by
  unfold importStmt
  simp only [h]
  rw [set_diags]
  exact mem_addDiags _ _ _ _ _ (List.mem_cons_self ..)

/-- The state in which the items of the statement are looked up: after the target has been
analysed (if it had not been) and the cycle check has run. -/
def stateBeforeItems (_ms : Modules) (rec : AState → String → AState) (name : String)
    (st : AState) (idx : Nat) (imp : Import) : AState :=
  let cur := (st.get name).getD Tables.fresh
  let st := st.set name { cur with importsModules := cur.importsModules ++ [imp.target] }
  if (st.get imp.target).isSome then st
  else
    let st := rec st imp.target
    if importGraphIsCyclic st.adj name then st.addDiags name (some idx) [.cyclic] else st

theorem importStmt_found (ms : Modules) (rec : AState → String → AState) (name : String)
    (st : AState) (idx : Nat) (imp : Import) (t : Module) (h : findMod ms imp.target = some t) :
    (importStmt ms rec name st idx imp).diags =
      let sb := stateBeforeItems ms rec name st idx imp
      let cur := (sb.get name).getD Tables.fresh
      let tgt := if imp.target == name then none else sb.get imp.target
      sb.diags ++ (importItems tgt cur imp.items).1.map fun c => ⟨c, name, some idx⟩ := by
  unfold importStmt stateBeforeItems
  simp only [h]
  rw [set_diags]
  rfl

/-- A first-time import that closes an import cycle through the importing module is reported. -/
theorem importStmt_cyclic (ms : Modules) (rec : AState → String → AState) (name : String)
    (st : AState) (idx : Nat) (imp : Import) (t : Module) (h : findMod ms imp.target = some t)
    (hnew : ((st.set name { ((st.get name).getD Tables.fresh) with
        importsModules := ((st.get name).getD Tables.fresh).importsModules ++ [imp.target] }).get imp.target).isSome = false)
    (hc : importGraphIsCyclic (rec (st.set name { ((st.get name).getD Tables.fresh) with
        importsModules := ((st.get name).getD Tables.fresh).importsModules ++ [imp.target] }) imp.target).adj name = true) :
    ⟨.cyclic, name, some idx⟩ ∈ (importStmt ms rec name st idx imp).diags := by
  rw [importStmt_found ms rec name st idx imp t h]
  apply List.mem_append_left
  unfold stateBeforeItems
  simp only [hnew, hc, Bool.false_eq_true, if_false, if_true]
  exact mem_addDiags _ _ _ _ _ (List.mem_singleton.mpr rfl)

/-- Importing from another module whose tables (as consulted) lack a requested item, have it with
the wrong kind or not `pub`: refused at the statement. -/
theorem importStmt_illegal_item (ms : Modules) (rec : AState → String → AState) (name : String)
    (st : AState) (idx : Nat) (imp : Import) (t : Module) (h : findMod ms imp.target = some t)
    (hne : (imp.target == name) = false) (tt : Tables)
    (ht : (stateBeforeItems ms rec name st idx imp).get imp.target = some tt)
    (hbad : ∃ it ∈ imp.items, itemLegal tt it = false) :
    ∃ d ∈ (importStmt ms rec name st idx imp).diags,
      d.module = name ∧ d.stmt = some idx ∧ d.cls.isRefusal = true := by
  rw [importStmt_found ms rec name st idx imp t h]
  simp only [hne, ht, Bool.false_eq_true, if_false]
  obtain ⟨c, hc, hr⟩ := importItems_illegal tt _ imp.items hbad
  exact ⟨⟨c, name, some idx⟩, List.mem_append_right _ (List.mem_map.mpr ⟨c, hc, rfl⟩), rfl, rfl, hr⟩

/-- A statement whose items are all importable from the consulted tables and new in the importing
module adds no diagnostic of its own (beyond what the target's analysis and the cycle check said). -/
theorem importStmt_legal (ms : Modules) (rec : AState → String → AState) (name : String)
    (st : AState) (idx : Nat) (imp : Import) (t : Module) (h : findMod ms imp.target = some t)
    (hne : (imp.target == name) = false) (tt : Tables)
    (ht : (stateBeforeItems ms rec name st idx imp).get imp.target = some tt)
    (hok : ∀ it ∈ imp.items, itemLegal tt it = true)
    (hfresh : freshItems (((stateBeforeItems ms rec name st idx imp).get name).getD Tables.fresh) imp.items = true) :
    (importStmt ms rec name st idx imp).diags = (stateBeforeItems ms rec name st idx imp).diags := by
  rw [importStmt_found ms rec name st idx imp t h]
  simp only [hne, ht, Bool.false_eq_true, if_false]
  rw [importItems_legal tt _ imp.items hok hfresh]
  simp

end Hms.Mod
