import HmsProofs.Lemmas.SimHIdxAsg
/-!
# The builtin methods `len` and `push`: `let n = l.len();`, `l.push(x);`

`code(l); Member len; Copy_Push 0; Call_Val` resp. `code(x); code(l); Member push; Copy_Push 1; Call_Val`.
`Member` yields the bound method — not a data field — because no object on the heap has a field of
that name (`HeapInv`, kept by every run); `Call_Val` on a bound method is the specification's
`callMember`.
-/
namespace HmsProofs.Sim
open Hms.Core Hms.Core.Comp Hms.Core.VM

theorem evalExpr_call_eq (cfg f sp ty base args st) :
    evalExpr cfg (f + 2) (.call sp ty base args false) st =
      match evalExpr cfg f base st with
      | (.ok fv, st1) =>
        (match evalList cfg f (args.map (·.2)) st1 with
          | (.ok vals, st2) => applyFn cfg f sp fv vals st2
          | (.error c, st2) => (.error c, st2))
      | (.error c, st1) => (.error c, st1) := by
  rw [evalExpr]
  simp only [Bool.false_eq_true, if_false]
  rw [evalCall, M_bind]
  rcases evalExpr cfg f base st with ⟨r1, st1⟩
  cases r1 with
  | error c => rfl
  | ok fv =>
    simp only []
    rw [M_bind]
    generalize evalList cfg f (List.map (fun x => x.snd) args) st1 = rr
    obtain ⟨r2, st2⟩ := rr
    cases r2 <;> rfl

theorem applyFn_bound (cfg f sp recv name vals st) :
    applyFn cfg (f + 1) sp (.bound recv name) vals st = callMember recv name vals sp st := by
  rw [applyFn]

/-- Under the heap invariant `l.len` / `l.push` is the bound method. -/
theorem memberVal_method (b : Val) (name : String) (sp : Span) (st : St) (hinv : HeapInv st.heap)
    (hn : name = "len" ∨ name = "push") :
    memberVal b name .dot sp st = (.ok (.bound b name), st) ∨
      ∃ w, memberVal b name .dot sp st = (.error (.unsupported w), st) := by
  rw [memberVal_dot]
  cases b <;> try (left; rfl)
  case ref a =>
    simp only []
    cases hc : st.heap[a]? with
    | none => right; exact ⟨_, rfl⟩
    | some c =>
      cases c <;> try (left; rfl)
      rename_i fs
      have := hinv a fs hc
      rcases hn with rfl | rfl
      · left; simp only [this.1]
      · left; simp only [this.2]
  case range x y i =>
    left
    rcases hn with rfl | rfl <;> rfl

/-- **`l.len()`** in the value position of a `let` (`cgL`). -/
theorem len_sim (G : GCtx) (n : Nat) (hPX : ∀ m, m ≤ n → PX G m) (A : Act) (hA : A.OK G)
    (csp : Span) (cty : Ty) (msp : Span) (mty : Ty) (b : Expr)
    (spec : St) (ip : Nat) (stk : List SVal) (mem : Mem) (lm : LM) (scopes : CScopes) (vm : List (String × Nat))
    (hfr : G.fr = true) (hb : Frag.okXE b = true) (hwb : Frag.wsGE scopes A.φ b = true)
    (hT : ∀ x ∈ Frag.namesGE b, x ∈ A.T)
    (hpl : Placed A.lab A.σ A.c ip (cgL G.mod (ρS scopes) A.φ (.call csp cty (.member msp mty b "len" .dot) [] false) lm).1)
    (hrel : StRel G.mod A.T A.N A.σ G.lim A.mp scopes vm spec.scopes mem) (hsp : SpecOK G A.mp spec) :
    SimOE G A ip (nI (cgL G.mod (ρS scopes) A.φ (.call csp cty (.member msp mty b "len" .dot) [] false) lm).1) stk mem spec
      (evalExpr G.cfg n (.call csp cty (.member msp mty b "len" .dot) [] false) spec) := by
  match n, hPX with
  | 0, _ => rw [evalExpr]; trivial
  | 1, _ => rw [evalExpr]; simp only [Bool.false_eq_true, if_false]; rw [evalCall]; trivial
  | 2, _ => rw [evalExpr_call_eq, evalExpr]; trivial
  | g + 3, hPX =>
  simp only [cgL] at hpl ⊢
  generalize hCB : cgE G.mod (ρS scopes) A.φ b lm = CB at hpl ⊢
  obtain ⟨hpB, hplX⟩ := hpl.append
  obtain ⟨imem, hX1⟩ := hplX.instr (i := .member "len") rfl
  obtain ⟨ipush, hX2⟩ := hX1.instr (i := .copyPush (.int 0)) rfl
  obtain ⟨icall, _⟩ := hX2.instr (i := .callVal) rfl
  have hnX : nI [((Instr.member "len" : SInstr), msp), (.copyPush (.int 0), csp), (.callVal, csp)] = 3 := rfl
  simp only [nI_append, hnX] at ⊢
  rw [evalExpr_call_eq, evalExpr_member]
  have h1 := hPX g (by omega) A hA b spec ip stk mem lm scopes vm hb hwb hT (hCB ▸ hpB) hrel hsp
  rw [hCB] at h1
  rcases heb : evalExpr G.cfg g b spec with ⟨r1, st1⟩
  rw [heb] at h1
  cases r1 with
  | error c1 => exact SimGE.error_n _ h1
  | ok bv =>
  obtain ⟨hfr1, mem1, ob, hrun1, hml1⟩ := h1
  simp only []
  have hsp1 := hsp.world st1 hfr1 hrun1.inv
  have hinv := hsp1.heap hfr
  have hmr := member_runs G A hA msp (ip + nI CB.1) stk mem1 st1 bv "len" ob imem
  rcases memberVal_method bv "len" msp st1 hinv (Or.inl rfl) with hm | ⟨w, hm⟩
  · rw [hm] at hmr ⊢
    simp only [] at hmr ⊢
    rw [List.map_nil, evalList_nil]
    · simp only []
      show SimOE G A ip _ stk mem spec (applyFn G.cfg (g + 1) csp (.bound bv "len") [] st1)
      rw [applyFn_bound]
      have hpush := Runs.of_runsTo (fr := G.fr) (mem := mem1) (fun it_ => RunsTo.of_exec1 (fun k =>
        reach_push G.code G.lim (baseOf (withIt G.s it_) A.fn A.rest A.mp st1.world) (ip + nI CB.1 + 1) k
          (⟨.bound bv "len", memOrg st1.heap bv "len"⟩ :: stk) mem1 ⟨A.fn, 0⟩ A.rest A.c rfl hA.code (.int 0) csp
          (.int (I64.ofInt 0)) ipush (fun _ => rfl)))
      have hcm := callMember_len bv csp st1
      have hcall : ∀ (nv : Val), callMember bv "len" [] csp st1 = (.ok nv, st1) → nv ≠ .null →
          Runs G.fr G.code G.lim G.s A.fn A.rest A.mp (ip + nI CB.1 + 1 + 1)
            (⟨.int (I64.ofInt 0), none⟩ :: ⟨.bound bv "len", memOrg st1.heap bv "len"⟩ :: stk) mem1 st1.world
            (ip + nI CB.1 + 1 + 1 + 1) (⟨nv, none⟩ :: stk) mem1 st1.world := by
        intro nv hnv hne
        refine Runs.of_exec1 (fr := G.fr) (mem := mem1) (fun it_ k => ?_)
        refine mkS_callVal_len G.code G.lim (withIt G.s it_) A.fn _ A.rest A.mp k stk mem1.cells st1.world A.c hA.code csp bv
          none _ nv icall ?_ hne
        have h2 := callMember_len bv csp { (withIt G.s it_).st with heap := st1.world.heap, out := st1.world.out }
        rw [callMember_len] at hnv
        rw [h2]
        cases bv <;> try (simp only [] at hnv ⊢; first | (cases hnv; rfl) | cases hnv)
        rename_i a
        simp only [] at hnv ⊢
        show (match st1.heap[a]? with
          | some (Cell.list xs) => _
          | some _ => _
          | none => _) = _
        cases hc : st1.heap[a]? with
        | none => rw [hc] at hnv; cases hnv
        | some c =>
          rw [hc] at hnv
          cases c <;> first | (cases hnv; rfl) | cases hnv
      rw [hcm]
      cases bv <;> try trivial
      · rename_i s
        simp only []
        exact ⟨hfr1, mem1, none, (((hrun1.trans hmr).trans hpush).trans
          (hcall _ (by rw [callMember_len]) (by intro h; cases h))).cast (by omega), hml1⟩
      · rename_i a
        simp only []
        cases hc : st1.heap[a]? with
        | none => trivial
        | some c =>
          cases c <;> try trivial
          rename_i xs
          simp only []
          exact ⟨hfr1, mem1, none, (((hrun1.trans hmr).trans hpush).trans
            (hcall _ (by rw [callMember_len]; simp only [hc]) (by intro h; cases h))).cast (by omega), hml1⟩
  · rw [hm]; trivial

/-- **`l.push(x);`** with an atom `x`. -/
theorem push_step (G : GCtx) (n : Nat) (hPX : ∀ m, m ≤ n → PX G m) (A : Act) (hA : A.OK G)
    (loops : List (String × String)) (lscopes : CScopes) (d : Nat)
    (sp csp : Span) (cty : Ty) (msp : Span) (mty : Ty) (b : Expr) (a : String × Expr)
    (env : CEnv) (spec : St) (ip : Nat) (stk : List SVal) (mem : Mem)
    (hs : Frag.okFS G.fr (!loops.isEmpty) A.rt (.exprS sp (.call csp cty (.member msp mty b "push" .dot) [a] false)) = true)
    (hT : ∀ x ∈ Frag.identsGS (.exprS sp (.call csp cty (.member msp mty b "push" .dot) [a] false)), x ∈ A.T)
    (hws : Frag.wsGS G.mod A.src A.φ loops (.exprS sp (.call csp cty (.member msp mty b "push" .dot) [a] false)) env = true)
    (hpl : Placed A.lab A.σ A.c ip
      (cgS G.mod A.src A.φ loops (.exprS sp (.call csp cty (.member msp mty b "push" .dot) [a] false)) env).1)
    (hls : lscopes = env.scopes.drop d)
    (hrel : GRel G A env.scopes env.vm spec.scopes mem) (hsp : SpecOK G A.mp spec) :
    SimGS G A loops lscopes d ip
      (nI (cgS G.mod A.src A.φ loops (.exprS sp (.call csp cty (.member msp mty b "push" .dot) [a] false)) env).1) stk mem
      (GRel G A (cgS G.mod A.src A.φ loops (.exprS sp (.call csp cty (.member msp mty b "push" .dot) [a] false)) env).2.scopes
        (cgS G.mod A.src A.φ loops (.exprS sp (.call csp cty (.member msp mty b "push" .dot) [a] false)) env).2.vm) spec
      (evalExpr G.cfg n (.call csp cty (.member msp mty b "push" .dot) [a] false) spec) := by
  simp only [Frag.okFS, Bool.and_eq_true, beq_iff_eq] at hs
  obtain ⟨⟨⟨⟨hfr, _⟩, _⟩, hb⟩, hat⟩ := hs
  simp only [Frag.wsGS, Bool.and_eq_true] at hws
  obtain ⟨hwb, hwa⟩ := hws
  simp only [Frag.wsGArgs, Frag.varsGArgs, Frag.callsGArgs, List.append_nil, Bool.and_eq_true] at hwa
  simp only [Frag.identsGS, List.mem_append] at hT
  have hpa := atom_pure a.2 hat
  have hTb : ∀ x ∈ Frag.namesGE b, x ∈ A.T := fun x hx => hT x (Or.inl hx)
  have hTa : ∀ x ∈ Frag.varsE a.2, x ∈ A.T := by
    intro x hx
    refine hT x (Or.inr ?_)
    simp only [Frag.namesGArgs, Frag.varsGArgs, List.append_nil, List.mem_append]
    exact Or.inl (by rw [varsGE_pure a.2 hpa]; exact hx)
  have hresa : Frag.resolved env.scopes (Frag.varsE a.2) = true := by rw [← varsGE_pure a.2 hpa]; exact hwa.1
  match n, hPX with
  | 0, _ => rw [evalExpr]; trivial
  | 1, _ => rw [evalExpr]; simp only [Bool.false_eq_true, if_false]; rw [evalCall]; trivial
  | 2, _ => rw [evalExpr_call_eq, evalExpr]; trivial
  | g + 3, hPX =>
  have hlma : (cpE G.mod (ρS env.scopes) a.2 env.lm).2 = env.lm := cpE_atom_lm _ _ _ a.2 env.lm (Nat.le_refl _) hat
  have hcg : cgE G.mod (ρS env.scopes) A.φ a.2 env.lm = cpE G.mod (ρS env.scopes) a.2 env.lm :=
    cgE_of_pure G.mod (ρS env.scopes) A.φ a.2 env.lm hpa
  simp only [cgS, hcg, hlma] at hpl ⊢
  generalize hCB : cgE G.mod (ρS env.scopes) A.φ b env.lm = CB at hpl ⊢
  obtain ⟨hAB, hplX⟩ := hpl.append
  obtain ⟨hpA, hpB⟩ := hAB.append
  obtain ⟨imem, hX1⟩ := hplX.instr (i := .member "push") rfl
  obtain ⟨ipush, hX2⟩ := hX1.instr (i := .copyPush (.int 1)) rfl
  obtain ⟨icall, _⟩ := hX2.instr (i := .callVal) rfl
  have hnX : nI [((Instr.member "push" : SInstr), msp), (.copyPush (.int 1), csp), (.callVal, csp)] = 3 := rfl
  simp only [nI_append, hnX] at imem ipush icall hpB ⊢
  simp only [← Nat.add_assoc] at imem ipush icall
  -- the argument: an atom
  obtain ⟨v, hv, hrunA⟩ := atom_runs G A hA a.2 spec ip stk mem env.lm env.scopes env.vm hat hresa hTa hpA hrel.rel
  rw [evalExpr_call_eq, evalExpr_member]
  have h1 := hPX g (by omega) A hA b spec (ip + nI (cpE G.mod (ρS env.scopes) a.2 env.lm).1) (⟨v, none⟩ :: stk) mem env.lm
    env.scopes env.vm hb hwb hTb (hCB ▸ hpB) hrel.rel hsp
  rw [hCB] at h1
  rcases heb : evalExpr G.cfg g b spec with ⟨r1, st1⟩
  rw [heb] at h1
  cases r1 with
  | error c1 =>
    exact SimGS.of_exprError _ hrel hls
      (SimOE.error_after (st0 := spec) 0 [⟨v, none⟩] (hrunA spec.world) (by cases spec; rfl) (MemLe.refl _ _ _) h1)
  | ok bv =>
  obtain ⟨hfr1, mem1, ob, hrun1, hml1⟩ := h1
  simp only []
  have hrunAB := (hrunA spec.world).trans hrun1
  have hsp1 := hsp.world st1 hfr1 hrunAB.inv
  have hinv := hsp1.heap hfr
  have hmr := member_runs G A hA msp (ip + nI (cpE G.mod (ρS env.scopes) a.2 env.lm).1 + nI CB.1) (⟨v, none⟩ :: stk) mem1 st1 bv
    "push" ob imem
  rcases memberVal_method bv "push" msp st1 hinv (Or.inr rfl) with hm | ⟨w, hm⟩
  · rw [hm] at hmr ⊢
    simp only [] at hmr ⊢
    -- the argument on the specification side: the same value, the state untouched
    have hb2 := bound_of_resolved hrel.rel.scopes (Frag.varsE a.2) hTa hresa
    obtain ⟨v', hv', hev1, _⟩ := atom_eval G.cfg _ a.2 st1 (Nat.le_refl _) hat (by rw [hfr1]; exact hb2)
    have hsc1 : st1.scopes = spec.scopes := by rw [hfr1]
    rw [hsc1, hv] at hv'
    cases hv'
    simp only [List.map_cons, List.map_nil]
    rw [evalList_cons]
    rcases hev1 g with h | h
    · rw [h]; trivial
    · rw [h]
      simp only []
      cases g with
      | zero => rw [evalList]; trivial
      | succ g' =>
      rw [evalList_nil]
      simp only []
      show SimGS G A loops lscopes d ip _ stk mem _ spec (applyFn G.cfg (g' + 1 + 1) csp (.bound bv "push") [v] st1)
      rw [applyFn_bound, callMember_push]
      have hpush := Runs.of_runsTo (fr := G.fr) (mem := mem1) (fun it_ => RunsTo.of_exec1 (fun k =>
        reach_push G.code G.lim (baseOf (withIt G.s it_) A.fn A.rest A.mp st1.world)
          (ip + nI (cpE G.mod (ρS env.scopes) a.2 env.lm).1 + nI CB.1 + 1) k
          (⟨.bound bv "push", memOrg st1.heap bv "push"⟩ :: ⟨v, none⟩ :: stk) mem1 ⟨A.fn, 0⟩ A.rest A.c rfl hA.code (.int 1) csp
          (.int (I64.ofInt 1)) ipush (fun _ => rfl)))
      cases bv <;> try trivial
      rename_i ad
      simp only []
      cases hc : st1.heap[ad]? with
      | none => trivial
      | some c =>
        cases c <;> try trivial
        rename_i xs
        simp only []
        have hcall := Runs.of_exec1W (fr := G.fr) (mem := mem1) (fun it_ k =>
          mkS_callVal_push G.code G.lim (withIt G.s it_) A.fn _ A.rest A.mp k stk mem1.cells st1.world A.c hA.code csp ad xs v
            none (memOrg st1.heap (.ref ad) "push") none icall hc) (fun hi => hi.set _ _ (fun fs h => by cases h))
        refine ⟨by rw [hfr1], mem1, ((((hrunAB.trans hmr).trans hpush).trans hcall)).cast (by omega), hml1.mono (by omega), ?_⟩
        show GRel G A env.scopes env.vm st1.scopes mem1
        rw [hfr1]; exact hrel.memLe hml1
  · rw [hm]; trivial

end HmsProofs.Sim
