import HmsProofs.Lemmas.SimHIdxAsg
/-!
# The builtin methods `len` and `push`: `let n = l.len();`, `l.push(x);`

`code(l); Member len; Copy_Push 0; Call_Val` resp. `code(x); code(l); Member push; Copy_Push 1; Call_Val`.
`Member` yields the bound method — not a data field — because no object on the heap has a field of
that name (`HeapInv`, kept by every run); `Call_Val` on a bound method is the specification's
`callMember`.
-/
namespace HmsProofs.Sim
open Hms.Core Hms.Core.Comp Hms.Core.VM

/-- **`l.push(x);`** with an atom `x`. -/
theorem push_step (G : GCtx) (n : Nat) (hPX : ∀ m, m ≤ n → PV G m) (A : Act) (hA : A.OK G)
    (loops : List (String × String)) (lscopes : CScopes) (d : Nat)
    (sp csp : Span) (cty : Ty) (msp : Span) (mty : Ty) (b : Expr) (a : String × Expr)
    (env : CEnv) (spec : St) (ip : Nat) (stk : List SVal) (mem : Mem)
    (hs : Frag.okFS G.fr (!loops.isEmpty) A.rt (.exprS sp (.call csp cty (.member msp mty b "push" .dot) [a] false)) = true)
    (hT : ∀ x ∈ Frag.identsGS (.exprS sp (.call csp cty (.member msp mty b "push" .dot) [a] false)), x ∈ A.T)
    (hws : Frag.wsGS G.mod A.src A.φ loops (.exprS sp (.call csp cty (.member msp mty b "push" .dot) [a] false)) env = true)
    (hpl : Placed A.lab A.σ A.c ip
      (cgS G.mod A.src A.φ loops (.exprS sp (.call csp cty (.member msp mty b "push" .dot) [a] false)) env).1)
    (hls : lscopes = env.scopes.drop d)
    (hrel : GRel G A env.scopes env.vm spec.scopes mem) (hsp : SpecOK G A.mp spec) :
    SimGS G A loops lscopes d ip
      (nI (cgS G.mod A.src A.φ loops (.exprS sp (.call csp cty (.member msp mty b "push" .dot) [a] false)) env).1) stk mem
      (GRel G A (cgS G.mod A.src A.φ loops (.exprS sp (.call csp cty (.member msp mty b "push" .dot) [a] false)) env).2.scopes
        (cgS G.mod A.src A.φ loops (.exprS sp (.call csp cty (.member msp mty b "push" .dot) [a] false)) env).2.vm) spec
      (evalExpr G.cfg n (.call csp cty (.member msp mty b "push" .dot) [a] false) spec) := by
  simp only [Frag.okFS, Bool.and_eq_true, beq_iff_eq, Bool.or_eq_true] at hs
  obtain ⟨⟨⟨⟨⟨hfr, _⟩, _⟩, hb⟩, hoa⟩, hatoms⟩ := hs
  simp only [Frag.wsGS, Bool.and_eq_true] at hws
  obtain ⟨hwb, hwa⟩ := hws
  have hwa' : Frag.wsGE env.scopes A.φ a.2 = true := by
    simpa [Frag.wsGArgs, Frag.varsGArgs, Frag.callsGArgs, Frag.wsGE] using hwa
  simp only [Frag.identsGS, List.mem_append] at hT
  have hTb : ∀ x ∈ Frag.namesGE b, x ∈ A.T := fun x hx => hT x (Or.inl hx)
  have hTa : ∀ x ∈ Frag.namesGE a.2, x ∈ A.T := by
    intro x hx
    refine hT x (Or.inr ?_)
    simp only [Frag.namesGArgs, Frag.varsGArgs, Frag.callsGArgs, List.append_nil]
    exact hx
  match n, hPX with
  | 0, _ => rw [evalExpr]; trivial
  | 1, _ => rw [evalExpr]; simp only [Bool.false_eq_true, if_false]; rw [evalCall]; trivial
  | 2, _ => rw [evalExpr_call_eq, evalExpr]; trivial
  | g + 3, hPX =>
  simp only [cgS] at hpl ⊢
  generalize hCA : cgE G.mod (ρS env.scopes) A.φ a.2 env.lm = CA at hpl ⊢
  generalize hCB : cgE G.mod (ρS env.scopes) A.φ b CA.2 = CB at hpl ⊢
  obtain ⟨hAB, hplX⟩ := hpl.append
  obtain ⟨hpA, hpB⟩ := hAB.append
  obtain ⟨imem, hX1⟩ := hplX.instr (i := .member "push") rfl
  obtain ⟨ipush, hX2⟩ := hX1.instr (i := .copyPush (.int 1)) rfl
  obtain ⟨icall, _⟩ := hX2.instr (i := .callVal) rfl
  have hnX : nI [((Instr.member "push" : SInstr), msp), (.copyPush (.int 1), csp), (.callVal, csp)] = 3 := rfl
  simp only [nI_append, hnX] at imem ipush icall hpB ⊢
  simp only [← Nat.add_assoc] at imem ipush icall
  rw [evalExpr_call_eq, evalExpr_member]
  -- the tail: `Member push; Copy_Push 1; Call_Val` on a list
  have tail : ∀ (bv v : Val) (ov ob : Option Org) (st1 : St) (mem1 : Mem),
      st1 = { spec with out := st1.out, heap := st1.heap } → MemLe G.fr A.mp mem mem1 →
      Runs G.fr G.code G.lim G.s A.fn A.rest A.mp ip stk mem spec.world (ip + nI CA.1 + nI CB.1)
        (⟨bv, ob⟩ :: ⟨v, ov⟩ :: stk) mem1 st1.world →
      SimGS G A loops lscopes d ip (nI CA.1 + nI CB.1 + 3) stk mem (GRel G A env.scopes env.vm) spec
        (callMember bv "push" [v] csp st1) := by
    intro bv v ov ob st1 mem1 hfr1 hml1 hrun
    rw [callMember_push]
    cases bv <;> try trivial
    rename_i ad
    simp only []
    cases hc : st1.heap[ad]? with
    | none => trivial
    | some c =>
      cases c <;> try trivial
      rename_i xs
      simp only []
      have hmr := member_runs G A hA msp (ip + nI CA.1 + nI CB.1) (⟨v, ov⟩ :: stk) mem1 st1 (.ref ad) "push" ob imem
      have hmv : memberVal (.ref ad) "push" .dot msp st1 = (.ok (.bound (.ref ad) "push"), st1) := by
        rw [memberVal_dot]; simp only [hc]
      rw [hmv] at hmr
      simp only [] at hmr
      have hpush := Runs.of_runsTo (fr := G.fr) (mem := mem1) (fun it_ => RunsTo.of_exec1 (fun k =>
        reach_push G.code G.lim (baseOf (withIt G.s it_) A.fn A.rest A.mp st1.world)
          (ip + nI CA.1 + nI CB.1 + 1) k
          (⟨.bound (.ref ad) "push", memOrg st1.heap (.ref ad) "push"⟩ :: ⟨v, ov⟩ :: stk) mem1 ⟨A.fn, 0⟩ A.rest A.c rfl hA.code
          (.int 1) csp (.int (I64.ofInt 1)) ipush (fun _ => rfl)))
      have hcall := Runs.of_exec1W (fr := G.fr) (mem := mem1) (fun it_ k =>
        mkS_callVal_push G.code G.lim (withIt G.s it_) A.fn _ A.rest A.mp k stk mem1.cells st1.world A.c hA.code csp ad xs v
          none (memOrg st1.heap (.ref ad) "push") ov icall hc) (fun hi => hi.set _ _ (fun fs h => by cases h))
      refine ⟨by rw [hfr1], mem1, (((hrun.trans hmr).trans hpush).trans hcall).cast (by omega), hml1.mono (by omega), ?_⟩
      show GRel G A env.scopes env.vm st1.scopes mem1
      rw [hfr1]; exact hrel.memLe hml1
  rcases hatoms with hab | hat
  · -- the receiver is an atom: the argument runs first on the VM, second in the specification
    have hpb := atom_pure b hab
    have hvb := varsGE_pure b hpb
    have hresb : Frag.resolved env.scopes (Frag.varsE b) = true := by
      rw [← hvb]; simp only [Frag.wsGE, Bool.and_eq_true] at hwb; exact hwb.1
    have hTb' : ∀ x ∈ Frag.varsE b, x ∈ A.T := fun x hx => hTb x (by simp [Frag.namesGE, hvb, hx])
    have hbb := bound_of_resolved hrel.rel.scopes (Frag.varsE b) hTb' hresb
    obtain ⟨bv, hbv, hevb, _⟩ := atom_eval G.cfg _ b spec (Nat.le_refl _) hab hbb
    rcases hevb g with h | h
    · rw [h]; trivial
    · rw [h]
      simp only []
      rcases memberVal_method bv "push" msp spec (hsp.heap hfr) (by decide) with hm | ⟨w, hm⟩
      · rw [hm]
        simp only [List.map_cons, List.map_nil]
        rw [evalList_cons]
        have h1 := hPX g (by omega) A hA a.2 spec ip stk mem env.lm env.scopes env.vm hoa hwa' hTa (hCA ▸ hpA) hrel.rel hsp
        rw [hCA] at h1
        rcases hea : evalExpr G.cfg g a.2 spec with ⟨r1, st1⟩
        rw [hea] at h1
        cases r1 with
        | error c1 => exact SimGS.of_exprError _ hrel hls h1
        | ok v =>
          obtain ⟨hfr1, mem1, ov, hrun1, hml1⟩ := h1
          simp only []
          cases g with
          | zero => rw [evalList]; trivial
          | succ g' =>
          rw [evalList_nil]
          simp only []
          show SimGS G A loops lscopes d ip _ stk mem _ spec (applyFn G.cfg (g' + 1 + 1) csp (.bound bv "push") [v] st1)
          rw [applyFn_bound]
          have hrel1 : StRel G.mod A.T A.N A.σ G.lim A.mp env.scopes env.vm st1.scopes mem1 := by
            rw [hfr1]; exact hrel.rel.memLe hml1.cells
          rw [cgE_of_pure _ _ _ _ _ hpb] at hCB
          obtain ⟨bv', hbv', hrunB⟩ := atom_runs G A hA b st1 (ip + nI CA.1) (⟨v, ov⟩ :: stk) mem1 CA.2 env.scopes env.vm
            hab hresb hTb' (by rw [hCB]; exact hpB) hrel1
          have hsc : st1.scopes = spec.scopes := by rw [hfr1]
          rw [hsc, hbv] at hbv'
          cases hbv'
          rw [hCB] at hrunB
          exact tail bv v ov none st1 mem1 hfr1 hml1 (hrun1.trans (hrunB st1.world))
      · rw [hm]; trivial
  · -- the argument is an atom
    have hpa := atom_pure a.2 hat
    have hva := varsGE_pure a.2 hpa
    have hresa : Frag.resolved env.scopes (Frag.varsE a.2) = true := by
      rw [← hva]; simp only [Frag.wsGE, Bool.and_eq_true] at hwa'; exact hwa'.1
    have hTa' : ∀ x ∈ Frag.varsE a.2, x ∈ A.T := fun x hx => hTa x (by simp [Frag.namesGE, hva, hx])
    rw [cgE_of_pure _ _ _ _ _ hpa] at hCA
    have hlma : (cpE G.mod (ρS env.scopes) a.2 env.lm).2 = env.lm := cpE_atom_lm _ _ _ a.2 env.lm (Nat.le_refl _) hat
    obtain ⟨v, hv, hrunA⟩ := atom_runs G A hA a.2 spec ip stk mem env.lm env.scopes env.vm hat hresa hTa'
      (by rw [hCA]; exact hpA) hrel.rel
    rw [hCA] at hrunA
    have hCA2 : CA.2 = env.lm := by rw [← hCA]; exact hlma
    have h1 := hPX g (by omega) A hA b spec (ip + nI CA.1) (⟨v, none⟩ :: stk) mem CA.2 env.scopes env.vm hb hwb hTb
      (hCB ▸ hpB) hrel.rel hsp
    rw [hCB] at h1
    rcases heb : evalExpr G.cfg g b spec with ⟨r1, st1⟩
    rw [heb] at h1
    cases r1 with
    | error c1 =>
      exact SimGS.of_exprError _ hrel hls
        (SimOE.error_after (st0 := spec) 0 [⟨v, none⟩] (hrunA spec.world) (by cases spec; rfl) (MemLe.refl _ _ _) h1)
    | ok bv =>
    obtain ⟨hfr1, mem1, ob, hrun1, hml1⟩ := h1
    simp only []
    have hrunAB := (hrunA spec.world).trans hrun1
    have hsp1 := hsp.world st1 hfr1 hrunAB.inv
    rcases memberVal_method bv "push" msp st1 (hsp1.heap hfr) (by decide) with hm | ⟨w, hm⟩
    · rw [hm]
      simp only []
      have hb2 := bound_of_resolved hrel.rel.scopes (Frag.varsE a.2) hTa' hresa
      obtain ⟨v', hv', hev1, _⟩ := atom_eval G.cfg _ a.2 st1 (Nat.le_refl _) hat (by rw [hfr1]; exact hb2)
      have hsc1 : st1.scopes = spec.scopes := by rw [hfr1]
      rw [hsc1, hv] at hv'
      cases hv'
      simp only [List.map_cons, List.map_nil]
      rw [evalList_cons]
      rcases hev1 g with h | h
      · rw [h]; trivial
      · rw [h]
        simp only []
        cases g with
        | zero => rw [evalList]; trivial
        | succ g' =>
        rw [evalList_nil]
        simp only []
        show SimGS G A loops lscopes d ip _ stk mem _ spec (applyFn G.cfg (g' + 1 + 1) csp (.bound bv "push") [v] st1)
        rw [applyFn_bound]
        exact tail bv v none ob st1 mem1 hfr1 hml1 hrunAB
    · rw [hm]; trivial

end HmsProofs.Sim
