import HmsProofs.Lemmas.CheckBasic
/-! Completeness of the checker (C03): every derivation of the declarative typing relation is
reproduced by the checker without a diagnostic and with exactly the derivation's attributes.
Mutual structural recursion over the syntax, inverting the derivation. -/
set_option linter.unusedSimpArgs false

namespace HmsProofs.Lemmas.Check
open Hms.Check

theorem wrap_ok_eq {s : Bool} {errs : List Err} {t : Ty} {x c : Bool} {l : List Ty} (h : anyOK s t = true) :
    wrap s { errs := errs, ty := t, ex := x, cst := c, tys := l } =
      { errs := errs, ty := t, ex := x || t.isNever, cst := c, tys := l } := by
  simp [wrap, h]

theorem var_arity_ok {n m : Nat} (h : n = 0 ∨ n ≤ m) : (n != 0 && decide (m < n)) = false := by
  cases h with
  | inl h0 => simp [h0]
  | inr hle => simp; intro _; omega

theorem match_default_ok {d : Option (List Ty)} {noArms : Bool} {rt : Ty}
    (hd : d.isSome = true ∨ Compat true Ty.null (matchTy d.isSome noArms rt)) :
    (if (d.isNone && (typeCheck true Ty.null (matchTy d.isSome noArms rt)).isSome) = true
      then [(⟨Msg.missingDefault, Rule.missingDefault⟩ : Err)] else []) = [] := by
  cases hd with
  | inl hs => cases d <;> simp_all
  | inr hcm => simp [compat_iff.mp hcm]

theorem replicate_zero {α} (a : α) : List.replicate 0 a = [] := rfl

theorem complete_ident {Γ : Ctx} {s : Bool} {name : String} {t : Ty} {x c : Bool} {l : List Ty}
    (h : HasType Γ s (.ident name) t x c l) :
    wrap s (identRes Γ name) = { errs := [], ty := t, ex := x, cst := c, tys := l } := by
  cases h with | mk hraw hany =>
  cases hraw with | ident hl =>
  simp only [identRes, hl]; exact wrap_ok_eq hany

set_option maxHeartbeats 4000000 in
mutual
theorem complete_expr : (e : PExpr) → ∀ (Γ : Ctx) (s : Bool) (t : Ty) (x c : Bool) (l : List Ty),
    HasType Γ s e t x c l → checkExpr Γ s e = { errs := [], ty := t, ex := x, cst := c, tys := l }
  | .int v, Γ, s, t, x, c, l => by
    intro h; cases h with | mk hraw hany => cases hraw; simp only [checkExpr]; exact wrap_ok_eq hany
  | .float v, Γ, s, t, x, c, l => by
    intro h; cases h with | mk hraw hany => cases hraw; simp only [checkExpr]; exact wrap_ok_eq hany
  | .bool v, Γ, s, t, x, c, l => by
    intro h; cases h with | mk hraw hany => cases hraw; simp only [checkExpr]; exact wrap_ok_eq hany
  | .str v, Γ, s, t, x, c, l => by
    intro h; cases h with | mk hraw hany => cases hraw; simp only [checkExpr]; exact wrap_ok_eq hany
  | .null, Γ, s, t, x, c, l => by
    intro h; cases h with | mk hraw hany => cases hraw; simp only [checkExpr]; exact wrap_ok_eq hany
  | .none, Γ, s, t, x, c, l => by
    intro h; cases h with | mk hraw hany => cases hraw; simp only [checkExpr]; exact wrap_ok_eq hany
  | .anyobj, Γ, s, t, x, c, l => by
    intro h; cases h with | mk hraw hany => cases hraw; simp only [checkExpr]; exact wrap_ok_eq hany
  | .ident name, Γ, s, t, x, c, l => by
    intro h; cases h with | mk hraw hany =>
    cases hraw with | ident hl =>
    simp only [checkExpr, hl]; exact wrap_ok_eq hany
  | .range a b incl, Γ, s, t, x, c, l => by
    have iha := complete_expr a Γ true
    have ihb := complete_expr b Γ true
    intro h; cases h with | mk hraw hany =>
    cases hraw with | range ha hb hca hcb =>
    simp only [checkExpr, iha _ _ _ _ ha, ihb _ _ _ _ hb, compat_iff.mp hca, compat_iff.mp hcb, Option.isSome_none, Bool.false_eq_true, ↓reduceIte,
      List.append_nil]
    exact wrap_ok_eq hany
  | .list xs, Γ, s, t, x, c, l => by
    have ih := complete_elems xs Γ .any
    intro h; cases h with | mk hraw hany =>
    cases hraw with | list he =>
    simp only [checkExpr, ih _ _ _ _ he]; exact wrap_ok_eq hany
  | .obj fs, Γ, s, t, x, c, l => by
    have ih := complete_fields fs Γ []
    intro h; cases h with | mk hraw hany =>
    cases hraw with | obj hf =>
    simp only [checkExpr, ih _ _ _ _ hf]; exact wrap_ok_eq hany
  | .lambda params ret body, Γ, s, t, x, c, l => by
    have ih := complete_block body
    intro h; cases h with | mk hraw hany =>
    cases hraw with | lambda hps hdup hrt hb hc =>
    simp only [checkExpr, hps, hdup, hrt, ih _ _ _ _ _ hb, tcErr_of_compat hc, replicate_zero, List.append_nil]
    exact wrap_ok_eq hany
  | .grp e, Γ, s, t, x, c, l => by
    have ih := complete_expr e Γ true
    intro h; cases h with | mk hraw hany =>
    cases hraw with | grp he =>
    simp only [checkExpr, ih _ _ _ _ he]; exact wrap_ok_eq hany
  | .pre op e, Γ, s, t, x, c, l => by
    have ih := complete_expr e Γ true
    intro h; cases h with | mk hraw hany =>
    cases hraw with | pre he hres =>
    simp only [checkExpr, ih _ _ _ _ he, hres]; exact wrap_ok_eq hany
  | .infix op l r, Γ, s, t, x, c, tys => by
    have ihl := complete_expr l Γ true
    have ihr := complete_expr r Γ true
    intro h; cases h with | mk hraw hany =>
    cases hraw with | «infix» hl hr hc hres =>
    simp only [checkExpr, ihl _ _ _ _ hl, ihr _ _ _ _ hr, hres, tcErr_of_compat hc, List.append_nil]
    exact wrap_ok_eq hany
  | .assign op l r, Γ, s, t, x, c, tys => by
    have ihl := complete_expr l Γ true
    have ihr := complete_expr r Γ true
    intro h; cases h with | mk hraw hany =>
    cases hraw with | assign hl hr hc hop =>
    simp only [checkExpr, ihl _ _ _ _ hl, ihr _ _ _ _ hr, tcErr_of_compat hc, hop, List.append_nil, Bool.true_or, ↓reduceIte]
    exact wrap_ok_eq hany
  | .call base args, Γ, s, t, x, c, tys => by
    have ihb := complete_expr base Γ true
    have iha := complete_args args Γ
    intro h; cases h with | mk hraw hany =>
    cases hraw with
    | callFn hb hc hlen ha =>
      simp only [checkExpr, ihb _ _ _ _ hb, hc, hlen, bne_self_eq_false, Bool.false_eq_true, ↓reduceIte, iha _ _ _ _ ha,
        List.append_nil]
      exact wrap_ok_eq hany
    | callVar hb hc hlen ha =>
      simp only [checkExpr, ihb _ _ _ _ hb, hc, var_arity_ok hlen, Bool.false_eq_true, ↓reduceIte, iha _ _ _ _ ha, List.append_nil]
      exact wrap_ok_eq hany
    | callDiv hb hc =>
      simp only [checkExpr, ihb _ _ _ _ hb, hc]; exact wrap_ok_eq hany
  | .spawn name args, Γ, s, t, x, c, tys => by
    have iha := complete_sargs args Γ
    intro h; cases h with | mk hraw hany =>
    cases hraw with
    | spawnFn hb hc hv hlen ha =>
      simp only [checkExpr, complete_ident hb, hc, hlen, bne_self_eq_false, Bool.false_eq_true, ↓reduceIte, iha _ _ _ _ ha,
        spawnTargetErr_of_none hv, List.append_nil]
      exact wrap_ok_eq hany
    | spawnVar hb hc hv hlen ha =>
      simp only [checkExpr, complete_ident hb, hc, var_arity_ok hlen, Bool.false_eq_true, ↓reduceIte, iha _ _ _ _ ha,
        spawnTargetErr_of_none hv, List.append_nil]
      exact wrap_ok_eq hany
    | spawnDiv hb hc =>
      simp only [checkExpr, complete_ident hb, hc]; exact wrap_ok_eq hany
  | .index b i, Γ, s, t, x, c, tys => by
    have ihb := complete_expr b Γ true
    have ihi := complete_expr i Γ true
    intro h; cases h with | mk hraw hany =>
    cases hraw with | index hb hi hr =>
    simp only [checkExpr, ihb _ _ _ _ hb, ihi _ _ _ _ hi, hr, List.append_nil]; exact wrap_ok_eq hany
  | .member b name op, Γ, s, t, x, c, tys => by
    have ihb := complete_expr b Γ false
    intro h; cases h with | mk hraw hany =>
    cases hraw with | member hb hr =>
    simp only [checkExpr, ihb _ _ _ _ hb, hr]; exact wrap_ok_eq hany
  | .cast e ty, Γ, s, t, x, c, tys => by
    have ihb := complete_expr e Γ false
    intro h; cases h with | mk hraw hany =>
    cases hraw with | cast hb hc hok =>
    simp only [checkExpr, ihb _ _ _ _ hb, hc, hok, ↓reduceIte, List.append_nil]; exact wrap_ok_eq hany
  | .blk b, Γ, s, t, x, c, tys => by
    have ih := complete_block b Γ
    intro h; cases h with | mk hraw hany =>
    cases hraw with | blk hb =>
    simp only [checkExpr, ih _ _ _ _ hb]; exact wrap_ok_eq hany
  | .ifElse cnd th el, Γ, s, t, x, c, tys => by
    have ihc := complete_expr cnd Γ true
    have iht := complete_block th Γ
    have ihe := complete_block el Γ
    intro h; cases h with | mk hraw hany =>
    cases hraw with | ifElse hc hcb ht he hbr =>
    simp only [checkExpr, ihc _ _ _ _ hc, iht _ _ _ _ ht, ihe _ _ _ _ he, tcErr_of_compat hcb, tcErr_of_compat hbr,
      List.append_nil, List.isEmpty_nil, Bool.not_true, Bool.false_eq_true, ↓reduceIte]
    exact wrap_ok_eq hany
  | .ifThen cnd th, Γ, s, t, x, c, tys => by
    have ihc := complete_expr cnd Γ true
    have iht := complete_block th Γ
    intro h; cases h with | mk hraw hany =>
    cases hraw with | ifThen hc hcb ht hn =>
    simp only [checkExpr, ihc _ _ _ _ hc, iht _ _ _ _ ht, tcErr_of_compat hcb, compat_iff.mp hn, Option.isSome_none, Bool.false_eq_true,
      ↓reduceIte, List.append_nil]
    exact wrap_ok_eq hany
  | .matchE cnd arms, Γ, s, t, x, c, tys => by
    have ihc := complete_expr cnd Γ true
    have iha := complete_arms arms Γ
    intro h; cases h with | mk hraw hany =>
    cases hraw with | matchE hc ha hd =>
    have e := iha _ {} _ _ _ _ rfl ha
    simp only [checkExpr, ihc _ _ _ _ hc, e, Bool.false_eq_true, ↓reduceIte, List.append_nil]
    simp only [match_default_ok hd, List.append_nil]
    exact wrap_ok_eq hany
  | .tryE tb name cb, Γ, s, t, x, c, tys => by
    have iht := complete_block tb Γ
    have ihc := complete_block cb (Γ.bind name errorTy)
    intro h; cases h with | mk hraw hany =>
    cases hraw with | tryE ht hc hbr =>
    simp only [checkExpr, iht _ _ _ _ ht, ihc _ _ _ _ hc, tcErr_of_compat hbr, List.append_nil, List.isEmpty_nil,
      Bool.not_true, Bool.false_eq_true, ↓reduceIte]
    exact wrap_ok_eq hany
theorem complete_elems : (xs : PExprs) → ∀ (Γ : Ctx) (lt lt' : Ty) (x c : Bool) (l : List Ty),
    ElemsOK Γ lt xs lt' x c l → checkElems Γ lt xs = { errs := [], lt := lt', ex := x, cst := c, tys := l }
  | .nil, Γ, lt, lt', x, c, l => by intro h; cases h; simp only [checkElems]
  | .cons e rest, Γ, lt, lt', x, c, l => by
    have ihe := complete_expr e Γ true
    have ihr := complete_elems rest Γ
    intro h
    cases h with | cons he hok hr =>
    simp only [checkElems, ihe _ _ _ _ he, hok, ↓reduceIte, ihr _ _ _ _ _ hr, List.append_nil]
theorem complete_fields : (fs : PFields) → ∀ (Γ : Ctx) (seen : List String) (fields : List (String × Ty)) (x c : Bool)
    (l : List Ty), FieldsOK Γ seen fs fields x c l →
    checkFields Γ seen fs = { errs := [], fields := fields, ex := x, cst := c, tys := l }
  | .nil, Γ, seen, fields, x, c, l => by intro h; cases h; simp only [checkFields]
  | .cons k e rest, Γ, seen, fields, x, c, l => by
    have ihe := complete_expr e Γ true
    have ihr := complete_fields rest Γ
    intro h
    cases h with | cons hb hs he hr =>
    simp only [checkFields, hb, hs, Bool.false_eq_true, ↓reduceIte, ihe _ _ _ _ he, ihr _ _ _ _ _ hr, List.append_nil]
theorem complete_args : (as : PExprs) → ∀ (Γ : Ctx) (ps : List Ty) (rest : Option Ty) (x : Bool) (l : List Ty),
    ArgsOK Γ ps rest as x l → checkArgs Γ ps rest as = { errs := [], ex := x, tys := l }
  | .nil, Γ, ps, rest, x, l => by intro h; cases h; simp only [checkArgs]
  | .cons a as, Γ, ps, rest, x, l => by
    have iha := complete_expr a Γ true
    have ihr := complete_args as Γ
    intro h
    cases h with | cons ha hk hc hr =>
    have hk' : ∀ k : Kind, k ≠ Kind.null → (k == Kind.null) = false := by intro k h; simpa using h
    simp only [checkArgs, iha _ _ _ _ ha, hk' _ hk, Bool.false_eq_true, ↓reduceIte, tcErr_of_compat hc, ihr _ _ _ _ hr,
      List.append_nil, List.isEmpty_nil, List.nil_append]
theorem complete_sargs : (as : PExprs) → ∀ (Γ : Ctx) (ps : List Ty) (rest : Option Ty) (x : Bool) (l : List Ty),
    SpawnArgsOK Γ ps rest as x l → checkSpawnArgs Γ ps rest as = { errs := [], ex := x, tys := l }
  | .nil, Γ, ps, rest, x, l => by intro h; cases h; simp only [checkSpawnArgs]
  | .cons a as, Γ, ps, rest, x, l => by
    have iha := complete_expr a Γ true
    have ihr := complete_sargs as Γ
    intro h
    cases h with | cons ha hk hf hc hr =>
    have hk' : ∀ k k' : Kind, k ≠ k' → (k == k') = false := by intro k k' h; simpa using h
    simp only [checkSpawnArgs, iha _ _ _ _ ha, hk' _ _ hk, hk' _ _ hf, Bool.false_eq_true, ↓reduceIte, tcErr_of_compat hc,
      ihr _ _ _ _ hr, List.append_nil, List.isEmpty_nil, List.nil_append]
theorem complete_arms : (arms : PArms) → ∀ (Γ : Ctx) (ctl : Ty) (st : MSt) (rt' : Ty) (d' : Option (List Ty)) (x : Bool)
    (l : List Ty), st.hadErr = false → ArmsOK Γ ctl st.rt st.dflt arms rt' d' x l →
    checkArms Γ ctl st arms = { errs := [], st := { rt := rt', hadErr := false, dflt := d' }, ex := x, tys := l }
  | .nil, Γ, ctl, st, rt', d', x, l => by
    intro hst h; cases h; cases st; simp_all [checkArms]
  | .cons lits act rest, Γ, ctl, st, rt', d', x, l => by
    have iha := complete_expr act Γ true
    have ihl := complete_lits lits Γ ctl
    have ihr := complete_arms rest Γ ctl
    intro hst h
    cases h with
    | lits ha hj hd hl hr =>
      have e := ihr { rt := _, dflt := st.dflt } _ _ _ _ rfl hr
      simp only [checkArms, hst, Bool.false_eq_true, ↓reduceIte, iha _ _ _ _ ha, hj, hd, ihl _ _ hl, e, List.append_nil,
        List.nil_append]
    | dflt ha hj hd hr =>
      have e := ihr { rt := _, dflt := some _ } _ _ _ _ rfl hr
      simp only [checkArms, hst, Bool.false_eq_true, ↓reduceIte, iha _ _ _ _ ha, hj, hd, e, List.append_nil, List.nil_append]
theorem complete_lits : (lits : PLits) → ∀ (Γ : Ctx) (ctl : Ty) (x : Bool) (l : List Ty),
    LitsOK Γ ctl lits x l → checkLits Γ ctl lits = { errs := [], ex := x, tys := l }
  | .nil, Γ, ctl, x, l => by intro h; cases h; simp only [checkLits]
  | .dflt rest, Γ, ctl, x, l => by
    have ih := complete_lits rest Γ ctl
    intro h; cases h with | dflt hr => simp only [checkLits, ih _ _ hr]
  | .lit e rest, Γ, ctl, x, l => by
    have ihe := complete_expr e Γ true
    have ihr := complete_lits rest Γ ctl
    intro h
    cases h with | lit he hc hr =>
    simp only [checkLits, ihe _ _ _ _ he, tcErr_of_compat hc, ihr _ _ hr, List.append_nil]
theorem complete_stmt : (st : PStmt) → ∀ (Γ : Ctx) (t : Ty) (x : Bool) (l : List Ty) (v : List (String × Ty)),
    StmtOK Γ st t x l v → checkStmt Γ st = { errs := [], ty := t, ex := x, tys := l, vars := v }
  | .letS name ann e, Γ, t, x, l, v => by
    have ihe := complete_expr e Γ false
    intro h
    cases h with | letS he hl =>
    simp only [checkStmt, ihe _ _ _ _ he, letRule, Bool.false_and, Bool.false_eq_true, ↓reduceIte, letVarTy_complete hl,
      List.append_nil]
  | .ret e, Γ, t, x, l, v => by
    have ihe := complete_expr e Γ true
    intro h
    cases h with | ret he hr hc =>
    simp only [checkStmt, ihe _ _ _ _ he, hr, tcErr_of_compat hc, List.append_nil]
  | .retNone, Γ, t, x, l, v => by
    intro h
    cases h with | retNone hr hc => simp only [checkStmt, hr, tcErr_of_compat hc]
  | .brk, Γ, t, x, l, v => by
    intro h; cases h with | brk hl => simp only [checkStmt, hl, ↓reduceIte]
  | .cont, Γ, t, x, l, v => by
    intro h; cases h with | cont hl => simp only [checkStmt, hl, ↓reduceIte]
  | .loopS b, Γ, t, x, l, v => by
    have ih := complete_block b { Γ with inLoop := true }
    intro h
    cases h with | loopS hb hl =>
    simp only [checkStmt, ih _ _ _ _ hb, loopBodyErr_of_ok hl, List.append_nil]
  | .whileS cnd b, Γ, t, x, l, v => by
    have ihc := complete_expr cnd Γ true
    have ih := complete_block b { Γ with inLoop := true }
    intro h
    cases h with | whileS hc hcb hb hl =>
    simp only [checkStmt, ihc _ _ _ _ hc, tcErr_of_compat hcb, ih _ _ _ _ hb, loopBodyErr_of_ok hl, List.append_nil]
  | .forS name it b, Γ, t, x, l, v => by
    have ihi := complete_expr it Γ true
    have ih := complete_block b
    intro h
    cases h with | forS hi hit hb hl =>
    simp only [checkStmt, ihi _ _ _ _ hi, hit, ih _ _ _ _ _ hb, loopBodyErr_of_ok hl, List.append_nil]
  | .exprS e, Γ, t, x, l, v => by
    have ihe := complete_expr e Γ true
    intro h
    cases h with | exprS he => simp only [checkStmt, ihe _ _ _ _ he]
theorem complete_stmts : (ss : PStmts) → ∀ (Γ : Ctx) (n x : Bool) (l : List Ty) (v : List (String × Ty)),
    StmtsOK Γ ss n x l v → checkStmts Γ ss = { errs := [], never := n, ex := x, tys := l, vars := v }
  | .nil, Γ, n, x, l, v => by intro h; cases h; simp only [checkStmts]
  | .cons st rest, Γ, n, x, l, v => by
    have ihs := complete_stmt st Γ
    have ihr := complete_stmts rest
    intro h
    cases h with | cons hs hr =>
    simp only [checkStmts, ihs _ _ _ _ hs, ihr _ _ _ _ _ hr, List.append_nil]
theorem complete_block : (b : PBlock) → ∀ (Γ : Ctx) (t : Ty) (x c : Bool) (l : List Ty),
    BlockOK Γ b t x c l → checkBlock Γ b = { errs := [], ty := t, ex := x, cst := c, tys := l }
  | .mk ss e, Γ, t, x, c, l => by
    have ihs := complete_stmts ss Γ
    have ihe := complete_expr e
    intro h
    cases h with | mk hs he =>
    simp only [checkBlock, ihs _ _ _ _ hs, ihe _ _ _ _ _ _ he, List.append_nil]
  | .mkNoTail ss, Γ, t, x, c, l => by
    have ihs := complete_stmts ss Γ
    intro h
    cases h with | mkNoTail hs => simp only [checkBlock, ihs _ _ _ _ hs]
end

end HmsProofs.Lemmas.Check
