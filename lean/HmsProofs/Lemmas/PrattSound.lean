import HmsProofs.Lemmas.PrattBasic
set_option linter.unusedSimpArgs false
/-!
# Soundness of the expression-parser model

`parseArgs` accepts a trailing comma before the closing token and the tree does not record it,
so the consumed input is the tree's flattening only *up to trailing commas*. `Flat t c` says
exactly that: `c` is a token sequence of `t` in which each non-empty argument list may carry one
trailing comma.
-/
namespace HmsProofs.Lemmas.Pratt
open Hms Hms.Pratt

mutual
/-- `Flat t c`: `c` is `flatten t` with optional trailing commas in argument lists. -/
inductive Flat : Tree → List TokKind → Prop
  | atom (k : TokKind) : Flat (.atom k) [k]
  | grp {e c} : Flat e c → Flat (.grp e) (.lParen :: c ++ [.rParen])
  | pre {op e c} : Flat e c → Flat (.pre op e) (op :: c)
  | bin {l op r cl cr} : Flat l cl → Flat r cr → Flat (.bin l op r) (cl ++ op :: cr)
  | asg {l op r cl cr} : Flat l cl → Flat r cr → Flat (.asg l op r) (cl ++ op :: cr)
  | call {f args cf ca} : Flat f cf → FlatArgs args ca →
      Flat (.call f args) (cf ++ .lParen :: ca ++ [.rParen])
  | index {b i cb ci} : Flat b cb → Flat i ci →
      Flat (.index b i) (cb ++ .lBracket :: ci ++ [.rBracket])
  | member {b op nm cb} : Flat b cb → Flat (.member b op nm) (cb ++ [op, nm])
  | cast {b ty cb} : Flat b cb → Flat (.cast b ty) (cb ++ [.as, ty])
  | range {a incl b ca cb} : Flat a ca → Flat b cb →
      Flat (.range a incl b) (ca ++ (if incl then [.doubleDot, .assign] else [.doubleDot]) ++ cb)
  | list {xs c} : FlatArgs xs c → Flat (.list xs) (.lBracket :: c ++ [.rBracket])
/-- Argument lists: `last` is the canonical end, `cons` onto `nil` is the trailing comma. -/
inductive FlatArgs : Args → List TokKind → Prop
  | nil : FlatArgs .nil []
  | last {x c} : Flat x c → FlatArgs (.cons x .nil) c
  | cons {x xs c cs} : Flat x c → FlatArgs xs cs → FlatArgs (.cons x xs) (c ++ .comma :: cs)
end

theorem Flat.congr {t : Tree} {c c' : List TokKind} (h : Flat t c) (e : c = c') : Flat t c' := e ▸ h

theorem rangeSplit_eq (rest : List TokKind) :
    rest = (if (rangeSplit rest).1 then [TokKind.assign] else []) ++ (rangeSplit rest).2 := by
  unfold rangeSplit; split <;> simp

theorem rightSpineOK_zero (prec : Prec) : ∀ t : Tree, rightSpineOK prec 0 t = true
  | .bin _ _ r | .asg _ _ r | .pre _ r | .range _ _ r => by
    simp [rightSpineOK, rightSpineOK_zero prec r]
  | .atom _ | .grp _ | .call _ _ | .index _ _ | .member _ _ _ | .cast _ _ | .list _ => by
    simp [rightSpineOK]

/-- The three soundness statements at one fuel level. -/
def SoundAt (prec : Prec) (n : Nat) : Prop :=
  (∀ p ts t out, parseE prec n p ts = .ok (t, out) →
    ∃ c, ts = c ++ out ∧ Flat t c ∧ normal prec p t = true ∧ headLbp prec out ≤ p
      ∧ rightSpineOK prec (headLbp prec out) t = true) ∧
  (∀ p lhs ts t out, loop prec n p lhs ts = .ok (t, out) →
    ∀ c0, Flat lhs c0 → normal prec p lhs = true → rightSpineOK prec (headLbp prec ts) lhs = true →
    ∃ c, ts = c ++ out ∧ Flat t (c0 ++ c) ∧ normal prec p t = true ∧ headLbp prec out ≤ p
      ∧ rightSpineOK prec (headLbp prec out) t = true) ∧
  (∀ close ts xs out, parseArgs prec n close ts = .ok (xs, out) →
    ∃ c, ts = c ++ close :: out ∧ FlatArgs xs c ∧ normalArgs prec xs = true)

theorem prim_sound {prec : Prec} {n : Nat} (ih : SoundAt prec n) {k : TokKind}
    {rest rest' : List TokKind} {lhs : Tree} (h : Prim prec n k rest lhs rest') (p : Nat) :
    ∃ c0, k :: rest = c0 ++ rest' ∧ Flat lhs c0 ∧ normal prec p lhs = true
      ∧ rightSpineOK prec (headLbp prec rest') lhs = true := by
  obtain ⟨ihE, _, ihA⟩ := ih
  cases h with
  | atom hk => exact ⟨[k], rfl, .atom k, by simpa [normal] using hk, by simp [rightSpineOK]⟩
  | grp he =>
    obtain ⟨c, rfl, hf, hn, _, _⟩ := ihE _ _ _ _ he
    exact ⟨_, by simp, .grp hf, by simpa [normal] using hn, by simp [rightSpineOK]⟩
  | pre hk he =>
    obtain ⟨c, rfl, hf, hn, hl, hs⟩ := ihE _ _ _ _ he
    refine ⟨k :: c, by simp, .pre hf, by simp [normal, hk, hn], ?_⟩
    simp [rightSpineOK, hs]; exact hl
  | list ha =>
    obtain ⟨c, rfl, hf, hn⟩ := ihA _ _ _ _ ha
    exact ⟨_, by simp, .list hf, by simpa [normal] using hn, by simp [rightSpineOK]⟩

theorem step_sound {prec : Prec} {n : Nat} (ih : SoundAt prec n) {k : TokKind}
    {rest rest' : List TokKind} {lhs lhs' : Tree} (h : Step prec n lhs k rest lhs' rest') {p : Nat}
    (hp : (prec k).1 > p) {c0 : List TokKind} (hf0 : Flat lhs c0) (hn0 : normal prec p lhs = true)
    (hs0 : rightSpineOK prec (prec k).1 lhs = true) :
    ∃ c1, k :: rest = c1 ++ rest' ∧ Flat lhs' (c0 ++ c1) ∧ normal prec p lhs' = true
      ∧ rightSpineOK prec (headLbp prec rest') lhs' = true := by
  obtain ⟨ihE, _, ihA⟩ := ih
  cases h with
  | range he =>
    obtain ⟨c, hc, hf, hn, hl, hs⟩ := ihE _ _ _ _ he
    have hl0 : headLbp prec rest' = 0 := by omega
    refine ⟨.doubleDot :: (if (rangeSplit rest).1 then [TokKind.assign] else []) ++ c, ?_,
      (Flat.range hf0 hf).congr ?_, ?_, ?_⟩
    · conv => lhs; rw [rangeSplit_eq rest, hc]
      simp
    · cases (rangeSplit rest).1 <;> simp
    · simp [normal, hp, hn0, hs0, hn]
    · simp [rightSpineOK, hl0]; simpa [hl0] using hs
  | bin hk he =>
    obtain ⟨c, rfl, hf, hn, hl, hs⟩ := ihE _ _ _ _ he
    refine ⟨k :: c, by simp, (Flat.bin hf0 hf).congr (by simp), ?_, ?_⟩
    · simp [normal, hk, hp, hn0, hs0, hn]
    · simp [rightSpineOK, hs]; exact hl
  | asg hk hv he =>
    obtain ⟨c, rfl, hf, hn, hl, hs⟩ := ihE _ _ _ _ he
    refine ⟨k :: c, by simp, (Flat.asg hf0 hf).congr (by simp), ?_, ?_⟩
    · simp [normal, hk, hp, hn0, hs0, hn, hv]
    · simp [rightSpineOK, hs]; exact hl
  | call ha =>
    obtain ⟨c, rfl, hf, hn⟩ := ihA _ _ _ _ ha
    refine ⟨.lParen :: c ++ [.rParen], by simp, (Flat.call hf0 hf).congr (by simp), ?_, ?_⟩
    · simp [normal, hp, hn0, hs0, hn]
    · simp [rightSpineOK]
  | index he =>
    obtain ⟨c, rfl, hf, hn, _, _⟩ := ihE _ _ _ _ he
    refine ⟨.lBracket :: c ++ [.rBracket], by simp, (Flat.index hf0 hf).congr (by simp), ?_, ?_⟩
    · simp [normal, hp, hn0, hs0, hn]
    · simp [rightSpineOK]
  | @member _ nm _ hk hnm =>
    refine ⟨[k, nm], by simp, Flat.member hf0, ?_, ?_⟩
    · rcases hnm with rfl | rfl <;> simp [normal, hk, hp, hn0, hs0]
    · simp [rightSpineOK]
  | cast =>
    refine ⟨[.as, .identifier], by simp, Flat.cast hf0, ?_, ?_⟩
    · simp [normal, hp, hn0, hs0]
    · simp [rightSpineOK]

theorem sound_all (prec : Prec) : ∀ n, SoundAt prec n := by
  intro n
  induction n with
  | zero => simp [SoundAt, parseE, loop, parseArgs]
  | succ n ih =>
    have ih' := ih
    obtain ⟨ihE, ihL, ihA⟩ := ih'
    refine ⟨?_, ?_, ?_⟩
    · intro p ts t out h
      obtain ⟨k, rest, lhs, rest', rfl, hprim, hloop⟩ := parseE_inv h
      obtain ⟨c0, hc0, hf0, hn0, hs0⟩ := prim_sound ih hprim p
      obtain ⟨c, rfl, hf, hrest⟩ := ihL _ _ _ _ _ hloop c0 hf0 hn0 hs0
      exact ⟨c0 ++ c, by simp [hc0], hf, hrest⟩
    · intro p lhs ts t out h c0 hf0 hn0 hs0
      rcases loop_inv h with ⟨hstop, hr⟩ | ⟨k, rest, lhs', rest', rfl, hp, hstep, hloop⟩
      · simp only [Prod.mk.injEq] at hr
        obtain ⟨rfl, rfl⟩ := hr
        exact ⟨[], by simp, by simpa using hf0, hn0, hstop, hs0⟩
      · obtain ⟨c1, hc1, hf1, hn1, hs1⟩ := step_sound ih hstep hp hf0 hn0 (by simpa [headLbp] using hs0)
        obtain ⟨c, rfl, hf, hrest⟩ := ihL _ _ _ _ _ hloop _ hf1 hn1 hs1
        exact ⟨c1 ++ c, by simp [hc1], by simpa using hf, hrest⟩
    · intro close ts xs out h
      rcases parseArgs_inv h with ⟨rest, rfl, rfl, rfl⟩ | ⟨e, rest', xs', he, ha, rfl⟩ | ⟨e, he, rfl⟩
      · exact ⟨[], by simp, .nil, by simp [normalArgs]⟩
      · obtain ⟨c, rfl, hf, hn, _, _⟩ := ihE _ _ _ _ he
        obtain ⟨cs, rfl, hfs, hns⟩ := ihA _ _ _ _ ha
        exact ⟨c ++ .comma :: cs, by simp, .cons hf hfs, by simp [normalArgs, hn, hns]⟩
      · obtain ⟨c, rfl, hf, hn, _, _⟩ := ihE _ _ _ _ he
        exact ⟨c, rfl, .last hf, by simp [normalArgs, hn]⟩

/-! ## Inputs without trailing commas: `Flat` collapses to `flatten` -/

def isCloser : TokKind → Bool
  | .rParen | .rBracket => true
  | _ => false

def startsWithCloser : List TokKind → Bool
  | c :: _ => isCloser c
  | [] => false

/-- Some comma is immediately followed by `)` or `]`. -/
def hasTrailingComma : List TokKind → Bool
  | [] => false
  | k :: tl => (k == .comma && startsWithCloser tl) || hasTrailingComma tl

theorem hasTC_append {a b : List TokKind} (h : hasTrailingComma (a ++ b) = false) :
    hasTrailingComma a = false ∧ hasTrailingComma b = false := by
  induction a with
  | nil => exact ⟨rfl, by simpa using h⟩
  | cons k a ih =>
    simp only [List.cons_append, hasTrailingComma, Bool.or_eq_false_iff] at h ⊢
    obtain ⟨h1, h2⟩ := h
    refine ⟨⟨?_, (ih h2).1⟩, (ih h2).2⟩
    cases a with
    | nil => simp [startsWithCloser]
    | cons x a => simpa [startsWithCloser] using h1

theorem hasTC_comma_closer (a b : List TokKind) {c : TokKind} (hc : isCloser c = true) :
    hasTrailingComma (a ++ .comma :: c :: b) = true := by
  induction a with
  | nil => simp [hasTrailingComma, startsWithCloser, hc]
  | cons k a ih => simp [hasTrailingComma, ih]

mutual
theorem flat_exact : ∀ {t : Tree} {c : List TokKind}, Flat t c → hasTrailingComma c = false → c = flatten t
  | _, _, .atom k, _ => by simp [flatten]
  | _, _, .grp h, hn => by
    simp only [List.append_assoc, List.cons_append, List.nil_append] at hn
    have h1 := hasTC_append (a := [.lParen]) hn
    have h2 := hasTC_append h1.2
    simp [flatten, flat_exact h h2.1]
  | _, _, .pre h, hn => by
    have := hasTC_append (a := [_]) hn
    simp [flatten, flat_exact h this.2]
  | _, _, .bin hl hr, hn => by
    have h1 := hasTC_append hn
    have h2 := hasTC_append (a := [_]) h1.2
    simp [flatten, flat_exact hl h1.1, flat_exact hr h2.2]
  | _, _, .asg hl hr, hn => by
    have h1 := hasTC_append hn
    have h2 := hasTC_append (a := [_]) h1.2
    simp [flatten, flat_exact hl h1.1, flat_exact hr h2.2]
  | _, _, .call hf ha, hn => by
    simp only [List.append_assoc, List.cons_append, List.nil_append] at hn
    have h1 := hasTC_append hn
    have h2 := hasTC_append (a := [_]) h1.2
    simp [flatten, flat_exact hf h1.1, flatArgs_exact ha .rParen rfl h2.2]
  | _, _, .index hb hi, hn => by
    simp only [List.append_assoc, List.cons_append, List.nil_append] at hn
    have h1 := hasTC_append hn
    have h2 := hasTC_append (a := [_]) h1.2
    have h3 := hasTC_append h2.2
    simp [flatten, flat_exact hb h1.1, flat_exact hi h3.1]
  | _, _, .member hb, hn => by
    have h1 := hasTC_append hn
    simp [flatten, flat_exact hb h1.1]
  | _, _, .cast hb, hn => by
    have h1 := hasTC_append hn
    simp [flatten, flat_exact hb h1.1]
  | _, _, .range ha hb, hn => by
    have h1 := hasTC_append hn
    have h2 := hasTC_append h1.1
    simp [flatten, flat_exact ha h2.1, flat_exact hb h1.2]
  | _, _, .list ha, hn => by
    simp only [List.append_assoc, List.cons_append, List.nil_append] at hn
    have h2 := hasTC_append (a := [_]) hn
    simp [flatten, flatArgs_exact ha .rBracket rfl h2.2]
theorem flatArgs_exact : ∀ {xs : Args} {c : List TokKind}, FlatArgs xs c → ∀ close, isCloser close = true →
    hasTrailingComma (c ++ [close]) = false → c = flattenArgs xs
  | _, _, .nil, _, _, _ => by simp [flattenArgs]
  | _, _, .last h, _, _, hn => by
    simp [flattenArgs, flat_exact h (hasTC_append hn).1]
  | _, _, .cons (xs := xs) h hs, close, hc, hn => by
    simp only [List.append_assoc, List.cons_append, List.nil_append] at hn
    cases xs with
    | nil =>
      cases hs
      rw [List.nil_append, hasTC_comma_closer _ _ hc] at hn
      cases hn
    | cons y ys =>
      have h1 := hasTC_append hn
      have h2 := hasTC_append (a := [_]) h1.2
      simp [flattenArgs, flat_exact h h1.1, flatArgs_exact hs close hc h2.2]
end

mutual
theorem flat_flatten : ∀ t : Tree, Flat t (flatten t)
  | .atom k => .atom k
  | .grp e => (Flat.grp (flat_flatten e)).congr (by simp [flatten])
  | .pre op e => (Flat.pre (flat_flatten e)).congr (by simp [flatten])
  | .bin l op r => (Flat.bin (flat_flatten l) (flat_flatten r)).congr (by simp [flatten])
  | .asg l op r => (Flat.asg (flat_flatten l) (flat_flatten r)).congr (by simp [flatten])
  | .call f args => (Flat.call (flat_flatten f) (flatArgs_flatten args)).congr (by simp [flatten])
  | .index b i => (Flat.index (flat_flatten b) (flat_flatten i)).congr (by simp [flatten])
  | .member b op nm => (Flat.member (flat_flatten b)).congr (by simp [flatten])
  | .cast b ty => (Flat.cast (flat_flatten b)).congr (by simp [flatten])
  | .range a incl b => (Flat.range (flat_flatten a) (flat_flatten b)).congr (by simp [flatten])
  | .list xs => (Flat.list (flatArgs_flatten xs)).congr (by simp [flatten])
theorem flatArgs_flatten : ∀ xs : Args, FlatArgs xs (flattenArgs xs)
  | .nil => by simpa [flattenArgs] using FlatArgs.nil
  | .cons x .nil => by simpa [flattenArgs] using FlatArgs.last (flat_flatten x)
  | .cons x (.cons y ys) => by
    simpa [flattenArgs] using FlatArgs.cons (flat_flatten x) (flatArgs_flatten (.cons y ys))
end
end HmsProofs.Lemmas.Pratt
