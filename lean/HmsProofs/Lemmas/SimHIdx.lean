import HmsProofs.Lemmas.SimHArgs
/-!
# Element reads `l[i]` and arithmetic over them: the value positions of statements

The value of `l[i]` arrives on the VM's stack with the cell's origin attached; `SimOE` is `SimGE`
with that origin left open. `PX`: the simulation statement for `Frag.okXE`.
-/
namespace HmsProofs.Sim
open Hms.Core Hms.Core.Comp Hms.Core.VM

/-- The statement for `Frag.okXE`. -/
def PX (G : GCtx) (fuel : Nat) : Prop :=
  ∀ (A : Act), A.OK G → ∀ (e : Expr) (st : St) (ip : Nat) (stk : List SVal) (mem : Mem) (lm : LM)
    (scopes : CScopes) (vm : List (String × Nat)),
    Frag.okXE e = true → Frag.wsGE scopes A.φ e = true → (∀ x ∈ Frag.namesGE e, x ∈ A.T) →
    Placed A.lab A.σ A.c ip (cgE G.mod (ρS scopes) A.φ e lm).1 →
    StRel G.mod A.T A.N A.σ G.lim A.mp scopes vm st.scopes mem → SpecOK G A.mp st →
    SimOE G A ip (nI (cgE G.mod (ρS scopes) A.φ e lm).1) stk mem st (evalExpr G.cfg fuel e st)

/-- **`Frag.okXE` is simulated**, given the expression fragment at all smaller fuels. -/
theorem px_all (G : GCtx) : ∀ (n : Nat), (∀ m, m ≤ n → PE G m) → PX G n := by
  intro n
  induction n with
  | zero =>
    intro _ A _ e st ip stk mem lm scopes vm _ _ _ _ _ _
    rw [evalExpr]; trivial
  | succ n ih =>
    intro hPE A hA e st ip stk mem lm scopes vm hok hws hT hpl hrel hsp
    have ihn := ih (fun m hm => hPE m (by omega))
    have hPEn := hPE (n + 1) (Nat.le_refl _)
    have hws' := hws
    simp only [Frag.wsGE, Bool.and_eq_true] at hws'
    obtain ⟨hres, hcalls⟩ := hws'
    cases e
    case index sp ty b i =>
      simp only [Frag.okXE, Bool.and_eq_true] at hok
      obtain ⟨⟨hb, hi⟩, _⟩ := hok
      simp only [Frag.varsGE, Frag.callsGE, resolved_append, callsOK_append] at hres hcalls
      simp only [Frag.namesGE, Frag.varsGE, Frag.callsGE, List.mem_append] at hT
      have hwb : Frag.wsGE scopes A.φ b = true := by simp [Frag.wsGE, hres.1, hcalls.1]
      have hwi : Frag.wsGE scopes A.φ i = true := by simp [Frag.wsGE, hres.2, hcalls.2]
      have hTb : ∀ x ∈ Frag.namesGE b, x ∈ A.T := by
        intro x hx; simp only [Frag.namesGE, List.mem_append] at hx
        rcases hx with hx | hx
        · exact hT x (Or.inl (Or.inl hx))
        · exact hT x (Or.inr (Or.inl hx))
      have hTi : ∀ x ∈ Frag.namesGE i, x ∈ A.T := by
        intro x hx; simp only [Frag.namesGE, List.mem_append] at hx
        rcases hx with hx | hx
        · exact hT x (Or.inl (Or.inr hx))
        · exact hT x (Or.inr (Or.inr hx))
      have hpl' := hpl
      simp only [cgE] at hpl'
      obtain ⟨h12, _⟩ := hpl'.append
      obtain ⟨hpB, hpI⟩ := h12.append
      exact index_step G A hA n sp ty b i st ip stk mem lm scopes vm hpl hrel hsp
        (ihn A hA b st ip stk mem lm scopes vm hb hwb hTb hpB hrel hsp)
        (fun st1 mem1 bv ob hrel1 hsp1 => ihn A hA i st1 _ (⟨bv, ob⟩ :: stk) mem1 _ scopes vm hi hwi hTi hpI hrel1 hsp1)
    case member sp ty b name mop =>
      cases mop <;> try (simp [Frag.okXE, Frag.okGE] at hok; done)
      simp only [Frag.okXE] at hok
      simp only [Frag.varsGE, Frag.callsGE] at hres hcalls
      have hwb : Frag.wsGE scopes A.φ b = true := by simp [Frag.wsGE, hres, hcalls]
      have hTb : ∀ x ∈ Frag.namesGE b, x ∈ A.T := by
        intro x hx; exact hT x (by simpa [Frag.namesGE, Frag.varsGE, Frag.callsGE] using hx)
      have hpB : Placed A.lab A.σ A.c ip (cgE G.mod (ρS scopes) A.φ b lm).1 := by
        simp only [cgE] at hpl; exact hpl.append.1
      exact member_step G A hA n sp ty b name st ip stk mem lm scopes hpl
        (ihn A hA b st ip stk mem lm scopes vm hok hwb hTb hpB hrel hsp)
    case grouped sp e =>
      simp only [Frag.okXE] at hok
      rw [evalExpr]
      rw [cgE] at hpl ⊢
      exact ihn A hA e st ip stk mem lm scopes vm hok (by simpa [Frag.wsGE, Frag.varsGE, Frag.callsGE] using hws)
        (by simpa [Frag.namesGE, Frag.varsGE, Frag.callsGE] using hT) hpl hrel hsp
    case pre sp ty op e =>
      simp only [Frag.okXE] at hok
      simp only [cgE] at hpl ⊢
      obtain ⟨hplA, hplB⟩ := hpl.append
      have hi := (hplB.instr (preI_notLabel op)).1
      have h1 := ihn A hA e st ip stk mem lm scopes vm hok
        (by simpa [Frag.wsGE, Frag.varsGE, Frag.callsGE] using hws)
        (by simpa [Frag.namesGE, Frag.varsGE, Frag.callsGE] using hT) hplA hrel hsp
      have hn : nI ((cgE G.mod (ρS scopes) A.φ e lm).1 ++ [(preI op, sp)]) =
          nI (cgE G.mod (ρS scopes) A.φ e lm).1 + 1 := by
        rw [nI_append, nI_instr _ _ _ (preI_notLabel op)]; rfl
      rw [evalExpr_pre, hn]
      rcases he : evalExpr G.cfg n e st with ⟨r1, st1⟩
      rw [he] at h1
      cases r1 with
      | error c1 => exact SimGE.error_n _ h1
      | ok a =>
        obtain ⟨hfr, mem1, oa, hrun, hml⟩ := h1
        simp only []
        cases hpo : preOp op a with
        | error c' =>
          obtain ⟨w, rfl⟩ := preOp_error hpo
          trivial
        | ok v =>
          refine ⟨hfr, mem1, none, (hrun.trans (Runs.of_runsTo (fr := G.fr) (fun it_ => RunsTo.of_exec1 (fun k =>
            reach_pre G.code G.lim (baseOf (withIt G.s it_) A.fn A.rest A.mp st1.world) _ k stk mem1 ⟨A.fn, 0⟩ A.rest A.c rfl
              hA.code op sp A.lab A.σ a v oa hi hpo)))).cast ?_, hml⟩
          omega
    case «infix» sp ty op l r =>
      by_cases hp : Frag.pureE (.infix sp ty op l r) = true
      · exact SimOE.of_simGE (hPEn A hA _ st ip stk mem lm scopes vm (okE_okGE _ _ (by simp only [Frag.okGE, hp, Bool.true_or])) hws hT hpl
          hrel hsp)
      have hnp : Frag.pureE (.infix sp ty op l r) = false := by simpa using hp
      simp only [Frag.okXE, hnp, Bool.false_or, Bool.and_eq_true, Bool.not_eq_eq_eq_not, Bool.not_true] at hok
      obtain ⟨⟨⟨hlog, hl⟩, hr⟩, _⟩ := hok
      simp only [Frag.varsGE, Frag.callsGE, resolved_append, callsOK_append] at hres hcalls
      simp only [Frag.namesGE, Frag.varsGE, Frag.callsGE, List.mem_append] at hT
      have hwl : Frag.wsGE scopes A.φ l = true := by simp [Frag.wsGE, hres.1, hcalls.1]
      have hwr : Frag.wsGE scopes A.φ r = true := by simp [Frag.wsGE, hres.2, hcalls.2]
      have hTl : ∀ x ∈ Frag.namesGE l, x ∈ A.T := by
        intro x hx; simp only [Frag.namesGE, List.mem_append] at hx
        rcases hx with hx | hx
        · exact hT x (Or.inl (Or.inl hx))
        · exact hT x (Or.inr (Or.inl hx))
      have hTr : ∀ x ∈ Frag.namesGE r, x ∈ A.T := by
        intro x hx; simp only [Frag.namesGE, List.mem_append] at hx
        rcases hx with hx | hx
        · exact hT x (Or.inl (Or.inr hx))
        · exact hT x (Or.inr (Or.inr hx))
      rw [cgE_infix _ _ _ _ _ _ _ _ _ hlog] at hpl ⊢
      simp only [] at hpl ⊢
      generalize hCA : cgE G.mod (ρS scopes) A.φ l lm = CA at hpl ⊢
      generalize hCB : cgE G.mod (ρS scopes) A.φ r CA.2 = CB at hpl ⊢
      obtain ⟨h12, hY⟩ := hpl.append
      obtain ⟨hpA, hpB⟩ := h12.append
      rw [evalExpr_infix _ _ _ _ _ _ _ _ hlog]
      have h1 := ihn A hA l st ip stk mem lm scopes vm hl hwl hTl (hCA ▸ hpA) hrel hsp
      rw [hCA] at h1
      rcases hel : evalExpr G.cfg n l st with ⟨r1, st1⟩
      rw [hel] at h1
      cases r1 with
      | error c1 => exact SimGE.error_n _ h1
      | ok a =>
        obtain ⟨hfr1, mem1, oa, hrun1, hml1⟩ := h1
        simp only []
        have hsp1 := hsp.world st1 hfr1 hrun1.inv
        have hrel1 : StRel G.mod A.T A.N A.σ G.lim A.mp scopes vm st1.scopes mem1 := by
          rw [hfr1]; exact hrel.memLe hml1.cells
        have h2 := ihn A hA r st1 (ip + nI CA.1) (⟨a, oa⟩ :: stk) mem1 CA.2 scopes vm hr hwr hTr (hCB ▸ hpB)
          hrel1 hsp1
        rw [hCB] at h2
        rcases her : evalExpr G.cfg n r st1 with ⟨r2, st2⟩
        rw [her] at h2
        cases r2 with
        | error c2 => exact SimOE.error_after _ [⟨a, oa⟩] hrun1 hfr1 hml1 h2
        | ok b =>
          obtain ⟨hfr2, mem2, ob, hrun2, hml2⟩ := h2
          simp only []
          have hrun12 := (hrun1.trans hrun2).cast (Nat.add_assoc ip _ _)
          have ha := fun it_ => exec_arith G.code G.lim (baseOf (withIt G.s it_) A.fn A.rest A.mp st2.world) ⟨A.fn, 0⟩
            A.rest A.c A.σ A.lab
            rfl hA.code op sp a b oa ob st2 (ip + (nI CA.1 + nI CB.1)) stk mem2 hlog
            (by simpa [nI_append] using hY) rfl
          rcases hb : binOp op a b sp st2 with ⟨rb, st3⟩
          have hst3 : st3 = st2 := by
            have := (binOp_heapOnly op a b sp).state st2
            rw [hb] at this; exact this
          subst hst3
          simp only [hb] at ha
          have hfr : st3 = { st with out := st3.out, heap := st3.heap } := by rw [hfr2, hfr1]
          cases rb with
          | ok v =>
            simp only [] at ha
            refine ⟨hfr, mem2, none, (hrun12.trans (Runs.of_runsTo ha)).cast ?_, hml1.trans hml2⟩
            simp only [nI_append]; omega
          | error cb =>
            cases cb <;> first | trivial | exact (ha ⟨[], 0⟩).elim | skip
            intro _
            exact hrun12.fatal (RunsF.of_runsFatal ha)
    all_goals
      exact SimOE.of_simGE (hPEn A hA _ st ip stk mem lm scopes vm (okE_okGE _ _ (by simpa [Frag.okXE] using hok)) hws hT hpl hrel hsp)

/-- The statement for the value positions (`Frag.okV`). -/
def PV (G : GCtx) (fuel : Nat) : Prop :=
  ∀ (A : Act), A.OK G → ∀ (e : Expr) (st : St) (ip : Nat) (stk : List SVal) (mem : Mem) (lm : LM)
    (scopes : CScopes) (vm : List (String × Nat)),
    Frag.okV G.fr e = true → Frag.wsGE scopes A.φ e = true → (∀ x ∈ Frag.namesGE e, x ∈ A.T) →
    Placed A.lab A.σ A.c ip (cgE G.mod (ρS scopes) A.φ e lm).1 →
    StRel G.mod A.T A.N A.σ G.lim A.mp scopes vm st.scopes mem → SpecOK G A.mp st →
    SimOE G A ip (nI (cgE G.mod (ρS scopes) A.φ e lm).1) stk mem st (evalExpr G.cfg fuel e st)

theorem pv_all (G : GCtx) (n : Nat) (hPE : ∀ m, m ≤ n → PE G m) : PV G n := by
  intro A hA e st ip stk mem lm scopes vm hok hws hT hpl hrel hsp
  simp only [Frag.okV, Bool.or_eq_true] at hok
  rcases hok with hok | hok
  · exact px_all G n hPE A hA e st ip stk mem lm scopes vm hok hws hT hpl hrel hsp
  · exact SimOE.of_simGE (hPE n (Nat.le_refl _) A hA e st ip stk mem lm scopes vm hok hws hT hpl hrel hsp)

end HmsProofs.Sim
