import HmsProofs.Lemmas.SimHArgs
/-!
# Element reads `l[i]` and arithmetic over them: the value positions of statements

The value of `l[i]` arrives on the VM's stack with the cell's origin attached; `SimOE` is `SimGE`
with that origin left open. `PX`: the simulation statement for `Frag.okXE`.
-/
namespace HmsProofs.Sim
open Hms.Core Hms.Core.Comp Hms.Core.VM

/-- `SimGE` with the origin of the pushed value left open. -/
def SimOE (G : GCtx) (A : Act) (ip n : Nat) (stk : List SVal) (mem : Mem) (st : St)
    (r : Except Ctl Val × St) : Prop :=
  match r with
  | (.ok v, st') =>
    st' = { st with out := st'.out, heap := st'.heap } ∧
      ∃ mem' o, Runs G.fr G.code G.lim G.s A.fn A.rest A.mp ip stk mem st.world (ip + n) (⟨v, o⟩ :: stk) mem' st'.world ∧
        MemLe G.fr A.mp mem mem'
  | (.error c, st') => SimGE G A ip n stk mem st (.error c, st')

theorem SimOE.of_simGE {G A ip n stk mem st r} (h : SimGE G A ip n stk mem st r) : SimOE G A ip n stk mem st r := by
  obtain ⟨r1, st1⟩ := r
  cases r1 with
  | error c => exact h
  | ok v =>
    obtain ⟨hfr, mem1, hrun, hml⟩ := h
    exact ⟨hfr, mem1, none, hrun, hml⟩

theorem evalExpr_index (cfg fuel sp ty b i st) :
    evalExpr cfg (fuel + 1) (.index sp ty b i) st =
      match evalExpr cfg fuel b st with
      | (.ok bv, st1) =>
        (match evalExpr cfg fuel i st1 with
          | (.ok iv, st2) => indexVal bv iv sp st2
          | (.error c, st2) => (.error c, st2))
      | (.error c, st1) => (.error c, st1) := by
  rw [evalExpr, M_bind]
  rcases evalExpr cfg fuel b st with ⟨r1, st1⟩
  cases r1 with
  | error c => rfl
  | ok bv =>
    simp only []
    rw [M_bind]
    rcases evalExpr cfg fuel i st1 with ⟨r2, st2⟩
    cases r2 <;> rfl

/-- The statement for `Frag.okXE`. -/
def PX (G : GCtx) (fuel : Nat) : Prop :=
  ∀ (A : Act), A.OK G → ∀ (e : Expr) (st : St) (ip : Nat) (stk : List SVal) (mem : Mem) (lm : LM)
    (scopes : CScopes) (vm : List (String × Nat)),
    Frag.okXE e = true → Frag.wsGE scopes A.φ e = true → (∀ x ∈ Frag.namesGE e, x ∈ A.T) →
    Placed A.lab A.σ A.c ip (cgE G.mod (ρS scopes) A.φ e lm).1 →
    StRel G.mod A.T A.N A.σ G.lim A.mp scopes vm st.scopes mem → SpecOK G A.mp st →
    SimOE G A ip (nI (cgE G.mod (ρS scopes) A.φ e lm).1) stk mem st (evalExpr G.cfg fuel e st)

theorem SimOE.error_after {G : GCtx} {A : Act} {ip n stk mem st c st1 ip1 mem1} {st0 : St} (n' : Nat)
    (ys : List SVal)
    (h0 : Runs G.fr G.code G.lim G.s A.fn A.rest A.mp ip stk mem st0.world ip1 (ys ++ stk) mem1 st.world)
    (hfr : st = { st0 with out := st.out, heap := st.heap }) (hml : MemLe G.fr A.mp mem mem1)
    (h : SimOE G A ip1 n (ys ++ stk) mem1 st (.error c, st1)) : SimOE G A ip n' stk mem st0 (.error c, st1) :=
  SimGE.error_after n' ys h0 hfr hml h

/-- `Index` after the base and the index: the specification's `indexVal`. -/
theorem index_runs (G : GCtx) (A : Act) (hA : A.OK G) (sp : Span) (ip : Nat) (stk : List SVal) (mem : Mem)
    (st : St) (bv iv : Val) (ob oi : Option Org) (hx : A.c[ip]? = some (.index, sp)) :
    match indexVal bv iv sp st with
    | (.ok v, _) => Runs G.fr G.code G.lim G.s A.fn A.rest A.mp ip (⟨iv, oi⟩ :: ⟨bv, ob⟩ :: stk) mem st.world
        (ip + 1) (⟨v, idxOrg st.heap bv iv⟩ :: stk) mem st.world
    | (.error (.fatal kd m fsp), _) =>
      RunsF G.code G.lim G.s A.fn A.rest A.mp ip (⟨iv, oi⟩ :: ⟨bv, ob⟩ :: stk) mem st.world kd m fsp st.world
    | (.error (.unsupported _), _) => True
    | _ => False := by
  obtain ⟨hst, hheap, herr⟩ := indexVal_shape bv iv sp st
  have hvm : ∀ it, (indexVal bv iv sp { (withIt G.s it).st with heap := st.world.heap, out := st.world.out }).1 =
      (indexVal bv iv sp st).1 := fun it =>
    (indexVal_shape bv iv sp st).2.1 _ rfl
  rcases hr : indexVal bv iv sp st with ⟨r, st'⟩
  rw [hr] at hvm herr
  simp only at hvm herr
  cases r with
  | ok v =>
    refine Runs.of_exec1 (fr := G.fr) (mem := mem) (fun it_ k => ?_)
    rw [mkS_index G.code G.lim (withIt G.s it_) A.fn ip A.rest A.mp k stk mem.cells st.world A.c hA.code sp bv iv ob oi hx,
      hvm it_]
    rfl
  | error c =>
    rcases herr c rfl with ⟨kd, m, rfl⟩ | ⟨w, rfl⟩
    · intro k
      refine ⟨1, mkS (withIt G.s mem.it) (⟨A.fn, ip⟩ :: A.rest) A.mp (k + 1) stk mem.cells st.world, ?_, rfl, rfl⟩
      rw [execHN_one]
      apply exec1H_of_fatal
      show exec1 G.code G.lim (mkS (withIt G.s mem.it) (⟨A.fn, ip⟩ :: A.rest) A.mp k (⟨iv, oi⟩ :: ⟨bv, ob⟩ :: stk) mem.cells
        st.world) = _
      rw [mkS_index G.code G.lim (withIt G.s mem.it) A.fn ip A.rest A.mp k stk mem.cells st.world A.c hA.code sp bv iv ob oi
        hx, hvm mem.it]
      rfl
    · trivial

theorem memberVal_dot_heap (b : Val) (name : String) (sp : Span) (st st' : St) (h : st'.heap = st.heap) :
    (memberVal b name .dot sp st').1 = (memberVal b name .dot sp st).1 := by
  rw [memberVal_dot, memberVal_dot]
  cases b <;> try rfl
  case ref a =>
    simp only [h]
    cases st.heap[a]? with
    | none => rfl
    | some c =>
      cases c <;> try rfl
      rename_i fs; simp only []; cases fs.lookup name <;> rfl
  case range x y i =>
    simp only []
    split
    · rfl
    · split <;> rfl

theorem memberVal_dot_error (b : Val) (name : String) (sp : Span) (st : St) (c : Ctl) (st' : St)
    (h : memberVal b name .dot sp st = (.error c, st')) : ∃ w, c = .unsupported w := by
  rw [memberVal_dot] at h
  cases b <;> try (cases h; done)
  case ref a =>
    simp only [] at h
    cases hc : st.heap[a]? with
    | none => rw [hc] at h; cases h; exact ⟨_, rfl⟩
    | some cl =>
      rw [hc] at h
      cases cl <;> try (cases h; done)
      rename_i fs; simp only [] at h; cases hl : fs.lookup name <;> rw [hl] at h <;> cases h
  case range x y i =>
    simp only [] at h
    split at h
    · cases h
    · split at h <;> cases h

/-- `Member` after the base: the specification's `memberVal`. -/
theorem member_runs (G : GCtx) (A : Act) (hA : A.OK G) (sp : Span) (ip : Nat) (stk : List SVal) (mem : Mem)
    (st : St) (bv : Val) (name : String) (ob : Option Org) (hx : A.c[ip]? = some (.member name, sp)) :
    match memberVal bv name .dot sp st with
    | (.ok v, _) => Runs G.fr G.code G.lim G.s A.fn A.rest A.mp ip (⟨bv, ob⟩ :: stk) mem st.world
        (ip + 1) (⟨v, memOrg st.heap bv name⟩ :: stk) mem st.world
    | (.error (.unsupported _), _) => True
    | _ => False := by
  have hvm : ∀ it, (memberVal bv name .dot sp { (withIt G.s it).st with heap := st.world.heap, out := st.world.out }).1 =
      (memberVal bv name .dot sp st).1 := fun it => memberVal_dot_heap bv name sp st _ rfl
  rcases hr : memberVal bv name .dot sp st with ⟨r, st'⟩
  rw [hr] at hvm
  simp only at hvm
  cases r with
  | ok v =>
    refine Runs.of_exec1 (fr := G.fr) (mem := mem) (fun it_ k => ?_)
    rw [mkS_member G.code G.lim (withIt G.s it_) A.fn ip A.rest A.mp k stk mem.cells st.world A.c hA.code sp name bv ob hx,
      hvm it_]
    rfl
  | error c =>
    obtain ⟨w, rfl⟩ := memberVal_dot_error bv name sp st c st' hr
    trivial

/-- **`Frag.okXE` is simulated**, given the expression fragment at all smaller fuels. -/
theorem px_all (G : GCtx) : ∀ (n : Nat), (∀ m, m ≤ n → PE G m) → PX G n := by
  intro n
  induction n with
  | zero =>
    intro _ A _ e st ip stk mem lm scopes vm _ _ _ _ _ _
    rw [evalExpr]; trivial
  | succ n ih =>
    intro hPE A hA e st ip stk mem lm scopes vm hok hws hT hpl hrel hsp
    have ihn := ih (fun m hm => hPE m (by omega))
    have hPEn := hPE (n + 1) (Nat.le_refl _)
    have hws' := hws
    simp only [Frag.wsGE, Bool.and_eq_true] at hws'
    obtain ⟨hres, hcalls⟩ := hws'
    cases e
    case index sp ty b i =>
      simp only [Frag.okXE, Bool.and_eq_true] at hok
      obtain ⟨⟨hb, hi⟩, _⟩ := hok
      simp only [Frag.varsGE, Frag.callsGE, resolved_append, callsOK_append] at hres hcalls
      simp only [Frag.namesGE, Frag.varsGE, Frag.callsGE, List.mem_append] at hT
      have hwb : Frag.wsGE scopes A.φ b = true := by simp [Frag.wsGE, hres.1, hcalls.1]
      have hwi : Frag.wsGE scopes A.φ i = true := by simp [Frag.wsGE, hres.2, hcalls.2]
      have hTb : ∀ x ∈ Frag.namesGE b, x ∈ A.T := by
        intro x hx; simp only [Frag.namesGE, List.mem_append] at hx
        rcases hx with hx | hx
        · exact hT x (Or.inl (Or.inl hx))
        · exact hT x (Or.inr (Or.inl hx))
      have hTi : ∀ x ∈ Frag.namesGE i, x ∈ A.T := by
        intro x hx; simp only [Frag.namesGE, List.mem_append] at hx
        rcases hx with hx | hx
        · exact hT x (Or.inl (Or.inr hx))
        · exact hT x (Or.inr (Or.inr hx))
      simp only [cgE] at hpl ⊢
      generalize hCB : cgE G.mod (ρS scopes) A.φ b lm = CB at hpl ⊢
      generalize hCI : cgE G.mod (ρS scopes) A.φ i CB.2 = CI at hpl ⊢
      obtain ⟨h12, hX⟩ := hpl.append
      obtain ⟨hpB, hpI⟩ := h12.append
      obtain ⟨iidx, _⟩ := hX.instr (i := .index) rfl
      have hnX : nI [((Instr.index : SInstr), sp)] = 1 := rfl
      simp only [nI_append, hnX] at iidx ⊢
      rw [evalExpr_index]
      have h1 := ihn A hA b st ip stk mem lm scopes vm hb hwb hTb (hCB ▸ hpB) hrel hsp
      rw [hCB] at h1
      rcases heb : evalExpr G.cfg n b st with ⟨r1, st1⟩
      rw [heb] at h1
      cases r1 with
      | error c1 => exact SimGE.error_n _ h1
      | ok bv =>
        obtain ⟨hfr1, mem1, ob, hrun1, hml1⟩ := h1
        simp only []
        have hsp1 := hsp.world st1 hfr1 hrun1.inv
        have hrel1 : StRel G.mod A.T A.N A.σ G.lim A.mp scopes vm st1.scopes mem1 := by
          rw [hfr1]; exact hrel.memLe hml1.cells
        have h2 := ihn A hA i st1 (ip + nI CB.1) (⟨bv, ob⟩ :: stk) mem1 CB.2 scopes vm hi hwi hTi (hCI ▸ hpI) hrel1 hsp1
        rw [hCI] at h2
        rcases hei : evalExpr G.cfg n i st1 with ⟨r2, st2⟩
        rw [hei] at h2
        cases r2 with
        | error c2 => exact SimOE.error_after _ [⟨bv, ob⟩] hrun1 hfr1 hml1 h2
        | ok iv =>
          obtain ⟨hfr2, mem2, oi, hrun2, hml2⟩ := h2
          simp only []
          have hrun12 := (hrun1.trans hrun2).cast (Nat.add_assoc ip _ _)
          have hidx := index_runs G A hA sp (ip + (nI CB.1 + nI CI.1)) stk mem2 st2 bv iv ob oi iidx
          have hst := (indexVal_shape bv iv sp st2).1
          rcases hr : indexVal bv iv sp st2 with ⟨r3, st3⟩
          rw [hr] at hidx hst
          simp only at hst
          subst hst
          have hfr : st3 = { st with out := st3.out, heap := st3.heap } := by rw [hfr2, hfr1]
          cases r3 with
          | ok v =>
            exact ⟨hfr, mem2, _, (hrun12.trans hidx).cast (by omega), hml1.trans hml2⟩
          | error c3 =>
            cases c3 <;> first | trivial | exact hidx.elim | skip
            intro _
            exact hrun12.fatal hidx
    case member sp ty b name mop =>
      cases mop <;> try (simp [Frag.okXE, Frag.okGE] at hok; done)
      simp only [Frag.okXE] at hok
      simp only [Frag.varsGE, Frag.callsGE] at hres hcalls
      have hwb : Frag.wsGE scopes A.φ b = true := by simp [Frag.wsGE, hres, hcalls]
      have hTb : ∀ x ∈ Frag.namesGE b, x ∈ A.T := by
        intro x hx; exact hT x (by simpa [Frag.namesGE, Frag.varsGE, Frag.callsGE] using hx)
      simp only [cgE] at hpl ⊢
      generalize hCB : cgE G.mod (ρS scopes) A.φ b lm = CB at hpl ⊢
      obtain ⟨hpB, hX⟩ := hpl.append
      obtain ⟨imem, _⟩ := hX.instr (i := .member name) rfl
      have hnX : nI [((Instr.member name : SInstr), sp)] = 1 := rfl
      simp only [nI_append, hnX] at ⊢
      rw [evalExpr_member]
      have h1 := ihn A hA b st ip stk mem lm scopes vm hok hwb hTb (hCB ▸ hpB) hrel hsp
      rw [hCB] at h1
      rcases heb : evalExpr G.cfg n b st with ⟨r1, st1⟩
      rw [heb] at h1
      cases r1 with
      | error c1 => exact SimGE.error_n _ h1
      | ok bv =>
        obtain ⟨hfr1, mem1, ob, hrun1, hml1⟩ := h1
        simp only []
        have hmr := member_runs G A hA sp (ip + nI CB.1) stk mem1 st1 bv name ob imem
        have hst := memberVal_dot_state bv name sp st1
        rcases hr : memberVal bv name .dot sp st1 with ⟨r3, st3⟩
        rw [hr] at hmr hst
        simp only at hst
        subst hst
        cases r3 with
        | ok v => exact ⟨hfr1, mem1, _, (hrun1.trans hmr).cast (by omega), hml1⟩
        | error c3 => cases c3 <;> first | trivial | exact hmr.elim
    case grouped sp e =>
      simp only [Frag.okXE] at hok
      rw [evalExpr]
      rw [cgE] at hpl ⊢
      exact ihn A hA e st ip stk mem lm scopes vm hok (by simpa [Frag.wsGE, Frag.varsGE, Frag.callsGE] using hws)
        (by simpa [Frag.namesGE, Frag.varsGE, Frag.callsGE] using hT) hpl hrel hsp
    case pre sp ty op e =>
      simp only [Frag.okXE] at hok
      simp only [cgE] at hpl ⊢
      obtain ⟨hplA, hplB⟩ := hpl.append
      have hi := (hplB.instr (preI_notLabel op)).1
      have h1 := ihn A hA e st ip stk mem lm scopes vm hok
        (by simpa [Frag.wsGE, Frag.varsGE, Frag.callsGE] using hws)
        (by simpa [Frag.namesGE, Frag.varsGE, Frag.callsGE] using hT) hplA hrel hsp
      have hn : nI ((cgE G.mod (ρS scopes) A.φ e lm).1 ++ [(preI op, sp)]) =
          nI (cgE G.mod (ρS scopes) A.φ e lm).1 + 1 := by
        rw [nI_append, nI_instr _ _ _ (preI_notLabel op)]; rfl
      rw [evalExpr_pre, hn]
      rcases he : evalExpr G.cfg n e st with ⟨r1, st1⟩
      rw [he] at h1
      cases r1 with
      | error c1 => exact SimGE.error_n _ h1
      | ok a =>
        obtain ⟨hfr, mem1, oa, hrun, hml⟩ := h1
        simp only []
        cases hpo : preOp op a with
        | error c' =>
          obtain ⟨w, rfl⟩ := preOp_error hpo
          trivial
        | ok v =>
          refine ⟨hfr, mem1, none, (hrun.trans (Runs.of_runsTo (fr := G.fr) (fun it_ => RunsTo.of_exec1 (fun k =>
            reach_pre G.code G.lim (baseOf (withIt G.s it_) A.fn A.rest A.mp st1.world) _ k stk mem1 ⟨A.fn, 0⟩ A.rest A.c rfl
              hA.code op sp A.lab A.σ a v oa hi hpo)))).cast ?_, hml⟩
          omega
    case «infix» sp ty op l r =>
      by_cases hp : Frag.pureE (.infix sp ty op l r) = true
      · exact SimOE.of_simGE (hPEn A hA _ st ip stk mem lm scopes vm (by simp only [Frag.okGE, hp, Bool.true_or]) hws hT hpl
          hrel hsp)
      have hnp : Frag.pureE (.infix sp ty op l r) = false := by simpa using hp
      simp only [Frag.okXE, hnp, Bool.false_or, Bool.and_eq_true, Bool.not_eq_eq_eq_not, Bool.not_true] at hok
      obtain ⟨⟨⟨hlog, hl⟩, hr⟩, _⟩ := hok
      simp only [Frag.varsGE, Frag.callsGE, resolved_append, callsOK_append] at hres hcalls
      simp only [Frag.namesGE, Frag.varsGE, Frag.callsGE, List.mem_append] at hT
      have hwl : Frag.wsGE scopes A.φ l = true := by simp [Frag.wsGE, hres.1, hcalls.1]
      have hwr : Frag.wsGE scopes A.φ r = true := by simp [Frag.wsGE, hres.2, hcalls.2]
      have hTl : ∀ x ∈ Frag.namesGE l, x ∈ A.T := by
        intro x hx; simp only [Frag.namesGE, List.mem_append] at hx
        rcases hx with hx | hx
        · exact hT x (Or.inl (Or.inl hx))
        · exact hT x (Or.inr (Or.inl hx))
      have hTr : ∀ x ∈ Frag.namesGE r, x ∈ A.T := by
        intro x hx; simp only [Frag.namesGE, List.mem_append] at hx
        rcases hx with hx | hx
        · exact hT x (Or.inl (Or.inr hx))
        · exact hT x (Or.inr (Or.inr hx))
      rw [cgE_infix _ _ _ _ _ _ _ _ _ hlog] at hpl ⊢
      simp only [] at hpl ⊢
      generalize hCA : cgE G.mod (ρS scopes) A.φ l lm = CA at hpl ⊢
      generalize hCB : cgE G.mod (ρS scopes) A.φ r CA.2 = CB at hpl ⊢
      obtain ⟨h12, hY⟩ := hpl.append
      obtain ⟨hpA, hpB⟩ := h12.append
      rw [evalExpr_infix _ _ _ _ _ _ _ _ hlog]
      have h1 := ihn A hA l st ip stk mem lm scopes vm hl hwl hTl (hCA ▸ hpA) hrel hsp
      rw [hCA] at h1
      rcases hel : evalExpr G.cfg n l st with ⟨r1, st1⟩
      rw [hel] at h1
      cases r1 with
      | error c1 => exact SimGE.error_n _ h1
      | ok a =>
        obtain ⟨hfr1, mem1, oa, hrun1, hml1⟩ := h1
        simp only []
        have hsp1 := hsp.world st1 hfr1 hrun1.inv
        have hrel1 : StRel G.mod A.T A.N A.σ G.lim A.mp scopes vm st1.scopes mem1 := by
          rw [hfr1]; exact hrel.memLe hml1.cells
        have h2 := ihn A hA r st1 (ip + nI CA.1) (⟨a, oa⟩ :: stk) mem1 CA.2 scopes vm hr hwr hTr (hCB ▸ hpB)
          hrel1 hsp1
        rw [hCB] at h2
        rcases her : evalExpr G.cfg n r st1 with ⟨r2, st2⟩
        rw [her] at h2
        cases r2 with
        | error c2 => exact SimOE.error_after _ [⟨a, oa⟩] hrun1 hfr1 hml1 h2
        | ok b =>
          obtain ⟨hfr2, mem2, ob, hrun2, hml2⟩ := h2
          simp only []
          have hrun12 := (hrun1.trans hrun2).cast (Nat.add_assoc ip _ _)
          have ha := fun it_ => exec_arith G.code G.lim (baseOf (withIt G.s it_) A.fn A.rest A.mp st2.world) ⟨A.fn, 0⟩
            A.rest A.c A.σ A.lab
            rfl hA.code op sp a b oa ob st2 (ip + (nI CA.1 + nI CB.1)) stk mem2 hlog
            (by simpa [nI_append] using hY) rfl
          rcases hb : binOp op a b sp st2 with ⟨rb, st3⟩
          have hst3 : st3 = st2 := by
            have := (binOp_heapOnly op a b sp).state st2
            rw [hb] at this; exact this
          subst hst3
          simp only [hb] at ha
          have hfr : st3 = { st with out := st3.out, heap := st3.heap } := by rw [hfr2, hfr1]
          cases rb with
          | ok v =>
            simp only [] at ha
            refine ⟨hfr, mem2, none, (hrun12.trans (Runs.of_runsTo ha)).cast ?_, hml1.trans hml2⟩
            simp only [nI_append]; omega
          | error cb =>
            cases cb <;> first | trivial | exact (ha ⟨[], 0⟩).elim | skip
            intro _
            exact hrun12.fatal (RunsF.of_runsFatal ha)
    all_goals
      exact SimOE.of_simGE (hPEn A hA _ st ip stk mem lm scopes vm (by simpa [Frag.okXE] using hok) hws hT hpl hrel hsp)

end HmsProofs.Sim
