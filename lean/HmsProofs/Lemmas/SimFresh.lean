import HmsProofs.Lemmas.SimNames
import HmsProofs.Lemmas.SimLabels
/-!
# The labels of a compiled pure expression are fresh and pairwise distinct
-/
namespace HmsProofs.Sim
open Hms.Core Hms.Core.Comp

theorem preI_notLabel' (op : PrefixOp) : isLabel (preI op) = false := by cases op <;> rfl

theorem cpE_infix' (mod : String) (ρ : String → Option String) (sp ty op l r) (lm : LM)
    (h : Frag.isLogical op = false) :
    cpE mod ρ (.infix sp ty op l r) lm =
      ((cpE mod ρ l lm).1 ++ (cpE mod ρ r (cpE mod ρ l lm).2).1 ++ (arithI op).map (·, sp),
       (cpE mod ρ r (cpE mod ρ l lm).2).2) := by
  cases op <;> first | rfl | cases h

/-- The counter of a label identifier. -/
def cnt (lm : LM) (ident : String) : Nat := (lm.lookup ident).getD 0

theorem lookup_incr (lm : LM) (ident k : String) :
    (lm.map fun (p : String × Nat) => if p.1 == ident then (p.1, p.2 + 1) else (p.1, p.2)).lookup k =
      (lm.lookup k).map fun n => if k = ident then n + 1 else n := by
  induction lm with
  | nil => rfl
  | cons p lm ih =>
    obtain ⟨q, n⟩ := p
    simp only [List.map_cons, List.lookup_cons]
    by_cases hq : q = ident
    · subst hq
      simp only [beq_self_eq_true, if_true]
      by_cases hk : k = q
      · subst hk; simp
      · have : (k == q) = false := by simpa using hk
        simp only [List.lookup_cons, this, ih]
    · have hq' : (q == ident) = false := by simpa using hq
      simp only [hq', Bool.false_eq_true, if_false]
      by_cases hk : k = q
      · subst hk; simp [hq]
      · have : (k == q) = false := by simpa using hk
        simp only [List.lookup_cons, this, ih]

theorem cnt_fresh (mod : String) (lm : LM) (ident k : String) :
    cnt (freshLabel mod lm ident).2 k = if k = ident then cnt lm ident + 1 else cnt lm k := by
  unfold cnt freshLabel
  simp only
  cases h : lm.lookup ident with
  | some n =>
    simp only [Option.isSome_some, if_true]
    have := lookup_incr lm ident k
    rw [show (lm.map fun (x : String × Nat) => match x with | (k, n) => if k == ident then (k, n + 1) else (k, n))
      = lm.map fun (p : String × Nat) => if p.1 == ident then (p.1, p.2 + 1) else (p.1, p.2) from rfl, this]
    by_cases hk : k = ident
    · subst hk; simp [h]
    · simp only [hk, if_false]
      cases lm.lookup k <;> rfl
  | none =>
    simp only [Option.isSome_none, Bool.false_eq_true, if_false, List.lookup_append]
    by_cases hk : k = ident
    · subst hk; simp [h]
    · have : (k == ident) = false := by simpa using hk
      simp only [hk, if_false, List.lookup_cons, this, List.lookup_nil]
      cases lm.lookup k <;> rfl

/-- The labels `ls` were generated while the counters went from `lm` to `lm'`. -/
structure LblInv (mod : String) (lm lm' : LM) (ls : List String) : Prop where
  mono : ∀ id, cnt lm id ≤ cnt lm' id
  nodup : ls.Nodup
  range : ∀ l ∈ ls, ∃ id c, id ∈ labelIdents ∧ l = labelName mod id c ∧ cnt lm id ≤ c ∧ c < cnt lm' id

theorem LblInv.nil (mod : String) (lm : LM) : LblInv mod lm lm [] :=
  ⟨fun _ => Nat.le_refl _, List.nodup_nil, by simp⟩

theorem LblInv.single (mod : String) (lm : LM) (ident : String) (h : ident ∈ labelIdents) :
    LblInv mod lm (freshLabel mod lm ident).2 [(freshLabel mod lm ident).1] := by
  refine ⟨?_, by simp, ?_⟩
  · intro id; rw [cnt_fresh]; split <;> (try subst_vars) <;> omega
  · intro l hl
    simp only [List.mem_singleton] at hl
    subst hl
    exact ⟨ident, cnt lm ident, h, rfl, Nat.le_refl _, by rw [cnt_fresh]; simp⟩

theorem LblInv.append {mod lm lm1 lm2 ls1 ls2} (h1 : LblInv mod lm lm1 ls1) (h2 : LblInv mod lm1 lm2 ls2) :
    LblInv mod lm lm2 (ls1 ++ ls2) := by
  refine ⟨fun id => Nat.le_trans (h1.mono id) (h2.mono id), ?_, ?_⟩
  · rw [List.nodup_append]
    refine ⟨h1.nodup, h2.nodup, ?_⟩
    intro a ha b hb hab
    subst hab
    obtain ⟨id1, c1, hi1, e1, _, u1⟩ := h1.range a ha
    obtain ⟨id2, c2, hi2, e2, l2, _⟩ := h2.range a hb
    obtain ⟨rfl, rfl⟩ := labelName_inj mod id1 id2 c1 c2 (e1.symm.trans e2)
    omega
  · intro l hl
    rcases List.mem_append.mp hl with hl | hl
    · obtain ⟨id, c, hi, e, lo, up⟩ := h1.range l hl
      exact ⟨id, c, hi, e, lo, Nat.lt_of_lt_of_le up (h2.mono id)⟩
    · obtain ⟨id, c, hi, e, lo, up⟩ := h2.range l hl
      exact ⟨id, c, hi, e, Nat.le_trans (h1.mono id) lo, up⟩

theorem LblInv.perm {mod lm lm' ls ls'} (h : LblInv mod lm lm' ls) (p : ls.Perm ls') : LblInv mod lm lm' ls' :=
  ⟨h.mono, p.nodup_iff.mp h.nodup, fun l hl => h.range l (p.mem_iff.mpr hl)⟩

theorem perm_of_count {l₁ l₂ : List String} (h : ∀ a, l₁.count a = l₂.count a) : l₁.Perm l₂ :=
  List.perm_iff_count.mpr h

/-- **Labels of a compiled pure expression**: pairwise distinct, and each one generated between
the label counters before and after. -/
theorem cpE_labels (mod : String) (ρ : String → Option String) : ∀ (n : Nat),
    (∀ (e : Expr) (lm : LM), Frag.depthE e ≤ n →
      LblInv mod lm (cpE mod ρ e lm).2 (definedLabels (cpE mod ρ e lm).1)) ∧
    (∀ (b : Block) (lm : LM), Frag.depthB b ≤ n →
      LblInv mod lm (cpB mod ρ b lm).2 (definedLabels (cpB mod ρ b lm).1)) := by
  intro n
  induction n with
  | zero =>
    constructor
    · intro e lm hd; have := depthE_pos e; omega
    · intro b lm hd
      obtain ⟨sp, ty, stmts, oe⟩ := b
      cases oe <;> simp [Frag.depthB] at hd
  | succ n ih =>
    obtain ⟨ihE, ihB⟩ := ih
    constructor
    · intro e lm hd
      cases e
      case int | bool | str | null | none | float | range | list | anyobj | obj | lambda | assign | call
          | index | member | cast | blockE | matchE | tryE =>
        exact LblInv.nil mod lm
      case grouped sp e =>
        rw [cpE]; exact ihE e lm (by simp only [Frag.depthE] at hd; omega)
      case ident sp ty name g f si =>
        simp only [cpE]
        cases ρ name <;> exact LblInv.nil mod lm
      case pre sp ty op e =>
        have := ihE e lm (by simp only [Frag.depthE] at hd; omega)
        simp only [cpE, definedLabels_append, definedLabels_instr _ _ _ (preI_notLabel' op), definedLabels_nil,
          List.append_nil]
        exact this
      case «infix» sp ty op l r =>
        simp only [Frag.depthE] at hd
        have hdl : Frag.depthE l ≤ n := by omega
        have hdr : Frag.depthE r ≤ n := by omega
        by_cases hor : op = .or
        · subst hor
          simp only [cpE]
          have h1 := LblInv.single mod lm "return_true" (by decide)
          have h2 := LblInv.single mod (freshLabel mod lm "return_true").2 "after_infix" (by decide)
          have h3 := ihE l (freshLabel mod (freshLabel mod lm "return_true").2 "after_infix").2 hdl
          have h4 := ihE r (cpE mod ρ l (freshLabel mod (freshLabel mod lm "return_true").2 "after_infix").2).2 hdr
          refine (((h1.append h2).append h3).append h4).perm (perm_of_count ?_)
          intro a
          simp only [definedLabels_append, definedLabels_instr _ _ _ (rfl : isLabel (Instr.not : SInstr) = false),
            definedLabels_instr _ _ _ (rfl : isLabel (Instr.jumpIfFalse _ : SInstr) = false),
            definedLabels_instr _ _ _ (rfl : isLabel (Instr.jump _ : SInstr) = false),
            definedLabels_instr _ _ _ (rfl : isLabel (Instr.copyPush _ : SInstr) = false),
            definedLabels_label, definedLabels_nil, List.count_append, List.count_cons, List.count_nil]
          omega
        · by_cases hand : op = .and
          · subst hand
            simp only [cpE]
            have h1 := LblInv.single mod lm "return_false" (by decide)
            have h2 := LblInv.single mod (freshLabel mod lm "return_false").2 "after_infix" (by decide)
            have h3 := ihE l (freshLabel mod (freshLabel mod lm "return_false").2 "after_infix").2 hdl
            have h4 := ihE r (cpE mod ρ l (freshLabel mod (freshLabel mod lm "return_false").2 "after_infix").2).2 hdr
            refine (((h1.append h2).append h3).append h4).perm (perm_of_count ?_)
            intro a
            simp only [definedLabels_append,
              definedLabels_instr _ _ _ (rfl : isLabel (Instr.jumpIfFalse _ : SInstr) = false),
              definedLabels_instr _ _ _ (rfl : isLabel (Instr.jump _ : SInstr) = false),
              definedLabels_instr _ _ _ (rfl : isLabel (Instr.copyPush _ : SInstr) = false),
              definedLabels_label, definedLabels_nil, List.count_append, List.count_cons, List.count_nil]
            omega
          · have hlog : Frag.isLogical op = false := by
              cases op <;> first | rfl | exact absurd rfl hor | exact absurd rfl hand
            rw [cpE_infix' _ _ _ _ _ _ _ _ hlog]
            have h3 := ihE l lm hdl
            have h4 := ihE r (cpE mod ρ l lm).2 hdr
            have : definedLabels ((arithI op).map (·, sp)) = [] := by
              cases op <;> rfl
            simp only [definedLabels_append, this, List.append_nil]
            exact h3.append h4
      case ifE sp ty c t el =>
        cases el with
        | none => exact LblInv.nil mod lm
        | some eb =>
          simp only [Frag.depthE] at hd
          simp only [cpE]
          have h1 := ihE c lm (by omega)
          have h2 := LblInv.single mod (cpE mod ρ c lm).2 "if_after" (by decide)
          have h3 := LblInv.single mod (freshLabel mod (cpE mod ρ c lm).2 "if_after").2 "else" (by decide)
          have h4 := ihB t (freshLabel mod (freshLabel mod (cpE mod ρ c lm).2 "if_after").2 "else").2 (by omega)
          have h5 := ihB eb (cpB mod ρ t (freshLabel mod (freshLabel mod (cpE mod ρ c lm).2 "if_after").2 "else").2).2
            (by omega)
          refine ((((h1.append h2).append h3).append h4).append h5).perm (perm_of_count ?_)
          intro a
          simp only [definedLabels_append,
            definedLabels_instr _ _ _ (rfl : isLabel (Instr.jumpIfFalse _ : SInstr) = false),
            definedLabels_instr _ _ _ (rfl : isLabel (Instr.jump _ : SInstr) = false),
            definedLabels_label, definedLabels_nil, List.count_append, List.count_cons, List.count_nil]
          omega
    · intro b lm hd
      obtain ⟨sp, ty, stmts, oe⟩ := b
      cases stmts with
      | cons _ _ => exact LblInv.nil mod lm
      | nil =>
        cases oe with
        | none => exact LblInv.nil mod lm
        | some e =>
          rw [cpB]
          exact ihE e lm (by simp only [Frag.depthB] at hd; omega)

end HmsProofs.Sim
