import Hms.Conc.Protocol
/-!
# Lemmas about the Wait protocol (`Hms/Conc/Protocol.lean`)

`WaitCase`: the shapes of a step of `Wait`; `Inv`: the inductive invariant of the fixed protocol
over all interleavings; `reach_inv`.
-/
namespace Hms.Conc
/-- The shapes of a `Wait` step. -/
inductive WaitCase (cfg : Cfg) (s s' : PState) : Prop where
  | top : s.wait = .top → s' = { s with wait := .scan s.listed } → WaitCase cfg s s'
  | sleeping : s.wait = .sleeping → s' = { s with wait := .top } → WaitCase cfg s s'
  | retNone : s.wait = .scan [] → s.listed = [] → s' = { s with wait := .returned none } → WaitCase cfg s s'
  | toSleep : s.wait = .scan [] → s.listed ≠ [] → s' = { s with wait := .sleeping } → WaitCase cfg s s'
  | recvNil (c : Nat) (rest : List Nat) : s.wait = .scan (c :: rest) →
      (s.core c = .signalled none ∨ s.core c = .sending none) →
      s' = { s with core := upd s.core c (.received none),
                    wait := .rmWantLock c (s.listed.filter (· != c)) rest } → WaitCase cfg s s'
  | recvIntr (c : Nat) (rest : List Nat) (i : Intr) : s.wait = .scan (c :: rest) →
      (s.core c = .signalled (some i) ∨ s.core c = .sending (some i)) →
      s' = { s with core := upd s.core c (.received (some i)), wait := .cancelWantLock c i } →
      WaitCase cfg s s'
  | skip (c : Nat) (rest : List Nat) : s.wait = .scan (c :: rest) →
      (∀ sg, s.core c ≠ .signalled sg) → (∀ sg, s.core c ≠ .sending sg) →
      s' = { s with wait := .scan rest } → WaitCase cfg s s'
  | remove (c : Nat) (stale rest : List Nat) : s.wait = .rmWantLock c stale rest → s.leaked = 0 →
      s' = { s with listed := if cfg.staleFilter then stale else s.listed.filter (· != c),
                    wait := .rmWantRLock rest } → WaitCase cfg s s'
  | relock (rest : List Nat) : s.wait = .rmWantRLock rest → s' = { s with wait := .scan rest } →
      WaitCase cfg s s'
  | cancel (c : Nat) (i : Intr) : s.wait = .cancelWantLock c i → s.leaked = 0 →
      s' = { s with cancelled := true, dropped := true, listed := [],
                    leaked := if cfg.leakRLock then 1 else 0, wait := .returned (some (c, i)) } →
      WaitCase cfg s s'

theorem waitStep_cases {cfg : Cfg} {s s' : PState} (h : waitStep cfg s = some s') : WaitCase cfg s s' := by
  unfold waitStep at h
  split at h
  · cases h
  · cases h
  · exact .top ‹_› (by cases h; rfl)
  · exact .sleeping ‹_› (by cases h; rfl)
  · split at h
    · exact .retNone ‹_› (by simpa using ‹s.listed.isEmpty = true›) (by cases h; rfl)
    · exact .toSleep ‹_› (by simpa using ‹¬ s.listed.isEmpty = true›) (by cases h; rfl)
  · rename_i c rest hw
    split at h
    · rename_i sg hc
      cases sg with
      | none => exact .recvNil c rest hw (.inl hc) (by cases h; rfl)
      | some i => exact .recvIntr c rest i hw (.inl hc) (by cases h; rfl)
    · rename_i sg hc
      cases sg with
      | none => exact .recvNil c rest hw (.inr hc) (by cases h; rfl)
      | some i => exact .recvIntr c rest i hw (.inr hc) (by cases h; rfl)
    · rename_i h1 h2
      exact .skip c rest hw (fun sg hh => h1 sg hh) (fun sg hh => h2 sg hh) (by cases h; rfl)
  · rename_i c stale rest hw
    split at h
    · exact .remove c stale rest hw ‹_› (by cases h; rfl)
    · cases h
  · exact .relock _ ‹_› (by cases h; rfl)
  · rename_i c i hw
    split at h
    · exact .cancel c i hw ‹_› (by cases h; rfl)
    · cases h
structure Inv (s : PState) : Prop where
  absent_ge : ∀ c, s.n ≤ c → s.core c = .absent
  present_lt : ∀ c, c < s.n → s.core c ≠ .absent
  listed_lt : ∀ c ∈ s.listed, c < s.n
  listed_nodup : s.listed.Nodup
  no_sending : ∀ c sg, s.core c ≠ .sending sg
  leaked0 : s.leaked = 0
  rd_iff : ∀ c, s.core c = .running .rd ↔ s.gReader c = true
  wr_iff : ∀ c, s.core c = .running .wr ↔ s.gWriter = some c
  wr_excl : ∀ c, s.gWriter = some c → ∀ d, s.gReader d = false
  live_listed : ∀ c, (s.core c).isLive = true → c ∈ s.listed ∨ s.dropped = true
  rm_received : ∀ c st r, s.wait = .rmWantLock c st r → s.core c = .received none
  cancel_received : ∀ c i, s.wait = .cancelWantLock c i → s.core c = .received (some i)
  recv_intr : ∀ c i, s.core c = .received (some i) → s.wait = .cancelWantLock c i ∨ s.dropped = true
  ret_some : ∀ c i, s.wait = .returned (some (c, i)) →
      s.cancelled = true ∧ s.dropped = true ∧ s.core c = .received (some i)

theorem inv_init : Inv PState.init := by
  constructor <;> simp [PState.init, CoreSt.isLive]

theorem inv_spawn {s : PState} (hi : Inv s) : Inv s.spawn := by
  have hn : s.core s.n = .absent := hi.absent_ge _ (Nat.le_refl _)
  obtain ⟨h1, h2, h3, h4, h5, h6, h7, h8, h9, h10, h11, h12, h13, h14⟩ := hi
  constructor <;> simp only [PState.spawn, upd] <;> grind [CoreSt.isLive, List.nodup_append]

theorem inv_step {s s' : PState} (hi : Inv s) (hs : Step Cfg.fixed s s') : Inv s' := by
  cases hs with
  | hostSpawn hf => exact inv_spawn hi
  | coreSpawn c hc hf => exact inv_spawn hi
  | hostCancel =>
    obtain ⟨h1, h2, h3, h4, h5, h6, h7, h8, h9, h10, h11, h12, h13, h14⟩ := hi
    constructor <;> grind
  | coreFinish c sg hc hsg =>
    obtain ⟨h1, h2, h3, h4, h5, h6, h7, h8, h9, h10, h11, h12, h13, h14⟩ := hi
    constructor <;> simp only [upd, sent, Cfg.fixed] <;> grind [CoreSt.isLive]
  | gRLock c hc hw =>
    obtain ⟨h1, h2, h3, h4, h5, h6, h7, h8, h9, h10, h11, h12, h13, h14⟩ := hi
    constructor <;> simp only [upd] <;> grind [CoreSt.isLive]
  | gRUnlock c hc =>
    obtain ⟨h1, h2, h3, h4, h5, h6, h7, h8, h9, h10, h11, h12, h13, h14⟩ := hi
    constructor <;> simp only [upd] <;> grind [CoreSt.isLive]
  | gLock c hc hw hr =>
    obtain ⟨h1, h2, h3, h4, h5, h6, h7, h8, h9, h10, h11, h12, h13, h14⟩ := hi
    constructor <;> simp only [upd] <;> grind [CoreSt.isLive]
  | gWrite c hc =>
    obtain ⟨h1, h2, h3, h4, h5, h6, h7, h8, h9, h10, h11, h12, h13, h14⟩ := hi
    constructor <;> grind
  | gUnlock c hc =>
    obtain ⟨h1, h2, h3, h4, h5, h6, h7, h8, h9, h10, h11, h12, h13, h14⟩ := hi
    constructor <;> simp only [upd] <;> grind [CoreSt.isLive]
  | waitStart ha =>
    obtain ⟨h1, h2, h3, h4, h5, h6, h7, h8, h9, h10, h11, h12, h13, h14⟩ := hi
    constructor <;> grind [WaitPc.active]
  | wait =>
    rename_i hw
    obtain ⟨h1, h2, h3, h4, h5, h6, h7, h8, h9, h10, h11, h12, h13, h14⟩ := hi
    cases waitStep_cases hw with
    | top h e => subst e; constructor <;> grind
    | sleeping h e => subst e; constructor <;> grind
    | retNone h hl e => subst e; constructor <;> grind
    | toSleep h hl e => subst e; constructor <;> grind
    | recvNil c rest h hc e => subst e; constructor <;> simp only [upd] <;> grind [CoreSt.isLive]
    | recvIntr c rest i h hc e => subst e; constructor <;> simp only [upd] <;> grind [CoreSt.isLive]
    | skip c rest h h1 h2 e => subst e; constructor <;> grind
    | remove c stale rest h hl e =>
      subst e; constructor <;> simp only [Cfg.fixed] <;> grind [CoreSt.isLive, List.Nodup.sublist, List.filter_sublist]
    | relock rest h e => subst e; constructor <;> grind
    | cancel c i h hl e => subst e; constructor <;> simp only [Cfg.fixed] <;> grind [CoreSt.isLive]

theorem reach_inv {s : PState} (h : Reach Cfg.fixed s) : Inv s := by
  induction h with
  | init => exact inv_init
  | step s s' _ hs ih => exact inv_step ih hs

end Hms.Conc

namespace Hms.Conc

theorem waitRun_reach {cfg : Cfg} (k : Nat) : ∀ (s : PState), Reach cfg s → Reach cfg (waitRun cfg k s) := by
  induction k with
  | zero => intro s h; exact h
  | succ k ih =>
    intro s h
    cases hs : waitStep cfg s with
    | none => simpa [waitRun, hs] using h
    | some s' =>
      simp only [waitRun, hs]
      exact ih s' (.step s s' h (.wait s s' hs))

/-- The `cancelled` flag is never reset. -/
theorem cancelled_mono {cfg : Cfg} {s s' : PState} (h : Step cfg s s') (hc : s.cancelled = true) :
    s'.cancelled = true := by
  cases h with
  | hostSpawn _ => exact hc
  | coreSpawn _ _ _ => exact hc
  | hostCancel => rfl
  | coreFinish _ _ _ _ => exact hc
  | gRLock _ _ _ => exact hc
  | gRUnlock _ _ => exact hc
  | gLock _ _ _ _ => exact hc
  | gWrite _ _ => exact hc
  | gUnlock _ _ => exact hc
  | waitStart _ => exact hc
  | wait =>
    rename_i hw
    cases waitStep_cases hw <;> (rename_i e; subst e; first | exact hc | rfl)

end Hms.Conc

namespace Hms.Conc

/-- The cores `Wait` is still going to poll in its current pass. -/
def snapshotOf : WaitPc → List Nat
  | .scan r => r
  | .rmWantLock c _ r => c :: r
  | .rmWantRLock r => r
  | _ => []

/-- A core blocked in its send that is neither listed nor in `Wait`'s snapshot stays blocked,
whatever happens next (any configuration that shortens the list under the lock). -/
theorem sending_unlisted_stuck {cfg : Cfg} (hst : cfg.staleFilter = false) {s s' : PState} (h : Step cfg s s')
    (c : Nat) (sg : Sig) (hc : s.core c = .sending sg) (hl : c ∉ s.listed) (hs : c ∉ snapshotOf s.wait)
    (hn : c < s.n) :
    s'.core c = .sending sg ∧ c ∉ s'.listed ∧ c ∉ snapshotOf s'.wait ∧ c < s'.n := by
  cases h with
  | hostSpawn _ => simp only [PState.spawn, upd]; grind
  | coreSpawn _ _ _ => simp only [PState.spawn, upd]; grind
  | hostCancel => exact ⟨hc, hl, hs, hn⟩
  | coreFinish d _ hd _ => simp only [upd]; grind
  | gRLock d hd _ => simp only [upd]; grind
  | gRUnlock d hd => simp only [upd]; grind
  | gLock d hd _ _ => simp only [upd]; grind
  | gWrite _ _ => exact ⟨hc, hl, hs, hn⟩
  | gUnlock d hd => simp only [upd]; grind
  | waitStart _ => exact ⟨hc, hl, by simp [snapshotOf], hn⟩
  | wait =>
    rename_i hw
    cases waitStep_cases hw with
    | top h e => subst e; simp only [snapshotOf]; grind
    | sleeping h e => subst e; simp only [snapshotOf]; grind
    | retNone h hl' e => subst e; simp only [snapshotOf]; grind
    | toSleep h hl' e => subst e; simp only [snapshotOf]; grind
    | recvNil d r h hd e => subst e; rw [h] at hs; simp only [snapshotOf, upd] at hs ⊢; grind
    | recvIntr d r i h hd e => subst e; rw [h] at hs; simp only [snapshotOf, upd] at hs ⊢; grind
    | skip d r h h1 h2 e => subst e; rw [h] at hs; simp only [snapshotOf] at hs ⊢; grind
    | remove d st r h hl' e => subst e; rw [h] at hs; simp only [snapshotOf, hst] at hs ⊢; grind
    | relock r h e => subst e; rw [h] at hs; simp only [snapshotOf] at hs ⊢; grind
    | cancel d i h hl' e => subst e; simp only [snapshotOf]; grind

end Hms.Conc

namespace Hms.Conc

/-- Zero or more transitions. -/
inductive Steps (cfg : Cfg) : PState → PState → Prop where
  | refl (s : PState) : Steps cfg s s
  | tail (s s' s'' : PState) : Steps cfg s s' → Step cfg s' s'' → Steps cfg s s''

theorem sending_unlisted_stuck_forever {cfg : Cfg} (hst : cfg.staleFilter = false) {s s' : PState}
    (h : Steps cfg s s') (c : Nat) (sg : Sig) (hc : s.core c = .sending sg) (hl : c ∉ s.listed)
    (hs : c ∉ snapshotOf s.wait) (hn : c < s.n) : s'.core c = .sending sg := by
  suffices s'.core c = .sending sg ∧ c ∉ s'.listed ∧ c ∉ snapshotOf s'.wait ∧ c < s'.n from this.1
  induction h with
  | refl => exact ⟨hc, hl, hs, hn⟩
  | tail s' s'' _ hstep ih =>
    obtain ⟨h1, h2, h3, h4⟩ := ih
    exact sending_unlisted_stuck hst hstep c sg h1 h2 h3 h4

end Hms.Conc
