import HmsProofs.Lemmas.SimHLoop
/-!
# A call: prologue, parameters, body, epilogue
-/
namespace HmsProofs.Sim
open Hms.Core Hms.Core.Comp Hms.Core.VM

theorem callBody_arity (cfg : Cfg) (fuel : Nat) (sp : Span) (m : String) (params : List Param) (body : Block)
    (vals : List Val) (st : St) (hp : ∀ p ∈ params, p.isSingleton = false) (hd : ¬ st.depth > cfg.callLimit)
    (hlen : params.length ≠ vals.length) :
    callBody cfg (fuel + 1) sp m params body vals st = (.error (.unsupported "arity"), st) := by
  have hf1 : params.filter (fun p => !p.isSingleton) = params := by
    rw [List.filter_eq_self]; intro p hp'; simp [hp p hp']
  rw [callBody]
  simp only [hd, if_false, hf1]
  have : (params.length != vals.length) = true := by simpa using hlen
  simp only [this, if_true]

/-- Declaring a list of bindings, one after the other. -/
def declAll : List (String × Val) → SScopes → SScopes
  | [], ss => ss
  | (x, v) :: r, ss => declAll r (declScopes x v ss)

theorem declAll_single : ∀ (bs acc : List (String × Val)), declAll bs [acc] = [bs.reverse ++ acc] := by
  intro bs
  induction bs with
  | nil => intro acc; rfl
  | cons b bs ih =>
    intro acc
    obtain ⟨x, v⟩ := b
    simp only [declAll, declScopes, ih, List.reverse_cons, List.append_assoc, List.singleton_append]

/-- The parameters: each `setVar` pops one argument into the fresh slot. -/
theorem params_run (G : GCtx) (A : Act) (hA : A.OK G) (sp : Span) (out : World) :
    ∀ (ps : List Param) (svals : List SVal) (env : CEnv) (ss : SScopes) (mem : Mem) (ip : Nat)
      (stk : List SVal),
      (∀ p ∈ ps, p.isSingleton = false) → ps.length = svals.length → (∀ p ∈ ps, p.name ∈ A.T) →
      (∀ m ∈ codeVars (cgParams G.mod sp ps env).1, A.N m) →
      Placed A.lab A.σ A.c ip (cgParams G.mod sp ps env).1 →
      StRel G.mod A.T A.N A.σ G.lim A.mp env.scopes env.vm ss mem →
      ∃ mem', Runs G.fr G.code G.lim G.s A.fn A.rest A.mp ip (svals ++ stk) mem out
          (ip + nI (cgParams G.mod sp ps env).1) stk mem' out ∧
        MemLe G.fr (A.mp - (A.nv : Int)) mem mem' ∧
        StRel G.mod A.T A.N A.σ G.lim A.mp (cgParams G.mod sp ps env).2.scopes (cgParams G.mod sp ps env).2.vm
          (declAll ((ps.map (·.name)).zip (svals.map (·.v))) ss) mem' := by
  intro ps
  induction ps with
  | nil =>
    intro vals env ss mem ip stk _ hlen _ _ _ hrel
    cases vals with
    | cons _ _ => simp at hlen
    | nil => exact ⟨mem, (Runs.refl ip stk mem out).cast (by simp [cgParams]), MemLe.refl _ _ _, hrel⟩
  | cons p ps ih =>
    intro vals env ss mem ip stk hns hlen hT hN hpl hrel
    cases vals with
    | nil => simp at hlen
    | cons sv vals =>
      obtain ⟨v, ov⟩ := sv
      have hp : p.isSingleton = false := hns p (by simp)
      simp only [cgParams, hp, Bool.false_eq_true, if_false] at hN hpl ⊢
      have hNm : A.N (freshVar G.mod env p.name).1 := hN _ (by simp [codeVars, var?])
      obtain ⟨iset, hpl'⟩ := hpl.instr (i := .setVar (freshVar G.mod env p.name).1) rfl
      have hcell := hA.cell _ hNm
      have hdecl := hrel.declare hA.good p.name (hT p (by simp)) v hNm
      have hset : Runs G.fr G.code G.lim G.s A.fn A.rest A.mp ip (⟨v, ov⟩ :: (vals ++ stk)) mem out
          (ip + 1) (vals ++ stk)
          (mem.set (A.mp - (A.σ (freshVar G.mod env p.name).1 : Int)) v) out :=
        Runs.of_runsTo (fr := G.fr) (fun it_ => RunsTo.of_exec1 (fun k =>
          reach_setVar G.code G.lim (baseOf (withIt G.s it_) A.fn A.rest A.mp out) _ k _ mem ⟨A.fn, 0⟩ A.rest A.c rfl
            hA.code _ sp v ov iset hcell.1 hcell.2.1))
      obtain ⟨mem', hrun, hml, hrel'⟩ := ih vals (freshVar G.mod env p.name).2 (declScopes p.name v ss)
        (mem.set (A.mp - (A.σ (freshVar G.mod env p.name).1 : Int)) v) (ip + 1) stk
        (fun q hq => hns q (by simp [hq])) (by simpa using hlen) (fun q hq => hT q (by simp [hq]))
        (fun m hm => hN m (by
          simp only [codeVars, List.filterMap_cons, var?] at hm ⊢
          exact List.mem_cons_of_mem _ hm)) hpl' hdecl
      refine ⟨mem', (hset.trans hrun).cast ?_, (MemLe.set _ _ _ _ _ hcell.2.2).trans hml, hrel'⟩
      rw [nI_instr _ _ _ rfl]; omega

theorem cgParams_scopes (mod : String) (sp : Span) : ∀ (ps : List Param) (env : CEnv) (c : List (String × String))
    (rest : CScopes), env.scopes = c :: rest → ∃ c', (cgParams mod sp ps env).2.scopes = c' :: rest := by
  intro ps
  induction ps with
  | nil => intro env c rest h; exact ⟨c, h⟩
  | cons p ps ih =>
    intro env c rest h
    simp only [cgParams]
    split
    · exact ih env c rest h
    · exact ih (freshVar mod env p.name).2
        ((p.name, mangleName mod p.name ((env.vm.lookup p.name).getD 0)) :: c.filter (·.1 != p.name)) rest
        (by simp [freshVar, h])

/-- Registering the cleanup label (a key outside the tracked identifiers) changes nothing. -/
theorem StRel.addKey {mod T N σ lim mp c rest vm ss mem} (key lbl : String) (hk : key ∉ T)
    (h : StRel mod T N σ lim mp (c :: rest) vm ss mem) :
    StRel mod T N σ lim mp (((key, lbl) :: c) :: rest) vm ss mem := by
  have hlook : ∀ x ∈ T, ((key, lbl) :: c).lookup x = c.lookup x := by
    intro x hx
    have : (x == key) = false := by
      simp only [beq_eq_false_iff_ne, ne_eq]; intro e; subst e; exact hk hx
    simp [List.lookup_cons, this]
  have hlev : levelNames T ((key, lbl) :: c) = levelNames T c := by
    simp [levelNames, hk]
  have hlive : liveNames T (((key, lbl) :: c) :: rest) = liveNames T (c :: rest) := by
    simp [liveNames, hlev]
  refine ⟨?_, by rw [hlive]; exact h.nodup, by rw [hlive]; exact h.inN, ?_⟩
  · cases ss with
    | nil =>
      obtain ⟨h1, h2⟩ := h.scopes
      exact ⟨fun x hx => by rw [hlook x hx]; exact h1 x hx, h2⟩
    | cons s srest =>
      obtain ⟨h1, h2⟩ := h.scopes
      refine ⟨fun x hx => ?_, h2⟩
      have := h1 x hx
      rw [hlook x hx]
      exact this
  · intro sc hsc p hp hpT
    simp only [List.mem_cons] at hsc
    rcases hsc with rfl | hsc
    · simp only [List.mem_cons] at hp
      rcases hp with rfl | hp
      · exact absurd hpT hk
      · exact h.named c (by simp) p hp hpT
    · exact h.named sc (by simp [hsc]) p hp hpT

/-- A whole call: prologue `addMp nv`, a run of the activation to the cleanup position, epilogue
`addMp (-nv); ret`. -/
theorem RunsCall.intro {G : GCtx} {fn : String} {c : List (RInstr × Span)} (hf : findCode G.code fn = some c)
    {frames : List Frame} {mp : Int} {nv ipC : Nat} {sp1 sp2 sp3 : Span} {stk stk' : List SVal}
    {mem mem' : Mem} {out out' : World}
    (h0 : c[0]? = some (.addMp (nv : Int), sp1)) (hroom : mp + (nv : Int) < (G.lim.memory : Int))
    (hrun : Runs G.fr G.code G.lim G.s fn frames (mp + (nv : Int)) 1 stk mem out ipC stk' mem' out')
    (h1 : c[ipC]? = some (.addMp (-(nv : Int)), sp2)) (h2 : c[ipC + 1]? = some (.ret, sp3)) :
    RunsCall G fn frames mp stk mem out stk' mem' out' := by
  refine ⟨fun k => ?_, hrun.inv⟩
  obtain ⟨k', e⟩ := hrun (k + 1)
  refine ⟨1 + (k' + (1 + 1)), ?_⟩
  rw [execHN_add, execHN_one, exec1H_of_next (mkSI_addMp G.code G.lim G.s fn 0 frames mp k stk mem out c hf _ sp1 h0 hroom)]
  simp only [Nat.zero_add]
  rw [execHN_add, e]
  simp only []
  rw [execHN_add, execHN_one, exec1H_of_next
    (mkSI_addMp G.code G.lim G.s fn ipC frames (mp + (nv : Int)) (k + 1 + k') stk' mem' out' c hf _ sp2 h1 (by omega))]
  simp only []
  rw [execHN_one, exec1H_of_next (mkSI_ret G.code G.lim G.s fn (ipC + 1) frames _ _ stk' mem' out' c hf sp3 h2)]
  have : mp + (nv : Int) + -(nv : Int) = mp := by omega
  rw [this]
  simp only [Nat.add_assoc]

theorem RunsCallF.intro {G : GCtx} {fn : String} {c : List (RInstr × Span)} (hf : findCode G.code fn = some c)
    {frames : List Frame} {mp : Int} {nv : Nat} {sp1 : Span} {stk : List SVal}
    {mem : Mem} {out out' : World} {kd msg : String} {fsp : Span}
    (h0 : c[0]? = some (.addMp (nv : Int), sp1)) (hroom : mp + (nv : Int) < (G.lim.memory : Int))
    (hrun : RunsF G.code G.lim G.s fn frames (mp + (nv : Int)) 1 stk mem out kd msg fsp out') :
    RunsCallF G fn frames mp stk mem out kd msg fsp out' := by
  intro k
  obtain ⟨k', s', e, hs⟩ := hrun (k + 1)
  refine ⟨1 + k', s', ?_, hs⟩
  rw [execHN_add, execHN_one, exec1H_of_next (mkSI_addMp G.code G.lim G.s fn 0 frames mp k stk mem out c hf _ sp1 h0 hroom)]
  simp only [Nat.zero_add, e]

theorem RunsCallT.intro {G : GCtx} {fn : String} {c : List (RInstr × Span)} (hf : findCode G.code fn = some c)
    {frames : List Frame} {mp : Int} {nv ipS : Nat} {sp1 : Span} {stk0 stk : List SVal}
    {mem mem1 mem' : Mem} {out out1 out' : World} {msg : String} {tsp : Span}
    (h0 : c[0]? = some (.addMp (nv : Int), sp1)) (hroom : mp + (nv : Int) < (G.lim.memory : Int))
    (hpre : Runs G.fr G.code G.lim G.s fn frames (mp + (nv : Int)) 1 stk0 mem out ipS stk mem1 out1)
    (hT : RunsT G fn frames (mp + (nv : Int)) ipS stk mem1 out1 msg tsp mem' out') :
    RunsCallT G fn frames mp stk0 stk mem out msg tsp mem' out' := by
  refine ⟨fun k => ?_, fun hi => hT.inv (hpre.inv hi)⟩
  obtain ⟨k1, e1⟩ := hpre (k + 1)
  obtain ⟨k2, s1, frames', ip', mp', xs, e2, e3⟩ := hT (k + 1 + k1)
  refine ⟨1 + (k1 + k2), s1, frames' ++ [⟨fn, ip'⟩], mp', xs, ?_, ?_⟩
  · rw [execHN_add, execHN_one, exec1H_of_next (mkSI_addMp G.code G.lim G.s fn 0 frames mp k stk0 mem out c hf _ sp1 h0 hroom)]
    simp only [Nat.zero_add]
    rw [execHN_add, e1]
    exact e2
  · rw [e3]; simp only [List.append_assoc, List.singleton_append, Nat.add_assoc]

theorem pcall_zero (G : GCtx) : PCall G 0 := by
  intro g fd I stmts e _ _ _ _ sp vals st frames mp stk mem _ _
  rw [callBody]
  trivial

/-- **A call of a fragment function**: prologue, parameters, statements, trailing expression or
`return`, epilogue. -/
theorem pcall_step (G : GCtx) (hG : G.OK') (n : Nat) (hPSs : ∀ m, m + 1 = n → PGSs G m)
    (hPE : ∀ m, m + 1 = n → PE G m) : PCall G (n + 1) := by
  intro g fd I stmts e hK hfind hFn hgh sp svals st frames mp stk mem hsp hmp
  obtain ⟨vals, hvals⟩ : ∃ vals, vals = svals.map (·.v) := ⟨_, rfl⟩
  rw [← hvals]
  have hname := hFn.name
  subst hname
  obtain ⟨bsp, bty, hbody⟩ := hFn.body
  rw [hbody]
  by_cases hd : st.depth > G.cfg.callLimit
  · obtain ⟨msg, h⟩ := callBody_overflow G.cfg n sp G.mod fd.params (.mk bsp bty stmts (some e)) vals st hd
    rw [h]
    intro hk; exact absurd rfl hk
  by_cases hlen' : ¬ fd.params.length = vals.length
  · rw [callBody_arity _ _ _ _ _ _ _ _ hFn.params hd hlen']; trivial
  have hlen : fd.params.length = vals.length := Classical.not_not.mp hlen'
  rw [callBody_step _ _ _ _ _ _ _ _ _ _ _ hFn.params hd hlen]
  cases n with
  | zero => rw [evalBlock]; trivial
  | succ m =>
  rw [evalBlock_tail]
  generalize hbinds : ((fd.params.map (fun x : Param => x.name)).zip vals).reverse = binds
  generalize hspec1 : ({ st with scopes := [binds], module := G.mod, depth := st.depth + 1 } : St) = spec1
  -- the pieces of the code
  obtain ⟨P, hP⟩ : ∃ P, P = fnParts G.mod I.φ fd stmts (some e) I.scopes0 I.vm0 I.lm0 := ⟨_, rfl⟩
  obtain ⟨env0, henv0⟩ : ∃ env0 : CEnv, env0 = ⟨[] :: I.scopes0, I.vm0, I.lm0, 0⟩ := ⟨_, rfl⟩
  have hpc : P.pcode = (cgParams G.mod fd.sp fd.params env0).1 := by rw [hP, henv0]; rfl
  have henvB : P.envB = bodyEnv G.mod fd.name (cgParams G.mod fd.sp fd.params env0).2 := by rw [hP, henv0]; rfl
  have hsc : P.scode = (cgSs G.mod fd.name I.φ [] stmts P.envB).1 := by rw [hP]; rfl
  have henvS : P.envS = (cgSs G.mod fd.name I.φ [] stmts P.envB).2 := by rw [hP]; rfl
  have hec : P.ecode = (cgE G.mod (ρS P.envS.scopes) I.φ e P.envS.lm).1 := by rw [hP]; rfl
  have hcl : P.cleanup = (freshLabel G.mod (cgParams G.mod fd.sp fd.params env0).2.lm "cleanup").1 := by
    rw [hP, henv0]; rfl
  have hcode : cgFn G.mod I.φ fd stmts (some e) I.scopes0 I.vm0 I.lm0 =
      [(.addMp (P.envE.nv : Int), fd.sp)] ++ P.pcode ++ P.scode ++ P.ecode ++
        [(.label P.cleanup, fd.sp), (.addMp (-(P.envE.nv : Int)), fd.sp), (.ret, fd.sp)] := by rw [hP]; rfl
  have hslot := hFn.slot
  have hframe := hFn.frame
  have hwsS := hFn.wsS
  have hwsE := hFn.wsE
  have hplaced := hFn.placed
  have hvars := hFn.vars
  rw [← hP] at hslot hframe hwsS hwsE
  rw [hcode] at hplaced hvars
  have hnvE : P.envE.nv = P.envS.nv := by rw [hP]; rfl
  -- arithmetic of the frame
  have hdep : st.depth ≤ G.cfg.callLimit := Nat.le_of_not_gt hd
  have hmul : (st.depth : Int) * (G.F : Int) ≤ (G.cfg.callLimit : Int) * (G.F : Int) := by
    exact_mod_cast Nat.mul_le_mul_right G.F hdep
  have hroom := hG.room
  rw [Int.add_mul] at hroom
  have hFle : (P.envE.nv : Int) ≤ (G.F : Int) := by exact_mod_cast hframe
  have hdepth := hsp.depth
  have hhi : mp + (P.envE.nv : Int) < (G.lim.memory : Int) := by omega
  -- the activation
  obtain ⟨A, hAdef⟩ : ∃ A : Act, A = Act.mk (mangleFnName G.mod fd.name) fd.name P.cleanup frames
    (mp + (P.envE.nv : Int)) I.c I.σ I.lab I.N I.T P.envE.nv I.φ true [] := ⟨_, rfl⟩
  have hA : A.OK G := by
    rw [hAdef]
    exact ⟨hFn.code, hFn.inj, hslot, by show 0 ≤ mp + (P.envE.nv : Int) - (P.envE.nv : Int); omega, hhi, hFn.phi,
      hFn.key, hG.println, rfl, fun p hp => by simp at hp, hgh⟩
  -- the placement of the pieces
  obtain ⟨hpl1234, hpl5⟩ := hplaced.append
  obtain ⟨hpl123, hpl4⟩ := hpl1234.append
  obtain ⟨hpl12, hpl3⟩ := hpl123.append
  obtain ⟨hpl1, hpl2⟩ := hpl12.append
  obtain ⟨hi0, _⟩ := hpl1.instr (i := .addMp (P.envE.nv : Int)) rfl
  obtain ⟨hlabC, hpl5'⟩ := hpl5.label
  obtain ⟨hiC, hpl5''⟩ := hpl5'.instr (i := .addMp (-(P.envE.nv : Int))) rfl
  obtain ⟨hiR, _⟩ := hpl5''.instr (i := .ret) rfl
  simp only [nI_append, nI_instr _ _ _ (rfl : isLabel (Instr.addMp (P.envE.nv : Int) : SInstr) = false), nI_nil,
    Nat.zero_add] at hpl2 hpl3 hpl4 hlabC hiC hiR
  have hAfn : A.fn = mangleFnName G.mod fd.name := by rw [hAdef]
  have hAsrc : A.src = fd.name := by rw [hAdef]
  have hAcl : A.cl = P.cleanup := by rw [hAdef]
  have hArest : A.rest = frames := by rw [hAdef]
  have hAmp : A.mp = mp + (P.envE.nv : Int) := by rw [hAdef]
  have hAc : A.c = I.c := by rw [hAdef]
  have hAσ : A.σ = I.σ := by rw [hAdef]
  have hAlab : A.lab = I.lab := by rw [hAdef]
  have hAN : A.N = I.N := by rw [hAdef]
  have hAT : A.T = I.T := by rw [hAdef]
  have hAnv : A.nv = P.envE.nv := by rw [hAdef]
  have hAφ : A.φ = I.φ := by rw [hAdef]
  -- parameters
  have hall : ∀ sc ∈ ([] :: I.scopes0 : CScopes), ∀ x ∈ I.T, sc.lookup x = none := by
    intro sc hsc x hx
    rcases List.mem_cons.mp hsc with rfl | hsc
    · rfl
    · exact hFn.outer sc hsc x hx
  have hrel0 : StRel G.mod A.T A.N A.σ G.lim A.mp env0.scopes env0.vm [[]] mem := by
    rw [hAT, henv0]
    have hlive := liveNames_of_unbound I.T ([] :: I.scopes0) hall
    refine ⟨⟨fun x hx => trivial, scopesRel_outer I.T _ G.lim _ mem I.scopes0 hFn.outer⟩,
      by rw [hlive]; exact List.nodup_nil, by rw [hlive]; simp, ?_⟩
    intro sc hsc p hp hpT
    have := List.lookup_eq_none_iff.mp (hall sc hsc p.1 hpT) p hp
    simp at this
  simp only [codeVars_append, List.mem_append] at hvars
  obtain ⟨mem1, hrunP, hmlP, hrelP⟩ := params_run G A hA fd.sp st.world fd.params svals env0 [[]] mem 1 stk hFn.params
    (by rw [hlen, hvals, List.length_map]) (by rw [hAT]; exact hFn.tParams)
    (by rw [hAN, ← hpc]; exact fun m hm => hvars m (Or.inl (Or.inl (Or.inl (Or.inr hm)))))
    (by rw [hAlab, hAσ, hAc, ← hpc]; exact hpl2) hrel0
  rw [← hvals, declAll_single, List.append_nil, hbinds] at hrelP
  rw [← hpc] at hrunP
  obtain ⟨c', hc'⟩ := cgParams_scopes G.mod fd.sp fd.params env0 [] I.scopes0 (by rw [henv0])
  have henvBsc : P.envB.scopes = ((cleanupKey G.mod fd.name, P.cleanup) :: c') :: I.scopes0 := by
    rw [henvB, hcl]; simp only [bodyEnv, hc']
  have henvBvm : P.envB.vm = (cgParams G.mod fd.sp fd.params env0).2.vm := by rw [henvB]; rfl
  have hgrel : GRel G A P.envB.scopes P.envB.vm [binds] mem1 := by
    refine ⟨?_, ?_, fun p hp => by rw [hAdef] at hp; simp at hp, fun p hp => by rw [hAdef] at hp; simp at hp⟩
    · rw [henvBsc, henvBvm]
      rw [hc'] at hrelP
      exact hrelP.addKey _ _ (by rw [hAT]; exact hFn.key)
    · rw [henvBsc, hAsrc, hAcl]
      simp [ρS]
  have hsp1 : SpecOK G A.mp spec1 := by
    rw [← hspec1, hAmp]
    refine ⟨hsp.heap, rfl, hsp.globals, ?_⟩
    show mp + (P.envE.nv : Int) ≤ G.B + ((st.depth + 1 : Nat) : Int) * (G.F : Int)
    push_cast
    rw [Int.add_mul]
    omega
  have hS := hPSs m rfl A hA [] (P.envB.scopes.drop 1) 1 stmts P.envB spec1 (1 + nI P.pcode) stk mem1
    (by rw [hAdef]; exact hFn.okS)
    (by rw [hAT]; exact hFn.tIdents) (by rw [hAsrc, hAφ]; exact hwsS)
    (by rw [hAsrc, hAφ, hAN, ← hsc]; exact fun m hm => hvars m (Or.inl (Or.inl (Or.inr hm))))
    (by rw [hAsrc, hAφ, hAlab, hAσ, hAc, ← hsc]; exact hpl3) (Nat.le_refl 1) rfl
    (by rw [← hspec1]; exact hgrel) hsp1
  rw [hAsrc, hAφ, ← hsc, ← henvS] at hS
  generalize hrS : evalStmts G.cfg m stmts spec1 = rS at hS ⊢
  obtain ⟨r1, st1⟩ := rS
  have hmono : mp ≤ A.mp - (A.nv : Int) := by rw [hAmp, hAnv]; omega
  have hmono' : mp ≤ A.mp := by rw [hAmp]; omega
  rw [hAfn, hArest, hAmp] at hrunP
  cases r1 with
  | ok u =>
    simp only []
    obtain ⟨hst1, mem2, hrunS, hmlS, hrel2⟩ := hS
    have hsp2 : SpecOK G A.mp st1 := hsp1.scopes_out st1 hst1 hrunS.inv
    have hE := hPE m rfl A hA e st1 (1 + nI P.pcode + nI P.scode) stk mem2 P.envS.lm P.envS.scopes P.envS.vm hFn.okE
      (by rw [hAφ]; exact hwsE) (by rw [hAT]; exact hFn.tVars)
      (by rw [hAφ, hAlab, hAσ, hAc, ← hec]; exact hpl4) hrel2.rel hsp2
    rw [hAφ, ← hec] at hE
    rw [hAfn, hArest, hAmp] at hrunS
    have hout1 : spec1.world = st.world := by rw [← hspec1]; rfl
    rw [hout1] at hrunS
    generalize hrE : evalExpr G.cfg m e st1 = rE at hE ⊢
    obtain ⟨r2, st2⟩ := rE
    cases r2 with
    | ok v =>
      simp only []
      obtain ⟨hst2, mem3, oE, hoE, hrunE, hmlE⟩ := hE
      rw [hAfn, hArest, hAmp] at hrunE
      refine ⟨?_, mem3, oE, hoE, RunsCall.intro hFn.code hi0 hhi ((hrunP.trans hrunS).trans hrunE) hiC hiR,
        ((hmlP.mono hmono).trans (hmlS.mono hmono)).trans (hmlE.mono hmono')⟩
      rw [hst2, hst1, ← hspec1]
    | error c =>
      cases c <;> simp only [] <;> first | trivial | exact False.elim hE | skip
      · -- the trailing expression throws
        obtain ⟨hst2, mem3, hTE, hmlE⟩ := hE
        rw [hAfn, hArest, hAmp] at hTE
        refine ⟨?_, mem3, RunsCallT.intro hFn.code hi0 hhi (hrunP.trans hrunS) hTE,
          ((hmlP.mono hmono).trans (hmlS.mono hmono)).trans (hmlE.mono hmono')⟩
        rw [hst2, hst1, ← hspec1]
      · intro hk
        have hE' := hE hk
        rw [hAfn, hArest, hAmp] at hE'
        exact RunsCallF.intro hFn.code hi0 hhi ((hrunP.trans hrunS).fatal hE')
  | error c =>
    have hout1 : spec1.world = st.world := by rw [← hspec1]; rfl
    cases c <;> simp only [] <;> first | trivial | exact False.elim hS | skip
    · -- return
      obtain ⟨_, hst1, mem2, oS, hoS, hrunS, hmlS⟩ := hS
      rw [hAfn, hArest, hAmp, hAlab, hAcl, hlabC, hout1] at hrunS
      refine ⟨?_, mem2, oS, hoS, RunsCall.intro hFn.code hi0 hhi (hrunP.trans hrunS) hiC hiR,
        (hmlP.mono hmono).trans (hmlS.mono hmono)⟩
      rw [hst1, ← hspec1]
    · -- a statement throws
      obtain ⟨hst1, mem2, hTS, hmlS, _⟩ := hS
      rw [hAfn, hArest, hAmp, hout1] at hTS
      refine ⟨?_, mem2, RunsCallT.intro hFn.code hi0 hhi hrunP hTS, (hmlP.mono hmono).trans (hmlS.mono hmono)⟩
      rw [hst1, ← hspec1]
    · intro hk
      have hS' := hS hk
      rw [hAfn, hArest, hAmp, hout1] at hS'
      exact RunsCallF.intro hFn.code hi0 hhi (hrunP.fatal hS')

end HmsProofs.Sim
