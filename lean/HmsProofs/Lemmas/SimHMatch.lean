import HmsProofs.Lemmas.SimHExec
/-!
# `match` over literals: the comparison cascade on both sides
-/
namespace HmsProofs.Sim
open Hms.Core Hms.Core.Comp Hms.Core.VM

/-- The value of a literal. -/
def litVal : Expr → Val
  | .int _ v => .int (I64.ofInt v)
  | .bool _ b => .bool b
  | .str _ s => .str s
  | _ => .null

/-- Does one of the literals equal `v`? (`none`: a comparison the model does not support.) -/
def litsHit (heap : Array Cell) (v : Val) : List Expr → Option Bool
  | [] => some false
  | l :: ls =>
    match valEq heap 64 (litVal l) v with
    | none => none
    | some true => some true
    | some false => litsHit heap v ls

/-- The index of the first arm one of whose literals equals `v` (`some none`: no arm). -/
def armsHit (heap : Array Cell) (v : Val) : List (List Expr × Expr) → Option (Option Nat)
  | [] => some none
  | a :: rest =>
    match litsHit heap v a.1 with
    | none => none
    | some true => some (some 0)
    | some false => (armsHit heap v rest).map (·.map (· + 1))

/-! ## Specification -/

theorem evalExpr_lit (cfg : Cfg) (f : Nat) (l : Expr) (st : St) (h : Frag.litE l = true) :
    evalExpr cfg (f + 1) l st = (.ok (litVal l), st) := by
  cases l <;> simp [Frag.litE] at h <;> (rw [evalExpr]; rfl)

theorem anyLit_cons (cfg fuel v l ls st) :
    anyLit cfg (fuel + 1) v (l :: ls) st =
      match evalExpr cfg fuel l st with
      | (.ok lv, st1) =>
        (match eqM lv v st1 with
         | (.ok true, st2) => (.ok true, st2)
         | (.ok false, st2) => anyLit cfg fuel v ls st2
         | (.error c, st2) => (.error c, st2))
      | (.error c, st1) => (.error c, st1) := by
  rw [anyLit, M_bind]
  rcases evalExpr cfg fuel l st with ⟨r1, st1⟩
  cases r1 with
  | error c => rfl
  | ok lv =>
    simp only []
    rw [M_bind]
    rcases eqM lv v st1 with ⟨r2, st2⟩
    cases r2 with
    | error c => rfl
    | ok b => cases b <;> rfl

/-- The tests of one arm: `timeout`, or what `litsHit` says; the state is untouched. -/
theorem anyLit_spec (cfg : Cfg) : ∀ (lits : List Expr) (fuel : Nat) (v : Val) (st : St),
    (∀ l ∈ lits, Frag.litE l = true) →
    anyLit cfg fuel v lits st = (.error .timeout, st) ∨
    anyLit cfg fuel v lits st = (match litsHit st.heap v lits with
      | some b => (.ok b, st)
      | none => (.error (.unsupported "equality of these values"), st)) := by
  intro lits
  induction lits with
  | nil =>
    intro fuel v st _
    cases fuel with
    | zero => left; rw [anyLit]; rfl
    | succ f => right; rw [anyLit]; rfl
  | cons l ls ih =>
    intro fuel v st h
    cases fuel with
    | zero => left; rw [anyLit]; rfl
    | succ f =>
      rw [anyLit_cons]
      cases f with
      | zero => left; rw [evalExpr]; rfl
      | succ f' =>
        rw [evalExpr_lit cfg f' l st (h l (by simp))]
        simp only [eqM_run, litsHit]
        cases valEq st.heap 64 (litVal l) v with
        | none => right; rfl
        | some b =>
          cases b with
          | true => right; rfl
          | false =>
            simp only []
            exact ih (f' + 1) v st (fun l' hl' => h l' (by simp [hl']))

theorem evalArms_cons (cfg fuel v lits act rest dflt st) :
    evalArms cfg (fuel + 1) v ((lits, act) :: rest) dflt st =
      match anyLit cfg fuel v lits st with
      | (.ok true, st1) => evalExpr cfg fuel act st1
      | (.ok false, st1) => evalArms cfg fuel v rest dflt st1
      | (.error c, st1) => (.error c, st1) := by
  rw [evalArms, M_bind]
  rcases anyLit cfg fuel v lits st with ⟨r1, st1⟩
  cases r1 with
  | error c => rfl
  | ok b => cases b <;> rfl

/-- **The arms of a `match`**: `timeout`, an unsupported comparison, the body of the first arm
that hits, or the default — each evaluated with some smaller fuel in the same state. -/
theorem evalArms_spec (cfg : Cfg) : ∀ (arms : List (List Expr × Expr)) (fuel : Nat) (v : Val) (d : Expr) (st : St),
    (∀ a ∈ arms, ∀ l ∈ a.1, Frag.litE l = true) →
    evalArms cfg fuel v arms (some d) st = (.error .timeout, st) ∨
    (∃ msg, evalArms cfg fuel v arms (some d) st = (.error (.unsupported msg), st)) ∨
    (∃ i a f', arms[i]? = some a ∧ armsHit st.heap v arms = some (some i) ∧ f' < fuel ∧
      evalArms cfg fuel v arms (some d) st = evalExpr cfg f' a.2 st) ∨
    (armsHit st.heap v arms = some none ∧ ∃ f', f' < fuel ∧
      evalArms cfg fuel v arms (some d) st = evalExpr cfg f' d st) := by
  intro arms
  induction arms with
  | nil =>
    intro fuel v d st _
    cases fuel with
    | zero => left; rw [evalArms]; rfl
    | succ f => right; right; right; exact ⟨rfl, f, Nat.lt_succ_self f, by rw [evalArms]⟩
  | cons a rest ih =>
    intro fuel v d st h
    obtain ⟨lits, act⟩ := a
    cases fuel with
    | zero => left; rw [evalArms]; rfl
    | succ f =>
      rw [evalArms_cons]
      rcases anyLit_spec cfg lits f v st (fun l hl => h (lits, act) (by simp) l hl) with h1 | h1
      · left; rw [h1]
      · rw [h1]
        simp only [armsHit]
        cases litsHit st.heap v lits with
        | none => right; left; exact ⟨_, rfl⟩
        | some b =>
          cases b with
          | true => right; right; left; exact ⟨0, (lits, act), f, rfl, rfl, Nat.lt_succ_self f, rfl⟩
          | false =>
            simp only []
            rcases ih f v d st (fun a' ha' => h a' (by simp [ha'])) with h2 | ⟨msg, h2⟩ | ⟨i, a', f', hi, hh, hf, h2⟩ |
              ⟨hh, f', hf, h2⟩
            · left; exact h2
            · right; left; exact ⟨msg, h2⟩
            · right; right; left
              exact ⟨i + 1, a', f', by simpa using hi, by simp [hh], by omega, h2⟩
            · right; right; right
              exact ⟨by simp [hh], f', by omega, h2⟩

/-! ## The VM -/

/-- `Eq_Pop_Once`: compares the two topmost values, pops only the upper one. -/
theorem mkS_eqPopOnce (code : Code) (lim : Limits) (s : VMState) (fn : String) (ip : Nat) (rest : List Frame)
    (mp : Int) (k : Nat) (stk : List SVal) (mem : Mem) (out : World) (c : List (RInstr × Span))
    (hf : findCode code fn = some c) (sp : Span) (l r : SVal) (b : Bool)
    (hx : c[ip]? = some (.eqPopOnce, sp)) (he : valEq out.heap 64 l.v r.v = some b) :
    exec1 code lim (mkS s (⟨fn, ip⟩ :: rest) mp k (l :: r :: stk) mem out) =
      .next (mkS s (⟨fn, ip + 1⟩ :: rest) mp (k + 1) (⟨.bool b, none⟩ :: r :: stk) mem out) := by
  have hfe := fetch_mkS code s fn ip rest mp k (l :: r :: stk) mem out c _ hf hx
  unfold exec1
  rw [hfe]
  simp only [step, mkS, runM, eqM_run, he, advance, push1, Nat.add_assoc]

theorem litCode_notLabel (l : Expr) : ∀ p ∈ litCode l, isLabel p.1 = false := by
  intro p hp
  cases l <;> simp [litCode] at hp <;> (subst hp; rfl)

/-- A literal is pushed. -/
theorem lit_runs (G : GCtx) (A : Act) (hA : A.OK G) (l : Expr) (hl : Frag.litE l = true) (ip : Nat)
    (stk : List SVal) (mem : Mem) (w : World) (hpl : Placed A.lab A.σ A.c ip (litCode l)) :
    Runs G.fr G.code G.lim G.s A.fn A.rest A.mp ip stk mem w (ip + 1) (⟨litVal l, none⟩ :: stk) mem w := by
  cases l <;> simp [Frag.litE] at hl
  case int sp v =>
    obtain ⟨ix, _⟩ := hpl.instr (i := .copyPush (.int v)) rfl
    exact Runs.of_runsTo (fr := G.fr) (fun it_ => RunsTo.of_exec1 (fun k => reach_push G.code G.lim (baseOf (withIt G.s it_) A.fn A.rest A.mp w) ip k stk mem
      ⟨A.fn, 0⟩ A.rest A.c rfl hA.code (.int v) sp _ ix (fun _ => rfl)))
  case bool sp b =>
    obtain ⟨ix, _⟩ := hpl.instr (i := .copyPush (.bool b)) rfl
    exact Runs.of_runsTo (fr := G.fr) (fun it_ => RunsTo.of_exec1 (fun k => reach_push G.code G.lim (baseOf (withIt G.s it_) A.fn A.rest A.mp w) ip k stk mem
      ⟨A.fn, 0⟩ A.rest A.c rfl hA.code (.bool b) sp _ ix (fun _ => rfl)))
  case str sp x =>
    obtain ⟨ix, _⟩ := hpl.instr (i := .copyPush (.str x)) rfl
    exact Runs.of_runsTo (fr := G.fr) (fun it_ => RunsTo.of_exec1 (fun k => reach_push G.code G.lim (baseOf (withIt G.s it_) A.fn A.rest A.mp w) ip k stk mem
      ⟨A.fn, 0⟩ A.rest A.c rfl hA.code (.str x) sp _ ix (fun _ => rfl)))

theorem nI_litCode (l : Expr) (h : Frag.litE l = true) : nI (litCode l) = 1 := by
  cases l <;> simp [Frag.litE] at h <;> rfl

/-- **The tests of one arm** with the control value `cv` on top of the stack: a hit jumps to the
arm's label, otherwise the VM falls through; the control value stays. -/
theorem litTests_run (G : GCtx) (A : Act) (hA : A.OK G) (sp : Span) (name : String) (cv : SVal)
    (stk : List SVal) (mem : Mem) (w : World) : ∀ (lits : List Expr) (ip : Nat),
    (∀ l ∈ lits, Frag.litE l = true) → Placed A.lab A.σ A.c ip (litTests sp name lits) →
    match litsHit w.heap cv.v lits with
    | some true => Runs G.fr G.code G.lim G.s A.fn A.rest A.mp ip (cv :: stk) mem w (A.lab name) (cv :: stk) mem w
    | some false => Runs G.fr G.code G.lim G.s A.fn A.rest A.mp ip (cv :: stk) mem w
        (ip + nI (litTests sp name lits)) (cv :: stk) mem w
    | none => True := by
  intro lits
  induction lits with
  | nil => intro ip _ _; exact (Runs.refl ip _ mem w).cast (by simp [litTests])
  | cons l ls ih =>
    intro ip hl hpl
    simp only [litTests] at hpl ⊢
    obtain ⟨h12, hplR⟩ := hpl.append
    obtain ⟨hplL, hplT⟩ := h12.append
    have hnL := nI_litCode l (hl l (by simp))
    rw [hnL] at hplT
    obtain ⟨ieq, hT1⟩ := hplT.instr (i := .eqPopOnce) rfl
    obtain ⟨inot, hT2⟩ := hT1.instr (i := .not) rfl
    obtain ⟨ijif, _⟩ := hT2.instr (i := .jumpIfFalse name) rfl
    have hn3 : nI [((Instr.eqPopOnce : SInstr), sp), (.not, sp), (.jumpIfFalse name, sp)] = 3 := rfl
    simp only [nI_append, hnL, hn3] at hplR ⊢
    simp only [litsHit]
    have hpush := lit_runs G A hA l (hl l (by simp)) ip (cv :: stk) mem w hplL
    cases he : valEq w.heap 64 (litVal l) cv.v with
    | none => trivial
    | some b =>
      have heq := Runs.of_exec1 (fr := G.fr) (fun it_ k => mkS_eqPopOnce G.code G.lim (withIt G.s it_) A.fn (ip + 1) A.rest A.mp k stk mem w A.c
        hA.code sp ⟨litVal l, none⟩ cv b ieq he)
      have hnot := Runs.of_runsTo (fr := G.fr) (fun it_ => RunsTo.of_exec1 (fun k => reach_pre G.code G.lim (baseOf (withIt G.s it_) A.fn A.rest A.mp w)
        (ip + 1 + 1) k (cv :: stk) mem ⟨A.fn, 0⟩ A.rest A.c rfl hA.code .not sp A.lab A.σ (.bool b) (.bool (!b)) none
        inot rfl))
      have hjif := Runs.of_runsTo (fr := G.fr) (fun it_ => RunsTo.of_exec1 (fun k => reach_jumpIfFalse G.code G.lim
        (baseOf (withIt G.s it_) A.fn A.rest A.mp w) (ip + 1 + 1 + 1) k (cv :: stk) mem ⟨A.fn, 0⟩ A.rest A.c rfl hA.code
        (A.lab name) sp (!b) none ijif))
      have hpre := ((hpush.trans heq).trans hnot).trans hjif
      cases b with
      | true =>
        simp only []
        exact hpre.cast (by simp)
      | false =>
        simp only []
        have hrest := ih (ip + (1 + 3)) (fun l' hl' => hl l' (by simp [hl'])) hplR
        have hpre' : Runs G.fr G.code G.lim G.s A.fn A.rest A.mp ip (cv :: stk) mem w (ip + (1 + 3)) (cv :: stk) mem w :=
          hpre.cast (by simp)
        cases hh : litsHit w.heap cv.v ls with
        | none => trivial
        | some b' =>
          rw [hh] at hrest
          cases b' with
          | true => exact hpre'.trans hrest
          | false => exact (hpre'.trans hrest).cast (by omega)

theorem armTests_length (mod : String) (sp : Span) : ∀ (arms : List (List Expr × Expr)) (lm : LM),
    (armTests mod sp arms lm).2.1.length = arms.length := by
  intro arms
  induction arms with
  | nil => intro lm; rfl
  | cons a rest ih => intro lm; simp [armTests, ih]

/-- **The whole cascade**: the first arm that hits is jumped to; with no hit the VM falls through. -/
theorem armTests_run (G : GCtx) (A : Act) (hA : A.OK G) (sp : Span) (cv : SVal)
    (stk : List SVal) (mem : Mem) (w : World) : ∀ (arms : List (List Expr × Expr)) (lm : LM) (ip : Nat),
    (∀ a ∈ arms, ∀ l ∈ a.1, Frag.litE l = true) → Placed A.lab A.σ A.c ip (armTests G.mod sp arms lm).1 →
    match armsHit w.heap cv.v arms with
    | some (some i) => ∃ nm, (armTests G.mod sp arms lm).2.1[i]? = some nm ∧
        Runs G.fr G.code G.lim G.s A.fn A.rest A.mp ip (cv :: stk) mem w (A.lab nm) (cv :: stk) mem w
    | some none => Runs G.fr G.code G.lim G.s A.fn A.rest A.mp ip (cv :: stk) mem w
        (ip + nI (armTests G.mod sp arms lm).1) (cv :: stk) mem w
    | none => True := by
  intro arms
  induction arms with
  | nil => intro lm ip _ _; exact (Runs.refl ip _ mem w).cast (by simp [armTests])
  | cons a rest ih =>
    intro lm ip hl hpl
    simp only [armTests] at hpl ⊢
    obtain ⟨hpl1, hpl2⟩ := hpl.append
    have h1 := litTests_run G A hA sp (freshLabel G.mod lm "case").1 cv stk mem w a.1 ip
      (fun l hl' => hl a (by simp) l hl') hpl1
    simp only [armsHit]
    cases hh : litsHit w.heap cv.v a.1 with
    | none => trivial
    | some b =>
      rw [hh] at h1
      cases b with
      | true => exact ⟨_, rfl, h1⟩
      | false =>
        simp only [] at h1 ⊢
        have h2 := ih (freshLabel G.mod lm "case").2 (ip + nI (litTests sp (freshLabel G.mod lm "case").1 a.1))
          (fun a' ha' => hl a' (by simp [ha'])) hpl2
        cases hr : armsHit w.heap cv.v rest with
        | none => trivial
        | some oi =>
          rw [hr] at h2
          cases oi with
          | none =>
            simp only [Option.map_some, Option.map_none] at h2 ⊢
            exact (h1.trans h2).cast (by rw [nI_append]; omega)
          | some i =>
            simp only [Option.map_some] at h2 ⊢
            obtain ⟨nm, hnm, hrun⟩ := h2
            exact ⟨nm, by simpa using hnm, h1.trans hrun⟩

/-- Where the body of arm `i` sits: its label, the `Drop` of the control value, the body, the
`Jump` behind the `match`. -/
theorem cgArms_at (A : Act) (mod : String) (ρ φ : String → Option String) (sp : Span) (after : String) :
    ∀ (arms : List (List Expr × Expr)) (nms : List String) (lm : LM) (ip : Nat), arms.length = nms.length →
    Placed A.lab A.σ A.c ip (cgArms mod ρ φ sp after arms nms lm).1 →
    ∀ (i : Nat) (a : List Expr × Expr) (nm : String), arms[i]? = some a → nms[i]? = some nm →
      ∃ lmi, A.c[A.lab nm]? = some (.drop, sp) ∧ Placed A.lab A.σ A.c (A.lab nm + 1) (cgE mod ρ φ a.2 lmi).1 ∧
        A.c[A.lab nm + 1 + nI (cgE mod ρ φ a.2 lmi).1]? = some (.jump (A.lab after), sp) := by
  intro arms
  induction arms with
  | nil => intro nms lm ip _ _ i a nm hi; simp at hi
  | cons a0 rest ih =>
    intro nms lm ip hlen hpl i a nm hi hn
    cases nms with
    | nil => simp at hlen
    | cons n0 nms' =>
      simp only [cgArms] at hpl
      obtain ⟨h123, hplR⟩ := hpl.append
      obtain ⟨h12, hplJ⟩ := h123.append
      obtain ⟨hplL, hplB⟩ := h12.append
      obtain ⟨elb, hL2⟩ := hplL.label
      obtain ⟨idrop, _⟩ := hL2.instr (i := .drop) rfl
      obtain ⟨ijmp, _⟩ := hplJ.instr (i := .jump after) rfl
      have hnL : nI [((Instr.label n0 : SInstr), sp), (.drop, sp)] = 1 := rfl
      simp only [nI_append, hnL] at hplB ijmp hplR
      cases i with
      | zero =>
        simp only [List.getElem?_cons_zero, Option.some.injEq] at hi hn
        subst hi; subst hn
        rw [elb]
        exact ⟨lm, idrop, hplB, by rw [← Nat.add_assoc] at ijmp; exact ijmp⟩
      | succ j =>
        simp only [List.getElem?_cons_succ] at hi hn
        exact ih nms' _ _ (by simpa using hlen) hplR j a nm hi hn

/-! ## Arms: membership facts -/

theorem evalExpr_matchE (cfg fuel sp ty c arms dflt st) :
    evalExpr cfg (fuel + 1) (.matchE sp ty c arms dflt) st =
      match evalExpr cfg fuel c st with
      | (.ok v, st1) => evalArms cfg fuel v arms dflt st1
      | (.error e, st1) => (.error e, st1) := by
  rw [evalExpr, M_bind]
  rcases evalExpr cfg fuel c st with ⟨r1, st1⟩
  cases r1 <;> rfl

theorem evalExpr_blockE (cfg fuel b st) :
    evalExpr cfg (fuel + 1) (.blockE b) st = inScope (evalBlock cfg fuel b) st := by
  rw [evalExpr]

theorem okGArms_mem (fr : Bool) : ∀ (arms : List (List Expr × Expr)), Frag.okEArms fr arms = true →
    ∀ a ∈ arms, (∀ l ∈ a.1, Frag.litE l = true) ∧ Frag.okE fr a.2 = true := by
  intro arms
  induction arms with
  | nil => intro _ a ha; simp at ha
  | cons x xs ih =>
    intro h a ha
    simp only [Frag.okEArms, Bool.and_eq_true, List.all_eq_true] at h
    rcases List.mem_cons.mp ha with rfl | ha
    · exact ⟨h.1.1, h.1.2⟩
    · exact ih h.2 a ha

theorem wsGArms_mem (scopes : CScopes) (φ : String → Option String) : ∀ (arms : List (List Expr × Expr)),
    Frag.resolved scopes (Frag.varsGArms arms) = true → Frag.callsOK scopes φ (Frag.callsGArms arms) = true →
    ∀ a ∈ arms, Frag.wsGE scopes φ a.2 = true := by
  intro arms
  induction arms with
  | nil => intro _ _ a ha; simp at ha
  | cons x xs ih =>
    intro h1 h2 a ha
    simp only [Frag.varsGArms] at h1
    simp only [Frag.callsGArms] at h2
    rw [resolved_append] at h1
    rw [callsOK_append] at h2
    rcases List.mem_cons.mp ha with rfl | ha
    · simp only [Frag.wsGE, Bool.and_eq_true]; exact ⟨h1.1, h2.1⟩
    · exact ih h1.2 h2.2 a ha

theorem namesGArms_mem : ∀ (arms : List (List Expr × Expr)) (a : List Expr × Expr), a ∈ arms →
    ∀ x ∈ Frag.namesGE a.2, x ∈ Frag.varsGArms arms ∨ x ∈ Frag.callsGArms arms := by
  intro arms
  induction arms with
  | nil => intro a ha; simp at ha
  | cons y ys ih =>
    intro a ha x hx
    simp only [Frag.varsGArms, Frag.callsGArms, List.mem_append]
    rcases List.mem_cons.mp ha with rfl | ha
    · simp only [Frag.namesGE, List.mem_append] at hx
      rcases hx with hx | hx
      · exact Or.inl (Or.inl hx)
      · exact Or.inr (Or.inl hx)
    · rcases ih a ha x hx with h | h
      · exact Or.inl (Or.inr h)
      · exact Or.inr (Or.inr h)

end HmsProofs.Sim
