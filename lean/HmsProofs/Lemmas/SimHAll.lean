import HmsProofs.Lemmas.SimHCall
import HmsProofs.Lemmas.SimHFor
/-!
# The general fragment: all simulation statements, for every fuel
-/
namespace HmsProofs.Sim
open Hms.Core Hms.Core.Comp Hms.Core.VM

theorem pe_zero (G : GCtx) : PE G 0 := by
  intro A _ e st ip stk mem lm scopes vm _ _ _ _ _ _
  rw [evalExpr]
  trivial

theorem pargs_zero (G : GCtx) : PArgs G 0 := by
  intro A _ args st ip stk mem lm scopes vm _ _ _ _ _ _ _
  rw [evalList]
  trivial

theorem pgs_zero (G : GCtx) : PGS G 0 := by
  intro A _ loops lscopes d s env spec ip stk mem _ _ _ _ _ _ _ _ _
  rw [evalStmt]
  trivial

theorem pgf_zero (G : GCtx) : PGF G 0 := by
  intro A _ loops lscopes d sp name vty rsp a b incl bsp bty stmts env spec ip stk mem _ _ _ _ _ _ _ _ _ _
  rw [evalStmt]
  trivial

theorem pgss_zero (G : GCtx) : PGSs G 0 := by
  intro A _ loops lscopes d ss env spec ip stk mem _ _ _ _ _ _ _ _ _
  rw [evalStmts]
  trivial

/-- All simulation statements at one fuel. -/
structure AllP (G : GCtx) (n : Nat) : Prop where
  pe : PE G n
  pargs : PArgs G n
  pcall : PCall G n
  pgs : PGS G n
  pgss : PGSs G n
  pgbs : PGBS G n
  pgl : PGL G n
  pgf : PGF G n

/-- **Every statement of the simulation holds at every fuel, in every context** (strong induction
on the specification's fuel; recursion between functions is covered by the induction, and so is
the change of context — another handler stack — inside a `try` body). -/
theorem allP' : ∀ n, ∀ (G : GCtx), G.OK' → AllP G n := by
  intro n
  induction n using Nat.strongRecOn with
  | _ n ih =>
    intro G hG
    cases n with
    | zero => exact ⟨pe_zero G, pargs_zero G, pcall_zero G, pgs_zero G, pgss_zero G, pgbs_zero G, pgl_zero G, pgf_zero G⟩
    | succ k =>
      have hk := ih k (Nat.lt_succ_self k) G hG
      have hpgf : PGF G (k + 1) :=
        pgf_step G k (fun m hm => (ih m (by omega) G hG).pe) (fun m hm => (ih m (by omega) G hG).pgss)
      refine ⟨?_, ?_, ?_, ?_, ?_, ?_, ?_, hpgf⟩
      · exact pe_step G hG k (fun m hm => (ih m (by omega) G hG).pe) (fun m hm => (ih m (by omega) G hG).pargs)
          (fun m hm => (ih m (by omega) G hG).pcall)
      · exact pargs_step G k hk.pe hk.pargs
      · exact pcall_step G hG k (fun m hm => (ih m (by omega) G hG).pgss) (fun m hm => (ih m (by omega) G hG).pe)
      · exact pgs_step G hG k (fun m hm => (ih m (by omega) G hG).pe) (fun m hm => (ih m (by omega) G hG).pargs) hk.pgl
          (fun m hm => (ih m (by omega) G hG).pgbs)
          (fun m hm hs => (ih m (by omega) (G.withH hs) (hG.withH hs)).pgbs)
          (fun m hm => (ih m (by omega) G hG).pgss) hpgf
      · exact pgss_step G k hk.pgs hk.pgss
      · exact pgbs_step G k hk.pgss
      · exact pgl_step G k hk.pe hk.pgbs hk.pgl

theorem allP (G : GCtx) (hG : G.OK') : ∀ n, AllP G n := fun n => allP' n G hG

end HmsProofs.Sim
