import HmsProofs.Lemmas.SimPure
/-!
# Mangled label names are injective

`mangleLabel` forms `<module>_<ident><count>`. The `ident`s the compiler uses contain no digit,
so the name determines `(ident, count)`. (For *variables* the same scheme is not injective:
source identifiers may end in digits — finding V26.)
-/
namespace HmsProofs.Sim
open Hms.Core Hms.Core.Comp

def labelName (mod ident : String) (c : Nat) : String := s!"{mod}_{ident}{c}"

theorem freshLabel_fst (mod : String) (lm : LM) (ident : String) :
    (freshLabel mod lm ident).1 = labelName mod ident ((lm.lookup ident).getD 0) := rfl

theorem labelName_toList (mod ident : String) (c : Nat) :
    (labelName mod ident c).toList = mod.toList ++ ("_".toList ++ (ident.toList ++ Nat.toDigits 10 c)) := by
  show (mod ++ "_" ++ ident ++ toString c).toList = _
  simp only [String.toList_append, Nat.toString_eq_repr, Nat.toList_repr, List.append_assoc]

/-- No character of `s` is a decimal digit. -/
def NoDigits (s : String) : Prop := ∀ ch ∈ s.toList, ch.isDigit = false

theorem split_digits : ∀ (xs ys ds es : List Char),
    (∀ c ∈ xs, c.isDigit = false) → (∀ c ∈ ys, c.isDigit = false) →
    (∀ c ∈ ds, c.isDigit = true) → (∀ c ∈ es, c.isDigit = true) →
    xs ++ ds = ys ++ es → xs = ys ∧ ds = es := by
  intro xs
  induction xs with
  | nil =>
    intro ys ds es _ hy hd _ h
    cases ys with
    | nil => exact ⟨rfl, by simpa using h⟩
    | cons y ys =>
      simp only [List.nil_append, List.cons_append] at h
      have h1 := hy y (by simp)
      have h2 := hd y (by rw [h]; simp)
      rw [h1] at h2; cases h2
  | cons x xs ih =>
    intro ys ds es hx hy hd he h
    cases ys with
    | nil =>
      simp only [List.nil_append, List.cons_append] at h
      have h1 := hx x (by simp)
      have h2 := he x (by rw [← h]; simp)
      rw [h1] at h2; cases h2
    | cons y ys =>
      simp only [List.cons_append, List.cons.injEq] at h
      obtain ⟨rfl, h⟩ := h
      obtain ⟨rfl, h'⟩ := ih ys ds es (fun c hc => hx c (by simp [hc])) (fun c hc => hy c (by simp [hc])) hd he h
      exact ⟨rfl, h'⟩

theorem toDigits_inj (a b : Nat) (h : Nat.toDigits 10 a = Nat.toDigits 10 b) : a = b := by
  have := congrArg (fun l => Nat.ofDigitChars 10 l 0) h
  simpa [Nat.ofDigitChars_ten_toDigits] using this

/-- **Label names are injective** in `(ident, count)` for digit-free `ident`s. -/
theorem labelName_inj (mod id1 id2 : String) (c1 c2 : Nat) (h1 : NoDigits id1) (h2 : NoDigits id2)
    (h : labelName mod id1 c1 = labelName mod id2 c2) : id1 = id2 ∧ c1 = c2 := by
  have := congrArg String.toList h
  rw [labelName_toList, labelName_toList] at this
  have := List.append_cancel_left (List.append_cancel_left this)
  obtain ⟨e1, e2⟩ := split_digits _ _ _ _ h1 h2
    (fun c hc => Nat.isDigit_of_mem_toDigits (by decide) (by decide) hc)
    (fun c hc => Nat.isDigit_of_mem_toDigits (by decide) (by decide) hc) this
  exact ⟨String.toList_inj.mp e1, toDigits_inj _ _ e2⟩

/-- The label identifiers used by the compiler. -/
def labelIdents : List String :=
  ["return_true", "after_infix", "return_false", "if_after", "else", "match_after", "case",
   "match_default", "exception_label", "after_catch_label", "loop_head", "loop_end", "loop_update",
   "cleanup"]

theorem labelIdents_noDigits : ∀ id ∈ labelIdents, NoDigits id := by
  intro id hid
  simp only [labelIdents, List.mem_cons, List.not_mem_nil, or_false] at hid
  rcases hid with rfl | rfl | rfl | rfl | rfl | rfl | rfl | rfl | rfl | rfl | rfl | rfl | rfl | rfl <;>
    (intro ch hch; revert ch; decide)

end HmsProofs.Sim
