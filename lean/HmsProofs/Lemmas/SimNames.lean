import HmsProofs.Lemmas.SimPure
/-!
# Mangled names are injective

`mangleLabel` forms `<module>.<ident>.<count>` and `mangleVar` forms `@<module>.<ident>.<count>`
(the scheme after the fix of finding V26). The decimal count contains no `.`, so the *last* `.`
of a name separates the count from the rest: for a fixed module the name determines
`(ident, count)` — for every identifier, with or without digits or dots.
-/
namespace HmsProofs.Sim
open Hms.Core Hms.Core.Comp

def labelName (mod ident : String) (c : Nat) : String := s!"{mod}.{ident}.{c}"

theorem freshLabel_fst (mod : String) (lm : LM) (ident : String) :
    (freshLabel mod lm ident).1 = labelName mod ident ((lm.lookup ident).getD 0) := rfl

theorem labelName_toList (mod ident : String) (c : Nat) :
    (labelName mod ident c).toList =
      mod.toList ++ (".".toList ++ (ident.toList ++ (".".toList ++ Nat.toDigits 10 c))) := by
  show (mod ++ "." ++ ident ++ "." ++ toString c).toList = _
  simp only [String.toList_append, Nat.toString_eq_repr, Nat.toList_repr, List.append_assoc]

/-- Splitting at the last separator: the suffixes do not contain it. -/
theorem split_last_sep {α} {sep : α} : ∀ {xs xs' ys ys' : List α},
    xs ++ sep :: ys = xs' ++ sep :: ys' → sep ∉ ys → sep ∉ ys' → xs = xs' ∧ ys = ys' := by
  intro xs
  induction xs with
  | nil =>
    intro xs' ys ys' h hy _
    cases xs' with
    | nil => simpa using h
    | cons c t =>
      simp only [List.nil_append, List.cons_append, List.cons.injEq] at h
      exact absurd (h.2 ▸ (by simp : sep ∈ t ++ sep :: ys')) hy
  | cons a s ih =>
    intro xs' ys ys' h hy hy'
    cases xs' with
    | nil =>
      simp only [List.nil_append, List.cons_append, List.cons.injEq] at h
      exact absurd (h.2 ▸ (by simp : sep ∈ s ++ sep :: ys)) hy'
    | cons c t =>
      simp only [List.cons_append, List.cons.injEq] at h
      obtain ⟨rfl, h⟩ := h
      obtain ⟨rfl, rfl⟩ := ih h hy hy'
      exact ⟨rfl, rfl⟩

theorem dot_not_mem_toDigits (c : Nat) : '.' ∉ Nat.toDigits 10 c := by
  intro h
  simpa using Nat.isDigit_of_mem_toDigits (by decide) (by decide) h

theorem toDigits_inj (a b : Nat) (h : Nat.toDigits 10 a = Nat.toDigits 10 b) : a = b := by
  have := congrArg (fun l => Nat.ofDigitChars 10 l 0) h
  simpa [Nat.ofDigitChars_ten_toDigits] using this

/-- **Label names are injective** in `(ident, count)`, for all identifiers. -/
theorem labelName_inj (mod id1 id2 : String) (c1 c2 : Nat)
    (h : labelName mod id1 c1 = labelName mod id2 c2) : id1 = id2 ∧ c1 = c2 := by
  have := congrArg String.toList h
  rw [labelName_toList, labelName_toList] at this
  have h1 := List.append_cancel_left (List.append_cancel_left this)
  have hd : ".".toList = ['.'] := rfl
  rw [hd] at h1
  obtain ⟨e1, e2⟩ := split_last_sep (sep := '.') h1 (dot_not_mem_toDigits c1) (dot_not_mem_toDigits c2)
  exact ⟨String.toList_inj.mp e1, toDigits_inj _ _ e2⟩

/-- The label identifiers used by the compiler. -/
def labelIdents : List String :=
  ["return_true", "after_infix", "return_false", "if_after", "else", "match_after", "case",
   "match_default", "exception_label", "after_catch_label", "loop_head", "loop_end", "loop_update",
   "cleanup"]

end HmsProofs.Sim
