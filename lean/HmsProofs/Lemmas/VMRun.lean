import HmsProofs.Lemmas.VMSpecial
/-!
# `runQuantum` and `run`: growth bounds, reachable states, fuel

Lemmas for C09 (resource limits).
-/
namespace HmsProofs.Lemmas.VMRun
open Hms.Core Hms.Core.Comp Hms.Core.VM Hms.Core.BcCheck HmsProofs.Lemmas.VMStep

/-! ## One instruction: how much the stacks can grow -/

/-- The exact bound on the net growth of the operand stack by one instruction. -/
def maxPush : RInstr → Nat
  | .copyPush _ | .cloningPush _ | .dup | .getVar _ | .getGlob _ | .iterAdvance => 1
  | _ => 0

/-- Memory pointer below the limit (also the ones recorded in the installed handlers, which an
exception restores); memory cells only at indices `[0, limit)`, one per index. -/
def MemOK (lim : Limits) (s : VMState) : Prop :=
  s.mp < (lim.memory : Int) ∧ (∀ kv ∈ s.mem, 0 ≤ kv.1 ∧ kv.1 < (lim.memory : Int))
    ∧ (s.mem.map Prod.fst).Nodup ∧ (∀ h ∈ s.handlers, h.mp < (lim.memory : Int))

theorem MemOK_of_keeps {lim : Limits} {s s' : VMState} (h : MemOK lim s) (hk : Keeps s s') : MemOK lim s' := by
  obtain ⟨h1, h2, h3⟩ := hk
  unfold MemOK; rw [h1, h2, h3]; exact h

theorem MemOK_congr {lim : Limits} {s s' : VMState} (h1 : s'.mp = s.mp) (h2 : s'.mem = s.mem)
    (h3 : s'.handlers = s.handlers) (h : MemOK lim s) : MemOK lim s' := by
  unfold MemOK; rw [h1, h2, h3]; exact h

theorem memSet_ok {lim : Limits} {s : VMState} {abs : Int} {v : Val} (h : MemOK lim s)
    (h0 : 0 ≤ abs) (h1 : abs < (lim.memory : Int)) : MemOK lim (memSet s abs v) := by
  obtain ⟨hmp, hk, hn, hh⟩ := h
  refine ⟨hmp, ?_, ?_, hh⟩
  · intro kv hkv
    simp only [memSet, List.mem_cons, List.mem_filter] at hkv
    rcases hkv with rfl | ⟨hm, _⟩
    · exact ⟨h0, h1⟩
    · exact hk kv hm
  · simp only [memSet, List.map_cons, List.nodup_cons]
    refine ⟨?_, ?_⟩
    · simp only [List.mem_map, List.mem_filter, not_exists, not_and]
      rintro ⟨k, w⟩ ⟨_, hne⟩ rfl
      simp at hne
    · exact (hn.sublist ((List.filter_sublist).map Prod.fst))

/-- The effect of one instruction on the sizes the limits speak about: a normal step grows the
operand stack by at most `maxPush i ≤ 1` and the call stack by at most one frame; an interrupt
grows neither; memory stays within the limit. -/
def Bound (lim : Limits) (s : VMState) (k : Nat) : StepRes → Prop :=
  Sat3 (fun s' => s'.stack.length ≤ s.stack.length + k ∧ s'.calls.length ≤ s.calls.length + 1
          ∧ (MemOK lim s → MemOK lim s'))
       (fun _ s' => s'.stack.length ≤ s.stack.length ∧ s'.calls.length ≤ s.calls.length
          ∧ ((∃ msg sp, ‹Interrupt› = .throw msg sp) → MemOK lim s → MemOK lim s'))
       (fun _ => True)

theorem simpleEff_maxPush {i : RInstr} {p q : Nat} (h : simpleEff i = some (p, q)) : q ≤ p + maxPush i := by
  cases i <;> simp [simpleEff] at h <;> obtain ⟨rfl, rfl⟩ := h <;> simp [maxPush]

theorem callVal_cases (s : VMState) :
    (∃ argc o m name o' rest, s.stack = ⟨.int argc, o⟩ :: ⟨.fn m name, o'⟩ :: rest)
    ∨ (∃ argc o f o' rest, s.stack = ⟨.int argc, o⟩ :: ⟨f, o'⟩ :: rest ∧ ((∃ n, f = .builtin n) ∨ (∃ r n, f = .bound r n)))
    ∨ (∀ argc o f o' rest, s.stack = ⟨.int argc, o⟩ :: ⟨f, o'⟩ :: rest →
        (∀ m n, f ≠ .fn m n) ∧ (∀ n, f ≠ .builtin n) ∧ (∀ r n, f ≠ .bound r n)) := by
  rcases hs : s.stack with _ | ⟨⟨a, o⟩, _ | ⟨⟨f, o'⟩, rest⟩⟩
  · right; right; intro _ _ _ _ _ h; cases h
  · right; right; intro _ _ _ _ _ h; cases h
  · cases a
    case int argc =>
      cases f
      case fn m n => left; exact ⟨argc, o, m, n, o', rest, rfl⟩
      case builtin n => right; left; exact ⟨argc, o, _, o', rest, rfl, Or.inl ⟨n, rfl⟩⟩
      case bound r n => right; left; exact ⟨argc, o, _, o', rest, rfl, Or.inr ⟨r, n, rfl⟩⟩
      all_goals (right; right; intro _ _ _ _ _ h; simp at h; obtain ⟨_, ⟨rfl, _⟩, _⟩ := h; simp)
    all_goals (right; right; intro _ _ _ _ _ h; simp at h)

theorem step_bound (code : Code) (lim : Limits) (s : VMState) (i : RInstr) (sp : Span) :
    Bound lim s (maxPush i) (step code lim s i sp) := by
  cases hse : simpleEff i with
  | some pq =>
    obtain ⟨p, q⟩ := pq
    have h := simple_spec code lim s i sp p q hse
    have hm := simpleEff_maxPush hse
    refine h.mono ?_ ?_ ?_
    · rintro s' ⟨h2, h3, h4⟩
      exact ⟨by omega, by rw [h3]; simp, fun hok => MemOK_of_keeps hok h4⟩
    · rintro x s' ⟨h1, h2, h3, h4, h5⟩
      exact ⟨h3, by rw [h4]; exact Nat.le_refl _, fun _ hok => MemOK_of_keeps hok h5⟩
    · intros; trivial
  | none =>
    cases i <;> simp only [simpleEff, reduceCtorEq] at hse
    case spawn f => rw [step_spawn]; trivial
    case label l => rw [step_label]; trivial
    case callImm f =>
      rw [step_callImm]
      refine ⟨by simp [maxPush], by simp, ?_⟩
      intro h; exact MemOK_of_keeps h ⟨by simp, by simp, by simp⟩
    case ret =>
      rw [step_ret]
      refine ⟨by simp [maxPush], by simp; omega, ?_⟩
      intro h; exact h
    case jump l =>
      rcases hc : s.calls with _ | ⟨f, rest⟩
      · simp [step, hc, Bound, Sat3]
      · rw [step_jump _ _ _ _ _ _ _ hc]
        exact ⟨by simp [maxPush], by simp [hc], fun h => h⟩
    case jumpIfFalse l =>
      rcases hs : s.stack with _ | ⟨x, rest⟩
      · rw [step_jumpIfFalse_nil _ _ _ _ _ hs]; trivial
      · refine (step_jumpIfFalse code lim s l sp x rest hs).mono ?_ ?_ ?_
        · rintro s' ⟨h1, h2, h3⟩
          refine ⟨by rw [h1, hs]; simp; omega, ?_, fun hok => MemOK_of_keeps hok h2⟩
          rcases h3 with h3 | ⟨f, fr, h3, h4⟩
          · rw [h3]; simp
          · rw [h4, h3]; simp
        · intro _ _ h; exact h.elim
        · intros; trivial
    case throw =>
      rcases hs : s.stack with _ | ⟨x, rest⟩
      · rw [step_throw_nil _ _ _ _ hs]; trivial
      · refine (step_throw code lim s sp x rest hs).mono ?_ ?_ ?_
        · intro _ h; exact h.elim
        · rintro x s' ⟨h1, h2, h3⟩
          refine ⟨by rw [h1, hs]; simp, ?_, fun _ hok => MemOK_of_keeps hok h2⟩
          rcases h3 with h3 | h3 <;> rw [h3] <;> simp
        · intros; trivial
    case setTry fn l =>
      rw [step_setTry]
      refine ⟨by simp [maxPush], by simp, ?_⟩
      rintro ⟨hmp, hk, hn, hh⟩
      refine ⟨by simpa using hmp, by simpa using hk, by simpa using hn, ?_⟩
      intro h hm
      simp only [advance_handlers, List.mem_cons] at hm
      rcases hm with rfl | hm
      · exact hmp
      · exact hh h hm
    case popTry =>
      rcases hh : s.handlers with _ | ⟨h, rest⟩
      · rw [step_popTry_nil _ _ _ _ hh]; trivial
      · rw [step_popTry _ _ _ _ _ _ hh]
        refine ⟨by simp [maxPush], by simp, ?_⟩
        rintro ⟨hmp, hk, hn, hhs⟩
        refine ⟨by simpa using hmp, by simpa using hk, by simpa using hn, ?_⟩
        intro h' hm
        simp only [advance_handlers] at hm
        exact hhs h' (by rw [hh]; exact List.mem_cons_of_mem _ hm)
    case addMp n =>
      rcases step_addMp code lim s n sp with ⟨h1, h2⟩ | ⟨h1, msg, h2⟩
      · rw [h2]
        refine ⟨by simp [maxPush], by simp, ?_⟩
        rintro ⟨_, hk, hn, hh⟩
        exact ⟨by simpa using h1, by simpa using hk, by simpa using hn, by simpa using hh⟩
      · rw [h2]
        refine ⟨by simp, by simp, ?_⟩
        rintro ⟨_, _, h⟩; cases h
    case getVar k =>
      rcases step_getVar code lim s k sp with ⟨_, h⟩ | ⟨_, ⟨v, _, h⟩ | ⟨_, h⟩⟩
      · rw [h]; trivial
      · rw [h]; exact ⟨by simp [maxPush], by simp, MemOK_congr (by simp) (by simp) (by simp)⟩
      · rw [h]; trivial
    case setVar k =>
      rcases step_setVar code lim s k sp with ⟨_, h⟩ | ⟨x, rest, hs, ⟨_, h⟩ | ⟨⟨h0, h1⟩, h⟩⟩
      · rw [h]; trivial
      · rw [h]; trivial
      · rw [h]
        refine ⟨by simp [memSet, hs]; omega, by simp [memSet], ?_⟩
        intro hok
        have : MemOK lim ({ s with stack := rest } : VMState) := hok
        have := memSet_ok (v := x.v) this h0 h1
        exact ⟨by simpa using this.1, by simpa using this.2.1, by simpa using this.2.2.1, by simpa using this.2.2.2⟩
    case hostCall name =>
      by_cases hshape : ∃ argc o rest, s.stack = ⟨.int argc, o⟩ :: rest
      · obtain ⟨argc, o, rest, hs⟩ := hshape
        have hr : hostResults name ≤ 1 := by unfold hostResults; split <;> omega
        refine (step_hostCall code lim s name sp argc o rest hs).mono ?_ ?_ ?_
        · rintro s' ⟨h1, h2, h3, h4⟩
          exact ⟨by rw [hs]; simp [maxPush]; omega, by rw [h3]; simp, fun hok => MemOK_of_keeps hok h4⟩
        · rintro x s' ⟨h1, h2, h3, h4⟩
          exact ⟨by rw [hs]; simp; omega, by rw [h3]; exact Nat.le_refl _, fun _ hok => MemOK_of_keeps hok h4⟩
        · intros; trivial
      · rw [step_hostCall_other]
        · trivial
        · intro a o r h; exact hshape ⟨a, o, r, h⟩
    case callVal =>
      rcases callVal_cases s with ⟨argc, o, m, name, o', rest, hs⟩ | ⟨argc, o, f, o', rest, hs, hf⟩ | h
      · rw [step_callVal_fn code lim s sp argc o o' m name rest hs]
        exact ⟨by simp [hs]; omega, by simp, MemOK_congr (by simp) (by simp) (by simp)⟩
      · refine (step_callVal_builtin code lim s sp argc o o' f rest hs hf).mono ?_ ?_ ?_
        · rintro s' ⟨h1, h2, h3, h4, h5⟩
          exact ⟨by rw [hs]; simp [maxPush]; omega, by rw [h4]; simp, fun hok => MemOK_of_keeps hok h5⟩
        · rintro x s' ⟨h1, h2, h3, h4⟩
          exact ⟨by rw [hs]; simp; omega, by rw [h3]; exact Nat.le_refl _, fun _ hok => MemOK_of_keeps hok h4⟩
        · intros; trivial
      · rcases step_callVal_other code lim s sp h with h | h <;> rw [h] <;> trivial

/-! ## One iteration of the instruction loop -/

inductive IterRes where
  | cont (s : VMState)      -- the loop goes on
  | back (s : VMState)      -- back to the poll (the frame fell off its end)
  | done (o : VM.Outcome)

/-- The exception dispatch of `Core.Run`: the state in which the handler starts. The frames
above the activation that installed the handler and the operands pushed since are dropped, the
memory pointer is restored, the error object is pushed. -/
def throwTo (s' : VMState) (msg : String) (tsp : Span) : IterRes :=
  match s'.handlers with
  | [] => .done (.fatal "UncaughtThrow" msg tsp s')
  | h :: _ =>
    match s'.calls.drop (s'.calls.length - h.callDepth) with
    | [] => .done (.panic "no frame for the handler" s')
    | _ :: below =>
      let (obj, st') := (alloc (.obj [("message", .str msg), ("line", .int (I64.ofInt tsp.sl)),
          ("column", .int (I64.ofInt tsp.sc)), ("filename", .str "main")])) s'.st
      match obj with
      | .ok o => .cont (push1 { s' with calls := h.target :: below, stack := s'.stack.drop (s'.stack.length - h.stackHeight), mp := h.mp, st := st' } o)
      | .error _ => .done (.panic "alloc" s')

/-- The body of the loop of `runQuantum`. -/
def iter (code : Code) (lim : Limits) (s : VMState) : IterRes :=
  match s.calls with
  | [] => .done (.ok s)
  | f :: rest =>
    match findCode code f.fn with
    | none => .done (.panic "non-existent routine" s)
    | some c =>
      if c.isEmpty then .done (.panic "non-existent routine" s)
      else
        match c[f.ip]? with
        | none => .back { s with calls := rest }
        | some (i, sp) =>
          match step code lim { s with steps := s.steps + 1 } i sp with
          | .next s' => .cont s'
          | .panic why s' => .done (.panic why s')
          | .intr (.throw msg tsp) s' => throwTo s' msg tsp
          | .intr (.fatal k msg fsp) s' => .done (.fatal k msg fsp s')
          | .intr .term s' => .done (.term s')

theorem runQuantum_zero (code : Code) (lim : Limits) (s : VMState) : runQuantum code lim 0 s = .inl s := rfl

theorem runQuantum_succ (code : Code) (lim : Limits) (n : Nat) (s : VMState) :
    runQuantum code lim (n + 1) s =
      match iter code lim s with
      | .cont s' => runQuantum code lim n s'
      | .back s' => .inl s'
      | .done o => .inr o := by
  rw [runQuantum]; unfold iter
  cases hc : s.calls with
  | nil => rfl
  | cons f rest =>
    simp only []
    cases hf : findCode code f.fn with
    | none => rfl
    | some c =>
      simp only []
      by_cases he : c.isEmpty
      · simp [he]
      · simp only [he, Bool.false_eq_true, if_false]
        cases hi : c[f.ip]? with
        | none => rfl
        | some isp =>
          obtain ⟨i, sp⟩ := isp
          simp only []
          generalize step code lim _ i sp = r
          cases r with
          | next s' => rfl
          | panic why s' => rfl
          | intr x s' =>
            cases x with
            | fatal k msg fsp => rfl
            | term => rfl
            | throw msg tsp =>
              simp only [throwTo]
              cases hh : s'.handlers with
              | nil => rfl
              | cons h hrest =>
                simp only []
                have key : ∀ cs : List Frame,
                    (match cs with
                      | [] => (Sum.inr (Outcome.panic "no frame for the handler" s') : VMState ⊕ VM.Outcome)
                      | _ :: below =>
                        match (alloc (.obj [("message", .str msg), ("line", .int (I64.ofInt tsp.sl)),
                            ("column", .int (I64.ofInt tsp.sc)), ("filename", .str "main")])) s'.st with
                        | (obj, st') =>
                          match obj with
                          | .ok o => runQuantum code lim n (push1 { s' with calls := h.target :: below, stack := s'.stack.drop (s'.stack.length - h.stackHeight), mp := h.mp, st := st' } o)
                          | .error _ => .inr (.panic "alloc" s'))
                    = match (match cs with
                        | [] => IterRes.done (.panic "no frame for the handler" s')
                        | _ :: below =>
                          match (alloc (.obj [("message", .str msg), ("line", .int (I64.ofInt tsp.sl)),
                              ("column", .int (I64.ofInt tsp.sc)), ("filename", .str "main")])) s'.st with
                          | (obj, st') =>
                            match obj with
                            | .ok o => IterRes.cont (push1 { s' with calls := h.target :: below, stack := s'.stack.drop (s'.stack.length - h.stackHeight), mp := h.mp, st := st' } o)
                            | .error _ => .done (.panic "alloc" s')) with
                      | .cont s' => runQuantum code lim n s'
                      | .back s' => .inl s'
                      | .done o => .inr o := by
                  intro cs
                  cases cs with
                  | nil => rfl
                  | cons c0 below =>
                    simp only []
                    cases halloc : alloc (.obj [("message", .str msg), ("line", .int (I64.ofInt tsp.sl)),
                        ("column", .int (I64.ofInt tsp.sc)), ("filename", .str "main")]) s'.st with
                    | mk obj st' =>
                      cases obj <;> rfl
                simp only [hh] at key
                exact key _

theorem maxPush_le_one (i : RInstr) : maxPush i ≤ 1 := by
  cases i <;> simp [maxPush]

/-- What `throwTo` does when it finds a handler. -/
theorem throwTo_cont {s' s'' : VMState} {msg : String} {tsp : Span} (h : throwTo s' msg tsp = .cont s'') :
    ∃ hd hrest c0 below o st', s'.handlers = hd :: hrest ∧
      s'.calls.drop (s'.calls.length - hd.callDepth) = c0 :: below ∧
      s'' = push1 { s' with calls := hd.target :: below, stack := s'.stack.drop (s'.stack.length - hd.stackHeight), mp := hd.mp, st := st' } o := by
  unfold throwTo at h
  cases hh : s'.handlers with
  | nil => simp [hh] at h
  | cons hd hrest =>
    simp only [hh] at h
    cases hc : s'.calls.drop (s'.calls.length - hd.callDepth) with
    | nil => simp [hc] at h
    | cons c0 below =>
      simp only [hc] at h
      cases halloc : alloc (.obj [("message", .str msg), ("line", .int (I64.ofInt tsp.sl)),
          ("column", .int (I64.ofInt tsp.sc)), ("filename", .str "main")]) s'.st with
      | mk obj st' =>
        simp only [halloc] at h
        cases obj with
        | error e => simp at h
        | ok o =>
          simp only [IterRes.cont.injEq] at h
          exact ⟨hd, hrest, c0, below, o, st', rfl, hc, by rw [← h]⟩

theorem throwTo_not_back {s' s'' : VMState} {msg : String} {tsp : Span} : throwTo s' msg tsp ≠ .back s'' := by
  unfold throwTo
  repeat' split
  all_goals first | (simp; done) | (dsimp only; split <;> simp)

/-- Case analysis of one loop iteration. -/
theorem iter_cases (code : Code) (lim : Limits) (s : VMState) :
    (s.calls = [] ∧ iter code lim s = .done (.ok s))
    ∨ (∃ f rest, s.calls = f :: rest ∧
        ((findCode code f.fn = none ∨ findCode code f.fn = some []) ∧ iter code lim s = .done (.panic "non-existent routine" s)
        ∨ ∃ c, findCode code f.fn = some c ∧ c ≠ [] ∧
            ((c[f.ip]? = none ∧ iter code lim s = .back { s with calls := rest })
            ∨ ∃ i sp, c[f.ip]? = some (i, sp) ∧
                iter code lim s = match step code lim { s with steps := s.steps + 1 } i sp with
                  | .next s' => .cont s'
                  | .panic why s' => .done (.panic why s')
                  | .intr (.throw msg tsp) s' => throwTo s' msg tsp
                  | .intr (.fatal k msg fsp) s' => .done (.fatal k msg fsp s')
                  | .intr .term s' => .done (.term s')))) := by
  cases hc : s.calls with
  | nil => left; exact ⟨rfl, by simp [iter, hc]⟩
  | cons f rest =>
    right
    refine ⟨f, rest, rfl, ?_⟩
    cases hf : findCode code f.fn with
    | none => left; exact ⟨Or.inl rfl, by simp [iter, hc, hf]⟩
    | some c =>
      cases c with
      | nil => left; exact ⟨Or.inr rfl, by simp [iter, hc, hf]⟩
      | cons x xs =>
        right
        refine ⟨x :: xs, rfl, by simp, ?_⟩
        cases hi : (x :: xs)[f.ip]? with
        | none => left; exact ⟨rfl, by simp [iter, hc, hf, hi]⟩
        | some isp =>
          right
          obtain ⟨i, sp⟩ := isp
          refine ⟨i, sp, rfl, ?_⟩
          simp only [iter, hc, hf, hi, List.isEmpty_cons, Bool.false_eq_true, if_false]

/-- One loop iteration grows the operand stack and the call stack by at most one entry each. -/
theorem iter_bound (code : Code) (lim : Limits) (s s' : VMState) :
    (iter code lim s = .cont s' →
      s'.stack.length ≤ s.stack.length + 1 ∧ s'.calls.length ≤ s.calls.length + 1 ∧ (MemOK lim s → MemOK lim s'))
    ∧ (iter code lim s = .back s' →
      s'.stack.length = s.stack.length ∧ s'.calls.length ≤ s.calls.length ∧ (MemOK lim s → MemOK lim s')) := by
  rcases iter_cases code lim s with ⟨_, h⟩ | ⟨f, rest, hc, ⟨_, h⟩ | ⟨c, _, _, ⟨_, h⟩ | ⟨i, sp, _, h⟩⟩⟩
  · rw [h]; simp
  · rw [h]; simp
  · rw [h]
    refine ⟨by simp, ?_⟩
    intro he; simp only [IterRes.back.injEq] at he
    subst he
    exact ⟨rfl, by simp [hc], fun hok => hok⟩
  · rw [h]
    have hb := step_bound code lim { s with steps := s.steps + 1 } i sp
    have hm := maxPush_le_one i
    generalize step code lim { s with steps := s.steps + 1 } i sp = r at hb
    cases r with
    | next s1 =>
      obtain ⟨h1, h2, h3⟩ := hb
      simp only at h1 h2
      refine ⟨?_, by simp⟩
      intro he; simp only [IterRes.cont.injEq] at he; subst he
      exact ⟨by omega, h2, fun hok => h3 hok⟩
    | panic why s1 => simp
    | intr x s1 =>
      cases x with
      | fatal k msg fsp => simp
      | term => simp
      | throw msg tsp =>
        obtain ⟨h1, h2, h3⟩ := hb
        simp only at h1 h2
        refine ⟨?_, fun he => absurd he throwTo_not_back⟩
        intro he
        obtain ⟨hd, hrest, c0, below, o, st', hh, hcs, rfl⟩ := throwTo_cont he
        have hb : below.length + 1 ≤ s1.calls.length := by
          have := congrArg List.length hcs
          simp only [List.length_drop, List.length_cons] at this
          omega
        refine ⟨by simp; omega, by simp; omega, ?_⟩
        intro hok
        obtain ⟨g1, g2, g3, g4⟩ := h3 ⟨msg, tsp, rfl⟩ hok
        exact ⟨by simpa using g4 hd (by rw [hh]; simp), by simpa using g2, by simpa using g3, by simpa using g4⟩

/-- `n` loop iterations grow the operand stack and the call stack by at most `n` entries. -/
theorem runQuantum_bound (code : Code) (lim : Limits) : ∀ (n : Nat) (s s' : VMState),
    runQuantum code lim n s = .inl s' →
      s'.stack.length ≤ s.stack.length + n ∧ s'.calls.length ≤ s.calls.length + n ∧ (MemOK lim s → MemOK lim s')
  | 0, s, s', h => by
    simp only [runQuantum_zero, Sum.inl.injEq] at h; subst h; simp
  | n + 1, s, s', h => by
    rw [runQuantum_succ] at h
    have hb := iter_bound code lim s
    cases hi : iter code lim s with
    | cont s1 =>
      simp only [hi] at h
      obtain ⟨h1, h2, h3⟩ := (hb s1).1 hi
      obtain ⟨g1, g2, g3⟩ := runQuantum_bound code lim n s1 s' h
      exact ⟨by omega, by omega, fun hok => g3 (h3 hok)⟩
    | back s1 =>
      simp only [hi, Sum.inl.injEq] at h; subst h
      obtain ⟨h1, h2, h3⟩ := (hb s1).2 hi
      exact ⟨by omega, by omega, h3⟩
    | done o => simp [hi] at h

/-! ## `run`: polls -/

/-- The state in which `run` evaluates its poll: the poll counter has been incremented. -/
def pollState (s : VMState) : VMState := { s with polls := s.polls + 1 }

@[simp] theorem pollState_stack (s : VMState) : (pollState s).stack = s.stack := rfl
@[simp] theorem pollState_calls (s : VMState) : (pollState s).calls = s.calls := rfl
@[simp] theorem pollState_mp (s : VMState) : (pollState s).mp = s.mp := rfl
@[simp] theorem pollState_mem (s : VMState) : (pollState s).mem = s.mem := rfl
@[simp] theorem pollState_handlers (s : VMState) : (pollState s).handlers = s.handlers := rfl

/-- Has the context been cancelled when the poll looks at it? -/
def cancelled (cancelAt : Option Nat) (s1 : VMState) : Bool :=
  (cancelAt.map (fun k => decide (s1.polls ≥ k))).getD false

/-- The poll lets the run continue: there is a frame, no cancellation, both sizes within the limits. -/
def PollPass (lim : Limits) (cancelAt : Option Nat) (s : VMState) : Prop :=
  s.calls ≠ [] ∧ cancelled cancelAt (pollState s) = false ∧ s.stack.length ≤ lim.stack
    ∧ s.calls.length ≤ lim.callStack

/-- The poll finds a limit exceeded. -/
def PollExceeds (lim : Limits) (cancelAt : Option Nat) (s : VMState) : Prop :=
  s.calls ≠ [] ∧ cancelled cancelAt (pollState s) = false
    ∧ (lim.stack < s.stack.length ∨ lim.callStack < s.calls.length)

theorem run_zero (code : Code) (lim : Limits) (q : Nat) (ca : Option Nat) (s : VMState) :
    run code lim q ca 0 s = .outOfFuel s := rfl

theorem run_nil (code : Code) (lim : Limits) (q : Nat) (ca : Option Nat) (fuel : Nat) (s : VMState)
    (h : s.calls = []) : run code lim q ca (fuel + 1) s = .ok s := by
  simp [run, h]

/-- `run` with fuel, in a state that has a frame: poll, then a quantum. -/
theorem run_succ (code : Code) (lim : Limits) (q : Nat) (ca : Option Nat) (fuel : Nat) (s : VMState)
    (top : Frame) (rest : List Frame) (hs : s.calls = top :: rest) :
    run code lim q ca (fuel + 1) s =
      if cancelled ca (pollState s) = true then .term (pollState s)
      else if (pollState s).stack.length > lim.stack then
        match (pollState s).calls with
        | _ :: below :: _ =>
          .fatal "StackOverFlow" s!"Runtime stack limit of {lim.stack} was exceeded by {(pollState s).stack.length - lim.stack}" (spanAt code below) (pollState s)
        | _ => .fatal "StackOverFlow" s!"Runtime stack limit of {lim.stack} was exceeded by {(pollState s).stack.length - lim.stack}" (spanAt code top) (pollState s)
      else if (pollState s).calls.length > lim.callStack then
        .fatal "StackOverFlow" s!"Runtime callstack limit of {lim.callStack} was exceeded by {(pollState s).calls.length - lim.callStack}" (spanAt code top) (pollState s)
      else
        match runQuantum code lim q (pollState s) with
        | .inl s' => run code lim q ca fuel s'
        | .inr o => o := by
  conv => lhs; rw [run]
  split
  · rename_i h; rw [hs] at h; cases h
  · rename_i top' tail heq
    have : top' = top := by rw [hs] at heq; cases heq; rfl
    subst this
    rfl

theorem run_cancelled (code : Code) (lim : Limits) (q : Nat) (ca : Option Nat) (fuel : Nat) (s : VMState)
    (h : s.calls ≠ []) (hc : cancelled ca (pollState s) = true) :
    run code lim q ca (fuel + 1) s = .term (pollState s) := by
  cases hs : s.calls with
  | nil => exact absurd hs h
  | cons top rest => rw [run_succ _ _ _ _ _ _ top rest hs, if_pos hc]

theorem run_pass (code : Code) (lim : Limits) (q : Nat) (ca : Option Nat) (fuel : Nat) (s : VMState)
    (h : PollPass lim ca s) :
    run code lim q ca (fuel + 1) s =
      match runQuantum code lim q (pollState s) with
      | .inl s' => run code lim q ca fuel s'
      | .inr o => o := by
  obtain ⟨h1, h2, h3, h4⟩ := h
  cases hs : s.calls with
  | nil => exact absurd hs h1
  | cons top rest =>
    rw [run_succ _ _ _ _ _ _ top rest hs, if_neg (by simp [h2]), if_neg (by simp; omega), if_neg (by simp; omega)]

/-- Exceeding the operand-stack or call-stack limit at a poll is the fatal interrupt
`StackOverFlow`, in the polled state. -/
theorem run_exceeds (code : Code) (lim : Limits) (q : Nat) (ca : Option Nat) (s : VMState)
    (h : PollExceeds lim ca s) :
    ∃ msg sp, ∀ fuel, run code lim q ca (fuel + 1) s = .fatal "StackOverFlow" msg sp (pollState s) := by
  obtain ⟨h1, h2, h3⟩ := h
  cases hs : s.calls with
  | nil => exact absurd hs h1
  | cons top rest =>
    by_cases hst : lim.stack < s.stack.length
    · cases rest with
      | nil =>
        refine ⟨s!"Runtime stack limit of {lim.stack} was exceeded by {(pollState s).stack.length - lim.stack}", spanAt code top, fun fuel => ?_⟩
        rw [run_succ _ _ _ _ _ _ top [] hs, if_neg (by simp [h2]), if_pos (by simpa using hst)]
        simp only [pollState_calls, hs]
      | cons b r =>
        refine ⟨s!"Runtime stack limit of {lim.stack} was exceeded by {(pollState s).stack.length - lim.stack}", spanAt code b, fun fuel => ?_⟩
        rw [run_succ _ _ _ _ _ _ top (b :: r) hs, if_neg (by simp [h2]), if_pos (by simpa using hst)]
        simp only [pollState_calls, hs]
    · have hcs : lim.callStack < s.calls.length := by
        rcases h3 with h3 | h3
        · exact absurd h3 hst
        · exact h3
      refine ⟨s!"Runtime callstack limit of {lim.callStack} was exceeded by {(pollState s).calls.length - lim.callStack}", spanAt code top, fun fuel => ?_⟩
      rw [run_succ _ _ _ _ _ _ top rest hs, if_neg (by simp [h2]), if_neg (by simpa using hst),
        if_pos (by simpa using hcs)]

theorem poll_trichotomy (lim : Limits) (ca : Option Nat) (s : VMState) (h : s.calls ≠ []) :
    cancelled ca (pollState s) = true ∨ PollExceeds lim ca s ∨ PollPass lim ca s := by
  cases hc : cancelled ca (pollState s) with
  | true => left; rfl
  | false =>
    right
    by_cases h1 : lim.stack < s.stack.length
    · left; exact ⟨h, hc, Or.inl h1⟩
    · by_cases h2 : lim.callStack < s.calls.length
      · left; exact ⟨h, hc, Or.inr h2⟩
      · right; exact ⟨h, hc, by omega, by omega⟩

/-- More fuel does not change an outcome that is not `outOfFuel`. -/
theorem run_fuel_mono (code : Code) (lim : Limits) (q : Nat) (ca : Option Nat) :
    ∀ (fuel k : Nat) (s : VMState) (o : VM.Outcome), run code lim q ca fuel s = o →
      (∀ s', o ≠ .outOfFuel s') → run code lim q ca (fuel + k) s = o
  | 0, k, s, o, h, hne => by
    rw [run_zero] at h; exact absurd h.symm (hne s)
  | fuel + 1, k, s, o, h, hne => by
    have e : fuel + 1 + k = (fuel + k) + 1 := by omega
    rw [e]
    by_cases hn : s.calls = []
    · rw [run_nil _ _ _ _ _ _ hn] at h ⊢; exact h
    · rcases poll_trichotomy lim ca s hn with hc | hx | hp
      · rw [run_cancelled _ _ _ _ _ _ hn hc] at h ⊢; exact h
      · obtain ⟨msg, sp, e1⟩ := run_exceeds code lim q ca s hx
        rw [e1] at h ⊢; exact h
      · rw [run_pass _ _ _ _ _ _ hp] at h ⊢
        cases hq : runQuantum code lim q (pollState s) with
        | inl s' =>
          simp only [hq] at h ⊢
          exact run_fuel_mono code lim q ca fuel k s' o h hne
        | inr o' => simp only [hq] at h ⊢; exact h

/-! ## Reachable states -/

/-- The states in which `run`, started in `s₀`, performs a poll. -/
inductive PollReach (code : Code) (lim : Limits) (q : Nat) (ca : Option Nat) (s₀ : VMState) : VMState → Prop
  | start : PollReach code lim q ca s₀ s₀
  | next {p s' : VMState} : PollReach code lim q ca s₀ p → PollPass lim ca p →
      runQuantum code lim q (pollState p) = .inl s' → PollReach code lim q ca s₀ s'

/-- The states in which `run`, started in `s₀`, performs a poll or executes an instruction:
the poll states, and the states after `k ≤ q` instructions of the quantum that follows a poll. -/
def Reach (code : Code) (lim : Limits) (q : Nat) (ca : Option Nat) (s₀ s : VMState) : Prop :=
  ∃ p, PollReach code lim q ca s₀ p ∧
    (s = p ∨ (PollPass lim ca p ∧ ∃ k, k ≤ q ∧ runQuantum code lim k (pollState p) = .inl s))

/-- `PollReach` describes `run`: from a poll state the run continues exactly as `run` does from
that state, with the fuel that is left. -/
theorem run_of_pollReach {code : Code} {lim : Limits} {q : Nat} {ca : Option Nat} {s₀ p : VMState}
    (h : PollReach code lim q ca s₀ p) :
    ∃ k, ∀ fuel, run code lim q ca (fuel + k) s₀ = run code lim q ca fuel p := by
  induction h with
  | start => exact ⟨0, fun _ => rfl⟩
  | next hp hpass hq ih =>
    obtain ⟨k, hk⟩ := ih
    refine ⟨k + 1, fun fuel => ?_⟩
    have e : fuel + (k + 1) = (fuel + 1) + k := by omega
    rw [e, hk, run_pass _ _ _ _ _ _ hpass, hq]

/-- Every poll state of a run is within `quantum` entries of the limit (or of the initial size). -/
theorem pollReach_bound {code : Code} {lim : Limits} {q : Nat} {ca : Option Nat} {s₀ p : VMState}
    (h : PollReach code lim q ca s₀ p) :
    p.stack.length ≤ max s₀.stack.length (lim.stack + q)
      ∧ p.calls.length ≤ max s₀.calls.length (lim.callStack + q)
      ∧ (MemOK lim s₀ → MemOK lim p) := by
  induction h with
  | start => exact ⟨by omega, by omega, fun h => h⟩
  | next hp hpass hq ih =>
    obtain ⟨_, _, h3, h4⟩ := hpass
    obtain ⟨g1, g2, g3⟩ := runQuantum_bound code lim q _ _ hq
    simp only [pollState_stack, pollState_calls] at g1 g2
    exact ⟨by omega, by omega, fun hok => g3 (MemOK_congr rfl rfl rfl (ih.2.2 hok))⟩

theorem reach_bound {code : Code} {lim : Limits} {q : Nat} {ca : Option Nat} {s₀ s : VMState}
    (h : Reach code lim q ca s₀ s) :
    s.stack.length ≤ max s₀.stack.length (lim.stack + q)
      ∧ s.calls.length ≤ max s₀.calls.length (lim.callStack + q)
      ∧ (MemOK lim s₀ → MemOK lim s) := by
  obtain ⟨p, hp, rfl | ⟨hpass, k, hk, hq⟩⟩ := h
  · exact pollReach_bound hp
  · obtain ⟨_, _, h3, h4⟩ := hpass
    obtain ⟨g1, g2, g3⟩ := runQuantum_bound code lim k _ _ hq
    simp only [pollState_stack, pollState_calls] at g1 g2
    exact ⟨by omega, by omega, fun hok => g3 (MemOK_congr rfl rfl rfl ((pollReach_bound hp).2.2 hok))⟩

/-- Where a fatal outcome of `run` comes from: a poll that found a limit exceeded, or the
quantum of instructions after a poll that passed. -/
theorem run_fatal_origin (code : Code) (lim : Limits) (q : Nat) (ca : Option Nat) :
    ∀ (fuel : Nat) (s₀ : VMState) (k msg : String) (sp : Span) (s : VMState),
      run code lim q ca fuel s₀ = .fatal k msg sp s →
      ∃ p, PollReach code lim q ca s₀ p ∧
        ((PollExceeds lim ca p ∧ k = "StackOverFlow" ∧ s = pollState p)
          ∨ (PollPass lim ca p ∧ runQuantum code lim q (pollState p) = .inr (.fatal k msg sp s)))
  | 0, s₀, k, msg, sp, s, h => by rw [run_zero] at h; cases h
  | fuel + 1, s₀, k, msg, sp, s, h => by
    by_cases hn : s₀.calls = []
    · rw [run_nil _ _ _ _ _ _ hn] at h; cases h
    · rcases poll_trichotomy lim ca s₀ hn with hc | hx | hp
      · rw [run_cancelled _ _ _ _ _ _ hn hc] at h; cases h
      · obtain ⟨msg', sp', e⟩ := run_exceeds code lim q ca s₀ hx
        rw [e] at h
        simp only [VM.Outcome.fatal.injEq] at h
        obtain ⟨rfl, _, _, rfl⟩ := h
        exact ⟨s₀, .start, Or.inl ⟨hx, rfl, rfl⟩⟩
      · rw [run_pass _ _ _ _ _ _ hp] at h
        cases hq : runQuantum code lim q (pollState s₀) with
        | inl s' =>
          simp only [hq] at h
          obtain ⟨p, hpr, hcase⟩ := run_fatal_origin code lim q ca fuel s' k msg sp s h
          refine ⟨p, ?_, hcase⟩
          -- prepend the first poll
          clear hcase h
          induction hpr with
          | start => exact .next .start hp hq
          | next _ hpass' hq' ih => exact .next ih hpass' hq'
        | inr o =>
          simp only [hq] at h
          subst h
          exact ⟨s₀, .start, Or.inr ⟨hp, hq⟩⟩

/-! ## Number of memory cells -/

theorem length_le_filter_ne_succ (n : Int) : ∀ (l : List Int), l.Nodup → l.length ≤ (l.filter (· != n)).length + 1
  | [], _ => by simp
  | x :: xs, h => by
    rw [List.nodup_cons] at h
    by_cases hx : x = n
    · subst hx
      have : xs.filter (· != x) = xs := by
        rw [List.filter_eq_self]
        intro a ha
        have : a ≠ x := fun e => h.1 (e ▸ ha)
        simpa using this
      simp [this]
    · have ih := length_le_filter_ne_succ n xs h.2
      have : (x != n) = true := by simpa using hx
      simp only [List.filter_cons, this, if_true, List.length_cons]
      omega

theorem nodup_length_le : ∀ (n : Nat) (l : List Int), l.Nodup → (∀ x ∈ l, 0 ≤ x ∧ x < (n : Int)) → l.length ≤ n
  | 0, l, _, hb => by
    cases l with
    | nil => simp
    | cons x xs => have := hb x (by simp); omega
  | n + 1, l, hn, hb => by
    have h1 := length_le_filter_ne_succ (n : Int) l hn
    have h2 := nodup_length_le n (l.filter (· != (n : Int))) (hn.sublist List.filter_sublist) (by
      intro x hx
      simp only [List.mem_filter, bne_iff_ne, ne_eq] at hx
      have := hb x hx.1
      omega)
    omega

/-- Under `MemOK` the frame memory holds at most `lim.memory` cells. -/
theorem MemOK.length_le {lim : Limits} {s : VMState} (h : MemOK lim s) : s.mem.length ≤ lim.memory := by
  obtain ⟨_, hk, hn, _⟩ := h
  have := nodup_length_le lim.memory (s.mem.map Prod.fst) hn (by
    intro x hx
    simp only [List.mem_map] at hx
    obtain ⟨kv, hkv, rfl⟩ := hx
    exact hk kv hkv)
  simpa using this

/-- An `addMp` that would take the memory pointer to the limit or beyond ends the quantum with
the fatal interrupt `OutOfMemoryError`. -/
theorem runQuantum_oom (code : Code) (lim : Limits) (s : VMState) (f : Frame) (rest : List Frame)
    (c : FnCode) (n : Int) (sp : Span) (hc : s.calls = f :: rest) (hf : findCode code f.fn = some c)
    (hi : c[f.ip]? = some (.addMp n, sp)) (h : (lim.memory : Int) ≤ s.mp + n) :
    ∃ msg s', s'.mp = s.mp + n ∧ s'.stack = s.stack ∧ s'.calls = s.calls ∧
      ∀ k, runQuantum code lim (k + 1) s = .inr (.fatal "OutOfMemoryError" msg sp s') := by
  have hne : c ≠ [] := by intro e; rw [e] at hi; simp at hi
  rcases step_addMp code lim { s with steps := s.steps + 1 } n sp with ⟨h1, _⟩ | ⟨_, msg, h2⟩
  · simp only at h1; omega
  · refine ⟨msg, { s with steps := s.steps + 1, mp := s.mp + n }, rfl, rfl, rfl, fun k => ?_⟩
    rw [runQuantum_succ]
    have : iter code lim s = .done (.fatal "OutOfMemoryError" msg sp { s with steps := s.steps + 1, mp := s.mp + n }) := by
      cases c with
      | nil => exact absurd rfl hne
      | cons x xs =>
        simp only [iter, hc, hf, hi, List.isEmpty_cons, Bool.false_eq_true, if_false]
        rw [hc] at h2
        rw [h2]
    rw [this]

end HmsProofs.Lemmas.VMRun
