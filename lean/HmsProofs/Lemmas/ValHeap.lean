import Hms.Value.Heap
/-! Lemmas for C13: `Clone()` copies, and mutations through one root never reach cells that are
separated from it. -/
namespace HmsProofs.Lemmas.ValHeap
open Hms.Value Hms.Value.Heap

/-- `a` lies outside the region `[lo, hi)` -/
def Out (lo hi a : Nat) : Prop := a < lo ∨ hi ≤ a

/-- The region `[lo, hi)` of the heap is closed under references, and no cell outside it refers
into it; all references are in bounds. -/
structure Sep (lo hi : Nat) (h : Heap) : Prop where
  hi_le : hi ≤ h.length
  inside : ∀ a node, h[a]? = some node → lo ≤ a → a < hi → ∀ r ∈ node.refs, lo ≤ r ∧ r < hi
  outside : ∀ a node, h[a]? = some node → Out lo hi a → ∀ r ∈ node.refs, Out lo hi r ∧ r < h.length

/-- the cells of the region have the same content in both heaps -/
def Same (lo hi : Nat) (h h' : Heap) : Prop := ∀ a, lo ≤ a → a < hi → h'[a]? = h[a]?

theorem Same.refl (lo hi : Nat) (h : Heap) : Same lo hi h h := fun _ _ _ => rfl

theorem Same.trans {lo hi : Nat} {h1 h2 h3 : Heap} (a : Same lo hi h1 h2) (b : Same lo hi h2 h3) :
    Same lo hi h1 h3 := fun x h1' h2' => (b x h1' h2').trans (a x h1' h2')

theorem mapM_congr {α β} {f g : α → Option β} : ∀ (l : List α), (∀ x ∈ l, f x = g x) → l.mapM f = l.mapM g
  | [], _ => rfl
  | x :: xs, h => by
    simp only [List.mapM_cons]
    rw [h x (by simp), mapM_congr xs (fun y hy => h y (by simp [hy]))]

/-- Reading from inside a closed region only looks at the region. -/
theorem read_same {lo hi : Nat} {h h' : Heap}
    (hin : ∀ a node, h[a]? = some node → lo ≤ a → a < hi → ∀ r ∈ node.refs, lo ≤ r ∧ r < hi)
    (hs : Same lo hi h h') : ∀ (fuel a : Nat), lo ≤ a → a < hi → Heap.read fuel h' a = Heap.read fuel h a
  | 0, _, _, _ => rfl
  | fuel + 1, a, h1, h2 => by
    have ih := read_same hin hs fuel
    simp only [Heap.read, hs a h1 h2]
    cases hn : h[a]? with
    | none => rfl
    | some node =>
      have hr := hin a node hn h1 h2
      cases node with
      | leaf v => rfl
      | some c =>
        have := hr c (by simp [Node.refs])
        simp [ih c this.1 this.2]
      | list cells =>
        have : cells.mapM (Heap.read fuel h') = cells.mapM (Heap.read fuel h) :=
          mapM_congr cells (fun c hc => ih c (hr c (by simpa [Node.refs] using hc)).1 (hr c (by simpa [Node.refs] using hc)).2)
        simp [this]
      | obj fields =>
        have : fields.mapM (fun kc => (Heap.read fuel h' kc.2).map fun v => (kc.1, v)) =
            fields.mapM (fun kc => (Heap.read fuel h kc.2).map fun v => (kc.1, v)) :=
          mapM_congr fields (fun kc hkc => by
            have hm : kc.2 ∈ (Node.obj fields).refs := by simp [Node.refs]; exact ⟨kc.1, hkc⟩
            rw [ih kc.2 (hr kc.2 hm).1 (hr kc.2 hm).2])
        simp [this]
      | anyobj fields =>
        have : fields.mapM (fun kc => (Heap.read fuel h' kc.2).map fun v => (kc.1, v)) =
            fields.mapM (fun kc => (Heap.read fuel h kc.2).map fun v => (kc.1, v)) :=
          mapM_congr fields (fun kc hkc => by
            have hm : kc.2 ∈ (Node.anyobj fields).refs := by simp [Node.refs]; exact ⟨kc.1, hkc⟩
            rw [ih kc.2 (hr kc.2 hm).1 (hr kc.2 hm).2])
        simp [this]

/-! ### Allocation only appends cells that refer to appended cells -/

/-- `h'` extends `h` by cells that only refer to the extension -/
def Ext (h h' : Heap) : Prop :=
  ∃ ext : Heap, h' = h ++ ext ∧ ∀ (i : Nat) (node : Node), ext[i]? = some node → ∀ r ∈ node.refs, h.length ≤ r ∧ r < h'.length

theorem Ext.refl (h : Heap) : Ext h h := ⟨[], by simp, by simp⟩

theorem Ext.length_le {h h' : Heap} (e : Ext h h') : h.length ≤ h'.length := by
  obtain ⟨ext, rfl, _⟩ := e; simp

theorem Ext.trans {h h1 h2 : Heap} (a : Ext h h1) (b : Ext h1 h2) : Ext h h2 := by
  obtain ⟨e1, rfl, p1⟩ := a
  obtain ⟨e2, rfl, p2⟩ := b
  refine ⟨e1 ++ e2, by simp, ?_⟩
  intro i node hi r hr
  by_cases hlt : i < e1.length
  · rw [List.getElem?_append_left hlt] at hi
    have := p1 i node hi r hr
    simp at this ⊢; omega
  · rw [List.getElem?_append_right (by omega)] at hi
    have := p2 _ node hi r hr
    simp at this ⊢; omega

theorem Ext.snoc {h h1 : Heap} (a : Ext h h1) (node : Node)
    (hn : ∀ r ∈ node.refs, h.length ≤ r ∧ r < h1.length) : Ext h (h1 ++ [node]) := by
  obtain ⟨e1, rfl, p1⟩ := a
  refine ⟨e1 ++ [node], by simp, ?_⟩
  intro i n hi r hr
  by_cases hlt : i < e1.length
  · rw [List.getElem?_append_left hlt] at hi
    have := p1 i n hi r hr
    simp at this ⊢; omega
  · rw [List.getElem?_append_right (by omega)] at hi
    have hz : i - e1.length = 0 := by
      cases hk : i - e1.length with
      | zero => rfl
      | succ k => rw [hk] at hi; simp at hi
    rw [hz] at hi; simp at hi; subst hi
    have := hn r hr
    simp at this ⊢; omega

theorem Ext.old {h h' : Heap} (e : Ext h h') (a : Nat) (ha : a < h.length) : h'[a]? = h[a]? := by
  obtain ⟨ext, rfl, _⟩ := e
  exact List.getElem?_append_left ha

mutual
theorem alloc_spec : ∀ (v : Val) (h : Heap),
    Ext h (alloc v h).1 ∧ h.length ≤ (alloc v h).2 ∧ (alloc v h).2 < (alloc v h).1.length
  | .list xs, h => by
    obtain ⟨e, hc⟩ := allocVals_spec xs h
    simp only [alloc]
    exact ⟨e.snoc _ (by simpa [Node.refs] using hc), e.length_le, by simp⟩
  | .obj fs, h => by
    obtain ⟨e, hc⟩ := allocFields_spec fs h
    simp only [alloc]
    exact ⟨e.snoc _ (by intro r hr; simp [Node.refs] at hr; obtain ⟨k, hk⟩ := hr; exact hc (k, r) hk), e.length_le, by simp⟩
  | .anyobj fs, h => by
    obtain ⟨e, hc⟩ := allocFields_spec fs h
    simp only [alloc]
    exact ⟨e.snoc _ (by intro r hr; simp [Node.refs] at hr; obtain ⟨k, hk⟩ := hr; exact hc (k, r) hk), e.length_le, by simp⟩
  | .some v, h => by
    obtain ⟨e, h1, h2⟩ := alloc_spec v h
    simp only [alloc]
    exact ⟨e.snoc _ (by intro r hr; simp [Node.refs] at hr; subst hr; exact ⟨h1, h2⟩), e.length_le, by simp⟩
  | .null, h | .int _, h | .flt _, h | .bool _, h | .str _, h | .none, h | .range .., h | .fn, h => by
    simp only [alloc]
    exact ⟨(Ext.refl h).snoc _ (by simp [Node.refs]), Nat.le_refl _, by simp⟩
theorem allocVals_spec : ∀ (xs : Vals) (h : Heap),
    Ext h (allocVals xs h).1 ∧ ∀ c ∈ (allocVals xs h).2, h.length ≤ c ∧ c < (allocVals xs h).1.length
  | .nil, h => by simp [allocVals, Ext.refl]
  | .cons v vs, h => by
    obtain ⟨e1, a1, a2⟩ := alloc_spec v h
    obtain ⟨e2, hc⟩ := allocVals_spec vs (alloc v h).1
    simp only [allocVals]
    refine ⟨e1.trans e2, ?_⟩
    intro c hc'
    simp only [List.mem_cons] at hc'
    rcases hc' with rfl | hc'
    · exact ⟨a1, Nat.lt_of_lt_of_le a2 e2.length_le⟩
    · have := hc c hc'
      exact ⟨Nat.le_trans e1.length_le this.1, this.2⟩
theorem allocFields_spec : ∀ (fs : Fields) (h : Heap),
    Ext h (allocFields fs h).1 ∧ ∀ kc ∈ (allocFields fs h).2, h.length ≤ kc.2 ∧ kc.2 < (allocFields fs h).1.length
  | .nil, h => by simp [allocFields, Ext.refl]
  | .cons k v fs, h => by
    obtain ⟨e1, a1, a2⟩ := alloc_spec v h
    obtain ⟨e2, hc⟩ := allocFields_spec fs (alloc v h).1
    simp only [allocFields]
    refine ⟨e1.trans e2, ?_⟩
    intro kc hc'
    simp only [List.mem_cons] at hc'
    rcases hc' with rfl | hc'
    · exact ⟨a1, Nat.lt_of_lt_of_le a2 e2.length_le⟩
    · have := hc kc hc'
      exact ⟨Nat.le_trans e1.length_le this.1, this.2⟩
end

/-! ### Separation is preserved by allocation, by writing outside the region, and by walking -/

theorem Sep.ext {lo hi : Nat} {h h' : Heap} (s : Sep lo hi h) (e : Ext h h') : Sep lo hi h' ∧ Same lo hi h h' := by
  have hle := e.length_le
  obtain ⟨ext, rfl, p⟩ := e
  have hsame : Same lo hi h (h ++ ext) := fun a _ h2 =>
    List.getElem?_append_left (Nat.lt_of_lt_of_le h2 s.hi_le)
  refine ⟨⟨Nat.le_trans s.hi_le hle, ?_, ?_⟩, hsame⟩
  · intro a node hn h1 h2 r hr
    rw [hsame a h1 h2] at hn
    exact s.inside a node hn h1 h2 r hr
  · intro a node hn ho r hr
    by_cases hlt : a < h.length
    · rw [List.getElem?_append_left hlt] at hn
      have := s.outside a node hn ho r hr
      exact ⟨this.1, Nat.lt_of_lt_of_le this.2 hle⟩
    · rw [List.getElem?_append_right (by omega)] at hn
      have := p _ node hn r hr
      exact ⟨Or.inr (Nat.le_trans s.hi_le this.1), this.2⟩

theorem Sep.set {lo hi : Nat} {h : Heap} (s : Sep lo hi h) (c : Nat) (node' : Node) (hc : Out lo hi c)
    (hr : ∀ r ∈ node'.refs, Out lo hi r ∧ r < h.length) :
    Sep lo hi (h.set c node') ∧ Same lo hi h (h.set c node') := by
  have hne : ∀ a, lo ≤ a → a < hi → c ≠ a := by
    intro a h1 h2 e; subst e; rcases hc with hc | hc <;> omega
  have hsame : Same lo hi h (h.set c node') := fun a h1 h2 => by
    rw [List.getElem?_set_ne (hne a h1 h2)]
  refine ⟨⟨by simpa using s.hi_le, ?_, ?_⟩, hsame⟩
  · intro a node hn h1 h2 r hr'
    rw [hsame a h1 h2] at hn
    exact s.inside a node hn h1 h2 r hr'
  · intro a node hn ho r hr'
    by_cases e : c = a
    · subst e
      rw [List.getElem?_set_self' ] at hn
      cases hx : h[c]? with
      | none => simp [hx] at hn
      | some old =>
        simp [hx] at hn; subst hn
        have := hr r hr'
        exact ⟨this.1, by simpa using this.2⟩
    · rw [List.getElem?_set_ne e] at hn
      have := s.outside a node hn ho r hr'
      exact ⟨this.1, by simpa using this.2⟩

theorem lookupCell_mem {fields : List (String × Nat)} {k : String} {c : Nat} (h : lookupCell fields k = some c) :
    c ∈ fields.map (·.2) := by
  simp only [lookupCell, Option.map_eq_some_iff] at h
  obtain ⟨kc, hf, rfl⟩ := h
  exact List.mem_map.mpr ⟨kc, List.mem_of_find?_eq_some hf, rfl⟩

theorem walk_out {lo hi : Nat} {h : Heap} (s : Sep lo hi h) : ∀ (p : Path) (root c : Nat), Out lo hi root →
    walk h root p = some c → Out lo hi c ∧ c < h.length
  | [], root, c, ho, hw => by
    simp only [walk] at hw
    split at hw
    · cases hw; exact ⟨ho, by assumption⟩
    · cases hw
  | st :: rest, root, c, ho, hw => by
    simp only [walk] at hw
    split at hw
    · rename_i cells i hn
      cases hc : cells[i]? with
      | none => simp [hc] at hw
      | some c' =>
        simp [hc] at hw
        have := s.outside root _ hn ho c' (by simp [Node.refs]; exact List.mem_of_getElem? hc)
        exact walk_out s rest c' c this.1 hw
    · rename_i fields k hn
      cases hc : lookupCell fields k with
      | none => simp [hc] at hw
      | some c' =>
        simp [hc] at hw
        have := s.outside root _ hn ho c' (by simpa [Node.refs] using lookupCell_mem hc)
        exact walk_out s rest c' c this.1 hw
    · rename_i fields k hn
      cases hc : lookupCell fields k with
      | none => simp [hc] at hw
      | some c' =>
        simp [hc] at hw
        have := s.outside root _ hn ho c' (by simpa [Node.refs] using lookupCell_mem hc)
        exact walk_out s rest c' c this.1 hw
    · rename_i c' hn
      have := s.outside root _ hn ho c' (by simp [Node.refs])
      exact walk_out s rest c' c this.1 hw
    · cases hw

/-! ### One mutation through a root outside the region leaves the region alone -/

theorem sep_alloc_set {lo hi : Nat} {h : Heap} (s : Sep lo hi h) (v : Val) (c : Nat) (hc : Out lo hi c)
    (node' : Node) (hr : ∀ r ∈ node'.refs, Out lo hi r ∧ r < (alloc v h).1.length) :
    Sep lo hi ((alloc v h).1.set c node') ∧ Same lo hi h ((alloc v h).1.set c node') := by
  obtain ⟨s1, same1⟩ := s.ext (alloc_spec v h).1
  obtain ⟨s2, same2⟩ := s1.set c node' hc hr
  exact ⟨s2, same1.trans same2⟩

theorem old_refs {lo hi : Nat} {h : Heap} (s : Sep lo hi h) (v : Val) {c : Nat} {node : Node} (hc : Out lo hi c)
    (hn : h[c]? = some node) : ∀ r ∈ node.refs, Out lo hi r ∧ r < (alloc v h).1.length := by
  intro r hr
  have := s.outside c node hn hc r hr
  exact ⟨this.1, Nat.lt_of_lt_of_le this.2 (alloc_spec v h).1.length_le⟩

theorem fresh_root {lo hi : Nat} {h : Heap} (s : Sep lo hi h) (v : Val) :
    Out lo hi (alloc v h).2 ∧ (alloc v h).2 < (alloc v h).1.length := by
  obtain ⟨_, h1, h2⟩ := alloc_spec v h
  exact ⟨Or.inr (Nat.le_trans s.hi_le h1), h2⟩

theorem fresh_node_refs {lo hi : Nat} {h : Heap} (s : Sep lo hi h) (v : Val) :
    ∀ r ∈ ((alloc v h).1[(alloc v h).2]?.getD (.leaf .null)).refs, Out lo hi r ∧ r < (alloc v h).1.length := by
  obtain ⟨s1, _⟩ := s.ext (alloc_spec v h).1
  intro r hr
  cases hn : (alloc v h).1[(alloc v h).2]? with
  | none => simp [hn, Node.refs] at hr
  | some node =>
    simp only [hn, Option.getD_some] at hr
    exact s1.outside _ node hn (fresh_root s v).1 r hr

theorem upsert_refs (fields : List (String × Nat)) (k : String) (c r : Nat)
    (h : r ∈ (upsert fields k c).map (·.2)) : r = c ∨ r ∈ fields.map (·.2) := by
  unfold upsert at h
  split at h
  · simp only [List.map_map, List.mem_map, Function.comp] at h
    obtain ⟨kc, hm, he⟩ := h
    split at he
    · left; exact he.symm
    · right; exact List.mem_map.mpr ⟨kc, hm, he⟩
  · simp only [List.map_append, List.mem_append, List.map_cons, List.map_nil, List.mem_singleton] at h
    rcases h with h | h
    · right; exact h
    · left; exact h

theorem applyOp_sep {lo hi : Nat} {h : Heap} (s : Sep lo hi h) (root : Nat) (hroot : Out lo hi root) (op : Op) :
    Sep lo hi (applyOp h root op).1 ∧ Same lo hi h (applyOp h root op).1 := by
  unfold applyOp
  cases hw : walk h root op.path with
  | none => exact ⟨s, Same.refl _ _ _⟩
  | some c =>
    obtain ⟨hco, hclt⟩ := walk_out s op.path root c hroot hw
    simp only
    split
    · -- push
      rename_i v cells hk hn
      refine sep_alloc_set s v c hco _ ?_
      intro r hr
      simp only [Node.refs, List.mem_append, List.mem_singleton] at hr
      rcases hr with hr | rfl
      · exact old_refs s v hco hn r (by simpa [Node.refs] using hr)
      · exact fresh_root s v
    · -- pushFront
      rename_i v cells hk hn
      refine sep_alloc_set s v c hco _ ?_
      intro r hr
      simp only [Node.refs, List.mem_cons] at hr
      rcases hr with rfl | hr
      · exact fresh_root s v
      · exact old_refs s v hco hn r (by simpa [Node.refs] using hr)
    · -- pop
      rename_i cells hk hn
      refine s.set c _ hco ?_
      intro r hr
      exact s.outside c _ hn hco r (by simpa [Node.refs] using List.dropLast_subset _ (by simpa [Node.refs] using hr))
    · -- popFront
      rename_i cells hk hn
      refine s.set c _ hco ?_
      intro r hr
      exact s.outside c _ hn hco r (by simp only [Node.refs] at hr ⊢; exact List.mem_of_mem_drop hr)
    · -- insert
      rename_i i v cells hk hn
      split
      · exact ⟨s, Same.refl _ _ _⟩
      · refine sep_alloc_set s v c hco _ ?_
        intro r hr
        simp only [Node.refs, List.mem_append, List.mem_singleton] at hr
        rcases hr with (hr | rfl) | hr
        · exact old_refs s v hco hn r (by simpa [Node.refs] using List.mem_of_mem_take hr)
        · exact fresh_root s v
        · exact old_refs s v hco hn r (by simpa [Node.refs] using List.mem_of_mem_drop hr)
    · -- remove
      rename_i i cells hk hn
      split
      · exact ⟨s, Same.refl _ _ _⟩
      · refine s.set c _ hco ?_
        intro r hr
        simp only [Node.refs, List.mem_append] at hr
        rcases hr with hr | hr
        · exact s.outside c _ hn hco r (by simpa [Node.refs] using List.mem_of_mem_take hr)
        · exact s.outside c _ hn hco r (by simpa [Node.refs] using List.mem_of_mem_drop hr)
    · -- concat
      rename_i v cells hk hn
      split
      · rename_i more hm
        refine sep_alloc_set s v c hco _ ?_
        intro r hr
        simp only [Node.refs, List.mem_append] at hr
        rcases hr with hr | hr
        · exact old_refs s v hco hn r (by simpa [Node.refs] using hr)
        · have := fresh_node_refs s v r (by simpa [hm, Node.refs] using hr)
          exact this
      · exact ⟨s, Same.refl _ _ _⟩
    · -- setIndex
      rename_i i v cells hk hn
      split
      · exact ⟨s, Same.refl _ _ _⟩
      · split
        · exact ⟨s, Same.refl _ _ _⟩
        · rename_i dest hd
          have hdest := s.outside c _ hn hco dest (by simpa [Node.refs] using List.mem_of_getElem? hd)
          exact sep_alloc_set s v dest hdest.1 _ (fresh_node_refs s v)
    · -- setField on an object
      rename_i k v fields hk hn
      split
      · exact ⟨s, Same.refl _ _ _⟩
      · rename_i dest hd
        have hdest := s.outside c _ hn hco dest (by simpa [Node.refs] using lookupCell_mem hd)
        exact sep_alloc_set s v dest hdest.1 _ (fresh_node_refs s v)
    · -- setField on an any-object
      rename_i k v fields hk hn
      refine sep_alloc_set s v c hco _ ?_
      intro r hr
      rcases upsert_refs fields k _ r (by simpa [Node.refs] using hr) with rfl | hr
      · exact fresh_root s v
      · exact old_refs s v hco hn r (by simpa [Node.refs] using hr)
    · -- assign
      rename_i v node hk hn
      exact sep_alloc_set s v c hco _ (fresh_node_refs s v)
    · exact ⟨s, Same.refl _ _ _⟩

theorem applyOps_sep {lo hi : Nat} (root : Nat) (hroot : Out lo hi root) : ∀ (ops : List Op) (h : Heap), Sep lo hi h →
    Sep lo hi (applyOps h root ops) ∧ Same lo hi h (applyOps h root ops)
  | [], h, s => ⟨s, Same.refl _ _ _⟩
  | op :: ops, h, s => by
    obtain ⟨s1, same1⟩ := applyOp_sep s root hroot op
    obtain ⟨s2, same2⟩ := applyOps_sep root hroot ops _ s1
    exact ⟨s2, same1.trans same2⟩

/-- Whatever is done through a root outside the region, every cell of the region denotes what it did. -/
theorem applyOps_read {lo hi : Nat} {h : Heap} (s : Sep lo hi h) (root : Nat) (hroot : Out lo hi root) (ops : List Op)
    (fuel a : Nat) (h1 : lo ≤ a) (h2 : a < hi) : Heap.read fuel (applyOps h root ops) a = Heap.read fuel h a :=
  read_same s.inside (applyOps_sep root hroot ops h s).2 fuel a h1 h2

/-! ### `Clone()` -/

/-- every reference is in bounds -/
def Closed (h : Heap) : Prop := ∀ (a : Nat) (node : Node), h[a]? = some node → ∀ r ∈ node.refs, r < h.length

theorem Closed.ext {h h' : Heap} (c : Closed h) (e : Ext h h') : Closed h' := by
  have hle := e.length_le
  obtain ⟨ext, rfl, p⟩ := e
  intro a node hn r hr
  by_cases hlt : a < h.length
  · rw [List.getElem?_append_left hlt] at hn
    exact Nat.lt_of_lt_of_le (c a node hn r hr) hle
  · rw [List.getElem?_append_right (by omega)] at hn
    exact (p _ node hn r hr).2

/-- old cells denote the same in an extension of a closed heap -/
theorem read_ext {h h' : Heap} (c : Closed h) (e : Ext h h') (fuel a : Nat) (ha : a < h.length) :
    Heap.read fuel h' a = Heap.read fuel h a :=
  read_same (lo := 0) (hi := h.length) (fun a node hn _ _ r hr => ⟨Nat.zero_le _, c a node hn r hr⟩)
    (fun a _ h2 => e.old a h2) fuel a (Nat.zero_le _) ha

theorem read_append {h : Heap} (c : Closed h) (ext : Heap) (fuel a : Nat) (ha : a < h.length) :
    Heap.read fuel (h ++ ext) a = Heap.read fuel h a :=
  read_same (lo := 0) (hi := h.length) (fun a node hn _ _ r hr => ⟨Nat.zero_le _, c a node hn r hr⟩)
    (fun a _ h2 => List.getElem?_append_left h2) fuel a (Nat.zero_le _) ha

theorem read_some_lt {fuel : Nat} {h : Heap} {a : Nat} {v : Val} (hr : Heap.read fuel h a = some v) : a < h.length := by
  cases fuel with
  | zero => simp [Heap.read] at hr
  | succ n =>
    simp only [Heap.read] at hr
    cases hn : h[a]? with
    | none => simp [hn] at hr
    | some node => exact (List.getElem?_eq_some_iff.mp hn).1

theorem mapThread_spec {f : Heap → Nat → Option (Heap × Nat)}
    (hf : ∀ h c h1 c', f h c = some (h1, c') → Ext h h1 ∧ h.length ≤ c' ∧ c' < h1.length) :
    ∀ (cs : List Nat) (h h' : Heap) (cs' : List Nat), mapThread f h cs = some (h', cs') →
      Ext h h' ∧ ∀ c' ∈ cs', h.length ≤ c' ∧ c' < h'.length
  | [], h, h', cs', hm => by simp [mapThread] at hm; obtain ⟨rfl, rfl⟩ := hm; simp [Ext.refl]
  | c :: cs, h, h', cs', hm => by
    simp only [mapThread] at hm
    cases h1 : f h c with
    | none => simp [h1] at hm
    | some p1 =>
      obtain ⟨ha, c1⟩ := p1
      simp only [h1] at hm
      cases h2 : mapThread f ha cs with
      | none => simp [h2] at hm
      | some p2 =>
        obtain ⟨hb, cs2⟩ := p2
        simp [h2] at hm
        obtain ⟨rfl, rfl⟩ := hm
        obtain ⟨e1, a1, a2⟩ := hf h c ha c1 h1
        obtain ⟨e2, hc⟩ := mapThread_spec hf cs ha hb cs2 h2
        refine ⟨e1.trans e2, ?_⟩
        intro c' hc'
        simp only [List.mem_cons] at hc'
        rcases hc' with rfl | hc'
        · exact ⟨a1, Nat.lt_of_lt_of_le a2 e2.length_le⟩
        · exact ⟨Nat.le_trans e1.length_le (hc c' hc').1, (hc c' hc').2⟩

theorem mapThreadFields_spec {f : Heap → Nat → Option (Heap × Nat)}
    (hf : ∀ h c h1 c', f h c = some (h1, c') → Ext h h1 ∧ h.length ≤ c' ∧ c' < h1.length) :
    ∀ (cs : List (String × Nat)) (h h' : Heap) (cs' : List (String × Nat)), mapThreadFields f h cs = some (h', cs') →
      Ext h h' ∧ ∀ kc ∈ cs', h.length ≤ kc.2 ∧ kc.2 < h'.length
  | [], h, h', cs', hm => by simp [mapThreadFields] at hm; obtain ⟨rfl, rfl⟩ := hm; simp [Ext.refl]
  | (k, c) :: cs, h, h', cs', hm => by
    simp only [mapThreadFields] at hm
    cases h1 : f h c with
    | none => simp [h1] at hm
    | some p1 =>
      obtain ⟨ha, c1⟩ := p1
      simp only [h1] at hm
      cases h2 : mapThreadFields f ha cs with
      | none => simp [h2] at hm
      | some p2 =>
        obtain ⟨hb, cs2⟩ := p2
        simp [h2] at hm
        obtain ⟨rfl, rfl⟩ := hm
        obtain ⟨e1, a1, a2⟩ := hf h c ha c1 h1
        obtain ⟨e2, hc⟩ := mapThreadFields_spec hf cs ha hb cs2 h2
        refine ⟨e1.trans e2, ?_⟩
        intro kc hc'
        simp only [List.mem_cons] at hc'
        rcases hc' with rfl | hc'
        · exact ⟨a1, Nat.lt_of_lt_of_le a2 e2.length_le⟩
        · exact ⟨Nat.le_trans e1.length_le (hc kc hc').1, (hc kc hc').2⟩

/-- `Clone()` only appends cells, and they refer to appended cells only. -/
theorem clone_spec : ∀ (fuel : Nat) (h : Heap) (a : Nat) (h' : Heap) (r' : Nat), clone fuel h a = some (h', r') →
    Ext h h' ∧ h.length ≤ r' ∧ r' < h'.length
  | 0, h, a, h', r', hc => by simp [clone] at hc
  | fuel + 1, h, a, h', r', hc => by
    have ih := clone_spec fuel
    simp only [clone] at hc
    split at hc
    · cases hc
    · cases hc
      exact ⟨(Ext.refl h).snoc _ (by simp [Node.refs]), Nat.le_refl _, by simp⟩
    · rename_i c hn
      cases h1 : clone fuel h c with
      | none => simp [h1] at hc
      | some p1 =>
        obtain ⟨ha, c1⟩ := p1
        simp [h1] at hc
        obtain ⟨rfl, rfl⟩ := hc
        obtain ⟨e, a1, a2⟩ := ih h c ha c1 h1
        exact ⟨e.snoc _ (by intro r hr; simp [Node.refs] at hr; subst hr; exact ⟨a1, a2⟩), e.length_le, by simp⟩
    · rename_i cells hn
      cases h1 : mapThread (clone fuel) h cells with
      | none => simp [h1] at hc
      | some p1 =>
        obtain ⟨ha, cs1⟩ := p1
        simp [h1] at hc
        obtain ⟨rfl, rfl⟩ := hc
        obtain ⟨e, hcs⟩ := mapThread_spec ih cells h ha cs1 h1
        exact ⟨e.snoc _ (by simpa [Node.refs] using hcs), e.length_le, by simp⟩
    · rename_i fields hn
      cases h1 : mapThreadFields (clone fuel) h fields with
      | none => simp [h1] at hc
      | some p1 =>
        obtain ⟨ha, cs1⟩ := p1
        simp [h1] at hc
        obtain ⟨rfl, rfl⟩ := hc
        obtain ⟨e, hcs⟩ := mapThreadFields_spec ih fields h ha cs1 h1
        exact ⟨e.snoc _ (by intro r hr; simp [Node.refs] at hr; obtain ⟨k, hk⟩ := hr; exact hcs (k, r) hk), e.length_le, by simp⟩
    · rename_i fields hn
      cases h1 : mapThreadFields (clone fuel) h fields with
      | none => simp [h1] at hc
      | some p1 =>
        obtain ⟨ha, cs1⟩ := p1
        simp [h1] at hc
        obtain ⟨rfl, rfl⟩ := hc
        obtain ⟨e, hcs⟩ := mapThreadFields_spec ih fields h ha cs1 h1
        exact ⟨e.snoc _ (by intro r hr; simp [Node.refs] at hr; obtain ⟨k, hk⟩ := hr; exact hcs (k, r) hk), e.length_le, by simp⟩

/-! ### The clone denotes the value of the original -/

/-- what `clone fuel` must do on one cell (induction hypothesis of `clone_read`) -/
def CloneOK (fuel : Nat) : Prop :=
  ∀ (h : Heap) (c : Nat) (v : Val), Closed h → Heap.read fuel h c = some v →
    ∃ h1 c', clone fuel h c = some (h1, c') ∧ Heap.read fuel h1 c' = some v

theorem mapM_read_ext {h h' : Heap} (c : Closed h) (e : Ext h h') (fuel : Nat) : ∀ (cs : List Nat) (vs : List Val),
    cs.mapM (Heap.read fuel h) = some vs → cs.mapM (Heap.read fuel h') = some vs
  | [], vs, hm => by simpa using hm
  | x :: xs, vs, hm => by
    simp only [List.mapM_cons, Option.bind_eq_bind] at hm ⊢
    cases hx : Heap.read fuel h x with
    | none => simp [hx] at hm
    | some v =>
      simp only [hx, Option.bind_some] at hm
      cases hxs : xs.mapM (Heap.read fuel h) with
      | none => simp [hxs] at hm
      | some ws =>
        simp only [hxs, Option.bind_some] at hm
        rw [read_ext c e fuel x (read_some_lt hx), hx, mapM_read_ext c e fuel xs ws hxs]
        simpa using hm

theorem mapThread_read {fuel : Nat} (ih : CloneOK fuel) : ∀ (cs : List Nat) (h : Heap) (vs : List Val), Closed h →
    cs.mapM (Heap.read fuel h) = some vs →
    ∃ h' cs', mapThread (clone fuel) h cs = some (h', cs') ∧ cs'.mapM (Heap.read fuel h') = some vs
  | [], h, vs, _, hm => ⟨h, [], by simp [mapThread], by simpa using hm⟩
  | x :: xs, h, vs, hc, hm => by
    simp only [List.mapM_cons, Option.bind_eq_bind] at hm
    cases hx : Heap.read fuel h x with
    | none => simp [hx] at hm
    | some v =>
      simp only [hx, Option.bind_some] at hm
      cases hxs : xs.mapM (Heap.read fuel h) with
      | none => simp [hxs] at hm
      | some ws =>
        simp only [hxs, Option.bind_some] at hm
        obtain ⟨h1, c', hcl, hrd⟩ := ih h x v hc hx
        obtain ⟨e1, _, a2⟩ := clone_spec fuel h x h1 c' hcl
        have hc1 := hc.ext e1
        obtain ⟨h2, cs', hmt, hrs⟩ := mapThread_read ih xs h1 ws hc1 (mapM_read_ext hc e1 fuel xs ws hxs)
        obtain ⟨e2, _⟩ := mapThread_spec (clone_spec fuel) xs h1 h2 cs' hmt
        refine ⟨h2, c' :: cs', by simp [mapThread, hcl, hmt], ?_⟩
        simp only [List.mapM_cons, Option.bind_eq_bind]
        rw [read_ext hc1 e2 fuel c' a2, hrd, hrs]
        simpa using hm

theorem mapM_readf_ext {h h' : Heap} (c : Closed h) (e : Ext h h') (fuel : Nat) :
    ∀ (cs : List (String × Nat)) (vs : List (String × Val)),
    cs.mapM (fun kc => (Heap.read fuel h kc.2).map fun v => (kc.1, v)) = some vs →
    cs.mapM (fun kc => (Heap.read fuel h' kc.2).map fun v => (kc.1, v)) = some vs
  | [], vs, hm => by simpa using hm
  | x :: xs, vs, hm => by
    simp only [List.mapM_cons, Option.bind_eq_bind] at hm ⊢
    cases hx : Heap.read fuel h x.2 with
    | none => simp [hx] at hm
    | some v =>
      simp only [hx, Option.map_some, Option.bind_some] at hm
      cases hxs : xs.mapM (fun kc => (Heap.read fuel h kc.2).map fun v => (kc.1, v)) with
      | none => simp [hxs] at hm
      | some ws =>
        simp only [hxs, Option.bind_some] at hm
        rw [read_ext c e fuel x.2 (read_some_lt hx), hx, mapM_readf_ext c e fuel xs ws hxs]
        simpa using hm

theorem mapThreadFields_read {fuel : Nat} (ih : CloneOK fuel) : ∀ (cs : List (String × Nat)) (h : Heap)
    (vs : List (String × Val)), Closed h →
    cs.mapM (fun kc => (Heap.read fuel h kc.2).map fun v => (kc.1, v)) = some vs →
    ∃ h' cs', mapThreadFields (clone fuel) h cs = some (h', cs') ∧
      cs'.mapM (fun kc => (Heap.read fuel h' kc.2).map fun v => (kc.1, v)) = some vs
  | [], h, vs, _, hm => ⟨h, [], by simp [mapThreadFields], by simpa using hm⟩
  | (k, x) :: xs, h, vs, hc, hm => by
    simp only [List.mapM_cons, Option.bind_eq_bind] at hm
    cases hx : Heap.read fuel h x with
    | none => simp [hx] at hm
    | some v =>
      simp only [hx, Option.map_some, Option.bind_some] at hm
      cases hxs : xs.mapM (fun kc => (Heap.read fuel h kc.2).map fun v => (kc.1, v)) with
      | none => simp [hxs] at hm
      | some ws =>
        simp only [hxs, Option.bind_some] at hm
        obtain ⟨h1, c', hcl, hrd⟩ := ih h x v hc hx
        obtain ⟨e1, _, a2⟩ := clone_spec fuel h x h1 c' hcl
        have hc1 := hc.ext e1
        obtain ⟨h2, cs', hmt, hrs⟩ := mapThreadFields_read ih xs h1 ws hc1 (mapM_readf_ext hc e1 fuel xs ws hxs)
        obtain ⟨e2, _⟩ := mapThreadFields_spec (clone_spec fuel) xs h1 h2 cs' hmt
        refine ⟨h2, (k, c') :: cs', by simp [mapThreadFields, hcl, hmt], ?_⟩
        simp only [List.mapM_cons, Option.bind_eq_bind]
        rw [read_ext hc1 e2 fuel c' a2, hrd, hrs]
        simpa using hm

theorem clone_read : ∀ (fuel : Nat), CloneOK fuel
  | 0 => by intro h c v _ hr; simp [Heap.read] at hr
  | fuel + 1 => by
    have ih := clone_read fuel
    intro h a v hc hr
    simp only [Heap.read] at hr
    cases hn : h[a]? with
    | none => simp [hn] at hr
    | some node =>
      simp only [hn] at hr
      cases node with
      | leaf w =>
        simp at hr; subst hr
        exact ⟨h ++ [.leaf w], h.length, by simp [clone, hn], by simp [Heap.read]⟩
      | some c =>
        cases hx : Heap.read fuel h c with
        | none => simp [hx] at hr
        | some x =>
          simp [hx] at hr; subst hr
          obtain ⟨h1, c', hcl, hrd⟩ := ih h c x hc hx
          obtain ⟨e1, _, a2⟩ := clone_spec fuel h c h1 c' hcl
          have hc1 := hc.ext e1
          refine ⟨h1 ++ [.some c'], h1.length, by simp [clone, hn, hcl], ?_⟩
          simp only [Heap.read, List.getElem?_concat_length]
          rw [read_append hc1 _ fuel c' a2, hrd]; rfl
      | list cells =>
        cases hx : cells.mapM (Heap.read fuel h) with
        | none => simp [hx] at hr
        | some vs =>
          simp [hx] at hr; subst hr
          obtain ⟨h1, cs', hmt, hrs⟩ := mapThread_read ih cells h vs hc hx
          obtain ⟨e1, hcs⟩ := mapThread_spec (clone_spec fuel) cells h h1 cs' hmt
          have hc1 := hc.ext e1
          refine ⟨h1 ++ [.list cs'], h1.length, by simp [clone, hn, hmt], ?_⟩
          simp only [Heap.read, List.getElem?_concat_length]
          have : cs'.mapM (Heap.read fuel (h1 ++ [.list cs'])) = cs'.mapM (Heap.read fuel h1) :=
            mapM_congr cs' (fun c hc' => read_append hc1 _ fuel c (hcs c hc').2)
          rw [this, hrs]; rfl
      | obj fields =>
        cases hx : fields.mapM (fun kc => (Heap.read fuel h kc.2).map fun v => (kc.1, v)) with
        | none => simp [hx] at hr
        | some vs =>
          simp [hx] at hr; subst hr
          obtain ⟨h1, cs', hmt, hrs⟩ := mapThreadFields_read ih fields h vs hc hx
          obtain ⟨e1, hcs⟩ := mapThreadFields_spec (clone_spec fuel) fields h h1 cs' hmt
          have hc1 := hc.ext e1
          refine ⟨h1 ++ [.obj cs'], h1.length, by simp [clone, hn, hmt], ?_⟩
          simp only [Heap.read, List.getElem?_concat_length]
          have : cs'.mapM (fun kc => (Heap.read fuel (h1 ++ [.obj cs']) kc.2).map fun v => (kc.1, v)) =
              cs'.mapM (fun kc => (Heap.read fuel h1 kc.2).map fun v => (kc.1, v)) :=
            mapM_congr cs' (fun kc hc' => by rw [read_append hc1 _ fuel kc.2 (hcs kc hc').2])
          rw [this, hrs]; rfl
      | anyobj fields =>
        cases hx : fields.mapM (fun kc => (Heap.read fuel h kc.2).map fun v => (kc.1, v)) with
        | none => simp [hx] at hr
        | some vs =>
          simp [hx] at hr; subst hr
          obtain ⟨h1, cs', hmt, hrs⟩ := mapThreadFields_read ih fields h vs hc hx
          obtain ⟨e1, hcs⟩ := mapThreadFields_spec (clone_spec fuel) fields h h1 cs' hmt
          have hc1 := hc.ext e1
          refine ⟨h1 ++ [.anyobj cs'], h1.length, by simp [clone, hn, hmt], ?_⟩
          simp only [Heap.read, List.getElem?_concat_length]
          have : cs'.mapM (fun kc => (Heap.read fuel (h1 ++ [.anyobj cs']) kc.2).map fun v => (kc.1, v)) =
              cs'.mapM (fun kc => (Heap.read fuel h1 kc.2).map fun v => (kc.1, v)) :=
            mapM_congr cs' (fun kc hc' => by rw [read_append hc1 _ fuel kc.2 (hcs kc hc').2])
          rw [this, hrs]; rfl

/-! ### The two regions after a clone are separated from each other -/

theorem sep_old {h h' : Heap} (c : Closed h) (e : Ext h h') : Sep 0 h.length h' := by
  have hle := e.length_le
  have hold := e.old
  obtain ⟨ext, rfl, p⟩ := e
  refine ⟨hle, ?_, ?_⟩
  · intro a node hn _ h2 r hr
    rw [hold a h2] at hn
    exact ⟨Nat.zero_le _, c a node hn r hr⟩
  · intro a node hn ho r hr
    have ha : h.length ≤ a := by rcases ho with ho | ho <;> omega
    rw [List.getElem?_append_right ha] at hn
    have := p _ node hn r hr
    exact ⟨Or.inr this.1, this.2⟩

theorem sep_new {h h' : Heap} (c : Closed h) (e : Ext h h') : Sep h.length h'.length h' := by
  have hle := e.length_le
  have hold := e.old
  obtain ⟨ext, rfl, p⟩ := e
  refine ⟨Nat.le_refl _, ?_, ?_⟩
  · intro a node hn h1 _ r hr
    rw [List.getElem?_append_right h1] at hn
    exact p _ node hn r hr
  · intro a node hn ho r hr
    rcases ho with ho | ho
    · rw [hold a ho] at hn
      have := c a node hn r hr
      exact ⟨Or.inl this, Nat.lt_of_lt_of_le this hle⟩
    · have : (h ++ ext)[a]? = none := List.getElem?_eq_none ho
      rw [this] at hn; cases hn

end HmsProofs.Lemmas.ValHeap
