import HmsProofs.Lemmas.PrattComplete
set_option linter.unusedSimpArgs false
/-!
# Soundness phrased with a function: erase trailing commas, then compare with `flatten`
-/
namespace HmsProofs.Lemmas.Pratt
open Hms Hms.Pratt

/-- Erase every comma that is immediately followed by `)` or `]`. -/
def dropTrailingCommas : List TokKind → List TokKind
  | [] => []
  | k :: tl =>
    if k == .comma && startsWithCloser tl then dropTrailingCommas tl
    else k :: dropTrailingCommas tl

theorem dropTC_cons {k : TokKind} (h : (k == .comma) = false) (tl : List TokKind) :
    dropTrailingCommas (k :: tl) = k :: dropTrailingCommas tl := by
  simp [dropTrailingCommas, h]

theorem dropTC_of_not_has : ∀ ts : List TokKind, hasTrailingComma ts = false →
    dropTrailingCommas ts = ts
  | [], _ => rfl
  | k :: tl, h => by
    simp only [hasTrailingComma, Bool.or_eq_false_iff] at h
    simp [dropTrailingCommas, h.1, dropTC_of_not_has tl h.2]

theorem atom_ne_comma {k : TokKind} (h : isAtom k = true) : (k == .comma) = false := by
  revert h; cases k <;> decide
theorem prefix_ne_comma {k : TokKind} (h : isPrefix k = true) : (k == .comma) = false := by
  revert h; cases k <;> decide
theorem infix_ne_comma {k : TokKind} (h : isInfix k = true) : (k == .comma) = false := by
  revert h; cases k <;> decide
theorem assign_ne_comma {k : TokKind} (h : isAssign k = true) : (k == .comma) = false := by
  revert h; cases k <;> decide
theorem member_ne_comma {k : TokKind} (h : isMemberOp k = true) : (k == .comma) = false := by
  revert h; cases k <;> decide
theorem closer_ne_comma {k : TokKind} (h : isCloser k = true) : (k == .comma) = false := by
  revert h; cases k <;> decide
theorem start_not_closer {k : TokKind} (h : isStart k = true) : isCloser k = false := by
  revert h; cases k <;> decide

/-- A token sequence of a normal tree starts with a token that starts an expression. -/
theorem flat_start (prec : Prec) : ∀ {t : Tree} {c : List TokKind}, Flat t c →
    ∀ p, normal prec p t = true → ∃ k tl, c = k :: tl ∧ isStart k = true
  | _, _, .atom k, _, h => ⟨k, [], rfl, by simp [normal] at h; simp [isStart, h]⟩
  | _, _, .grp _, _, _ => ⟨.lParen, _, rfl, by decide⟩
  | _, _, .pre _, _, h => ⟨_, _, rfl, by simp [normal] at h; simp [isStart, h.1]⟩
  | _, _, .list _, _, _ => ⟨.lBracket, _, rfl, by decide⟩
  | _, _, .bin hl _, p, h => by
    simp only [normal, Bool.and_eq_true] at h
    obtain ⟨k, tl, rfl, hs⟩ := flat_start prec hl p h.1.1.2
    exact ⟨k, _, rfl, hs⟩
  | _, _, .asg hl _, p, h => by
    simp only [normal, Bool.and_eq_true] at h
    obtain ⟨k, tl, rfl, hs⟩ := flat_start prec hl p h.1.1.1.2
    exact ⟨k, _, rfl, hs⟩
  | _, _, .call hf _, p, h => by
    simp only [normal, Bool.and_eq_true] at h
    obtain ⟨k, tl, rfl, hs⟩ := flat_start prec hf p h.1.1.2
    exact ⟨k, _, rfl, hs⟩
  | _, _, .index hb _, p, h => by
    simp only [normal, Bool.and_eq_true] at h
    obtain ⟨k, tl, rfl, hs⟩ := flat_start prec hb p h.1.1.2
    exact ⟨k, _, rfl, hs⟩
  | _, _, .member hb, p, h => by
    simp only [normal, Bool.and_eq_true] at h
    obtain ⟨k, tl, rfl, hs⟩ := flat_start prec hb p h.1.2
    exact ⟨k, _, rfl, hs⟩
  | _, _, .cast hb, p, h => by
    simp only [normal, Bool.and_eq_true] at h
    obtain ⟨k, tl, rfl, hs⟩ := flat_start prec hb p h.1.2
    exact ⟨k, _, rfl, hs⟩
  | _, _, .range ha _, p, h => by
    simp only [normal, Bool.and_eq_true] at h
    obtain ⟨k, tl, rfl, hs⟩ := flat_start prec ha p h.1.1.2
    exact ⟨k, _, rfl, hs⟩

mutual
theorem flat_drop (prec : Prec) : ∀ {t : Tree} {c : List TokKind}, Flat t c →
    ∀ p, normal prec p t = true → ∀ rest,
      dropTrailingCommas (c ++ rest) = flatten t ++ dropTrailingCommas rest
  | _, _, .atom k, _, hn, rest => by
    simp only [normal] at hn
    simp [flatten, dropTC_cons (atom_ne_comma hn)]
  | _, _, .grp h, _, hn, rest => by
    simp only [normal] at hn
    have := flat_drop prec h 0 hn (.rParen :: rest)
    simp [flatten, dropTC_cons, this]
  | _, _, .pre h, _, hn, rest => by
    simp only [normal, Bool.and_eq_true] at hn
    have := flat_drop prec h _ hn.2 rest
    simp [flatten, dropTC_cons (prefix_ne_comma hn.1), this]
  | _, _, .bin hl hr, p, hn, rest => by
    simp only [normal, Bool.and_eq_true] at hn
    have h1 := flat_drop prec hl p hn.1.1.2
    have h2 := flat_drop prec hr _ hn.2 rest
    simp [flatten, dropTC_cons (infix_ne_comma hn.1.1.1.1), h1, h2]
  | _, _, .asg hl hr, p, hn, rest => by
    simp only [normal, Bool.and_eq_true] at hn
    have h1 := flat_drop prec hl p hn.1.1.1.2
    have h2 := flat_drop prec hr _ hn.2 rest
    simp [flatten, dropTC_cons (assign_ne_comma hn.1.1.1.1.1), h1, h2]
  | _, _, .call hf ha, p, hn, rest => by
    simp only [normal, Bool.and_eq_true] at hn
    have h1 := flat_drop prec hf p hn.1.1.2
    have h2 := flatArgs_drop prec ha hn.2 .rParen rest rfl
    simp [flatten, dropTC_cons, h1, h2]
  | _, _, .index hb hi, p, hn, rest => by
    simp only [normal, Bool.and_eq_true] at hn
    have h1 := flat_drop prec hb p hn.1.1.2
    have h2 := flat_drop prec hi 0 hn.2 (.rBracket :: rest)
    simp [flatten, dropTC_cons, h1, h2]
  | _, _, .member hb, p, hn, rest => by
    simp only [normal, Bool.and_eq_true, Bool.or_eq_true, beq_iff_eq] at hn
    have h1 := flat_drop prec hb p hn.1.2
    rcases hn.1.1.1.2 with rfl | rfl <;>
      simp [flatten, dropTC_cons (member_ne_comma hn.1.1.1.1), dropTC_cons, h1]
  | _, _, .cast hb, p, hn, rest => by
    simp only [normal, Bool.and_eq_true, beq_iff_eq] at hn
    have h1 := flat_drop prec hb p hn.1.2
    obtain ⟨⟨⟨rfl, _⟩, _⟩, _⟩ := hn
    simp [flatten, dropTC_cons, h1]
  | _, _, .range (incl := incl) ha hb, p, hn, rest => by
    simp only [normal, Bool.and_eq_true] at hn
    have h1 := flat_drop prec ha p hn.1.1.2
    have h2 := flat_drop prec hb 0 hn.2 rest
    cases incl <;> simp [flatten, dropTC_cons, h1, h2]
  | _, _, .list ha, _, hn, rest => by
    simp only [normal] at hn
    have h2 := flatArgs_drop prec ha hn .rBracket rest rfl
    simp [flatten, dropTC_cons, h2]
theorem flatArgs_drop (prec : Prec) : ∀ {xs : Args} {c : List TokKind}, FlatArgs xs c →
    normalArgs prec xs = true → ∀ close rest, isCloser close = true →
      dropTrailingCommas (c ++ close :: rest) = flattenArgs xs ++ close :: dropTrailingCommas rest
  | _, _, .nil, _, close, rest, hc => by
    simp [flattenArgs, dropTC_cons (closer_ne_comma hc)]
  | _, _, .last h, hn, close, rest, hc => by
    simp only [normalArgs, Bool.and_eq_true] at hn
    have := flat_drop prec h 0 hn.1 (close :: rest)
    simp [flattenArgs, this, dropTC_cons (closer_ne_comma hc)]
  | _, _, .cons (xs := xs) (cs := cs) h hs, hn, close, rest, hc => by
    simp only [normalArgs, Bool.and_eq_true] at hn
    have h1 := flat_drop prec h 0 hn.1
    have h2 := flatArgs_drop prec hs hn.2 close rest hc
    cases xs with
    | nil =>
      cases hs
      simp [flattenArgs, h1, dropTrailingCommas, startsWithCloser, hc, closer_ne_comma hc]
    | cons y ys =>
      simp only [normalArgs, Bool.and_eq_true] at hn
      have hst : ∃ k tl, cs = k :: tl ∧ isStart k = true := by
        cases hs with
        | last hy => exact flat_start prec hy 0 hn.2.1
        | cons hy _ =>
          obtain ⟨k, tl, rfl, hk⟩ := flat_start prec hy 0 hn.2.1
          exact ⟨k, _, rfl, hk⟩
      obtain ⟨k, tl, hk, hks⟩ := hst
      have hnc : startsWithCloser (k :: (tl ++ close :: rest)) = false := by
        simp [startsWithCloser, start_not_closer hks]
      rw [hk] at h2
      simp only [List.cons_append] at h2
      simp only [hk, List.append_assoc, List.cons_append, h1, flattenArgs]
      simp [dropTrailingCommas, hnc]
      simpa [dropTrailingCommas] using h2
end

end HmsProofs.Lemmas.Pratt
