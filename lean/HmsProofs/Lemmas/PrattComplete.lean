import HmsProofs.Lemmas.PrattSound
/-!
# Completeness of the expression-parser model

Continuation style: if the loop, entered with the finished tree `t` and the remaining input,
returns `r`, then `parseE` on `flatten t ++ rest` returns `r` too. "Returns" always means
"for all large enough fuel", so no separate fuel-monotonicity lemma is needed.
-/
namespace HmsProofs.Lemmas.Pratt
open Hms Hms.Pratt

def EOk (prec : Prec) (p : Nat) (ts : List TokKind) (r : Tree × List TokKind) : Prop :=
  ∃ n, ∀ m, n ≤ m → parseE prec m p ts = .ok r
def LOk (prec : Prec) (p : Nat) (lhs : Tree) (ts : List TokKind) (r : Tree × List TokKind) : Prop :=
  ∃ n, ∀ m, n ≤ m → loop prec m p lhs ts = .ok r
def AOk (prec : Prec) (close : TokKind) (ts : List TokKind) (r : Args × List TokKind) : Prop :=
  ∃ n, ∀ m, n ≤ m → parseArgs prec m close ts = .ok r
def PrimOk (prec : Prec) (k : TokKind) (rest : List TokKind) (lhs : Tree) (rest' : List TokKind) : Prop :=
  ∃ n, ∀ m, n ≤ m → Prim prec m k rest lhs rest'
def StepOk (prec : Prec) (lhs : Tree) (k : TokKind) (rest : List TokKind) (lhs' : Tree)
    (rest' : List TokKind) : Prop :=
  ∃ n, ∀ m, n ≤ m → Step prec m lhs k rest lhs' rest'

variable {prec : Prec}

theorem LOk.stop {p : Nat} {lhs : Tree} {ts : List TokKind} (h : headLbp prec ts ≤ p) :
    LOk prec p lhs ts (lhs, ts) :=
  ⟨1, fun m hm => by
    obtain ⟨m, rfl⟩ : ∃ m', m = m' + 1 := ⟨m - 1, by omega⟩
    exact loop_stop prec m p lhs ts h⟩

theorem EOk.of_prim {p : Nat} {k : TokKind} {rest rest' : List TokKind} {lhs : Tree}
    {r : Tree × List TokKind} (h1 : PrimOk prec k rest lhs rest') (h2 : LOk prec p lhs rest' r) :
    EOk prec p (k :: rest) r := by
  obtain ⟨n1, h1⟩ := h1
  obtain ⟨n2, h2⟩ := h2
  refine ⟨max n1 n2 + 1, fun m hm => ?_⟩
  obtain ⟨m, rfl⟩ : ∃ m', m = m' + 1 := ⟨m - 1, by omega⟩
  rw [parseE_replay (h1 m (by omega))]
  exact h2 m (by omega)

theorem LOk.of_step {p : Nat} {k : TokKind} {rest rest' : List TokKind} {lhs lhs' : Tree}
    {r : Tree × List TokKind} (hp : (prec k).1 > p) (h1 : StepOk prec lhs k rest lhs' rest')
    (h2 : LOk prec p lhs' rest' r) : LOk prec p lhs (k :: rest) r := by
  obtain ⟨n1, h1⟩ := h1
  obtain ⟨n2, h2⟩ := h2
  refine ⟨max n1 n2 + 1, fun m hm => ?_⟩
  obtain ⟨m, rfl⟩ : ∃ m', m = m' + 1 := ⟨m - 1, by omega⟩
  rw [loop_replay hp (h1 m (by omega))]
  exact h2 m (by omega)

theorem StepOk.range {lhs e : Tree} {X Y rest' : List TokKind} {incl : Bool}
    (hrs : rangeSplit X = (incl, Y)) (h : EOk prec 0 Y (e, rest')) :
    StepOk prec lhs .doubleDot X (.range lhs incl e) rest' := by
  obtain ⟨n, h⟩ := h
  refine ⟨n, fun m hm => ?_⟩
  have := Step.range (prec := prec) (n := m) (lhs := lhs) (rest := X) (e := e) (rest' := rest')
    (by rw [hrs]; exact h m hm)
  rwa [hrs] at this

/-! ## The first token of a normal tree -/

def isStart (k : TokKind) : Bool := isAtom k || k == .lParen || isPrefix k || k == .lBracket

theorem start_facts {k : TokKind} (h : isStart k = true) :
    k ≠ .rParen ∧ k ≠ .rBracket ∧ k ≠ .assign := by
  revert h; cases k <;> decide

theorem flatten_start (prec : Prec) : ∀ (t : Tree) (p : Nat), normal prec p t = true →
    ∃ k tl, flatten t = k :: tl ∧ isStart k = true
  | .atom k, _, h => ⟨k, [], rfl, by simp [normal] at h; simp [isStart, h]⟩
  | .grp e, _, _ => ⟨.lParen, flatten e ++ [.rParen], by simp [flatten], by decide⟩
  | .pre op e, _, h => ⟨op, flatten e, by simp [flatten], by simp [normal] at h; simp [isStart, h.1]⟩
  | .list xs, _, _ => ⟨.lBracket, flattenArgs xs ++ [.rBracket], by simp [flatten], by decide⟩
  | .bin l o r, p, h => by
    simp only [normal, Bool.and_eq_true] at h
    obtain ⟨k, tl, hk, hs⟩ := flatten_start prec l p h.1.1.2
    exact ⟨k, tl ++ [o] ++ flatten r, by simp [flatten, hk], hs⟩
  | .asg l o r, p, h => by
    simp only [normal, Bool.and_eq_true] at h
    obtain ⟨k, tl, hk, hs⟩ := flatten_start prec l p h.1.1.1.2
    exact ⟨k, tl ++ [o] ++ flatten r, by simp [flatten, hk], hs⟩
  | .call f args, p, h => by
    simp only [normal, Bool.and_eq_true] at h
    obtain ⟨k, tl, hk, hs⟩ := flatten_start prec f p h.1.1.2
    exact ⟨k, tl ++ [.lParen] ++ flattenArgs args ++ [.rParen], by simp [flatten, hk], hs⟩
  | .index b i, p, h => by
    simp only [normal, Bool.and_eq_true] at h
    obtain ⟨k, tl, hk, hs⟩ := flatten_start prec b p h.1.1.2
    exact ⟨k, tl ++ [.lBracket] ++ flatten i ++ [.rBracket], by simp [flatten, hk], hs⟩
  | .member b op nm, p, h => by
    simp only [normal, Bool.and_eq_true] at h
    obtain ⟨k, tl, hk, hs⟩ := flatten_start prec b p h.1.2
    exact ⟨k, tl ++ [op, nm], by simp [flatten, hk], hs⟩
  | .cast b ty, p, h => by
    simp only [normal, Bool.and_eq_true] at h
    obtain ⟨k, tl, hk, hs⟩ := flatten_start prec b p h.1.2
    exact ⟨k, tl ++ [.as, ty], by simp [flatten, hk], hs⟩
  | .range a incl b, p, h => by
    simp only [normal, Bool.and_eq_true] at h
    obtain ⟨k, tl, hk, hs⟩ := flatten_start prec a p h.1.1.2
    exact ⟨k, tl ++ (if incl then [.doubleDot, .assign] else [.doubleDot]) ++ flatten b,
      by simp [flatten, hk], hs⟩

theorem rangeSplit_start {prec : Prec} {b : Tree} {p : Nat} (h : normal prec p b = true)
    (rest : List TokKind) : rangeSplit (flatten b ++ rest) = (false, flatten b ++ rest) := by
  obtain ⟨k, tl, hk, hs⟩ := flatten_start prec b p h
  rw [hk]
  have := (start_facts hs).2.2
  unfold rangeSplit
  split
  · rename_i heq
    simp only [List.cons_append, List.cons.injEq] at heq
    exact absurd heq.1 this
  · rfl

/-! ## The main induction -/

mutual
theorem complete_T (hs : TableSane prec) : ∀ (t : Tree) (p : Nat) (rest : List TokKind)
    (res : Tree × List TokKind), normal prec p t = true →
    rightSpineOK prec (headLbp prec rest) t = true → LOk prec p t rest res →
    EOk prec p (flatten t ++ rest) res
  | .atom k, p, rest, res, hn, _, hL => by
    simp only [normal] at hn
    exact EOk.of_prim ⟨0, fun m _ => .atom hn⟩ hL
  | .grp e, p, rest, res, hn, _, hL => by
    simp only [normal] at hn
    have he := complete_T hs e 0 (.rParen :: rest) (e, .rParen :: rest) hn
      (by simp [headLbp, hs.1, rightSpineOK_zero]) (LOk.stop (by simp [headLbp, hs.1]))
    obtain ⟨n, he⟩ := he
    have : flatten (.grp e) ++ rest = .lParen :: (flatten e ++ .rParen :: rest) := by simp [flatten]
    rw [this]
    exact EOk.of_prim ⟨n, fun m hm => .grp (he m hm)⟩ hL
  | .pre op e, p, rest, res, hn, hsp, hL => by
    simp only [normal, Bool.and_eq_true] at hn
    simp only [rightSpineOK, Bool.and_eq_true, decide_eq_true_eq] at hsp
    have he := complete_T hs e prefixBp rest (e, rest) hn.2 hsp.2 (LOk.stop hsp.1)
    obtain ⟨n, he⟩ := he
    have : flatten (.pre op e) ++ rest = op :: (flatten e ++ rest) := by simp [flatten]
    rw [this]
    exact EOk.of_prim ⟨n, fun m hm => .pre hn.1 (he m hm)⟩ hL
  | .list xs, p, rest, res, hn, _, hL => by
    simp only [normal] at hn
    obtain ⟨n, ha⟩ := complete_A hs xs .rBracket rest hn (.inr rfl)
    have : flatten (.list xs) ++ rest = .lBracket :: (flattenArgs xs ++ .rBracket :: rest) := by
      simp [flatten]
    rw [this]
    exact EOk.of_prim ⟨n, fun m hm => .list (ha m hm)⟩ hL
  | .bin l o r, p, rest, res, hn, hsp, hL => by
    simp only [normal, Bool.and_eq_true, decide_eq_true_eq] at hn
    simp only [rightSpineOK, Bool.and_eq_true, decide_eq_true_eq] at hsp
    obtain ⟨⟨⟨⟨hop, hgt⟩, hnl⟩, hsl⟩, hnr⟩ := hn
    obtain ⟨n, hr⟩ := complete_T hs r (prec o).2 rest (r, rest) hnr hsp.2 (LOk.stop hsp.1)
    have : flatten (.bin l o r) ++ rest = flatten l ++ o :: (flatten r ++ rest) := by simp [flatten]
    rw [this]
    exact complete_T hs l p _ res hnl (by simpa [headLbp] using hsl)
      (LOk.of_step hgt ⟨n, fun m hm => .bin hop (hr m hm)⟩ hL)
  | .asg l o r, p, rest, res, hn, hsp, hL => by
    simp only [normal, Bool.and_eq_true, decide_eq_true_eq] at hn
    simp only [rightSpineOK, Bool.and_eq_true, decide_eq_true_eq] at hsp
    obtain ⟨⟨⟨⟨⟨hop, hgt⟩, hnl⟩, hsl⟩, hv⟩, hnr⟩ := hn
    obtain ⟨n, hr⟩ := complete_T hs r (prec o).2 rest (r, rest) hnr hsp.2 (LOk.stop hsp.1)
    have : flatten (.asg l o r) ++ rest = flatten l ++ o :: (flatten r ++ rest) := by simp [flatten]
    rw [this]
    exact complete_T hs l p _ res hnl (by simpa [headLbp] using hsl)
      (LOk.of_step hgt ⟨n, fun m hm => .asg hop hv (hr m hm)⟩ hL)
  | .call f args, p, rest, res, hn, _, hL => by
    simp only [normal, Bool.and_eq_true, decide_eq_true_eq] at hn
    obtain ⟨⟨⟨hgt, hnf⟩, hsf⟩, hna⟩ := hn
    obtain ⟨n, ha⟩ := complete_A hs args .rParen rest hna (.inl rfl)
    have : flatten (.call f args) ++ rest
        = flatten f ++ .lParen :: (flattenArgs args ++ .rParen :: rest) := by simp [flatten]
    rw [this]
    exact complete_T hs f p _ res hnf (by simpa [headLbp] using hsf)
      (LOk.of_step hgt ⟨n, fun m hm => .call (ha m hm)⟩ hL)
  | .index b i, p, rest, res, hn, _, hL => by
    simp only [normal, Bool.and_eq_true, decide_eq_true_eq] at hn
    obtain ⟨⟨⟨hgt, hnb⟩, hsb⟩, hni⟩ := hn
    obtain ⟨n, hi⟩ := complete_T hs i 0 (.rBracket :: rest) (i, .rBracket :: rest) hni
      (by simp [headLbp, hs.2.1, rightSpineOK_zero]) (LOk.stop (by simp [headLbp, hs.2.1]))
    have : flatten (.index b i) ++ rest
        = flatten b ++ .lBracket :: (flatten i ++ .rBracket :: rest) := by simp [flatten]
    rw [this]
    exact complete_T hs b p _ res hnb (by simpa [headLbp] using hsb)
      (LOk.of_step hgt ⟨n, fun m hm => .index (hi m hm)⟩ hL)
  | .member b op nm, p, rest, res, hn, _, hL => by
    simp only [normal, Bool.and_eq_true, Bool.or_eq_true, decide_eq_true_eq, beq_iff_eq] at hn
    obtain ⟨⟨⟨⟨hop, hnm⟩, hgt⟩, hnb⟩, hsb⟩ := hn
    have : flatten (.member b op nm) ++ rest = flatten b ++ op :: (nm :: rest) := by simp [flatten]
    rw [this]
    exact complete_T hs b p _ res hnb (by simpa [headLbp] using hsb)
      (LOk.of_step hgt ⟨0, fun m _ => .member hop hnm⟩ hL)
  | .cast b ty, p, rest, res, hn, _, hL => by
    simp only [normal, Bool.and_eq_true, decide_eq_true_eq, beq_iff_eq] at hn
    obtain ⟨⟨⟨hty, hgt⟩, hnb⟩, hsb⟩ := hn
    subst hty
    have : flatten (.cast b .identifier) ++ rest = flatten b ++ .as :: (.identifier :: rest) := by
      simp [flatten]
    rw [this]
    exact complete_T hs b p _ res hnb (by simpa [headLbp] using hsb)
      (LOk.of_step hgt ⟨0, fun m _ => .cast⟩ hL)
  | .range a incl b, p, rest, res, hn, hsp, hL => by
    simp only [normal, Bool.and_eq_true, decide_eq_true_eq] at hn
    simp only [rightSpineOK, Bool.and_eq_true, decide_eq_true_eq] at hsp
    obtain ⟨⟨⟨hgt, hna⟩, hsa⟩, hnb⟩ := hn
    have hb := complete_T hs b 0 rest (b, rest) hnb hsp.2 (LOk.stop (by omega))
    have : flatten (.range a incl b) ++ rest
        = flatten a ++ .doubleDot :: ((if incl then [TokKind.assign] else []) ++ (flatten b ++ rest)) := by
      cases incl <;> simp [flatten]
    rw [this]
    have hrs : rangeSplit ((if incl then [TokKind.assign] else []) ++ (flatten b ++ rest))
        = (incl, flatten b ++ rest) := by
      cases incl
      · simpa using rangeSplit_start hnb rest
      · rfl
    exact complete_T hs a p _ res hna (by simpa [headLbp] using hsa)
      (LOk.of_step hgt (StepOk.range hrs hb) hL)
theorem complete_A (hs : TableSane prec) : ∀ (xs : Args) (close : TokKind) (rest : List TokKind),
    normalArgs prec xs = true → (close = .rParen ∨ close = .rBracket) →
    AOk prec close (flattenArgs xs ++ close :: rest) (xs, rest)
  | .nil, close, rest, _, _ => by
    refine ⟨1, fun m hm => ?_⟩
    obtain ⟨m, rfl⟩ : ∃ m', m = m' + 1 := ⟨m - 1, by omega⟩
    simp [flattenArgs, parseArgs.eq_3]
  | .cons x .nil, close, rest, hn, hc => by
    simp only [normalArgs, Bool.and_eq_true] at hn
    have hc0 : (prec close).1 = 0 := by rcases hc with rfl | rfl; exact hs.1; exact hs.2.1
    obtain ⟨n, he⟩ := complete_T hs x 0 (close :: rest) (x, close :: rest) hn.1
      (by simp [headLbp, hc0, rightSpineOK_zero]) (LOk.stop (by simp [headLbp, hc0]))
    obtain ⟨k, tl, hk, hst⟩ := flatten_start prec x 0 hn.1
    have hne : (k == close) = false := by
      have := start_facts hst
      rcases hc with rfl | rfl <;> simp [this]
    refine ⟨n + 1, fun m hm => ?_⟩
    obtain ⟨m, rfl⟩ : ∃ m', m = m' + 1 := ⟨m - 1, by omega⟩
    have he' := he m (by omega)
    simp only [flattenArgs]
    rw [hk] at he' ⊢
    rw [List.cons_append, parseArgs.eq_3]
    simp only [hne, Bool.false_eq_true, if_false]
    rw [← List.cons_append, he']
    rcases hc with rfl | rfl <;> simp
  | .cons x (.cons y ys), close, rest, hn, hc => by
    simp only [normalArgs, Bool.and_eq_true] at hn
    obtain ⟨n1, he⟩ := complete_T hs x 0 (.comma :: (flattenArgs (.cons y ys) ++ close :: rest))
      (x, .comma :: (flattenArgs (.cons y ys) ++ close :: rest)) hn.1
      (by simp [headLbp, hs.2.2, rightSpineOK_zero]) (LOk.stop (by simp [headLbp, hs.2.2]))
    obtain ⟨n2, ha⟩ := complete_A hs (.cons y ys) close rest (by simp [normalArgs, hn.2]) hc
    obtain ⟨k, tl, hk, hst⟩ := flatten_start prec x 0 hn.1
    have hne : (k == close) = false := by
      have := start_facts hst
      rcases hc with rfl | rfl <;> simp [this]
    refine ⟨max n1 n2 + 1, fun m hm => ?_⟩
    obtain ⟨m, rfl⟩ : ∃ m', m = m' + 1 := ⟨m - 1, by omega⟩
    have he' := he m (by omega)
    have ha' := ha m (by omega)
    have : flattenArgs (.cons x (.cons y ys)) ++ close :: rest
        = flatten x ++ .comma :: (flattenArgs (.cons y ys) ++ close :: rest) := by
      simp [flattenArgs]
    rw [this]
    rw [hk] at he' ⊢
    rw [List.cons_append, parseArgs.eq_3]
    simp only [hne, Bool.false_eq_true, if_false]
    rw [← List.cons_append, he']
    simp [ha']
end

end HmsProofs.Lemmas.Pratt
