import HmsProofs.Lemmas.PrattBasic
/-!
# Fuel: every successful call consumes input, and `2 * length + 1` fuel is always enough
-/
namespace HmsProofs.Lemmas.Pratt
open Hms Hms.Pratt

/-- Successful calls consume input: `parseE` and `parseArgs` at least one token, `loop` none or more. -/
theorem len_all (prec : Prec) : ∀ n,
    (∀ p ts t out, parseE prec n p ts = .ok (t, out) → out.length < ts.length) ∧
    (∀ p lhs ts t out, loop prec n p lhs ts = .ok (t, out) → out.length ≤ ts.length) ∧
    (∀ close ts xs out, parseArgs prec n close ts = .ok (xs, out) → out.length < ts.length) := by
  intro n
  induction n with
  | zero => simp [parseE, loop, parseArgs]
  | succ n ih =>
    obtain ⟨ihE, ihL, ihA⟩ := ih
    refine ⟨?_, ?_, ?_⟩
    · intro p ts t out h
      obtain ⟨k, rest, lhs, rest', rfl, hprim, hloop⟩ := parseE_inv h
      have h2 := ihL _ _ _ _ _ hloop
      have h1 : rest'.length ≤ rest.length := by
        cases hprim with
        | atom _ => exact Nat.le_refl _
        | grp he => have := ihE _ _ _ _ he; simp at this; omega
        | pre _ he => have := ihE _ _ _ _ he; omega
        | list ha => have := ihA _ _ _ _ ha; omega
      simp; omega
    · intro p lhs ts t out h
      rcases loop_inv h with ⟨_, hr⟩ | ⟨k, rest, lhs', rest', rfl, _, hstep, hloop⟩
      · simp only [Prod.mk.injEq] at hr
        rw [hr.2]; exact Nat.le_refl _
      · have h2 := ihL _ _ _ _ _ hloop
        have h1 : rest'.length ≤ rest.length := by
          cases hstep with
          | @range rest e rest' he =>
            have := ihE _ _ _ _ he
            have : (rangeSplit rest).2.length ≤ rest.length := by
              unfold rangeSplit; split <;> simp
            omega
          | bin _ he => have := ihE _ _ _ _ he; omega
          | asg _ _ he => have := ihE _ _ _ _ he; omega
          | call ha => have := ihA _ _ _ _ ha; omega
          | index he => have := ihE _ _ _ _ he; simp at this; omega
          | member _ _ => simp
          | cast => simp
        simp; omega
    · intro close ts xs out h
      rcases parseArgs_inv h with ⟨rest, rfl, _, rfl⟩ | ⟨e, rest', xs', he, ha, _⟩ | ⟨e, he, _⟩
      · simp
      · have := ihE _ _ _ _ he
        have := ihA _ _ _ _ ha
        simp at *; omega
      · have := ihE _ _ _ _ he
        simp at *; omega

theorem parseE_len {prec : Prec} {n p : Nat} {ts out : List TokKind} {t : Tree}
    (h : parseE prec n p ts = .ok (t, out)) : out.length < ts.length :=
  (len_all prec n).1 _ _ _ _ h

theorem loop_len {prec : Prec} {n p : Nat} {lhs : Tree} {ts out : List TokKind} {t : Tree}
    (h : loop prec n p lhs ts = .ok (t, out)) : out.length ≤ ts.length :=
  (len_all prec n).2.1 _ _ _ _ _ h

theorem parseArgs_len {prec : Prec} {n : Nat} {close : TokKind} {ts out : List TokKind} {xs : Args}
    (h : parseArgs prec n close ts = .ok (xs, out)) : out.length < ts.length :=
  (len_all prec n).2.2 _ _ _ _ h

/-- With `2 * length + 1` fuel (`+ 2` for `parseArgs`, which re-reads its first token) no call
runs out of fuel. -/
theorem nofuel_all (prec : Prec) : ∀ n,
    (∀ p ts, 2 * ts.length + 1 ≤ n → parseE prec n p ts ≠ .error .fuel) ∧
    (∀ p lhs ts, 2 * ts.length + 1 ≤ n → loop prec n p lhs ts ≠ .error .fuel) ∧
    (∀ close ts, 2 * ts.length + 2 ≤ n → parseArgs prec n close ts ≠ .error .fuel) := by
  intro n
  induction n with
  | zero =>
    refine ⟨?_, ?_, ?_⟩ <;> intros <;> omega
  | succ n ih =>
    obtain ⟨ihE, ihL, ihA⟩ := ih
    refine ⟨?_, ?_, ?_⟩
    · intro p ts hn
      cases ts with
      | nil => simp [parseE]
      | cons k rest =>
        simp only [List.length_cons] at hn
        rw [parseE.eq_3]
        split
        · exact ihL _ _ _ (by omega)
        split
        · split
          · rename_i he
            have := parseE_len he
            simp only [List.length_cons] at this
            exact ihL _ _ _ (by omega)
          · simp
          · rename_i e he
            have := ihE 0 rest (by omega)
            intro hc
            simp only [Except.error.injEq] at hc
            subst hc
            exact this he
        split
        · split
          · rename_i he
            have := parseE_len he
            exact ihL _ _ _ (by omega)
          · rename_i e he
            have := ihE prefixBp rest (by omega)
            intro hc
            simp only [Except.error.injEq] at hc
            subst hc
            exact this he
        split
        · split
          · rename_i ha
            have := parseArgs_len ha
            exact ihL _ _ _ (by omega)
          · rename_i e ha
            have := ihA .rBracket rest (by omega)
            intro hc
            simp only [Except.error.injEq] at hc
            subst hc
            exact this ha
        split <;> simp
    · intro p lhs ts hn
      cases ts with
      | nil => simp [loop_nil]
      | cons k rest =>
        simp only [List.length_cons] at hn
        have hrs : (rangeSplit rest).2.length ≤ rest.length := by
          unfold rangeSplit; split <;> simp
        rw [loop_cons]
        split
        · split
          · split
            · rename_i he
              have := parseE_len he
              exact ihL _ _ _ (by omega)
            · rename_i e he
              have := ihE 0 (rangeSplit rest).2 (by omega)
              intro hc
              simp only [Except.error.injEq] at hc
              subst hc
              exact this he
          split
          · split
            · rename_i he
              have := parseE_len he
              exact ihL _ _ _ (by omega)
            · rename_i e he
              have := ihE (prec k).2 rest (by omega)
              intro hc
              simp only [Except.error.injEq] at hc
              subst hc
              exact this he
          split
          · split
            · split
              · rename_i he _
                have := parseE_len he
                exact ihL _ _ _ (by omega)
              · simp
            · rename_i e he
              have := ihE (prec k).2 rest (by omega)
              intro hc
              simp only [Except.error.injEq] at hc
              subst hc
              exact this he
          split
          · split
            · rename_i ha
              have := parseArgs_len ha
              exact ihL _ _ _ (by omega)
            · rename_i e ha
              have := ihA .rParen rest (by omega)
              intro hc
              simp only [Except.error.injEq] at hc
              subst hc
              exact this ha
          split
          · split
            · rename_i he
              have := parseE_len he
              simp only [List.length_cons] at this
              exact ihL _ _ _ (by omega)
            · simp
            · rename_i e he
              have := ihE 0 rest (by omega)
              intro hc
              simp only [Except.error.injEq] at hc
              subst hc
              exact this he
          split
          · split
            · exact ihL _ _ _ (by simp only [List.length_cons] at hn; omega)
            · exact ihL _ _ _ (by simp only [List.length_cons] at hn; omega)
            · simp
          split
          · split
            · exact ihL _ _ _ (by simp only [List.length_cons] at hn; omega)
            · simp
          · simp
        · simp
    · intro close ts hn
      cases ts with
      | nil => simp [parseArgs]
      | cons k rest =>
        simp only [List.length_cons] at hn
        rw [parseArgs.eq_3]
        split
        · simp
        · split
          · rename_i e0 rest' he
            have := parseE_len he
            simp only [List.length_cons] at this
            split
            · simp
            · rename_i e ha
              have := ihA close rest' (by omega)
              intro hc
              simp only [Except.error.injEq] at hc
              subst hc
              exact this ha
          · split <;> simp
          · simp
          · rename_i e he
            have := ihE 0 (k :: rest) (by simp only [List.length_cons]; omega)
            intro hc
            simp only [Except.error.injEq] at hc
            subst hc
            exact this he

end HmsProofs.Lemmas.Pratt
