import Hms.Fuzz.Rules
import HmsProofs.Lemmas.FuzzArith
/-!
# The rewrite rules against the evaluator of the specification semantics

Fuel: a variant nests its operands deeper than the original, so the two sides are compared at
the fuels at which the SAME sub-evaluations happen (the offsets are explicit in every statement).
-/
namespace HmsProofs.Lemmas.Fuzz
open Hms Hms.Core Hms.Fuzz

/-- `PureAt cfg e`: evaluating `e` never changes the state, and the only way it fails is by
running out of fuel — the class hypothesis "side-effect free" of the property statement for the
sub-expressions a rule reorders or duplicates. -/
def PureAt (cfg : Cfg) (e : Expr) : Prop :=
  ∀ (fuel : Nat) (st : St), (∃ v, evalExpr cfg fuel e st = (.ok v, st)) ∨ evalExpr cfg fuel e st = (.error .timeout, st)

theorem pure_int (cfg : Cfg) (sp : Span) (n : Int) : PureAt cfg (.int sp n) := by
  intro fuel st
  cases fuel with
  | zero => right; rfl
  | succ f => left; exact ⟨_, rfl⟩

theorem pure_bool (cfg : Cfg) (sp : Span) (b : Bool) : PureAt cfg (.bool sp b) := by
  intro fuel st
  cases fuel with
  | zero => right; rfl
  | succ f => left; exact ⟨_, rfl⟩

theorem pure_str (cfg : Cfg) (sp : Span) (s : String) : PureAt cfg (.str sp s) := by
  intro fuel st
  cases fuel with
  | zero => right; rfl
  | succ f => left; exact ⟨_, rfl⟩

theorem pure_grouped (cfg : Cfg) (sp : Span) (e : Expr) (h : PureAt cfg e) : PureAt cfg (.grouped sp e) := by
  intro fuel st
  cases fuel with
  | zero => right; rfl
  | succ f => simpa [evalExpr] using h f st

/-- A grouped expression is its content, one unit of fuel later. -/
theorem eval_grouped (cfg : Cfg) (fuel : Nat) (sp : Span) (e : Expr) :
    evalExpr cfg (fuel + 1) (.grouped sp e) = evalExpr cfg fuel e := by
  simp [evalExpr]

theorem eval_grp (cfg : Cfg) (fuel : Nat) (e : Expr) : evalExpr cfg (fuel + 1) (grp e) = evalExpr cfg fuel e := by
  simp [grp, evalExpr]

/-- Two pure evaluations commute: whatever is done with the two results. -/
theorem swap_pure (cfg : Cfg) (l r : Expr) (hl : PureAt cfg l) (hr : PureAt cfg r) (fuel : Nat)
    (k k' : Val → Val → M Val) (hk : ∀ a b, k a b = k' b a) (st : St) :
    (do let a ← evalExpr cfg fuel l; let b ← evalExpr cfg fuel r; k a b : M Val) st
      = (do let b ← evalExpr cfg fuel r; let a ← evalExpr cfg fuel l; k' b a : M Val) st := by
  simp only [bind, ExceptT.bind, ExceptT.mk, StateT.bind, ExceptT.bindCont]
  rcases hl fuel st with ⟨a, ha⟩ | ha <;> rcases hr fuel st with ⟨b, hb⟩ | hb <;>
    (simp only [StateT.bind, ExceptT.bindCont, ha, hb, hk]; try rfl)

/-- One step of the evaluator on a strict binary operator. -/
theorem eval_infix (cfg : Cfg) (fuel : Nat) (sp : Span) (ty : Ty) (op : InfixOp) (l r : Expr)
    (hop : op ≠ .or ∧ op ≠ .and) :
    evalExpr cfg (fuel + 1) (.infix sp ty op l r)
      = (do let a ← evalExpr cfg fuel l; let b ← evalExpr cfg fuel r; binOp op a b sp) := by
  cases op <;> first | exact absurd rfl hop.1 | exact absurd rfl hop.2 | simp only [evalExpr]

/-- `a op b` → `(b) op' (a)` for pure operands, whenever `op'` with swapped arguments is `op`. -/
theorem eval_swap (cfg : Cfg) (l r : Expr) (hl : PureAt cfg l) (hr : PureAt cfg r) (fuel : Nat)
    (sp : Span) (ty : Ty) (op op' : InfixOp) (hop : op ≠ .or ∧ op ≠ .and) (hop' : op' ≠ .or ∧ op' ≠ .and)
    (hk : ∀ a b, binOp op a b sp = binOp op' b a sp) (st : St) :
    evalExpr cfg (fuel + 2) (.infix sp ty op' (grp r) (grp l)) st
      = evalExpr cfg (fuel + 1) (.infix sp ty op l r) st := by
  rw [eval_infix cfg fuel sp ty op l r hop, eval_infix cfg (fuel + 1) sp ty op' (grp r) (grp l) hop',
    eval_grp, eval_grp]
  exact (swap_pure cfg l r hl hr fuel _ _ hk st).symm

/-- `a < b` → `b > a` (and the three other comparisons), for pure operands. -/
theorem eval_cmp_swap (cfg : Cfg) (l r : Expr) (hl : PureAt cfg l) (hr : PureAt cfg r) (fuel : Nat)
    (sp : Span) (ty : Ty) (op : InfixOp) (hop : op = .lt ∨ op = .gt ∨ op = .le ∨ op = .ge) (st : St) :
    evalExpr cfg (fuel + 1) (cmpSwap l r (.infix sp ty op l r)) st
      = evalExpr cfg (fuel + 1) (.infix sp ty op l r) st := by
  have h1 : op ≠ .or ∧ op ≠ .and := by rcases hop with rfl | rfl | rfl | rfl <;> simp
  have h2 : revOp op ≠ .or ∧ revOp op ≠ .and := by rcases hop with rfl | rfl | rfl | rfl <;> simp [revOp]
  simp only [cmpSwap]
  rw [eval_infix cfg fuel sp ty op l r h1, eval_infix cfg fuel sp ty (revOp op) r l h2]
  refine (swap_pure cfg l r hl hr fuel _ _ ?_ st).symm
  intro a b
  rcases hop with rfl | rfl | rfl | rfl
  · exact cmp_swap_lt a b sp
  · exact cmp_swap_gt a b sp
  · exact cmp_swap_le a b sp
  · exact cmp_swap_ge a b sp

/-- Two pure evaluations commute (version with what is known about the two values). -/
theorem swap_pure_of (cfg : Cfg) (l r : Expr) (hl : PureAt cfg l) (hr : PureAt cfg r) (fuel : Nat)
    (P Q : Val → Prop)
    (hP : ∀ st v st', evalExpr cfg fuel l st = (.ok v, st') → P v)
    (hQ : ∀ st v st', evalExpr cfg fuel r st = (.ok v, st') → Q v)
    (k k' : Val → Val → M Val) (hk : ∀ a b, P a → Q b → k a b = k' b a) (st : St) :
    (do let a ← evalExpr cfg fuel l; let b ← evalExpr cfg fuel r; k a b : M Val) st
      = (do let b ← evalExpr cfg fuel r; let a ← evalExpr cfg fuel l; k' b a : M Val) st := by
  simp only [bind, ExceptT.bind, ExceptT.mk, StateT.bind, ExceptT.bindCont]
  rcases hl fuel st with ⟨a, ha⟩ | ha <;> rcases hr fuel st with ⟨b, hb⟩ | hb
  · have := hk a b (hP _ _ _ ha) (hQ _ _ _ hb)
    simp only [StateT.bind, ExceptT.bindCont, ha, hb]
    show k a b st = k' b a st
    rw [this]
  all_goals (simp only [StateT.bind, ExceptT.bindCont, ha, hb]; try rfl)

/-- `IntValued cfg e`: whenever `e` yields a value it is an integer (what the recorded type
`int` of the operand means, by type soundness). -/
def IntValued (cfg : Cfg) (e : Expr) : Prop :=
  ∀ fuel st v st', evalExpr cfg fuel e st = (.ok v, st') → ∃ x, v = .int x

/-- `a + b` → `(b) + (a)` and `a * b` → `(b) * (a)` on pure integer operands. -/
theorem eval_commute_int (cfg : Cfg) (l r : Expr) (hl : PureAt cfg l) (hr : PureAt cfg r)
    (il : IntValued cfg l) (ir : IntValued cfg r) (fuel : Nat) (sp : Span) (ty : Ty) (op : InfixOp)
    (hop : op = .add ∨ op = .mul) (st : St) :
    evalExpr cfg (fuel + 2) (commute (.infix sp ty op l r)) st
      = evalExpr cfg (fuel + 1) (.infix sp ty op l r) st := by
  have h1 : op ≠ .or ∧ op ≠ .and := by rcases hop with rfl | rfl <;> simp
  simp only [commute]
  rw [eval_infix cfg fuel sp ty op l r h1, eval_infix cfg (fuel + 1) sp ty op (grp r) (grp l) h1,
    eval_grp, eval_grp]
  refine (swap_pure_of cfg l r hl hr fuel (fun v => ∃ x, v = .int x) (fun v => ∃ x, v = .int x)
    (fun st v st' h => il fuel st v st' h) (fun st v st' h => ir fuel st v st' h) _ _ ?_ st).symm
  rintro a b ⟨x, rfl⟩ ⟨y, rfl⟩
  rcases hop with rfl | rfl
  · exact binOp_add_comm_int x y sp
  · exact binOp_mul_comm_int x y sp

/-- `!!(b)` on a bool literal. -/
theorem eval_notNot (cfg : Cfg) (fuel : Nat) (sp : Span) (b : Bool) (st : St) :
    evalExpr cfg (fuel + 4) (notNot (.bool sp b)) st = evalExpr cfg (fuel + 1) (.bool sp b) st := by
  simp [notNot, spOf, evalExpr, bind, ExceptT.bind, ExceptT.mk, StateT.bind, ExceptT.bindCont, pure, ExceptT.pure,
    StateT.pure]

/-- `(n + k - k)`, `(n - k + k)` on an integer literal: unconditionally the literal. -/
theorem eval_litAddSub (cfg : Cfg) (fuel : Nat) (sp : Span) (n k : Int) (st : St) :
    evalExpr cfg (fuel + 4) (litAddSub k (.int sp n)) st = evalExpr cfg (fuel + 1) (.int sp n) st := by
  simp [litAddSub, spOf, evalExpr, binOp, intOp, bind, ExceptT.bind, ExceptT.mk, StateT.bind, ExceptT.bindCont, pure,
    ExceptT.pure, StateT.pure, lit_add_sub]

theorem eval_litSubAdd (cfg : Cfg) (fuel : Nat) (sp : Span) (n k : Int) (st : St) :
    evalExpr cfg (fuel + 4) (litSubAdd k (.int sp n)) st = evalExpr cfg (fuel + 1) (.int sp n) st := by
  simp [litSubAdd, spOf, evalExpr, binOp, intOp, bind, ExceptT.bind, ExceptT.mk, StateT.bind, ExceptT.bindCont, pure,
    ExceptT.pure, StateT.pure, lit_sub_add]

end HmsProofs.Lemmas.Fuzz

namespace HmsProofs.Lemmas.Fuzz
open Hms Hms.Core Hms.Fuzz

/-- Unfold the monad operations of `M` on an explicit state. -/
macro "unfold_m" : tactic => `(tactic|
  simp only [bind, ExceptT.bind, ExceptT.mk, StateT.bind, ExceptT.bindCont, get, getThe, MonadStateOf.get, liftM,
    monadLift, MonadLift.monadLift, ExceptT.lift, StateT.get, Functor.map, StateT.map, pure, ExceptT.pure,
    StateT.pure, throwCtl, throw, throwThe, MonadExceptOf.throw])

/-- `a == b` → `!(a != b)` and `a != b` → `!(a == b)`: same operands in the same order, the
negated comparison negated again; equal results and equal errors in every state. -/
theorem eval_eqAsNotNe (cfg : Cfg) (fuel : Nat) (sp : Span) (ty : Ty) (op : InfixOp) (l r : Expr)
    (hop : op = .eq ∨ op = .ne) (st : St) :
    evalExpr cfg (fuel + 3) (eqAsNotNe l r (.infix sp ty op l r)) st
      = evalExpr cfg (fuel + 1) (.infix sp ty op l r) st := by
  rcases hop with rfl | rfl <;>
  · simp only [eqAsNotNe, negOp, evalExpr, binOp]
    unfold_m
    cases evalExpr cfg fuel l st with
    | mk ra s1 =>
      cases ra with
      | error c => rfl
      | ok a =>
        unfold_m
        cases evalExpr cfg fuel r s1 with
        | mk rb s2 =>
          cases rb with
          | error c => rfl
          | ok b =>
            unfold_m
            cases eqM a b s2 with
            | mk rr s3 =>
              cases rr with
              | error c => rfl
              | ok x => cases x <;> rfl

end HmsProofs.Lemmas.Fuzz

/-! ## Purity is needed for the reordering rules -/

namespace HmsProofs.Lemmas.Fuzz
open Hms Hms.Core Hms.Fuzz

def spZ : Span := ⟨0, 0, 0, 0⟩

/-- `{ x = 5; x }`: an operand with an effect on the variable `x`. -/
def effectfulOperand : Expr :=
  .blockE (.mk spZ .int [.exprS spZ (.assign spZ none (identE spZ .int "x") (.int spZ 5))]
    (some (identE spZ .int "x")))

/-- `x` -/
def readX : Expr := identE spZ .int "x"

/-- A state in which `x = 1`. -/
def stateX1 : St := { scopes := [[("x", .int 1)]] }

def intResult (r : Except Ctl Val × St) : Option Int :=
  match r.1 with
  | .ok (.int v) => some v.toInt
  | _ => none

end HmsProofs.Lemmas.Fuzz
