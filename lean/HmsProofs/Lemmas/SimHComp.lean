import HmsProofs.Lemmas.SimHExpr
/-!
# The compiler on the general fragment: `compileExpr` / `compileStmt` / `compileFn` emit `cgE` / `cgS` / `cgFn`
-/
namespace HmsProofs.Sim
open Hms.Core Hms.Core.Comp

/-! ## Fuel the compiler model needs -/
namespace Frag
/-- The deepest element of a list literal. -/
def cdEls : List Expr → Nat
  | [] => 1
  | x :: xs => max (depthE x) (cdEls xs)
/-- The longest literal list of the arms of a `match`. -/
def litsLen : List (List Expr × Expr) → Nat
  | [] => 0
  | a :: as => max a.1.length (litsLen as)
mutual
def cdE : Expr → Nat
  | .grouped _ e => cdE e + 1
  | .pre _ _ _ e => cdE e + 1
  | .cast _ _ e => cdE e + 1
  | .infix _ _ _ l r => max (cdE l) (cdE r) + 1
  | .ifE _ _ c t (some e) => max (cdE c) (max (cdB t) (cdB e)) + 1
  | .call _ _ (.member _ _ b _ _) args _ => max (cdE b + 2) (cdArgs args + args.length + 2)
  | .call _ _ _ args _ => cdArgs args + args.length + 2
  | .matchE _ _ c arms (some d) => max (cdE c) (max (cdE d) (cdArms arms + arms.length + litsLen arms + 3)) + 1
  | .list _ _ xs => cdEls xs + xs.length + 2
  | .index _ _ b i => max (cdE b) (cdE i) + 1
  | .obj _ _ fs => cdEls (fs.map (·.2)) + fs.length + 2
  | .member _ _ b _ _ => cdE b + 1
  | _ => 1
def cdArms : List (List Expr × Expr) → Nat
  | [] => 1
  | a :: as => max (cdE a.2) (cdArms as)
def cdB : Block → Nat
  | .mk _ _ _ (some e) => cdE e + 1
  | _ => 1
def cdArgs : List (String × Expr) → Nat
  | [] => 1
  | a :: as => max (cdE a.2) (cdArgs as)
end

mutual
def cdS : Stmt → Nat
  | .letS _ _ _ _ _ e => cdE e + 2
  | .exprS _ e => cdX e + 1
  | .whileS _ c body => max (cdE c) (cdBS body) + 1
  | .loopS _ body => cdBS body + 1
  | .forS _ _ _ (.range _ a b _) (.mk _ _ stmts _) => max (max (cdE a) (cdE b) + 1) (cdSs stmts + 1) + 1
  | .ret _ (some e) => cdE e + 1
  | _ => 1
/-- Expression statements: assignment and `if` over statement blocks. -/
def cdX : Expr → Nat
  | .assign _ _ (.index isp ity b i) r => max (cdE (.index isp ity b i)) (cdE r) + 1
  | .assign _ _ (.member msp mty b name mop) r => max (cdE (.member msp mty b name mop)) (cdE r) + 1
  | .assign _ _ _ r => cdE r + 1
  | .ifE _ _ c t (some eb) => max (cdE c) (max (cdBS t) (cdBS eb)) + 1
  | .ifE _ _ c t none => max (cdE c) (cdBS t) + 1
  | .call _ _ (.member _ _ b _ _) args _ => max (cdE b + 1) (cdArgs args + args.length + 1) + 1
  | .call _ _ _ args _ => cdArgs args + args.length + 2
  | .tryE _ _ t _ c => max (cdBS t) (cdBS c) + 2
  | .matchE _ _ c arms (some (.blockE db)) =>
    max (cdE c) (max (cdBS db + 1) (cdArmsS arms + arms.length + litsLen arms + 3)) + 1
  | _ => 1
def cdSs : List Stmt → Nat
  | [] => 1
  | s :: ss => max (cdS s) (cdSs ss) + 1
def cdBS : Block → Nat
  | .mk _ _ stmts _ => cdSs stmts + 1
def cdArmsS : List (List Expr × Expr) → Nat
  | (_, .blockE b) :: rest => max (cdBS b + 1) (cdArmsS rest)
  | _ :: rest => cdArmsS rest
  | [] => 1
end
end Frag

theorem depthE_le_cdE : ∀ (n : Nat),
    (∀ (e : Expr), Frag.depthE e ≤ n → Frag.pureE e = true → Frag.depthE e ≤ Frag.cdE e) ∧
    (∀ (b : Block), Frag.depthB b ≤ n → Frag.pureB b = true → Frag.depthB b ≤ Frag.cdB b) := by
  intro n
  induction n with
  | zero =>
    constructor
    · intro e hd; have := depthE_pos e; omega
    · intro b hd
      obtain ⟨sp, ty, stmts, oe⟩ := b
      cases oe <;> simp [Frag.depthB] at hd
  | succ n ih =>
    obtain ⟨ihE, ihB⟩ := ih
    constructor
    · intro e hd hp
      cases e <;> try (simp only [Frag.pureE, Bool.false_eq_true] at hp)
      case int | bool | str | null | none | ident => simp [Frag.depthE, Frag.cdE]
      case grouped sp e =>
        have := ihE e (by simp only [Frag.depthE] at hd; omega) hp
        simp only [Frag.depthE, Frag.cdE]; omega
      case pre sp ty op e =>
        have := ihE e (by simp only [Frag.depthE] at hd; omega) hp
        simp only [Frag.depthE, Frag.cdE]; omega
      case «infix» sp ty op l r =>
        simp only [Bool.and_eq_true] at hp
        simp only [Frag.depthE] at hd
        have hl := ihE l (by omega) hp.1
        have hr := ihE r (by omega) hp.2
        simp only [Frag.depthE, Frag.cdE]; omega
      case ifE sp ty c t el =>
        cases el with
        | none => simp [Frag.pureE] at hp
        | some eb =>
          simp only [Frag.pureE, Bool.and_eq_true] at hp
          simp only [Frag.depthE] at hd
          have hc := ihE c (by omega) hp.1.1
          have ht := ihB t (by omega) hp.1.2
          have he := ihB eb (by omega) hp.2
          simp only [Frag.depthE, Frag.cdE]; omega
    · intro b hd hp
      obtain ⟨sp, ty, stmts, oe⟩ := b
      cases oe with
      | none => simp [Frag.depthB, Frag.cdB]
      | some e =>
        cases stmts with
        | cons _ _ => simp [Frag.pureB] at hp
        | nil =>
          simp only [Frag.pureB] at hp
          have := ihE e (by simp only [Frag.depthB] at hd; omega) hp
          simp only [Frag.depthB, Frag.cdB]; omega

theorem depthE_le_cdE' (e : Expr) (h : Frag.pureE e = true) : Frag.depthE e ≤ Frag.cdE e :=
  (depthE_le_cdE (Frag.depthE e)).1 e (Nat.le_refl _) h

/-! ## The function table -/

/-- What `getMangledFn` answers in state `cs`. -/
def φOf (cs : CState) (name : String) : Option String :=
  match cs.fns.lookup (cs.currModule, name) with
  | some f => some f.name
  | none => (cs.fns.find? fun p => p.1.2 == name).map (·.2.name)

theorem getMangledFn_run (name : String) (cs : CState) : (getMangledFn name).run cs = (φOf cs name, cs) := by
  unfold getMangledFn φOf
  show (match cs.fns.lookup (cs.currModule, name) with
    | some f => (pure (some f.name) : C (Option String))
    | none => pure ((cs.fns.find? fun (p : (String × String) × SFn) => p.1.2 == name).map
      (fun (x : (String × String) × SFn) => x.2.name))).run cs = _
  cases cs.fns.lookup (cs.currModule, name) <;> rfl

theorem find_name_map (fns : List ((String × String) × SFn))
    (g : (String × String) × SFn → (String × String) × SFn)
    (hk : ∀ p, (g p).1 = p.1) (hn : ∀ p, (g p).2.name = p.2.name) (name : String) :
    ((fns.map g).find? fun p => p.1.2 == name).map (·.2.name) =
      (fns.find? fun p => p.1.2 == name).map (·.2.name) := by
  induction fns with
  | nil => rfl
  | cons p rest ih =>
    simp only [List.map_cons, List.find?_cons, hk]
    cases (p.1.2 == name)
    · exact ih
    · simp [hn]

theorem φOf_updS (cs : CState) (L) (c0 : SCode) (env : CEnv) : φOf (updS cs L c0 env) = φOf cs := by
  funext name
  unfold φOf
  have hmod : (updS cs L c0 env).currModule = cs.currModule := rfl
  rw [hmod]
  have hl := lookup_map_upd cs.fns (cs.currModule, cs.currFn) (cs.currModule, name)
    (fun f => { f with code := f.code ++ c0, cntVars := f.cntVars + env.nv })
  have hfns : (updS cs L c0 env).fns = cs.fns.map fun p =>
      if p.1 == (cs.currModule, cs.currFn) then
        (p.1, (fun f : SFn => { f with code := f.code ++ c0, cntVars := f.cntVars + env.nv }) p.2) else p := rfl
  rw [hfns, hl, find_name_map cs.fns _ (by intro p; split <;> rfl) (by intro p; split <;> rfl)]
  generalize cs.fns.lookup (cs.currModule, name) = o
  by_cases hk : (cs.currModule, name) = (cs.currModule, cs.currFn)
  · rw [if_pos hk]; cases o <;> rfl
  · rw [if_neg hk]

theorem getMangledFn_run_S (name : String) (cs : CState) (L) (c0 : SCode) (env : CEnv) :
    (getMangledFn name).run (updS cs L c0 env) = (φOf cs name, updS cs L c0 env) := by
  rw [getMangledFn_run, φOf_updS]

/-! ## Expression lists -/

/-- The code of a list of expressions, in order. -/
def cgEs (mod : String) (ρ φ : String → Option String) : List Expr → LM → SCode × LM
  | [], lm => ([], lm)
  | e :: es, lm =>
    ((cgE mod ρ φ e lm).1 ++ (cgEs mod ρ φ es (cgE mod ρ φ e lm).2).1, (cgEs mod ρ φ es (cgE mod ρ φ e lm).2).2)

theorem cgEs_append (mod : String) (ρ φ : String → Option String) : ∀ (xs ys : List Expr) (lm : LM),
    cgEs mod ρ φ (xs ++ ys) lm =
      ((cgEs mod ρ φ xs lm).1 ++ (cgEs mod ρ φ ys (cgEs mod ρ φ xs lm).2).1,
       (cgEs mod ρ φ ys (cgEs mod ρ φ xs lm).2).2) := by
  intro xs
  induction xs with
  | nil => intro ys lm; simp [cgEs]
  | cons x xs ih => intro ys lm; simp only [List.cons_append, cgEs, ih, List.append_assoc]

/-- `compileExprs` runs over the reversed arguments: that is `cgArgs`. -/
theorem cgEs_rev_args (mod : String) (ρ φ : String → Option String) : ∀ (args : List (String × Expr)) (lm : LM),
    cgEs mod ρ φ (args.reverse.map (·.2)) lm = cgArgs mod ρ φ args lm := by
  intro args
  induction args with
  | nil => intro lm; rfl
  | cons a as ih =>
    intro lm
    rw [List.reverse_cons, List.map_append, cgEs_append, ih, cgArgs]
    simp [cgEs]

/-! ## Expressions -/

def CompGE (fuel : Nat) (e : Expr) (cs : CState) : Prop :=
  ∀ (L : List (String × String × Nat)) (c0 : SCode) (env : CEnv), Frag.wsGE env.scopes (φOf cs) e = true →
    (compileExpr fuel e).run (updS cs L c0 env) =
      ((), updS cs L (c0 ++ (cgE cs.currModule (ρS env.scopes) (φOf cs) e env.lm).1)
        { env with lm := (cgE cs.currModule (ρS env.scopes) (φOf cs) e env.lm).2 })

def CompGB (fuel : Nat) (b : Block) (cs : CState) : Prop :=
  ∀ (L : List (String × String × Nat)) (c0 : SCode) (env : CEnv),
    Frag.resolved env.scopes (Frag.varsGB b) = true → Frag.callsOK env.scopes (φOf cs) (Frag.callsGB b) = true →
    (compileBlock fuel b true).run (updS cs L c0 env) =
      ((), updS cs L (c0 ++ (cgB cs.currModule (ρS env.scopes) (φOf cs) b env.lm).1)
        { env with lm := (cgB cs.currModule (ρS env.scopes) (φOf cs) b env.lm).2 })

/-- A list of expressions, each of which compiles as expected with any fuel from `M` on. -/
theorem compileExprs_seq (cs : CState) (M : Nat) : ∀ (es : List Expr) (fuel : Nat),
    (∀ e ∈ es, ∀ f, M ≤ f → f < fuel → CompGE f e cs) → M + es.length + 1 ≤ fuel →
    ∀ (L : List (String × String × Nat)) (c0 : SCode) (env : CEnv),
      (∀ e ∈ es, Frag.wsGE env.scopes (φOf cs) e = true) →
      (compileExprs fuel es).run (updS cs L c0 env) =
        ((), updS cs L (c0 ++ (cgEs cs.currModule (ρS env.scopes) (φOf cs) es env.lm).1)
          { env with lm := (cgEs cs.currModule (ρS env.scopes) (φOf cs) es env.lm).2 }) := by
  intro es
  induction es with
  | nil =>
    intro fuel _ hf L c0 env _
    obtain ⟨f, rfl⟩ : ∃ f, fuel = f + 1 := ⟨fuel - 1, by simp at hf; omega⟩
    rw [compileExprs]
    simp [cgEs]
    rfl
  | cons e es ih =>
    intro fuel hall hf L c0 env hws
    obtain ⟨f, rfl⟩ : ∃ f, fuel = f + 1 := ⟨fuel - 1, by simp at hf; omega⟩
    simp only [List.length_cons] at hf
    rw [compileExprs]
    have h1 := hall e (by simp) f (by omega) (by omega) L c0 env (hws e (by simp))
    refine bind_run _ _ _ _ _ _ h1 ?_
    have h2 := ih f (fun e' he' f' hM hf' => hall e' (by simp [he']) f' hM (by omega)) (by omega) L
      (c0 ++ (cgE cs.currModule (ρS env.scopes) (φOf cs) e env.lm).1)
      { env with lm := (cgE cs.currModule (ρS env.scopes) (φOf cs) e env.lm).2 }
      (fun e' he' => hws e' (by simp [he']))
    rw [h2]
    simp only [cgEs, List.append_assoc]

theorem cdE_pos (e : Expr) : 1 ≤ Frag.cdE e := by
  cases e <;> try (simp [Frag.cdE]; done)
  case ifE sp ty c t el => cases el <;> simp [Frag.cdE]
  case matchE sp ty c arms dflt => cases dflt <;> simp [Frag.cdE]
  case call sp ty base args sw => cases base <;> simp [Frag.cdE]

theorem cdB_pos (b : Block) : 1 ≤ Frag.cdB b := by
  obtain ⟨sp, ty, stmts, oe⟩ := b
  cases oe <;> simp [Frag.cdB]

theorem okGArgs_mem (fr : Bool) : ∀ (args : List (String × Expr)), Frag.okEArgs fr args = true → ∀ a ∈ args, Frag.okE fr a.2 = true := by
  intro args
  induction args with
  | nil => intro _ a ha; simp at ha
  | cons x xs ih =>
    intro h a ha
    simp only [Frag.okEArgs, Bool.and_eq_true] at h
    rcases List.mem_cons.mp ha with rfl | ha
    · exact h.1
    · exact ih h.2 a ha

theorem cdArgs_mem : ∀ (args : List (String × Expr)), ∀ a ∈ args, Frag.cdE a.2 ≤ Frag.cdArgs args := by
  intro args
  induction args with
  | nil => intro a ha; simp at ha
  | cons x xs ih =>
    intro a ha
    simp only [Frag.cdArgs]
    rcases List.mem_cons.mp ha with rfl | ha
    · omega
    · have := ih a ha; omega

theorem wsGArgs_mem (scopes : CScopes) (φ : String → Option String) : ∀ (args : List (String × Expr)),
    Frag.resolved scopes (Frag.varsGArgs args) = true → Frag.callsOK scopes φ (Frag.callsGArgs args) = true →
    ∀ a ∈ args, Frag.wsGE scopes φ a.2 = true := by
  intro args
  induction args with
  | nil => intro _ _ a ha; simp at ha
  | cons x xs ih =>
    intro h1 h2 a ha
    simp only [Frag.varsGArgs] at h1
    simp only [Frag.callsGArgs] at h2
    rw [resolved_append] at h1
    rw [callsOK_append] at h2
    rcases List.mem_cons.mp ha with rfl | ha
    · simp only [Frag.wsGE, Bool.and_eq_true]; exact ⟨h1.1, h2.1⟩
    · exact ih h1.2 h2.2 a ha

/-! ## List literals -/

theorem compileListElems_run (cs : CState) (sp : Span) : ∀ (xs : List Expr) (fuel : Nat),
    xs.all Frag.pureE = true → Frag.cdEls xs + xs.length + 1 ≤ fuel →
    ∀ (L : List (String × String × Nat)) (c0 : SCode) (env : CEnv),
      Frag.resolved env.scopes (xs.flatMap Frag.varsE) = true →
      (compileListElems fuel sp xs).run (updS cs L c0 env) =
        ((), updS cs L (c0 ++ (cgEls cs.currModule (ρS env.scopes) sp xs env.lm).1)
          { env with lm := (cgEls cs.currModule (ρS env.scopes) sp xs env.lm).2 }) := by
  intro xs
  induction xs with
  | nil =>
    intro fuel _ hf L c0 env _
    obtain ⟨f, rfl⟩ : ∃ f, fuel = f + 1 := ⟨fuel - 1, by simp [Frag.cdEls] at hf; omega⟩
    rw [compileListElems]
    simp [cgEls]
    rfl
  | cons x xs ih =>
    intro fuel hp hf L c0 env hres
    simp only [List.all_cons, Bool.and_eq_true] at hp
    simp only [Frag.cdEls, List.length_cons] at hf
    simp only [List.flatMap_cons] at hres
    have hres1 : Frag.resolved env.scopes (Frag.varsE x) = true := by
      simp only [Frag.resolved, List.all_append, Bool.and_eq_true] at hres; exact hres.1
    have hres2 : Frag.resolved env.scopes (xs.flatMap Frag.varsE) = true := by
      simp only [Frag.resolved, List.all_append, Bool.and_eq_true] at hres; exact hres.2
    obtain ⟨f, rfl⟩ : ∃ f, fuel = f + 1 := ⟨fuel - 1, by omega⟩
    rw [compileListElems]
    refine bind_run _ _ _ _ _ _ (compileExpr_pure_S f x cs L c0 env hp.1 (by omega) hres1) ?_
    refine bind_run _ _ _ _ _ _ (emit_run_S _ _ _ _ _ _) ?_
    refine bind_run _ _ _ _ _ _ (emit_run_S _ _ _ _ _ _) ?_
    have h2 := ih f hp.2 (by omega) L
      (c0 ++ (cpE cs.currModule (ρS env.scopes) x env.lm).1 ++ [(Instr.copyPush (PVal.int 2), sp)] ++
        [(Instr.hostCall "__internal_list_push", sp)])
      { env with lm := (cpE cs.currModule (ρS env.scopes) x env.lm).2 } hres2
    rw [h2]
    simp only [cgEls, List.append_assoc, List.cons_append, List.nil_append]

/-! ## Object literals -/

/-- Distinct field names: the compiler's template is the list of fields as written. -/
theorem dedup_nodup {β} (zs : List (String × β)) (acc : List (String × β))
    (hnd : (zs.map (·.1)).Nodup) (hdis : ∀ k ∈ zs.map (·.1), k ∉ acc.map (·.1)) :
    zs.foldl (fun acc (kv : String × β) => acc.filter (·.1 != kv.1) ++ [(kv.1, kv.2)]) acc = acc ++ zs := by
  induction zs generalizing acc with
  | nil => simp
  | cons z zs ih =>
    simp only [List.map_cons, List.nodup_cons] at hnd
    have hz : acc.filter (·.1 != z.1) = acc := by
      apply List.filter_eq_self.mpr
      intro a ha
      have : a.1 ≠ z.1 := fun e => hdis z.1 (by simp) (List.mem_map.mpr ⟨a, ha, e⟩)
      simpa using this
    simp only [List.foldl_cons, hz]
    rw [ih _ hnd.2]
    · simp
    · intro k hk hmem
      simp only [List.map_append, List.map_cons, List.map_nil, List.mem_append, List.mem_singleton] at hmem
      rcases hmem with h | h
      · exact hdis k (by simp [hk]) h
      · subst h; exact hnd.1 hk

theorem compileObjFields_run (cs : CState) (sp : Span) : ∀ (fs : List (String × Expr)) (fuel : Nat),
    fs.all (fun f => Frag.pureE f.2) = true → Frag.cdEls (fs.map (·.2)) + fs.length + 1 ≤ fuel →
    ∀ (L : List (String × String × Nat)) (c0 : SCode) (env : CEnv),
      Frag.resolved env.scopes (fs.flatMap fun f => Frag.varsE f.2) = true →
      (compileObjFields fuel sp fs).run (updS cs L c0 env) =
        ((), updS cs L (c0 ++ (cgFields cs.currModule (ρS env.scopes) sp fs env.lm).1)
          { env with lm := (cgFields cs.currModule (ρS env.scopes) sp fs env.lm).2 }) := by
  intro fs
  induction fs with
  | nil =>
    intro fuel _ hf L c0 env _
    obtain ⟨f, rfl⟩ : ∃ f, fuel = f + 1 := ⟨fuel - 1, by simp [Frag.cdEls] at hf; omega⟩
    rw [compileObjFields]
    simp [cgFields]
    rfl
  | cons x fs ih =>
    obtain ⟨k, x⟩ := x
    intro fuel hp hf L c0 env hres
    simp only [List.all_cons, Bool.and_eq_true] at hp
    simp only [List.map_cons, Frag.cdEls, List.length_cons] at hf
    simp only [List.flatMap_cons] at hres
    have hres1 : Frag.resolved env.scopes (Frag.varsE x) = true := by
      simp only [Frag.resolved, List.all_append, Bool.and_eq_true] at hres; exact hres.1
    have hres2 : Frag.resolved env.scopes (fs.flatMap fun f => Frag.varsE f.2) = true := by
      simp only [Frag.resolved, List.all_append, Bool.and_eq_true] at hres; exact hres.2
    obtain ⟨f, rfl⟩ : ∃ f, fuel = f + 1 := ⟨fuel - 1, by omega⟩
    rw [compileObjFields]
    refine bind_run _ _ _ _ _ _ (emit_run_S _ _ _ _ _ _) ?_
    refine bind_run _ _ _ _ _ _ (emit_run_S _ _ _ _ _ _) ?_
    refine bind_run _ _ _ _ _ _ (compileExpr_pure_S f x cs L _ env hp.1 (by omega) hres1) ?_
    refine bind_run _ _ _ _ _ _ (emit_run_S _ _ _ _ _ _) ?_
    have h2 := ih f hp.2 (by omega) L
      (c0 ++ [(Instr.dup, sp)] ++ [(Instr.member k, sp)] ++ (cpE cs.currModule (ρS env.scopes) x env.lm).1 ++
        [(Instr.assign, sp)])
      { env with lm := (cpE cs.currModule (ρS env.scopes) x env.lm).2 } hres2
    rw [h2]
    simp only [cgFields, List.append_assoc, List.cons_append, List.nil_append]

/-! ## The `match` lowering -/

theorem compileLit_run (f : Nat) (l : Expr) (h : Frag.litE l = true) (cs : CState) (L) (c0 : SCode) (env : CEnv) :
    (compileExpr (f + 1) l).run (updS cs L c0 env) = ((), updS cs L (c0 ++ litCode l) env) := by
  cases l <;> simp [Frag.litE] at h <;> (rw [compileExpr]; exact emit_run_S _ _ _ _ _ _)

theorem compileLitTests_run (cs : CState) (sp : Span) (name : String) : ∀ (lits : List Expr) (fuel : Nat),
    (∀ l ∈ lits, Frag.litE l = true) → lits.length + 2 ≤ fuel →
    ∀ (L : List (String × String × Nat)) (c0 : SCode) (env : CEnv),
      (compileLitTests fuel sp name lits).run (updS cs L c0 env) =
        ((), updS cs L (c0 ++ litTests sp name lits) env) := by
  intro lits
  induction lits with
  | nil =>
    intro fuel _ hf L c0 env
    obtain ⟨f, rfl⟩ : ∃ f, fuel = f + 1 := ⟨fuel - 1, by omega⟩
    rw [compileLitTests]
    simp [litTests]
    rfl
  | cons l ls ih =>
    intro fuel hl hf L c0 env
    simp only [List.length_cons] at hf
    obtain ⟨f, rfl⟩ : ∃ f, fuel = f + 2 := ⟨fuel - 2, by omega⟩
    rw [compileLitTests]
    refine bind_run _ _ _ _ _ _ (compileLit_run f l (hl l (by simp)) cs L c0 env) ?_
    refine bind_run _ _ _ _ _ _ (emit_run_S _ _ _ _ _ _) ?_
    refine bind_run _ _ _ _ _ _ (emit_run_S _ _ _ _ _ _) ?_
    refine bind_run _ _ _ _ _ _ (emit_run_S _ _ _ _ _ _) ?_
    rw [ih (f + 1) (fun l' h' => hl l' (by simp [h'])) (by omega)]
    simp only [litTests, List.append_assoc, List.cons_append, List.nil_append]

theorem compileArmTests_run (cs : CState) (sp : Span) : ∀ (arms : List (List Expr × Expr)) (fuel : Nat),
    (∀ a ∈ arms, ∀ l ∈ a.1, Frag.litE l = true) → Frag.litsLen arms + arms.length + 3 ≤ fuel →
    ∀ (L : List (String × String × Nat)) (c0 : SCode) (env : CEnv),
      (compileArmTests fuel sp arms).run (updS cs L c0 env) =
        ((armTests cs.currModule sp arms env.lm).2.1,
         updS cs L (c0 ++ (armTests cs.currModule sp arms env.lm).1)
          { env with lm := (armTests cs.currModule sp arms env.lm).2.2 }) := by
  intro arms
  induction arms with
  | nil =>
    intro fuel _ hf L c0 env
    obtain ⟨f, rfl⟩ : ∃ f, fuel = f + 1 := ⟨fuel - 1, by omega⟩
    rw [compileArmTests]
    simp [armTests]
    rfl
  | cons a rest ih =>
    intro fuel hl hf L c0 env
    simp only [List.length_cons, Frag.litsLen] at hf
    obtain ⟨f, rfl⟩ : ∃ f, fuel = f + 1 := ⟨fuel - 1, by omega⟩
    obtain ⟨lits, act⟩ := a
    rw [compileArmTests]
    refine bind_run _ _ _ _ _ _ (mangleLabel_run_S _ _ _ _ _) ?_
    refine bind_run _ _ _ _ _ _ (compileLitTests_run cs sp _ lits f (hl (lits, act) (by simp)) (by simp at hf ⊢; omega) _ _ _) ?_
    refine bind_run _ _ _ _ _ _ (ih f (fun a' h' => hl a' (by simp [h'])) (by omega) _ _ _) ?_
    simp only [armTests, List.append_assoc]
    rfl

theorem compileArmBodies_run (cs : CState) (sp : Span) (after : String) (M : Nat) :
    ∀ (arms : List (List Expr × Expr)) (nms : List String) (fuel : Nat), arms.length = nms.length →
    (∀ a ∈ arms, ∀ f, M ≤ f → f < fuel → CompGE f a.2 cs) → M + arms.length + 1 ≤ fuel →
    ∀ (L : List (String × String × Nat)) (c0 : SCode) (env : CEnv),
      (∀ a ∈ arms, Frag.wsGE env.scopes (φOf cs) a.2 = true) →
      (compileArmBodies fuel sp after (arms.zip nms)).run (updS cs L c0 env) =
        ((), updS cs L (c0 ++ (cgArms cs.currModule (ρS env.scopes) (φOf cs) sp after arms nms env.lm).1)
          { env with lm := (cgArms cs.currModule (ρS env.scopes) (φOf cs) sp after arms nms env.lm).2 }) := by
  intro arms
  induction arms with
  | nil =>
    intro nms fuel hlen _ hf L c0 env _
    obtain ⟨f, rfl⟩ : ∃ f, fuel = f + 1 := ⟨fuel - 1, by omega⟩
    cases nms with
    | cons _ _ => simp at hlen
    | nil =>
      rw [List.zip_nil_left, compileArmBodies]
      simp [cgArms]
      rfl
  | cons a rest ih =>
    intro nms fuel hlen hall hf L c0 env hws
    cases nms with
    | nil => simp at hlen
    | cons nm nms =>
      simp only [List.length_cons] at hf hlen
      obtain ⟨f, rfl⟩ : ∃ f, fuel = f + 1 := ⟨fuel - 1, by omega⟩
      obtain ⟨lits, act⟩ := a
      rw [List.zip_cons_cons, compileArmBodies]
      refine bind_run _ _ _ _ _ _ (emit_run_S _ _ _ _ _ _) ?_
      refine bind_run _ _ _ _ _ _ (emit_run_S _ _ _ _ _ _) ?_
      refine bind_run _ _ _ _ _ _ (hall (lits, act) (by simp) f (by omega) (by omega) L _ env (hws _ (by simp))) ?_
      refine bind_run _ _ _ _ _ _ (emit_run_S _ _ _ _ _ _) ?_
      have h2 := ih nms f (by omega) (fun a' h' f' hM hf' => hall a' (by simp [h']) f' hM (by omega)) (by omega) L
        (c0 ++ [(Instr.label nm, sp)] ++ [(Instr.drop, sp)] ++
            (cgE cs.currModule (ρS env.scopes) (φOf cs) act env.lm).1 ++ [(Instr.jump after, sp)])
        { env with lm := (cgE cs.currModule (ρS env.scopes) (φOf cs) act env.lm).2 }
        (fun a' h' => hws a' (by simp [h']))
      rw [h2]
      simp only [cgArms, List.append_assoc, List.cons_append, List.nil_append]

theorem cdArms_mem : ∀ (arms : List (List Expr × Expr)), ∀ a ∈ arms, Frag.cdE a.2 ≤ Frag.cdArms arms := by
  intro arms
  induction arms with
  | nil => intro a ha; simp at ha
  | cons x xs ih =>
    intro a ha
    simp only [Frag.cdArms]
    rcases List.mem_cons.mp ha with rfl | ha
    · omega
    · have := ih a ha; omega

theorem updS_push (cs : CState) (L) (c0 : SCode) (env : CEnv) :
    ({ updS cs L c0 env with scopes := [] :: (updS cs L c0 env).scopes } : CState) =
      updS cs L c0 { env with scopes := [] :: env.scopes } := rfl

theorem compile_gexpr (fr : Bool) : ∀ (fuel : Nat),
    (∀ (e : Expr) (cs : CState), Frag.okE fr e = true → Frag.cdE e ≤ fuel → CompGE fuel e cs) ∧
    (∀ (b : Block) (cs : CState), Frag.okEB fr b = true → Frag.cdB b ≤ fuel → CompGB fuel b cs) := by
  intro fuel
  induction fuel using Nat.strongRecOn with
  | _ fuel ih =>
  cases fuel with
  | zero =>
    constructor
    · intro e cs _ hd; have := cdE_pos e; omega
    · intro b cs _ hd; have := cdB_pos b; omega
  | succ fuel =>
    have ihE := fun f (hf : f ≤ fuel) => (ih f (by omega)).1
    have ihB := (ih fuel (by omega)).2
    constructor
    · intro e cs hok hd L c0 env hws
      by_cases hp : Frag.pureE e = true
      · have hws' := hws
        simp only [Frag.wsGE, Bool.and_eq_true] at hws'
        rw [varsGE_pure e hp] at hws'
        rw [cgE_of_pure _ _ _ _ _ hp]
        exact compileExpr_pure_S (fuel + 1) e cs L c0 env hp (by have := depthE_le_cdE' e hp; omega) hws'.1
      · cases e <;> try (simp only [Frag.okE, Bool.false_eq_true] at hok)
        case int | bool | str | null | none => simp [Frag.pureE] at hp
        case ident => simp only [Frag.pureE] at hp; exact absurd hok hp
        case grouped sp e =>
          simp only [Frag.cdE] at hd
          rw [compileExpr, cgE]
          exact ihE fuel (Nat.le_refl _) e cs hok (by omega) L c0 env hws
        case pre sp ty op e =>
          simp only [Frag.cdE] at hd
          have h1 := ihE fuel (Nat.le_refl _) e cs hok (by omega) L c0 env hws
          cases op <;>
            (rw [compileExpr, cgE]
             refine bind_run _ _ _ _ _ _ h1 ?_
             rw [emit_run_S, List.append_assoc]; rfl)
        case cast sp ty e =>
          simp only [Bool.and_eq_true] at hok
          simp only [Frag.cdE] at hd
          have h1 := ihE fuel (Nat.le_refl _) e cs hok.2 (by omega) L c0 env hws
          rw [compileExpr, cgE]
          refine bind_run _ _ _ _ _ _ h1 ?_
          rw [emit_run_S, List.append_assoc]
        case «infix» sp ty op l r =>
          simp only [Frag.pureE] at hp
          simp only [Frag.pureE, Bool.or_eq_true, Bool.and_eq_true] at hok
          rcases hok with hpure | ⟨⟨⟨hlog, hl⟩, hr⟩, _⟩
          · exact absurd (by simpa using hpure) hp
          · simp only [Frag.cdE] at hd
            simp only [Frag.wsGE, Frag.varsGE, Frag.callsGE, Bool.and_eq_true] at hws
            rw [resolved_append, callsOK_append] at hws
            have hlog' : Frag.isLogical op = false := by simpa using hlog
            have hor : op ≠ .or := by intro h; subst h; simp [Frag.isLogical] at hlog'
            have hand : op ≠ .and := by intro h; subst h; simp [Frag.isLogical] at hlog'
            have hL := ihE fuel (Nat.le_refl _) l cs hl (by omega) L c0 env
              (by simp only [Frag.wsGE, Bool.and_eq_true]; exact ⟨hws.1.1, hws.2.1⟩)
            have hR := ihE fuel (Nat.le_refl _) r cs hr (by omega) L
              (c0 ++ (cgE cs.currModule (ρS env.scopes) (φOf cs) l env.lm).1)
              { env with lm := (cgE cs.currModule (ρS env.scopes) (φOf cs) l env.lm).2 }
              (by simp only [Frag.wsGE, Bool.and_eq_true]; exact ⟨hws.1.2, hws.2.2⟩)
            rw [compileExpr, cgE]
            · refine bind_run _ _ _ _ _ _ hL ?_
              refine bind_run _ _ _ _ _ _ hR ?_
              rw [arith_run_S _ _ _ _ _ _ hlog']
              simp only [List.append_assoc]
            all_goals (intro h; first | exact hor h | exact hand h)
        case ifE sp ty c t el =>
          cases el with
          | none => simp [Frag.okE] at hok
          | some eb =>
            simp only [Frag.okE, Bool.and_eq_true] at hok
            obtain ⟨⟨hc, ht⟩, he⟩ := hok
            simp only [Frag.cdE] at hd
            simp only [Frag.wsGE, Frag.varsGE, Frag.callsGE, Bool.and_eq_true] at hws
            rw [resolved_append, resolved_append, callsOK_append, callsOK_append] at hws
            obtain ⟨⟨hv1, hv2, hv3⟩, hc1, hc2, hc3⟩ := hws
            have hC := ihE fuel (Nat.le_refl _) c cs hc (by omega) L c0 env
              (by simp only [Frag.wsGE, Bool.and_eq_true]; exact ⟨hv1, hc1⟩)
            have hT := ihB t cs ht (by omega)
            have hE := ihB eb cs he (by omega)
            rw [compileExpr, cgE]
            refine bind_run _ _ _ _ _ _ hC ?_
            refine bind_run _ _ _ _ _ _ (mangleLabel_run_S _ _ _ _ _) ?_
            refine bind_run _ _ _ _ _ _ (mangleLabel_run_S _ _ _ _ _) ?_
            refine bind_run _ _ _ _ _ _ (emit_run_S _ _ _ _ _ _) ?_
            refine bind_run _ _ _ _ _ _ (hT _ _ _ hv2 hc2) ?_
            refine bind_run _ _ _ _ _ _ (emit_run_S _ _ _ _ _ _) ?_
            simp only []
            refine bind_run _ _ _ _ _ _ (emit_run_S _ _ _ _ _ _) ?_
            refine bind_run _ _ _ _ _ _ (hE _ _ _ hv3 hc3) ?_
            rw [emit_run_S]
            simp only [List.append_assoc, List.cons_append, List.nil_append, Option.isSome_some, if_true]
        case list sp ty xs =>
          simp only [Frag.cdE] at hd
          simp only [Frag.wsGE, Frag.varsGE, Bool.and_eq_true] at hws
          have hpure : xs.all Frag.pureE = true := by
            simp only [List.all_eq_true] at hok ⊢
            exact fun x hx => atom_pure x (hok x hx)
          rw [compileExpr, cgE]
          refine bind_run _ _ _ _ _ _ (emit_run_S _ _ _ _ _ _) ?_
          rw [compileListElems_run cs sp xs fuel hpure (by omega) L _ env hws.1]
          simp only [List.append_assoc]
        case obj sp ty fs =>
          simp only [Frag.cdE] at hd
          simp only [Frag.wsGE, Frag.varsGE, Bool.and_eq_true] at hws
          simp only [Bool.and_eq_true, decide_eq_true_eq] at hok
          obtain ⟨⟨hat, hnd⟩, _⟩ := hok
          have hpure : fs.all (fun f => Frag.pureE f.2) = true := by
            simp only [List.all_eq_true] at hat ⊢
            exact fun x hx => atom_pure x.2 (hat x hx)
          have hded : (fs.map fun (x : String × Expr) => (x.1, PVal.null)).foldl
              (fun acc (x : String × PVal) => acc.filter (·.1 != x.1) ++ [(x.1, x.2)]) [] =
              fs.map fun f => (f.1, PVal.null) := by
            rw [dedup_nodup _ [] (by simpa [List.map_map, Function.comp_def] using hnd) (by simp)]
            simp
          rw [compileExpr, cgE]
          simp only []
          rw [show (List.map (fun (x : String × Expr) => match x with | (k, _) => (k, PVal.null)) fs) =
            fs.map fun (x : String × Expr) => (x.1, PVal.null) from rfl]
          rw [show (List.foldl (fun acc (x : String × PVal) => match x with
              | (k, v) => List.filter (fun x => x.1 != k) acc ++ [(k, v)]) []
              (fs.map fun (x : String × Expr) => (x.1, PVal.null))) = fs.map fun f => (f.1, PVal.null) from hded]
          refine bind_run _ _ _ _ _ _ (emit_run_S _ _ _ _ _ _) ?_
          rw [compileObjFields_run cs sp fs fuel hpure (by simpa using hd) L _ env hws.1]
          simp only [List.append_assoc]
        case matchE sp ty c arms dflt =>
          cases dflt with
          | none => simp [Frag.okE] at hok
          | some d =>
            simp only [Frag.okE, Bool.and_eq_true] at hok
            obtain ⟨⟨hc, harms⟩, hdd⟩ := hok
            simp only [Frag.cdE] at hd
            simp only [Frag.wsGE, Frag.varsGE, Frag.callsGE, Bool.and_eq_true] at hws
            rw [resolved_append, resolved_append, callsOK_append, callsOK_append] at hws
            obtain ⟨⟨hv1, hv2, hv3⟩, hc1, hc2, hc3⟩ := hws
            have hC := ihE fuel (Nat.le_refl _) c cs hc (by omega) L c0 env
              (by simp only [Frag.wsGE, Bool.and_eq_true]; exact ⟨hv1, hc1⟩)
            rw [compileExpr, cgE]
            refine bind_run _ _ _ _ _ _ hC ?_
            refine bind_run _ _ _ _ _ _ (mangleLabel_run_S _ _ _ _ _) ?_
            refine bind_run _ _ _ _ _ _ (compileArmTests_run cs sp arms fuel
              (fun a ha => (okGArms_mem fr arms harms a ha).1) (by omega) _ _ _) ?_
            refine bind_run _ _ _ _ _ _ (mangleLabel_run_S _ _ _ _ _) ?_
            simp only [Option.isSome_some, if_true]
            refine bind_run _ _ _ _ _ _ (emit_run_S _ _ _ _ _ _) ?_
            refine bind_run _ _ _ _ _ _ (compileArmBodies_run cs sp _ (Frag.cdArms arms) arms _ fuel
              (armTests_length _ _ _ _).symm
              (fun a ha f' hM _ => ihE f' (by omega) a.2 cs (okGArms_mem fr arms harms a ha).2
                (by have := cdArms_mem arms a ha; omega))
              (by omega) _ _ _ (wsGArms_mem env.scopes (φOf cs) arms hv2 hc2)) ?_
            simp only []
            refine bind_run _ _ _ _ _ _ (emit_run_S _ _ _ _ _ _) ?_
            refine bind_run _ _ _ _ _ _ (emit_run_S _ _ _ _ _ _) ?_
            refine bind_run _ _ _ _ _ _ (ihE fuel (Nat.le_refl _) d cs hdd (by omega) _ _ _
              (by simp only [Frag.wsGE, Bool.and_eq_true]; exact ⟨hv3, hc3⟩)) ?_
            refine bind_run _ _ _ _ _ _ (emit_run_S _ _ _ _ _ _) ?_
            rw [emit_run_S]
            simp only [List.append_assoc, List.cons_append, List.nil_append]
        case index sp ty b i =>
          simp only [Bool.and_eq_true] at hok
          obtain ⟨⟨⟨_, hb⟩, hi⟩, _⟩ := hok
          simp only [Frag.cdE] at hd
          simp only [Frag.wsGE, Frag.varsGE, Frag.callsGE, Bool.and_eq_true] at hws
          rw [resolved_append, callsOK_append] at hws
          have hB := ihE fuel (Nat.le_refl _) b cs hb (by omega) L c0 env
            (by simp only [Frag.wsGE, Bool.and_eq_true]; exact ⟨hws.1.1, hws.2.1⟩)
          have hI := ihE fuel (Nat.le_refl _) i cs hi (by omega) L
            (c0 ++ (cgE cs.currModule (ρS env.scopes) (φOf cs) b env.lm).1)
            { env with lm := (cgE cs.currModule (ρS env.scopes) (φOf cs) b env.lm).2 }
            (by simp only [Frag.wsGE, Bool.and_eq_true]; exact ⟨hws.1.2, hws.2.2⟩)
          rw [compileExpr, cgE]
          refine bind_run _ _ _ _ _ _ hB ?_
          refine bind_run _ _ _ _ _ _ hI ?_
          rw [emit_run_S]
          simp only [List.append_assoc]
        case member sp ty b name mop =>
          cases mop <;> try (simp [Frag.okE] at hok; done)
          simp only [Frag.okE, Bool.and_eq_true] at hok
          simp only [Frag.cdE] at hd
          have hB := ihE fuel (Nat.le_refl _) b cs hok.2 (by omega) L c0 env
            (by simpa [Frag.wsGE, Frag.varsGE, Frag.callsGE] using hws)
          rw [compileExpr, cgE]
          refine bind_run _ _ _ _ _ _ hB ?_
          simp only []
          rw [emit_run_S, List.append_assoc]
        case call sp ty base args sw =>
          rcases okGE_call_inv fr _ _ _ _ _ hok with
            ⟨isp, ity, name, g, f, si, rfl, rfl, hthrow, hprint, hoka, hone⟩ | ⟨msp, mty, b, nm, rfl, rfl, rfl, hfr, _, hb⟩
          rotate_left
          · -- `l.len()`
            simp only [Frag.cdE] at hd
            obtain ⟨f, rfl⟩ : ∃ f, fuel = f + 1 := ⟨fuel - 1, by have := cdE_pos b; omega⟩
            have hB := ihE f (by omega) b cs hb (by omega) L c0 env
              (by simpa [Frag.wsGE, Frag.varsGE, Frag.callsGE, Frag.varsGArgs, Frag.callsGArgs] using hws)
            rw [compileExpr, cgE]
            simp only [List.reverse_nil, List.map_nil]
            rw [compileExprs]
            refine bind_run _ _ _ (updS cs L c0 env) () _ rfl ?_
            simp only [Bool.false_eq_true, if_false]
            rw [compileExpr]
            refine bind_run _ _ _ _ _ _ (bind_run _ _ _ _ _ _ hB (emit_run_S _ _ _ _ _ _)) ?_
            refine bind_run _ _ _ _ _ _ (emit_run_S _ _ _ _ _ _) ?_
            rw [emit_run_S]
            simp only [List.length_nil, List.append_assoc, List.cons_append, List.nil_append]
            rfl
          simp only [Frag.cdE] at hd
          simp only [Frag.wsGE, Frag.varsGE, Frag.callsGE, Bool.and_eq_true] at hws
          obtain ⟨hv, hcs⟩ := hws
          have hcs' : Frag.callsOK env.scopes (φOf cs) ([name] ++ Frag.callsGArgs args) = true := hcs
          rw [callsOK_append] at hcs'
          obtain ⟨hname, hcargs⟩ := hcs'
          simp only [Frag.callsOK, List.all_cons, List.all_nil, Bool.and_true, Bool.and_eq_true,
            Option.isNone_iff_eq_none] at hname
          obtain ⟨hρ, hφ⟩ := hname
          obtain ⟨fm, hfm⟩ := Option.isSome_iff_exists.mp hφ
          have hargs := compileExprs_seq cs (Frag.cdArgs args) (args.reverse.map (·.2)) fuel
            (by
              intro e he f' hM _
              simp only [List.mem_map, List.mem_reverse] at he
              obtain ⟨a, ha, rfl⟩ := he
              have := cdArgs_mem args a ha
              exact ihE f' (by omega) a.2 cs (okGArgs_mem fr args hoka a ha) (by omega))
            (by simp only [List.length_map, List.length_reverse]; omega) L c0 env
            (by
              intro e he
              simp only [List.mem_map, List.mem_reverse] at he
              obtain ⟨a, ha, rfl⟩ := he
              exact wsGArgs_mem env.scopes (φOf cs) args hv hcargs a ha)
          rw [cgEs_rev_args] at hargs
          rw [compileExpr, cgE]
          refine bind_run _ _ _ _ _ _ hargs ?_
          have hth : (name == "throw") = false := by simpa using hthrow
          simp only [hth, Bool.false_eq_true, if_false]
          refine bind_run _ _ _ _ _ _ (getMangled_run_S _ _ _ _ _) ?_
          rw [hρ]
          simp only []
          refine bind_run _ _ _ _ _ _ (getMangledFn_run_S _ _ _ _ _) ?_
          rw [hfm]
          simp only []
          rw [emit_run_S]
          simp only [Option.getD_some, List.append_assoc]
    · intro b cs hok hd L c0 env hv hcalls
      obtain ⟨sp, ty, stmts, oe⟩ := b
      cases stmts with
      | cons _ _ => simp [Frag.okEB] at hok
      | nil =>
        cases oe with
        | none => simp [Frag.okEB] at hok
        | some e =>
          simp only [Frag.okEB] at hok
          simp only [Frag.cdB] at hd
          simp only [Frag.varsGB] at hv
          simp only [Frag.callsGB] at hcalls
          have hfuel : ∃ f', fuel = f' + 1 := ⟨fuel - 1, by have := cdE_pos e; omega⟩
          obtain ⟨f', rfl⟩ := hfuel
          have h1 := ihE (f' + 1) (Nat.le_refl _) e cs hok (by omega) L c0 { env with scopes := [] :: env.scopes }
            (by
              simp only [Frag.wsGE, Bool.and_eq_true]
              rw [resolved_push, callsOK_push]
              exact ⟨hv, hcalls⟩)
          simp only [ρS_push] at h1
          rw [compileBlock, cgB]
          simp only [if_true]
          refine bind_run _ _ _ (updS cs L c0 { env with scopes := [] :: env.scopes }) _ _ rfl ?_
          refine bind_run _ _ _ (updS cs L c0 { env with scopes := [] :: env.scopes }) _ _
            (by rw [compileStmts]; rfl) ?_
          refine bind_run _ _ _ _ _ _ h1 ?_
          rfl

/-- **`compileExpr` on `Frag.okXE`**: element reads compile to `code(l); code(i); Index`. -/
theorem compile_xexpr : ∀ (fuel : Nat) (e : Expr) (cs : CState), Frag.okXE e = true → Frag.cdE e ≤ fuel →
    CompGE fuel e cs := by
  intro fuel
  induction fuel with
  | zero => intro e cs _ hd; have := cdE_pos e; omega
  | succ fuel ih =>
    intro e cs hok hd L c0 env hws
    cases e
    case index sp ty b i =>
      simp only [Frag.okXE, Bool.and_eq_true] at hok
      obtain ⟨⟨hb, hi⟩, _⟩ := hok
      simp only [Frag.cdE] at hd
      simp only [Frag.wsGE, Frag.varsGE, Frag.callsGE, Bool.and_eq_true] at hws
      rw [resolved_append, callsOK_append] at hws
      have hB := ih b cs hb (by omega) L c0 env
        (by simp only [Frag.wsGE, Bool.and_eq_true]; exact ⟨hws.1.1, hws.2.1⟩)
      have hI := ih i cs hi (by omega) L
        (c0 ++ (cgE cs.currModule (ρS env.scopes) (φOf cs) b env.lm).1)
        { env with lm := (cgE cs.currModule (ρS env.scopes) (φOf cs) b env.lm).2 }
        (by simp only [Frag.wsGE, Bool.and_eq_true]; exact ⟨hws.1.2, hws.2.2⟩)
      rw [compileExpr, cgE]
      refine bind_run _ _ _ _ _ _ hB ?_
      refine bind_run _ _ _ _ _ _ hI ?_
      rw [emit_run_S]
      simp only [List.append_assoc]
    case member sp ty b name mop =>
      cases mop <;> try (simp [Frag.okXE, Frag.okGE] at hok; done)
      simp only [Frag.okXE] at hok
      simp only [Frag.cdE] at hd
      have hB := ih b cs hok (by omega) L c0 env
        (by simpa [Frag.wsGE, Frag.varsGE, Frag.callsGE] using hws)
      rw [compileExpr, cgE]
      refine bind_run _ _ _ _ _ _ hB ?_
      simp only []
      rw [emit_run_S, List.append_assoc]
    case grouped sp e =>
      simp only [Frag.okXE] at hok
      simp only [Frag.cdE] at hd
      rw [compileExpr, cgE]
      exact ih e cs hok (by omega) L c0 env hws
    case pre sp ty op e =>
      simp only [Frag.okXE] at hok
      simp only [Frag.cdE] at hd
      have h1 := ih e cs hok (by omega) L c0 env hws
      cases op <;>
        (rw [compileExpr, cgE]
         refine bind_run _ _ _ _ _ _ h1 ?_
         rw [emit_run_S, List.append_assoc]; rfl)
    case «infix» sp ty op l r =>
      by_cases hp : Frag.pureE (.infix sp ty op l r) = true
      · exact (compile_gexpr false (fuel + 1)).1 _ cs (okE_okGE _ _ (by simp only [Frag.okGE, hp, Bool.true_or])) hd L c0 env hws
      have hnp : Frag.pureE (.infix sp ty op l r) = false := by simpa using hp
      simp only [Frag.okXE, hnp, Bool.false_or, Bool.and_eq_true, Bool.not_eq_eq_eq_not, Bool.not_true] at hok
      obtain ⟨⟨⟨hlog, hl⟩, hr⟩, _⟩ := hok
      simp only [Frag.cdE] at hd
      simp only [Frag.wsGE, Frag.varsGE, Frag.callsGE, Bool.and_eq_true] at hws
      rw [resolved_append, callsOK_append] at hws
      have hor : op ≠ .or := by intro h; subst h; simp [Frag.isLogical] at hlog
      have hand : op ≠ .and := by intro h; subst h; simp [Frag.isLogical] at hlog
      have hL := ih l cs hl (by omega) L c0 env
        (by simp only [Frag.wsGE, Bool.and_eq_true]; exact ⟨hws.1.1, hws.2.1⟩)
      have hR := ih r cs hr (by omega) L
        (c0 ++ (cgE cs.currModule (ρS env.scopes) (φOf cs) l env.lm).1)
        { env with lm := (cgE cs.currModule (ρS env.scopes) (φOf cs) l env.lm).2 }
        (by simp only [Frag.wsGE, Bool.and_eq_true]; exact ⟨hws.1.2, hws.2.2⟩)
      rw [compileExpr, cgE]
      · refine bind_run _ _ _ _ _ _ hL ?_
        refine bind_run _ _ _ _ _ _ hR ?_
        rw [arith_run_S _ _ _ _ _ _ hlog]
        simp only [List.append_assoc]
      all_goals (intro h; first | exact hor h | exact hand h)
    all_goals
      exact (compile_gexpr false (fuel + 1)).1 _ cs (okE_okGE _ _ (by simpa [Frag.okXE] using hok)) hd L c0 env hws

/-- **`compileExpr` on a value position** (`Frag.okV`). -/
theorem compile_vexpr (fr : Bool) (fuel : Nat) (e : Expr) (cs : CState) (hok : Frag.okV fr e = true)
    (hd : Frag.cdE e ≤ fuel) : CompGE fuel e cs := by
  simp only [Frag.okV, Bool.or_eq_true] at hok
  rcases hok with h | h
  · exact compile_xexpr fuel e cs h hd
  · exact (compile_gexpr fr fuel).1 e cs h hd

theorem okGE_of_atom' : ∀ (n : Nat) (e : Expr), Frag.depthE e ≤ n → Frag.atomE e = true → Frag.okGE e = true := by
  intro n
  induction n with
  | zero => intro e hd; have := depthE_pos e; omega
  | succ n ih =>
    intro e hd ha
    cases e <;> try (simp [Frag.atomE] at ha; done)
    case int | bool | str | null | none => rfl
    case ident => simpa [Frag.atomE, Frag.okGE] using ha
    case grouped sp e =>
      simp only [Frag.atomE] at ha
      simp only [Frag.okGE]
      exact ih e (by simp only [Frag.depthE] at hd; omega) ha

theorem okGE_of_atom (e : Expr) (h : Frag.atomE e = true) : Frag.okGE e = true :=
  okGE_of_atom' _ e (Nat.le_refl _) h

end HmsProofs.Sim
