import Hms.Parse.Normal
/-! Helper lemmas for C07 (expression parser). -/
namespace HmsProofs.Lemmas.Pratt
open Hms Hms.Pratt

theorem parseE_complete (prec : Prec) (hs : TableSane prec) (p : Nat) (t : Tree) (rest : List TokKind)
    (hn : normal prec p t = true) (hr : headLbp prec rest ≤ p)
    (hsp : rightSpineOK prec (headLbp prec rest) t = true) :
    ∃ n, ∀ fuel, n ≤ fuel → parseE prec fuel p (flatten t ++ rest) = .ok (t, rest) := by
  sorry

theorem parseE_sound (prec : Prec) (fuel p : Nat) (ts rest : List TokKind) (t : Tree)
    (h : parseE prec fuel p ts = .ok (t, rest)) :
    ts = flatten t ++ rest ∧ normal prec p t = true ∧ headLbp prec rest ≤ p
      ∧ rightSpineOK prec (headLbp prec rest) t = true := by
  sorry

theorem parseExpr_ne_fuel (prec : Prec) (ts : List TokKind) : parseExpr prec ts ≠ .error .fuel := by
  sorry

end HmsProofs.Lemmas.Pratt
