import Hms.Parse.Normal
import HmsProofs.Lemmas.PrattFuel
import HmsProofs.Lemmas.PrattSound
import HmsProofs.Lemmas.PrattComplete
import HmsProofs.Lemmas.PrattDropTC
/-! Helper lemmas for C07 (expression parser).

The machinery lives in `PrattBasic` (unfolding/inversion), `PrattFuel` (fuel bound),
`PrattSound` (soundness up to trailing commas, `Flat`), `PrattComplete` and `PrattDropTC`
(the same soundness phrased with the function `dropTrailingCommas`). -/
namespace HmsProofs.Lemmas.Pratt
open Hms Hms.Pratt

theorem parseE_complete (prec : Prec) (hs : TableSane prec) (p : Nat) (t : Tree) (rest : List TokKind)
    (hn : normal prec p t = true) (hr : headLbp prec rest ≤ p)
    (hsp : rightSpineOK prec (headLbp prec rest) t = true) :
    ∃ n, ∀ fuel, n ≤ fuel → parseE prec fuel p (flatten t ++ rest) = .ok (t, rest) :=
  complete_T hs t p rest (t, rest) hn hsp (LOk.stop hr)

/-- Kernel-checked refutation of the naive soundness statement (`ts = flatten t ++ rest` exactly):
`parseArgs` accepts a trailing comma that `flatten` never prints; `[ 1 , ]` parses to the
one-element list, whose flattening is `[ 1 ]`. -/
theorem parseE_sound_false :
    ¬ (∀ (prec : Prec) (fuel p : Nat) (ts rest : List TokKind) (t : Tree),
        parseE prec fuel p ts = .ok (t, rest) →
        ts = flatten t ++ rest ∧ normal prec p t = true ∧ headLbp prec rest ≤ p
          ∧ rightSpineOK prec (headLbp prec rest) t = true) := by
  intro H
  have h := (H (fun _ => (0, 0)) 4 0 [.lBracket, .int, .comma, .rBracket] []
    (.list (.cons (.atom .int) .nil)) rfl).1
  simp [flatten, flattenArgs] at h

/-- Soundness, as it actually holds: whatever `parseE` returns is a normal tree; the consumed
input `c` is a token sequence of that tree up to trailing commas in argument lists (`Flat`); and
the remaining input binds no tighter than the context or the tree's right spine. -/
theorem parseE_sound_partial (prec : Prec) (fuel p : Nat) (ts rest : List TokKind) (t : Tree)
    (h : parseE prec fuel p ts = .ok (t, rest)) :
    ∃ c, ts = c ++ rest ∧ Flat t c ∧ normal prec p t = true ∧ headLbp prec rest ≤ p
      ∧ rightSpineOK prec (headLbp prec rest) t = true :=
  (sound_all prec fuel).1 p ts t rest h

/-- The same, phrased with a function instead of the relation `Flat`: after erasing every comma
that directly precedes `)` or `]`, the input is the tree's flattening followed by the (equally
cleaned) remaining input. -/
theorem parseE_sound_dropTC (prec : Prec) (fuel p : Nat) (ts rest : List TokKind) (t : Tree)
    (h : parseE prec fuel p ts = .ok (t, rest)) :
    dropTrailingCommas ts = flatten t ++ dropTrailingCommas rest ∧ normal prec p t = true
      ∧ headLbp prec rest ≤ p ∧ rightSpineOK prec (headLbp prec rest) t = true := by
  obtain ⟨c, rfl, hf, hn, hrest⟩ := parseE_sound_partial prec fuel p ts rest t h
  exact ⟨flat_drop prec hf p hn rest, hn, hrest⟩

/-- The originally intended statement, for inputs in which no comma is immediately followed
by `)` or `]`. -/
theorem parseE_sound_exact (prec : Prec) (fuel p : Nat) (ts rest : List TokKind) (t : Tree)
    (hntc : hasTrailingComma ts = false)
    (h : parseE prec fuel p ts = .ok (t, rest)) :
    ts = flatten t ++ rest ∧ normal prec p t = true ∧ headLbp prec rest ≤ p
      ∧ rightSpineOK prec (headLbp prec rest) t = true := by
  obtain ⟨c, rfl, hf, hrest⟩ := parseE_sound_partial prec fuel p ts rest t h
  rw [flat_exact hf (hasTC_append hntc).1]
  exact ⟨rfl, hrest⟩

/-- Re-parsing the canonical text of a parse result gives the same result (trailing commas are
the only information the tree drops). -/
theorem parseE_reparse (prec : Prec) (hs : TableSane prec) (fuel p : Nat) (ts rest : List TokKind)
    (t : Tree) (h : parseE prec fuel p ts = .ok (t, rest)) :
    ∃ n, ∀ fuel', n ≤ fuel' → parseE prec fuel' p (flatten t ++ rest) = .ok (t, rest) := by
  obtain ⟨c, _, _, hn, hr, hsp⟩ := parseE_sound_partial prec fuel p ts rest t h
  exact parseE_complete prec hs p t rest hn hr hsp

theorem parseExpr_ne_fuel (prec : Prec) (ts : List TokKind) : parseExpr prec ts ≠ .error .fuel :=
  (nofuel_all prec _).1 0 ts (by omega)

end HmsProofs.Lemmas.Pratt
