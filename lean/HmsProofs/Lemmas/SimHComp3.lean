import HmsProofs.Lemmas.SimHComp2
/-!
# `compileFn` on functions of the general fragment: parameters, statements, trailing expression
-/
namespace HmsProofs.Sim
open Hms.Core Hms.Core.Comp

theorem compileParams_run_S (sp : Span) (cs : CState) (L) : ∀ (ps : List Param) (c0 : SCode) (env : CEnv),
    (compileParams sp ps).run (updS cs L c0 env) =
      ((), updS cs L (c0 ++ (cgParams cs.currModule sp ps env).1) (cgParams cs.currModule sp ps env).2) := by
  intro ps
  induction ps with
  | nil => intro c0 env; rw [compileParams, cgParams, List.append_nil]; rfl
  | cons p ps ih =>
    intro c0 env
    rw [compileParams, cgParams]
    cases hp : p.isSingleton
    · simp only [Bool.not_false, if_true, Bool.false_eq_true, if_false]
      refine bind_run _ _ _ _ _ _ (mangleVar_run_S _ _ _ _ _) ?_
      refine bind_run _ _ _ _ _ _ (emit_run_S _ _ _ _ _ _) ?_
      rw [ih]
      simp only [List.append_assoc, List.cons_append, List.nil_append]
    · simp only [Bool.not_true, Bool.false_eq_true, if_false, if_true]
      exact ih c0 env

theorem compileSingletonParams_none (sp : Span) : ∀ (ps : List Param) (cs : CState),
    (∀ p ∈ ps, p.isSingleton = false) → (compileSingletonParams sp ps).run cs = ((), cs) := by
  intro ps
  induction ps with
  | nil => intro cs _; rw [compileSingletonParams]; rfl
  | cons p ps ih =>
    intro cs h
    rw [compileSingletonParams]
    have hp := h p (by simp)
    simp only [hp, Bool.false_eq_true, if_false]
    exact ih cs (fun q hq => h q (by simp [hq]))

/-! ## `compileFn` -/

/-- The state after the body (code `code`, environment `env`) has been compiled. -/
def gX6 (cs : CState) (fd : FnDef) (code : SCode) (env : CEnv) : CState :=
  updS (fnBase cs fd) cs.loops ([(.addMp 0, fd.sp)] ++ code) env

/-- `cnt` as `compileFn` reads it. -/
def gCnt (cs : CState) (fd : FnDef) (code : SCode) (env : CEnv) : Int :=
  (((gX6 cs fd code env).fns.lookup ((gX6 cs fd code env).currModule, fd.name)).map
    (fun x => (x.cntVars : Int))).getD 0

def gX7 (cs : CState) (fd : FnDef) (code : SCode) (env : CEnv) : CState :=
  { gX6 cs fd code env with
    fns := (gX6 cs fd code env).fns.map fun (k, fn) =>
      if k == ((gX6 cs fd code env).currModule, (gX6 cs fd code env).currFn) then
        (k, { fn with code := fn.code.set 0 (.addMp (gCnt cs fd code env), fd.sp) })
      else (k, fn) }

/-- The state `compileFn` ends in. -/
def gFinal (cs : CState) (fd : FnDef) (code : SCode) (env : CEnv) (cleanup : String) : CState :=
  let x8 := appendCode (appendCode (appendCode (gX7 cs fd code env)
    [(.label cleanup, fd.sp)]) [(.addMp (-(gCnt cs fd code env)), fd.sp)]) [(.ret, fd.sp)]
  { x8 with tryDepth := cs.tryDepth, scopes := x8.scopes.tail }

/-- The pieces of the function as the compiler state `cs` determines them. -/
def partsOf (cs : CState) (fd : FnDef) (stmts : List Stmt) (oe : Option Expr) : FnParts :=
  fnParts cs.currModule (φOf (fnBase cs fd)) fd stmts oe cs.scopes cs.varMangle cs.labelMangle

theorem compileFn_gfrag_run (f2 : Nat) (fd : FnDef) (cs : CState) (bsp : Span) (bty : Ty) (stmts : List Stmt)
    (oe : Option Expr)
    (hbody : fd.body = .mk bsp bty stmts oe) (hparams : ∀ p ∈ fd.params, p.isSingleton = false)
    (hann : fd.hasAnnotation = false) (hloops : cs.loops = [])
    (hs : Frag.okFSs fr false true stmts = true) (he : ∀ e, oe = some e → Frag.okE fr e = true)
    (hd : Frag.cdSs stmts ≤ f2) (hde : ∀ e, oe = some e → Frag.cdE e ≤ f2)
    (hws : Frag.wsGSs cs.currModule fd.name (φOf (fnBase cs fd)) [] stmts (partsOf cs fd stmts oe).envB = true)
    (hwe : ∀ e, oe = some e → Frag.wsGE (partsOf cs fd stmts oe).envS.scopes (φOf (fnBase cs fd)) e = true) :
    (compileFn (f2 + 2) fd).run cs =
      ((), gFinal cs fd ((partsOf cs fd stmts oe).pcode ++ (partsOf cs fd stmts oe).scode ++
        (partsOf cs fd stmts oe).ecode) (partsOf cs fd stmts oe).envE (partsOf cs fd stmts oe).cleanup) := by
  rw [compileFn]
  refine bind_run _ _ _ cs cs _ rfl ?_
  refine bind_run _ _ _ _ _ _ (addFn_run _ _ _) ?_
  refine bind_run _ _ _ _ () _ rfl ?_
  refine bind_run _ _ _ _ () _ rfl ?_
  refine bind_run _ _ _ ({ fnBase cs fd with tryDepth := cs.tryDepth }) _ _ rfl ?_
  refine bind_run _ _ _ (fnBase cs fd) () _ rfl ?_
  rw [hann]
  simp only [Bool.false_eq_true, if_false]
  refine bind_run _ _ _ _ _ _ (currLen_fnBase cs fd) ?_
  rw [← updS_self (fnBase cs fd)]
  refine bind_run _ _ _ _ _ _ (emit_run_S _ _ _ _ _ _) ?_
  refine bind_run _ _ _ _ _ _ (compileParams_run_S _ _ _ _ _ _) ?_
  refine bind_run _ _ _ _ _ _ (compileSingletonParams_none _ _ _ hparams) ?_
  refine bind_run _ _ _ _ _ _ (mangleLabel_run_S _ _ _ _ _) ?_
  have hmod : (fnBase cs fd).currModule = cs.currModule := rfl
  have hlp : (fnBase cs fd).loops = cs.loops := rfl
  simp only [hmod, hlp]
  refine bind_run _ _ _ (updS (fnBase cs fd) cs.loops ([] ++ [(.addMp 0, fd.sp)] ++ (partsOf cs fd stmts oe).pcode)
    (partsOf cs fd stmts oe).envB) () _ ?_ ?_
  · have hpB : (partsOf cs fd stmts oe).envB = bodyEnv cs.currModule fd.name
        (cgParams cs.currModule fd.sp fd.params (envOf (fnBase cs fd))).2 := rfl
    rw [hpB]
    cases hsc : (cgParams cs.currModule fd.sp fd.params (envOf (fnBase cs fd))).2.scopes with
    | nil =>
      show ((), _) = ((), _)
      congr 1
      unfold bodyEnv updS
      simp only [hsc]
      rfl
    | cons sc rest =>
      show ((), _) = ((), _)
      congr 1
      unfold bodyEnv updS
      simp only [hsc]
      rfl
  have hL : loopsOf cs.loops = [] := by rw [hloops]; rfl
  have hSs := (compile_gstmt f2).2.1 stmts (fnBase cs fd) cs.loops false true (fun _ => rfl)
    (by intro h; cases h) hs hd
    ([] ++ [(.addMp 0, fd.sp)] ++ (partsOf cs fd stmts oe).pcode) (partsOf cs fd stmts oe).envB
    (by rw [hL]; exact hws)
  rw [hL] at hSs
  have hsc : (cgSs (fnBase cs fd).currModule (fnBase cs fd).currFn (φOf (fnBase cs fd)) [] stmts
      (partsOf cs fd stmts oe).envB) = ((partsOf cs fd stmts oe).scode, (partsOf cs fd stmts oe).envS) := rfl
  rw [hsc] at hSs
  rw [hbody, compileBlock]
  simp only [Bool.false_eq_true, if_false]
  refine bind_run _ _ _ (gX6 cs fd ((partsOf cs fd stmts oe).pcode ++ (partsOf cs fd stmts oe).scode ++
      (partsOf cs fd stmts oe).ecode) (partsOf cs fd stmts oe).envE) () _ ?_ ?_
  · refine bind_run _ _ _ _ _ _ hSs ?_
    cases oe with
    | none =>
      show ((), _) = ((), _)
      congr 1
      unfold gX6
      have h1 : (partsOf cs fd stmts none).ecode = [] := rfl
      have h2 : (partsOf cs fd stmts none).envE = (partsOf cs fd stmts none).envS := rfl
      rw [h1, h2]
      simp only [List.append_assoc, List.nil_append, List.append_nil]
    | some e =>
      have hE := (compile_gexpr fr f2).1 e (fnBase cs fd) (he e rfl) (hde e rfl) cs.loops
        ([] ++ [(.addMp 0, fd.sp)] ++ (partsOf cs fd stmts (some e)).pcode ++ (partsOf cs fd stmts (some e)).scode)
        (partsOf cs fd stmts (some e)).envS (hwe e rfl)
      simp only []
      refine bind_run _ _ _ _ _ _ hE ?_
      show ((), _) = ((), _)
      congr 1
  refine bind_run _ _ _ (gX6 cs fd _ _) (gX6 cs fd _ _) _ rfl ?_
  refine bind_run _ _ _ (gX7 cs fd _ _) () _ rfl ?_
  refine bind_run _ _ _ _ _ _ (emit_run _ _ _) ?_
  refine bind_run _ _ _ _ _ _ (emit_run _ _ _) ?_
  refine bind_run _ _ _ _ _ _ (emit_run _ _ _) ?_
  rfl

theorem gX6_lookup (cs : CState) (fd : FnDef) (code : SCode) (env : CEnv) :
    (gX6 cs fd code env).fns.lookup (cs.currModule, fd.name) =
      some { name := mangleFnName cs.currModule fd.name, code := (.addMp 0, fd.sp) :: code, cntVars := env.nv } := by
  unfold gX6 updS
  simp only
  have hm := lookup_map_upd (fnBase cs fd).fns ((fnBase cs fd).currModule, (fnBase cs fd).currFn)
    (cs.currModule, fd.name) (fun fn => { fn with
      code := fn.code ++ ([(.addMp 0, fd.sp)] ++ code), cntVars := fn.cntVars + env.nv })
  rw [hm]
  have hb := fnBase_lookup cs fd
  have hk : (cs.currModule, fd.name) = ((fnBase cs fd).currModule, (fnBase cs fd).currFn) := rfl
  rw [if_pos hk, hk, hb]
  simp

theorem gCnt_eq (cs : CState) (fd : FnDef) (code : SCode) (env : CEnv) : gCnt cs fd code env = (env.nv : Int) := by
  unfold gCnt
  have : (gX6 cs fd code env).currModule = cs.currModule := rfl
  rw [this, gX6_lookup]
  rfl

theorem gX7_lookup (cs : CState) (fd : FnDef) (code : SCode) (env : CEnv) :
    (gX7 cs fd code env).fns.lookup (cs.currModule, fd.name) =
      some { name := mangleFnName cs.currModule fd.name, code := (.addMp (env.nv : Int), fd.sp) :: code,
             cntVars := env.nv } := by
  unfold gX7
  simp only
  have hm := lookup_map_upd (gX6 cs fd code env).fns ((gX6 cs fd code env).currModule, (gX6 cs fd code env).currFn)
    (cs.currModule, fd.name) (fun fn => { fn with code := fn.code.set 0 (.addMp (gCnt cs fd code env), fd.sp) })
  have hk : (cs.currModule, fd.name) = ((gX6 cs fd code env).currModule, (gX6 cs fd code env).currFn) := rfl
  rw [if_pos hk] at hm
  show List.lookup _ ((gX6 cs fd code env).fns.map fun p =>
    if p.1 == ((gX6 cs fd code env).currModule, (gX6 cs fd code env).currFn) then
      (p.1, (fun fn : SFn => { fn with code := fn.code.set 0 (.addMp (gCnt cs fd code env), fd.sp) }) p.2) else p) = _
  rw [hm, gX6_lookup, gCnt_eq]
  simp

/-- **What `compileFn` leaves in the function table**: prologue, body, epilogue. -/
theorem gFinal_lookup (cs : CState) (fd : FnDef) (code : SCode) (env : CEnv) (cleanup : String) :
    (gFinal cs fd code env cleanup).fns.lookup (cs.currModule, fd.name) =
      some { name := mangleFnName cs.currModule fd.name,
             code := [(.addMp (env.nv : Int), fd.sp)] ++ code ++
               [(.label cleanup, fd.sp), (.addMp (-(env.nv : Int)), fd.sp), (.ret, fd.sp)],
             cntVars := env.nv } := by
  unfold gFinal
  simp only
  have h7 := gX7_lookup cs fd code env
  have k7 : (cs.currModule, fd.name) = ((gX7 cs fd code env).currModule, (gX7 cs fd code env).currFn) := rfl
  rw [k7] at h7 ⊢
  have h8 := appendCode_lookup (gX7 cs fd code env) [(.label cleanup, fd.sp)] _ h7
  have h9 := appendCode_lookup (appendCode (gX7 cs fd code env) [(.label cleanup, fd.sp)])
    [(.addMp (-(gCnt cs fd code env)), fd.sp)] _ h8
  have h10 := appendCode_lookup (appendCode (appendCode (gX7 cs fd code env) [(.label cleanup, fd.sp)])
    [(.addMp (-(gCnt cs fd code env)), fd.sp)]) [(Instr.ret, fd.sp)] _ h9
  refine h10.trans ?_
  rw [gCnt_eq]
  simp

theorem gFinal_lookup_other (cs : CState) (fd : FnDef) (code : SCode) (env : CEnv) (cleanup : String)
    (k : String × String) (hk : k ≠ (cs.currModule, fd.name)) :
    (gFinal cs fd code env cleanup).fns.lookup k = cs.fns.lookup k := by
  unfold gFinal
  simp only
  rw [appendCode_lookup_other _ _ _ (by exact hk), appendCode_lookup_other _ _ _ (by exact hk),
    appendCode_lookup_other _ _ _ (by exact hk)]
  unfold gX7
  simp only
  have hm := lookup_map_upd (gX6 cs fd code env).fns ((gX6 cs fd code env).currModule, (gX6 cs fd code env).currFn)
    k (fun fn => { fn with code := fn.code.set 0 (.addMp (gCnt cs fd code env), fd.sp) })
  show List.lookup _ ((gX6 cs fd code env).fns.map fun p =>
    if p.1 == ((gX6 cs fd code env).currModule, (gX6 cs fd code env).currFn) then
      (p.1, (fun fn : SFn => { fn with code := fn.code.set 0 (.addMp (gCnt cs fd code env), fd.sp) }) p.2) else p) = _
  rw [hm, if_neg (by exact hk)]
  unfold gX6 updS
  simp only
  have hm6 := lookup_map_upd (fnBase cs fd).fns ((fnBase cs fd).currModule, (fnBase cs fd).currFn)
    k (fun fn => { fn with code := fn.code ++ ([(.addMp 0, fd.sp)] ++ code), cntVars := fn.cntVars + env.nv })
  rw [hm6, if_neg (by exact hk)]
  exact lookup_addFnL_other _ _ _ _ hk

/-- **`compileFn` on a function of the general fragment.** Ordinary parameters, statements
`stmts` (`Frag.okGSs`) and optionally a trailing expression; compiled at top level (no enclosing
loop). The function's entry afterwards holds `cgFn …` — `AddMempointer(n)`, one `SetVar` per
parameter, the statements, the expression, `cleanup:`, `AddMempointer(-n)`, `Return` — with `n`
the number of slots; other functions are untouched. -/
theorem compileFn_gfrag (f2 : Nat) (fd : FnDef) (cs : CState) (bsp : Span) (bty : Ty) (stmts : List Stmt)
    (oe : Option Expr)
    (hbody : fd.body = .mk bsp bty stmts oe) (hparams : ∀ p ∈ fd.params, p.isSingleton = false)
    (hann : fd.hasAnnotation = false) (hloops : cs.loops = [])
    (hs : Frag.okFSs fr false true stmts = true) (he : ∀ e, oe = some e → Frag.okE fr e = true)
    (hd : Frag.cdSs stmts ≤ f2) (hde : ∀ e, oe = some e → Frag.cdE e ≤ f2)
    (hws : Frag.wsGSs cs.currModule fd.name (φOf (fnBase cs fd)) [] stmts (partsOf cs fd stmts oe).envB = true)
    (hwe : ∀ e, oe = some e → Frag.wsGE (partsOf cs fd stmts oe).envS.scopes (φOf (fnBase cs fd)) e = true) :
    ∃ cs', (compileFn (f2 + 2) fd).run cs = ((), cs') ∧
      cs'.fns.lookup (cs.currModule, fd.name) =
        some { name := mangleFnName cs.currModule fd.name,
               code := cgFn cs.currModule (φOf (fnBase cs fd)) fd stmts oe cs.scopes cs.varMangle cs.labelMangle,
               cntVars := (partsOf cs fd stmts oe).envE.nv } ∧
      (∀ k, k ≠ (cs.currModule, fd.name) → cs'.fns.lookup k = cs.fns.lookup k) ∧
      cs'.loops = cs.loops ∧ cs'.tryDepth = cs.tryDepth ∧ cs'.currModule = cs.currModule ∧
      cs'.unsupported = cs.unsupported := by
  refine ⟨_, compileFn_gfrag_run f2 fd cs bsp bty stmts oe hbody hparams hann hloops hs he hd hde hws hwe, ?_,
    fun k hk => gFinal_lookup_other cs fd _ _ _ k hk, rfl, rfl, rfl, rfl⟩
  rw [gFinal_lookup]
  simp only [cgFn, partsOf, List.append_assoc]

end HmsProofs.Sim
