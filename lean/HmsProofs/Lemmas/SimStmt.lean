import HmsProofs.Lemmas.SimPure
/-!
# The compiler model on `let`, assignment and `while`

Statement fragment `Frag.okS`: `let x = e;`, `x = e;`, `x op= e;` (local `x`, pure `e`) and
`while c { … }` over such statements. The emitted code is the pure function `cS` of the statement
and of the compile-time environment `CEnv` (scopes, variable and label counters).
-/
namespace HmsProofs.Sim
open Hms.Core Hms.Core.Comp

/-- The part of the compiler state that statements change, besides the emitted code. -/
structure CEnv where
  scopes : List (List (String × String))
  vm : List (String × Nat)
  lm : LM
  /-- increment of the current function's `cntVars` -/
  nv : Nat

/-- `getMangled` on a scope stack. -/
def ρS (scopes : List (List (String × String))) (x : String) : Option String :=
  scopes.findSome? fun sc => sc.lookup x

def mangleName (mod ident : String) (c : Nat) : String := s!"@{mod}.{ident}.{c}"

/-- `mangleVar` as a pure function. -/
def freshVar (mod : String) (env : CEnv) (ident : String) : String × CEnv :=
  (mangleName mod ident ((env.vm.lookup ident).getD 0),
   { env with
     vm := if (env.vm.lookup ident).isSome then env.vm.map fun (k, n) => if k == ident then (k, n + 1) else (k, n)
           else env.vm ++ [(ident, 1)],
     scopes := match env.scopes with
       | sc :: rest => ((ident, mangleName mod ident ((env.vm.lookup ident).getD 0)) :: sc.filter (·.1 != ident)) :: rest
       | [] => [[(ident, mangleName mod ident ((env.vm.lookup ident).getD 0))]],
     nv := env.nv + 1 })

mutual
/-- **The code of a statement** and the environment afterwards. -/
def cS (mod : String) : Stmt → CEnv → SCode × CEnv
  | .letS sp name _ false _ e, env =>
    let ce := cpE mod (ρS env.scopes) e env.lm
    let fv := freshVar mod { env with lm := ce.2 } name
    (ce.1 ++ [(.setVar fv.1, sp)], { fv.2 with nv := fv.2.nv + 1 })
  | .exprS _ (.assign asp none (.ident _ _ name false _ false) r), env =>
    let cr := cpE mod (ρS env.scopes) r env.lm
    (cr.1 ++ [(.setVar ((ρS env.scopes name).getD name), asp)], { env with lm := cr.2 })
  | .exprS _ (.assign asp (some op) (.ident _ _ name false _ false) r), env =>
    let m := (ρS env.scopes name).getD name
    let cr := cpE mod (ρS env.scopes) r env.lm
    ([(.getVar m, asp)] ++ cr.1 ++ (arithI op).map (·, asp) ++ [(.setVar m, asp)], { env with lm := cr.2 })
  | .exprS _ (.ifE isp _ c t (some eb)), env =>
    let cc := cpE mod (ρS env.scopes) c env.lm
    let after := freshLabel mod cc.2 "if_after"
    let els := freshLabel mod after.2 "else"
    let ct := cB mod t { env with lm := els.2 }
    let ce := cB mod eb ct.2
    (cc.1 ++ [(.jumpIfFalse els.1, isp)] ++ ct.1 ++ [(.jump after.1, isp), (.label els.1, isp)] ++ ce.1 ++
      [(.label after.1, isp)], ce.2)
  | .exprS _ (.ifE isp _ c t none), env =>
    let cc := cpE mod (ρS env.scopes) c env.lm
    let after := freshLabel mod cc.2 "if_after"
    let els := freshLabel mod after.2 "else"
    let ct := cB mod t { env with lm := els.2 }
    (cc.1 ++ [(.jumpIfFalse after.1, isp)] ++ ct.1 ++ [(.jump after.1, isp), (.label after.1, isp)], ct.2)
  | .whileS sp c body, env =>
    let head := freshLabel mod env.lm "loop_head"
    let after := freshLabel mod head.2 "loop_end"
    let cc := cpE mod (ρS env.scopes) c after.2
    let cb := cB mod body { env with lm := cc.2 }
    ([(.label head.1, sp)] ++ cc.1 ++ [(.jumpIfFalse after.1, sp)] ++ cb.1 ++
      [(.jump head.1, sp), (.label after.1, sp)], cb.2)
  | _, env => ([], env)
def cSs (mod : String) : List Stmt → CEnv → SCode × CEnv
  | [], env => ([], env)
  | s :: ss, env => ((cS mod s env).1 ++ (cSs mod ss (cS mod s env).2).1, (cSs mod ss (cS mod s env).2).2)
/-- A block of statements without a trailing expression, compiled in its own scope. -/
def cB (mod : String) : Block → CEnv → SCode × CEnv
  | .mk _ _ stmts none, env =>
    ((cSs mod stmts { env with scopes := [] :: env.scopes }).1,
     { (cSs mod stmts { env with scopes := [] :: env.scopes }).2 with
       scopes := (cSs mod stmts { env with scopes := [] :: env.scopes }).2.scopes.tail })
  | _, env => ([], env)
end

namespace Frag
mutual
/-- The statement fragment. An assigned identifier must be a plain local (`isGlobal = false` and
`isSingleton = false`): globals and singletons are compiled to `GetGlobImm`/`SetGlobImm`. -/
def okS : Stmt → Bool
  | .letS _ _ _ needsCast _ e => !needsCast && pureE e
  | .exprS _ (.assign _ none (.ident _ _ _ false _ false) r) => pureE r
  | .exprS _ (.assign _ (some op) (.ident _ _ _ false _ false) r) => !isLogical op && pureE r
  | .exprS _ (.ifE _ ty c t (some eb)) => ty.isNull && pureE c && okB t && okB eb
  | .exprS _ (.ifE _ ty c t none) => ty.isNull && pureE c && okB t
  | .whileS _ c body => pureE c && okB body
  | _ => false
def okSs : List Stmt → Bool
  | [] => true
  | s :: ss => okS s && okSs ss
def okB : Block → Bool
  | .mk _ _ stmts none => okSs stmts
  | _ => false
end

mutual
def depthS : Stmt → Nat
  | .letS _ _ _ _ _ e => depthE e + 2
  | .exprS _ (.assign _ _ _ r) => depthE r + 2
  | .exprS _ (.ifE _ _ c t (some eb)) => max (depthE c) (max (depthBS t) (depthBS eb)) + 2
  | .exprS _ (.ifE _ _ c t none) => max (depthE c) (depthBS t) + 2
  | .whileS _ c body => max (depthE c) (depthBS body) + 1
  | _ => 1
def depthSs : List Stmt → Nat
  | [] => 1
  | s :: ss => max (depthS s) (depthSs ss) + 1
def depthBS : Block → Nat
  | .mk _ _ stmts _ => depthSs stmts + 1
end

/-- All variables read are resolved by the scopes at that point (well-scopedness), threaded
through the environment changes of the preceding statements. -/
def resolved (scopes : List (List (String × String))) (xs : List String) : Bool :=
  xs.all fun x => (ρS scopes x).isSome

mutual
def wsS (mod : String) : Stmt → CEnv → Bool
  | .letS _ _ _ _ _ e, env => resolved env.scopes (varsE e)
  | .exprS _ (.assign _ _ (.ident _ _ name _ _ _) r), env => resolved env.scopes (name :: varsE r)
  | .exprS _ (.ifE _ _ c t (some eb)), env =>
    resolved env.scopes (varsE c) &&
      wsB mod t { env with lm := (freshLabel mod (freshLabel mod (cpE mod (ρS env.scopes) c env.lm).2 "if_after").2 "else").2 } &&
      wsB mod eb (cB mod t { env with lm :=
        (freshLabel mod (freshLabel mod (cpE mod (ρS env.scopes) c env.lm).2 "if_after").2 "else").2 }).2
  | .exprS _ (.ifE _ _ c t none), env =>
    resolved env.scopes (varsE c) &&
      wsB mod t { env with lm := (freshLabel mod (freshLabel mod (cpE mod (ρS env.scopes) c env.lm).2 "if_after").2 "else").2 }
  | .whileS _ c body, env =>
    resolved env.scopes (varsE c) &&
      wsB mod body { env with lm := (cpE mod (ρS env.scopes) c
        (freshLabel mod (freshLabel mod env.lm "loop_head").2 "loop_end").2).2 }
  | _, _ => true
def wsSs (mod : String) : List Stmt → CEnv → Bool
  | [], _ => true
  | s :: ss, env => wsS mod s env && wsSs mod ss (cS mod s env).2
def wsB (mod : String) : Block → CEnv → Bool
  | .mk _ _ stmts _, env => wsSs mod stmts { env with scopes := [] :: env.scopes }
end
end Frag

/-! ## The compiler state in normal position -/

/-- `cs` with `code` appended to the current function, its variable count raised by `env.nv`,
the given loop stack, and scopes / variable counters / label counters from `env`. -/
def updS (cs : CState) (loops : List (String × String × Nat)) (code : SCode) (env : CEnv) : CState :=
  { cs with
    fns := cs.fns.map fun p =>
      if p.1 == (cs.currModule, cs.currFn) then
        (p.1, { p.2 with code := p.2.code ++ code, cntVars := p.2.cntVars + env.nv })
      else p,
    loops := loops, varMangle := env.vm, labelMangle := env.lm, scopes := env.scopes }

/-- The environment of a compiler state. -/
def envOf (cs : CState) : CEnv := ⟨cs.scopes, cs.varMangle, cs.labelMangle, 0⟩

theorem updS_self (cs : CState) : updS cs cs.loops [] (envOf cs) = cs := by
  unfold updS envOf
  have : (cs.fns.map fun p =>
      if p.1 == (cs.currModule, cs.currFn) then
        (p.1, { p.2 with code := p.2.code ++ [], cntVars := p.2.cntVars + 0 })
      else p) = cs.fns := by
    conv => rhs; rw [← List.map_id cs.fns]
    apply List.map_congr_left
    intro ⟨k, fn⟩ _
    simp
  simp only [this]

@[simp] theorem ρOf_updS (cs L c0 env) : ρOf (updS cs L c0 env) = ρS env.scopes := rfl
@[simp] theorem updS_currModule (cs L c0 env) : (updS cs L c0 env).currModule = cs.currModule := rfl
@[simp] theorem updS_labelMangle (cs L c0 env) : (updS cs L c0 env).labelMangle = env.lm := rfl

theorem upd_updS (cs : CState) (L) (c0 code : SCode) (env : CEnv) (lm' : LM) :
    upd (updS cs L c0 env) code lm' = updS cs L (c0 ++ code) { env with lm := lm' } := by
  unfold upd appendCode updS
  simp only [List.map_map]
  congr 1
  apply List.map_congr_left
  intro ⟨k, fn⟩ _
  simp only [Function.comp]
  split <;> simp_all

theorem emit_run_S (i : SInstr) (sp : Span) (cs : CState) (L) (c0 : SCode) (env : CEnv) :
    (Comp.emit i sp).run (updS cs L c0 env) = ((), updS cs L (c0 ++ [(i, sp)]) env) := by
  rw [emit_run_upd, upd_updS]; rfl

theorem mangleLabel_run_S (ident : String) (cs : CState) (L) (c0 : SCode) (env : CEnv) :
    (mangleLabel ident).run (updS cs L c0 env) =
      ((freshLabel cs.currModule env.lm ident).1,
       updS cs L c0 { env with lm := (freshLabel cs.currModule env.lm ident).2 }) := by
  rw [mangleLabel_run, upd_updS, List.append_nil]; rfl

theorem arith_run_S (op : InfixOp) (sp : Span) (cs : CState) (L) (c0 : SCode) (env : CEnv)
    (h : Frag.isLogical op = false) :
    (arith op sp).run (updS cs L c0 env) = ((), updS cs L (c0 ++ (arithI op).map (·, sp)) env) := by
  rw [arith_run _ _ _ h, appendCode_eq_upd, upd_updS]; rfl

theorem getMangled_run_S (x : String) (cs : CState) (L) (c0 : SCode) (env : CEnv) :
    (getMangled x).run (updS cs L c0 env) = (ρS env.scopes x, updS cs L c0 env) := rfl

theorem bumpVars_run_S (cs : CState) (L) (c0 : SCode) (env : CEnv) :
    bumpVars.run (updS cs L c0 env) = ((), updS cs L c0 { env with nv := env.nv + 1 }) := by
  show ((), _) = ((), _)
  congr 1
  unfold updS
  simp only [List.map_map]
  congr 1
  apply List.map_congr_left
  intro ⟨k, fn⟩ _
  simp only [Function.comp]
  split <;> simp_all [Nat.add_assoc]

theorem mangleVar_run_S (ident : String) (cs : CState) (L) (c0 : SCode) (env : CEnv) :
    (mangleVar ident).run (updS cs L c0 env) =
      ((freshVar cs.currModule env ident).1, updS cs L c0 (freshVar cs.currModule env ident).2) := by
  unfold mangleVar
  refine bind_run _ _ _ _ _ _ (bumpVars_run_S cs L c0 env) ?_
  cases hsc : env.scopes with
  | nil => simp only [StateT.run_bind]; unfold freshVar; simp only [hsc]; rfl
  | cons sc rest => simp only [StateT.run_bind]; unfold freshVar; simp only [hsc]; rfl

/-- A pure expression compiled from a state in normal position. -/
theorem compileExpr_pure_S (fuel : Nat) (e : Expr) (cs : CState) (L) (c0 : SCode) (env : CEnv)
    (hs : Frag.pureE e = true) (hd : Frag.depthE e ≤ fuel)
    (hv : Frag.resolved env.scopes (Frag.varsE e) = true) :
    (compileExpr fuel e).run (updS cs L c0 env) =
      ((), updS cs L (c0 ++ (cpE cs.currModule (ρS env.scopes) e env.lm).1)
        { env with lm := (cpE cs.currModule (ρS env.scopes) e env.lm).2 }) := by
  rw [compileExpr_pure fuel e _ hs hd (by
    intro x hx
    simp only [Frag.resolved, List.all_eq_true] at hv
    exact hv x hx), upd_updS]
  rfl

/-! ## The theorem -/

def CompS (fuel : Nat) (st : Stmt) (cs : CState) : Prop :=
  ∀ (L : List (String × String × Nat)) (c0 : SCode) (env : CEnv), Frag.wsS cs.currModule st env = true →
    (compileStmt fuel st).run (updS cs L c0 env) =
      ((), updS cs L (c0 ++ (cS cs.currModule st env).1) (cS cs.currModule st env).2)

def CompSs (fuel : Nat) (ss : List Stmt) (cs : CState) : Prop :=
  ∀ (L : List (String × String × Nat)) (c0 : SCode) (env : CEnv), Frag.wsSs cs.currModule ss env = true →
    (compileStmts fuel ss).run (updS cs L c0 env) =
      ((), updS cs L (c0 ++ (cSs cs.currModule ss env).1) (cSs cs.currModule ss env).2)

def CompBS (fuel : Nat) (b : Block) (cs : CState) : Prop :=
  ∀ (L : List (String × String × Nat)) (c0 : SCode) (env : CEnv), Frag.wsB cs.currModule b env = true →
    (compileBlock fuel b true).run (updS cs L c0 env) =
      ((), updS cs L (c0 ++ (cB cs.currModule b env).1) (cB cs.currModule b env).2)

theorem resolved_cons {scopes x xs} (h : Frag.resolved scopes (x :: xs) = true) :
    (ρS scopes x).isSome = true ∧ Frag.resolved scopes xs = true := by
  simpa [Frag.resolved] using h

theorem depthS_pos (st : Stmt) : 1 ≤ Frag.depthS st := by
  cases st <;> try (simp [Frag.depthS]; done)
  case exprS sp e =>
    cases e <;> try (simp [Frag.depthS]; done)
    case ifE isp ty c t el => cases el <;> simp [Frag.depthS]

/-- Inversion of `okS` on expression statements: an assignment to a local variable, or an
`if` statement over statement blocks. -/
theorem okS_exprS_inv (sp : Span) (e : Expr) (h : Frag.okS (.exprS sp e) = true) :
    (∃ asp op isp ity name isFn r,
      e = .assign asp op (.ident isp ity name false isFn false) r ∧ Frag.pureE r = true ∧
      (∀ o, op = some o → Frag.isLogical o = false)) ∨
    (∃ isp ty c t eb, e = .ifE isp ty c t (some eb) ∧ ty.isNull = true ∧ Frag.pureE c = true ∧
      Frag.okB t = true ∧ Frag.okB eb = true) ∨
    (∃ isp ty c t, e = .ifE isp ty c t none ∧ ty.isNull = true ∧ Frag.pureE c = true ∧ Frag.okB t = true) := by
  cases e <;> try (simp [Frag.okS] at h; done)
  case assign asp op l r =>
    left
    cases op <;> cases l <;> try (simp [Frag.okS] at h; done)
    · rename_i isp ity name isGlobal isFn isSing
      cases isGlobal <;> cases isSing <;> simp [Frag.okS] at h
      exact ⟨asp, none, isp, ity, name, isFn, r, rfl, h, by simp⟩
    · rename_i o isp ity name isGlobal isFn isSing
      cases isGlobal <;> cases isSing <;> simp [Frag.okS] at h
      exact ⟨asp, some o, isp, ity, name, isFn, r, rfl, h.2, by simp [h.1]⟩
  case ifE isp ty c t el =>
    right
    cases el with
    | some eb =>
      left
      simp only [Frag.okS, Bool.and_eq_true] at h
      exact ⟨isp, ty, c, t, eb, rfl, h.1.1.1, h.1.1.2, h.1.2, h.2⟩
    | none =>
      right
      simp only [Frag.okS, Bool.and_eq_true] at h
      exact ⟨isp, ty, c, t, rfl, h.1.1, h.1.2, h.2⟩

theorem compile_stmt : ∀ (fuel : Nat),
    (∀ (st : Stmt) (cs : CState), Frag.okS st = true → Frag.depthS st ≤ fuel → CompS fuel st cs) ∧
    (∀ (ss : List Stmt) (cs : CState), Frag.okSs ss = true → Frag.depthSs ss ≤ fuel → CompSs fuel ss cs) ∧
    (∀ (b : Block) (cs : CState), Frag.okB b = true → Frag.depthBS b ≤ fuel → CompBS fuel b cs) := by
  intro fuel
  induction fuel using Nat.strongRecOn with
  | _ fuel ihAll =>
  cases fuel with
  | zero =>
    refine ⟨?_, ?_, ?_⟩
    · intro st cs _ hd
      have := depthS_pos st
      omega
    · intro ss cs _ hd; cases ss <;> simp [Frag.depthSs] at hd
    · intro b cs _ hd; obtain ⟨_, _, _, _⟩ := b; simp [Frag.depthBS] at hd
  | succ fuel =>
    obtain ⟨ihS, ihSs, ihB⟩ := ihAll fuel (Nat.lt_succ_self _)
    refine ⟨?_, ?_, ?_⟩
    · intro st cs hs hd L c0 env hws
      cases st
      case typedef | trigger | ret | brk | cont | loopS | forS => simp [Frag.okS] at hs
      case letS sp name vty needsCast oty e =>
        simp only [Frag.okS, Bool.and_eq_true, Bool.not_eq_eq_eq_not, Bool.not_true] at hs
        obtain ⟨hnc, he⟩ := hs
        subst hnc
        simp only [Frag.depthS] at hd
        simp only [Frag.wsS] at hws
        obtain ⟨f', rfl⟩ : ∃ f', fuel = f' + 1 := ⟨fuel - 1, by omega⟩
        rw [compileStmt, cS]
        refine bind_run _ _ _ _ (freshVar cs.currModule
          { env with lm := (cpE cs.currModule (ρS env.scopes) e env.lm).2 } name).1 _ ?_ rfl
        rw [compileLet]
        refine bind_run _ _ _ _ _ _ (compileExpr_pure_S f' e cs L c0 env he (by omega) hws) ?_
        simp only [Bool.false_eq_true, if_false]
        refine bind_run _ _ _ _ _ _ (mangleVar_run_S _ _ _ _ _) ?_
        refine bind_run _ _ _ _ _ _ (emit_run_S _ _ _ _ _ _) ?_
        refine bind_run _ _ _ _ _ _ (bumpVars_run_S _ _ _ _) ?_
        simp only [List.append_assoc]
        rfl
      case exprS sp e =>
        rcases okS_exprS_inv sp e hs with ⟨asp, op, isp, ity, name, isFn, r, rfl, hr, hlog⟩ |
          ⟨isp, ty, cnd, t, eb, rfl, hty, hcnd, ht, heb⟩ | ⟨isp, ty, cnd, t, rfl, hty, hcnd, ht⟩
        · simp only [Frag.depthS] at hd
          obtain ⟨f', rfl⟩ : ∃ f', fuel = f' + 1 := ⟨fuel - 1, by have := depthE_pos r; omega⟩
          simp only [Frag.wsS] at hws
          obtain ⟨hname, hvr⟩ := resolved_cons hws
          cases op with
          | none =>
            rw [compileStmt, cS]
            refine bind_run _ _ _ (updS cs L (c0 ++ _) _) () _ ?_ (by simp [Expr.ty, Ty.isNull]; rfl)
            rw [compileExpr]
            refine bind_run _ _ _ _ _ _ (getMangled_run_S _ _ _ _ _) ?_
            simp only [Bool.or_self, Bool.false_eq_true, if_false]
            refine bind_run _ _ _ _ _ _ (compileExpr_pure_S f' r cs L c0 env hr (by omega) hvr) ?_
            rw [emit_run_S]
            simp only [List.append_assoc]
          | some o =>
            have hlog := hlog o rfl
            rw [compileStmt, cS]
            refine bind_run _ _ _ (updS cs L (c0 ++ _) _) () _ ?_ (by simp [Expr.ty, Ty.isNull]; rfl)
            rw [compileExpr]
            refine bind_run _ _ _ _ _ _ (getMangled_run_S _ _ _ _ _) ?_
            simp only [Bool.or_self, Bool.false_eq_true, if_false]
            refine bind_run _ _ _ _ _ _ (emit_run_S _ _ _ _ _ _) ?_
            refine bind_run _ _ _ _ _ _ (compileExpr_pure_S f' r cs L _ env hr (by omega) hvr) ?_
            refine bind_run _ _ _ _ _ _ (arith_run_S _ _ _ _ _ _ hlog) ?_
            rw [emit_run_S]
            simp only [List.append_assoc, List.cons_append, List.nil_append]
        · -- `if c { … } else { … }`
          simp only [Frag.depthS] at hd
          obtain ⟨f', rfl⟩ : ∃ f', fuel = f' + 1 := ⟨fuel - 1, by have := depthE_pos cnd; omega⟩
          simp only [Frag.wsS, Bool.and_eq_true] at hws
          obtain ⟨⟨hvc, hwt⟩, hwe⟩ := hws
          have ihB' := (ihAll f' (by omega)).2.2
          rw [compileStmt, cS]
          refine bind_run _ _ _ (updS cs L (c0 ++ _) _) () _ ?_ (by simp [Expr.ty, hty]; rfl)
          rw [compileExpr]
          refine bind_run _ _ _ _ _ _ (compileExpr_pure_S f' cnd cs L c0 env hcnd (by omega) hvc) ?_
          refine bind_run _ _ _ _ _ _ (mangleLabel_run_S _ _ _ _ _) ?_
          refine bind_run _ _ _ _ _ _ (mangleLabel_run_S _ _ _ _ _) ?_
          refine bind_run _ _ _ _ _ _ (emit_run_S _ _ _ _ _ _) ?_
          refine bind_run _ _ _ _ _ _ (ihB' t cs ht (by omega) _ _ _ hwt) ?_
          refine bind_run _ _ _ _ _ _ (emit_run_S _ _ _ _ _ _) ?_
          simp only []
          refine bind_run _ _ _ _ _ _ (emit_run_S _ _ _ _ _ _) ?_
          refine bind_run _ _ _ _ _ _ (ihB' eb cs heb (by omega) _ _ _ hwe) ?_
          rw [emit_run_S]
          simp only [List.append_assoc, List.cons_append, List.nil_append, Option.isSome_some, if_true]
        · -- `if c { … }`
          simp only [Frag.depthS] at hd
          obtain ⟨f', rfl⟩ : ∃ f', fuel = f' + 1 := ⟨fuel - 1, by have := depthE_pos cnd; omega⟩
          simp only [Frag.wsS, Bool.and_eq_true] at hws
          obtain ⟨hvc, hwt⟩ := hws
          have ihB' := (ihAll f' (by omega)).2.2
          rw [compileStmt, cS]
          refine bind_run _ _ _ (updS cs L (c0 ++ _) _) () _ ?_ (by simp [Expr.ty, hty]; rfl)
          rw [compileExpr]
          refine bind_run _ _ _ _ _ _ (compileExpr_pure_S f' cnd cs L c0 env hcnd (by omega) hvc) ?_
          refine bind_run _ _ _ _ _ _ (mangleLabel_run_S _ _ _ _ _) ?_
          refine bind_run _ _ _ _ _ _ (mangleLabel_run_S _ _ _ _ _) ?_
          refine bind_run _ _ _ _ _ _ (emit_run_S _ _ _ _ _ _) ?_
          refine bind_run _ _ _ _ _ _ (ihB' t cs ht (by omega) _ _ _ hwt) ?_
          refine bind_run _ _ _ _ _ _ (emit_run_S _ _ _ _ _ _) ?_
          simp only []
          rw [emit_run_S]
          simp only [List.append_assoc, List.cons_append, List.nil_append, Option.isSome_none, Bool.false_eq_true,
            if_false]
      case whileS sp c body =>
        simp only [Frag.okS, Bool.and_eq_true] at hs
        obtain ⟨hc, hb⟩ := hs
        simp only [Frag.depthS] at hd
        simp only [Frag.wsS, Bool.and_eq_true] at hws
        obtain ⟨hvc, hwb⟩ := hws
        rw [compileStmt, cS]
        refine bind_run _ _ _ _ _ _ (mangleLabel_run_S _ _ _ _ _) ?_
        refine bind_run _ _ _ _ _ _ (mangleLabel_run_S _ _ _ _ _) ?_
        refine bind_run _ _ _ _ _ _ (emit_run_S _ _ _ _ _ _) ?_
        refine bind_run _ _ _ _ _ _ (compileExpr_pure_S fuel c cs L _ _ hc (by omega) hvc) ?_
        refine bind_run _ _ _ _ _ _ (emit_run_S _ _ _ _ _ _) ?_
        refine bind_run _ _ _ (updS cs (_ :: L) _ _) _ _ rfl ?_
        refine bind_run _ _ _ _ _ _ (ihB body cs hb (by omega) _ _ _ hwb) ?_
        refine bind_run _ _ _ _ _ _ (emit_run_S _ _ _ _ _ _) ?_
        refine bind_run _ _ _ _ _ _ (emit_run_S _ _ _ _ _ _) ?_
        simp only [List.append_assoc, List.cons_append, List.nil_append]
        rfl
    · intro ss cs hs hd L c0 env hws
      cases ss with
      | nil => rw [compileStmts, cSs, List.append_nil]; rfl
      | cons st ss =>
        simp only [Frag.okSs, Bool.and_eq_true] at hs
        simp only [Frag.depthSs] at hd
        simp only [Frag.wsSs, Bool.and_eq_true] at hws
        rw [compileStmts, cSs]
        refine bind_run _ _ _ _ _ _ (ihS st cs hs.1 (by omega) L c0 env hws.1) ?_
        rw [ihSs ss cs hs.2 (by omega) L _ _ hws.2, List.append_assoc]
    · intro b cs hs hd L c0 env hws
      obtain ⟨bsp, bty, stmts, oe⟩ := b
      cases oe with
      | some _ => simp [Frag.okB] at hs
      | none =>
        simp only [Frag.okB] at hs
        simp only [Frag.depthBS] at hd
        simp only [Frag.wsB] at hws
        rw [compileBlock, cB]
        simp only [if_true]
        refine bind_run _ _ _ (updS cs L c0 { env with scopes := [] :: env.scopes }) _ _ rfl ?_
        refine bind_run _ _ _ _ _ _ (ihSs stmts cs hs (by omega) L c0 _ hws) ?_
        rfl

end HmsProofs.Sim
