import HmsGen.MapRanges
import Hms.Mod.Order
import HmsProofs.Lemmas.ModPerm
import HmsProofs.Lemmas.ModMangle
import HmsProofs.Lemmas.ModLink
import HmsProofs.Lemmas.ModInit
/-!
# Classification of every `range` over a map and of every package-level variable

`HmsGen.mapRanges` / `HmsGen.packageVars` are regenerated from the Go code on every run
(`harness/inventory.go`, go/packages + go/types). Every entry must appear in the hand-written
tables below with a verdict; a new map iteration or a new package-level variable makes
`HmsProofs.C14.map_ranges_covered` / `fresh_state` fail (an undischarged obligation).

Lemma names are double-backtick names: they are resolved when this file is compiled, so a table
entry cannot point at a lemma that does not exist.
-/
namespace Hms.Mod

/-- a loop that emits one batch of diagnostics per entry: the multiset does not depend on the order -/
theorem perm_invariant_emit {α β} (f : α → List β) {l₁ l₂ : List α} (h : l₁.Perm l₂) :
    (l₁.flatMap f).Perm (l₂.flatMap f) := h.flatMap_right f

/-- a loop that searches for an entry with a property (`break`/`return` a constant on the first hit) -/
theorem perm_invariant_any {α} (p : α → Bool) {l₁ l₂ : List α} (h : l₁.Perm l₂) : l₁.any p = l₂.any p := by
  induction h with
  | nil => rfl
  | cons x _ ih => simp [List.any_cons, ih]
  | swap x y l => simp only [List.any_cons]; cases p x <;> cases p y <;> rfl
  | trans _ _ ih₁ ih₂ => exact ih₁.trans ih₂

inductive Verdict where
  /-- the order cannot reach an observable, because … -/
  | unobservable (why : String)
  /-- order-independence of the modelled computation is a theorem -/
  | covered (lemma : Lean.Name) (why : String)
  /-- order-independence holds only under the hypothesis of the named partial theorem: open finding -/
  | openFinding (id : String) (lemma : Lean.Name) (why : String)
  /-- outside the model (said so in the evidence) -/
  | unmodelled (why : String)

abbrev Site := String × String × Nat

def insertOnly := "the body only stores one entry per key into another map (keys are distinct): the resulting map is the same"
def sortedFirst := "the keys are collected, sorted, and only then used"
def forall_ := "the loop returns a constant on the first failing entry: its result is a conjunction over the entries"
def warnings := "one diagnostic per entry is appended: the multiset of diagnostics is the same"

def classification : List (Site × Verdict) := [
  (("analyzer/analyzer.go", "Analyzer.analyzeModule", 0), .covered ``perm_invariant_rebuild ("scope additions → root scope; " ++ insertOnly)),
  (("analyzer/analyzer.go", "Analyzer.analyzeModule", 1), .covered ``perm_invariant_rebuild ("each singleton updates the one output entry of its own name; " ++ insertOnly)),
  (("analyzer/analyzer.go", "Analyzer.analyzeModule", 2), .covered ``perm_invariant_dropScope ("unused singletons; " ++ warnings)),
  (("analyzer/analyzer.go", "Analyzer.dropScope", 0), .covered ``perm_invariant_dropScope ("unused types; " ++ warnings)),
  (("analyzer/analyzer.go", "Analyzer.dropScope", 1), .covered ``perm_invariant_dropScope ("unused variables / parameters / imports; " ++ warnings)),
  (("analyzer/ast/expression.go", "escapeHmsString", 0), .unobservable "three replacements of distinct single characters (newline, quote, tab); no replacement text contains a character another rule replaces: they commute (argued, exercised by C19)"),
  (("analyzer/singleton.go", "Analyzer.WithCapabilities", 0), .covered ``perm_invariant_sortByKey ("capability names of an implementation (repaired: finding A13); " ++ sortedFirst)),
  (("analyzer/topLevel.go", "Analyzer.validateTemplateConstraints", 0), .covered ``perm_invariant_emit ("required template methods; " ++ warnings ++ " (host templates: not generated)")),
  (("analyzer/topLevel.go", "Analyzer.validateTemplateConstraints", 1), .covered ``perm_invariant_any "is the method one of the required ones: an existence test"),
  (("compiler/compiler.go", "Compiler.Compile", 0), .covered ``perm_invariant_rebuild ("modules → output functions, keyed by mangled name (injective: mangleFn_injective_partial); " ++ insertOnly)),
  (("compiler/compiler.go", "Compiler.Compile", 1), .covered ``perm_invariant_rebuild ("functions of a module → output functions; " ++ insertOnly)),
  (("compiler/compiler.go", "Compiler.compileProgram", 0), .openFinding "V22" ``perm_invariant_compileProgram_partial "pass 1 over the modules: all globals share scope 0 keyed by the source name — order-independent only without cross-module clashes"),
  (("compiler/compiler.go", "Compiler.compileProgram", 1), .covered ``perm_invariant_rebuild ("entry module functions → mappings; " ++ insertOnly)),
  (("compiler/compiler.go", "Compiler.compileProgram", 2), .openFinding "V22" ``perm_invariant_compileProgram_partial "pass 2 over the modules: function bodies; names are linked through getMangledFn / scope 0"),
  (("compiler/compiler.go", "Compiler.compileProgram", 3), .covered ``init_once_vm "order of the calls to the other modules' @init: each is called exactly once and initialisers are constants writing only their own module's globals"),
  (("compiler/instruction.go", "CompileOutput.AsmStringHighlight", 0), .covered ``perm_invariant_sortByKey sortedFirst),
  (("compiler/ir.go", "Compiler.relocateLabels", 0), .covered ``perm_invariant_rebuild ("modules; every function is relocated on its own; " ++ insertOnly)),
  (("compiler/ir.go", "Compiler.relocateLabels", 1), .covered ``perm_invariant_rebuild ("functions of a module; labels are local to a function; " ++ insertOnly)),
  (("compiler/ir.go", "Compiler.renameVariables", 0), .openFinding "V12" ``perm_invariant_renameVariables_partial "modules: the slot map is shared by all functions — order-independent only when no variable name occurs in two functions (no captures; mangling injective)"),
  (("compiler/ir.go", "Compiler.renameVariables", 1), .openFinding "V12" ``perm_invariant_renameVariables_partial "functions of a module: as above"),
  (("compiler/util.go", "Compiler.getMangledFn", 0), .covered ``lookup_perm_of_nodup_keys "search of the current module's functions for a key: at most one entry matches"),
  (("compiler/util.go", "Compiler.getMangledFn", 1), .openFinding "V22" ``link_correct_partial "fallback to any module: the first module in map order that has a function of that name"),
  (("compiler/util.go", "Compiler.getMangledFn", 2), .openFinding "V22" ``link_correct_partial "fallback to any module (inner loop over its functions): at most one entry matches per module"),
  (("compiler/util.go", "upgradeValue", 0), .covered ``perm_invariant_rebuild ("any-object fields; " ++ insertOnly)),
  (("compiler/util.go", "upgradeValue", 1), .covered ``perm_invariant_rebuild ("object fields; " ++ insertOnly)),
  (("interpreter/module.go", "Interpreter.execModule", 0), .covered ``perm_invariant_rebuild ("scope additions → root scope; " ++ insertOnly)),
  (("interpreter/util.go", "Interpreter.callFunc", 0), .covered ``perm_invariant_rebuild ("evaluated arguments (a map built from the ordered argument list) → new scope; " ++ insertOnly)),
  (("interpreter/value/cast.go", "deepCastRecursive", 0), .covered ``perm_invariant_sortByKey ("after the fix for V35: " ++ sortedFirst ++ " (before: the first failing field in map order was reported)")),
  (("interpreter/value/cast.go", "DeepCast", 0), .covered ``perm_invariant_sortByKey ("after the fix for V35: " ++ sortedFirst ++ " (before: the first failing field in map order was reported)")),
  (("interpreter/value/json.go", "sortedFieldKeys", 0), .covered ``perm_invariant_sortByKey ("field names of an object / any-object for to_json (repaired: finding M4 — the loops of marshalValue ranged over the map and returned at the first field that cannot be encoded, so the error named a field in map order); " ++ sortedFirst)),
  (("interpreter/value/json.go", "unmarshalValue", 0), .covered ``perm_invariant_rebuild ("decoded JSON object → fields; the error return is unreachable for values produced by encoding/json; " ++ insertOnly)),
  (("interpreter/value/valueAnyObject.go", "containsAnyObject", 0), .covered ``perm_invariant_any "is the any-object contained in some field (repair X29): an existence test"),
  (("interpreter/value/valueAnyObject.go", "containsAnyObject", 1), .covered ``perm_invariant_any "is the any-object contained in some field (repair X29): an existence test"),
  (("interpreter/value/valueAnyObject.go", "ValueAnyObject.Display", 0), .covered ``perm_invariant_displayFields sortedFirst),
  (("interpreter/value/valueAnyObject.go", "ValueAnyObject.Fields", 0), .covered ``perm_invariant_sortByKey ("`keys`: " ++ sortedFirst)),
  (("interpreter/value/valueAnyObject.go", "ValueAnyObject.IsEqual", 0), .covered ``perm_invariant_fieldsEqual forall_),
  (("interpreter/value/valueObject.go", "ValueObject.IntoAnyObject", 0), .covered ``perm_invariant_rebuild ("copy of the fields into the new any-object (repair X27); " ++ insertOnly)),
  (("interpreter/value/valueObject.go", "ValueObject.Display", 0), .covered ``perm_invariant_displayFields sortedFirst),
  (("interpreter/value/valueObject.go", "ValueObject.Fields", 0), .covered ``perm_invariant_sortByKey ("`keys`: " ++ sortedFirst)),
  (("interpreter/value/valueObject.go", "ValueObject.Fields", 1), .covered ``perm_invariant_rebuild ("fields → member table; " ++ insertOnly)),
  (("interpreter/value/valueObject.go", "ValueObject.IsEqual", 0), .covered ``perm_invariant_fieldsEqual forall_),
  (("optimizer/optimizer.go", "Optimizer.Optimize", 0), .covered ``perm_invariant_rebuild ("modules are optimised one by one; " ++ insertOnly ++ "; " ++ warnings)),
  (("runtime/core.go", "Core.Run", 0), .unobservable "inside `if vmVerbose != VMNotVerbose` with `const vmVerbose = VMNotVerbose`: dead code in every build"),
  (("runtime/execute.go", "Core.runInstruction", 0), .unobservable "dump of all globals appended (after the first line) to the message of an internal abort — a host panic of the VM, judged by C02; nothing else reads it"),
  (("runtime/value/cast.go", "deepCastRecursive", 0), .covered ``perm_invariant_sortByKey ("after the fix for V35: " ++ sortedFirst ++ " (before: the first failing field in map order was reported)")),
  (("runtime/value/json.go", "MarshalValue", 0), .covered ``perm_invariant_rebuild ("any-object fields → map for encoding/json (which sorts keys); " ++ insertOnly)),
  (("runtime/value/json.go", "MarshalValue", 1), .covered ``perm_invariant_rebuild ("object fields → map for encoding/json; " ++ insertOnly)),
  (("runtime/value/json.go", "UnmarshalValue", 0), .covered ``perm_invariant_rebuild ("decoded JSON object → fields; the error return is unreachable for values produced by encoding/json; " ++ insertOnly)),
  (("runtime/value/valueAnyObject.go", "containsAnyObject", 0), .covered ``perm_invariant_any "is the any-object contained in some field (repair X29): an existence test"),
  (("runtime/value/valueAnyObject.go", "containsAnyObject", 1), .covered ``perm_invariant_any "is the any-object contained in some field (repair X29): an existence test"),
  (("runtime/value/valueAnyObject.go", "ValueAnyObject.Clone", 0), .covered ``perm_invariant_rebuild ("field-wise clone; " ++ insertOnly)),
  (("runtime/value/valueAnyObject.go", "ValueAnyObject.Display", 0), .covered ``perm_invariant_displayFields sortedFirst),
  (("runtime/value/valueAnyObject.go", "ValueAnyObject.Fields", 0), .covered ``perm_invariant_sortByKey ("`keys`: " ++ sortedFirst)),
  (("runtime/value/valueAnyObject.go", "ValueAnyObject.IsEqual", 0), .covered ``perm_invariant_fieldsEqual forall_),
  (("runtime/value/valueObject.go", "ValueObject.Clone", 0), .covered ``perm_invariant_rebuild ("field-wise clone; " ++ insertOnly)),
  (("runtime/value/valueObject.go", "ValueObject.Display", 0), .covered ``perm_invariant_displayFields sortedFirst),
  (("runtime/value/valueObject.go", "ValueObject.DisplayFlat", 0), .unobservable "no caller anywhere in the tree (dead exported method; it does follow map order, like Display before the fix for V21)"),
  (("runtime/value/valueObject.go", "ValueObject.Fields", 0), .covered ``perm_invariant_sortByKey ("`keys`: " ++ sortedFirst)),
  (("runtime/value/valueObject.go", "ValueObject.Fields", 1), .covered ``perm_invariant_rebuild ("fields → member table; " ++ insertOnly)),
  (("runtime/value/valueObject.go", "ValueObject.IsEqual", 0), .covered ``perm_invariant_fieldsEqual forall_)
]

def classify (s : Site) : Option Verdict := classification.lookup s

/-! ## Package-level variables -/

inductive VarVerdict where
  /-- never written after initialisation: a constant table -/
  | constantTable (why : String)
  /-- mutable state shared between runs -/
  | mutableState (why : String)

def varClassification : List ((String × String) × VarVerdict) := [
  (("parser/ast/types.go", "HMS_BUILTIN_TYPES"), .constantTable "list of builtin type names, only read (a `for … range` over the slice in parser/statement.go)"),
  (("testing_run.go", "testingLimits"), .constantTable "limits used by the repository's own test runner, only read")
]

def VarVerdict.isConstant : VarVerdict → Bool
  | .constantTable _ => true
  | .mutableState _ => false

end Hms.Mod
