import HmsProofs.Lemmas.MembersList
/-!
# Lemmas for C18: results of the modelled members conform to the signatures `expectedSig`
-/
namespace HmsProofs.Lemmas.Members
open Hms.Members HmsGen

/-! ## `conforms` -/

theorem conformsAll_append (xs ys : List MVal) (e : GTy) :
    conformsAll (xs ++ ys) e = (conformsAll xs e && conformsAll ys e) := by
  induction xs with
  | nil => simp [conformsAll]
  | cons x xs ih => simp [conformsAll, ih, Bool.and_assoc]

theorem conformsAll_getElem? {xs : List MVal} {e : GTy} (h : conformsAll xs e = true) {k : Nat} {v : MVal}
    (hv : xs[k]? = Option.some v) : conforms v e = true := by
  induction xs generalizing k with
  | nil => simp at hv
  | cons x xs ih =>
    simp [conformsAll] at h
    cases k with
    | zero => simp at hv; subst hv; exact h.1
    | succ k => simp at hv; exact ih h.2 hv

theorem conformsAll_take {xs : List MVal} {e : GTy} (h : conformsAll xs e = true) (k : Nat) :
    conformsAll (xs.take k) e = true := by
  induction xs generalizing k with
  | nil => simp [conformsAll]
  | cons x xs ih =>
    simp [conformsAll] at h
    cases k with
    | zero => simp [conformsAll]
    | succ k => simp [conformsAll, h.1, ih h.2 k]

theorem conformsAll_drop {xs : List MVal} {e : GTy} (h : conformsAll xs e = true) (k : Nat) :
    conformsAll (xs.drop k) e = true := by
  induction xs generalizing k with
  | nil => simp [conformsAll]
  | cons x xs ih =>
    simp [conformsAll] at h
    cases k with
    | zero => simp [conformsAll, h.1, h.2]
    | succ k => simp [ih h.2 k]

theorem conformsAll_eraseIdx {xs : List MVal} {e : GTy} (h : conformsAll xs e = true) (k : Nat) :
    conformsAll (xs.eraseIdx k) e = true := by
  rw [List.eraseIdx_eq_take_drop_succ, conformsAll_append, conformsAll_take h, conformsAll_drop h]; rfl

theorem conformsAll_dropLast {xs : List MVal} {e : GTy} (h : conformsAll xs e = true) :
    conformsAll xs.dropLast e = true := by
  rw [List.dropLast_eq_take]; exact conformsAll_take h _

theorem conformsAll_getLast? {xs : List MVal} {e : GTy} (h : conformsAll xs e = true) {v : MVal}
    (hv : xs.getLast? = Option.some v) : conforms v e = true := by
  rw [List.getLast?_eq_getElem?] at hv
  exact conformsAll_getElem? h hv

theorem conforms_list_inv {v : MVal} {e : GTy} (h : conforms v (.list e) = true) :
    ∃ xs, v = .list xs ∧ conformsAll xs e = true := by
  cases v <;> simp [conforms] at h
  exact ⟨_, rfl, h⟩

theorem conforms_opt_inv {v : MVal} {e : GTy} (h : conforms v (.opt e) = true) :
    v = .none ∨ ∃ w, v = .some w ∧ conforms w e = true := by
  cases v <;> simp [conforms] at h
  · exact Or.inl rfl
  · exact Or.inr ⟨_, rfl, h⟩

theorem conforms_int_inv {v : MVal} (h : conforms v .int = true) : ∃ i, v = .int i := by
  cases v <;> simp [conforms] at h
  exact ⟨_, rfl⟩

theorem conforms_str_inv {v : MVal} (h : conforms v .str = true) : ∃ cs, v = .str cs := by
  cases v <;> simp [conforms] at h
  exact ⟨_, rfl⟩

theorem conforms_bool_inv {v : MVal} (h : conforms v .bool = true) : ∃ b, v = .bool b := by
  cases v <;> simp [conforms] at h
  exact ⟨_, rfl⟩

theorem conforms_range_inv {v : MVal} (h : conforms v .range = true) : ∃ a b i, v = .range a b i := by
  cases v <;> simp [conforms] at h
  exact ⟨_, _, _, rfl⟩

theorem conforms_anyobj_inv {v : MVal} (h : conforms v .anyobj = true) : ∃ ks vs, v = .anyobj ks vs := by
  cases v <;> simp [conforms] at h
  exact ⟨_, _, rfl⟩

theorem conforms_obj_inv {v : MVal} (h : conforms v .obj = true) : ∃ ks vs, v = .obj ks vs := by
  cases v <;> simp [conforms] at h
  exact ⟨_, _, rfl⟩

theorem conforms_any (v : MVal) : conforms v .any = true := by
  cases v <;> simp [conforms]

theorem conformsArgs_nil {args : List MVal} (h : conformsArgs args [] = true) : args = [] := by
  cases args <;> simp [conformsArgs] at h ⊢

theorem conformsArgs_one {args : List MVal} {t : GTy} (h : conformsArgs args [t] = true) :
    ∃ v, args = [v] ∧ conforms v t = true := by
  cases args with
  | nil => simp [conformsArgs] at h
  | cons v vs =>
    simp [conformsArgs] at h
    have := conformsArgs_nil h.2
    subst this
    exact ⟨v, rfl, h.1⟩

theorem conformsArgs_two {args : List MVal} {t u : GTy} (h : conformsArgs args [t, u] = true) :
    ∃ v w, args = [v, w] ∧ conforms v t = true ∧ conforms w u = true := by
  cases args with
  | nil => simp [conformsArgs] at h
  | cons v vs =>
    simp [conformsArgs] at h
    obtain ⟨w, rfl, hw⟩ := conformsArgs_one h.2
    exact ⟨v, w, rfl, h.1, hw⟩

theorem conformsAll_strs (ks : List String) :
    conformsAll (ks.map fun k => MVal.str k.toList) .str = true := by
  induction ks with
  | nil => simp [conformsAll]
  | cons k ks ih => simp [conformsAll, conforms, ih]

/-! ## Every modelled member behaves as typed -/

theorem typed_generic (T : GTy) (name : String) (params : List GTy) (result : GTy)
    (hs : expectedSig T name = some (params, result)) (vm : Bool) (recv : MVal) (args : List MVal)
    (hr : conforms recv T = true) (hz : goSized recv) (ha : conformsArgs args params = true) :
    typedOutcome (callMember vm recv name args) T result := by
  unfold expectedSig at hs
  split at hs <;> simp only [Option.some.injEq, Prod.mk.injEq, reduceCtorEq] at hs
  all_goals (obtain ⟨rfl, rfl⟩ := hs)
  -- list: len
  · obtain ⟨xs, rfl, hx⟩ := conforms_list_inv hr
    have := conformsArgs_nil ha; subst this
    simp [callMember, typedOutcome, conforms, hx]
  -- push
  · obtain ⟨xs, rfl, hx⟩ := conforms_list_inv hr
    obtain ⟨v, rfl, hv⟩ := conformsArgs_one ha
    simp [callMember, typedOutcome, conforms, conformsAll_append, conformsAll, hx, hv]
  -- push_front
  · obtain ⟨xs, rfl, hx⟩ := conforms_list_inv hr
    obtain ⟨v, rfl, hv⟩ := conformsArgs_one ha
    simp [callMember, typedOutcome, conforms, conformsAll, hx, hv]
  -- pop
  · obtain ⟨xs, rfl, hx⟩ := conforms_list_inv hr
    have := conformsArgs_nil ha; subst this
    simp only [callMember]
    rw [listPop_spec xs hz]
    cases hl : xs.getLast? with
    | none => simp [typedOutcome, conforms, hx]
    | some v => simp [typedOutcome, conforms, conformsAll_getLast? hx hl, conformsAll_dropLast hx]
  -- pop_front
  · obtain ⟨xs, rfl, hx⟩ := conforms_list_inv hr
    have := conformsArgs_nil ha; subst this
    simp only [callMember]
    rw [listPopFront_spec xs hz]
    cases xs with
    | nil => simp [typedOutcome, conforms, conformsAll]
    | cons v rest =>
      simp [conformsAll] at hx
      simp [typedOutcome, conforms, hx.1, hx.2]
  -- last
  · obtain ⟨xs, rfl, hx⟩ := conforms_list_inv hr
    have := conformsArgs_nil ha; subst this
    simp only [callMember]
    rw [listLast_spec xs hz]
    cases hl : xs.getLast? with
    | none => simp [typedOutcome, conforms, hx]
    | some v => simp [typedOutcome, conforms, conformsAll_getLast? hx hl, hx]
  -- insert
  · obtain ⟨xs, rfl, hx⟩ := conforms_list_inv hr
    obtain ⟨iv, v, rfl, hi, hv⟩ := conformsArgs_two ha
    obtain ⟨i, rfl⟩ := conforms_int_inv hi
    simp only [callMember]
    have hsp := listInsert_spec xs i v hz
    cases hw : wrapSpecIns i.toInt xs.length with
    | none => rw [hw] at hsp; simp only at hsp; rw [hsp]; simp [typedOutcome]
    | some k =>
      rw [hw] at hsp; simp only at hsp; rw [hsp]
      simp [typedOutcome, conforms, conformsAll_append, conformsAll, conformsAll_take hx, conformsAll_drop hx, hv]
  -- remove
  · obtain ⟨xs, rfl, hx⟩ := conforms_list_inv hr
    obtain ⟨iv, rfl, hi⟩ := conformsArgs_one ha
    obtain ⟨i, rfl⟩ := conforms_int_inv hi
    simp only [callMember]
    have hsp := listRemove_spec xs i hz
    cases hw : wrapSpec i.toInt xs.length with
    | none => rw [hw] at hsp; simp only at hsp; rw [hsp]; simp [typedOutcome]
    | some k =>
      rw [hw] at hsp; simp only at hsp; rw [hsp]
      simp [typedOutcome, conforms, conformsAll_eraseIdx hx]
  -- concat
  · obtain ⟨xs, rfl, hx⟩ := conforms_list_inv hr
    obtain ⟨yv, rfl, hy⟩ := conformsArgs_one ha
    obtain ⟨ys, rfl, hys⟩ := conforms_list_inv hy
    simp [callMember, typedOutcome, conforms, conformsAll_append, hx, hys]
  -- str: len
  · obtain ⟨cs, rfl⟩ := conforms_str_inv hr
    have := conformsArgs_nil ha; subst this
    simp [callMember, typedOutcome, conforms]
  -- substring
  · obtain ⟨cs, rfl⟩ := conforms_str_inv hr
    obtain ⟨iv, rfl, hi⟩ := conformsArgs_one ha
    obtain ⟨u, rfl⟩ := conforms_int_inv hi
    simp only [callMember]
    rw [strSubstring_spec cs u hz]
    split <;> simp [typedOutcome, conforms]
  -- repeat
  · obtain ⟨cs, rfl⟩ := conforms_str_inv hr
    obtain ⟨iv, rfl, hi⟩ := conformsArgs_one ha
    obtain ⟨n, rfl⟩ := conforms_int_inv hi
    simp only [callMember]
    rw [strRepeat_spec cs n]
    split
    · simp [typedOutcome]
    · split <;> simp [typedOutcome, conforms]
  -- range: rev
  · obtain ⟨a, b, incl, rfl⟩ := conforms_range_inv hr
    have := conformsArgs_nil ha; subst this
    simp [callMember, typedOutcome, conforms]
  -- diff
  · obtain ⟨a, b, incl, rfl⟩ := conforms_range_inv hr
    have := conformsArgs_nil ha; subst this
    simp [callMember, typedOutcome, conforms]
  -- int: to_range
  · obtain ⟨i, rfl⟩ := conforms_int_inv hr
    have := conformsArgs_nil ha; subst this
    simp [callMember, typedOutcome, conforms]
  -- int: to_string
  · obtain ⟨i, rfl⟩ := conforms_int_inv hr
    have := conformsArgs_nil ha; subst this
    simp [callMember, typedOutcome, conforms]
  -- bool: to_string
  · obtain ⟨b, rfl⟩ := conforms_bool_inv hr
    have := conformsArgs_nil ha; subst this
    simp [callMember, typedOutcome, conforms]
  -- option: is_some
  · have := conformsArgs_nil ha; subst this
    rcases conforms_opt_inv hr with rfl | ⟨w, rfl, hw⟩ <;> simp [callMember, typedOutcome, conforms, *]
  -- is_none
  · have := conformsArgs_nil ha; subst this
    rcases conforms_opt_inv hr with rfl | ⟨w, rfl, hw⟩ <;> simp [callMember, typedOutcome, conforms, *]
  -- unwrap
  · have := conformsArgs_nil ha; subst this
    rcases conforms_opt_inv hr with rfl | ⟨w, rfl, hw⟩
    · cases vm <;> simp [callMember, typedOutcome]
    · simp [callMember, typedOutcome, conforms, hw]
  -- unwrap_or
  · obtain ⟨d, rfl, hd⟩ := conformsArgs_one ha
    rcases conforms_opt_inv hr with rfl | ⟨w, rfl, hw⟩ <;> simp [callMember, typedOutcome, conforms, *]
  -- expect
  · obtain ⟨mv, rfl, hm⟩ := conformsArgs_one ha
    obtain ⟨msg, rfl⟩ := conforms_str_inv hm
    rcases conforms_opt_inv hr with rfl | ⟨w, rfl, hw⟩ <;> simp [callMember, typedOutcome, conforms, *]
  -- anyobj: get
  · obtain ⟨ks, vs, rfl⟩ := conforms_anyobj_inv hr
    obtain ⟨kv, rfl, hk⟩ := conformsArgs_one ha
    obtain ⟨k, rfl⟩ := conforms_str_inv hk
    simp only [callMember]
    split <;> simp [typedOutcome, conforms, conforms_any]
  -- anyobj: keys
  · obtain ⟨ks, vs, rfl⟩ := conforms_anyobj_inv hr
    have := conformsArgs_nil ha; subst this
    simp [callMember, typedOutcome, conforms, conformsAll_strs]
  -- obj: keys
  · obtain ⟨ks, vs, rfl⟩ := conforms_obj_inv hr
    have := conformsArgs_nil ha; subst this
    simp [callMember, typedOutcome, conforms, conformsAll_strs]
  -- anyobj: set
  · obtain ⟨ks, vs, rfl⟩ := conforms_anyobj_inv hr
    obtain ⟨kv, v, rfl, hk, hv⟩ := conformsArgs_two ha
    obtain ⟨k, rfl⟩ := conforms_str_inv hk
    simp [callMember, typedOutcome, conforms]

theorem typed_field_generic (T : GTy) (name : String) (result : GTy)
    (hs : expectedField T name = some result) (recv : MVal) (hr : conforms recv T = true) :
    typedOutcome (fieldMember recv name) T result := by
  unfold expectedField at hs
  split at hs <;> simp only [Option.some.injEq, reduceCtorEq] at hs
  all_goals subst hs
  · obtain ⟨a, b, incl, rfl⟩ := conforms_range_inv hr
    simp [fieldMember, typedOutcome, conforms]
  · obtain ⟨a, b, incl, rfl⟩ := conforms_range_inv hr
    simp [fieldMember, typedOutcome, conforms]

/-- Indexing: the result conforms to the element type the analyzer assigns. -/
theorem typed_index (T R : GTy) (hT : indexResultType T = some R) (recv idx : MVal)
    (hr : conforms recv T = true) (hz : goSized recv)
    (hi : conforms idx (match T with | .obj | .anyobj => GTy.str | _ => GTy.int) = true) :
    typedOutcome (indexValue recv idx) T R := by
  unfold indexResultType at hT
  split at hT <;> simp only [Option.some.injEq, reduceCtorEq] at hT
  all_goals subst hT
  · obtain ⟨xs, rfl, hx⟩ := conforms_list_inv hr
    obtain ⟨i, rfl⟩ := conforms_int_inv hi
    simp only [indexValue]
    have hsp := listIndex_spec xs i hz
    cases hw : wrapSpec i.toInt xs.length with
    | none => rw [hw] at hsp; simp only at hsp; rw [hsp]; simp [typedOutcome]
    | some k =>
      rw [hw] at hsp; simp only at hsp
      obtain ⟨v, hv, he⟩ := hsp
      rw [he]
      simp [typedOutcome, conforms, hx, conformsAll_getElem? hx hv]
  · obtain ⟨cs, rfl⟩ := conforms_str_inv hr
    obtain ⟨i, rfl⟩ := conforms_int_inv hi
    simp only [indexValue]
    have hsp := strIndex_spec cs i hz
    cases hw : wrapSpec i.toInt cs.length with
    | none => rw [hw] at hsp; simp only at hsp; rw [hsp]; simp [typedOutcome]
    | some k =>
      rw [hw] at hsp; simp only at hsp
      obtain ⟨c, hc, he⟩ := hsp
      rw [he]
      simp [typedOutcome, conforms]
  · obtain ⟨ks, vs, rfl⟩ := conforms_obj_inv hr
    obtain ⟨k, rfl⟩ := conforms_str_inv hi
    simp only [indexValue, keyIndex]
    split <;> simp [typedOutcome, conforms, conforms_any]
  · obtain ⟨ks, vs, rfl⟩ := conforms_anyobj_inv hr
    obtain ⟨k, rfl⟩ := conforms_str_inv hi
    simp only [indexValue, keyIndex]
    split <;> simp [typedOutcome, conforms, conforms_any]

end HmsProofs.Lemmas.Members
