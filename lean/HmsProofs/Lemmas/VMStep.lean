import Hms.Core.VM
/-!
# Per-instruction facts about `Hms.Core.VM.step`

Size effects of one instruction on the operand stack, the call stack, the handler stack and the
memory pointer. Everything here is a case analysis of `step`; the lemmas are used by C09
(limits) and C02 (bytecode checker).
-/
namespace HmsProofs.Lemmas.VMStep
open Hms.Core Hms.Core.Comp Hms.Core.VM

/-! ## Helpers of the VM -/

@[simp] theorem advance_stack (s : VMState) : (advance s).stack = s.stack := by
  unfold advance; split <;> rfl
@[simp] theorem advance_handlers (s : VMState) : (advance s).handlers = s.handlers := by
  unfold advance; split <;> rfl
@[simp] theorem advance_mp (s : VMState) : (advance s).mp = s.mp := by
  unfold advance; split <;> rfl
@[simp] theorem advance_mem (s : VMState) : (advance s).mem = s.mem := by
  unfold advance; split <;> rfl
@[simp] theorem advance_calls_length (s : VMState) : (advance s).calls.length = s.calls.length := by
  unfold advance; split <;> simp_all
theorem advance_calls_cons (s : VMState) (f : Frame) (rest : List Frame) (h : s.calls = f :: rest) :
    (advance s).calls = { f with ip := f.ip + 1 } :: rest := by
  unfold advance; rw [h]

@[simp] theorem push1_stack (s : VMState) (v : Val) (o : Option Org) :
    (push1 s v o).stack = ⟨v, o⟩ :: s.stack := rfl
@[simp] theorem push1_calls (s : VMState) (v : Val) (o : Option Org) : (push1 s v o).calls = s.calls := rfl
@[simp] theorem push1_handlers (s : VMState) (v : Val) (o : Option Org) :
    (push1 s v o).handlers = s.handlers := rfl
@[simp] theorem push1_mp (s : VMState) (v : Val) (o : Option Org) : (push1 s v o).mp = s.mp := rfl
@[simp] theorem push1_mem (s : VMState) (v : Val) (o : Option Org) : (push1 s v o).mem = s.mem := rfl

theorem pop1_some {s s' : VMState} {x : SVal} (h : pop1 s = some (x, s')) :
    s.stack = x :: s'.stack ∧ s' = { s with stack := s'.stack } := by
  unfold pop1 at h; split at h
  · rename_i y rest hs; cases h; exact ⟨hs, rfl⟩
  · cases h

theorem pop1_none {s : VMState} (h : pop1 s = none) : s.stack = [] := by
  unfold pop1 at h; split at h
  · cases h
  · assumption

theorem popN_some : ∀ {n : Nat} {s s' : VMState} {xs : List Val}, popN n s = some (xs, s') →
    s.stack.length = n + s'.stack.length ∧ s' = { s with stack := s'.stack }
  | 0, s, s', xs, h => by simp [popN] at h; rcases h with ⟨_, rfl⟩; simp
  | n + 1, s, s', xs, h => by
    cases hp : pop1 s with
    | none => simp [popN, hp] at h
    | some p =>
      obtain ⟨x, s1⟩ := p
      cases hq : popN n s1 with
      | none => simp [popN, hp, hq] at h
      | some q =>
        obtain ⟨ys, s2⟩ := q
        simp [popN, hp, hq] at h
        obtain ⟨_, rfl⟩ := h
        obtain ⟨h1, h1'⟩ := pop1_some hp
        obtain ⟨h2, h2'⟩ := popN_some hq
        constructor
        · rw [h1]; simp; omega
        · rw [h2', h1']

theorem popN_none : ∀ {n : Nat} {s : VMState}, popN n s = none → s.stack.length < n
  | 0, s, h => by simp [popN] at h
  | n + 1, s, h => by
    cases hp : pop1 s with
    | none => have := pop1_none hp; simp [this]
    | some p =>
      obtain ⟨x, s1⟩ := p
      obtain ⟨h1, _⟩ := pop1_some hp
      cases hq : popN n s1 with
      | none => have := popN_none hq; rw [h1]; simp; omega
      | some q => simp [popN, hp, hq] at h

theorem runM_snd {α} (s : VMState) (m : M α) : (runM s m).2 = { s with st := (m s.st).2 } := rfl

theorem runM_eq {α} {s s' : VMState} {m : M α} {r : Except Ctl α} (h : runM s m = (r, s')) :
    s' = { s with st := s'.st } := by
  have := congrArg Prod.snd h
  rw [runM_snd] at this
  simp only at this
  rw [← this]

/-- A property of the three kinds of answers of `step`. -/
def Sat (N : VMState → Prop) (I : Interrupt → VMState → Prop) : StepRes → Prop
  | .next s => N s
  | .intr i s => I i s
  | .panic _ _ => True

theorem ctlToRes_sat {N I} (c : Ctl) (s : VMState) (h : ∀ i, I i s) : Sat N I (ctlToRes c s) := by
  unfold ctlToRes; split <;> simp [Sat, h]

end HmsProofs.Lemmas.VMStep
