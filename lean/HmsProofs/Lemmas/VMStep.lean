import Hms.Core.VM
import Hms.Core.BcCheck
/-!
# Per-instruction facts about `Hms.Core.VM.step`

Size effects of one instruction on the operand stack, the call stack, the handler stack and the
memory pointer. Everything here is a case analysis of `step`; the lemmas are used by C09
(limits) and C02 (bytecode checker).
-/
namespace HmsProofs.Lemmas.VMStep
open Hms.Core Hms.Core.Comp Hms.Core.VM Hms.Core.BcCheck

/-! ## Helpers of the VM -/

@[simp] theorem advance_stack (s : VMState) : (advance s).stack = s.stack := by
  unfold advance; split <;> rfl
@[simp] theorem advance_handlers (s : VMState) : (advance s).handlers = s.handlers := by
  unfold advance; split <;> rfl
@[simp] theorem advance_mp (s : VMState) : (advance s).mp = s.mp := by
  unfold advance; split <;> rfl
@[simp] theorem advance_mem (s : VMState) : (advance s).mem = s.mem := by
  unfold advance; split <;> rfl
@[simp] theorem advance_calls_length (s : VMState) : (advance s).calls.length = s.calls.length := by
  unfold advance; split <;> simp_all
theorem advance_calls_cons (s : VMState) (f : Frame) (rest : List Frame) (h : s.calls = f :: rest) :
    (advance s).calls = { f with ip := f.ip + 1 } :: rest := by
  unfold advance; rw [h]

@[simp] theorem push1_stack (s : VMState) (v : Val) (o : Option Org) :
    (push1 s v o).stack = ⟨v, o⟩ :: s.stack := rfl
@[simp] theorem push1_calls (s : VMState) (v : Val) (o : Option Org) : (push1 s v o).calls = s.calls := rfl
@[simp] theorem push1_handlers (s : VMState) (v : Val) (o : Option Org) :
    (push1 s v o).handlers = s.handlers := rfl
@[simp] theorem push1_mp (s : VMState) (v : Val) (o : Option Org) : (push1 s v o).mp = s.mp := rfl
@[simp] theorem push1_mem (s : VMState) (v : Val) (o : Option Org) : (push1 s v o).mem = s.mem := rfl

theorem pop1_some {s s' : VMState} {x : SVal} (h : pop1 s = some (x, s')) :
    s.stack = x :: s'.stack ∧ s' = { s with stack := s'.stack } := by
  unfold pop1 at h; split at h
  · rename_i y rest hs; cases h; exact ⟨hs, rfl⟩
  · cases h

theorem pop1_none {s : VMState} (h : pop1 s = none) : s.stack = [] := by
  unfold pop1 at h; split at h
  · cases h
  · assumption

theorem popN_some : ∀ {n : Nat} {s s' : VMState} {xs : List Val}, popN n s = some (xs, s') →
    s.stack.length = n + s'.stack.length ∧ s' = { s with stack := s'.stack }
  | 0, s, s', xs, h => by simp [popN] at h; rcases h with ⟨_, rfl⟩; simp
  | n + 1, s, s', xs, h => by
    cases hp : pop1 s with
    | none => simp [popN, hp] at h
    | some p =>
      obtain ⟨x, s1⟩ := p
      cases hq : popN n s1 with
      | none => simp [popN, hp, hq] at h
      | some q =>
        obtain ⟨ys, s2⟩ := q
        simp [popN, hp, hq] at h
        obtain ⟨_, rfl⟩ := h
        obtain ⟨h1, h1'⟩ := pop1_some hp
        obtain ⟨h2, h2'⟩ := popN_some hq
        constructor
        · rw [h1]; simp; omega
        · rw [h2', h1']

theorem popN_none : ∀ {n : Nat} {s : VMState}, popN n s = none → s.stack.length < n
  | 0, s, h => by simp [popN] at h
  | n + 1, s, h => by
    cases hp : pop1 s with
    | none => have := pop1_none hp; simp [this]
    | some p =>
      obtain ⟨x, s1⟩ := p
      obtain ⟨h1, _⟩ := pop1_some hp
      cases hq : popN n s1 with
      | none => have := popN_none hq; rw [h1]; simp; omega
      | some q => simp [popN, hp, hq] at h

theorem runM_snd {α} (s : VMState) (m : M α) : (runM s m).2 = { s with st := (m s.st).2 } := rfl

theorem runM_eq {α} {s s' : VMState} {m : M α} {r : Except Ctl α} (h : runM s m = (r, s')) :
    s' = { s with st := s'.st } := by
  have := congrArg Prod.snd h
  rw [runM_snd] at this
  simp only at this
  rw [← this]

/-- The call stack after the instruction pointer of the top frame has been incremented. -/
def advCalls : List Frame → List Frame
  | f :: rest => { f with ip := f.ip + 1 } :: rest
  | [] => []

@[simp] theorem advance_calls (s : VMState) : (advance s).calls = advCalls s.calls := by
  unfold advance advCalls; split <;> simp_all

@[simp] theorem advCalls_length (c : List Frame) : (advCalls c).length = c.length := by
  unfold advCalls; split <;> simp

theorem runM_def {α} (s : VMState) (m : M α) : runM s m = ((m s.st).1, { s with st := (m s.st).2 }) := rfl

/-- A property of the three kinds of answers of `step`. -/
def Sat3 (N : VMState → Prop) (I : Interrupt → VMState → Prop) (P : String → Prop) : StepRes → Prop
  | .next s => N s
  | .intr i s => I i s
  | .panic why _ => P why

theorem Sat3.mono {N N' : VMState → Prop} {I I' : Interrupt → VMState → Prop} {P P' : String → Prop} {r : StepRes}
    (h : Sat3 N I P r) (hN : ∀ s, N s → N' s) (hI : ∀ i s, I i s → I' i s) (hP : ∀ w, P w → P' w) :
    Sat3 N' I' P' r := by
  cases r <;> simp_all [Sat3]

/-- The instruction leaves handlers, memory pointer and memory alone. -/
def Keeps (s s' : VMState) : Prop := s'.handlers = s.handlers ∧ s'.mp = s.mp ∧ s'.mem = s.mem

/-- Not one of the three panics (besides "stack underflow") the checker excludes. -/
def NoBad (why : String) : Prop :=
  why ≠ "handler stack underflow" ∧ why ≠ "memory index" ∧ why ≠ "label at run time"

theorem unsupported_ne (w : String) :
    "unsupported: " ++ w ≠ "stack underflow" ∧ NoBad ("unsupported: " ++ w) := by
  refine ⟨?_, ?_, ?_, ?_⟩ <;> intro h <;> have := congrArg String.toList h <;> simp at this

/-- What an instruction with `simpleEff i = some (p, q)` does: it needs at most `p` operands (with
fewer it may panic with "stack underflow"), replaces them by `q`, and moves to the next instruction;
an interrupt leaves at most `p` operands fewer. (`loadSingleton` touches its operand only when the
host provides a value: completing does not show that `p` operands were there.) -/
def SimpleSpec (s : VMState) (p q : Nat) : StepRes → Prop :=
  Sat3 (fun s' => s'.stack.length + p = s.stack.length + q ∧ s'.calls = advCalls s.calls ∧ Keeps s s')
       (fun _ s' => p ≤ s.stack.length ∧ s.stack.length ≤ s'.stack.length + p ∧ s'.stack.length ≤ s.stack.length
          ∧ s'.calls = s.calls ∧ Keeps s s')
       (fun why => (why = "stack underflow" → s.stack.length < p) ∧ NoBad why)

theorem ctlToRes_simple (c : Ctl) (s s' : VMState) (p q : Nat)
    (h1 : p ≤ s.stack.length) (h2 : s.stack.length ≤ s'.stack.length + p) (h3 : s'.stack.length ≤ s.stack.length)
    (h4 : s'.calls = s.calls) (h5 : Keeps s s') : SimpleSpec s p q (ctlToRes c s') := by
  have := unsupported_ne
  unfold ctlToRes; split <;> simp_all [SimpleSpec, Sat3, NoBad]

set_option maxHeartbeats 2000000 in
theorem simple_spec (code : Code) (lim : Limits) (s : VMState) (i : RInstr) (sp : Span) (p q : Nat)
    (h : simpleEff i = some (p, q)) : SimpleSpec s p q (step code lim s i sp) := by
  cases i <;> simp only [simpleEff, Option.some.injEq, Prod.mk.injEq, reduceCtorEq] at h
  all_goals obtain ⟨rfl, rfl⟩ := h
  all_goals rcases hs : s.stack with _ | ⟨a, _ | ⟨b, rest⟩⟩
  all_goals simp only [step, pop1, binArith, hs, runM_def]
  all_goals (repeat' split)
  all_goals try (apply ctlToRes_simple <;> simp_all [Keeps])
  all_goals try simp_all [SimpleSpec, Sat3, Keeps, NoBad]
  all_goals try grind

end HmsProofs.Lemmas.VMStep
