import HmsProofs.Lemmas.VMStep
/-!
# `step` on the instructions that are not "simple"

Jumps, calls, returns, handlers, memory pointer, slots, `throw`, `callVal`, `hostCall`.
-/
namespace HmsProofs.Lemmas.VMStep
open Hms.Core Hms.Core.Comp Hms.Core.VM Hms.Core.BcCheck

theorem step_label (code : Code) (lim : Limits) (s : VMState) (l : Nat) (sp : Span) :
    step code lim s (.label l) sp = .panic "label at run time" s := rfl

theorem step_spawn (code : Code) (lim : Limits) (s : VMState) (f : String) (sp : Span) :
    step code lim s (.spawn f) sp = .panic "spawn is outside the single-core model" s := rfl

theorem step_jump (code : Code) (lim : Limits) (s : VMState) (l : Nat) (sp : Span) (f : Frame)
    (rest : List Frame) (h : s.calls = f :: rest) :
    step code lim s (.jump l) sp = .next { s with calls := { f with ip := l } :: rest } := by
  simp [step, h]

theorem step_callImm (code : Code) (lim : Limits) (s : VMState) (f : String) (sp : Span) :
    step code lim s (.callImm f) sp
      = .next { advance s with calls := ⟨f, 0⟩ :: advCalls s.calls } := by
  simp [step]

theorem step_ret (code : Code) (lim : Limits) (s : VMState) (sp : Span) :
    step code lim s .ret sp = .next { s with calls := s.calls.tail } := rfl

theorem step_setTry (code : Code) (lim : Limits) (s : VMState) (fn : String) (l : Nat) (sp : Span) :
    step code lim s (.setTry fn l) sp
      = .next (advance { s with handlers := ⟨⟨fn, l⟩, s.calls.length, s.stack.length, s.mp⟩ :: s.handlers }) := rfl

theorem step_popTry (code : Code) (lim : Limits) (s : VMState) (sp : Span) (h : Handler) (rest : List Handler)
    (hh : s.handlers = h :: rest) :
    step code lim s .popTry sp = .next (advance { s with handlers := rest }) := by
  simp [step, hh]

theorem step_popTry_nil (code : Code) (lim : Limits) (s : VMState) (sp : Span) (hh : s.handlers = []) :
    step code lim s .popTry sp = .panic "handler stack underflow" s := by
  simp [step, hh]

theorem step_addMp (code : Code) (lim : Limits) (s : VMState) (n : Int) (sp : Span) :
    (s.mp + n < (lim.memory : Int) ∧ step code lim s (.addMp n) sp = .next (advance { s with mp := s.mp + n }))
    ∨ ((lim.memory : Int) ≤ s.mp + n ∧ ∃ msg, step code lim s (.addMp n) sp
        = .intr (.fatal "OutOfMemoryError" msg sp) { s with mp := s.mp + n }) := by
  by_cases h : s.mp + n ≥ (lim.memory : Int)
  · right; refine ⟨h, ?_⟩; simp only [step, if_pos h]; exact ⟨_, rfl⟩
  · left; exact ⟨by omega, by simp [step, h]⟩

/-- `getVar k` reads exactly the cell `mp - k`; it panics with "memory index" exactly when that
index is outside `[0, lim.memory)`. -/
theorem step_getVar (code : Code) (lim : Limits) (s : VMState) (k : Nat) (sp : Span) :
    (¬ (0 ≤ s.mp - (k : Int) ∧ s.mp - (k : Int) < (lim.memory : Int))
        ∧ step code lim s (.getVar k) sp = .panic "memory index" s)
    ∨ ((0 ≤ s.mp - (k : Int) ∧ s.mp - (k : Int) < (lim.memory : Int)) ∧
        ((∃ v, memGet s (s.mp - (k : Int)) = some v ∧ step code lim s (.getVar k) sp = .next (advance (push1 s v)))
        ∨ (memGet s (s.mp - (k : Int)) = none
            ∧ step code lim s (.getVar k) sp = .panic "read of an unset memory cell" s))) := by
  by_cases h : s.mp - (k : Int) < 0 ∨ s.mp - (k : Int) ≥ (lim.memory : Int)
  · left; exact ⟨by omega, by simp [step, h]⟩
  · right
    refine ⟨by omega, ?_⟩
    cases hm : memGet s (s.mp - (k : Int)) with
    | none => right; simp [step, h, hm]
    | some v => left; exact ⟨v, rfl, by simp [step, h, hm]⟩

/-- `setVar k` writes exactly the cell `mp - k`. -/
theorem step_setVar (code : Code) (lim : Limits) (s : VMState) (k : Nat) (sp : Span) :
    (s.stack = [] ∧ step code lim s (.setVar k) sp = .panic "stack underflow" s)
    ∨ (∃ x rest, s.stack = x :: rest ∧
        ((¬ (0 ≤ s.mp - (k : Int) ∧ s.mp - (k : Int) < (lim.memory : Int))
            ∧ step code lim s (.setVar k) sp = .panic "memory index" s)
        ∨ ((0 ≤ s.mp - (k : Int) ∧ s.mp - (k : Int) < (lim.memory : Int))
            ∧ step code lim s (.setVar k) sp
              = .next (advance (memSet { s with stack := rest } (s.mp - (k : Int)) x.v))))) := by
  rcases hs : s.stack with _ | ⟨x, rest⟩
  · left; simp [step, pop1, hs]
  · right
    refine ⟨x, rest, rfl, ?_⟩
    by_cases h : s.mp - (k : Int) < 0 ∨ s.mp - (k : Int) ≥ (lim.memory : Int)
    · left; exact ⟨by omega, by simp [step, pop1, hs, h]⟩
    · right; exact ⟨by omega, by simp [step, pop1, hs, h]⟩

theorem popN_fields {n : Nat} {s s' : VMState} {xs : List Val} (h : popN n s = some (xs, s')) :
    s.stack.length = n + s'.stack.length ∧ s'.calls = s.calls ∧ s'.handlers = s.handlers ∧ s'.mp = s.mp
      ∧ s'.mem = s.mem := by
  obtain ⟨h1, h2⟩ := popN_some h
  refine ⟨h1, ?_⟩
  rw [h2]; simp

/-- `jumpIfFalse l`: pops the condition; continues at `ip + 1` or at `l`. -/
theorem step_jumpIfFalse (code : Code) (lim : Limits) (s : VMState) (l : Nat) (sp : Span)
    (x : SVal) (rest : List SVal) (hs : s.stack = x :: rest) :
    Sat3 (fun s' => s'.stack = rest ∧ Keeps s s' ∧
            (s'.calls = advCalls s.calls ∨ ∃ f fr, s.calls = f :: fr ∧ s'.calls = { f with ip := l } :: fr))
         (fun _ _ => False)
         (fun why => why ≠ "stack underflow" ∧ NoBad why)
      (step code lim s (.jumpIfFalse l) sp) := by
  simp only [step, pop1, hs]
  repeat' split
  all_goals simp_all [Sat3, Keeps, NoBad]
  all_goals grind

theorem step_jumpIfFalse_nil (code : Code) (lim : Limits) (s : VMState) (l : Nat) (sp : Span)
    (hs : s.stack = []) : step code lim s (.jumpIfFalse l) sp = .panic "stack underflow" s := by
  simp [step, pop1, hs]

/-- `throw`: pops the thrown value and raises; never continues normally. -/
theorem step_throw (code : Code) (lim : Limits) (s : VMState) (sp : Span)
    (x : SVal) (rest : List SVal) (hs : s.stack = x :: rest) :
    Sat3 (fun _ => False)
         (fun _ s' => s'.stack = rest ∧ Keeps s s' ∧ (s'.calls = advCalls s.calls ∨ s'.calls = s.calls))
         (fun why => why ≠ "stack underflow" ∧ NoBad why)
      (step code lim s .throw sp) := by
  have := unsupported_ne
  simp only [step, pop1, hs, runM_def]
  split
  all_goals try (unfold ctlToRes; split)
  all_goals simp_all [Sat3, Keeps, NoBad]
  all_goals grind

theorem step_throw_nil (code : Code) (lim : Limits) (s : VMState) (sp : Span)
    (hs : s.stack = []) : step code lim s .throw sp = .panic "stack underflow" s := by
  simp [step, pop1, hs]

/-- `hostCall`: pops the argument count and that many arguments, pushes `hostResults name` results. -/
theorem step_hostCall (code : Code) (lim : Limits) (s : VMState) (name : String) (sp : Span)
    (argc : I64) (o : Option Org) (rest : List SVal) (hs : s.stack = ⟨.int argc, o⟩ :: rest) :
    Sat3 (fun s' => argc.toNat ≤ rest.length ∧
            s'.stack.length + argc.toNat = rest.length + hostResults name ∧ s'.calls = advCalls s.calls ∧ Keeps s s')
         (fun _ s' => argc.toNat ≤ rest.length ∧
            s'.stack.length + argc.toNat = rest.length ∧ s'.calls = s.calls ∧ Keeps s s')
         (fun why => (why = "stack underflow" → rest.length < argc.toNat) ∧ NoBad why)
      (step code lim s (.hostCall name) sp) := by
  have hun := unsupported_ne
  simp only [step, hs]
  split
  · rename_i args s1 hp
    obtain ⟨hlen, hc, hh, hmp, hmem⟩ := popN_fields hp
    simp only at hlen hc hh hmp hmem
    simp only [runM_def]
    repeat' split
    all_goals try (unfold ctlToRes; split)
    all_goals simp_all [Sat3, NoBad, Keeps, hostResults]
    all_goals try omega
    all_goals grind
  · rename_i hp
    have := popN_none hp
    simp [Sat3, NoBad]
    simpa using this

/-- Any other shape of the stack is the panic "hostcall operands". -/
theorem step_hostCall_other (code : Code) (lim : Limits) (s : VMState) (name : String) (sp : Span)
    (h : ∀ argc o rest, s.stack ≠ ⟨.int argc, o⟩ :: rest) :
    step code lim s (.hostCall name) sp = .panic "hostcall operands" s := by
  rcases hs : s.stack with _ | ⟨⟨v, o⟩, rest⟩
  · simp [step, hs]
  · cases v <;> simp [step, hs]
    exact absurd hs (h _ _ _)

/-- `callVal` on a function value: pops the count and the function, enters the function at
instruction 0; the arguments stay on the stack. -/
theorem step_callVal_fn (code : Code) (lim : Limits) (s : VMState) (sp : Span)
    (argc : I64) (o o' : Option Org) (m name : String) (rest : List SVal)
    (hs : s.stack = ⟨.int argc, o⟩ :: ⟨.fn m name, o'⟩ :: rest) :
    step code lim s .callVal sp
      = .next { advance { s with stack := rest } with calls := ⟨name, 0⟩ :: advCalls s.calls } := by
  simp [step, hs]

/-- `callVal` on a builtin or a bound member: pops the count, the callee and `argc` arguments;
pushes the result unless it is `null`. -/
theorem step_callVal_builtin (code : Code) (lim : Limits) (s : VMState) (sp : Span)
    (argc : I64) (o o' : Option Org) (f : Val) (rest : List SVal)
    (hs : s.stack = ⟨.int argc, o⟩ :: ⟨f, o'⟩ :: rest)
    (hf : (∃ n, f = .builtin n) ∨ (∃ r n, f = .bound r n)) :
    Sat3 (fun s' => argc.toNat ≤ rest.length ∧ s'.stack.length ≤ rest.length - argc.toNat + 1 ∧
            rest.length - argc.toNat ≤ s'.stack.length ∧ s'.calls = advCalls s.calls ∧ Keeps s s')
         (fun _ s' => argc.toNat ≤ rest.length ∧
            s'.stack.length + argc.toNat = rest.length ∧ s'.calls = s.calls ∧ Keeps s s')
         (fun why => (why = "stack underflow" → rest.length < argc.toNat) ∧ NoBad why)
      (step code lim s .callVal sp) := by
  have hun := unsupported_ne
  rcases hf with ⟨n, rfl⟩ | ⟨r, n, rfl⟩
  all_goals
    simp only [step, hs]
    split
    · rename_i args s1 hp
      obtain ⟨hlen, hc, hh, hmp, hmem⟩ := popN_fields hp
      simp only at hlen hc hh hmp hmem
      simp only [runM_def]
      repeat' split
      all_goals try (unfold ctlToRes; split)
      all_goals simp_all [Sat3, NoBad, Keeps]
      all_goals try omega
      all_goals grind
    · rename_i hp
      have := popN_none hp
      simp [Sat3, NoBad]
      simpa using this

/-- Any other callee or stack shape is a panic that is none of the four excluded ones. -/
theorem step_callVal_other (code : Code) (lim : Limits) (s : VMState) (sp : Span)
    (h : ∀ argc o f o' rest, s.stack = ⟨.int argc, o⟩ :: ⟨f, o'⟩ :: rest →
      (∀ m n, f ≠ .fn m n) ∧ (∀ n, f ≠ .builtin n) ∧ (∀ r n, f ≠ .bound r n)) :
    step code lim s .callVal sp = .panic "call operands" s
      ∨ step code lim s .callVal sp = .panic "call of a non-function" s := by
  simp only [step]
  split
  · rename_i argc o f o' rest hs
    obtain ⟨h1, h2, h3⟩ := h argc o f o' rest hs
    split
    · exact absurd rfl (h1 _ _)
    · exact absurd rfl (h2 _)
    · exact absurd rfl (h3 _ _)
    · right; rfl
  · left; rfl

end HmsProofs.Lemmas.VMStep
