import HmsProofs.Lemmas.SimReloc
/-!
# The compiler model on straight-line expressions

`Frag.straight e`: literals, `grouped`, local variables, prefix operators and the non-logical
infix operators. For such `e` the instruction stream is a pure function `cstraightSp ρ e` of the
scope map `ρ`, and `compileExpr` appends exactly that to the code of the current function,
changing nothing else (`compileExpr_straight`).
-/
namespace HmsProofs.Sim
open Hms.Core Hms.Core.Comp

namespace Frag

def isLogical : InfixOp → Bool
  | .or | .and => true
  | _ => false

/-- The straight-line fragment. (Beyond the literals `int`/`bool`/`str`/`null` it also admits
the `none` literal and the prefix `?`-operator `some`; they cost nothing.) -/
def straight : Expr → Bool
  | .int .. | .bool .. | .str .. | .null .. | .none .. => true
  | .grouped _ e => straight e
  | .ident _ _ _ isGlobal isFn isSingleton => !isGlobal && !isFn && !isSingleton
  | .pre _ _ _ e => straight e
  | .infix _ _ op l r => !isLogical op && straight l && straight r
  | _ => false

/-- Fuel that `compileExpr` (and `evalExpr`) needs for an expression of the fragment. -/
def depth : Expr → Nat
  | .grouped _ e => depth e + 1
  | .pre _ _ _ e => depth e + 1
  | .infix _ _ _ l r => max (depth l) (depth r) + 1
  | _ => 1

/-- The variables an expression of the fragment reads. -/
def vars : Expr → List String
  | .grouped _ e => vars e
  | .ident _ _ name _ _ _ => [name]
  | .pre _ _ _ e => vars e
  | .infix _ _ _ l r => vars l ++ vars r
  | _ => []

end Frag

/-- The instruction(s) of a non-logical infix operator (`arith`). -/
def arithI : InfixOp → List SInstr
  | .add => [.add] | .sub => [.sub] | .mul => [.mul] | .div => [.div]
  | .rem => [.rem] | .pow => [.pow] | .shl => [.shl] | .shr => [.shr]
  | .bitOr => [.bitOr] | .bitAnd => [.bitAnd] | .bitXor => [.bitXor]
  | .eq => [.eq]
  | .ne => [.eq, .not]
  | .lt => [.lt] | .le => [.le] | .gt => [.gt] | .ge => [.ge]
  | .or | .and => []

def preI : PrefixOp → SInstr
  | .neg => .neg
  | .not => .not
  | .some => .some

/-- **The code of a straight-line expression**, with the span each instruction is emitted
with; `ρ` maps a source identifier to its mangled name. -/
def cstraightSp (ρ : String → Option String) : Expr → SCode
  | .int sp v => [(.copyPush (.int v), sp)]
  | .bool sp b => [(.copyPush (.bool b), sp)]
  | .str sp s => [(.copyPush (.str s), sp)]
  | .null sp => [(.copyPush .null, sp)]
  | .none sp => [(.copyPush .noneOpt, sp)]
  | .grouped _ e => cstraightSp ρ e
  | .ident sp _ name _ _ _ =>
    match ρ name with
    | some m => [(.getVar m, sp)]
    | none => []
  | .pre sp _ op e => cstraightSp ρ e ++ [(preI op, sp)]
  | .infix sp _ op l r => cstraightSp ρ l ++ cstraightSp ρ r ++ (arithI op).map (·, sp)
  | _ => []

def cstraight (ρ : String → Option String) (e : Expr) : List SInstr := (cstraightSp ρ e).map (·.1)

/-- No labels and no jumps in straight-line code. -/
theorem cstraightSp_plain (ρ : String → Option String) : ∀ (n : Nat) (e : Expr), Frag.depth e ≤ n →
    ∀ p ∈ cstraightSp ρ e, isLabel p.1 = false ∧ target? p.1 = none := by
  intro n
  induction n with
  | zero => intro e h; cases e <;> simp [Frag.depth] at h
  | succ n ih =>
    intro e h p hp
    cases e <;> simp only [cstraightSp, List.mem_singleton, List.mem_append, List.not_mem_nil] at hp
    case int | bool | str | null | none => subst hp; exact ⟨rfl, rfl⟩
    case grouped sp e => exact ih e (by simp [Frag.depth] at h; omega) p hp
    case ident sp ty name g f s =>
      split at hp
      · simp only [List.mem_singleton] at hp; subst hp; exact ⟨rfl, rfl⟩
      · simp at hp
    case pre sp ty op e =>
      rcases hp with hp | hp
      · exact ih e (by simp [Frag.depth] at h; omega) p hp
      · subst hp; cases op <;> exact ⟨rfl, rfl⟩
    case «infix» sp ty op l r =>
      simp only [Frag.depth] at h
      rcases hp with (hp | hp) | hp
      · exact ih l (by omega) p hp
      · exact ih r (by omega) p hp
      · cases op <;> simp [arithI] at hp <;> (try subst hp) <;> (try exact ⟨rfl, rfl⟩)
        rcases hp with rfl | rfl <;> exact ⟨rfl, rfl⟩

/-! ## Frame lemmas of the compiler monad -/

/-- The scope map of a compiler state (`getMangled`). -/
def ρOf (cs : CState) (x : String) : Option String := cs.scopes.findSome? fun sc => sc.lookup x

/-- `cs` with `xs` appended to the code of the current function; nothing else changes. -/
def appendCode (cs : CState) (xs : SCode) : CState :=
  { cs with fns := cs.fns.map fun p =>
      if p.1 == (cs.currModule, cs.currFn) then (p.1, { p.2 with code := p.2.code ++ xs }) else p }

theorem emit_run (i : SInstr) (sp : Span) (cs : CState) :
    (Comp.emit i sp).run cs = ((), appendCode cs [(i, sp)]) := rfl

theorem getMangled_run (x : String) (cs : CState) : (getMangled x).run cs = (ρOf cs x, cs) := rfl

theorem appendCode_nil (cs : CState) : appendCode cs [] = cs := by
  unfold appendCode
  have : (cs.fns.map fun p =>
      if p.1 == (cs.currModule, cs.currFn) then (p.1, { p.2 with code := p.2.code ++ [] }) else p) = cs.fns := by
    conv => rhs; rw [← List.map_id cs.fns]
    apply List.map_congr_left
    intro ⟨k, fn⟩ _
    simp
  rw [this]

theorem appendCode_append (cs : CState) (xs ys : SCode) :
    appendCode (appendCode cs xs) ys = appendCode cs (xs ++ ys) := by
  unfold appendCode
  simp only [List.map_map]
  congr 1
  apply List.map_congr_left
  intro ⟨k, fn⟩ _
  simp only [Function.comp]
  split <;> simp_all

@[simp] theorem ρOf_appendCode (cs : CState) (xs : SCode) : ρOf (appendCode cs xs) = ρOf cs := rfl

/-- Everything but `fns` is untouched by `appendCode`. -/
theorem appendCode_frame (cs : CState) (xs : SCode) :
    (appendCode cs xs).currFn = cs.currFn ∧ (appendCode cs xs).currModule = cs.currModule ∧
    (appendCode cs xs).loops = cs.loops ∧ (appendCode cs xs).varMangle = cs.varMangle ∧
    (appendCode cs xs).labelMangle = cs.labelMangle ∧ (appendCode cs xs).scopes = cs.scopes ∧
    (appendCode cs xs).lambdaCount = cs.lambdaCount ∧ (appendCode cs xs).unsupported = cs.unsupported ∧
    (appendCode cs xs).tryDepth = cs.tryDepth :=
  ⟨rfl, rfl, rfl, rfl, rfl, rfl, rfl, rfl, rfl⟩

theorem lookup_map_upd (fns : List ((String × String) × SFn)) (cur key : String × String) (g : SFn → SFn) :
    (fns.map fun p => if p.1 == cur then (p.1, g p.2) else p).lookup key =
      if key = cur then (fns.lookup key).map g else fns.lookup key := by
  induction fns with
  | nil => simp
  | cons p rest ih =>
    obtain ⟨k, fn⟩ := p
    simp only [List.map_cons, List.lookup_cons]
    by_cases hkk : key = k
    · subst hkk
      by_cases hc : key = cur
      · subst hc; simp
      · simp [hc]
    · have hkk' : (key == k) = false := by simpa using hkk
      by_cases hc : k = cur
      · subst hc
        simp only [beq_self_eq_true, if_true, List.lookup_cons, hkk']
        exact ih
      · have hc' : (k == cur) = false := by simpa using hc
        simp only [hc', Bool.false_eq_true, if_false, List.lookup_cons, hkk']
        exact ih

/-- What `appendCode` does to the current function, when it exists. -/
theorem appendCode_lookup (cs : CState) (xs : SCode) (f : SFn)
    (h : cs.fns.lookup (cs.currModule, cs.currFn) = some f) :
    (appendCode cs xs).fns.lookup (cs.currModule, cs.currFn) = some { f with code := f.code ++ xs } := by
  unfold appendCode
  simp only
  rw [lookup_map_upd cs.fns _ _ (fun fn => { fn with code := fn.code ++ xs })]
  simp [h]

/-- Other functions keep their code. -/
theorem appendCode_lookup_other (cs : CState) (xs : SCode) (key : String × String)
    (hk : key ≠ (cs.currModule, cs.currFn)) :
    (appendCode cs xs).fns.lookup key = cs.fns.lookup key := by
  unfold appendCode
  simp only
  rw [lookup_map_upd cs.fns _ _ (fun fn => { fn with code := fn.code ++ xs })]
  simp [hk]

theorem seq_run (a b : C Unit) (cs cs1 cs2 : CState) (ha : a.run cs = ((), cs1)) (hb : b.run cs1 = ((), cs2)) :
    (do a; b).run cs = ((), cs2) := by
  simp only [StateT.run_bind, ha]
  exact hb

theorem arith_run (op : InfixOp) (sp : Span) (cs : CState) (h : Frag.isLogical op = false) :
    (arith op sp).run cs = ((), appendCode cs ((arithI op).map (·, sp))) := by
  cases op <;> simp only [Frag.isLogical] at h <;> try rfl
  all_goals first | cases h | skip
  -- `!=`
  show (do Comp.emit .eq sp; Comp.emit .not sp).run cs = _
  rw [seq_run _ _ cs _ _ (emit_run _ _ _) (emit_run _ _ _), appendCode_append]
  rfl

/-! ## The theorem -/

/-- **`compileExpr` on the straight-line fragment.** With enough fuel and every variable of `e`
resolved by the scopes of `cs`, compiling `e` appends `cstraightSp (ρOf cs) e` to the code of the
current function and changes nothing else — neither the label counters, nor the variable
counters, nor the `unsupported` flag. -/
theorem compileExpr_straight : ∀ (fuel : Nat) (e : Expr) (cs : CState),
    Frag.straight e = true → Frag.depth e ≤ fuel →
    (∀ x ∈ Frag.vars e, (ρOf cs x).isSome = true) →
    (compileExpr fuel e).run cs = ((), appendCode cs (cstraightSp (ρOf cs) e)) := by
  intro fuel
  induction fuel with
  | zero => intro e cs _ hd; cases e <;> simp [Frag.depth] at hd
  | succ fuel ih =>
    intro e cs hs hd hv
    cases e <;> simp only [Frag.straight, Bool.false_eq_true] at hs
    case int | bool | str | null | none => rw [compileExpr]; rfl
    case grouped sp e =>
      rw [compileExpr]
      exact ih e cs hs (by simp only [Frag.depth] at hd; omega) hv
    case ident sp ty name isGlobal isFn isSingleton =>
      simp only [Bool.and_eq_true, Bool.not_eq_eq_eq_not, Bool.not_true] at hs
      obtain ⟨⟨hg, _⟩, hsing⟩ := hs
      subst hg hsing
      have := hv name (by simp [Frag.vars])
      rw [compileExpr.eq_def]
      simp only [StateT.run_bind, getMangled_run, cstraightSp]
      cases hρ : ρOf cs name with
      | none => simp [hρ] at this
      | some m => rfl
    case pre sp ty op e =>
      have h1 := ih e cs hs (by simp only [Frag.depth] at hd; omega) hv
      cases op <;>
        (rw [compileExpr, seq_run _ _ cs _ _ h1 (emit_run _ _ _), appendCode_append]; rfl)
    case «infix» sp ty op l r =>
      simp only [Bool.and_eq_true, Bool.not_eq_eq_eq_not, Bool.not_true] at hs
      obtain ⟨⟨hop, hl⟩, hr⟩ := hs
      simp only [Frag.depth] at hd
      simp only [Frag.vars, List.mem_append] at hv
      have h1 := ih l cs hl (by omega) (fun x hx => hv x (Or.inl hx))
      have h2 := ih r (appendCode cs (cstraightSp (ρOf cs) l)) hr (by omega)
        (fun x hx => by rw [ρOf_appendCode]; exact hv x (Or.inr hx))
      have h3 := arith_run op sp (appendCode (appendCode cs (cstraightSp (ρOf cs) l))
        (cstraightSp (ρOf (appendCode cs (cstraightSp (ρOf cs) l))) r)) hop
      rw [compileExpr]
      · rw [seq_run _ _ cs _ _ h1 (seq_run _ _ _ _ _ h2 h3)]
        simp only [ρOf_appendCode, appendCode_append, cstraightSp, List.append_assoc]
      · intro h; subst h; cases hop
      · intro h; subst h; cases hop

end HmsProofs.Sim
