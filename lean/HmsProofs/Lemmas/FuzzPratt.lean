import Hms.Parse.Normal
import HmsProofs.Lemmas.PrattSound
/-!
# The trees the repaired fuzzer builds are normal

The printers add no parentheses; a tree survives printing iff it is normal (C19). The repaired
rewrite rules wrap every operand that changes its position in a grouped node; these lemmas show
that the resulting trees are normal whenever the original was.
-/
namespace HmsProofs.Lemmas.Fuzz
open Hms Hms.Pratt

/-- A tree that is normal in a context of binding power `q` is normal in every weaker context. -/
theorem normal_mono (prec : Prec) : ∀ (t : Tree) (p q : Nat), p ≤ q → normal prec q t = true →
    normal prec p t = true
  | .atom _, _, _, _, h => by simpa [normal] using h
  | .grp _, _, _, _, h => by simpa [normal] using h
  | .pre _ _, _, _, _, h => by simpa [normal] using h
  | .list _, _, _, _, h => by simpa [normal] using h
  | .bin l o r, p, q, hpq, h => by
    simp only [normal, Bool.and_eq_true, decide_eq_true_eq] at h ⊢
    obtain ⟨⟨⟨⟨h1, h2⟩, h3⟩, h4⟩, h5⟩ := h
    exact ⟨⟨⟨⟨h1, by omega⟩, normal_mono prec l p q hpq h3⟩, h4⟩, h5⟩
  | .asg l o r, p, q, hpq, h => by
    simp only [normal, Bool.and_eq_true, decide_eq_true_eq] at h ⊢
    obtain ⟨⟨⟨⟨⟨h1, h2⟩, h3⟩, h4⟩, h5⟩, h6⟩ := h
    exact ⟨⟨⟨⟨⟨h1, by omega⟩, normal_mono prec l p q hpq h3⟩, h4⟩, h5⟩, h6⟩
  | .call f args, p, q, hpq, h => by
    simp only [normal, Bool.and_eq_true, decide_eq_true_eq] at h ⊢
    obtain ⟨⟨⟨h1, h2⟩, h3⟩, h4⟩ := h
    exact ⟨⟨⟨by omega, normal_mono prec f p q hpq h2⟩, h3⟩, h4⟩
  | .index b i, p, q, hpq, h => by
    simp only [normal, Bool.and_eq_true, decide_eq_true_eq] at h ⊢
    obtain ⟨⟨⟨h1, h2⟩, h3⟩, h4⟩ := h
    exact ⟨⟨⟨by omega, normal_mono prec b p q hpq h2⟩, h3⟩, h4⟩
  | .member b op name, p, q, hpq, h => by
    simp only [normal, Bool.and_eq_true, decide_eq_true_eq] at h ⊢
    obtain ⟨⟨⟨⟨h1, h2⟩, h3⟩, h4⟩, h5⟩ := h
    exact ⟨⟨⟨⟨h1, h2⟩, by omega⟩, normal_mono prec b p q hpq h4⟩, h5⟩
  | .cast b ty, p, q, hpq, h => by
    simp only [normal, Bool.and_eq_true, decide_eq_true_eq] at h ⊢
    obtain ⟨⟨⟨h1, h2⟩, h3⟩, h4⟩ := h
    exact ⟨⟨⟨h1, by omega⟩, normal_mono prec b p q hpq h3⟩, h4⟩
  | .range a incl b, p, q, hpq, h => by
    simp only [normal, Bool.and_eq_true, decide_eq_true_eq] at h ⊢
    obtain ⟨⟨⟨h1, h2⟩, h3⟩, h4⟩ := h
    exact ⟨⟨⟨by omega, normal_mono prec a p q hpq h2⟩, h3⟩, h4⟩

/-- Swapped operands, each wrapped in a grouped node (`commute`): normal in the context of the
original. -/
theorem commute_normal (prec : Prec) (p : Nat) (l r : Tree) (o : TokKind)
    (h : normal prec p (.bin l o r) = true) :
    normal prec p (.bin (.grp r) o (.grp l)) = true := by
  simp only [normal, Bool.and_eq_true, decide_eq_true_eq] at h ⊢
  obtain ⟨⟨⟨⟨h1, h2⟩, h3⟩, _⟩, h5⟩ := h
  refine ⟨⟨⟨⟨h1, h2⟩, normal_mono prec r 0 _ (Nat.zero_le _) h5⟩, by simp [rightSpineOK]⟩,
    normal_mono prec l 0 _ (Nat.zero_le _) h3⟩

/-- `l o' -(r)` with the negated operand wrapped (`subAsAddNeg`): normal whenever `l o r` was and
`o'` has the binding powers of `o` (`+` and `-` share theirs). -/
theorem subAsAddNeg_normal (prec : Prec) (p : Nat) (l r : Tree) (o o' : TokKind)
    (ho' : isInfix o' = true) (hp : prec o' = prec o)
    (h : normal prec p (.bin l o r) = true) :
    normal prec p (.bin l o' (.pre .minus (.grp r))) = true := by
  simp only [normal, Bool.and_eq_true, decide_eq_true_eq] at h ⊢
  obtain ⟨⟨⟨⟨_, h2⟩, h3⟩, h4⟩, h5⟩ := h
  rw [hp]
  exact ⟨⟨⟨⟨ho', h2⟩, h3⟩, h4⟩, by simp [isPrefix], normal_mono prec r 0 _ (Nat.zero_le _) h5⟩

/-- A grouped tree is normal in every context as soon as its content is normal at all. -/
theorem grouped_normal (prec : Prec) (p q : Nat) (t : Tree) (h : normal prec q t = true) :
    normal prec p (.grp t) = true := by
  simpa [normal] using normal_mono prec t 0 q (Nat.zero_le _) h

/-- `!(…)` around a grouped tree (`eqAsNotNe`, `ifInverted`, the guard of `whileAsLoop0`). -/
theorem not_grouped_normal (prec : Prec) (p q : Nat) (t : Tree) (h : normal prec q t = true) :
    normal prec p (.pre .not_ (.grp t)) = true := by
  simp only [normal, Bool.and_eq_true]
  exact ⟨by simp [isPrefix], by simpa [normal] using normal_mono prec t 0 q (Nat.zero_le _) h⟩

end HmsProofs.Lemmas.Fuzz
