import HmsProofs.Lemmas.SimCompile
/-!
# Executing straight-line code on the VM model

`execN code lim n s` runs `n` instructions with `VM.step` (fetching them the way `runQuantum`
does). `exec_straight`: for `e` in the straight-line fragment, the renamed code of
`cstraightSp ρ e` computes the value the specification semantics assigns to `e`, leaves
memory/heap/output alone, and raises the same fatal interrupt when the specification does.
-/
namespace HmsProofs.Sim
open Hms.Core Hms.Core.Comp Hms.Core.VM

/-! ## The monad `M` pointwise -/

theorem M_bind {α β} (x : M α) (f : α → M β) (st : St) :
    (x >>= f) st = match x st with
      | (.ok a, st1) => f a st1
      | (.error c, st1) => (.error c, st1) := by
  show (ExceptT.bind x f) st = _
  unfold ExceptT.bind ExceptT.mk ExceptT.bindCont
  show (StateT.bind _ _) st = _
  unfold StateT.bind
  simp only []
  show (match (x st) with | (a, s) => _) = _
  rcases h : x st with ⟨r, st1⟩
  cases r <;> rfl

theorem M_get (st : St) : (get : M St) st = (.ok st, st) := rfl
theorem M_pure {α} (a : α) (st : St) : (pure a : M α) st = (.ok a, st) := rfl
theorem M_throw {α} (c : Ctl) (st : St) : (throwCtl c : M α) st = (.error c, st) := rfl

/-! ## Equations of `evalExpr` on the fragment -/

/-- The prefix operators as a pure function. -/
def preOp (op : PrefixOp) (v : Val) : Except Ctl Val :=
  match op, v with
  | .neg, .int x => .ok (.int (-x))
  | .neg, .float x => .ok (.float (-x))
  | .not, .bool b => .ok (.bool (!b))
  | .not, .int x => .ok (.int (~~~x))
  | .some, v => .ok (.opt (some v))
  | _, _ => .error (.unsupported "prefix operand kind")

theorem evalExpr_pre (cfg fuel sp ty op e st) :
    evalExpr cfg (fuel + 1) (.pre sp ty op e) st =
      match evalExpr cfg fuel e st with
      | (.ok v, st1) => (preOp op v, st1)
      | (.error c, st1) => (.error c, st1) := by
  rw [evalExpr.eq_def]
  simp only []
  rw [M_bind]
  rcases evalExpr cfg fuel e st with ⟨r, st1⟩
  cases r with
  | error c => rfl
  | ok v => cases op <;> cases v <;> rfl

theorem evalExpr_ident (cfg fuel sp ty n g f s st v) (h : lookupScopes n st.scopes = some v) :
    evalExpr cfg (fuel + 1) (.ident sp ty n g f s) st = (.ok v, st) := by
  rw [evalExpr.eq_def]
  simp only []
  rw [M_bind, M_get]
  simp only [h]
  rfl

theorem evalExpr_infix (cfg fuel sp ty op l r st) (h : Frag.isLogical op = false) :
    evalExpr cfg (fuel + 1) (.infix sp ty op l r) st =
      match evalExpr cfg fuel l st with
      | (.ok a, st1) =>
        match evalExpr cfg fuel r st1 with
        | (.ok b, st2) => binOp op a b sp st2
        | (.error c, st2) => (.error c, st2)
      | (.error c, st1) => (.error c, st1) := by
  rw [evalExpr]
  · rw [M_bind]
    rcases evalExpr cfg fuel l st with ⟨r1, st1⟩
    cases r1 with
    | error c => rfl
    | ok a =>
      simp only []
      rw [M_bind]
      rcases evalExpr cfg fuel r st1 with ⟨r2, st2⟩
      cases r2 <;> rfl
  · intro h'; subst h'; cases h
  · intro h'; subst h'; cases h

/-! ## `binOp` reads the heap and nothing else, and never writes -/

/-- `m` does not change the state and looks at its heap only. -/
def HeapOnly {α} (m : M α) : Prop := ∀ st st' : St, st'.heap = st.heap → m st' = ((m st).1, st')

theorem HeapOnly.state {α} {m : M α} (h : HeapOnly m) (st : St) : (m st).2 = st := by
  have := h st st rfl
  rw [this]

theorem HeapOnly.of_pure {α} (m : M α) (h : ∀ st, m st = ((m default).1, st)) : HeapOnly m := by
  intro st st' _
  rw [h st', h st]

theorem intOp_pure (op x y sp) : ∀ st, intOp op x y sp st = ((intOp op x y sp default).1, st) := by
  intro st
  cases op <;> simp only [intOp] <;> repeat (first | rfl | split)

theorem floatOp_pure (op x y sp) : ∀ st, floatOp op x y sp st = ((floatOp op x y sp default).1, st) := by
  intro st
  cases op <;> simp only [floatOp] <;> (try rfl) <;> first | (split <;> rfl) | (cases goPow x y <;> rfl)

theorem boolOp_pure (op x y) : ∀ st, boolOp op x y st = ((boolOp op x y default).1, st) := by
  intro st
  cases op <;> rfl

theorem eqM_run (a b : Val) (st : St) :
    eqM a b st = match valEq st.heap 64 a b with
      | some r => (.ok r, st)
      | none => (.error (.unsupported "equality of these values"), st) := by
  unfold eqM
  rw [M_bind, M_get]
  simp only []
  cases valEq st.heap 64 a b <;> rfl

theorem eqM_heapOnly (a b : Val) : HeapOnly (eqM a b) := by
  intro st st' h
  rw [eqM_run, eqM_run, h]
  cases valEq st.heap 64 a b <;> rfl

theorem binOp_eq_run (a b : Val) (sp : Span) (st : St) :
    binOp .eq a b sp st = match valEq st.heap 64 a b with
      | some r => (.ok (.bool r), st)
      | none => (.error (.unsupported "equality of these values"), st) := by
  show ((eqM a b >>= fun r => pure (Val.bool r)) : M Val) st = _
  rw [M_bind, eqM_run]
  cases valEq st.heap 64 a b <;> rfl

theorem binOp_ne_run (a b : Val) (sp : Span) (st : St) :
    binOp .ne a b sp st = match valEq st.heap 64 a b with
      | some r => (.ok (.bool (!r)), st)
      | none => (.error (.unsupported "equality of these values"), st) := by
  show ((eqM a b >>= fun r => pure (Val.bool (!r))) : M Val) st = _
  rw [M_bind, eqM_run]
  cases valEq st.heap 64 a b <;> rfl

theorem binOp_heapOnly (op : InfixOp) (a b : Val) (sp : Span) : HeapOnly (binOp op a b sp) := by
  by_cases h1 : op = .eq
  · subst h1
    intro st st' h
    rw [binOp_eq_run, binOp_eq_run, h]; cases valEq st.heap 64 a b <;> rfl
  by_cases h2 : op = .ne
  · subst h2
    intro st st' h
    rw [binOp_ne_run, binOp_ne_run, h]; cases valEq st.heap 64 a b <;> rfl
  apply HeapOnly.of_pure
  intro st
  unfold binOp
  split
  · exact absurd rfl h1
  · exact absurd rfl h2
  · exact intOp_pure ..
  · exact floatOp_pure ..
  · exact boolOp_pure ..
  · rfl
  · rfl

/-! ## The operand-kind test of `binArith` -/

/-- The kinds for which the Go VM's type assertions succeed (copied from `binArith`). -/
def okKinds (op : InfixOp) (l r : Val) : Bool :=
  match op, l, r with
  | .eq, _, _ => true
  | _, .int _, .int _ => true
  | .pow, .float _, .float _ => true
  | .pow, _, _ => false
  | .add, .float _, .float _ | .sub, .float _, .float _ | .mul, .float _, .float _
  | .div, .float _, .float _ | .lt, .float _, .float _ | .gt, .float _, .float _
  | .le, .float _, .float _ | .ge, .float _, .float _ => true
  | .add, .str _, .str _ => true
  | .bitOr, .bool _, .bool _ | .bitAnd, .bool _, .bool _ | .bitXor, .bool _, .bool _ => true
  | _, _, _ => false

theorem binArith_eq (op : InfixOp) (s : VMState) (sp : Span) (r l : SVal) (rest : List SVal)
    (h : s.stack = r :: l :: rest) :
    binArith op s sp =
      if !okKinds op l.v r.v then .panic "operand kinds" s
      else match runM { s with stack := rest } (binOp op l.v r.v sp) with
        | (.ok v, s'') => .next (advance (push1 s'' v))
        | (.error c, s'') => ctlToRes c s'' := by
  unfold binArith
  rw [h]
  rfl

/-- Operand kinds the VM would panic on are exactly those the specification calls unsupported
(for `!=` the compiler emits `eq; not`, so `ne` never reaches `binArith`). -/
theorem binOp_unsup (op : InfixOp) (a b : Val) (sp : Span) (st : St) (h : okKinds op a b = false)
    (hne : op ≠ .ne) : ∃ w, binOp op a b sp st = (.error (.unsupported w), st) := by
  cases op <;> first | exact absurd rfl hne | skip
  all_goals
    cases a <;> cases b <;> first | exact ⟨_, rfl⟩ | exact absurd h (by simp [okKinds])

/-! ## Multi-step execution -/

/-- The instruction the top frame points at (as `runQuantum` fetches it). -/
def fetch (code : Code) (s : VMState) : Option (RInstr × Span) :=
  match s.calls with
  | [] => none
  | f :: _ => (findCode code f.fn).bind (·[f.ip]?)

/-- One instruction, as in `runQuantum`: count the step, then `VM.step`. -/
def exec1 (code : Code) (lim : Limits) (s : VMState) : StepRes :=
  match fetch code s with
  | some (i, sp) => step code lim { s with steps := s.steps + 1 } i sp
  | none => .panic "no instruction" s

/-- `n` instructions; stops at the first interrupt or panic. -/
def execN (code : Code) (lim : Limits) : Nat → VMState → StepRes
  | 0, s => .next s
  | n + 1, s =>
    match exec1 code lim s with
    | .next s' => execN code lim n s'
    | r => r

theorem execN_add (code : Code) (lim : Limits) (a b : Nat) : ∀ s,
    execN code lim (a + b) s = match execN code lim a s with
      | .next s' => execN code lim b s'
      | r => r := by
  induction a with
  | zero => intro s; simp [execN]
  | succ a ih =>
    intro s
    rw [Nat.add_right_comm]
    simp only [execN]
    cases h : exec1 code lim s with
    | next s' => simp only [ih]
    | intr i s' => rfl
    | panic w s' => rfl

theorem execN_one (code : Code) (lim : Limits) (s : VMState) : execN code lim 1 s = exec1 code lim s := by
  simp only [execN]
  cases exec1 code lim s <;> rfl

/-- `c` holds the instructions `xs` from index `ip` on. -/
def CodeAt (c : List (RInstr × Span)) (ip : Nat) (xs : List (RInstr × Span)) : Prop :=
  ∀ k, k < xs.length → c[ip + k]? = xs[k]?

theorem CodeAt.append {c ip xs ys} (h : CodeAt c ip (xs ++ ys)) :
    CodeAt c ip xs ∧ CodeAt c (ip + xs.length) ys := by
  constructor
  · intro k hk
    have := h k (by simp; omega)
    rw [this, List.getElem?_append_left hk]
  · intro k hk
    have := h (xs.length + k) (by simp; omega)
    rw [Nat.add_assoc, this, List.getElem?_append_right (by omega)]
    simp

theorem CodeAt.of_append {c ip xs ys} (h1 : CodeAt c ip xs) (h2 : CodeAt c (ip + xs.length) ys) :
    CodeAt c ip (xs ++ ys) := by
  intro k hk
  by_cases hx : k < xs.length
  · rw [h1 k hx, List.getElem?_append_left hx]
  · have := h2 (k - xs.length) (by simp at hk; omega)
    rw [List.getElem?_append_right (by omega), ← this]
    congr 1; omega

theorem CodeAt.head {c ip x xs} (h : CodeAt c ip (x :: xs)) : c[ip]? = some x := by
  simpa using h 0 (by simp)

/-- The top frame's instruction pointer moved by `n`. -/
def bumpIp (n : Nat) : List Frame → List Frame
  | f :: rest => { f with ip := f.ip + n } :: rest
  | [] => []

/-- The state after `n` instructions that pushed `v` and did nothing else. -/
def done (s : VMState) (n : Nat) (v : Val) : VMState :=
  { s with stack := ⟨v, none⟩ :: s.stack, calls := bumpIp n s.calls, steps := s.steps + n }

/-- Lower symbolic code to VM code: labels through `lab`, mangled names through `σ`. -/
def lower (lab : String → Nat) (σ : String → Nat) (p : SInstr × Span) : RInstr × Span :=
  (mapLV lab σ p.1, p.2)

/-- **Environment relation**: every listed source variable is visible in the specification's
scopes, is resolved by the compiler's scope map `ρ`, and its slot (through `σ`) addresses a
legal memory cell `mp - slot` holding the same value. -/
def EnvRel (ρ : String → Option String) (σ : String → Nat) (lim : Limits) (xs : List String)
    (scopes : List (List (String × Val))) (mp : Int) (mem : List (Int × Val)) : Prop :=
  ∀ x ∈ xs, ∃ m v, ρ x = some m ∧ lookupScopes x scopes = some v ∧
    0 ≤ mp - (σ m : Int) ∧ mp - (σ m : Int) < (lim.memory : Int) ∧ mem.lookup (mp - (σ m : Int)) = some v

theorem EnvRel.mono {ρ σ lim xs ys scopes mp mem} (h : EnvRel ρ σ lim xs scopes mp mem)
    (hsub : ∀ x ∈ ys, x ∈ xs) : EnvRel ρ σ lim ys scopes mp mem :=
  fun x hx => h x (hsub x hx)

/-- Store components an expression must not touch. -/
def SameStore (s s' : VMState) : Prop :=
  s'.st = s.st ∧ s'.mem = s.mem ∧ s'.mp = s.mp ∧ s'.globals = s.globals ∧ s'.handlers = s.handlers

/-- The simulation statement for one evaluation result `r` of the specification, started in
`st`: `.ok v` ↦ the VM reaches `done s n v` and the specification state is unchanged; a fatal
error ↦ the VM raises the same fatal interrupt (kind, message, span) with its store unchanged;
anything else (`unsupported`, `timeout`, …) ↦ no claim. -/
def Sim1 (code : Code) (lim : Limits) (s : VMState) (n : Nat) (st : St) (r : Except Ctl Val × St) : Prop :=
  match r with
  | (.ok v, st') => st' = st ∧ execN code lim n s = .next (done s n v)
  | (.error (.fatal k m sp), st') =>
    st' = st ∧ ∃ s', execN code lim n s = .intr (.fatal k m sp) s' ∧ SameStore s s'
  | _ => True

end HmsProofs.Sim
