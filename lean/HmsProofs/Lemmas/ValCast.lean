import Hms.Value.Cast
import HmsProofs.Lemmas.ValEq
/-! Lemmas for C12: soundness, identity, admission, error paths of `castAll`. -/
namespace HmsProofs.Lemmas.ValCast
open Hms.Value HmsProofs.Lemmas.ValEq

theorem castVals_ok_all {f : Nat → Val → CastRes} {P : Val → Bool}
    (h : ∀ i x x', f i x = .ok x' → P x' = true) :
    ∀ (xs : Vals) (n : Nat) (xs' : Vals), castVals f n xs = .ok xs' → xs'.all P = true
  | .nil, n, xs', e => by
    simp [castVals] at e; subst e; simp [Vals.all]
  | .cons x xs, n, xs', e => by
    simp only [castVals] at e
    split at e
    · cases e
    · rename_i x' hx
      split at e
      · cases e
      · rename_i ys hys
        cases e
        simp [Vals.all, h n x x' hx, castVals_ok_all h xs (n + 1) ys hys]

theorem lookup_cons_ne {k q : String} {v : Val} {fs : Fields} (h : k ≠ q) :
    (Fields.cons k v fs).lookup q = fs.lookup q := by
  simp [Fields.lookup, h]

theorem conformsFields_cons_skip (k : String) (x : Val) (o : Fields) :
    ∀ (tfs : TyFields), tfs.keys.contains k = false → conformsFields tfs (.cons k x o) = conformsFields tfs o
  | .nil, _ => by simp [conformsFields]
  | .cons k' t rest, h => by
    simp [TyFields.keys] at h
    have hne : k ≠ k' := h.1
    simp only [conformsFields, lookup_cons_ne hne]
    rw [conformsFields_cons_skip k x o rest (by simpa using h.2)]

theorem except_map_ok {ε α β} {f : α → β} {x : Except ε α} {y : β} (h : x.map f = .ok y) :
    ∃ a, x = .ok a ∧ y = f a := by
  cases x with
  | error e => simp [Except.map] at h
  | ok a => simp [Except.map] at h; exact ⟨a, rfl, h.symm⟩

theorem castFields_cons_none {allow k t rest fs p} (h : Fields.lookup fs k = .none) :
    castFields allow (.cons k t rest) fs p =
      ⟨(castFields allow rest fs p).errs, (castFields allow rest fs p).out, .some k⟩ := by
  simp [castFields, h]

theorem castFields_cons_ok {allow k t rest fs p x x'} (h : Fields.lookup fs k = .some x)
    (h2 : castAll allow t x (p ++ [.field k]) = .ok x') :
    castFields allow (.cons k t rest) fs p =
      ⟨(castFields allow rest fs p).errs, .cons k x' (castFields allow rest fs p).out,
        (castFields allow rest fs p).missing⟩ := by
  simp [castFields, h, h2]

theorem castFields_cons_err {allow k t rest fs p x es} (h : Fields.lookup fs k = .some x)
    (h2 : castAll allow t x (p ++ [.field k]) = .error es) :
    castFields allow (.cons k t rest) fs p =
      ⟨es ++ (castFields allow rest fs p).errs, (castFields allow rest fs p).out,
        (castFields allow rest fs p).missing⟩ := by
  simp [castFields, h, h2]

theorem except_map_err {ε α β} {f : α → β} {x : Except ε α} {e : ε} (h : x.map f = .error e) :
    x = .error e := by
  cases x with
  | error e' => simp [Except.map] at h; rw [h]
  | ok a => simp [Except.map] at h

theorem castVals_err {f : Nat → Val → CastRes} :
    ∀ (xs : Vals) (n : Nat) (es : List CastErr), castVals f n xs = .error es →
      ∃ i x, n ≤ i ∧ xs.get? (i - n) = .some x ∧ f i x = .error es
  | .nil, n, es, e => by simp [castVals] at e
  | .cons x xs, n, es, e => by
    simp only [castVals] at e
    split at e
    · rename_i es' hx
      cases e
      exact ⟨n, x, Nat.le_refl _, by simp [Vals.get?], hx⟩
    · rename_i x' hx
      split at e
      · rename_i es' hys
        cases e
        obtain ⟨i, y, hi, hg, hf⟩ := castVals_err xs (n + 1) es hys
        refine ⟨i, y, by omega, ?_, hf⟩
        have : i - n = (i - (n + 1)) + 1 := by omega
        rw [this]; simpa [Vals.get?] using hg
      · cases e

/-- A failing cast reports at least one error. -/
theorem castAll_err_ne (allow : Bool) : ∀ (T : Ty) (v : Val) (p : Path) (es : List CastErr),
    castAll allow T v p = .error es → es ≠ []
  | .any, v, p, es, e => by simp [castAll] at e
  | .opt t, v, p, es, e => by
    cases v <;> simp only [castAll] at e <;>
      first
      | cases e
      | exact castAll_err_ne allow t _ _ _ (except_map_err e)
  | .null, v, p, es, e => by cases v <;> simp [castAll, incompatible] at e <;> subst e <;> simp
  | .str, v, p, es, e => by cases v <;> simp [castAll, incompatible] at e <;> subst e <;> simp
  | .range, v, p, es, e => by cases v <;> simp [castAll, incompatible] at e <;> subst e <;> simp
  | .fn, v, p, es, e => by simp [castAll, incompatible] at e; subst e; simp
  | .bool, v, p, es, e => by
    cases v <;> cases allow <;> simp [castAll, incompatible] at e <;> subst e <;> simp
  | .int, v, p, es, e => by
    cases v <;> cases allow <;> simp [castAll, incompatible] at e <;> subst e <;> simp
  | .float, v, p, es, e => by
    cases v <;> cases allow <;> simp [castAll, incompatible] at e <;> subst e <;> simp
  | .anyobj, v, p, es, e => by cases v <;> simp [castAll, incompatible] at e <;> subst e <;> simp
  | .list t, v, p, es, e => by
    cases v <;> simp only [castAll, incompatible] at e <;> try (cases e; simp)
    obtain ⟨i, x, _, _, hf⟩ := castVals_err _ _ _ (except_map_err e)
    exact castAll_err_ne allow t _ _ _ hf
  | .obj tfs, v, p, es, e => by
    cases v <;> simp only [castAll, incompatible] at e <;> try (cases e; simp)
    split at e
    · cases e
    · cases e; simp
    · rename_i h1 h2
      cases e
      intro h
      cases hm : (castFields allow tfs _ p).missing with
      | none => exact h1 h hm
      | some k => exact h2 k h hm

/-- Invariant of the walk over the declared fields. -/
def FieldsGood (tfs : TyFields) (r : FieldsRes) : Prop :=
  r.errs = [] → r.missing = .none → conformsFields tfs r.out = true ∧ r.out.keys = tfs.keys

mutual
theorem castAll_sound (allow : Bool) : ∀ (T : Ty), T.wf = true → ∀ (v : Val) (p : Path) (v' : Val),
    castAll allow T v p = .ok v' → conforms T v' = true
  | .any, _, v, p, v', e => by simp [conforms]
  | .opt t, hw, v, p, v', e => by
    simp only [Ty.wf] at hw
    cases v <;> simp only [castAll] at e <;>
      first
      | (cases e; simp [conforms])
      | (obtain ⟨a, ha, rfl⟩ := except_map_ok e
         simp only [conforms]; exact castAll_sound allow t hw _ _ _ ha)
  | .null, _, v, p, v', e => by
    cases v <;> simp [castAll, incompatible] at e <;> subst e <;> simp [conforms]
  | .str, _, v, p, v', e => by
    cases v <;> simp [castAll, incompatible] at e <;> subst e <;> simp [conforms]
  | .range, _, v, p, v', e => by
    cases v <;> simp [castAll, incompatible] at e <;> subst e <;> simp [conforms]
  | .fn, _, v, p, v', e => by simp [castAll, incompatible] at e
  | .bool, _, v, p, v', e => by
    cases v <;> cases allow <;> simp [castAll, incompatible] at e <;> subst e <;> simp [conforms]
  | .int, _, v, p, v', e => by
    cases v <;> cases allow <;> simp [castAll, incompatible] at e <;> subst e <;> simp [conforms]
  | .float, _, v, p, v', e => by
    cases v <;> cases allow <;> simp [castAll, incompatible] at e <;> subst e <;> simp [conforms]
  | .anyobj, _, v, p, v', e => by
    cases v <;> simp [castAll, incompatible] at e <;> subst e <;> simp [conforms]
  | .list t, hw, v, p, v', e => by
    simp only [Ty.wf] at hw
    cases v <;> simp only [castAll, incompatible] at e <;> try cases e
    obtain ⟨a, ha, rfl⟩ := except_map_ok e
    simp only [conforms]
    exact castVals_ok_all (fun i x x' h => castAll_sound allow t hw x _ x' h) _ _ _ ha
  | .obj tfs, hw, v, p, v', e => by
    simp only [Ty.wf, Bool.and_eq_true] at hw
    cases v <;> simp only [castAll, incompatible] at e <;> try cases e
    rename_i fs
    have hg := castFields_good allow tfs hw.2 hw.1 fs p
    split at e
    · rename_i h1 h2
      cases e
      simp only [List.append_eq_nil_iff] at h1
      obtain ⟨hc, hk⟩ := hg h1.1 h2
      simp only [conforms, hc, Bool.true_and, hk]
      simp [TyFields.hasKey]
    · cases e
    · cases e
theorem castFields_good (allow : Bool) : ∀ (tfs : TyFields), TyFields.wf tfs = true → nodupKeys tfs.keys = true →
    ∀ (fs : Fields) (p : Path), FieldsGood tfs (castFields allow tfs fs p)
  | .nil, _, _, fs, p => by
    intro _ _; simp [castFields, conformsFields, Fields.keys, TyFields.keys]
  | .cons k t rest, hw, hn, fs, p => by
    simp only [TyFields.wf, Bool.and_eq_true] at hw
    simp only [TyFields.keys, nodupKeys, Bool.and_eq_true, Bool.not_eq_true'] at hn
    have ih := castFields_good allow rest hw.2 hn.2 fs p
    cases hl : fs.lookup k with
    | none =>
      rw [castFields_cons_none hl]
      intro _ hm; simp at hm
    | some x =>
      cases hc : castAll allow t x (p ++ [.field k]) with
      | error es =>
        rw [castFields_cons_err hl hc]
        intro he _
        simp only [List.append_eq_nil_iff] at he
        exact absurd he.1 (castAll_err_ne allow t _ _ _ hc)
      | ok x' =>
        rw [castFields_cons_ok hl hc]
        intro he hm
        obtain ⟨hcf, hk⟩ := ih he hm
        have := castAll_sound allow t hw.1 x _ x' hc
        simp [conformsFields, Fields.lookup, this, Fields.keys, TyFields.keys, hk,
          conformsFields_cons_skip k x' _ rest hn.1, hcf]
end

/-! ### Identity: a conforming value is admitted unchanged -/

theorem castVals_identity {f : Nat → Val → CastRes} {P : Val → Prop} :
    ∀ (xs : Vals) (n : Nat), (∀ i x, P x → ∃ x', f i x = .ok x' ∧ x'.isEqual x = true) →
      (∀ i x, xs.get? i = .some x → P x) →
      ∃ xs', castVals f n xs = .ok xs' ∧ Vals.isEqual xs' xs = true ∧ xs'.length = xs.length
  | .nil, n, _, _ => ⟨.nil, by simp [castVals, Vals.isEqual, Vals.length]⟩
  | .cons x xs, n, hf, hp => by
    obtain ⟨x', hx', he⟩ := hf n x (hp 0 x (by simp [Vals.get?]))
    obtain ⟨xs', hxs', hes, hl⟩ := castVals_identity xs (n + 1) hf (fun i y hy => hp (i + 1) y (by simpa [Vals.get?] using hy))
    exact ⟨.cons x' xs', by simp [castVals, hx', hxs'], by simp [Vals.isEqual, he, hes], by simp [Vals.length, hl]⟩

theorem all_get {p : Val → Bool} : ∀ (xs : Vals), xs.all p = true → ∀ i x, xs.get? i = .some x → p x = true
  | .nil, _, i, x, h => by simp [Vals.get?] at h
  | .cons y ys, ha, i, x, h => by
    simp only [Vals.all, Bool.and_eq_true] at ha
    cases i with
    | zero => simp [Vals.get?] at h; subst h; exact ha.1
    | succ i => exact all_get ys ha.2 i x (by simpa [Vals.get?] using h)

theorem vals_wf_get : ∀ (xs : Vals), xs.wf = true → ∀ i x, xs.get? i = .some x → x.wf = true
  | .nil, _, i, x, h => by simp [Vals.get?] at h
  | .cons y ys, hw, i, x, h => by
    simp only [Vals.wf, Bool.and_eq_true] at hw
    cases i with
    | zero => simp [Vals.get?] at h; subst h; exact hw.1
    | succ i => exact vals_wf_get ys hw.2 i x (by simpa [Vals.get?] using h)

theorem vals_data_get : ∀ (xs : Vals), xs.data = true → ∀ i x, xs.get? i = .some x → x.data = true
  | .nil, _, i, x, h => by simp [Vals.get?] at h
  | .cons y ys, hw, i, x, h => by
    simp only [Vals.data, Bool.and_eq_true] at hw
    cases i with
    | zero => simp [Vals.get?] at h; subst h; exact hw.1
    | succ i => exact vals_data_get ys hw.2 i x (by simpa [Vals.get?] using h)

theorem conformsFields_keys : ∀ (tfs : TyFields) (fs : Fields), conformsFields tfs fs = true →
    ∀ k ∈ tfs.keys, k ∈ fs.keys
  | .nil, _, _, k, hk => by simp [TyFields.keys] at hk
  | .cons k' t rest, fs, h, k, hk => by
    simp only [conformsFields, Bool.and_eq_true] at h
    simp only [TyFields.keys, List.mem_cons] at hk
    rcases hk with rfl | hk
    · cases hl : fs.lookup k with
      | none => simp [hl] at h
      | some x => exact mem_keys_of_mem fs k x (lookup_mem fs k x hl)
    · exact conformsFields_keys rest fs h.2 k hk

theorem castFields_out_keys (allow : Bool) : ∀ (tfs : TyFields) (fs : Fields) (p : Path),
    (castFields allow tfs fs p).errs = [] → (castFields allow tfs fs p).missing = .none →
    (castFields allow tfs fs p).out.keys = tfs.keys
  | .nil, fs, p, _, _ => by simp [castFields, Fields.keys, TyFields.keys]
  | .cons k t rest, fs, p, he, hm => by
    cases hl : fs.lookup k with
    | none => rw [castFields_cons_none hl] at hm; simp at hm
    | some x =>
      cases hc : castAll allow t x (p ++ [.field k]) with
      | error es =>
        rw [castFields_cons_err hl hc] at he
        simp only [List.append_eq_nil_iff] at he
        exact absurd he.1 (castAll_err_ne allow t _ _ _ hc)
      | ok x' =>
        rw [castFields_cons_ok hl hc] at he hm ⊢
        simp [Fields.keys, TyFields.keys, castFields_out_keys allow rest fs p he hm]

/-- Invariant of the walk over the declared fields for a conforming object. -/
def FieldsIdent (fs : Fields) (r : FieldsRes) : Prop :=
  r.errs = [] ∧ r.missing = .none ∧
    ∀ k x', (k, x') ∈ r.out.toList → ∃ x, fs.lookup k = .some x ∧ x'.isEqual x = true

mutual
theorem castAll_identity (allow : Bool) : ∀ (T : Ty) (v : Val) (p : Path), T.wf = true → conforms T v = true →
    v.wf = true → v.data = true → ∃ v', castAll allow T v p = .ok v' ∧ v'.isEqual v = true
  | .any, v, p, _, _, hw, hd => ⟨v, by simp [castAll], isEqual_refl v hw hd⟩
  | .opt t, v, p, hT, hc, hw, hd => by
    simp only [Ty.wf] at hT
    cases v <;> simp [conforms] at hc
    · exact ⟨.none, by simp [castAll], by simp [Val.isEqual]⟩
    · rename_i x
      simp only [Val.wf, Val.data] at hw hd
      obtain ⟨x', hx', he⟩ := castAll_identity allow t x (p ++ [.optInner]) hT hc hw hd
      exact ⟨.some x', by simp [castAll, hx', Except.map], by simp [Val.isEqual, he]⟩
  | .null, v, p, _, hc, hw, hd => by
    cases v <;> simp [conforms] at hc; exact ⟨_, by simp [castAll], isEqual_refl _ hw hd⟩
  | .str, v, p, _, hc, hw, hd => by
    cases v <;> simp [conforms] at hc; exact ⟨_, by simp [castAll], isEqual_refl _ hw hd⟩
  | .range, v, p, _, hc, hw, hd => by
    cases v <;> simp [conforms] at hc; exact ⟨_, by simp [castAll], isEqual_refl _ hw hd⟩
  | .fn, v, p, _, hc, _, _ => by simp [conforms] at hc
  | .bool, v, p, _, hc, hw, hd => by
    cases v <;> simp [conforms] at hc; exact ⟨_, by simp [castAll], isEqual_refl _ hw hd⟩
  | .int, v, p, _, hc, hw, hd => by
    cases v <;> simp [conforms] at hc; exact ⟨_, by simp [castAll], isEqual_refl _ hw hd⟩
  | .float, v, p, _, hc, hw, hd => by
    cases v <;> simp [conforms] at hc; exact ⟨_, by simp [castAll], isEqual_refl _ hw hd⟩
  | .anyobj, v, p, _, hc, hw, hd => by
    cases v <;> simp [conforms] at hc; exact ⟨_, by simp [castAll], isEqual_refl _ hw hd⟩
  | .list t, v, p, hT, hc, hw, hd => by
    simp only [Ty.wf] at hT
    cases v <;> simp [conforms] at hc
    rename_i xs
    simp only [Val.wf, Val.data] at hw hd
    obtain ⟨xs', h1, h2, h3⟩ := castVals_identity (f := fun i x => castAll allow t x (p ++ [.index i]))
      (P := fun x => conforms t x = true ∧ x.wf = true ∧ x.data = true) xs 0
      (fun i x hx => castAll_identity allow t x _ hT hx.1 hx.2.1 hx.2.2)
      (fun i x hx => ⟨all_get xs hc i x hx, vals_wf_get xs hw i x hx, vals_data_get xs hd i x hx⟩)
    exact ⟨.list xs', by simp [castAll, h1, Except.map], by simp [Val.isEqual, h2, h3]⟩
  | .obj tfs, v, p, hT, hc, hw, hd => by
    simp only [Ty.wf, Bool.and_eq_true] at hT
    cases v <;> simp [conforms] at hc
    rename_i fs
    simp only [Val.wf, Val.data, Bool.and_eq_true] at hw hd
    obtain ⟨h1, h2, h3⟩ := castFields_identity allow tfs fs p hT.2 hc.1 hw.2 hd
    have hk := castFields_out_keys allow tfs fs p h1 h2
    have hun : List.filter (fun k => !tfs.hasKey k) fs.keys = [] := by
      simp only [List.filter_eq_nil_iff]; intro k hk'; simp [hc.2 k hk']
    have hsub1 : ∀ k ∈ fs.keys, k ∈ tfs.keys := by
      intro k hk'; simpa [TyFields.hasKey] using hc.2 k hk'
    have hsub2 := conformsFields_keys tfs fs hc.1
    have hlen : (castFields allow tfs fs p).out.length = fs.length := by
      rw [← keys_length, ← keys_length, hk]
      exact Nat.le_antisymm (length_le_of_nodup_subset _ _ hT.1 hsub2) (length_le_of_nodup_subset _ _ hw.1 hsub1)
    refine ⟨.obj (castFields allow tfs fs p).out, ?_, ?_⟩
    · simp [castAll, h1, h2, hun]
    · simp only [Val.isEqual, Bool.and_eq_true]
      exact ⟨by simp [hlen], (isEqualIn_iff _ _).mpr h3⟩
theorem castFields_identity (allow : Bool) : ∀ (tfs : TyFields) (fs : Fields) (p : Path), tfs.wf = true →
    conformsFields tfs fs = true → fs.wf = true → fs.data = true → FieldsIdent fs (castFields allow tfs fs p)
  | .nil, fs, p, _, _, _, _ => by simp [FieldsIdent, castFields, Fields.toList]
  | .cons k t rest, fs, p, hT, hc, hw, hd => by
    simp only [TyFields.wf, Bool.and_eq_true] at hT
    simp only [conformsFields, Bool.and_eq_true] at hc
    obtain ⟨h1, h2, h3⟩ := castFields_identity allow rest fs p hT.2 hc.2 hw hd
    cases hl : fs.lookup k with
    | none => simp [hl] at hc
    | some x =>
      simp only [hl] at hc
      have hm := lookup_mem fs k x hl
      obtain ⟨x', hx', he⟩ := castAll_identity allow t x (p ++ [.field k]) hT.1 hc.1 (mem_wf fs hw k x hm) (mem_data fs hd k x hm)
      rw [castFields_cons_ok hl hx']
      refine ⟨h1, h2, ?_⟩
      intro k2 y hy
      simp only [Fields.toList, List.mem_cons, Prod.mk.injEq] at hy
      rcases hy with ⟨rfl, rfl⟩ | hy
      · exact ⟨x, hl, he⟩
      · exact h3 k2 y hy
end

/-! ### Admission: the cast succeeds exactly on the convertible pairs -/

def okB {ε α} : Except ε α → Bool
  | .ok _ => true
  | .error _ => false

theorem okB_map {ε α β} (f : α → β) (x : Except ε α) : okB (x.map f) = okB x := by
  cases x <;> rfl

theorem okB_iff {ε α} (x : Except ε α) : okB x = true ↔ ∃ a, x = .ok a := by
  cases x <;> simp [okB]

theorem castVals_okB {f : Nat → Val → CastRes} {P : Val → Bool} (h : ∀ i x, okB (f i x) = P x) :
    ∀ (xs : Vals) (n : Nat), okB (castVals f n xs) = xs.all P
  | .nil, n => by simp [castVals, okB, Vals.all]
  | .cons x xs, n => by
    have h1 := h n x
    have h2 := castVals_okB h xs (n + 1)
    simp only [castVals, Vals.all]
    cases hx : f n x with
    | error es =>
      rw [hx] at h1; simp only [okB] at h1
      simp [okB, ← h1]
    | ok x' =>
      rw [hx] at h1; simp only [okB] at h1
      cases hxs : castVals f (n + 1) xs with
      | error es => rw [hxs] at h2; simp only [okB] at h2; simp [okB, ← h1, ← h2]
      | ok xs' => rw [hxs] at h2; simp only [okB] at h2; simp [okB, ← h1, ← h2]

/-- the walk over the declared fields is clean iff every declared field is present and convertible -/
def fieldsClean (r : FieldsRes) : Bool := r.errs.isEmpty && r.missing.isNone

mutual
theorem castAll_okB (allow : Bool) : ∀ (T : Ty) (v : Val) (p : Path),
    okB (castAll allow T v p) = convertible allow T v
  | .any, v, p => by simp [castAll, okB, convertible]
  | .opt t, v, p => by
    cases v <;> simp only [castAll, convertible, okB_map] <;>
      first | rfl | exact castAll_okB allow t _ _
  | .null, v, p => by cases v <;> simp [castAll, incompatible, okB, convertible]
  | .str, v, p => by cases v <;> simp [castAll, incompatible, okB, convertible]
  | .range, v, p => by cases v <;> simp [castAll, incompatible, okB, convertible]
  | .fn, v, p => by simp [castAll, incompatible, okB, convertible]
  | .bool, v, p => by cases v <;> cases allow <;> simp [castAll, incompatible, okB, convertible, isScalarNum]
  | .int, v, p => by cases v <;> cases allow <;> simp [castAll, incompatible, okB, convertible, isScalarNum]
  | .float, v, p => by cases v <;> cases allow <;> simp [castAll, incompatible, okB, convertible, isScalarNum]
  | .anyobj, v, p => by cases v <;> simp [castAll, incompatible, okB, convertible]
  | .list t, v, p => by
    cases v <;> simp only [castAll, incompatible, convertible, okB_map] <;>
      first | rfl | exact castVals_okB (fun i x => castAll_okB allow t x _) _ _
  | .obj tfs, v, p => by
    cases v <;> simp only [castAll, incompatible, convertible] <;> try rfl
    rename_i fs
    rw [← castFields_clean allow tfs fs p]
    generalize castFields allow tfs fs p = r
    have hun : (List.map (fun k => CastErr.mk (.unexpectedField k) p)
        (List.filter (fun k => !tfs.hasKey k) fs.keys)).isEmpty = fs.keys.all (fun k => tfs.hasKey k) := by
      rw [Bool.eq_iff_iff]; simp [List.filter_eq_nil_iff]
    rcases r with ⟨errs, out, missing⟩
    rw [← hun]
    generalize List.map (fun k => CastErr.mk (.unexpectedField k) p) (List.filter (fun k => !tfs.hasKey k) fs.keys) = un
    cases errs <;> cases un <;> cases missing <;> simp [fieldsClean, okB]
theorem castFields_clean (allow : Bool) : ∀ (tfs : TyFields) (fs : Fields) (p : Path),
    fieldsClean (castFields allow tfs fs p) = convertibleFields allow tfs fs
  | .nil, fs, p => by simp [castFields, fieldsClean, convertibleFields]
  | .cons k t rest, fs, p => by
    have ih := castFields_clean allow rest fs p
    cases hl : fs.lookup k with
    | none => rw [castFields_cons_none hl]; simp [fieldsClean, convertibleFields, hl]
    | some x =>
      have hx := castAll_okB allow t x (p ++ [.field k])
      cases hc : castAll allow t x (p ++ [.field k]) with
      | error es =>
        rw [castFields_cons_err hl hc]
        rw [hc] at hx
        have := castAll_err_ne allow t _ _ _ hc
        simp only [okB] at hx
        have : (es ++ (castFields allow rest fs p).errs).isEmpty = false := by
          cases es <;> simp_all
        simp [fieldsClean, convertibleFields, hl, ← hx, this]
      | ok x' =>
        rw [castFields_cons_ok hl hc]
        rw [hc] at hx
        simp [okB] at hx
        simp only [fieldsClean] at ih
        simp [fieldsClean, convertibleFields, hl, ← hx, ih]
end

/-! ### Error paths: every reportable error addresses an offending sub-value -/

def ErrAt (allow : Bool) (p : Path) (v : Val) (T : Ty) (e : CastErr) : Prop :=
  ∃ q vs Ts, e.path = p ++ q ∧ subAt q v T = .some (vs, Ts) ∧ offends allow e.cls vs Ts = true

def isPlain : Val → Bool
  | .some _ | .none | .null => false
  | _ => true

theorem peel_opt_plain {v : Val} (h : isPlain v = true) (t : Ty) : peel v (.opt t) = peel v t := by
  cases v <;> simp [isPlain] at h <;> simp [peel, Ty.stripOpt]

theorem subAt_opt_plain {v : Val} (h : isPlain v = true) (t : Ty) : ∀ q, subAt q v (.opt t) = subAt q v t
  | [] => by simp [subAt, peel_opt_plain h]
  | c :: rest => by simp [subAt, peel_opt_plain h]

theorem errAt_opt_plain {allow p v t e} (h : isPlain v = true) (he : ErrAt allow p v t e) :
    ErrAt allow p v (.opt t) e := by
  obtain ⟨q, vs, Ts, h1, h2, h3⟩ := he
  exact ⟨q, vs, Ts, h1, by rw [subAt_opt_plain h]; exact h2, h3⟩

theorem errAt_here {allow p v T c} (h : offends allow c v (peel v T) = true) :
    ErrAt allow p v T ⟨c, p⟩ :=
  ⟨[], v, peel v T, by simp, by simp [subAt], h⟩

theorem ty_mem_keys_of_mem : ∀ (tfs : TyFields) (k : String) (t : Ty), (k, t) ∈ tfs.toList → k ∈ tfs.keys
  | .nil, k, t, h => by simp [TyFields.toList] at h
  | .cons k' t' tfs, k, t, h => by
    simp only [TyFields.toList, List.mem_cons, Prod.mk.injEq] at h
    rcases h with ⟨rfl, _⟩ | h
    · simp [TyFields.keys]
    · simp [TyFields.keys, ty_mem_keys_of_mem tfs k t h]

theorem tylookup_of_mem_nodup : ∀ (tfs : TyFields) (k : String) (t : Ty), nodupKeys tfs.keys = true →
    (k, t) ∈ tfs.toList → tfs.lookup k = .some t
  | .nil, k, t, _, h => by simp [TyFields.toList] at h
  | .cons k' t' tfs, k, t, hn, h => by
    simp only [TyFields.keys] at hn
    rw [nodupKeys_cons] at hn
    simp only [TyFields.toList, List.mem_cons, Prod.mk.injEq] at h
    rcases h with ⟨rfl, rfl⟩ | h
    · simp [TyFields.lookup]
    · have hk : k ∈ tfs.keys := ty_mem_keys_of_mem tfs k t h
      have : k' ≠ k := fun e => hn.1 (e ▸ hk)
      simp [TyFields.lookup, this, tylookup_of_mem_nodup tfs k t hn.2 h]

theorem ty_mem_wf : ∀ (tfs : TyFields), tfs.wf = true → ∀ k t, (k, t) ∈ tfs.toList → t.wf = true
  | .nil, _, k, t, h => by simp [TyFields.toList] at h
  | .cons k' t' tfs, hw, k, t, h => by
    simp only [TyFields.wf, Bool.and_eq_true] at hw
    simp only [TyFields.toList, List.mem_cons, Prod.mk.injEq] at h
    rcases h with ⟨rfl, rfl⟩ | h
    · exact hw.1
    · exact ty_mem_wf tfs hw.2 k t h

/-- What the walk over the declared fields reports. -/
def FieldsErrs (allow : Bool) (tfs : TyFields) (fs : Fields) (p : Path) (r : FieldsRes) : Prop :=
  (∀ e ∈ r.errs, ∃ k t x, (k, t) ∈ tfs.toList ∧ fs.lookup k = .some x ∧ ErrAt allow (p ++ [.field k]) x t e) ∧
  (∀ k, r.missing = .some k → k ∈ tfs.keys ∧ fs.lookup k = .none)

mutual
theorem castAll_errpath (allow : Bool) : ∀ (T : Ty), T.wf = true → ∀ (v : Val) (p : Path) (es : List CastErr),
    castAll allow T v p = .error es → ∀ e ∈ es, ErrAt allow p v T e
  | .any, _, v, p, es, h => by simp [castAll] at h
  | .opt t, hT, v, p, es, h => by
    simp only [Ty.wf] at hT
    intro e he
    cases v <;> simp only [castAll] at h <;>
      first
      | cases h
      | exact errAt_opt_plain rfl (castAll_errpath allow t hT _ _ _ (except_map_err h) e he)
      | skip
    rename_i x
    obtain ⟨q, vs, Ts, h1, h2, h3⟩ := castAll_errpath allow t hT _ _ _ (except_map_err h) e he
    exact ⟨.optInner :: q, vs, Ts, by simp [h1], by simp [subAt, peel, h2], h3⟩
  | .null, _, v, p, es, h => by
    cases v <;> simp [castAll, incompatible] at h <;> subst h <;> simp <;>
      exact errAt_here (by simp [offends, rootFits, peel, Ty.stripOpt])
  | .str, _, v, p, es, h => by
    cases v <;> simp [castAll, incompatible] at h <;> subst h <;> simp <;>
      exact errAt_here (by simp [offends, rootFits, peel, Ty.stripOpt])
  | .range, _, v, p, es, h => by
    cases v <;> simp [castAll, incompatible] at h <;> subst h <;> simp <;>
      exact errAt_here (by simp [offends, rootFits, peel, Ty.stripOpt])
  | .fn, _, v, p, es, h => by
    simp [castAll, incompatible] at h; subst h; simp
    exact errAt_here (by cases v <;> simp [offends, rootFits, peel, Ty.stripOpt])
  | .bool, _, v, p, es, h => by
    cases v <;> cases allow <;> simp [castAll, incompatible] at h <;> subst h <;> simp <;>
      exact errAt_here (by simp [offends, rootFits, peel, Ty.stripOpt, isScalarNum])
  | .int, _, v, p, es, h => by
    cases v <;> cases allow <;> simp [castAll, incompatible] at h <;> subst h <;> simp <;>
      exact errAt_here (by simp [offends, rootFits, peel, Ty.stripOpt, isScalarNum])
  | .float, _, v, p, es, h => by
    cases v <;> cases allow <;> simp [castAll, incompatible] at h <;> subst h <;> simp <;>
      exact errAt_here (by simp [offends, rootFits, peel, Ty.stripOpt, isScalarNum])
  | .anyobj, _, v, p, es, h => by
    cases v <;> simp [castAll, incompatible] at h <;> subst h <;> simp <;>
      exact errAt_here (by simp [offends, rootFits, peel, Ty.stripOpt])
  | .list t, hT, v, p, es, h => by
    simp only [Ty.wf] at hT
    intro e he
    cases v <;> simp only [castAll, incompatible] at h <;>
      first
      | (cases h; simp at he; subst he; exact errAt_here (by simp [offends, rootFits, peel, Ty.stripOpt]))
      | skip
    rename_i xs
    obtain ⟨i, x, _, hg, hf⟩ := castVals_err _ _ _ (except_map_err h)
    obtain ⟨q, vs, Ts, h1, h2, h3⟩ := castAll_errpath allow t hT _ _ _ hf e he
    have hg' : xs.get? i = .some x := by simpa using hg
    exact ⟨.index i :: q, vs, Ts, by simp [h1], by simp [subAt, peel, Ty.stripOpt, hg', h2], h3⟩
  | .obj tfs, hT, v, p, es, h => by
    simp only [Ty.wf, Bool.and_eq_true] at hT
    intro e he
    cases v <;> simp only [castAll, incompatible] at h <;>
      first
      | (cases h; simp at he; subst he; exact errAt_here (by simp [offends, rootFits, peel, Ty.stripOpt]))
      | skip
    rename_i fs
    obtain ⟨hE, hM⟩ := castFields_errpath allow tfs hT.2 fs p
    have hnested : ∀ e ∈ (castFields allow tfs fs p).errs, ErrAt allow p (.obj fs) (.obj tfs) e := by
      intro e he
      obtain ⟨k, t, x, h1, h2, q, vs, Ts, h3, h4, h5⟩ := hE e he
      have hl := tylookup_of_mem_nodup tfs k t hT.1 h1
      exact ⟨.field k :: q, vs, Ts, by simp [h3], by simp [subAt, peel, Ty.stripOpt, h2, hl, h4], h5⟩
    have hunexp : ∀ e ∈ List.map (fun k => CastErr.mk (.unexpectedField k) p)
        (List.filter (fun k => !tfs.hasKey k) fs.keys), ErrAt allow p (.obj fs) (.obj tfs) e := by
      intro e he
      simp only [List.mem_map, List.mem_filter] at he
      obtain ⟨k, ⟨hk1, hk2⟩, rfl⟩ := he
      exact errAt_here (by simp [offends, peel, Ty.stripOpt, Fields.hasKey, hk1] ; simpa using hk2)
    split at h
    · cases h
    · rename_i k _ hm
      cases h
      simp at he; subst he
      obtain ⟨h1, h2⟩ := hM k hm
      have : k ∉ fs.keys := fun hk => by
        obtain ⟨a, ha⟩ := lookup_of_mem_keys fs k hk
        rw [h2] at ha; cases ha
      exact errAt_here (by simp [offends, peel, Ty.stripOpt, TyFields.hasKey, Fields.hasKey, h1, this])
    · cases h
      simp only [List.mem_append] at he
      rcases he with he | he
      · exact hnested e he
      · exact hunexp e he
theorem castFields_errpath (allow : Bool) : ∀ (tfs : TyFields), tfs.wf = true → ∀ (fs : Fields) (p : Path),
    FieldsErrs allow tfs fs p (castFields allow tfs fs p)
  | .nil, _, fs, p => by simp [FieldsErrs, castFields]
  | .cons k t rest, hT, fs, p => by
    simp only [TyFields.wf, Bool.and_eq_true] at hT
    obtain ⟨hE, hM⟩ := castFields_errpath allow rest hT.2 fs p
    have hE' : ∀ e ∈ (castFields allow rest fs p).errs, ∃ k' t' x, (k', t') ∈ (TyFields.cons k t rest).toList ∧
        fs.lookup k' = .some x ∧ ErrAt allow (p ++ [.field k']) x t' e := by
      intro e he
      obtain ⟨k', t', x, h1, h2, h3⟩ := hE e he
      exact ⟨k', t', x, by simp [TyFields.toList, h1], h2, h3⟩
    have hM' : ∀ k', (castFields allow rest fs p).missing = .some k' →
        k' ∈ (TyFields.cons k t rest).keys ∧ fs.lookup k' = .none := by
      intro k' hk'
      obtain ⟨h1, h2⟩ := hM k' hk'
      exact ⟨by simp [TyFields.keys, h1], h2⟩
    cases hl : fs.lookup k with
    | none =>
      rw [castFields_cons_none hl]
      refine ⟨hE', ?_⟩
      intro k' hk'
      simp at hk'; subst hk'
      exact ⟨by simp [TyFields.keys], hl⟩
    | some x =>
      cases hc : castAll allow t x (p ++ [.field k]) with
      | error es =>
        rw [castFields_cons_err hl hc]
        refine ⟨?_, hM'⟩
        intro e he
        simp only [List.mem_append] at he
        rcases he with he | he
        · exact ⟨k, t, x, by simp [TyFields.toList], hl, castAll_errpath allow t hT.1 _ _ _ hc e he⟩
        · exact hE' e he
      | ok x' =>
        rw [castFields_cons_ok hl hc]
        exact ⟨hE', hM'⟩
end

/-! ### The admitted value is again a well-formed data value -/

def good (v : Val) : Bool := v.wf && v.data

theorem vals_good : ∀ xs : Vals, (xs.wf && xs.data) = xs.all good
  | .nil => by simp [Vals.wf, Vals.data, Vals.all]
  | .cons x xs => by
    have ih := vals_good xs
    simp only [Vals.wf, Vals.data, Vals.all, good, ← ih]
    cases x.wf <;> cases x.data <;> cases xs.wf <;> cases xs.data <;> rfl

theorem good_list (xs : Vals) : good (.list xs) = xs.all good := by
  simp [good, Val.wf, Val.data, vals_good]

theorem castVals_ok_all' {f : Nat → Val → CastRes} {P Q : Val → Bool}
    (h : ∀ i x x', Q x = true → f i x = .ok x' → P x' = true) :
    ∀ (xs : Vals) (n : Nat) (xs' : Vals), xs.all Q = true → castVals f n xs = .ok xs' → xs'.all P = true
  | .nil, n, xs', _, e => by
    simp [castVals] at e; subst e; simp [Vals.all]
  | .cons x xs, n, xs', hq, e => by
    simp only [Vals.all, Bool.and_eq_true] at hq
    simp only [castVals] at e
    split at e
    · cases e
    · rename_i x' hx
      split at e
      · cases e
      · rename_i ys hys
        cases e
        simp [Vals.all, h n x x' hq.1 hx, castVals_ok_all' h xs (n + 1) ys hq.2 hys]

theorem good_get : ∀ (xs : Vals), xs.all good = true → ∀ i x, xs.get? i = .some x → good x = true :=
  fun xs h => all_get xs h

theorem fields_good_mem (fs : Fields) (hw : fs.wf = true) (hd : fs.data = true) (k : String) (x : Val)
    (h : fs.lookup k = .some x) : good x = true := by
  have hm := lookup_mem fs k x h
  simp [good, mem_wf fs hw k x hm, mem_data fs hd k x hm]

mutual
theorem castAll_good (allow : Bool) : ∀ (T : Ty), T.wf = true → ∀ (v : Val) (p : Path) (v' : Val),
    good v = true → castAll allow T v p = .ok v' → good v' = true
  | .any, _, v, p, v', hg, e => by simp [castAll] at e; subst e; exact hg
  | .opt t, hT, v, p, v', hg, e => by
    simp only [Ty.wf] at hT
    cases v <;> simp only [castAll] at e <;>
      first
      | (cases e; simp [good, Val.wf, Val.data])
      | (obtain ⟨a, ha, rfl⟩ := except_map_ok e
         have := castAll_good allow t hT _ _ _ (by simpa [good, Val.wf, Val.data] using hg) ha
         simpa [good, Val.wf, Val.data] using this)
  | .null, _, v, p, v', hg, e => by
    cases v <;> simp [castAll, incompatible] at e <;> subst e <;> exact hg
  | .str, _, v, p, v', hg, e => by
    cases v <;> simp [castAll, incompatible] at e <;> subst e <;> exact hg
  | .range, _, v, p, v', hg, e => by
    cases v <;> simp [castAll, incompatible] at e <;> subst e <;> exact hg
  | .fn, _, v, p, v', hg, e => by simp [castAll, incompatible] at e
  | .bool, _, v, p, v', hg, e => by
    cases v <;> cases allow <;> simp [castAll, incompatible] at e <;> subst e <;> simp [good, Val.wf, Val.data]
  | .int, _, v, p, v', hg, e => by
    cases v <;> cases allow <;> simp [castAll, incompatible] at e <;> subst e <;> simp [good, Val.wf, Val.data]
  | .float, _, v, p, v', hg, e => by
    cases v <;> cases allow <;> simp [castAll, incompatible] at e <;> subst e <;> simp [good, Val.wf, Val.data]
  | .anyobj, _, v, p, v', hg, e => by
    cases v <;> simp [castAll, incompatible] at e <;> subst e <;> simp_all [good, Val.wf, Val.data]
  | .list t, hT, v, p, v', hg, e => by
    simp only [Ty.wf] at hT
    cases v <;> simp only [castAll, incompatible] at e <;> try cases e
    rename_i xs
    obtain ⟨a, ha, rfl⟩ := except_map_ok e
    rw [good_list] at hg ⊢
    exact castVals_ok_all' (fun i x x' hq hx => castAll_good allow t hT x _ x' hq hx) _ _ _ hg ha
  | .obj tfs, hT, v, p, v', hg, e => by
    simp only [Ty.wf, Bool.and_eq_true] at hT
    cases v <;> simp only [castAll, incompatible] at e <;> try cases e
    rename_i fs
    simp only [good, Val.wf, Val.data, Bool.and_eq_true] at hg
    have ho := castFields_good' allow tfs hT.2 fs p hg.1.2 hg.2
    split at e
    · rename_i h1 h2
      cases e
      simp only [List.append_eq_nil_iff] at h1
      have hk := castFields_out_keys allow tfs fs p h1.1 h2
      simp [good, Val.wf, Val.data, hk, hT.1, ho.1, ho.2]
    · cases e
    · cases e
theorem castFields_good' (allow : Bool) : ∀ (tfs : TyFields), tfs.wf = true → ∀ (fs : Fields) (p : Path),
    fs.wf = true → fs.data = true →
    (castFields allow tfs fs p).out.wf = true ∧ (castFields allow tfs fs p).out.data = true
  | .nil, _, fs, p, _, _ => by simp [castFields, Fields.wf, Fields.data]
  | .cons k t rest, hT, fs, p, hw, hd => by
    simp only [TyFields.wf, Bool.and_eq_true] at hT
    have ih := castFields_good' allow rest hT.2 fs p hw hd
    cases hl : fs.lookup k with
    | none => rw [castFields_cons_none hl]; exact ih
    | some x =>
      cases hc : castAll allow t x (p ++ [.field k]) with
      | error es => rw [castFields_cons_err hl hc]; exact ih
      | ok x' =>
        rw [castFields_cons_ok hl hc]
        have := castAll_good allow t hT.1 x _ x' (fields_good_mem fs hw hd k x hl) hc
        simp only [good, Bool.and_eq_true] at this
        simp [Fields.wf, Fields.data, this.1, this.2, ih.1, ih.2]
end

/-! ### … and that sub-value is not convertible to the type it meets -/

theorem stripOpt_idem : ∀ (T : Ty), T.stripOpt.stripOpt = T.stripOpt
  | .opt t => by simp [Ty.stripOpt, stripOpt_idem t]
  | .any | .null | .int | .float | .bool | .str | .range | .anyobj | .fn | .list _ | .obj _ => by
    simp [Ty.stripOpt]

theorem peel_idem (v : Val) (T : Ty) : peel v (peel v T) = peel v T := by
  cases v <;> simp [peel, stripOpt_idem]

theorem subAt_peeled : ∀ (q : Path) (v : Val) (T : Ty) (vs : Val) (Ts : Ty),
    subAt q v T = .some (vs, Ts) → peel vs Ts = Ts
  | [], v, T, vs, Ts, h => by
    simp [subAt] at h; obtain ⟨rfl, rfl⟩ := h; exact peel_idem _ _
  | c :: rest, v, T, vs, Ts, h => by
    simp only [subAt] at h
    split at h
    · exact subAt_peeled rest _ _ vs Ts h
    · rename_i i xs t _
      cases hg : xs.get? i with
      | none => simp [hg] at h
      | some x => simp [hg] at h; exact subAt_peeled rest _ _ vs Ts h
    · split at h
      · exact subAt_peeled rest _ _ vs Ts h
      · cases h
    · cases h

theorem convertibleFields_missing : ∀ (allow : Bool) (tfs : TyFields) (fs : Fields) (k : String),
    k ∈ tfs.keys → fs.lookup k = .none → convertibleFields allow tfs fs = false
  | allow, .nil, fs, k, hk, _ => by simp [TyFields.keys] at hk
  | allow, .cons k' t rest, fs, k, hk, hl => by
    simp only [TyFields.keys, List.mem_cons] at hk
    rcases hk with rfl | hk
    · simp [convertibleFields, hl]
    · simp [convertibleFields, convertibleFields_missing allow rest fs k hk hl]

theorem stripOpt_ne_opt : ∀ (T : Ty) (t : Ty), T.stripOpt ≠ .opt t
  | .opt t', t => by simpa [Ty.stripOpt] using stripOpt_ne_opt t' t
  | .any, _ | .null, _ | .int, _ | .float, _ | .bool, _ | .str, _ | .range, _ | .anyobj, _ | .fn, _
  | .list _, _ | .obj _, _ => by simp [Ty.stripOpt]

theorem offends_not_convertible (allow : Bool) (c : ErrClass) (vs : Val) (Ts : Ty)
    (hp : peel vs Ts = Ts) (h : offends allow c vs Ts = true) : convertible allow Ts vs = false := by
  cases c with
  | incompatible =>
    simp only [offends, Bool.not_eq_true'] at h
    cases Ts <;> cases vs <;> simp [rootFits] at h <;>
      simp_all [convertible, isScalarNum, peel] <;>
      exact absurd hp (stripOpt_ne_opt _ _)
  | unexpectedField k =>
    cases vs <;> cases Ts <;> simp [offends] at h
    rename_i fs tfs
    simp only [convertible, Bool.and_eq_false_iff]
    right
    simp only [List.all_eq_false]
    exact ⟨k, by simpa [Fields.hasKey] using h.1, by simp [h.2]⟩
  | missingField k =>
    cases vs <;> cases Ts <;> simp [offends] at h
    rename_i fs tfs
    simp only [convertible, Bool.and_eq_false_iff]
    left
    have hk : k ∈ tfs.keys := by simpa [TyFields.hasKey] using h.1
    have hn : k ∉ fs.keys := by simpa [Fields.hasKey] using h.2
    exact convertibleFields_missing allow tfs fs k hk (lookup_none_of_not_mem fs k hn)

end HmsProofs.Lemmas.ValCast
