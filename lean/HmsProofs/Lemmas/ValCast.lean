import Hms.Value.Cast
/-! Lemmas for C12: soundness, identity, admission, error paths of `castAll`. -/
namespace HmsProofs.Lemmas.ValCast
open Hms.Value

theorem castVals_ok_all {f : Nat → Val → CastRes} {P : Val → Bool}
    (h : ∀ i x x', f i x = .ok x' → P x' = true) :
    ∀ (xs : Vals) (n : Nat) (xs' : Vals), castVals f n xs = .ok xs' → xs'.all P = true
  | .nil, n, xs', e => by
    simp [castVals] at e; subst e; simp [Vals.all]
  | .cons x xs, n, xs', e => by
    simp only [castVals] at e
    split at e
    · cases e
    · rename_i x' hx
      split at e
      · cases e
      · rename_i ys hys
        cases e
        simp [Vals.all, h n x x' hx, castVals_ok_all h xs (n + 1) ys hys]

theorem lookup_cons_ne {k q : String} {v : Val} {fs : Fields} (h : k ≠ q) :
    (Fields.cons k v fs).lookup q = fs.lookup q := by
  simp [Fields.lookup, h]

theorem conformsFields_cons_skip (k : String) (x : Val) (o : Fields) :
    ∀ (tfs : TyFields), tfs.keys.contains k = false → conformsFields tfs (.cons k x o) = conformsFields tfs o
  | .nil, _ => by simp [conformsFields]
  | .cons k' t rest, h => by
    simp [TyFields.keys] at h
    have hne : k ≠ k' := h.1
    simp only [conformsFields, lookup_cons_ne hne]
    rw [conformsFields_cons_skip k x o rest (by simpa using h.2)]

theorem except_map_ok {ε α β} {f : α → β} {x : Except ε α} {y : β} (h : x.map f = .ok y) :
    ∃ a, x = .ok a ∧ y = f a := by
  cases x with
  | error e => simp [Except.map] at h
  | ok a => simp [Except.map] at h; exact ⟨a, rfl, h.symm⟩

theorem castFields_cons_none {allow k t rest fs p} (h : Fields.lookup fs k = .none) :
    castFields allow (.cons k t rest) fs p =
      ⟨(castFields allow rest fs p).errs, (castFields allow rest fs p).out, .some k⟩ := by
  simp [castFields, h]

theorem castFields_cons_ok {allow k t rest fs p x x'} (h : Fields.lookup fs k = .some x)
    (h2 : castAll allow t x (p ++ [.field k]) = .ok x') :
    castFields allow (.cons k t rest) fs p =
      ⟨(castFields allow rest fs p).errs, .cons k x' (castFields allow rest fs p).out,
        (castFields allow rest fs p).missing⟩ := by
  simp [castFields, h, h2]

theorem castFields_cons_err {allow k t rest fs p x es} (h : Fields.lookup fs k = .some x)
    (h2 : castAll allow t x (p ++ [.field k]) = .error es) :
    castFields allow (.cons k t rest) fs p =
      ⟨es ++ (castFields allow rest fs p).errs, (castFields allow rest fs p).out,
        (castFields allow rest fs p).missing⟩ := by
  simp [castFields, h, h2]

theorem except_map_err {ε α β} {f : α → β} {x : Except ε α} {e : ε} (h : x.map f = .error e) :
    x = .error e := by
  cases x with
  | error e' => simp [Except.map] at h; rw [h]
  | ok a => simp [Except.map] at h

theorem castVals_err {f : Nat → Val → CastRes} :
    ∀ (xs : Vals) (n : Nat) (es : List CastErr), castVals f n xs = .error es →
      ∃ i x, n ≤ i ∧ xs.get? (i - n) = .some x ∧ f i x = .error es
  | .nil, n, es, e => by simp [castVals] at e
  | .cons x xs, n, es, e => by
    simp only [castVals] at e
    split at e
    · rename_i es' hx
      cases e
      exact ⟨n, x, Nat.le_refl _, by simp [Vals.get?], hx⟩
    · rename_i x' hx
      split at e
      · rename_i es' hys
        cases e
        obtain ⟨i, y, hi, hg, hf⟩ := castVals_err xs (n + 1) es hys
        refine ⟨i, y, by omega, ?_, hf⟩
        have : i - n = (i - (n + 1)) + 1 := by omega
        rw [this]; simpa [Vals.get?] using hg
      · cases e

/-- A failing cast reports at least one error. -/
theorem castAll_err_ne (allow : Bool) : ∀ (T : Ty) (v : Val) (p : Path) (es : List CastErr),
    castAll allow T v p = .error es → es ≠ []
  | .any, v, p, es, e => by simp [castAll] at e
  | .opt t, v, p, es, e => by
    cases v <;> simp only [castAll] at e <;>
      first
      | cases e
      | exact castAll_err_ne allow t _ _ _ (except_map_err e)
  | .null, v, p, es, e => by cases v <;> simp [castAll, incompatible] at e <;> subst e <;> simp
  | .str, v, p, es, e => by cases v <;> simp [castAll, incompatible] at e <;> subst e <;> simp
  | .range, v, p, es, e => by cases v <;> simp [castAll, incompatible] at e <;> subst e <;> simp
  | .fn, v, p, es, e => by simp [castAll, incompatible] at e; subst e; simp
  | .bool, v, p, es, e => by
    cases v <;> cases allow <;> simp [castAll, incompatible] at e <;> subst e <;> simp
  | .int, v, p, es, e => by
    cases v <;> cases allow <;> simp [castAll, incompatible] at e <;> subst e <;> simp
  | .float, v, p, es, e => by
    cases v <;> cases allow <;> simp [castAll, incompatible] at e <;> subst e <;> simp
  | .anyobj, v, p, es, e => by cases v <;> simp [castAll, incompatible] at e <;> subst e <;> simp
  | .list t, v, p, es, e => by
    cases v <;> simp only [castAll, incompatible] at e <;> try (cases e; simp)
    obtain ⟨i, x, _, _, hf⟩ := castVals_err _ _ _ (except_map_err e)
    exact castAll_err_ne allow t _ _ _ hf
  | .obj tfs, v, p, es, e => by
    cases v <;> simp only [castAll, incompatible] at e <;> try (cases e; simp)
    split at e
    · cases e
    · cases e; simp
    · rename_i h1 h2
      cases e
      intro h
      cases hm : (castFields allow tfs _ p).missing with
      | none => exact h1 h hm
      | some k => exact h2 k h hm

/-- Invariant of the walk over the declared fields. -/
def FieldsGood (tfs : TyFields) (r : FieldsRes) : Prop :=
  r.errs = [] → r.missing = .none → conformsFields tfs r.out = true ∧ r.out.keys = tfs.keys

mutual
theorem castAll_sound (allow : Bool) : ∀ (T : Ty), T.wf = true → ∀ (v : Val) (p : Path) (v' : Val),
    castAll allow T v p = .ok v' → conforms T v' = true
  | .any, _, v, p, v', e => by simp [conforms]
  | .opt t, hw, v, p, v', e => by
    simp only [Ty.wf] at hw
    cases v <;> simp only [castAll] at e <;>
      first
      | (cases e; simp [conforms])
      | (obtain ⟨a, ha, rfl⟩ := except_map_ok e
         simp only [conforms]; exact castAll_sound allow t hw _ _ _ ha)
  | .null, _, v, p, v', e => by
    cases v <;> simp [castAll, incompatible] at e <;> subst e <;> simp [conforms]
  | .str, _, v, p, v', e => by
    cases v <;> simp [castAll, incompatible] at e <;> subst e <;> simp [conforms]
  | .range, _, v, p, v', e => by
    cases v <;> simp [castAll, incompatible] at e <;> subst e <;> simp [conforms]
  | .fn, _, v, p, v', e => by simp [castAll, incompatible] at e
  | .bool, _, v, p, v', e => by
    cases v <;> cases allow <;> simp [castAll, incompatible] at e <;> subst e <;> simp [conforms]
  | .int, _, v, p, v', e => by
    cases v <;> cases allow <;> simp [castAll, incompatible] at e <;> subst e <;> simp [conforms]
  | .float, _, v, p, v', e => by
    cases v <;> cases allow <;> simp [castAll, incompatible] at e <;> subst e <;> simp [conforms]
  | .anyobj, _, v, p, v', e => by
    cases v <;> simp [castAll, incompatible] at e <;> subst e <;> simp [conforms]
  | .list t, hw, v, p, v', e => by
    simp only [Ty.wf] at hw
    cases v <;> simp only [castAll, incompatible] at e <;> try cases e
    obtain ⟨a, ha, rfl⟩ := except_map_ok e
    simp only [conforms]
    exact castVals_ok_all (fun i x x' h => castAll_sound allow t hw x _ x' h) _ _ _ ha
  | .obj tfs, hw, v, p, v', e => by
    simp only [Ty.wf, Bool.and_eq_true] at hw
    cases v <;> simp only [castAll, incompatible] at e <;> try cases e
    rename_i fs
    have hg := castFields_good allow tfs hw.2 hw.1 fs p
    split at e
    · rename_i h1 h2
      cases e
      simp only [List.append_eq_nil_iff] at h1
      obtain ⟨hc, hk⟩ := hg h1.1 h2
      simp only [conforms, hc, Bool.true_and, hk]
      simp [TyFields.hasKey]
    · cases e
    · cases e
theorem castFields_good (allow : Bool) : ∀ (tfs : TyFields), TyFields.wf tfs = true → nodupKeys tfs.keys = true →
    ∀ (fs : Fields) (p : Path), FieldsGood tfs (castFields allow tfs fs p)
  | .nil, _, _, fs, p => by
    intro _ _; simp [castFields, conformsFields, Fields.keys, TyFields.keys]
  | .cons k t rest, hw, hn, fs, p => by
    simp only [TyFields.wf, Bool.and_eq_true] at hw
    simp only [TyFields.keys, nodupKeys, Bool.and_eq_true, Bool.not_eq_true'] at hn
    have ih := castFields_good allow rest hw.2 hn.2 fs p
    cases hl : fs.lookup k with
    | none =>
      rw [castFields_cons_none hl]
      intro _ hm; simp at hm
    | some x =>
      cases hc : castAll allow t x (p ++ [.field k]) with
      | error es =>
        rw [castFields_cons_err hl hc]
        intro he _
        simp only [List.append_eq_nil_iff] at he
        exact absurd he.1 (castAll_err_ne allow t _ _ _ hc)
      | ok x' =>
        rw [castFields_cons_ok hl hc]
        intro he hm
        obtain ⟨hcf, hk⟩ := ih he hm
        have := castAll_sound allow t hw.1 x _ x' hc
        simp [conformsFields, Fields.lookup, this, Fields.keys, TyFields.keys, hk,
          conformsFields_cons_skip k x' _ rest hn.1, hcf]
end

end HmsProofs.Lemmas.ValCast
