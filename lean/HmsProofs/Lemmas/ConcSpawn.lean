import Hms.Conc.Spawn
import HmsProofs.Lemmas.ConcProtocol
import HmsProofs.Lemmas.ConcInvoke
/-! # Lemmas about spawned cores (`Hms/Conc/Spawn.lean`) -/
namespace Hms.Conc

theorem callPush_eq {V : Type} (st args : List V) : callPush st args = args ++ st := by
  have h : ∀ (ys acc : List V), ys.foldl push acc = ys.reverse ++ acc := by
    intro ys
    induction ys with
    | nil => intro acc; rfl
    | cons y ys ih => intro acc; simp [List.foldl, ih, push]
  simp [callPush, h]

theorem spawnPop_append {V : Type} (args st acc : List V) :
    spawnPop args.length (args ++ st) acc = (args.reverse ++ acc, st) := by
  induction args generalizing acc with
  | nil => rfl
  | cons a as ih => simp [spawnPop, ih]

/-- The spawned core's callee binds parameter `i` to argument `i`, and the spawning core's stack
is what it was before the arguments were pushed. -/
theorem spawn_binds_args {V : Type} (st args : List V) :
    let popped := spawnPop args.length (callPush st args) []
    popN args.length (prePush popped.1) = (args, []) ∧ popped.2 = st := by
  simp only [callPush_eq, spawnPop_append, List.append_nil]
  refine ⟨?_, trivial⟩
  have := popN_append args ([] : List V)
  simpa [prePush_eq_reverse] using this

theorem coreStep_reach {s s' : Sys} {c : Nat} (hr : Reach Cfg.fixed s.proto)
    (h : coreStep Cfg.fixed s c = some s') : Reach Cfg.fixed s'.proto := by
  have hi := reach_inv hr
  unfold coreStep at h
  split at h
  · rename_i hc
    split at h
    · rename_i hcan
      cases h
      exact .step _ _ hr (Step.coreFinish s.proto c (some .terminate) hc (fun _ => hcan))
    · split at h
      · cases h
        exact .step _ _ hr (Step.coreFinish s.proto c none hc (by simp))
      · cases h; exact hr
      · split at h
        · rename_i hf
          cases h
          exact .step _ _ hr (Step.coreSpawn s.proto c hc hf)
        · cases h
      · split at h
        · rename_i hg
          cases h
          simp only [Bool.and_eq_true, Option.isNone_iff_eq_none, List.all_eq_true, List.mem_range,
            Bool.not_eq_eq_eq_not, Bool.not_true] at hg
          refine .step _ _ hr (Step.gLock s.proto c hc hg.1 ?_)
          intro d
          by_cases hd : d < s.proto.n
          · exact hg.2 d hd
          · cases hgr : s.proto.gReader d with
            | false => rfl
            | true =>
              have h1 := (hi.rd_iff d).mpr hgr
              have h2 := hi.absent_ge d (by omega)
              rw [h2] at h1; cases h1
        · cases h
      · split at h
        · rename_i hg
          cases h
          exact .step _ _ hr (Step.gRLock s.proto c hc (by simpa using hg))
        · cases h
      · cases h
        exact .step _ _ hr (Step.coreFinish s.proto c (some .fatal) hc (by simp))
      · cases h; exact hr
  · rename_i hc
    split at h
    · cases h
      exact .step _ _ hr (Step.gWrite s.proto c hc)
    · cases h
      exact .step _ _ hr (Step.gUnlock s.proto c hc)
  · rename_i hc
    cases h
    exact .step _ _ hr (Step.gRUnlock s.proto c hc)
  · cases h

theorem sysStep_reach {s s' : Sys} {k : Nat} (hr : Reach Cfg.fixed s.proto)
    (h : sysStep Cfg.fixed s k = some s') : Reach Cfg.fixed s'.proto := by
  unfold sysStep at h
  simp only at h
  split at h
  · cases h
  · split at h
    · cases hw : waitStep Cfg.fixed s.proto with
      | none => simp [hw] at h
      | some p =>
        simp only [hw, Option.map_some, Option.some.injEq] at h
        subst h
        exact .step _ _ hr (.wait _ _ hw)
    · exact coreStep_reach hr h

theorem start_reach (progs : List (List Act)) : Reach Cfg.fixed (Sys.start progs).proto := by
  have r0 : Reach Cfg.fixed PState.init.spawn := .step _ _ .init (.hostSpawn _ (by decide))
  exact .step _ _ r0 (Step.waitStart _ (by simp [PState.spawn, PState.init, WaitPc.active]))

theorem runSys_reach (ks : List Nat) : ∀ (s : Sys), Reach Cfg.fixed s.proto →
    Reach Cfg.fixed (runSys Cfg.fixed ks s).proto := by
  induction ks with
  | nil => intro s h; exact h
  | cons k ks ih =>
    intro s h
    unfold runSys
    split
    · exact h
    · split
      · rename_i s' hs
        exact ih s' (sysStep_reach h hs)
      · exact h

end Hms.Conc
