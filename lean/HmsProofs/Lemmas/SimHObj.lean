import HmsProofs.Lemmas.SimHList
import HmsProofs.Lemmas.SimHExec
/-!
# Object literals `new { k: e, … }`: the template cell, the field initializers

The VM allocates the object first — `Cloning_Push` of a template whose fields are `null` — and then
assigns every field through its member (`Dup; Member k; code(e); Assign`); the specification
evaluates the initializers and allocates afterwards. With pure initializers (atoms) and distinct field
names both end with the same cell at the same address.
-/
namespace HmsProofs.Sim
open Hms.Core Hms.Core.Comp Hms.Core.VM

theorem evalFields_nil (cfg fuel st) : evalFields cfg (fuel + 1) [] st = (.ok [], st) := by
  rw [evalFields]; rfl

theorem evalFields_cons (cfg fuel k e es st) :
    evalFields cfg (fuel + 1) ((k, e) :: es) st =
      match evalExpr cfg fuel e st with
      | (.ok v, st1) =>
        (match evalFields cfg fuel es st1 with
         | (.ok vs, st2) => (.ok ((k, v) :: vs), st2)
         | (.error c, st2) => (.error c, st2))
      | (.error c, st1) => (.error c, st1) := by
  rw [evalFields, M_bind]
  rcases evalExpr cfg fuel e st with ⟨r1, st1⟩
  cases r1 with
  | error c => rfl
  | ok v =>
    simp only []
    rw [M_bind]
    rcases evalFields cfg fuel es st1 with ⟨r2, st2⟩
    cases r2 <;> rfl

theorem evalExpr_obj (cfg fuel sp ty fs st) :
    evalExpr cfg (fuel + 1) (.obj sp ty fs) st =
      match evalFields cfg fuel fs st with
      | (.ok vs, st1) => (.ok (.ref st1.heap.size), { st1 with heap := st1.heap.push (.obj vs) })
      | (.error c, st1) => (.error c, st1) := by
  rw [evalExpr, M_bind]
  rcases evalFields cfg fuel fs st with ⟨r, st1⟩
  cases r <;> rfl

theorem evalExpr_member (cfg fuel sp ty b name op st) :
    evalExpr cfg (fuel + 1) (.member sp ty b name op) st =
      match evalExpr cfg fuel b st with
      | (.ok bv, st1) => memberVal bv name op sp st1
      | (.error c, st1) => (.error c, st1) := by
  rw [evalExpr, M_bind]
  rcases evalExpr cfg fuel b st with ⟨r, st1⟩
  cases r <;> rfl

/-- The template of `n` null fields is allocated as it stands. -/
theorem pvalToVal_nulls (st : St) (ks : List String) :
    pvalToVal st (.obj (ks.map fun k => (k, PVal.null))) =
      (.ref st.heap.size, { st with heap := st.heap.push (.obj (ks.map fun k => (k, Val.null))) }) := by
  have key : ∀ (ks : List String) (acc : List (String × Val)),
      (ks.map fun k => (k, PVal.null)).foldl (fun (acc : List (String × Val) × St) (kp : String × PVal) =>
        ((acc.1 ++ [(kp.1, (pvalToVal.pvalToValFlat acc.2 kp.2).1)], (pvalToVal.pvalToValFlat acc.2 kp.2).2)))
        (acc, st) = (acc ++ ks.map fun k => (k, Val.null), st) := by
    intro ks
    induction ks with
    | nil => intro acc; simp
    | cons k ks ih =>
      intro acc
      simp only [List.map_cons, List.foldl_cons]
      have : pvalToVal.pvalToValFlat st PVal.null = (Val.null, st) := rfl
      rw [this]
      simp only []
      rw [ih]
      simp
  unfold pvalToVal
  have := key ks []
  simp only [List.nil_append] at this
  simp only []
  rw [show (List.foldl (fun (acc : List (String × Val) × St) (x : String × PVal) =>
      match x with
      | (k, pv) =>
        match pvalToVal.pvalToValFlat acc.2 pv with
        | (v, st'') => (acc.1 ++ [(k, v)], st'')) ([], st) (ks.map fun k => (k, PVal.null))) =
      (ks.map fun k => (k, Val.null), st) from this]

/-- `Cloning_Push` of an object template with null fields: a new object cell. -/
theorem mkS_cloningPush_obj (code : Code) (lim : Limits) (s : VMState) (fn : String) (ip : Nat)
    (rest : List Frame) (mp : Int) (k : Nat) (stk : List SVal) (mem : List (Int × Val)) (out : World)
    (c : List (RInstr × Span)) (hf : findCode code fn = some c) (sp : Span) (ks : List String)
    (hx : c[ip]? = some (.cloningPush (.obj (ks.map fun k => (k, PVal.null))), sp)) :
    exec1 code lim (mkS s (⟨fn, ip⟩ :: rest) mp k stk mem out) =
      .next (mkS s (⟨fn, ip + 1⟩ :: rest) mp (k + 1) (⟨.ref out.heap.size, none⟩ :: stk) mem
        ⟨out.heap.push (.obj (ks.map fun k => (k, Val.null))), out.out⟩) := by
  have hfe := fetch_mkS code s fn ip rest mp k stk mem out c _ hf hx
  unfold exec1
  rw [hfe]
  simp only [step, mkS]
  rw [pvalToVal_nulls]
  simp only [advance, push1, Nat.add_assoc]

theorem lookup_append_not_mem {β} (pre : List (String × β)) (k : String) (x : β) (post : List (String × β))
    (h : k ∉ pre.map (·.1)) : (pre ++ (k, x) :: post).lookup k = some x := by
  induction pre with
  | nil => simp
  | cons p pre ih =>
    simp only [List.map_cons, List.mem_cons, not_or] at h
    obtain ⟨p1, p2⟩ := p
    have hne : (k == p1) = false := by simpa using h.1
    simp only [List.cons_append, List.lookup_cons, hne]
    exact ih h.2

theorem setField_append (pre : List (String × Val)) (k : String) (x v : Val) (post : List (String × Val))
    (h1 : k ∉ pre.map (·.1)) (h2 : k ∉ post.map (·.1)) :
    setField (pre ++ (k, x) :: post) k v = pre ++ (k, v) :: post := by
  have hno : ∀ (l : List (String × Val)), k ∉ l.map (·.1) → setField l k v = l := by
    intro l hl
    unfold setField
    conv => rhs; rw [← List.map_id l]
    apply List.map_congr_left
    intro kv hkv
    have : kv.1 ≠ k := fun e => hl (List.mem_map.mpr ⟨kv, hkv, e⟩)
    simp [this]
  have := hno pre h1
  have := hno post h2
  unfold setField at *
  simp_all

theorem memOrg_field (heap : Array Cell) (a : Nat) (fs : List (String × Val)) (k : String) (v : Val)
    (h : heap[a]? = some (.obj fs)) (hl : fs.lookup k = some v) : memOrg heap (.ref a) k = some (.field a k) := by
  simp only [memOrg, h, hl, Option.isSome_some, if_true]

/-- **The fields of an object literal** (atoms, distinct names): the specification yields their values
without touching the state; the VM assigns them, one by one, to the template cell. -/
theorem objFields_run (G : GCtx) (A : Act) (hA : A.OK G) (st : St) (mem : Mem) (scopes : CScopes)
    (vm : List (String × Nat)) (sp : Span)
    (hrel : StRel G.mod A.T A.N A.σ G.lim A.mp scopes vm st.scopes mem) :
    ∀ (fs : List (String × Expr)) (ip : Nat) (stk : List SVal) (lm : LM),
      fs.all (fun f => Frag.atomE f.2) = true → Frag.resolved scopes (fs.flatMap fun f => Frag.varsE f.2) = true →
      (∀ x ∈ fs.flatMap (fun f => Frag.varsE f.2), x ∈ A.T) →
      Placed A.lab A.σ A.c ip (cgFields G.mod (ρS scopes) sp fs lm).1 →
      (cgFields G.mod (ρS scopes) sp fs lm).2 = lm ∧
      ∃ vals : List (String × Val), vals.map (·.1) = fs.map (·.1) ∧
        (∀ st2 : St, st2.scopes = st.scopes → ∀ fuel,
          evalFields G.cfg fuel fs st2 = (.error .timeout, st2) ∨ evalFields G.cfg fuel fs st2 = (.ok vals, st2)) ∧
        ∀ (h0 : Array Cell) (outs : String) (pre : List (String × Val)),
          (fs.map (·.1)).Nodup → (∀ k ∈ fs.map (·.1), k ∉ pre.map (·.1)) →
          Runs G.fr G.code G.lim G.s A.fn A.rest A.mp ip (⟨.ref h0.size, none⟩ :: stk) mem
            ⟨h0.push (.obj (pre ++ fs.map fun f => (f.1, Val.null))), outs⟩
            (ip + nI (cgFields G.mod (ρS scopes) sp fs lm).1) (⟨.ref h0.size, none⟩ :: stk) mem
            ⟨h0.push (.obj (pre ++ vals)), outs⟩ := by
  intro fs
  induction fs with
  | nil =>
    intro ip stk lm _ _ _ _
    refine ⟨rfl, [], rfl, ?_, fun h0 outs pre _ _ => ?_⟩
    · intro st2 _ fuel
      cases fuel with
      | zero => left; rw [evalFields]; rfl
      | succ f => right; rw [evalFields_nil]
    · exact (Runs.refl ip _ mem _).cast (by simp [cgFields])
  | cons f fs ih =>
    obtain ⟨k, x⟩ := f
    intro ip stk lm hat hres hT hpl
    simp only [List.all_cons, Bool.and_eq_true] at hat
    obtain ⟨ha, has⟩ := hat
    simp only [List.flatMap_cons] at hres hT
    have hres1 : Frag.resolved scopes (Frag.varsE x) = true := by
      simp only [Frag.resolved, List.all_append, Bool.and_eq_true] at hres; exact hres.1
    have hres2 : Frag.resolved scopes (fs.flatMap fun f => Frag.varsE f.2) = true := by
      simp only [Frag.resolved, List.all_append, Bool.and_eq_true] at hres; exact hres.2
    have hlmx : (cpE G.mod (ρS scopes) x lm).2 = lm := cpE_atom_lm _ _ _ x lm (Nat.le_refl _) ha
    simp only [cgFields, hlmx] at hpl ⊢
    obtain ⟨h123, hpl4⟩ := hpl.append
    obtain ⟨h12, hpl3⟩ := h123.append
    obtain ⟨hpl1, hpl2⟩ := h12.append
    obtain ⟨idup, hP1⟩ := hpl1.instr (i := .dup) rfl
    obtain ⟨imem, _⟩ := hP1.instr (i := .member k) rfl
    obtain ⟨iasg, _⟩ := hpl3.instr (i := .assign) rfl
    have hn2 : nI [((Instr.dup : SInstr), sp), (.member k, sp)] = 2 := rfl
    have hn1 : nI [((Instr.assign : SInstr), sp)] = 1 := rfl
    simp only [nI_append, hn2, hn1] at hpl2 hpl4 iasg ⊢
    simp only [← Nat.add_assoc] at hpl2 hpl4 iasg
    obtain ⟨hlm, vs, hkeys, hvs1, hvs2⟩ := ih (ip + 2 + nI (cpE G.mod (ρS scopes) x lm).1 + 1) stk lm has hres2
      (fun y hy => hT y (List.mem_append.mpr (Or.inr hy))) hpl4
    obtain ⟨v, hv, hrun⟩ := atom_runs G A hA x st (ip + 2) (⟨.null, some (.field 0 k)⟩ :: ⟨.ref 0, none⟩ :: stk) mem lm scopes vm
      ha hres1 (fun y hy => hT y (List.mem_append.mpr (Or.inl hy))) hpl2 hrel
    refine ⟨hlm, (k, v) :: vs, by simp [hkeys], ?_, fun h0 outs pre hnd hpre => ?_⟩
    · intro st2 hsc fuel
      cases fuel with
      | zero => left; rw [evalFields]; rfl
      | succ f =>
        rw [evalFields_cons]
        have hb2 := bound_of_resolved hrel.scopes (Frag.varsE x)
          (fun y hy => hT y (List.mem_append.mpr (Or.inl hy))) hres1
        obtain ⟨v', hv', h1, _⟩ := atom_eval G.cfg _ x st2 (Nat.le_refl _) ha (by rw [hsc]; exact hb2)
        rw [hsc, hv] at hv'
        cases hv'
        rcases h1 f with h | h
        · left; rw [h]
        · rw [h]
          simp only []
          rcases hvs1 st2 hsc f with h' | h'
          · left; rw [h']
          · right; rw [h']
    · simp only [List.map_cons, List.nodup_cons] at hnd
      obtain ⟨hkfs, hnd'⟩ := hnd
      have hkpre : k ∉ pre.map (·.1) := hpre k (by simp)
      have hkpost : k ∉ (fs.map fun f => (f.1, Val.null)).map (·.1) := by
        simpa [List.map_map, Function.comp_def] using hkfs
      obtain ⟨v2, hv2, hrun2⟩ := atom_runs G A hA x st (ip + 2)
        (⟨.null, some (.field h0.size k)⟩ :: ⟨.ref h0.size, none⟩ :: stk) mem lm scopes vm
        ha hres1 (fun y hy => hT y (List.mem_append.mpr (Or.inl hy))) hpl2 hrel
      rw [hv] at hv2; cases hv2
      simp only [List.map_cons]
      have hcell : (h0.push (.obj (pre ++ (k, Val.null) :: fs.map fun f => (f.1, Val.null))))[h0.size]? =
          some (.obj (pre ++ (k, Val.null) :: fs.map fun f => (f.1, Val.null))) := push_get_last h0 _
      have hlk := lookup_append_not_mem pre k Val.null (fs.map fun f => (f.1, Val.null)) hkpre
      have hdup := Runs.of_exec1 (fr := G.fr) (mem := mem) (fun it_ kk =>
        mkS_dup G.code G.lim (withIt G.s it_) A.fn ip A.rest A.mp kk stk mem.cells
          ⟨h0.push (.obj (pre ++ (k, Val.null) :: fs.map fun f => (f.1, Val.null))), outs⟩ A.c hA.code sp
          ⟨.ref h0.size, none⟩ idup)
      have hmem : Runs G.fr G.code G.lim G.s A.fn A.rest A.mp (ip + 1)
          (⟨.ref h0.size, none⟩ :: ⟨.ref h0.size, none⟩ :: stk) mem
          ⟨h0.push (.obj (pre ++ (k, Val.null) :: fs.map fun f => (f.1, Val.null))), outs⟩ (ip + 1 + 1)
          (⟨.null, some (.field h0.size k)⟩ :: ⟨.ref h0.size, none⟩ :: stk) mem
          ⟨h0.push (.obj (pre ++ (k, Val.null) :: fs.map fun f => (f.1, Val.null))), outs⟩ := by
        refine Runs.of_exec1 (fr := G.fr) (mem := mem) (fun it_ kk => ?_)
        rw [mkS_member G.code G.lim (withIt G.s it_) A.fn (ip + 1) A.rest A.mp kk (⟨.ref h0.size, none⟩ :: stk) mem.cells
          ⟨h0.push (.obj (pre ++ (k, Val.null) :: fs.map fun f => (f.1, Val.null))), outs⟩ A.c hA.code sp k (.ref h0.size) none
          imem, memberVal_dot]
        simp only [hcell, hlk, memOrg_field _ _ _ _ _ hcell hlk]
      have hah : assignHeap (h0.push (.obj (pre ++ (k, Val.null) :: fs.map fun f => (f.1, Val.null)))) (.field h0.size k) v =
          some ((h0.push (.obj (pre ++ (k, Val.null) :: fs.map fun f => (f.1, Val.null)))).setIfInBounds h0.size
            (.obj (setField (pre ++ (k, Val.null) :: fs.map fun f => (f.1, Val.null)) k v))) := by
        simp only [assignHeap, hcell]
      have hasg := Runs.of_exec1W (fr := G.fr) (mem := mem) (fun it_ kk =>
        mkS_assign_org G.code G.lim (withIt G.s it_) A.fn (ip + 2 + nI (cpE G.mod (ρS scopes) x lm).1) A.rest A.mp kk
          (⟨.ref h0.size, none⟩ :: stk) mem.cells
          ⟨h0.push (.obj (pre ++ (k, Val.null) :: fs.map fun f => (f.1, Val.null))), outs⟩ A.c hA.code sp
          (.field h0.size k) _ .null v none iasg hah) (fun hi => HeapInv.assign hah hi)
      rw [setField_append pre k .null v _ hkpre hkpost, push_set_last] at hasg
      have hrest := hvs2 h0 outs (pre ++ [(k, v)]) hnd' (by
        intro k' hk' hmem'
        simp only [List.map_append, List.map_cons, List.map_nil, List.mem_append, List.mem_singleton] at hmem'
        rcases hmem' with h | h
        · exact hpre k' (by simp [hk']) h
        · subst h; exact hkfs hk')
      rw [List.append_assoc, List.singleton_append, List.append_assoc, List.singleton_append] at hrest
      exact (((((hdup.trans hmem).cast (by omega : ip + 1 + 1 = ip + 2)).trans (hrun2 _)).trans hasg).trans hrest).cast (by omega)

/-! ## Assignment to a field: `o.f = e` -/

/-- The field slot named by a base value and a field name (the body of `evalPlace` on `b.f`). -/
def placeOfM (b : Val) (name : String) : M Place := do
  match b with
  | .ref a => do
    match ← readCell a with
    | .obj fs =>
      if (fs.lookup name).isSome then pure { addr := a, field := some name }
      else throwCtl (.unsupported "member assignment to a missing field")
    | _ => throwCtl (.unsupported "member assignment target")
  | _ => throwCtl (.unsupported "member assignment target")

theorem evalPlace_member (cfg fuel sp ty b name st) :
    evalPlace cfg (fuel + 1) (.member sp ty b name .dot) st =
      match evalExpr cfg fuel b st with
      | (.ok bv, st1) => placeOfM bv name st1
      | (.error c, st1) => (.error c, st1) := by
  rw [evalPlace, M_bind]
  rcases evalExpr cfg fuel b st with ⟨r1, st1⟩
  cases r1 with
  | error c => rfl
  | ok bv => cases bv <;> rfl

/-- `evalPlace` on `b.f` against `Member`: same value as `memberVal`, the origin names the slot. -/
theorem placeOfM_shape (b : Val) (name : String) (sp : Span) (st : St) :
    match placeOfM b name st with
    | (.ok pl, st') => st' = st ∧ pl.var = none ∧ memOrg st.heap b name = some (orgOf pl) ∧
        ∃ v, memberVal b name .dot sp st = (.ok v, st) ∧ readPlace pl st = (.ok v, st)
    | (.error (.unsupported _), _) => True
    | _ => False := by
  unfold placeOfM
  cases b <;> try trivial
  case ref a =>
    simp only [M_bind, readCell_run]
    cases hc : st.heap[a]? with
    | none => trivial
    | some c =>
      cases c <;> try trivial
      rename_i fs
      simp only []
      cases hl : fs.lookup name with
      | none => simp only [Option.isSome_none, Bool.false_eq_true, if_false]; trivial
      | some v =>
        simp only [Option.isSome_some, if_true]
        refine ⟨rfl, rfl, memOrg_field _ _ _ _ _ hc hl, v, ?_, ?_⟩
        · rw [memberVal_dot]
          simp only [hc, hl]
        · unfold readPlace
          simp only [M_bind, readCell_run, hc, hl]
          rfl

theorem lookup_nulls (fs : List (String × Expr)) (k : String) (hk : ∀ f ∈ fs, f.1 ≠ k) :
    (fs.map fun f => (f.1, Val.null)).lookup k = none := by
  induction fs with
  | nil => rfl
  | cons f fs ih =>
    have hne : (k == f.1) = false := by simpa using (hk f (by simp)).symm
    simp only [List.map_cons, List.lookup_cons, hne]
    exact ih (fun f' hf' => hk f' (by simp [hf']))

end HmsProofs.Sim
