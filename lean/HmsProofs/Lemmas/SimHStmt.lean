import HmsProofs.Lemmas.SimHIdx
import HmsProofs.Lemmas.SimHStatic
/-!
# Statements of the general fragment: the induction steps
-/
namespace HmsProofs.Sim
open Hms.Core Hms.Core.Comp Hms.Core.VM

/-! ## The invariant `GRel` -/

theorem ScopesRel.drop {T σ lim mp mem} : ∀ (d : Nat) {cs : CScopes} {ss : SScopes},
    ScopesRel T σ lim mp mem cs ss → ScopesRel T σ lim mp mem (cs.drop d) (ss.drop d) := by
  intro d
  induction d with
  | zero => intro cs ss h; simpa using h
  | succ d ih =>
    intro cs ss h
    have := (ih h).tail T σ lim mp
    simpa [List.tail_drop] using this

theorem ρS_freshVar_ne (mod : String) (env : CEnv) (x key : String) (h : key ≠ x) :
    ρS (freshVar mod env x).2.scopes key = ρS env.scopes key := by
  unfold freshVar
  have hb : (key == x) = false := by simpa using h
  cases hsc : env.scopes with
  | nil => simp [ρS, List.lookup_cons, hb]
  | cons c rest =>
    simp only [ρS, List.findSome?_cons, List.lookup_cons, hb, lookup_filter_ne _ _ _ h]

theorem GhostOK.memLe {A : Act} {mem mem' : Mem} (h : GhostOK A mem) (hm : CellsLe A.mp mem.cells mem'.cells) :
    GhostOK A mem' :=
  fun p hp => by rw [hm _ (by omega)]; exact h p hp

/-- Writing the cell of a tracked variable leaves the ghost cells alone. -/
theorem GhostOK.set {G : GCtx} {A : Act} (hA : A.OK G) {mem} (h : GhostOK A mem) (m : String) (hNm : A.N m)
    (x : String) (c : Nat) (hm : m = mangleName G.mod x c) (hx : x ∈ A.T) (v : Val) :
    GhostOK A (mem.set (A.mp - (A.σ m : Int)) v) := by
  intro p hp
  obtain ⟨hNp, y, c', hpe, hy⟩ := hA.ghostN p hp
  have hne : p.1 ≠ m := by
    intro e
    rw [hpe, hm] at e
    have := (mangleName_inj G.mod _ _ _ _ e).1
    exact hy (this ▸ hx)
  have hσ : A.σ p.1 ≠ A.σ m := fun e => hne (hA.inj _ _ hNp hNm e)
  rw [Mem.set_cells, lookup_memSet, if_neg (by omega)]
  exact h p hp

theorem GRel.memLe {G A scopes vm ss mem mem'} (h : GRel G A scopes vm ss mem) (hm : MemLe G.fr A.mp mem mem') :
    GRel G A scopes vm ss mem' := ⟨h.rel.memLe hm.cells, h.key, h.ghost.memLe hm.cells, h.ghostC⟩

theorem GRel.push {G A scopes vm ss mem} (h : GRel G A scopes vm ss mem) :
    GRel G A ([] :: scopes) vm ([] :: ss) mem := ⟨h.rel.push, by rw [ρS_push]; exact h.key, h.ghost, h.ghostC⟩

theorem GRel.vm_mono {G A scopes vm vm' ss mem} (h : GRel G A scopes vm ss mem)
    (hm : ∀ k, cnt vm k ≤ cnt vm' k) : GRel G A scopes vm' ss mem :=
  ⟨h.rel.vm_mono hm, h.key, h.ghost, fun p hp => by
    obtain ⟨y, c, h1, h2⟩ := h.ghostC p hp
    exact ⟨y, c, h1, Nat.lt_of_lt_of_le h2 (hm _)⟩⟩

theorem GRel.declare {G : GCtx} {A : Act} (hA : A.OK G) {ss mem} {env : CEnv}
    (h : GRel G A env.scopes env.vm ss mem) (x : String) (hx : x ∈ A.T) (v : Val)
    (hN : A.N (freshVar G.mod env x).1) :
    GRel G A (freshVar G.mod env x).2.scopes (freshVar G.mod env x).2.vm (declScopes x v ss)
      (mem.set (A.mp - (A.σ (freshVar G.mod env x).1 : Int)) v) := by
  refine ⟨h.rel.declare hA.good x hx v hN, ?_, h.ghost.set hA _ hN x _ rfl hx v, fun p hp => ?_⟩
  · have hne : cleanupKey G.mod A.src ≠ x := fun e => hA.key (by rw [e]; exact hx)
    rw [ρS_freshVar_ne _ _ _ _ hne]
    exact h.key
  · obtain ⟨y, c, h1, h2⟩ := h.ghostC p hp
    refine ⟨y, c, h1, Nat.lt_of_lt_of_le h2 ?_⟩
    rw [cnt_freshVar]; split <;> (try subst_vars) <;> omega

/-! ## The statements proved by induction -/

def PGS (G : GCtx) (fuel : Nat) : Prop :=
  ∀ (A : Act), A.OK G → ∀ (loops : List (String × String)) (lscopes : CScopes) (d : Nat) (st : Stmt)
    (env : CEnv) (spec : St) (ip : Nat) (stk : List SVal) (mem : Mem),
    Frag.okFS G.fr (!loops.isEmpty) A.rt st = true → (∀ x ∈ Frag.identsGS st, x ∈ A.T) →
    Frag.wsGS G.mod A.src A.φ loops st env = true →
    (∀ m ∈ codeVars (cgS G.mod A.src A.φ loops st env).1, A.N m) →
    Placed A.lab A.σ A.c ip (cgS G.mod A.src A.φ loops st env).1 →
    1 ≤ d → lscopes = env.scopes.drop d →
    GRel G A env.scopes env.vm spec.scopes mem → SpecOK G A.mp spec →
    SimGS G A loops lscopes d ip (nI (cgS G.mod A.src A.φ loops st env).1) stk mem
      (GRel G A (cgS G.mod A.src A.φ loops st env).2.scopes (cgS G.mod A.src A.φ loops st env).2.vm) spec
      (evalStmt G.cfg fuel st spec)

def PGSs (G : GCtx) (fuel : Nat) : Prop :=
  ∀ (A : Act), A.OK G → ∀ (loops : List (String × String)) (lscopes : CScopes) (d : Nat) (ss : List Stmt)
    (env : CEnv) (spec : St) (ip : Nat) (stk : List SVal) (mem : Mem),
    Frag.okFSs G.fr (!loops.isEmpty) A.rt ss = true → (∀ x ∈ Frag.identsGSs ss, x ∈ A.T) →
    Frag.wsGSs G.mod A.src A.φ loops ss env = true →
    (∀ m ∈ codeVars (cgSs G.mod A.src A.φ loops ss env).1, A.N m) →
    Placed A.lab A.σ A.c ip (cgSs G.mod A.src A.φ loops ss env).1 →
    1 ≤ d → lscopes = env.scopes.drop d →
    GRel G A env.scopes env.vm spec.scopes mem → SpecOK G A.mp spec →
    SimGS G A loops lscopes d ip (nI (cgSs G.mod A.src A.φ loops ss env).1) stk mem
      (GRel G A (cgSs G.mod A.src A.φ loops ss env).2.scopes (cgSs G.mod A.src A.φ loops ss env).2.vm) spec
      (evalStmts G.cfg fuel ss spec)

def PGBS (G : GCtx) (fuel : Nat) : Prop :=
  ∀ (A : Act), A.OK G → ∀ (loops : List (String × String)) (lscopes : CScopes) (d : Nat) (b : Block)
    (env : CEnv) (spec : St) (ip : Nat) (stk : List SVal) (mem : Mem),
    Frag.okFBS G.fr (!loops.isEmpty) A.rt b = true → (∀ x ∈ Frag.identsGBS b, x ∈ A.T) →
    Frag.wsGBS G.mod A.src A.φ loops b env = true →
    (∀ m ∈ codeVars (cgBS G.mod A.src A.φ loops b env).1, A.N m) →
    Placed A.lab A.σ A.c ip (cgBS G.mod A.src A.φ loops b env).1 →
    lscopes = env.scopes.drop d →
    GRel G A env.scopes env.vm spec.scopes mem → SpecOK G A.mp spec →
    SimGS G A loops lscopes d ip (nI (cgBS G.mod A.src A.φ loops b env).1) stk mem
      (GRel G A (cgBS G.mod A.src A.φ loops b env).2.scopes (cgBS G.mod A.src A.φ loops b env).2.vm) spec
      (inScope (evalBlock G.cfg fuel b) spec)

/-- `while` / `loop` as a whole (`cnd = none`: `loop`). -/
def PGL (G : GCtx) (fuel : Nat) : Prop :=
  ∀ (A : Act), A.OK G → ∀ (loops : List (String × String)) (lscopes : CScopes) (d : Nat) (sp : Span)
    (cnd : Option Expr) (body : Block) (env : CEnv) (spec : St) (ip : Nat) (stk : List SVal)
    (mem : Mem),
    let stmt : Stmt := match cnd with | some c => .whileS sp c body | none => .loopS sp body
    Frag.okFS G.fr (!loops.isEmpty) A.rt stmt = true → (∀ x ∈ Frag.identsGS stmt, x ∈ A.T) →
    Frag.wsGS G.mod A.src A.φ loops stmt env = true →
    (∀ m ∈ codeVars (cgS G.mod A.src A.φ loops stmt env).1, A.N m) →
    Placed A.lab A.σ A.c ip (cgS G.mod A.src A.φ loops stmt env).1 →
    lscopes = env.scopes.drop d →
    GRel G A env.scopes env.vm spec.scopes mem → SpecOK G A.mp spec →
    SimGS G A loops lscopes d ip (nI (cgS G.mod A.src A.φ loops stmt env).1) stk mem
      (GRel G A env.scopes env.vm) spec (loopRun G.cfg fuel cnd body spec)

/-- `for x in a..b { … }` as a whole. -/
def PGF (G : GCtx) (fuel : Nat) : Prop :=
  ∀ (A : Act), A.OK G → ∀ (loops : List (String × String)) (lscopes : CScopes) (d : Nat) (sp : Span) (name : String)
    (vty : Ty) (rsp : Span) (a b : Expr) (incl : Bool) (bsp : Span) (bty : Ty) (stmts : List Stmt)
    (env : CEnv) (spec : St) (ip : Nat) (stk : List SVal) (mem : Mem),
    let stmt : Stmt := .forS sp name vty (.range rsp a b incl) (.mk bsp bty stmts none)
    Frag.okFS G.fr (!loops.isEmpty) A.rt stmt = true → (∀ x ∈ Frag.identsGS stmt, x ∈ A.T) →
    Frag.wsGS G.mod A.src A.φ loops stmt env = true →
    (∀ m ∈ codeVars (cgS G.mod A.src A.φ loops stmt env).1, A.N m) →
    Placed A.lab A.σ A.c ip (cgS G.mod A.src A.φ loops stmt env).1 →
    1 ≤ d → lscopes = env.scopes.drop d →
    GRel G A env.scopes env.vm spec.scopes mem → SpecOK G A.mp spec →
    SimGS G A loops lscopes d ip (nI (cgS G.mod A.src A.φ loops stmt env).1) stk mem
      (GRel G A (cgS G.mod A.src A.φ loops stmt env).2.scopes (cgS G.mod A.src A.φ loops stmt env).2.vm) spec
      (evalStmt G.cfg fuel stmt spec)

/-- An error outcome does not depend on the code length, the result type or the invariant. -/
theorem SimGS.error_cast {α β : Type} {G A loops lscopes d ip n stk mem Q Q'} {st : St} {c st1}
    (n' : Nat) (h : SimGS (α := α) G A loops lscopes d ip n stk mem Q st (.error c, st1)) :
    SimGS (α := β) G A loops lscopes d ip n' stk mem Q' st (.error c, st1) := by
  cases c <;> exact h

/-- An error outcome of a later part, after a first part that completed. -/
theorem SimGS.error_after {α β : Type} {G : GCtx} {A : Act} {loops lscopes d ip n stk mem Q Q'} {st st1 : St}
    {ip1 mem1 c st2} (n' : Nat)
    (hfr : st1 = { st with scopes := st1.scopes, out := st1.out, heap := st1.heap })
    (hrun : Runs G.fr G.code G.lim G.s A.fn A.rest A.mp ip stk mem st.world ip1 stk mem1 st1.world)
    (hml : MemLe G.fr (A.mp - (A.nv : Int)) mem mem1)
    (h : SimGS (α := α) G A loops lscopes d ip1 n stk mem1 Q st1 (.error c, st2)) :
    SimGS (α := β) G A loops lscopes d ip n' stk mem Q' st (.error c, st2) := by
  have hfr2 : ∀ {s2 : St}, s2 = { st1 with scopes := s2.scopes, out := s2.out, heap := s2.heap } →
      s2 = { st with scopes := s2.scopes, out := s2.out, heap := s2.heap } := by
    intro s2 e; rw [e, hfr]
  cases c
  case brk =>
    cases loops with
    | nil => exact h
    | cons bc rest =>
      obtain ⟨b, c⟩ := bc
      obtain ⟨h1, mem2, h2, h3, h4⟩ := h
      exact ⟨hfr2 h1, mem2, hrun.trans h2, hml.trans h3, h4⟩
  case cont =>
    cases loops with
    | nil => exact h
    | cons bc rest =>
      obtain ⟨b, c⟩ := bc
      obtain ⟨h1, mem2, h2, h3, h4⟩ := h
      exact ⟨hfr2 h1, mem2, hrun.trans h2, hml.trans h3, h4⟩
  case ret v =>
    obtain ⟨hrt, h1, mem2, o2, ho2, h2, h3⟩ := h
    exact ⟨hrt, hfr2 h1, mem2, o2, ho2, hrun.trans h2, hml.trans h3⟩
  case fatal kd m sp => exact fun hk => hrun.fatal (h hk)
  case unsupported => trivial
  case timeout => trivial
  case throw msg tsp =>
    obtain ⟨h1, mem2, h2, h3, h4⟩ := h
    exact ⟨hfr2 h1, mem2, Runs.throw [] hrun h2, hml.trans h3, h4⟩

/-- An error of an expression that a statement starts with (operand stack as at the statement's
start) is that error of the statement. -/
theorem SimGS.of_exprError {α : Type} {G : GCtx} {A : Act} {loops lscopes d ip n stk mem Q} {scopes : CScopes}
    {vm : List (String × Nat)} {spec st1 : St} {c : Ctl} (n' : Nat)
    (hrel : GRel G A scopes vm spec.scopes mem) (hls : lscopes = scopes.drop d)
    (h : SimGE G A ip n stk mem spec (.error c, st1)) :
    SimGS (α := α) G A loops lscopes d ip n' stk mem Q spec (.error c, st1) := by
  cases c <;> first | trivial | exact h.elim | exact h | skip
  obtain ⟨hfr, mem', hT, hml⟩ := h
  have hsc : st1.scopes = spec.scopes := by rw [hfr]
  refine ⟨by rw [hfr], mem', hT, hml.mono (by omega), ?_⟩
  rw [hls, hsc]
  exact ⟨(hrel.memLe hml).rel.scopes.drop d, (hrel.memLe hml).ghost⟩

theorem SimGS.of_argsError {α : Type} {G : GCtx} {A : Act} {loops lscopes d ip n stk mem Q} {scopes : CScopes}
    {vm : List (String × Nat)} {spec st1 : St} {c : Ctl} (n' : Nat)
    (hrel : GRel G A scopes vm spec.scopes mem) (hls : lscopes = scopes.drop d)
    (h : SimArgs G A ip n stk mem spec (.error c, st1)) :
    SimGS (α := α) G A loops lscopes d ip n' stk mem Q spec (.error c, st1) := by
  cases c <;> first | trivial | exact h.elim | exact h | skip
  obtain ⟨hfr, mem', hT, hml⟩ := h
  have hsc : st1.scopes = spec.scopes := by rw [hfr]
  refine ⟨by rw [hfr], mem', hT, hml.mono (by omega), ?_⟩
  rw [hls, hsc]
  exact ⟨(hrel.memLe hml).rel.scopes.drop d, (hrel.memLe hml).ghost⟩

theorem frame_pop (st st' : St) (h : st' = { st with scopes := st'.scopes, out := st'.out, heap := st'.heap }) :
    ({ st' with scopes := st'.scopes.tail } : St) =
      { st with scopes := ({ st' with scopes := st'.scopes.tail } : St).scopes,
                out := ({ st' with scopes := st'.scopes.tail } : St).out,
                heap := ({ st' with scopes := st'.scopes.tail } : St).heap } := by
  rw [h]

/-- Leaving a scope level: the outcome with the innermost specification scope removed. -/
theorem SimGS.popLevel {α : Type} {G : GCtx} {A : Act} {loops lscopes d ip n stk mem}
    {Q Q' : SScopes → Mem → Prop} {st : St} {r : Except Ctl α × St}
    (hQ : ∀ ss m, Q ss m → Q' ss.tail m)
    (h : SimGS G A loops lscopes (d + 1) ip n stk mem Q st r) :
    SimGS G A loops lscopes d ip n stk mem Q' st (r.1, { r.2 with scopes := r.2.scopes.tail }) := by
  obtain ⟨r1, st1⟩ := r
  cases r1 with
  | ok u =>
    obtain ⟨hfr, mem1, hrun1, hml1, hq⟩ := h
    exact ⟨frame_pop st st1 hfr, mem1, hrun1, hml1, hQ _ _ hq⟩
  | error ce' =>
    cases ce'
    case brk =>
      cases loops with
      | nil => exact h
      | cons bc rest =>
        obtain ⟨b, c⟩ := bc
        obtain ⟨hfr, mem1, hrun1, hml1, hsr⟩ := h
        exact ⟨frame_pop st st1 hfr, mem1, hrun1, hml1, by simpa [List.drop_tail] using hsr⟩
    case cont =>
      cases loops with
      | nil => exact h
      | cons bc rest =>
        obtain ⟨b, c⟩ := bc
        obtain ⟨hfr, mem1, hrun1, hml1, hsr⟩ := h
        exact ⟨frame_pop st st1 hfr, mem1, hrun1, hml1, by simpa [List.drop_tail] using hsr⟩
    case ret v =>
      obtain ⟨hrt, hfr, mem1, o1, ho1, hrun1, hml1⟩ := h
      exact ⟨hrt, frame_pop st st1 hfr, mem1, o1, ho1, hrun1, hml1⟩
    case fatal kd m sp => exact h
    case unsupported => trivial
    case timeout => trivial
    case throw msg tsp =>
      obtain ⟨hfr, mem1, hrun1, hml1, hsr⟩ := h
      exact ⟨frame_pop st st1 hfr, mem1, hrun1, hml1, by simpa [List.drop_tail] using hsr⟩

/-- The invariant after normal completion may be weakened. -/
theorem SimGS.monoQ {α : Type} {G : GCtx} {A : Act} {loops lscopes d ip n stk mem}
    {Q Q' : SScopes → Mem → Prop} {st : St} {r : Except Ctl α × St}
    (hQ : ∀ ss m, Q ss m → Q' ss m)
    (h : SimGS G A loops lscopes d ip n stk mem Q st r) :
    SimGS G A loops lscopes d ip n stk mem Q' st r := by
  obtain ⟨r1, st1⟩ := r
  cases r1 with
  | ok u =>
    obtain ⟨hfr, mem1, hrun1, hml1, hq⟩ := h
    exact ⟨hfr, mem1, hrun1, hml1, hQ _ _ hq⟩
  | error ce' => cases ce' <;> exact h

/-- `GRel` looks at the cells only. -/
theorem GRel.cells_congr {G A scopes vm ss} {m m' : Mem} (h : GRel G A scopes vm ss m) (e : m'.cells = m.cells) :
    GRel G A scopes vm ss m' :=
  ⟨by rw [e]; exact h.rel, h.key, fun p hp => by rw [e]; exact h.ghost p hp, h.ghostC⟩

theorem drop_of_tail_eq {α} {l l' : List α} (h : l'.tail = l.tail) (d : Nat) (hd : 1 ≤ d) :
    l'.drop d = l.drop d := by
  obtain ⟨e, rfl⟩ : ∃ e, d = e + 1 := ⟨d - 1, by omega⟩
  rw [← List.drop_tail, ← List.drop_tail, h]

/-- Statement sequences. -/
theorem pgss_step (G : GCtx) (n : Nat) (hPS : PGS G n) (hPSs : PGSs G n) : PGSs G (n + 1) := by
  intro A hA loops lscopes d ss env spec ip stk mem hs hT hws hN hpl hd hls hrel hsp
  cases ss with
  | nil =>
    rw [evalStmts_nil]
    exact ⟨rfl, mem, (Runs.refl ip stk mem spec.world).cast (by simp [cgSs]), MemLe.refl _ _ _, hrel⟩
  | cons st ss =>
    simp only [Frag.okFSs, Bool.and_eq_true] at hs
    simp only [Frag.wsGSs, Bool.and_eq_true] at hws
    simp only [Frag.identsGSs, List.mem_append] at hT
    simp only [cgSs, codeVars_append, List.mem_append] at hN hpl ⊢
    obtain ⟨hpl1, hpl2⟩ := hpl.append
    have h1 := hPS A hA loops lscopes d st env spec ip stk mem hs.1 (fun x hx => hT x (Or.inl hx)) hws.1
      (fun m hm => hN m (Or.inl hm)) hpl1 hd hls hrel hsp
    rw [evalStmts_cons]
    rcases hev : evalStmt G.cfg n st spec with ⟨r1, st1⟩
    rw [hev] at h1
    cases r1 with
    | error ce' => exact h1.error_cast _
    | ok u =>
      obtain ⟨hfr, mem1, hrun1, hml1, hrel1⟩ := h1
      simp only []
      have hsp1 := hsp.scopes_out st1 hfr hrun1.inv
      have hls1 : lscopes = (cgS G.mod A.src A.φ loops st env).2.scopes.drop d := by
        rw [hls, drop_of_tail_eq (cgS_tail G.mod A.src A.φ loops st env) d hd]
      have h2 := hPSs A hA loops lscopes d ss (cgS G.mod A.src A.φ loops st env).2 st1
        (ip + nI (cgS G.mod A.src A.φ loops st env).1) stk mem1 hs.2
        (fun x hx => hT x (Or.inr hx)) hws.2 (fun m hm => hN m (Or.inr hm)) hpl2 hd hls1 hrel1 hsp1
      rcases hev2 : evalStmts G.cfg n ss st1 with ⟨r2, st2⟩
      rw [hev2] at h2
      cases r2 with
      | error ce' => exact SimGS.error_after _ hfr hrun1 hml1 h2
      | ok u2 =>
        obtain ⟨hfr2, mem2, hrun2, hml2, hrel2⟩ := h2
        refine ⟨by rw [hfr2, hfr], mem2, (hrun1.trans hrun2).cast (by rw [nI_append]; omega), hml1.trans hml2, hrel2⟩

theorem inScope_frame2 (st st1 : St)
    (h : st1 = { ({ st with scopes := [] :: st.scopes } : St) with scopes := st1.scopes, out := st1.out, heap := st1.heap }) :
    ({ st1 with scopes := st1.scopes.tail } : St) =
      { st with scopes := ({ st1 with scopes := st1.scopes.tail } : St).scopes,
                out := ({ st1 with scopes := st1.scopes.tail } : St).out, heap := ({ st1 with scopes := st1.scopes.tail } : St).heap } := by
  obtain ⟨h1, g1, s1, c1, o1, t1, m1, d1⟩ := st1
  obtain ⟨h0, g0, s0, c0, o0, t0, m0, d0⟩ := st
  simp only [St.mk.injEq] at h ⊢
  obtain ⟨_, rfl, _, rfl, _, rfl, rfl, rfl⟩ := h
  simp

/-- Blocks of statements, in their own scope. -/
theorem pgbs_step (G : GCtx) (n : Nat) (hPSs : PGSs G n) : PGBS G (n + 1) := by
  intro A hA loops lscopes d b env spec ip stk mem hs hT hws hN hpl hls hrel hsp
  obtain ⟨bsp, bty, stmts, oe⟩ := b
  cases oe with
  | some _ => simp [Frag.okFBS] at hs
  | none =>
    simp only [Frag.okFBS] at hs
    simp only [Frag.wsGBS] at hws
    simp only [Frag.identsGBS] at hT
    simp only [cgBS] at hN hpl ⊢
    rw [inScope_run, evalBlock_stmts]
    have h1 := hPSs A hA loops lscopes (d + 1) stmts { env with scopes := [] :: env.scopes }
      { spec with scopes := [] :: spec.scopes } ip stk mem hs hT hws hN hpl (by omega) (by simpa using hls)
      hrel.push ⟨hsp.heap, hsp.module, hsp.globals, hsp.depth⟩
    rcases hev : evalStmts G.cfg n stmts { spec with scopes := [] :: spec.scopes } with ⟨r1, st1⟩
    rw [hev] at h1
    have hfrB : ∀ (e : st1 = { ({ spec with scopes := [] :: spec.scopes } : St) with
        scopes := st1.scopes, out := st1.out, heap := st1.heap }),
        ({ st1 with scopes := st1.scopes.tail } : St) =
          { spec with scopes := ({ st1 with scopes := st1.scopes.tail } : St).scopes,
                      out := ({ st1 with scopes := st1.scopes.tail } : St).out, heap := ({ st1 with scopes := st1.scopes.tail } : St).heap } :=
      fun e => inScope_frame2 spec st1 e
    cases r1 with
    | ok u =>
      obtain ⟨hfr, mem1, hrun1, hml1, hrel1⟩ := h1
      have htl := cgSs_tail G.mod A.src A.φ loops stmts { env with scopes := [] :: env.scopes }
      refine ⟨hfrB hfr, mem1, hrun1, hml1, ⟨?_, ?_, hrel1.ghost, hrel1.ghostC⟩⟩
      · exact hrel1.rel.tail
      · rw [htl]; exact hrel.key
    | error ce' =>
      cases ce'
      case brk =>
        cases loops with
        | nil => exact h1
        | cons bc rest =>
          obtain ⟨b, c⟩ := bc
          obtain ⟨hfr, mem1, hrun1, hml1, hsr⟩ := h1
          exact ⟨hfrB hfr, mem1, hrun1, hml1, by simpa [List.drop_tail] using hsr⟩
      case cont =>
        cases loops with
        | nil => exact h1
        | cons bc rest =>
          obtain ⟨b, c⟩ := bc
          obtain ⟨hfr, mem1, hrun1, hml1, hsr⟩ := h1
          exact ⟨hfrB hfr, mem1, hrun1, hml1, by simpa [List.drop_tail] using hsr⟩
      case ret v =>
        obtain ⟨hrt, hfr, mem1, o1, ho1, hrun1, hml1⟩ := h1
        exact ⟨hrt, hfrB hfr, mem1, o1, ho1, hrun1, hml1⟩
      case fatal kd m sp => exact h1
      case unsupported => trivial
      case timeout => trivial
      case throw msg tsp =>
        obtain ⟨hfr, mem1, hrun1, hml1, hsr⟩ := h1
        exact ⟨hfrB hfr, mem1, hrun1, hml1, by simpa [List.drop_tail] using hsr⟩

theorem pgbs_zero (G : GCtx) : PGBS G 0 := by
  intro A hA loops lscopes d b env spec ip stk mem _ _ _ _ _ _ _ _
  rw [inScope_run, evalBlock]; trivial

end HmsProofs.Sim
