import HmsProofs.Lemmas.SimHLoop
/-!
# `for x in a..b { … }`: the specification's rounds, the VM's iterator instructions
-/
namespace HmsProofs.Sim
open Hms.Core Hms.Core.Comp Hms.Core.VM

/-! ## The specification -/

theorem evalStmt_forS (cfg fuel sp name vty iter body st) :
    evalStmt cfg (fuel + 1) (.forS sp name vty iter body) st =
      match evalExpr cfg fuel iter st with
      | (.ok it, st1) =>
        (match iterElems it st1 with
          | (.ok elems, st2) => forRun cfg fuel name elems body st2
          | (.error c, st2) => (.error c, st2))
      | (.error c, st1) => (.error c, st1) := by
  rw [evalStmt, M_bind]
  rcases evalExpr cfg fuel iter st with ⟨r1, st1⟩
  cases r1 with
  | error c => rfl
  | ok it =>
    simp only []
    rw [M_bind]
    rcases iterElems it st1 with ⟨r2, st2⟩
    cases r2 <;> rfl

theorem evalExpr_range (cfg fuel sp a b incl st) :
    evalExpr cfg (fuel + 1) (.range sp a b incl) st =
      match evalExpr cfg fuel a st with
      | (.ok x, st1) =>
        (match evalExpr cfg fuel b st1 with
          | (.ok y, st2) =>
            (match x, y with
              | .int x, .int y => (.ok (.range x y incl), st2)
              | _, _ => (.error (.unsupported "range bounds"), st2))
          | (.error c, st2) => (.error c, st2))
      | (.error c, st1) => (.error c, st1) := by
  rw [evalExpr, M_bind]
  rcases evalExpr cfg fuel a st with ⟨r1, st1⟩
  cases r1 with
  | error c => rfl
  | ok x =>
    simp only []
    rw [M_bind]
    rcases evalExpr cfg fuel b st1 with ⟨r2, st2⟩
    cases r2 with
    | error c => rfl
    | ok y => cases x <;> cases y <;> rfl

theorem iterElems_range (a b : I64) (incl : Bool) (st : St) :
    iterElems (.range a b incl) st =
      if (a.toInt - b.toInt).natAbs > 100000 then (.error (.unsupported "huge range"), st)
      else (.ok ((rangeElems a b incl).map Val.int), st) := by
  show (if (a.toInt - b.toInt).natAbs > 100000 then (throwCtl (.unsupported "huge range") : M (List Val))
    else pure ((rangeElems a b incl).map Val.int)) st = _
  split <;> rfl

/-- The state in which a round of the loop starts: a fresh scope binding the loop variable. -/
def roundSt (name : String) (x : Val) (s : St) : St := declareSt name x { s with scopes := [] :: s.scopes }

theorem roundSt_frame (name : String) (x : Val) (s : St) :
    roundSt name x s = { s with scopes := declScopes name x ([] :: s.scopes) } := rfl

theorem forRun_nil (cfg fuel name body s) : forRun cfg (fuel + 1) name [] body s = (.ok (), s) := by
  rw [forRun]; rfl

theorem forRun_cons (cfg fuel name x xs body s) :
    forRun cfg (fuel + 1) name (x :: xs) body s =
      match ((evalBlock cfg fuel body (roundSt name x s)).1,
          { (evalBlock cfg fuel body (roundSt name x s)).2 with
            scopes := (evalBlock cfg fuel body (roundSt name x s)).2.scopes.tail }) with
      | (.error .brk, s') => (.ok (), s')
      | (.error .cont, s') => forRun cfg fuel name xs body s'
      | (.ok _, s') => forRun cfg fuel name xs body s'
      | (.error c, s') => (.error c, s') := by
  rw [forRun]
  rfl

/-- A round whose body is a block of statements. -/
theorem forRun_cons_stmts (cfg g name x xs bsp bty stmts s) :
    forRun cfg (g + 2) name (x :: xs) (.mk bsp bty stmts none) s =
      match evalStmts cfg g stmts (roundSt name x s) with
      | (.error .brk, s1) => (.ok (), { s1 with scopes := s1.scopes.tail })
      | (.error .cont, s1) => forRun cfg (g + 1) name xs (.mk bsp bty stmts none) { s1 with scopes := s1.scopes.tail }
      | (.ok _, s1) => forRun cfg (g + 1) name xs (.mk bsp bty stmts none) { s1 with scopes := s1.scopes.tail }
      | (.error c, s1) => (.error c, { s1 with scopes := s1.scopes.tail }) := by
  rw [forRun_cons, evalBlock_stmts]
  rcases evalStmts cfg g stmts (roundSt name x s) with ⟨r, s1⟩
  cases r with
  | ok u => rfl
  | error c => cases c <;> rfl

theorem forRun_cons_short (cfg name x xs bsp bty stmts s) :
    forRun cfg 1 name (x :: xs) (.mk bsp bty stmts none) s =
      (.error .timeout, { roundSt name x s with scopes := (roundSt name x s).scopes.tail }) := by
  rw [forRun_cons, evalBlock]
  rfl

/-! ## The VM's range and iterator instructions -/

theorem mkS_intoRange (code : Code) (lim : Limits) (s : VMState) (fn : String) (ip : Nat) (rest : List Frame)
    (mp : Int) (k : Nat) (stk : List SVal) (mem : List (Int × Val)) (out : World) (c : List (RInstr × Span))
    (hf : findCode code fn = some c) (sp : Span) (incl : Bool) (a b : I64) (o1 o2 : Option Org)
    (hx : c[ip]? = some (.intoRange incl, sp)) :
    exec1 code lim (mkS s (⟨fn, ip⟩ :: rest) mp k (⟨.int b, o1⟩ :: ⟨.int a, o2⟩ :: stk) mem out) =
      .next (mkS s (⟨fn, ip + 1⟩ :: rest) mp (k + 1) (⟨.range a b incl, none⟩ :: stk) mem out) := by
  have hfe := fetch_mkS code s fn ip rest mp k (⟨.int b, o1⟩ :: ⟨.int a, o2⟩ :: stk) mem out c _ hf hx
  unfold exec1
  rw [hfe]
  simp only [step, mkS, advance, push1, Nat.add_assoc]

theorem mkS_clone_range (code : Code) (lim : Limits) (s : VMState) (fn : String) (ip : Nat) (rest : List Frame)
    (mp : Int) (k : Nat) (stk : List SVal) (mem : List (Int × Val)) (out : World) (c : List (RInstr × Span))
    (hf : findCode code fn = some c) (sp : Span) (incl : Bool) (a b : I64) (o : Option Org)
    (hx : c[ip]? = some (.clone, sp)) :
    exec1 code lim (mkS s (⟨fn, ip⟩ :: rest) mp k (⟨.range a b incl, o⟩ :: stk) mem out) =
      .next (mkS s (⟨fn, ip + 1⟩ :: rest) mp (k + 1) (⟨.range a b incl, none⟩ :: stk) mem out) := by
  have hfe := fetch_mkS code s fn ip rest mp k (⟨.range a b incl, o⟩ :: stk) mem out c _ hf hx
  unfold exec1
  rw [hfe]
  simp only [step, mkS, pop1, snapshotVal, cloneVal, advance, push1, Nat.add_assoc]

/-- `Into_Iter` on a range: a new iterator over the snapshot of its elements. -/
theorem mkS_intoIter_range (code : Code) (lim : Limits) (s : VMState) (fn : String) (ip : Nat) (rest : List Frame)
    (mp : Int) (k : Nat) (stk : List SVal) (mem : List (Int × Val)) (out : World) (c : List (RInstr × Span))
    (hf : findCode code fn = some c) (sp : Span) (incl : Bool) (a b : I64) (o : Option Org) (it : ItSt)
    (hx : c[ip]? = some (.intoIter, sp)) (hsmall : ¬ (a.toInt - b.toInt).natAbs > 100000) :
    exec1 code lim (mkS (withIt s it) (⟨fn, ip⟩ :: rest) mp k (⟨.range a b incl, o⟩ :: stk) mem out) =
      .next (mkS (withIt s ⟨(it.next, (rangeElems a b incl).map Val.int) :: it.iters, it.next + 1⟩)
        (⟨fn, ip + 1⟩ :: rest) mp (k + 1) (⟨.closure (1000000 + it.next), none⟩ :: stk) mem out) := by
  have hfe := fetch_mkS code (withIt s it) fn ip rest mp k (⟨.range a b incl, o⟩ :: stk) mem out c _ hf hx
  unfold exec1
  rw [hfe]
  simp only [step, mkS, withIt, pop1, runM, iterElems_range, hsmall, if_false, advance, push1, Nat.add_assoc]

theorem lookup_filter_ne' {β} (l : List (Nat × β)) (i j : Nat) (h : j ≠ i) :
    (l.filter (·.1 != i)).lookup j = l.lookup j := by
  induction l with
  | nil => rfl
  | cons p l ih =>
    obtain ⟨a, b⟩ := p
    by_cases ha : a = i
    · subst ha
      have h1 : ((a, b).1 != a) = false := by simp
      have h2 : (j == a) = false := by simpa using h
      simp only [List.filter_cons, h1, List.lookup_cons, h2]
      exact ih
    · have h1 : ((a, b).1 != i) = true := by simpa using ha
      simp only [List.filter_cons, h1, if_true, List.lookup_cons, ih]

/-- `Iter_Advance` with an element left: the element above `true`. -/
theorem mkS_iterAdvance_cons (code : Code) (lim : Limits) (s : VMState) (fn : String) (ip : Nat) (rest : List Frame)
    (mp : Int) (k : Nat) (stk : List SVal) (mem : List (Int × Val)) (out : World) (c : List (RInstr × Span))
    (hf : findCode code fn = some c) (sp : Span) (o : Option Org) (it : ItSt) (id : Nat) (x : Val) (xs : List Val)
    (hx : c[ip]? = some (.iterAdvance, sp)) (hl : it.iters.lookup id = some (x :: xs)) :
    exec1 code lim (mkS (withIt s it) (⟨fn, ip⟩ :: rest) mp k (⟨.closure (1000000 + id), o⟩ :: stk) mem out) =
      .next (mkS (withIt s ⟨(id, xs) :: it.iters.filter (·.1 != id), it.next⟩)
        (⟨fn, ip + 1⟩ :: rest) mp (k + 1) (⟨x, none⟩ :: ⟨.bool true, none⟩ :: stk) mem out) := by
  have hfe := fetch_mkS code (withIt s it) fn ip rest mp k (⟨.closure (1000000 + id), o⟩ :: stk) mem out c _ hf hx
  unfold exec1
  rw [hfe]
  have hid : 1000000 + id - 1000000 = id := by omega
  simp only [step, mkS, withIt, pop1, hid, hl, advance, push1, Nat.add_assoc]

/-- `Iter_Advance` on an exhausted iterator: `null` above `false`. -/
theorem mkS_iterAdvance_nil (code : Code) (lim : Limits) (s : VMState) (fn : String) (ip : Nat) (rest : List Frame)
    (mp : Int) (k : Nat) (stk : List SVal) (mem : List (Int × Val)) (out : World) (c : List (RInstr × Span))
    (hf : findCode code fn = some c) (sp : Span) (o : Option Org) (it : ItSt) (id : Nat)
    (hx : c[ip]? = some (.iterAdvance, sp)) (hl : it.iters.lookup id = some []) :
    exec1 code lim (mkS (withIt s it) (⟨fn, ip⟩ :: rest) mp k (⟨.closure (1000000 + id), o⟩ :: stk) mem out) =
      .next (mkS (withIt s it) (⟨fn, ip + 1⟩ :: rest) mp (k + 1) (⟨.null, none⟩ :: ⟨.bool false, none⟩ :: stk) mem out) := by
  have hfe := fetch_mkS code (withIt s it) fn ip rest mp k (⟨.closure (1000000 + id), o⟩ :: stk) mem out c _ hf hx
  unfold exec1
  rw [hfe]
  have hid : 1000000 + id - 1000000 = id := by omega
  simp only [step, mkS, withIt, pop1, hid, hl, advance, push1, Nat.add_assoc]

/-! ## Declaring an untracked variable -/

/-- The compiler declares a variable the relation does not track (the iterator of a `for` loop):
nothing changes. -/
theorem StRel.ghostDecl {mod T N σ lim mp ss mem} {env : CEnv}
    (h : StRel mod T N σ lim mp env.scopes env.vm ss mem) (x : String) (hx : x ∉ T)
    (c : List (String × String)) (rest : CScopes) (hsc : env.scopes = c :: rest) :
    StRel mod T N σ lim mp (freshVar mod env x).2.scopes (freshVar mod env x).2.vm ss mem := by
  have hsc' : (freshVar mod env x).2.scopes =
      ((x, mangleName mod x ((env.vm.lookup x).getD 0)) :: c.filter (·.1 != x)) :: rest := by
    unfold freshVar; simp only [hsc]
  have hlook : ∀ y ∈ T, ((x, mangleName mod x ((env.vm.lookup x).getD 0)) :: c.filter (·.1 != x)).lookup y =
      c.lookup y := by
    intro y hy
    have hne : y ≠ x := fun e => hx (e ▸ hy)
    have : (y == x) = false := by simpa using hne
    simp only [List.lookup_cons, this]
    exact lookup_filter_ne c x y hne
  have hlive : liveNames T (freshVar mod env x).2.scopes = liveNames T env.scopes := by
    rw [hsc', hsc]
    simp only [liveNames, List.flatMap_cons, levelNames_ghost T c x _ hx]
  have hvm : ∀ k, cnt env.vm k ≤ cnt (freshVar mod env x).2.vm k := by
    intro k; rw [cnt_freshVar]; split <;> (try subst_vars) <;> omega
  refine ⟨?_, by rw [hlive]; exact h.nodup, by rw [hlive]; exact h.inN, ?_⟩
  · rw [hsc']
    have hs := h.scopes
    rw [hsc] at hs
    cases ss with
    | nil => exact ⟨fun y hy => by rw [hlook y hy]; exact hs.1 y hy, hs.2⟩
    | cons s srest =>
      refine ⟨fun y hy => ?_, hs.2⟩
      have := hs.1 y hy
      rw [hlook y hy]
      exact this
  · intro sc hscm p hp hpT
    rw [hsc'] at hscm
    simp only [List.mem_cons] at hscm
    rcases hscm with rfl | hscm
    · simp only [List.mem_cons] at hp
      rcases hp with rfl | hp
      · exact absurd hpT hx
      · have hp' : p ∈ c := (List.mem_filter.mp hp).1
        obtain ⟨k, hk1, hk2⟩ := h.named c (by rw [hsc]; simp) p hp' hpT
        exact ⟨k, hk1, Nat.lt_of_lt_of_le hk2 (hvm _)⟩
    · obtain ⟨k, hk1, hk2⟩ := h.named sc (by rw [hsc]; simp [hscm]) p hp hpT
      exact ⟨k, hk1, Nat.lt_of_lt_of_le hk2 (hvm _)⟩

theorem GRel.ghostDecl {G : GCtx} {A : Act} {ss mem} {env : CEnv}
    (h : GRel G A env.scopes env.vm ss mem) (x : String) (hx : x ∉ A.T)
    (c : List (String × String)) (rest : CScopes) (hsc : env.scopes = c :: rest)
    (hkey : cleanupKey G.mod A.src ≠ x) :
    GRel G A (freshVar G.mod env x).2.scopes (freshVar G.mod env x).2.vm ss mem := by
  refine ⟨h.rel.ghostDecl x hx c rest hsc, ?_, h.ghost, fun p hp => ?_⟩
  · rw [ρS_freshVar_ne _ _ _ _ hkey]
    exact h.key
  · obtain ⟨y, k, h1, h2⟩ := h.ghostC p hp
    refine ⟨y, k, h1, Nat.lt_of_lt_of_le h2 ?_⟩
    rw [cnt_freshVar]; split <;> (try subst_vars) <;> omega

/-! ## The `for` loop -/

theorem cleanupKey_ne_iter (mod fn name : String) : cleanupKey mod fn ≠ "$iter_" ++ name := by
  intro e
  have := congrArg String.toList e
  unfold cleanupKey at this
  simp [String.toList_append] at this
  have h : (toString "cleanup:").toList = 'c' :: "leanup:".toList := rfl
  rw [h] at this
  simp at this

theorem ghost_sublist {A : Act} {p : String × Val} {mem : Mem}
    (h : GhostOK { A with ghost := p :: A.ghost } mem) : GhostOK A mem :=
  fun q hq => h q (List.mem_cons_of_mem _ hq)

/-- **`for x in a..b { … }`**: the bounds, `Into_Range`/`Clone`/`Into_Iter` (a fresh iterator over
the snapshot of the elements), then round by round `Iter_Advance`, the loop variable, the body in
the round's scope — with the iterator's cell protected as a ghost cell of the activation —,
`break`/`continue`/`return`/exceptions as for `loop`. -/
theorem pgf_step (G : GCtx) (n : Nat) (hPE : ∀ m, m ≤ n → PE G m) (hPSs : ∀ m, m ≤ n → PGSs G m) : PGF G (n + 1) := by
  intro A hA loops lscopes d sp name vty rsp a b incl bsp bty stmts env spec ip stk mem stmt hs hT hws hN hpl hd hls hrel hsp
  simp only [stmt, Frag.okFS, Bool.and_eq_true] at hs
  obtain ⟨⟨⟨hfr, hoka⟩, hokb⟩, hoks⟩ := hs
  simp only [stmt, Frag.identsGS, List.mem_cons, List.mem_append] at hT
  have hnameT : name ∈ A.T := hT name (Or.inl rfl)
  have hitT : ("$iter_" ++ name) ∉ A.T := hA.ghostT hfr name hnameT
  simp only [stmt, Frag.wsGS, Bool.and_eq_true] at hws
  obtain ⟨⟨hwa, hwb⟩, hwS⟩ := hws
  simp only [stmt, cgS, codeVars_append, List.mem_append] at hN hpl ⊢
  generalize hHd : freshLabel G.mod env.lm "loop_head" = head at hN hpl hwS ⊢
  generalize hUp : freshLabel G.mod head.2 "loop_update" = upd at hN hpl hwS ⊢
  generalize hAf : freshLabel G.mod upd.2 "loop_end" = aft at hN hpl hwS ⊢
  generalize hCA : cgE G.mod (ρS env.scopes) A.φ a aft.2 = CA at hN hpl hwS ⊢
  generalize hCB : cgE G.mod (ρS env.scopes) A.φ b CA.2 = CB at hN hpl hwS ⊢
  obtain ⟨fit, hFit⟩ : ∃ fit, fit = freshVar G.mod { env with scopes := [] :: env.scopes, lm := CB.2 } ("$iter_" ++ name) :=
    ⟨_, rfl⟩
  rw [← hFit] at hN hpl hwS ⊢
  obtain ⟨fhv, hFhv⟩ : ∃ fhv, fhv = freshVar G.mod fit.2 name := ⟨_, rfl⟩
  rw [← hFhv] at hN hpl hwS ⊢
  generalize hCS : cgSs G.mod A.src A.φ ((aft.1, upd.1) :: loops) stmts fhv.2 = CS at hN hpl ⊢
  -- placement
  obtain ⟨h3, hplTail⟩ := hpl.append
  obtain ⟨h2, hplS⟩ := h3.append
  obtain ⟨h1, hplM⟩ := h2.append
  obtain ⟨hplA, hplB⟩ := h1.append
  obtain ⟨irange, hM1⟩ := hplM.instr (i := .intoRange incl) rfl
  obtain ⟨iclone, hM2⟩ := hM1.instr (i := .clone) rfl
  obtain ⟨iiter, hM3⟩ := hM2.instr (i := .intoIter) rfl
  obtain ⟨iset, hM4⟩ := hM3.instr (i := .setVar fit.1) rfl
  obtain ⟨ehead, hM5⟩ := hM4.label
  obtain ⟨iget, hM6⟩ := hM5.instr (i := .getVar fit.1) rfl
  obtain ⟨iadv, hM7⟩ := hM6.instr (i := .iterAdvance) rfl
  obtain ⟨isethv, hM8⟩ := hM7.instr (i := .setVar fhv.1) rfl
  obtain ⟨ijif, _⟩ := hM8.instr (i := .jumpIfFalse aft.1) rfl
  obtain ⟨eupd, hT1⟩ := hplTail.label
  obtain ⟨ijmp, hT2⟩ := hT1.instr (i := .jump head.1) rfl
  obtain ⟨eaft, _⟩ := hT2.label
  have hnM : nI [((Instr.intoRange incl : SInstr), rsp), (.clone, sp), (.intoIter, sp), (.setVar fit.1, sp),
      (.label head.1, sp), (.getVar fit.1, sp), (.iterAdvance, sp), (.setVar fhv.1, sp), (.jumpIfFalse aft.1, sp)] = 8 := rfl
  have hnT : nI [((Instr.label upd.1 : SInstr), sp), (.jump head.1, sp), (.label aft.1, sp)] = 1 := rfl
  simp only [nI_append, hnM, hnT] at hplB hplS irange iclone iiter iset ehead iget iadv isethv ijif eupd ijmp eaft ⊢
  simp only [← Nat.add_assoc] at hplB hplS irange iclone iiter iset ehead iget iadv isethv ijif eupd ijmp eaft ⊢
  -- names and cells
  have hNit : A.N fit.1 := hN fit.1 (Or.inl (Or.inl (Or.inr (by simp [codeVars, var?]))))
  have hNhv : A.N fhv.1 := hN fhv.1 (Or.inl (Or.inl (Or.inr (by simp [codeVars, var?]))))
  have hcit := hA.cell _ hNit
  have hchv := hA.cell _ hNhv
  have hfitName : fit.1 = mangleName G.mod ("$iter_" ++ name)
      (cnt ({ env with scopes := [] :: env.scopes, lm := CB.2 } : CEnv).vm ("$iter_" ++ name)) := by rw [hFit]; rfl
  have hfhvName : fhv.1 = mangleName G.mod name (cnt fit.2.vm name) := by rw [hFhv]; rfl
  have hne : fit.1 ≠ fhv.1 := by
    rw [hfitName, hfhvName]
    intro e
    have := (mangleName_inj G.mod _ _ _ _ e).1
    exact hitT (by rw [this]; exact hnameT)
  have hσne : A.σ fit.1 ≠ A.σ fhv.1 := fun e => hne (hA.inj _ _ hNit hNhv e)
  -- static facts about the scopes
  have hfitsc : fit.2.scopes.tail = env.scopes := by rw [hFit, freshVar_scopes_tail]; rfl
  have hfhvsc : fhv.2.scopes.tail = env.scopes := by rw [hFhv, freshVar_scopes_tail, hfitsc]
  have hCSsc : CS.2.scopes.tail = env.scopes := by rw [← hCS, cgSs_tail, hfhvsc]
  have hvm1 : ∀ k, cnt env.vm k ≤ cnt fit.2.vm k := fun k => by
    rw [hFit]; exact freshVar_vm_mono G.mod _ _ k
  have hvm2 : ∀ k, cnt fit.2.vm k ≤ cnt fhv.2.vm k := fun k => by rw [hFhv]; exact freshVar_vm_mono G.mod _ _ k
  have hvm3 : ∀ k, cnt fhv.2.vm k ≤ cnt CS.2.vm k := fun k => by
    rw [← hCS]; exact (cgS_vm_mono G.mod A.src A.φ _).2.1 _ stmts fhv.2 (Nat.le_refl _) k
  have hvmAll : ∀ k, cnt env.vm k ≤ cnt CS.2.vm k := fun k =>
    Nat.le_trans (hvm1 k) (Nat.le_trans (hvm2 k) (hvm3 k))
  have hkeyIt : cleanupKey G.mod A.src ≠ "$iter_" ++ name := cleanupKey_ne_iter _ _ _
  have hkeyName : cleanupKey G.mod A.src ≠ name := fun e => hA.key (by rw [e]; exact hnameT)
  -- the specification: the bounds
  rw [evalStmt_forS]
  match n, hPE, hPSs with
  | 0, _, _ => rw [evalExpr]; trivial
  | m + 1, hPE, hPSs =>
  have hPEm := hPE m (by omega)
  rw [evalExpr_range]
  have h1 := hPEm A hA a spec ip stk mem aft.2 env.scopes env.vm hoka hwa (fun x hx => hT x (Or.inr (Or.inl hx)))
    (hCA ▸ hplA) hrel.rel hsp
  rw [hCA] at h1
  rcases hea : evalExpr G.cfg m a spec with ⟨r1, st1⟩
  rw [hea] at h1
  cases r1 with
  | error c1 => exact SimGS.of_exprError _ hrel hls h1
  | ok va =>
    obtain ⟨hfr1, mem1, ov1, hov1, hrun1, hml1⟩ := h1
    simp only []
    have hsp1 := hsp.world st1 hfr1 hrun1.inv
    have hrel1 : GRel G A env.scopes env.vm st1.scopes mem1 := by rw [hfr1]; exact hrel.memLe hml1
    have h2 := hPEm A hA b st1 (ip + nI CA.1) (⟨va, ov1⟩ :: stk) mem1 CA.2 env.scopes env.vm hokb hwb
      (fun x hx => hT x (Or.inr (Or.inr (Or.inl hx)))) (hCB ▸ hplB) hrel1.rel hsp1
    rw [hCB] at h2
    rcases heb : evalExpr G.cfg m b st1 with ⟨r2, st2⟩
    rw [heb] at h2
    cases r2 with
    | error c2 =>
      exact SimGS.of_exprError _ hrel hls (SimGE.error_after (nI CB.1) [⟨va, ov1⟩] hrun1 hfr1 hml1 h2)
    | ok vb =>
      obtain ⟨hfr2, mem2, ov2, hov2, hrun2, hml2⟩ := h2
      simp only []
      have hfr02 : st2 = { spec with out := st2.out, heap := st2.heap } := frame_trans hfr1 hfr2
      have hsp2 := hsp.world st2 hfr02 (fun hi => hrun2.inv (hrun1.inv hi))
      have hml02 := hml1.trans hml2
      have hrel2 : GRel G A env.scopes env.vm st2.scopes mem2 := by rw [hfr02]; exact hrel.memLe hml02
      cases va <;> try trivial
      rename_i xa
      cases vb <;> try trivial
      rename_i xb
      simp only []
      rw [iterElems_range]
      by_cases hhuge : (xa.toInt - xb.toInt).natAbs > 100000
      · simp only [hhuge, if_true]; trivial
      simp only [hhuge, if_false]
      -- the VM up to the loop head
      obtain ⟨idv, hidv⟩ : ∃ idv, idv = mem2.it.next := ⟨_, rfl⟩
      obtain ⟨elems0, helems0⟩ : ∃ es, es = (rangeElems xa xb incl).map Val.int := ⟨_, rfl⟩
      rw [← helems0]
      have hrange := Runs.of_exec1 (fr := G.fr) (mem := mem2) (fun it_ k => mkS_intoRange G.code G.lim (withIt G.s it_) A.fn
        (ip + nI CA.1 + nI CB.1) A.rest A.mp k stk mem2.cells st2.world A.c hA.code rsp incl xa xb ov2 ov1 irange)
      have hclone := Runs.of_exec1 (fr := G.fr) (mem := mem2) (fun it_ k => mkS_clone_range G.code G.lim (withIt G.s it_) A.fn
        (ip + nI CA.1 + nI CB.1 + 1) A.rest A.mp k stk mem2.cells st2.world A.c hA.code sp incl xa xb none iclone)
      have hiter : Runs G.fr G.code G.lim G.s A.fn A.rest A.mp (ip + nI CA.1 + nI CB.1 + 1 + 1)
          (⟨.range xa xb incl, none⟩ :: stk) mem2 st2.world (ip + nI CA.1 + nI CB.1 + 1 + 1 + 1)
          (⟨.closure (1000000 + idv), none⟩ :: stk) ⟨mem2.cells, ⟨(idv, elems0) :: mem2.it.iters, idv + 1⟩⟩ st2.world := by
        refine ⟨fun k => ?_, id⟩
        refine ⟨1, ?_⟩
        rw [execHN_one, hidv, helems0]
        exact exec1H_of_next (mkS_intoIter_range G.code G.lim G.s A.fn _ A.rest A.mp k stk mem2.cells st2.world A.c hA.code
          sp incl xa xb none mem2.it iiter hhuge)
      have hsetit : Runs G.fr G.code G.lim G.s A.fn A.rest A.mp (ip + nI CA.1 + nI CB.1 + 1 + 1 + 1)
          (⟨.closure (1000000 + idv), none⟩ :: stk) ⟨mem2.cells, ⟨(idv, elems0) :: mem2.it.iters, idv + 1⟩⟩ st2.world
          (ip + nI CA.1 + nI CB.1 + 1 + 1 + 1 + 1) stk
          ((⟨mem2.cells, ⟨(idv, elems0) :: mem2.it.iters, idv + 1⟩⟩ : Mem).set (A.mp - (A.σ fit.1 : Int))
            (.closure (1000000 + idv))) st2.world :=
        Runs.of_runsTo (fun it_ => RunsTo.of_exec1 (fun k =>
          reach_setVar G.code G.lim (baseOf (withIt G.s it_) A.fn A.rest A.mp st2.world) _ k stk mem2.cells ⟨A.fn, 0⟩ A.rest
            A.c rfl hA.code _ sp (.closure (1000000 + idv)) none iset hcit.1 hcit.2.1))
      obtain ⟨memH0, hmemH0⟩ : ∃ mH : Mem, mH = (⟨mem2.cells, ⟨(idv, elems0) :: mem2.it.iters, idv + 1⟩⟩ : Mem).set
        (A.mp - (A.σ fit.1 : Int)) (.closure (1000000 + idv)) := ⟨_, rfl⟩
      have hpre0 : Runs G.fr G.code G.lim G.s A.fn A.rest A.mp ip stk mem spec.world (A.lab head.1) stk memH0 st2.world := by
        rw [hmemH0, ehead]
        exact ((((hrun1.trans hrun2).trans hrange).trans hclone).trans hiter).trans hsetit
      have hitle2 : ItLe mem.it mem2.it := by
        have := hml02.it; unfold ItR at this; rw [hfr] at this; simpa using this
      -- the rounds
      have again : ∀ (f : Nat), f ≤ m + 1 → ∀ (elems : List Val) (s' : St) (memH : Mem),
          s' = { spec with scopes := s'.scopes, out := s'.out, heap := s'.heap } →
          Runs G.fr G.code G.lim G.s A.fn A.rest A.mp ip stk mem spec.world (A.lab head.1) stk memH s'.world →
          CellsLe (A.mp - (A.nv : Int)) mem.cells memH.cells →
          ItLe mem.it memH.it → idv < memH.it.next → mem.it.next ≤ idv →
          memH.it.iters.lookup idv = some elems →
          memH.cells.lookup (A.mp - (A.σ fit.1 : Int)) = some (.closure (1000000 + idv)) →
          (ScopesRel A.T A.σ G.lim A.mp memH.cells env.scopes s'.scopes ∧ GhostOK A memH) →
          SimGS G A loops lscopes d ip (nI CA.1 + nI CB.1 + 8 + nI CS.1 + 1) stk mem
            (GRel G A CS.2.scopes.tail CS.2.vm) spec
            (forRun G.cfg f name elems (.mk bsp bty stmts none) s') := by
        intro f
        induction f with
        | zero => intro _ elems s' memH _ _ _ _ _ _ _ _ _; rw [forRun]; trivial
        | succ f ih =>
          intro hf elems s' memH hfrs hpre hcl hitle hidlt hidge hlook hghost hsr
          have hsp' := hsp.scopes_out s' hfrs hpre.inv
          -- the invariant of the activation at the loop head
          have hrelH : GRel G A env.scopes env.vm s'.scopes memH := hrel.of_scopes hsr
          have g2 : GRel G A fit.2.scopes fit.2.vm ([] :: s'.scopes) memH := by
            rw [hFit]
            exact GRel.ghostDecl (env := { env with scopes := [] :: env.scopes, lm := CB.2 }) hrelH.push
              ("$iter_" ++ name) hitT [] env.scopes rfl hkeyIt
          have g3 : ∀ v, GRel G A fhv.2.scopes fhv.2.vm (declScopes name v ([] :: s'.scopes))
              (memH.set (A.mp - (A.σ fhv.1 : Int)) v) := by
            intro v
            have := GRel.declare (env := fit.2) hA g2 name hnameT v (by rw [← hFhv]; exact hNhv)
            rw [← hFhv] at this
            exact this
          -- `Get_Var it`
          have hget : Runs G.fr G.code G.lim G.s A.fn A.rest A.mp (A.lab head.1) stk memH s'.world (A.lab head.1 + 1)
              (⟨.closure (1000000 + idv), none⟩ :: stk) memH s'.world :=
            Runs.of_runsTo (fun it_ => RunsTo.of_exec1 (fun k =>
              reach_getVar G.code G.lim (baseOf (withIt G.s it_) A.fn A.rest A.mp s'.world) _ k stk memH.cells ⟨A.fn, 0⟩ A.rest
                A.c rfl hA.code _ sp _ (by rw [ehead]; exact iget) hcit.1 hcit.2.1 hghost))
          cases elems with
          | nil =>
            rw [forRun_nil]
            have hadv : Runs G.fr G.code G.lim G.s A.fn A.rest A.mp (A.lab head.1 + 1)
                (⟨.closure (1000000 + idv), none⟩ :: stk) memH s'.world (A.lab head.1 + 1 + 1)
                (⟨.null, none⟩ :: ⟨.bool false, none⟩ :: stk) memH s'.world := by
              refine ⟨fun k => ?_, id⟩
              refine ⟨1, ?_⟩
              rw [execHN_one]
              exact exec1H_of_next (mkS_iterAdvance_nil G.code G.lim G.s A.fn _ A.rest A.mp k stk memH.cells s'.world A.c
                hA.code sp none memH.it idv (by rw [ehead]; exact iadv) hlook)
            have hset : Runs G.fr G.code G.lim G.s A.fn A.rest A.mp (A.lab head.1 + 1 + 1)
                (⟨.null, none⟩ :: ⟨.bool false, none⟩ :: stk) memH s'.world (A.lab head.1 + 1 + 1 + 1)
                (⟨.bool false, none⟩ :: stk) (memH.set (A.mp - (A.σ fhv.1 : Int)) .null) s'.world :=
              Runs.of_runsTo (fun it_ => RunsTo.of_exec1 (fun k =>
                reach_setVar G.code G.lim (baseOf (withIt G.s it_) A.fn A.rest A.mp s'.world) _ k _ memH.cells ⟨A.fn, 0⟩
                  A.rest A.c rfl hA.code _ sp .null none (by rw [ehead]; exact isethv) hchv.1 hchv.2.1))
            have hjif : Runs G.fr G.code G.lim G.s A.fn A.rest A.mp (A.lab head.1 + 1 + 1 + 1)
                (⟨.bool false, none⟩ :: stk) (memH.set (A.mp - (A.σ fhv.1 : Int)) .null) s'.world (A.lab aft.1)
                stk (memH.set (A.mp - (A.σ fhv.1 : Int)) .null) s'.world :=
              Runs.of_runsTo (fun it_ => RunsTo.of_exec1 (fun k =>
                reach_jumpIfFalse G.code G.lim (baseOf (withIt G.s it_) A.fn A.rest A.mp s'.world) _ k stk _ ⟨A.fn, 0⟩
                  A.rest A.c rfl hA.code (A.lab aft.1) sp false none (by rw [ehead]; exact ijif)))
            refine ⟨hfrs, memH.set (A.mp - (A.σ fhv.1 : Int)) .null,
              ((((hpre.trans hget).trans hadv).trans hset).trans hjif).cast (by rw [eaft]; omega),
              ⟨hcl.trans (CellsLe.set _ _ _ _ hchv.2.2), ItR.of_le hfr hitle⟩, ?_⟩
            have ht := (g3 .null).rel.tail
            rw [hfhvsc] at ht
            refine GRel.vm_mono ⟨by rw [hCSsc]; exact ht, by rw [hCSsc]; exact hrel.key, (g3 .null).ghost,
              (g3 .null).ghostC⟩ hvm3
          | cons x xs =>
            cases f with
            | zero => rw [forRun_cons_short]; trivial
            | succ g =>
            rw [forRun_cons_stmts]
            -- the VM: `Iter_Advance`, the loop variable, `JumpIfFalse`
            obtain ⟨memR, hmemR⟩ : ∃ mR : Mem, mR = ⟨memH.cells, ⟨(idv, xs) :: memH.it.iters.filter (·.1 != idv),
              memH.it.next⟩⟩ := ⟨_, rfl⟩
            have hadv : Runs G.fr G.code G.lim G.s A.fn A.rest A.mp (A.lab head.1 + 1)
                (⟨.closure (1000000 + idv), none⟩ :: stk) memH s'.world (A.lab head.1 + 1 + 1)
                (⟨x, none⟩ :: ⟨.bool true, none⟩ :: stk) memR s'.world := by
              refine ⟨fun k => ?_, id⟩
              refine ⟨1, ?_⟩
              rw [execHN_one, hmemR]
              exact exec1H_of_next (mkS_iterAdvance_cons G.code G.lim G.s A.fn _ A.rest A.mp k stk memH.cells s'.world A.c
                hA.code sp none memH.it idv x xs (by rw [ehead]; exact iadv) hlook)
            have hset : Runs G.fr G.code G.lim G.s A.fn A.rest A.mp (A.lab head.1 + 1 + 1)
                (⟨x, none⟩ :: ⟨.bool true, none⟩ :: stk) memR s'.world (A.lab head.1 + 1 + 1 + 1)
                (⟨.bool true, none⟩ :: stk) (memR.set (A.mp - (A.σ fhv.1 : Int)) x) s'.world :=
              Runs.of_runsTo (fun it_ => RunsTo.of_exec1 (fun k =>
                reach_setVar G.code G.lim (baseOf (withIt G.s it_) A.fn A.rest A.mp s'.world) _ k _ memR.cells ⟨A.fn, 0⟩
                  A.rest A.c rfl hA.code _ sp x none (by rw [ehead]; exact isethv) hchv.1 hchv.2.1))
            have hjif : Runs G.fr G.code G.lim G.s A.fn A.rest A.mp (A.lab head.1 + 1 + 1 + 1)
                (⟨.bool true, none⟩ :: stk) (memR.set (A.mp - (A.σ fhv.1 : Int)) x) s'.world (A.lab head.1 + 1 + 1 + 1 + 1)
                stk (memR.set (A.mp - (A.σ fhv.1 : Int)) x) s'.world :=
              Runs.of_runsTo (fun it_ => RunsTo.of_exec1 (fun k =>
                reach_jumpIfFalse G.code G.lim (baseOf (withIt G.s it_) A.fn A.rest A.mp s'.world) _ k stk _ ⟨A.fn, 0⟩
                  A.rest A.c rfl hA.code (A.lab aft.1) sp true none (by rw [ehead]; exact ijif)))
            obtain ⟨memB, hmemB⟩ : ∃ mB : Mem, mB = memR.set (A.mp - (A.σ fhv.1 : Int)) x := ⟨_, rfl⟩
            rw [← hmemB] at hset hjif
            have hpreB : Runs G.fr G.code G.lim G.s A.fn A.rest A.mp ip stk mem spec.world
                (ip + nI CA.1 + nI CB.1 + 8) stk memB (roundSt name x s').world :=
              ((((hpre.trans hget).trans hadv).trans hset).trans hjif).cast (by rw [ehead])
            have hclB : CellsLe (A.mp - (A.nv : Int)) mem.cells memB.cells := by
              rw [hmemB, hmemR]; exact hcl.trans (CellsLe.set _ _ _ _ hchv.2.2)
            have hitR : ItLe mem.it memB.it := by
              rw [hmemB, hmemR]
              refine ⟨hitle.1, fun j hj => ?_⟩
              have hne' : j ≠ idv := by omega
              have hb : (j == idv) = false := by simpa using hne'
              show ((idv, xs) :: memH.it.iters.filter (·.1 != idv)).lookup j = _
              rw [List.lookup_cons, hb, lookup_filter_ne' _ _ _ hne']
              exact hitle.2 j hj
            have hlookR : memB.it.iters.lookup idv = some xs := by
              rw [hmemB, hmemR]; show ((idv, xs) :: _).lookup idv = _; simp [List.lookup_cons]
            have hnextR : idv < memB.it.next := by rw [hmemB, hmemR]; exact hidlt
            -- the activation with the iterator's cell protected
            obtain ⟨A', hA'def⟩ : ∃ A' : Act, A' = { A with ghost := (fit.1, .closure (1000000 + idv)) :: A.ghost } := ⟨_, rfl⟩
            have hA' : A'.OK G := by
              rw [hA'def]
              exact ⟨hA.code, hA.inj, hA.slot, hA.lo, hA.hi, hA.phi, hA.key, hA.println, hA.fnName,
                fun p hp => by
                  rcases List.mem_cons.mp hp with rfl | hp
                  · exact ⟨hNit, name, _, hfitName, hitT⟩
                  · exact hA.ghostN p hp,
                hA.ghostT⟩
            have hcellsB : memB.cells = (memH.set (A.mp - (A.σ fhv.1 : Int)) x).cells := by rw [hmemB, hmemR]; rfl
            have g3B : GRel G A fhv.2.scopes fhv.2.vm (declScopes name x ([] :: s'.scopes)) memB :=
              (g3 x).cells_congr hcellsB
            have hghostB : memB.cells.lookup (A.mp - (A.σ fit.1 : Int)) = some (.closure (1000000 + idv)) := by
              rw [hcellsB, Mem.set_cells, lookup_memSet, if_neg (by omega)]; exact hghost
            have hrelB : GRel G A' fhv.2.scopes fhv.2.vm (roundSt name x s').scopes memB := by
              rw [hA'def]
              refine ⟨g3B.rel, g3B.key, fun p hp => ?_, fun p hp => ?_⟩
              · rcases List.mem_cons.mp hp with rfl | hp
                · exact hghostB
                · exact g3B.ghost p hp
              · rcases List.mem_cons.mp hp with rfl | hp
                · refine ⟨name, _, hfitName, ?_⟩
                  show cnt env.vm ("$iter_" ++ name) < cnt fhv.2.vm ("$iter_" ++ name)
                  refine Nat.lt_of_lt_of_le ?_ (hvm2 _)
                  rw [hFit, cnt_freshVar]; simp
                · exact g3B.ghostC p hp
            have hfrR : roundSt name x s' = { spec with scopes := (roundSt name x s').scopes, out := (roundSt name x s').out, heap := (roundSt name x s').heap } := by
              rw [roundSt_frame, hfrs]
            have hspR : SpecOK G A'.mp (roundSt name x s') := by
              rw [hA'def]; exact hsp.scopes_out _ hfrR (fun hi => by rw [roundSt_frame]; exact hpre.inv hi)
            have hPS := hPSs g (by omega) A' hA' ((aft.1, upd.1) :: loops) env.scopes 1 stmts fhv.2 (roundSt name x s')
              (ip + nI CA.1 + nI CB.1 + 8) stk memB (by rw [hA'def]; exact hoks)
              (by rw [hA'def]; exact fun y hy => hT y (Or.inr (Or.inr (Or.inr hy))))
              (by rw [hA'def]; exact hwS)
              (by rw [hA'def, hCS]; exact fun mm hm => hN mm (Or.inl (Or.inr hm)))
              (by rw [hA'def, hCS]; exact hplS) (Nat.le_refl 1)
              (by rw [List.drop_one, hfhvsc]) hrelB hspR
            rw [hA'def] at hPS
            simp only [hCS] at hPS
            rcases hes : evalStmts G.cfg g stmts (roundSt name x s') with ⟨r, s1⟩
            rw [hes] at hPS
            have hmk : ∀ mem3 : Mem, MemLe G.fr (A.mp - (A.nv : Int)) memB mem3 →
                MemLe G.fr (A.mp - (A.nv : Int)) mem mem3 ∧ ItLe mem.it mem3.it ∧ idv < mem3.it.next ∧
                  mem3.it.iters.lookup idv = some xs := by
              intro mem3 hm3
              have hle3 : ItLe memB.it mem3.it := by
                have := hm3.it; unfold ItR at this; rw [hfr] at this; simpa using this
              refine ⟨⟨hclB.trans hm3.cells, ItR.of_le hfr (hitR.trans hle3)⟩, hitR.trans hle3,
                Nat.lt_of_lt_of_le hnextR hle3.1, ?_⟩
              rw [hle3.2 idv hnextR]; exact hlookR
            have hfr1' : ∀ (e : s1 = { roundSt name x s' with scopes := s1.scopes, out := s1.out, heap := s1.heap }),
                ({ s1 with scopes := s1.scopes.tail } : St) =
                  { spec with scopes := ({ s1 with scopes := s1.scopes.tail } : St).scopes, out := ({ s1 with scopes := s1.scopes.tail } : St).out, heap := ({ s1 with scopes := s1.scopes.tail } : St).heap } := by
              intro e
              have e' : s1 = { spec with scopes := s1.scopes, out := s1.out, heap := s1.heap } := by
                rw [e, hfrR]
              exact frame_pop spec s1 e'
            -- back to the loop head
            have hback : ∀ (mem3 : Mem) (w3 : World), Runs G.fr G.code G.lim G.s A.fn A.rest A.mp (A.lab upd.1) stk mem3 w3
                (A.lab head.1) stk mem3 w3 := fun mem3 w3 =>
              Runs.of_runsTo (fun it_ => RunsTo.of_exec1 (fun k =>
                reach_jump G.code G.lim (baseOf (withIt G.s it_) A.fn A.rest A.mp w3) _ k stk mem3.cells ⟨A.fn, 0⟩ A.rest A.c
                  rfl hA.code (A.lab head.1) sp (by rw [eupd]; exact ijmp)))
            have hnext : ∀ (mem3 : Mem), MemLe G.fr (A.mp - (A.nv : Int)) memB mem3 →
                s1 = { roundSt name x s' with scopes := s1.scopes, out := s1.out, heap := s1.heap } →
                Runs G.fr G.code G.lim G.s A.fn A.rest A.mp (ip + nI CA.1 + nI CB.1 + 8) stk memB (roundSt name x s').world
                  (A.lab upd.1) stk mem3 s1.world →
                (ScopesRel A.T A.σ G.lim A.mp mem3.cells env.scopes s1.scopes.tail ∧
                  GhostOK { A with ghost := (fit.1, .closure (1000000 + idv)) :: A.ghost } mem3) →
                SimGS G A loops lscopes d ip (nI CA.1 + nI CB.1 + 8 + nI CS.1 + 1) stk mem
                  (GRel G A CS.2.scopes.tail CS.2.vm) spec
                  (forRun G.cfg (g + 1) name xs (.mk bsp bty stmts none) { s1 with scopes := s1.scopes.tail }) := by
              intro mem3 hm3 hfr3 hrun3 hsr3
              obtain ⟨hml, hit3, hnx3, hlk3⟩ := hmk mem3 hm3
              exact ih (by omega) xs { s1 with scopes := s1.scopes.tail } mem3 (hfr1' hfr3)
                ((hpreB.trans hrun3).trans (hback mem3 s1.world)) hml.cells hit3 hnx3 hidge hlk3
                (hsr3.2 _ (List.mem_cons_self ..)) ⟨hsr3.1, ghost_sublist hsr3.2⟩
            cases r with
            | ok u =>
              obtain ⟨hfr3, mem3, hrun3, hml3, hq⟩ := hPS
              simp only []
              refine hnext mem3 hml3 hfr3 (hrun3.cast (by rw [eupd])) ⟨?_, hq.ghost⟩
              have := hq.rel.tail.scopes
              rw [hCSsc] at this
              exact this
            | error c =>
              cases c
              case brk =>
                obtain ⟨hfr3, mem3, hrun3, hml3, hsr3⟩ := hPS
                obtain ⟨hml, _, _, _⟩ := hmk mem3 hml3
                simp only []
                refine ⟨hfr1' hfr3, mem3, (hpreB.trans hrun3).cast (by rw [eaft]; omega), hml, ?_⟩
                have hsr3' : ScopesRel A.T A.σ G.lim A.mp mem3.cells env.scopes s1.scopes.tail := by
                  have := hsr3.1; rwa [List.drop_one] at this
                have hg := hrel.of_scopes (ss' := s1.scopes.tail) ⟨hsr3', ghost_sublist hsr3.2⟩
                exact GRel.vm_mono (by rw [hCSsc]; exact hg) hvmAll
              case cont =>
                obtain ⟨hfr3, mem3, hrun3, hml3, hsr3⟩ := hPS
                simp only []
                refine hnext mem3 hml3 hfr3 hrun3 ⟨?_, hsr3.2⟩
                have := hsr3.1; rwa [List.drop_one] at this
              case ret v =>
                obtain ⟨hrt, hfr3, mem3, o3, ho3, hrun3, hml3⟩ := hPS
                obtain ⟨hml, _, _, _⟩ := hmk mem3 hml3
                exact ⟨hrt, hfr1' hfr3, mem3, o3, ho3, hpreB.trans hrun3, hml⟩
              case fatal kd fm fsp => exact fun hk => hpreB.fatal (hPS hk)
              case unsupported => trivial
              case timeout => trivial
              case throw msg tsp =>
                obtain ⟨hfr3, mem3, hT3, hml3, hsr3⟩ := hPS
                obtain ⟨hml, _, _, _⟩ := hmk mem3 hml3
                simp only []
                refine ⟨hfr1' hfr3, mem3, Runs.throw [] hpreB hT3, hml, ?_, ghost_sublist hsr3.2⟩
                rw [hls]
                have := ScopesRel.drop d hsr3.1
                rwa [List.drop_one] at this
      -- from the first round on
      have hidge : mem.it.next ≤ idv := by rw [hidv]; exact hitle2.1
      have hres := again (m + 1) (Nat.le_refl _) elems0 st2 memH0
        (by rw [hfr02]) hpre0
        (by rw [hmemH0]; exact hml02.cells.mono (by omega) |>.trans (CellsLe.set _ _ _ _ hcit.2.2))
        (by
          rw [hmemH0]
          refine ⟨Nat.le_trans hitle2.1 (by show mem2.it.next ≤ idv + 1; omega), fun j hj => ?_⟩
          have hne' : j ≠ idv := by omega
          have hb : (j == idv) = false := by simpa using hne'
          show ((idv, elems0) :: mem2.it.iters).lookup j = _
          rw [List.lookup_cons, hb]
          exact hitle2.2 j hj)
        (by rw [hmemH0]; show idv < idv + 1; omega) hidge
        (by rw [hmemH0]; show ((idv, elems0) :: mem2.it.iters).lookup idv = _; simp [List.lookup_cons])
        (by rw [hmemH0, Mem.set_cells, lookup_memSet]; simp)
        ⟨?_, ?_⟩
      · exact hres
      · rw [hmemH0, Mem.set_cells]
        refine ScopesRel.mem_congr A.T A.σ G.lim A.mp (fun mm hmm => ?_) hrel2.rel.scopes
        rw [lookup_memSet, if_neg]
        intro e
        have hNm := hrel2.rel.inN mm hmm
        have : A.σ mm = A.σ fit.1 := by omega
        have hmm' := hA.inj _ _ hNm hNit this
        obtain ⟨sc, hsc, p, hp, hpT, rfl⟩ := (mem_liveNames A.T env.scopes mm).mp hmm
        obtain ⟨c, hc, _⟩ := hrel2.rel.named sc hsc p hp hpT
        rw [hc, hfitName] at hmm'
        have := (mangleName_inj G.mod _ _ _ _ hmm').1
        exact hitT (this ▸ hpT)
      · intro p hp
        rw [hmemH0, Mem.set_cells, lookup_memSet, if_neg]
        · exact hrel2.ghost p hp
        · intro e
          obtain ⟨hNp, y, c, hpe, hy⟩ := hA.ghostN p hp
          have : A.σ p.1 = A.σ fit.1 := by omega
          have hpp := hA.inj _ _ hNp hNit this
          obtain ⟨y', c', hpe', hc'⟩ := hrel2.ghostC p hp
          rw [hpe', hfitName] at hpp
          obtain ⟨e1, e2⟩ := mangleName_inj G.mod _ _ _ _ hpp
          rw [e1] at hc'
          have : cnt ({ env with scopes := [] :: env.scopes, lm := CB.2 } : CEnv).vm ("$iter_" ++ name) =
              cnt env.vm ("$iter_" ++ name) := rfl
          omega

end HmsProofs.Sim
