import Hms.Print.Optimize
/-!
# The optimizer model preserves the specification semantics
-/
namespace HmsProofs.Lemmas.Print
open Hms Hms.Core Hms.Print

/-- The hypothesis of `optimize_preserves`: a statement whose recorded type is `never` does not
complete normally — whatever the fuel and the state, its evaluation ends in a control transfer
(`break`, `continue`, `return`, `throw`), a fatal error or by running out of fuel. -/
def NeverDiverges (cfg : Cfg) (isNever : Stmt → Bool) : Prop :=
  ∀ (fuel : Nat) (s : Stmt) (st : St) (u : Unit) (st' : St),
    isNever s = true → evalStmt cfg fuel s st ≠ (.ok u, st')

theorem keptCount_eq (isNever : Stmt → Bool) (stmts : List Stmt) :
    (takeThrough isNever stmts).length = keptCount (stmts.map isNever) := by
  induction stmts with
  | nil => rfl
  | cons s ss ih =>
    simp only [takeThrough, List.map_cons, keptCount]
    split <;> simp [ih]; omega

theorem takeThrough_prefix (isNever : Stmt → Bool) (stmts : List Stmt) :
    takeThrough isNever stmts <+: stmts := by
  induction stmts with
  | nil => exact List.prefix_refl _
  | cons s ss ih =>
    simp only [takeThrough]
    split
    · exact ⟨ss, rfl⟩
    · exact (List.prefix_cons_inj s).mpr ih

/-- Dropping the statements after the first diverging one does not change what the statement
list does, at any fuel and in any state. -/
theorem evalStmts_takeThrough (cfg : Cfg) (isNever : Stmt → Bool) (h : NeverDiverges cfg isNever) :
    ∀ (stmts : List Stmt) (fuel : Nat) (st : St),
      evalStmts cfg fuel (takeThrough isNever stmts) st = evalStmts cfg fuel stmts st := by
  intro stmts
  induction stmts with
  | nil => intro fuel st; rfl
  | cons s ss ih =>
    intro fuel st
    cases fuel with
    | zero => simp [evalStmts]
    | succ fuel =>
      simp only [takeThrough]
      split
      · rename_i hs
        simp only [evalStmts, bind, ExceptT.bind, ExceptT.mk, StateT.bind, ExceptT.bindCont]
        cases hres : evalStmt cfg fuel s st with
        | mk r st' =>
          cases r with
          | ok u => exact absurd hres (h fuel s st u st' hs)
          | error c => rfl
      · simp only [evalStmts, bind, ExceptT.bind, ExceptT.mk, StateT.bind, ExceptT.bindCont]
        cases hres : evalStmt cfg fuel s st with
        | mk r st' =>
          cases r with
          | ok u => simpa using ih fuel st'
          | error c => rfl

theorem evalBlock_optimize (cfg : Cfg) (isNever : Stmt → Bool) (h : NeverDiverges cfg isNever)
    (b : Block) (fuel : Nat) : evalBlock cfg fuel (optimizeBlock isNever b) = evalBlock cfg fuel b := by
  cases b with
  | mk sp ty stmts e =>
    cases fuel with
    | zero => simp [optimizeBlock, evalBlock]
    | succ fuel =>
      funext st
      simp only [optimizeBlock, evalBlock, bind, ExceptT.bind, ExceptT.mk, StateT.bind, ExceptT.bindCont]
      rw [evalStmts_takeThrough cfg isNever h stmts fuel st]

end HmsProofs.Lemmas.Print

/-! ## Whole programs: the evaluator does not see the difference -/

namespace HmsProofs.Lemmas.Print
open Hms Hms.Core Hms.Print

theorem find_optModule (isNever : Stmt → Bool) (p : Program) (module : String) :
    (optimizeProgram isNever p).find? (·.name == module)
      = (p.find? (·.name == module)).map (optimizeModule isNever) := by
  unfold optimizeProgram
  rw [List.find?_map]
  rfl

theorem findFn_optimize (isNever : Stmt → Bool) (p : Program) (module name : String) :
    findFn (optimizeProgram isNever p) module name
      = (findFn p module name).map (optimizeFn isNever) := by
  unfold findFn
  rw [find_optModule]
  cases p.find? (·.name == module) with
  | none => rfl
  | some m =>
    simp only [Option.map_some, optimizeModule]
    rw [List.find?_map]
    rfl

end HmsProofs.Lemmas.Print

namespace HmsProofs.Lemmas.Print
open Hms Hms.Core Hms.Print

theorem findSome_map {α β γ : Type} (g : α → Option β) (f : β → γ) (l : List α) :
    l.findSome? (fun a => (g a).map f) = (l.findSome? g).map f := by
  induction l with
  | nil => rfl
  | cons a l ih =>
    simp only [List.findSome?_cons]
    cases g a with
    | none => simpa using ih
    | some b => rfl

theorem resolveFn_optimize (isNever : Stmt → Bool) (p : Program) (module name : String) :
    resolveFn (optimizeProgram isNever p) module name
      = (resolveFn p module name).map (fun mf => (mf.1, optimizeFn isNever mf.2)) := by
  unfold resolveFn
  rw [findFn_optimize, find_optModule]
  cases findFn p module name with
  | some f => rfl
  | none =>
    simp only [Option.map_none]
    cases p.find? (·.name == module) with
    | none => rfl
    | some m =>
      simp only [Option.map_some, optimizeModule]
      rw [← findSome_map]
      congr 1
      funext imp
      split
      · rw [findFn_optimize]
        cases findFn p imp.fromModule name <;> rfl
      · rfl

def optCfg (isNever : Stmt → Bool) (cfg : Cfg) : Cfg :=
  { cfg with prog := optimizeProgram isNever cfg.prog }

theorem evalBlock_takeThrough (cfg : Cfg) (isNever : Stmt → Bool) (h : NeverDiverges cfg isNever)
    (sp sp' : Span) (ty ty' : Ty) (stmts : List Stmt) (e : Option Expr) (fuel : Nat) :
    evalBlock cfg fuel (.mk sp ty (takeThrough isNever stmts) e) = evalBlock cfg fuel (.mk sp' ty' stmts e) := by
  cases fuel with
  | zero => simp [evalBlock]
  | succ fuel =>
    funext st
    simp only [evalBlock, bind, ExceptT.bind, ExceptT.mk, StateT.bind, ExceptT.bindCont]
    rw [evalStmts_takeThrough cfg isNever h stmts fuel st]

theorem callBody_optimize (cfg : Cfg) (isNever : Stmt → Bool) (h : NeverDiverges cfg isNever)
    (fuel : Nat) (sp : Span) (m : String) (params : List Param) (body : Block) (vals : List Val) :
    callBody cfg fuel sp m params (optimizeBlock isNever body) vals = callBody cfg fuel sp m params body vals := by
  cases fuel with
  | zero => simp [callBody]
  | succ fuel =>
    cases body with
    | mk bsp bty stmts e =>
      simp only [callBody, optimizeBlock]
      rw [evalBlock_takeThrough cfg isNever h _ ⟨0,0,0,0⟩ _ .null]

end HmsProofs.Lemmas.Print

namespace HmsProofs.Lemmas.Print
open Hms Hms.Core Hms.Print

/-- All evaluator functions agree on `cfg'` and `cfg` at fuel `n`. -/
structure SimAt (cfg' cfg : Cfg) (n : Nat) : Prop where
  expr : ∀ e, evalExpr cfg' n e = evalExpr cfg n e
  list : ∀ es, evalList cfg' n es = evalList cfg n es
  fields : ∀ fs, evalFields cfg' n fs = evalFields cfg n fs
  arms : ∀ v as d, evalArms cfg' n v as d = evalArms cfg n v as d
  anyLit : ∀ v ls, anyLit cfg' n v ls = anyLit cfg n v ls
  place : ∀ e, evalPlace cfg' n e = evalPlace cfg n e
  call : ∀ sp b as, evalCall cfg' n sp b as = evalCall cfg n sp b as
  apply : ∀ sp f vs, applyFn cfg' n sp f vs = applyFn cfg n sp f vs
  body : ∀ sp m ps b vs, callBody cfg' n sp m ps b vs = callBody cfg n sp m ps b vs
  block : ∀ b, evalBlock cfg' n b = evalBlock cfg n b
  stmts : ∀ ss, evalStmts cfg' n ss = evalStmts cfg n ss
  stmt : ∀ s, evalStmt cfg' n s = evalStmt cfg n s
  loop : ∀ c b, loopRun cfg' n c b = loopRun cfg n c b
  for_ : ∀ nm xs b, forRun cfg' n nm xs b = forRun cfg n nm xs b

theorem simAt_zero (cfg' cfg : Cfg) : SimAt cfg' cfg 0 := by
  constructor <;> intros <;> simp [evalExpr, evalList, evalFields, evalArms, anyLit, evalPlace, evalCall,
    applyFn, callBody, evalBlock, evalStmts, evalStmt, loopRun, forRun]

end HmsProofs.Lemmas.Print

namespace HmsProofs.Lemmas.Print
open Hms Hms.Core Hms.Print

theorem simAt_succ_easy (cfg' cfg : Cfg) (n : Nat) (ih : SimAt cfg' cfg n) :
    (∀ es, evalList cfg' (n+1) es = evalList cfg (n+1) es) ∧
    (∀ fs, evalFields cfg' (n+1) fs = evalFields cfg (n+1) fs) ∧
    (∀ v as d, evalArms cfg' (n+1) v as d = evalArms cfg (n+1) v as d) ∧
    (∀ v ls, anyLit cfg' (n+1) v ls = anyLit cfg (n+1) v ls) ∧
    (∀ e, evalPlace cfg' (n+1) e = evalPlace cfg (n+1) e) ∧
    (∀ sp b as, evalCall cfg' (n+1) sp b as = evalCall cfg (n+1) sp b as) ∧
    (∀ b, evalBlock cfg' (n+1) b = evalBlock cfg (n+1) b) ∧
    (∀ ss, evalStmts cfg' (n+1) ss = evalStmts cfg (n+1) ss) ∧
    (∀ s, evalStmt cfg' (n+1) s = evalStmt cfg (n+1) s) ∧
    (∀ c b, loopRun cfg' (n+1) c b = loopRun cfg (n+1) c b) ∧
    (∀ nm xs b, forRun cfg' (n+1) nm xs b = forRun cfg (n+1) nm xs b) := by
  refine ⟨?_, ?_, ?_, ?_, ?_, ?_, ?_, ?_, ?_, ?_, ?_⟩
  · intro es; cases es <;> simp only [evalList, ih.expr, ih.list]
  · intro fs
    cases fs with
    | nil => simp only [evalFields]
    | cons f fs => obtain ⟨k, e⟩ := f; simp only [evalFields, ih.expr, ih.fields]
  · intro v as d
    cases as with
    | nil => cases d <;> simp only [evalArms, ih.expr]
    | cons a as => obtain ⟨lits, act⟩ := a; simp only [evalArms, ih.expr, ih.arms, ih.anyLit]
  · intro v ls; cases ls <;> simp only [anyLit, ih.expr, ih.anyLit]
  · intro e; cases e <;> simp only [evalPlace, ih.expr, ih.place]
  · intro sp b as; simp only [evalCall, ih.expr, ih.list, ih.apply]
  · intro b; cases b; simp only [evalBlock, ih.expr, ih.stmts]
  · intro ss; cases ss <;> simp only [evalStmts, ih.stmt, ih.stmts]
  · intro s; cases s <;> simp only [evalStmt, ih.expr, ih.list, ih.loop, ih.for_]
  · intro c b; simp only [loopRun, ih.expr, ih.block, ih.loop]
  · intro nm xs b; cases xs <;> simp only [forRun, ih.block, ih.for_]

end HmsProofs.Lemmas.Print

namespace HmsProofs.Lemmas.Print
open Hms Hms.Core Hms.Print

theorem callBody_congr (cfg' cfg : Cfg) (n : Nat) (ih : SimAt cfg' cfg n) (hl : cfg'.callLimit = cfg.callLimit) :
    ∀ sp m ps b vs, callBody cfg' (n+1) sp m ps b vs = callBody cfg (n+1) sp m ps b vs := by
  intro sp m ps b vs
  cases b
  simp only [callBody, ih.block, hl]

theorem evalExpr_nonident (cfg' cfg : Cfg) (n : Nat) (ih : SimAt cfg' cfg n)
    (hres : ∀ a b, (resolveFn cfg'.prog a b).map (·.1) = (resolveFn cfg.prog a b).map (·.1)) :
    ∀ e, evalExpr cfg' (n+1) e = evalExpr cfg (n+1) e := by
  intro e
  cases e
  case ident sp ty name g f s =>
    funext st
    simp only [evalExpr, bind, ExceptT.bind, ExceptT.mk, StateT.bind, ExceptT.bindCont, get, getThe,
      MonadStateOf.get, liftM, monadLift, MonadLift.monadLift, ExceptT.lift, StateT.get, Functor.map, StateT.map,
      pure, ExceptT.pure]
    have h := hres st.module name
    rcases h1 : resolveFn cfg'.prog st.module name with _ | ⟨m1, f1⟩ <;>
      rcases h2 : resolveFn cfg.prog st.module name with _ | ⟨m2, f2⟩ <;>
      simp only [h1, h2, Option.map_none, Option.map_some, reduceCtorEq, Option.some.injEq] at h
    · rfl
    · subst h; rfl
  all_goals simp only [evalExpr, ih.expr, ih.list, ih.fields, ih.arms, ih.place, ih.call, ih.block]

end HmsProofs.Lemmas.Print

namespace HmsProofs.Lemmas.Print
open Hms Hms.Core Hms.Print

theorem applyFn_step (cfg : Cfg) (isNever : Stmt → Bool) (hnd : NeverDiverges cfg isNever) (n : Nat)
    (ih : SimAt (optCfg isNever cfg) cfg n) :
    ∀ sp f vs, applyFn (optCfg isNever cfg) (n+1) sp f vs = applyFn cfg (n+1) sp f vs := by
  intro sp f vs
  cases f
  case fn m name =>
    simp only [applyFn, optCfg, findFn_optimize]
    cases findFn cfg.prog m name with
    | none => rfl
    | some fd =>
      simp only [Option.map_some, optimizeFn]
      have := ih.body sp m fd.params (optimizeBlock isNever fd.body) vs
      simp only [optCfg] at this
      rw [this, callBody_optimize cfg isNever hnd]
  all_goals simp only [applyFn, ih.body]
end HmsProofs.Lemmas.Print

namespace HmsProofs.Lemmas.Print
open Hms Hms.Core Hms.Print

theorem resolveFn_fst_optimize (isNever : Stmt → Bool) (p : Program) (a b : String) :
    (resolveFn (optimizeProgram isNever p) a b).map (·.1) = (resolveFn p a b).map (·.1) := by
  rw [resolveFn_optimize]
  cases resolveFn p a b <;> rfl

theorem sim_all (cfg : Cfg) (isNever : Stmt → Bool) (hnd : NeverDiverges cfg isNever) :
    ∀ n, SimAt (optCfg isNever cfg) cfg n := by
  intro n
  induction n with
  | zero => exact simAt_zero _ _
  | succ n ih =>
    obtain ⟨h1, h2, h3, h4, h5, h6, h7, h8, h9, h10, h11⟩ := simAt_succ_easy _ _ n ih
    exact {
      expr := evalExpr_nonident _ _ n ih (fun a b => resolveFn_fst_optimize isNever cfg.prog a b)
      list := h1, fields := h2, arms := h3, anyLit := h4, place := h5, call := h6
      apply := applyFn_step cfg isNever hnd n ih
      body := callBody_congr _ _ n ih rfl
      block := h7, stmts := h8, stmt := h9, loop := h10, for_ := h11 }

theorem runProgram_optimize (cfg : Cfg) (isNever : Stmt → Bool) (hnd : NeverDiverges cfg isNever)
    (fuel : Nat) (entry : String) :
    runProgram (optCfg isNever cfg) fuel entry = runProgram cfg fuel entry := by
  have hs := sim_all cfg isNever hnd fuel
  unfold runProgram
  have he : ∀ e, evalExpr { prog := optimizeProgram isNever cfg.prog, callLimit := cfg.callLimit, hostSingletons := cfg.hostSingletons } fuel e
      = evalExpr cfg fuel e := hs.expr
  have ha : ∀ sp f vs, applyFn { prog := optimizeProgram isNever cfg.prog, callLimit := cfg.callLimit, hostSingletons := cfg.hostSingletons } fuel sp f vs
      = applyFn cfg fuel sp f vs := hs.apply
  simp only [optCfg, findFn_optimize, he, ha]
  have hfor : ∀ {β : Type} (f : Module → β → M (ForInStep β)) (b : β),
      forIn (optimizeProgram isNever cfg.prog) b f = forIn cfg.prog b (fun m => f (optimizeModule isNever m)) := by
    intro β f b
    unfold optimizeProgram
    rw [List.forIn_map]
  rw [hfor]
  cases findFn cfg.prog "main" entry with
  | none => rfl
  | some fd => rfl

end HmsProofs.Lemmas.Print

/-! ## An instance of the hypothesis, and why it is needed -/

namespace HmsProofs.Lemmas.Print
open Hms Hms.Core Hms.Print

/-- `return`, `break`, `continue`. -/
def isControl : Stmt → Bool
  | .ret .. | .brk _ | .cont _ => true
  | _ => false

/-- The three control statements never complete normally, in any program: for them the
hypothesis of `optimize_preserves` is a theorem. -/
theorem control_never_diverges (cfg : Cfg) : NeverDiverges cfg isControl := by
  intro fuel s st u st' hs
  have err : ∀ (c : Ctl) (s1 : St), (Except.error c, s1) ≠ ((Except.ok u : Except Ctl Unit), st') := by
    intro c s1 h; cases h
  cases fuel with
  | zero =>
    simp only [evalStmt, throwCtl, throw, throwThe, MonadExceptOf.throw, ExceptT.mk, pure, StateT.pure]
    exact err _ _
  | succ fuel =>
    cases s <;> simp only [isControl, Bool.false_eq_true] at hs
    case ret sp e =>
      cases e with
      | none =>
        simp only [evalStmt, throwCtl, throw, throwThe, MonadExceptOf.throw, ExceptT.mk, pure, StateT.pure]
        exact err _ _
      | some e =>
        simp only [evalStmt, bind, ExceptT.bind, ExceptT.mk, StateT.bind, ExceptT.bindCont]
        cases evalExpr cfg fuel e st with
        | mk r st1 =>
          cases r <;>
            simp only [throwCtl, throw, throwThe, MonadExceptOf.throw, ExceptT.mk, pure, StateT.pure] <;>
            exact err _ _
    case brk sp =>
      simp only [evalStmt, throwCtl, throw, throwThe, MonadExceptOf.throw, ExceptT.mk, pure, StateT.pure]
      exact err _ _
    case cont sp =>
      simp only [evalStmt, throwCtl, throw, throwThe, MonadExceptOf.throw, ExceptT.mk, pure, StateT.pure]
      exact err _ _

def sp0 : Span := ⟨0, 0, 0, 0⟩

/-- `match 0 { 1 => { return; } }` as the analyzer records it while finding A5 is open: no default
arm, every arm diverges, recorded type `never` — but no arm matches and the match completes. -/
def a5Match : Stmt :=
  .exprS sp0 (.matchE sp0 .never (.int sp0 0)
    [([.int sp0 1], .blockE (.mk sp0 .never [.ret sp0 none] none))] none)

/-- Live code after it: `1 / 0;` (the fatal error shows that it ran). -/
def a5Live : Stmt := .exprS sp0 (.infix sp0 .int .div (.int sp0 1) (.int sp0 0))

def a5Block : Block := .mk sp0 .never [a5Match, a5Live] none

def isOk : Except Ctl Val × St → Bool
  | (.ok _, _) => true
  | _ => false

def isFatal : Except Ctl Val × St → Bool
  | (.error (.fatal ..), _) => true
  | _ => false

end HmsProofs.Lemmas.Print
